(* BrokerThms.v — the property-level consequences of the broker invariant *)
From Coq Require Import List NArith ZArith Bool Arith Lia.
From Snow Require Import Model.Broker Proofs.BrokerProofs Proofs.BrokerSteps.
Import ListNotations.
Open Scope N_scope.

(* the ghost history of installed lists means what it says: it grows by exactly the installed list *)
Lemma step_hist v s l s' : step v s l = Some s' ->
  bridges s' = (match l with L_Install br => br | _ => bridges s end) /\
  br_hist s' = (match l with L_Install br => br :: br_hist s | _ => br_hist s end).
Proof.
  intros H. destruct l; try (match type of H with step _ _ ?L = _ => exact (step_bridges v s L s' eq_refl H) end).
  cbn [step] in H. injection H as <-. split; reflexivity.
Qed.

Lemma reachable_step v br s l s' : reachable v br s -> step v s l = Some s' -> reachable v br s'.
Proof.
  intros [ls H] Hs. exists (ls ++ [l]). revert H. generalize (init br).
  induction ls as [|x ls IH]; intros s0 H; cbn [run app] in *.
  - injection H as ->. rewrite Hs. reflexivity.
  - destruct (step v s0 x); [apply IH; exact H | discriminate].
Qed.

(* ------------------------------------------------------------------ *)
(* C02                                                                   *)

Definition client_answered (c : clrec) (a : answer) : Prop :=
  c_pc c = C_Cleanup (CAnswer a) \/ c_pc c = C_Done (CAnswer a).

Theorem answer_routing v br s p e c a :
  reachable v br s -> nth_error (entries s) p = Some e -> e_cl e = Some c -> client_answered c a ->
  (exists aid, In (aid, e_sid e, a) (answer_log s)) /\
  (forall m, e_w e = W_Done (PMatch m) -> m_offer m = c_offer c).
Proof.
  intros R Hp Hc Ha. pose proof (reachable_inv v br s R) as I.
  destruct (inv_entries v s I p e Hp) as [_ [Hm [_ [[_ [_ Hans]] _]]]].
  split.
  - eapply (inv_posted v s I); [exact Hp|]. eapply Hans; eassumption.
  - intros m Hw. destruct Hm as [_ [Hm2 _]]. destruct (Hm2 m Hw) as [c0 [Hc0 [Ho _]]]. congruence.
Qed.

Theorem offer_once v br s p q e1 e2 c1 c2 :
  reachable v br s -> nth_error (entries s) p = Some e1 -> nth_error (entries s) q = Some e2 ->
  e_cl e1 = Some c1 -> e_cl e2 = Some c2 -> c_id c1 = c_id c2 -> p = q.
Proof. intros R. apply (inv_cids v s (reachable_inv v br s R)). Qed.

(* the current list is the newest installed one *)
Theorem current_list_is_newest v br s : reachable v br s -> nth_error (br_hist s) 0 = Some (bridges s).
Proof. intros R. apply (inv_hist v s (reachable_inv v br s R)). Qed.

(* the relay URL of a match: configured for the fingerprint of the client whose offer this is, in a list installed
   NOT BEFORE the list current at the client's request. [br_hist] is newest first and grows by one per installation,
   [c_epoch c] is its length at the request: the list current at the request sits at position
   [length (br_hist s) - c_epoch c] (it configures [c_url c]); the list the URL was taken from sits at a position
   i <= that one. With no installation in between (c_epoch c = length) both are the head: m_url = c_url. *)
Theorem match_response_since_request v br s p e m :
  reachable v br s -> nth_error (entries s) p = Some e -> e_w e = W_Done (PMatch m) ->
  exists c, e_cl e = Some c /\ m_offer m = c_offer c /\ m_nat m = c_nat c /\
    (c_epoch c <= length (br_hist s))%nat /\
    (exists b0, nth_error (br_hist s) (length (br_hist s) - c_epoch c) = Some b0 /\ lookup (c_fp c) b0 = Some (c_url c)) /\
    (exists i b, (i <= length (br_hist s) - c_epoch c)%nat /\ nth_error (br_hist s) i = Some b /\
                 lookup (c_fp c) b = Some (m_url m)) /\
    (c_epoch c = length (br_hist s) -> m_url m = c_url c).
Proof.
  intros R Hp Hw. pose proof (reachable_inv v br s R) as I.
  destruct (inv_entries v s I p e Hp) as [_ [[_ [Hm _]] [Hcl _]]].
  destruct (Hm m Hw) as [c [Hc [Ho [Hn [[i [b [Hi [Hb Hl]]]] Hu]]]]]. exists c.
  destruct (Hcl c Hc) as [_ [_ [Hle [Hb0 _]]]].
  split; [exact Hc|]. split; [exact Ho|]. split; [exact Hn|]. split; [exact Hle|]. split; [exact Hb0|]. split.
  - exists i, b. split; [unfold blist in *; lia|]. split; assumption.
  - intros He. destruct Hu as [Hu|Hu]; [exact Hu | unfold blist in *; lia].
Qed.

(* what the positions mean, without reference to the ghost fields of the client record: in any state s' reached from a
   (reachable) state s, the history is the lists installed since s, newest first, followed by the history of s; so
   position [length (br_hist s') - length (br_hist s)] holds the list current in s, and the positions up to it are
   exactly that list and the lists installed after s. With s the state of a client's request (C02_client_checked:
   c_epoch c = length (br_hist s)) this is what the positions of match_response_since_request stand for. *)
Lemma run_hist_suffix v : forall ls s s', run v s ls = Some s' -> exists newer, br_hist s' = newer ++ br_hist s.
Proof.
  induction ls as [|l ls IH]; intros s s' H; cbn [run] in H.
  - injection H as <-. exists []. reflexivity.
  - destruct (step v s l) as [s1|] eqn:Hs; [|discriminate].
    destruct (IH s1 s' H) as [newer Hn]. destruct (step_hist v s l s1 Hs) as [_ Hh].
    destruct l as [? ? ? ?|?|?|?|? ? ? ?|?|?|?|?|?|? ?|?|?|?|b]; try (exists newer; rewrite Hn, Hh; reflexivity).
    exists (newer ++ [b]). rewrite Hn, Hh, <- app_assoc. reflexivity.
Qed.

Theorem lists_since v br s ls s' : reachable v br s -> run v s ls = Some s' ->
  exists newer, br_hist s' = newer ++ br_hist s /\
    length newer = (length (br_hist s') - length (br_hist s))%nat /\
    nth_error (br_hist s') (length newer) = Some (bridges s).
Proof.
  intros R H. destruct (run_hist_suffix v ls s s' H) as [newer Hn]. exists newer.
  split; [exact Hn|]. split.
  - rewrite Hn, app_length. lia.
  - rewrite Hn, nth_error_app2 by lia. rewrite Nat.sub_diag. apply (current_list_is_newest v br s R).
Qed.

(* the weaker form kept for its name: some installed list configures the URL *)
Theorem match_response v br s p e m :
  reachable v br s -> nth_error (entries s) p = Some e -> e_w e = W_Done (PMatch m) ->
  exists c, e_cl e = Some c /\ m_offer m = c_offer c /\ m_nat m = c_nat c /\
    (exists b, In b (br_hist s) /\ lookup (c_fp c) b = Some (m_url m)) /\
    (exists b, In b (br_hist s) /\ lookup (c_fp c) b = Some (c_url c)) /\
    (m_url m = c_url c \/ (c_epoch c < length (br_hist s))%nat).
Proof.
  intros R Hp Hw.
  destruct (match_response_since_request v br s p e m R Hp Hw) as [c [Hc [Ho [Hn [Hle [[b0 [Hb0 Hl0]] [[i [b [_ [Hb Hl]]]] Heq]]]]]]].
  exists c. split; [exact Hc|]. split; [exact Ho|]. split; [exact Hn|]. split; [|split].
  - exists b. split; [eapply nth_error_In; exact Hb | exact Hl].
  - exists b0. split; [eapply nth_error_In; exact Hb0 | exact Hl0].
  - destruct (Nat.eq_dec (c_epoch c) (length (br_hist s))) as [E|E]; [left; exact (Heq E) | right; lia].
Qed.

(* when the list is never re-installed (the broker binary installs it once, before serving) this is the list *)
Corollary match_response_static v br s p e m :
  reachable v br s -> br_hist s = [br] -> nth_error (entries s) p = Some e -> e_w e = W_Done (PMatch m) ->
  exists c, e_cl e = Some c /\ m_offer m = c_offer c /\ m_nat m = c_nat c /\ lookup (c_fp c) br = Some (m_url m).
Proof.
  intros R Hh Hp Hw. destruct (match_response v br s p e m R Hp Hw) as [c [Hc [Ho [Hn [[b [Hb Hl]] _]]]]].
  exists c. repeat split; try assumption. rewrite Hh in Hb. destruct Hb as [<-|[]]. exact Hl.
Qed.

(* the proxy handler fails (HTTP 500) only if a list was installed after the client's request *)
Theorem proxy_error_only_after_reinstall v br s p e :
  reachable v br s -> nth_error (entries s) p = Some e -> e_w e = W_Done PError ->
  exists c, e_cl e = Some c /\ (c_epoch c < length (br_hist s))%nat.
Proof.
  intros R Hp Hw. destruct (inv_entries v s (reachable_inv v br s R) p e Hp) as [_ [[_ [_ He]] _]]. apply He. exact Hw.
Qed.

Theorem unknown_bridge_never_matched v s n ofp o ch s' :
  step v s (L_Client n ofp o ch) = Some s' -> lookup (fp_of ofp) (bridges s) = None ->
  ch = None /\ entries s' = entries s /\ idmap s' = idmap s /\
  done_clients s' = (next_cid s, n, fp_of ofp, o, CBadFingerprint) :: done_clients s.
Proof.
  intros H Hfp. cbn [step] in H. rewrite Hfp in H. destruct ch; [discriminate|].
  injection H as <-. repeat split.
Qed.

(* an accepted client is recorded with the fingerprint it named (the default one if it named none), the URL that
   the list current at its request configures for it, and the number of lists installed so far *)
Theorem client_checked v s n ofp o p s' :
  step v s (L_Client n ofp o (Some p)) = Some s' ->
  exists e c, nth_error (entries s') p = Some e /\ e_cl e = Some c /\ c_fp c = fp_of ofp /\ c_offer c = o /\
    c_nat c = n /\ lookup (fp_of ofp) (bridges s) = Some (c_url c) /\ c_epoch c = length (br_hist s) /\
    bridges s' = bridges s.
Proof.
  intros H. cbn [step] in H. destruct (lookup (fp_of ofp) (bridges s)) as [u|] eqn:Hl; [|discriminate].
  destruct (nth_error (entries s) p) as [e|] eqn:Hp; [|discriminate].
  destruct (eligible n e && is_min n (entries s) e); [|discriminate]. injection H as <-. cbn [entries bridges].
  eexists. eexists. split; [apply nth_upd_eq; exact Hp|]. cbn. repeat split.
Qed.

(* naming no bridge is naming the default bridge *)
Theorem default_bridge v s n o ch :
  step v s (L_Client n None o ch) = step v s (L_Client n (Some default_fp) o ch).
Proof. reflexivity. Qed.

(* ------------------------------------------------------------------ *)
(* C03                                                                   *)

Theorem nat_compat v br s p e c :
  reachable v br s -> nth_error (entries s) p = Some e -> e_cl e = Some c -> compat (c_nat c) (e_nat e) = true.
Proof.
  intros R Hp Hc. destruct (inv_entries v s (reachable_inv v br s R) p e Hp) as [_ [_ [Hcl _]]].
  apply Hcl. exact Hc.
Qed.

Theorem inheap_iff_waiting v br s p e :
  reachable v br s -> nth_error (entries s) p = Some e ->
  (e_inheap e = true <-> e_cl e = None /\ w_unmatched_waiting (e_w e) = true).
Proof.
  intros R Hp. destruct (inv_entries v s (reachable_inv v br s R) p e Hp) as [Hs _].
  split.
  - intros Hh. destruct (shape_inheap e Hs Hh) as [A [_ B]]. split; assumption.
  - intros [Hc Hw]. unfold shape_ok in Hs. rewrite Hc in Hs.
    destruct (e_w e) as [| | | |m|r]; try discriminate; apply andb_prop in Hs; apply Hs.
Qed.

Lemma pool_empty_spec n es : pool_empty n es = true <-> forall e, In e es -> eligible n e = false.
Proof.
  unfold pool_empty. rewrite negb_true_iff. split.
  - intros H e Hin. destruct (eligible n e) eqn:E; [|reflexivity].
    assert (existsb (eligible n) es = true) by (apply existsb_exists; exists e; split; assumption). congruence.
  - intros H. destruct (existsb (eligible n) es) eqn:E; [|reflexivity].
    apply existsb_exists in E. destruct E as [e [Hin He]]. rewrite (H e Hin) in He. discriminate.
Qed.

Theorem refusal_iff v s n ofp o ch s' :
  step v s (L_Client n ofp o ch) = Some s' -> lookup (fp_of ofp) (bridges s) <> None ->
  (ch = None <-> forall e, In e (entries s) -> eligible n e = false) /\
  (ch = None -> done_clients s' = (next_cid s, n, fp_of ofp, o, CNoProxies) :: done_clients s /\ entries s' = entries s).
Proof.
  intros H Hfp. cbn [step] in H. destruct (lookup (fp_of ofp) (bridges s)) as [u|]; [|congruence].
  destruct ch as [p|].
  - destruct (nth_error (entries s) p) as [e|] eqn:Hp; [|discriminate].
    destruct (eligible n e && is_min n (entries s) e) eqn:He; [|discriminate].
    apply andb_prop in He. destruct He as [He _]. split; [|discriminate].
    split; [discriminate|]. intros Hall. apply nth_error_In in Hp. rewrite (Hall e Hp) in He. discriminate.
  - destruct (pool_empty n (entries s)) eqn:Hpe; [|discriminate]. injection H as <-.
    split; [|intros _; split; reflexivity].
    split; [intros _; apply pool_empty_spec; exact Hpe | reflexivity].
Qed.

Theorem least_loaded v s n ofp o p s' :
  step v s (L_Client n ofp o (Some p)) = Some s' ->
  exists e, nth_error (entries s) p = Some e /\ eligible n e = true /\
    (forall e', In e' (entries s) -> eligible n e' = true -> e_clients e <= e_clients e') /\
    exists c, nth_error (entries s') p = Some (set_cl (Some c) (set_heap_live false (e_live e) e)) /\
              c_nat c = n /\ c_fp c = fp_of ofp /\ c_offer c = o /\ c_pc c = C_Send.
Proof.
  intros H. cbn [step] in H. destruct (lookup (fp_of ofp) (bridges s)) as [u|]; [|discriminate].
  destruct (nth_error (entries s) p) as [e|] eqn:Hp; [|discriminate].
  destruct (eligible n e && is_min n (entries s) e) eqn:He; [|discriminate].
  apply andb_prop in He. destruct He as [He Hmin]. injection H as <-.
  exists e. split; [reflexivity|]. split; [exact He|]. split.
  - intros e' Hin He'. unfold is_min in Hmin. rewrite forallb_forall in Hmin.
    specialize (Hmin e' Hin). rewrite He' in Hmin. cbn in Hmin. apply N.leb_le. exact Hmin.
  - eexists. split; [|repeat split]. cbn [entries].
    apply (nth_upd_eq (fun e0 => set_cl (Some {| c_id := next_cid s; c_nat := n; c_fp := fp_of ofp; c_offer := o; c_pc := C_Send;
                                                 c_fired := false; c_url := u; c_epoch := length (br_hist s) |})
                                  (set_heap_live false (e_live e0) e0))). exact Hp.
    all: reflexivity.
Qed.

(* ------------------------------------------------------------------ *)
(* C04: quiescence leaves nothing behind                                 *)

Lemma shape_not_pending e : shape_ok e = true -> entry_pending e = false ->
  e_inheap e = false /\ e_live e = false.
Proof.
  unfold shape_ok, entry_pending. intros Hs Hp.
  apply orb_false_iff in Hp. destruct Hp as [Hp _]. apply orb_false_iff in Hp. destruct Hp as [Hw Hc].
  destruct (e_cl e) as [c|].
  - destruct (c_pc c); try discriminate. bool_crush. split; assumption.
  - destruct (e_w e) as [| | | |m|[|m|]]; try discriminate. bool_crush. split; assumption.
Qed.

Lemma count_live_zero es : (forall e, In e es -> e_live e = false) -> count_live es = 0%Z.
Proof.
  induction es as [|e es IH]; intros H; cbn [count_live]; [reflexivity|].
  rewrite (H e (or_introl eq_refl)). rewrite IH; [reflexivity|]. intros e' Hin. apply H. right. exact Hin.
Qed.

Theorem quiescent_clean v br s : reachable v br s -> quiescent s = true ->
  idmap s = [] /\ count_inheap s = 0%nat /\ gauge s = 0%Z /\
  (forall n e, In e (entries s) -> eligible n e = false).
Proof.
  intros R Hq. pose proof (reachable_inv v br s R) as I.
  unfold quiescent in Hq. rewrite negb_true_iff in Hq.
  assert (Hall : forall e, In e (entries s) -> e_inheap e = false /\ e_live e = false).
  { intros e Hin. destruct (In_nth_error _ _ Hin) as [p Hp].
    destruct (inv_entries v s I p e Hp) as [Hs _]. apply shape_not_pending; [exact Hs|].
    destruct (entry_pending e) eqn:E; [|reflexivity].
    assert (existsb entry_pending (entries s) = true) by (apply existsb_exists; exists e; split; assumption).
    congruence. }
  split; [|split; [|split]].
  - destruct (idmap s) as [|[sd p] rest] eqn:Em; [reflexivity|].
    destruct (inv_idmap v s I sd p) as [e [Hp [_ Hl]]]; [rewrite Em; left; reflexivity|].
    apply nth_error_In in Hp. destruct (Hall e Hp) as [_ Hd]. congruence.
  - unfold count_inheap. destruct (filter e_inheap (entries s)) as [|e l] eqn:Ef; [reflexivity|].
    assert (Hin : In e (filter e_inheap (entries s))) by (rewrite Ef; left; reflexivity).
    apply filter_In in Hin. destruct Hin as [Hin Hh]. destruct (Hall e Hin). congruence.
  - rewrite (inv_gauge v s I). apply count_live_zero. intros e Hin. apply Hall. exact Hin.
  - intros n e Hin. unfold eligible. destruct (Hall e Hin) as [Hh _]. rewrite Hh. reflexivity.
Qed.

Corollary fresh_client_refused v br s n ofp o ch s' :
  reachable v br s -> quiescent s = true -> lookup (fp_of ofp) (bridges s) <> None ->
  step v s (L_Client n ofp o ch) = Some s' ->
  ch = None /\ done_clients s' = (next_cid s, n, fp_of ofp, o, CNoProxies) :: done_clients s.
Proof.
  intros R Hq Hfp Hs. destruct (quiescent_clean v br s R Hq) as [_ [_ [_ Hel]]].
  destruct (refusal_iff v s n ofp o ch s' Hs Hfp) as [[_ Hiff] Hdone].
  assert (ch = None) by (apply Hiff; intros e Hin; apply Hel; exact Hin).
  split; [assumption|]. apply Hdone. assumption.
Qed.

(* ------------------------------------------------------------------ *)
(* C04: progress of the repaired protocol                                *)

Definition internal (l : label) : bool :=
  match l with L_Poll _ _ _ _ | L_Client _ _ _ _ | L_Answer _ _ | L_Install _ => false | _ => true end.

Definition target (l : label) : option nat :=
  match l with
  | L_FireW p | L_WTake p | L_WTimeoutCS p | L_RvOffer p | L_RvForward p | L_FireC p | L_CTake p
  | L_CCleanup p | L_RvAnswer p | L_AnswerPut p | L_CTakeAnswer p => Some p
  | _ => None
  end.

(* every pending request of the repaired broker has an enabled step of its own threads
   (a timer firing counts: it fires at the latest 10 s after it was armed) *)
Theorem progress_v1 br s p e :
  reachable V1 br s -> nth_error (entries s) p = Some e -> entry_pending e = true ->
  exists l, internal l = true /\ target l = Some p /\ step V1 s l <> None.
Proof.
  intros R Hp Hpend. pose proof (reachable_inv V1 br s R) as I.
  destruct (inv_entries V1 s I p e Hp) as [Hs [_ [Hcl [_ Hst]]]].
  unfold entry_pending in Hpend. unfold shape_ok in Hs. cbn [no_stuck] in Hst.
  destruct (e_w e) as [| | | |m|r] eqn:Ew.
  - (* W_Select *) destruct (e_wfired e) eqn:Ef.
    + exists (L_WTake p). repeat split. cbn [step]. rewrite Hp, Ew, Ef. discriminate.
    + exists (L_FireW p). repeat split. cbn [step]. rewrite Hp, Ew, Ef. discriminate.
  - exists (L_WTimeoutCS p). repeat split. cbn [step]. rewrite Hp, Ew. destruct (e_inheap e); discriminate.
  - (* W_Late *) destruct (e_cl e) as [c|] eqn:Hc; [|discriminate].
    destruct (c_pc c) eqn:Hpc; cbn in Hs; bool_crush; try discriminate.
    exists (L_RvOffer p). repeat split. cbn [step]. rewrite Hp, Hc, Hpc, Ew. discriminate.
  - congruence.
  - exists (L_RvForward p). repeat split. cbn [step]. rewrite Hp, Ew. discriminate.
  - (* handler returned: client or senders pending *)
    cbn in Hpend. destruct (e_cl e) as [c|] eqn:Hc.
    + destruct (c_pc c) eqn:Hpc.
      * cbn in Hs. bool_crush. discriminate.
      * destruct (c_fired c) eqn:Hf.
        -- exists (L_CTake p). repeat split. cbn [step]. rewrite Hp, Hc, Hpc, Hf. discriminate.
        -- exists (L_FireC p). repeat split. cbn [step]. rewrite Hp, Hc, Hpc, Hf. discriminate.
      * exists (L_CCleanup p). repeat split. cbn [step]. rewrite Hp, Hc, Hpc. discriminate.
      * cbn in Hpend. destruct (e_senders e) as [|[aid a] rest] eqn:Hsn; [discriminate|].
        exists (L_AnswerPut p). repeat split. cbn [step]. rewrite Hp, Hsn. discriminate.
    + cbn in Hpend. destruct (e_senders e) as [|[aid a] rest] eqn:Hsn; [discriminate|].
      exists (L_AnswerPut p). repeat split. cbn [step]. rewrite Hp, Hsn. discriminate.
Qed.

(* and every such step consumes a bounded budget: no request can be kept busy forever *)
Definition wm (w : wpc) (fired : bool) : nat :=
  match w with
  | W_Select => if fired then 4 else 5
  | W_TimedOut => 3 | W_Late => 2 | W_Forward _ => 1 | W_Stuck => 0 | W_Done _ => 0
  end.
Definition cm (c : clrec) : nat :=
  match c_pc c with C_Send => 4 | C_Wait => if c_fired c then 2 else 3 | C_Cleanup _ => 1 | C_Done _ => 0 end.
Definition em (e : entry) : nat :=
  wm (e_w e) (e_wfired e) + match e_cl e with Some c => cm c | None => 0 end + length (e_senders e).
Fixpoint total (es : list entry) : nat :=
  match es with [] => 0 | e :: es' => em e + total es' end.
Definition budget (s : state) : nat := total (entries s).

Lemma total_upd f : forall es p e, nth_error es p = Some e -> (em (f e) < em e)%nat ->
  (total (upd p f es) < total es)%nat.
Proof.
  induction es as [|x es IH]; intros [|p] e; cbn [nth_error upd total]; try discriminate.
  - intros H; injection H as ->. lia.
  - intros H Hlt. specialize (IH p e H Hlt). lia.
Qed.

Theorem internal_step_decreases s l s' :
  internal l = true -> step V1 s l = Some s' -> (budget s' < budget s)%nat.
Proof.
  intros Hi H. unfold budget.
  destruct l; try discriminate; cbn [step] in H;
    destruct (nth_error (entries s) p) as [e|] eqn:Hp; try discriminate.
  - destruct (e_w e) eqn:Ew; try discriminate. destruct (e_wfired e) eqn:Ef; [discriminate|].
    injection H as <-. cbn [entries with_entries]. apply (total_upd _ _ _ e Hp).
    unfold em. cbn. rewrite Ew, Ef. cbn. lia.
  - destruct (e_w e) eqn:Ew; try discriminate. destruct (e_wfired e) eqn:Ef; [|discriminate].
    injection H as <-. cbn [entries with_entries]. apply (total_upd _ _ _ e Hp).
    unfold em. cbn. rewrite Ew, Ef. cbn. lia.
  - destruct (e_w e) eqn:Ew; try discriminate.
    destruct (e_inheap e); injection H as <-; cbn [entries with_entries]; apply (total_upd _ _ _ e Hp);
      unfold em; cbn; rewrite Ew; cbn; lia.
  - destruct (e_cl e) as [c|] eqn:Hc; [|discriminate].
    destruct (c_pc c) eqn:Hpc; try discriminate.
    destruct (match e_w e with W_Select | W_Late => true | _ => false end) eqn:Hw; [|discriminate].
    injection H as <-. cbn [entries with_entries]. apply (total_upd _ _ _ e Hp).
    unfold em, cm. cbn. rewrite Hc. unfold cm. rewrite Hpc.
    destruct (e_w e); try discriminate; cbn; destruct (c_fired c); destruct (e_wfired e); cbn; lia.
  - destruct (e_w e) eqn:Ew; try discriminate.
    injection H as <-. cbn [entries with_entries]. apply (total_upd _ _ _ e Hp).
    unfold em. cbn. rewrite Ew. cbn. lia.
  - destruct (e_cl e) as [c|] eqn:Hc; [|discriminate].
    destruct (c_pc c) eqn:Hpc; try discriminate. destruct (c_fired c) eqn:Hf; [discriminate|].
    injection H as <-. cbn [entries with_entries]. apply (total_upd _ _ _ e Hp).
    unfold em. cbn. rewrite Hc. unfold cm. cbn. rewrite Hpc, Hf. lia.
  - destruct (e_cl e) as [c|] eqn:Hc; [|discriminate].
    destruct (c_pc c) eqn:Hpc; try discriminate. destruct (c_fired c) eqn:Hf; [|discriminate].
    injection H as <-. cbn [entries with_entries]. apply (total_upd _ _ _ e Hp).
    unfold em. cbn. rewrite Hc. unfold cm. cbn. rewrite Hpc, Hf. lia.
  - destruct (e_cl e) as [c|] eqn:Hc; [|discriminate].
    destruct (c_pc c) eqn:Hpc; try discriminate.
    injection H as <-. cbn [entries]. apply (total_upd _ _ _ e Hp).
    unfold em. cbn. rewrite Hc. unfold cm. cbn. rewrite Hpc. lia.
  - destruct (e_senders e) as [|[aid a] rest] eqn:Hs; [discriminate|].
    injection H as <-. cbn [entries]. apply (total_upd _ _ _ e Hp).
    unfold em. cbn. destruct (e_buf e); cbn; rewrite Hs; cbn; lia.
  - destruct (e_buf e) as [a|] eqn:Hb; [|discriminate].
    destruct (e_cl e) as [c|] eqn:Hc; [|discriminate].
    destruct (c_pc c) eqn:Hpc; try discriminate.
    injection H as <-. cbn [entries with_entries]. apply (total_upd _ _ _ e Hp).
    unfold em. cbn. rewrite Hc. unfold cm. cbn. rewrite Hpc. destruct (c_fired c); lia.
Qed.

(* hence: from any reachable state, if no new request arrives, every run of the broker's own
   steps has at most [budget s] steps, and it can only stop in a quiescent state *)
Theorem bounded_completion br : forall ls s s',
  reachable V1 br s -> forallb internal ls = true -> run V1 s ls = Some s' ->
  (length ls + budget s' <= budget s)%nat.
Proof.
  induction ls as [|l ls IH]; intros s s' R Hi H; cbn [run] in H.
  - injection H as <-. cbn. lia.
  - cbn [forallb] in Hi. apply andb_prop in Hi. destruct Hi as [Hl Hls].
    destruct (step V1 s l) as [s1|] eqn:Hs; [|discriminate].
    pose proof (internal_step_decreases s l s1 Hl Hs).
    specialize (IH s1 s' (reachable_step V1 br s l s1 R Hs) Hls H). cbn [length]. lia.
Qed.

Theorem stuck_only_when_quiescent br s :
  reachable V1 br s -> (forall l, internal l = true -> step V1 s l = None) -> quiescent s = true.
Proof.
  intros R Hno. unfold quiescent. apply negb_true_iff.
  destruct (existsb entry_pending (entries s)) eqn:E; [|reflexivity].
  apply existsb_exists in E. destruct E as [e [Hin Hp]].
  destruct (In_nth_error _ _ Hin) as [p Hn].
  destruct (progress_v1 br s p e R Hn Hp) as [l [Hi [_ Hs]]]. elim Hs. apply Hno. exact Hi.
Qed.

(* ------------------------------------------------------------------ *)
(* C04: the pinned protocol (V0) can block requests forever              *)

Definition stuck_pair (e : entry) : Prop :=
  e_w e = W_Stuck /\ exists c, e_cl e = Some c /\ c_pc c = C_Send.

Definition stuck_sender (e : entry) : Prop :=
  e_cl e = None /\ e_inheap e = false /\ e_senders e <> [].

Lemma nth_app_old {A} (l : list A) x p e : nth_error l p = Some e -> nth_error (l ++ [x]) p = Some e.
Proof. intros H. rewrite nth_error_app1; [exact H|]. apply nth_error_Some. congruence. Qed.

Ltac other_entry Hp :=
  match goal with
  | |- exists e', nth_error (upd ?q ?f ?es) ?p = Some e' /\ _ =>
      destruct (Nat.eq_dec q p) as [->|Hne];
      [ | eexists; split; [rewrite nth_upd_neq by exact Hne; exact Hp | assumption] ]
  end.

Lemma stuck_pair_preserved s l s' p e :
  step V0 s l = Some s' -> nth_error (entries s) p = Some e -> stuck_pair e ->
  exists e', nth_error (entries s') p = Some e' /\ stuck_pair e'.
Proof.
  intros H Hp Hst. destruct Hst as [Ew [c [Hc Hpc]]].
  assert (Hst : stuck_pair e) by (split; [exact Ew | exists c; split; assumption]).
  destruct l; cbn [step] in H.
  - injection H as <-. cbn [entries]. exists e. split; [apply nth_app_old; exact Hp | exact Hst].
  - destruct (nth_error (entries s) p0) as [e0|] eqn:Hp0; [|discriminate].
    destruct (e_w e0) eqn:Ew0; try discriminate. destruct (e_wfired e0); [discriminate|]. injection H as <-.
    cbn [entries with_entries]. other_entry Hp. rewrite Hp in Hp0. injection Hp0 as <-. congruence.
  - destruct (nth_error (entries s) p0) as [e0|] eqn:Hp0; [|discriminate].
    destruct (e_w e0) eqn:Ew0; try discriminate. destruct (e_wfired e0); [|discriminate]. injection H as <-.
    cbn [entries with_entries]. other_entry Hp. rewrite Hp in Hp0. injection Hp0 as <-. congruence.
  - destruct (nth_error (entries s) p0) as [e0|] eqn:Hp0; [|discriminate].
    destruct (e_w e0) eqn:Ew0; try discriminate.
    destruct (e_inheap e0); injection H as <-; cbn [entries with_entries]; other_entry Hp;
      rewrite Hp in Hp0; injection Hp0 as <-; congruence.
  - destruct (lookup (fp_of ofp) (bridges s)).
    + destruct choice as [q|].
      * destruct (nth_error (entries s) q) as [e0|] eqn:Hq; [|discriminate].
        destruct (eligible n e0 && is_min n (entries s) e0); [|discriminate]. injection H as <-.
        cbn [entries]. other_entry Hp. rewrite Hp in Hq. injection Hq as <-.
        eexists. split; [apply nth_upd_eq; exact Hp|]. split; [exact Ew|]. eexists. split; reflexivity.
      * destruct (pool_empty n (entries s)); [|discriminate]. injection H as <-. exists e. split; assumption.
    + destruct choice; [discriminate|]. injection H as <-. exists e. split; assumption.
  - destruct (nth_error (entries s) p0) as [e0|] eqn:Hp0; [|discriminate].
    destruct (e_cl e0) as [c0|]; [|discriminate]. destruct (c_pc c0); try discriminate.
    destruct (match e_w e0 with W_Select | W_Late => true | _ => false end) eqn:Hw; [|discriminate].
    injection H as <-.
    cbn [entries with_entries]. other_entry Hp. rewrite Hp in Hp0. injection Hp0 as <-. rewrite Ew in Hw. discriminate.
  - destruct (nth_error (entries s) p0) as [e0|] eqn:Hp0; [|discriminate].
    destruct (e_w e0) eqn:Ew0; try discriminate. injection H as <-.
    cbn [entries with_entries]. other_entry Hp. rewrite Hp in Hp0. injection Hp0 as <-. congruence.
  - destruct (nth_error (entries s) p0) as [e0|] eqn:Hp0; [|discriminate].
    destruct (e_cl e0) as [c0|] eqn:Hc0; [|discriminate]. destruct (c_pc c0) eqn:Hpc0; try discriminate.
    destruct (c_fired c0); [discriminate|]. injection H as <-.
    cbn [entries with_entries]. other_entry Hp. rewrite Hp in Hp0. injection Hp0 as <-. congruence.
  - destruct (nth_error (entries s) p0) as [e0|] eqn:Hp0; [|discriminate].
    destruct (e_cl e0) as [c0|] eqn:Hc0; [|discriminate]. destruct (c_pc c0) eqn:Hpc0; try discriminate.
    destruct (c_fired c0); [|discriminate]. injection H as <-.
    cbn [entries with_entries]. other_entry Hp. rewrite Hp in Hp0. injection Hp0 as <-. congruence.
  - destruct (nth_error (entries s) p0) as [e0|] eqn:Hp0; [|discriminate].
    destruct (e_cl e0) as [c0|] eqn:Hc0; [|discriminate]. destruct (c_pc c0) eqn:Hpc0; try discriminate.
    injection H as <-. cbn [entries]. other_entry Hp. rewrite Hp in Hp0. injection Hp0 as <-. congruence.
  - destruct (lookup s0 (idmap s)) as [q|]; injection H as <-; cbn [entries].
    + other_entry Hp. eexists. split; [apply nth_upd_eq; exact Hp|]. split; [exact Ew|]. exists c. split; assumption.
    + exists e. split; assumption.
  - destruct (nth_error (entries s) p0) as [e0|] eqn:Hp0; [|discriminate].
    destruct (e_senders e0) as [|[aid a] rest]; [discriminate|].
    destruct (e_cl e0) as [c0|] eqn:Hc0; [|discriminate]. destruct (c_pc c0) eqn:Hpc0; try discriminate.
    injection H as <-. cbn [entries]. other_entry Hp. rewrite Hp in Hp0. injection Hp0 as <-. congruence.
  - discriminate.
  - discriminate.
  - injection H as <-. exists e. split; assumption.
Qed.

Lemma stuck_sender_preserved s l s' p e :
  step V0 s l = Some s' -> nth_error (entries s) p = Some e -> stuck_sender e ->
  exists e', nth_error (entries s') p = Some e' /\ stuck_sender e'.
Proof.
  intros H Hp Hst. destruct Hst as [Hc [Hh Hs]].
  assert (Hst : stuck_sender e) by (repeat split; assumption).
  destruct l; cbn [step] in H.
  - injection H as <-. cbn [entries]. exists e. split; [apply nth_app_old; exact Hp | exact Hst].
  - destruct (nth_error (entries s) p0) as [e0|] eqn:Hp0; [|discriminate].
    destruct (e_w e0) eqn:Ew0; try discriminate. destruct (e_wfired e0); [discriminate|]. injection H as <-.
    cbn [entries with_entries]. other_entry Hp. rewrite Hp in Hp0. injection Hp0 as <-.
    eexists. split; [apply nth_upd_eq; exact Hp|]. exact Hst.
  - destruct (nth_error (entries s) p0) as [e0|] eqn:Hp0; [|discriminate].
    destruct (e_w e0) eqn:Ew0; try discriminate. destruct (e_wfired e0); [|discriminate]. injection H as <-.
    cbn [entries with_entries]. other_entry Hp. rewrite Hp in Hp0. injection Hp0 as <-.
    eexists. split; [apply nth_upd_eq; exact Hp|]. exact Hst.
  - destruct (nth_error (entries s) p0) as [e0|] eqn:Hp0; [|discriminate].
    destruct (e_w e0) eqn:Ew0; try discriminate.
    destruct (e_inheap e0) eqn:Eh0; injection H as <-; cbn [entries with_entries]; other_entry Hp;
      rewrite Hp in Hp0; injection Hp0 as <-; [congruence|].
    eexists. split; [apply nth_upd_eq; exact Hp|]. exact Hst.
  - destruct (lookup (fp_of ofp) (bridges s)).
    + destruct choice as [q|].
      * destruct (nth_error (entries s) q) as [e0|] eqn:Hq; [|discriminate].
        destruct (eligible n e0 && is_min n (entries s) e0) eqn:Hel; [|discriminate]. injection H as <-.
        cbn [entries]. other_entry Hp. rewrite Hp in Hq. injection Hq as <-.
        apply andb_prop in Hel. destruct Hel as [Hel _]. unfold eligible in Hel. rewrite Hh in Hel. discriminate.
      * destruct (pool_empty n (entries s)); [|discriminate]. injection H as <-. exists e. split; assumption.
    + destruct choice; [discriminate|]. injection H as <-. exists e. split; assumption.
  - destruct (nth_error (entries s) p0) as [e0|] eqn:Hp0; [|discriminate].
    destruct (e_cl e0) as [c0|] eqn:Hc0; [|discriminate]. destruct (c_pc c0); try discriminate.
    destruct (match e_w e0 with W_Select | W_Late => true | _ => false end) eqn:Hw; [|discriminate].
    injection H as <-.
    cbn [entries with_entries]. other_entry Hp. rewrite Hp in Hp0. injection Hp0 as <-. congruence.
  - destruct (nth_error (entries s) p0) as [e0|] eqn:Hp0; [|discriminate].
    destruct (e_w e0) eqn:Ew0; try discriminate. injection H as <-.
    cbn [entries with_entries]. other_entry Hp. rewrite Hp in Hp0. injection Hp0 as <-.
    eexists. split; [apply nth_upd_eq; exact Hp|]. exact Hst.
  - destruct (nth_error (entries s) p0) as [e0|] eqn:Hp0; [|discriminate].
    destruct (e_cl e0) as [c0|] eqn:Hc0; [|discriminate]. destruct (c_pc c0) eqn:Hpc0; try discriminate.
    destruct (c_fired c0); [discriminate|]. injection H as <-.
    cbn [entries with_entries]. other_entry Hp. rewrite Hp in Hp0. injection Hp0 as <-. congruence.
  - destruct (nth_error (entries s) p0) as [e0|] eqn:Hp0; [|discriminate].
    destruct (e_cl e0) as [c0|] eqn:Hc0; [|discriminate]. destruct (c_pc c0) eqn:Hpc0; try discriminate.
    destruct (c_fired c0); [|discriminate]. injection H as <-.
    cbn [entries with_entries]. other_entry Hp. rewrite Hp in Hp0. injection Hp0 as <-. congruence.
  - destruct (nth_error (entries s) p0) as [e0|] eqn:Hp0; [|discriminate].
    destruct (e_cl e0) as [c0|] eqn:Hc0; [|discriminate]. destruct (c_pc c0) eqn:Hpc0; try discriminate.
    injection H as <-. cbn [entries]. other_entry Hp. rewrite Hp in Hp0. injection Hp0 as <-. congruence.
  - destruct (lookup s0 (idmap s)) as [q|]; injection H as <-; cbn [entries].
    + other_entry Hp. eexists. split; [apply nth_upd_eq; exact Hp|]. repeat split; cbn; try assumption.
      intros Habs. apply app_eq_nil in Habs. destruct Habs; discriminate.
    + exists e. split; assumption.
  - destruct (nth_error (entries s) p0) as [e0|] eqn:Hp0; [|discriminate].
    destruct (e_senders e0) as [|[aid a] rest]; [discriminate|].
    destruct (e_cl e0) as [c0|] eqn:Hc0; [|discriminate]. destruct (c_pc c0) eqn:Hpc0; try discriminate.
    injection H as <-. cbn [entries]. other_entry Hp. rewrite Hp in Hp0. injection Hp0 as <-. congruence.
  - discriminate.
  - discriminate.
  - injection H as <-. exists e. split; assumption.
Qed.

Lemma forever {P : entry -> Prop} (Pres : forall s l s' p e, step V0 s l = Some s' ->
    nth_error (entries s) p = Some e -> P e -> exists e', nth_error (entries s') p = Some e' /\ P e') :
  forall ls s s' p e, run V0 s ls = Some s' -> nth_error (entries s) p = Some e -> P e ->
  exists e', nth_error (entries s') p = Some e' /\ P e'.
Proof.
  induction ls as [|l ls IH]; intros s s' p e H Hp HP; cbn [run] in H.
  - injection H as <-. exists e. split; assumption.
  - destruct (step V0 s l) as [s1|] eqn:Hs; [|discriminate].
    destruct (Pres s l s1 p e Hs Hp HP) as [e1 [Hp1 HP1]]. eapply IH; eassumption.
Qed.

Definition f1_trace : list label :=
  [L_Poll 1 NatUnrestricted 1 0; L_FireW 0; L_WTake 0; L_Client NatRestricted (Some 7) 100 (Some 0%nat); L_WTimeoutCS 0].
Definition f2_trace : list label :=
  [L_Poll 1 NatUnrestricted 1 0; L_Answer 1 55; L_FireW 0; L_WTake 0; L_WTimeoutCS 0].

Theorem v0_timeout_match_blocks_forever :
  exists s, run V0 (init [(7, 9)]) f1_trace = Some s /\
    forall ls s', run V0 s ls = Some s' ->
      exists e c, nth_error (entries s') 0 = Some e /\ e_w e = W_Stuck /\ e_cl e = Some c /\ c_pc c = C_Send
                  /\ entry_pending e = true /\ quiescent s' = false.
Proof.
  eexists. split; [vm_compute; reflexivity|].
  intros ls s' H.
  destruct (forever stuck_pair_preserved ls _ s' 0%nat _ H eq_refl) as [e [Hp [Ew [c [Hc Hpc]]]]].
  { split; [reflexivity|]. eexists. split; reflexivity. }
  exists e, c. repeat split; try assumption.
  - unfold entry_pending. rewrite Ew. reflexivity.
  - unfold quiescent. apply negb_false_iff. apply existsb_exists. exists e.
    split; [eapply nth_error_In; exact Hp|]. unfold entry_pending. rewrite Ew. reflexivity.
Qed.

Theorem v0_answer_blocks_forever :
  exists s, run V0 (init [(7, 9)]) f2_trace = Some s /\
    forall ls s', run V0 s ls = Some s' ->
      exists e, nth_error (entries s') 0 = Some e /\ e_senders e <> [] /\ quiescent s' = false.
Proof.
  eexists. split; [vm_compute; reflexivity|].
  intros ls s' H.
  destruct (forever stuck_sender_preserved ls _ s' 0%nat _ H eq_refl) as [e [Hp [Hc [Hh Hs]]]].
  { repeat split; discriminate. }
  exists e. repeat split; try assumption.
  unfold quiescent. apply negb_false_iff. apply existsb_exists. exists e.
  split; [eapply nth_error_In; exact Hp|]. unfold entry_pending.
  destruct (e_senders e); [congruence|]. rewrite !orb_true_r. reflexivity.
Qed.

(* the same two schedules complete under the repaired protocol *)
Example v1_timeout_match_completes :
  exists s, run V1 (init [(7, 9)])
    (f1_trace ++ [L_RvOffer 0; L_RvForward 0; L_FireC 0; L_CTake 0; L_CCleanup 0]) = Some s /\ quiescent s = true.
Proof. eexists. split; vm_compute; reflexivity. Qed.

Example v1_answer_completes :
  exists s, run V1 (init [(7, 9)]) (f2_trace ++ [L_AnswerPut 0]) = Some s /\ quiescent s = true.
Proof. eexists. split; vm_compute; reflexivity. Qed.
