(* EncapSweep.v — finite sweeps (complete enumeration of a finite domain by vm_compute,
   lifted to a universally quantified lemma with the bound stated). *)
From Coq Require Import List NArith Bool Arith Lia.
From Coq Require Import ZifyN ZifyNat ZifyBool.
From Snow Require Import Lib.Wire Model.Encap.
Import ListNotations.
Open Scope N_scope.

(* ------------------------------------------------------------------ *)
(* Finite sweeps over k-bit numbers (no nat numerals: binary splitting)  *)

Fixpoint all_bits (k : nat) (base : N) (f : N -> bool) : bool :=
  match k with
  | O => f base
  | S k' => all_bits k' (2 * base) f && all_bits k' (2 * base + 1) f
  end.

Lemma all_bits_spec : forall k base f, all_bits k base f = true ->
  forall m, m < 2 ^ N.of_nat k -> f (base * 2 ^ N.of_nat k + m) = true.
Proof.
  induction k as [|k IH]; intros base f H m Hm.
  - cbn in Hm. assert (m = 0) by lia. subst m. cbn [all_bits] in H.
    replace (base * 2 ^ N.of_nat 0 + 0) with base by (cbn; lia). exact H.
  - cbn [all_bits] in H. apply andb_prop in H. destruct H as [H0 H1].
    rewrite Nat2N.inj_succ, N.pow_succ_r' in *.
    destruct (N.ltb_spec m (2 ^ N.of_nat k)) as [Hlt|Hge].
    + replace (base * (2 * 2 ^ N.of_nat k) + m) with (2 * base * 2 ^ N.of_nat k + m) by lia.
      apply IH; assumption.
    + replace (base * (2 * 2 ^ N.of_nat k) + m) with ((2 * base + 1) * 2 ^ N.of_nat k + (m - 2 ^ N.of_nat k)) by lia.
      apply IH; [assumption | lia].
Qed.

Lemma all_bits_below k f : all_bits k 0 f = true -> forall m, m < 2 ^ N.of_nat k -> f m = true.
Proof. intros H m Hm. pose proof (all_bits_spec k 0 f H m Hm) as E. cbn in E. exact E. Qed.

(* ------------------------------------------------------------------ *)
(* Length prefixes                                                      *)

(* a byte string that is exactly one complete length prefix *)
Definition hdr_exact (p : bytes) : option (bool * N) :=
  match p with
  | [b0] => if N.land b0 64 =? 0 then Some (negb (N.land b0 128 =? 0), N.land b0 63) else None
  | [b0; b1] =>
      if N.land b0 64 =? 0 then None
      else if N.land b1 128 =? 0
           then Some (negb (N.land b0 128 =? 0), N.lor (N.shiftl (N.land b0 63) 7) (N.land b1 127))
           else None
  | [b0; b1; b2] =>
      if N.land b0 64 =? 0 then None
      else if N.land b1 128 =? 0 then None
      else if N.land b2 128 =? 0
           then Some (negb (N.land b0 128 =? 0),
                      N.lor (N.shiftl (N.lor (N.shiftl (N.land b0 63) 7) (N.land b1 127)) 7) (N.land b2 127))
           else None
  | _ => None
  end.

Lemma parse_one_hdr_exact p isd v rest :
  hdr_exact p = Some (isd, v) -> parse_one (p ++ rest) = take_body isd v rest.
Proof.
  destruct p as [|b0 [|b1 [|b2 [|b3 p]]]]; cbn [hdr_exact app parse_one]; try discriminate.
  - destruct (N.land b0 64 =? 0); [|discriminate]. intros H; injection H as <- <-. reflexivity.
  - destruct (N.land b0 64 =? 0); [discriminate|].
    destruct (N.land b1 128 =? 0); [|discriminate]. intros H; injection H as <- <-. reflexivity.
  - destruct (N.land b0 64 =? 0); [discriminate|].
    destruct (N.land b1 128 =? 0); [discriminate|].
    destruct (N.land b2 128 =? 0); [|discriminate]. intros H; injection H as <- <-. reflexivity.
Qed.

Definition plen (n : N) : nat := if n <? 64 then 1%nat else if n <? 8192 then 2%nat else 3%nat.

Definition prefix_check (n : N) : bool :=
  match prefix_for n with
  | Some p => match hdr_exact p with
              | Some (true, v) => (v =? n) && Nat.eqb (length p) (plen n)
              | _ => false
              end
  | None => false
  end.

Lemma prefix_sweep : all_bits 20 0 prefix_check = true.
Proof. vm_compute. reflexivity. Qed.

Lemma prefix_for_ok n : n < 1048576 ->
  exists p, prefix_for n = Some p /\ hdr_exact p = Some (true, n) /\ length p = plen n.
Proof.
  intros Hn. pose proof (all_bits_below 20 prefix_check prefix_sweep n Hn) as H.
  unfold prefix_check in H. destruct (prefix_for n) as [p|]; [|discriminate].
  exists p. split; [reflexivity|].
  destruct (hdr_exact p) as [[[|] v]|]; try discriminate.
  apply andb_prop in H. destruct H as [Hv Hl].
  apply N.eqb_eq in Hv. apply Nat.eqb_eq in Hl. subst v. split; [reflexivity | exact Hl].
Qed.


(* one iteration of WritePadding: for 1 <= p <= 1024 the bytes written are a complete padding
   chunk (prefix announcing k, then k zero bytes) of total size exactly p *)
Definition pad_split (h : nat) (p : N) : bool :=
  let c := padding_chunk p in
  match hdr_exact (firstn h c) with
  | Some (false, v) => (v + N.of_nat h =? p) && beq (skipn h c) (zeros v) && Nat.eqb (length (firstn h c)) h
  | _ => false
  end.
Definition pad_check (m : N) : bool :=
  let p := m + 1 in pad_split 1 p || pad_split 2 p || pad_split 3 p.

Lemma pad_sweep : all_bits 10 0 pad_check = true.
Proof. vm_compute. reflexivity. Qed.
