(* Proofs about Model/LockTrace.v: the lockset theorem (for all traces, read-write locks
   included), soundness of the static table discipline, and soundness of the one-pass
   trace checker. *)
From Coq Require Import String List Arith Bool Lia.
From Snow Require Import Model.LockTrace.
Import ListNotations.

(* ---- lists -------------------------------------------------------------------------- *)

Lemma nth_error_mid : forall (A : Type) (l1 : list A) x l2,
  nth_error (l1 ++ x :: l2) (length l1) = Some x.
Proof.
  intros A l1 x l2. rewrite nth_error_app2 by lia. now rewrite Nat.sub_diag.
Qed.

Lemma firstn_of_split : forall (A : Type) (l1 : list A) x l2,
  firstn (length l1) (l1 ++ x :: l2) = l1.
Proof.
  intros A l1 x l2. rewrite firstn_app, Nat.sub_diag, firstn_all. cbn. now rewrite app_nil_r.
Qed.

(* two positions i < j split the trace in three *)
Lemma split_two : forall (tr : trace) i j e1 e2,
  i < j -> nth_error tr i = Some e1 -> nth_error tr j = Some e2 ->
  exists p s q, tr = p ++ e1 :: s ++ e2 :: q /\ length p = i /\ length (p ++ e1 :: s) = j.
Proof.
  intros tr i j e1 e2 Hij H1 H2.
  destruct (nth_error_split tr j H2) as (l1 & l2 & Htr & Hlen).
  assert (H1' : nth_error l1 i = Some e1).
  { rewrite Htr in H1. rewrite nth_error_app1 in H1 by lia. exact H1. }
  destruct (nth_error_split l1 i H1') as (p & s & Hl1 & Hp).
  exists p, s, l2. subst l1. split; [|split]; auto.
  rewrite Htr. now rewrite <- app_assoc.
Qed.

Lemma mem_tid_In : forall t l, mem_tid t l = true <-> In t l.
Proof.
  induction l as [|a l IH]; cbn; [split; [discriminate|tauto]|].
  rewrite orb_true_iff, Nat.eqb_eq, IH. tauto.
Qed.

Lemma remove_one_In : forall x t l, In x (remove_one t l) -> In x l.
Proof.
  induction l as [|a l IH]; cbn; auto.
  destruct (Nat.eqb a t); cbn; [tauto|]. intros [->|H]; auto.
Qed.

(* removing an occurrence of t keeps every other thread *)
Lemma remove_one_other : forall x t l, In x l -> x <> t -> In x (remove_one t l).
Proof.
  induction l as [|a l IH]; cbn; auto. intros [->|H] Hne.
  - destruct (Nat.eqb x t) eqn:E; [apply Nat.eqb_eq in E; contradiction|]. now left.
  - destruct (Nat.eqb a t); [exact H|]. right. auto.
Qed.

(* ---- running the lock state ----------------------------------------------------------- *)

Lemma run_app : forall a b s,
  run (a ++ b) s = match run a s with Some s' => run b s' | None => None end.
Proof.
  induction a as [|e a IH]; intros b s; cbn; auto.
  destruct (step s e); auto.
Qed.

Lemma upd_same : forall s l v, upd s l v l = v.
Proof. intros. unfold upd. now rewrite Nat.eqb_refl. Qed.

Lemma upd_other : forall s l v l', l' <> l -> upd s l v l' = s l'.
Proof. intros s l v l' H. unfold upd. apply Nat.eqb_neq in H. now rewrite H. Qed.

(* a write section excludes read sections *)
Definition lst_ok (v : lst) : Prop := wr v <> None -> rds v = [].

(* what one step can do to the state of g *)
Lemma step_view : forall s e s' g,
  step s e = Some s' ->
  s' g = s g
  \/ (exists t, e = Acq t g /\ wr (s g) = None /\ rds (s g) = [] /\ s' g = mkLst (Some t) [])
  \/ (exists t, e = Rel t g /\ wr (s g) = Some t /\ s' g = mkLst None (rds (s g)))
  \/ (exists t, e = RAcq t g /\ wr (s g) = None /\ s' g = mkLst None (t :: rds (s g)))
  \/ (exists t, e = RRel t g /\ In t (rds (s g)) /\ s' g = mkLst (wr (s g)) (remove_one t (rds (s g)))).
Proof.
  intros s e s' g H.
  destruct e as [t l|t l|t l|t l|t x|t x|t x|t t']; cbn in H; try (inversion H; subst; now left).
  - destruct (wr (s l)) eqn:Hw; [discriminate|]. destruct (rds (s l)) eqn:Hr; [|discriminate].
    inversion H; subst; clear H. destruct (Nat.eq_dec g l) as [->|Hne].
    + right; left. exists t. rewrite upd_same. auto.
    + left. now apply upd_other.
  - destruct (wr (s l)) as [t'|] eqn:Hw; [|discriminate].
    destruct (Nat.eqb t' t) eqn:Ht; [|discriminate]. apply Nat.eqb_eq in Ht. subst t'.
    inversion H; subst; clear H. destruct (Nat.eq_dec g l) as [->|Hne].
    + right; right; left. exists t. rewrite upd_same. auto.
    + left. now apply upd_other.
  - destruct (wr (s l)) eqn:Hw; [discriminate|].
    inversion H; subst; clear H. destruct (Nat.eq_dec g l) as [->|Hne].
    + right; right; right; left. exists t. rewrite upd_same. auto.
    + left. now apply upd_other.
  - destruct (mem_tid t (rds (s l))) eqn:Hm; [|discriminate]. apply mem_tid_In in Hm.
    inversion H; subst; clear H. destruct (Nat.eq_dec g l) as [->|Hne].
    + right; right; right; right. exists t. rewrite upd_same. auto.
    + left. now apply upd_other.
Qed.

Lemma step_ok : forall s e s' g, step s e = Some s' -> lst_ok (s g) -> lst_ok (s' g).
Proof.
  intros s e s' g H Hok.
  destruct (step_view s e s' g H) as [E|[(t & _ & _ & _ & E)|[(t & _ & _ & E)|[(t & _ & _ & E)|(t & _ & Hin & E)]]]];
    rewrite E; unfold lst_ok in *; cbn; auto; try congruence.
  intros Hw. rewrite (Hok Hw) in Hin. destruct Hin.
Qed.

Lemma run_ok : forall tr s s' g, run tr s = Some s' -> lst_ok (s g) -> lst_ok (s' g).
Proof.
  induction tr as [|e tr IH]; intros s s' g H Hok; cbn in H.
  - inversion H; subst. exact Hok.
  - destruct (step s e) as [s1|] eqn:Hst; [|discriminate].
    eapply IH; eauto. eapply step_ok; eauto.
Qed.

Lemma st0_ok : forall g, lst_ok (st0 g).
Proof. intros g. unfold lst_ok, st0, free. cbn. congruence. Qed.

(* if g ends up write-held by t2 and was not at the start, t2 acquired it on the way *)
Lemma acquire_exists : forall seg s s' g t2,
  run seg s = Some s' -> wr (s g) <> Some t2 -> wr (s' g) = Some t2 ->
  exists b c, seg = b ++ Acq t2 g :: c.
Proof.
  induction seg as [|e seg IH]; intros s s' g t2 Hrun Hne Hend; cbn in Hrun.
  - inversion Hrun; subst. contradiction.
  - destruct (step s e) as [s1|] eqn:Hst; [|discriminate].
    assert (Hcase : e = Acq t2 g \/ wr (s1 g) <> Some t2).
    { destruct (step_view s e s1 g Hst) as [E|[(t & He & _ & _ & E)|[(t & _ & _ & E)|[(t & _ & _ & E)|(t & _ & _ & E)]]]].
      - right. now rewrite E.
      - destruct (Nat.eq_dec t t2) as [->|Htt]; [now left|]. right. rewrite E. cbn. congruence.
      - right. rewrite E. cbn. discriminate.
      - right. rewrite E. cbn. discriminate.
      - right. rewrite E. cbn. exact Hne. }
    destruct Hcase as [->|Hne1].
    + now exists [], seg.
    + destruct (IH s1 s' g t2 Hrun Hne1 Hend) as (b & c & Hseg).
      exists (e :: b), c. now rewrite Hseg.
Qed.

(* if t2 ends up inside a read section of g and was not at the start, it entered on the way *)
Lemma racquire_exists : forall seg s s' g t2,
  run seg s = Some s' -> ~ In t2 (rds (s g)) -> In t2 (rds (s' g)) ->
  exists b c, seg = b ++ RAcq t2 g :: c.
Proof.
  induction seg as [|e seg IH]; intros s s' g t2 Hrun Hne Hend; cbn in Hrun.
  - inversion Hrun; subst. contradiction.
  - destruct (step s e) as [s1|] eqn:Hst; [|discriminate].
    assert (Hcase : e = RAcq t2 g \/ ~ In t2 (rds (s1 g))).
    { destruct (step_view s e s1 g Hst) as [E|[(t & _ & _ & _ & E)|[(t & _ & _ & E)|[(t & He & _ & E)|(t & _ & _ & E)]]]].
      - right. now rewrite E.
      - right. rewrite E. cbn. tauto.
      - right. rewrite E. cbn. exact Hne.
      - destruct (Nat.eq_dec t t2) as [->|Htt]; [now left|]. right. rewrite E. cbn. intros [H|H]; auto.
      - right. rewrite E. cbn. intros H. apply Hne. eapply remove_one_In; eauto. }
    destruct Hcase as [->|Hne1].
    + now exists [], seg.
    + destruct (IH s1 s' g t2 Hrun Hne1 Hend) as (b & c & Hseg).
      exists (e :: b), c. now rewrite Hseg.
Qed.

(* write section of t1, later write section of t2 <> t1: t1 released, then t2 acquired *)
Lemma handoff_ww : forall seg s s' g t1 t2,
  run seg s = Some s' -> wr (s g) = Some t1 -> wr (s' g) = Some t2 -> t1 <> t2 ->
  exists a b c, seg = a ++ Rel t1 g :: b ++ Acq t2 g :: c.
Proof.
  induction seg as [|e seg IH]; intros s s' g t1 t2 Hrun H1 H2 Hne; cbn in Hrun.
  - inversion Hrun; subst. rewrite H1 in H2. inversion H2. contradiction.
  - destruct (step s e) as [s1|] eqn:Hst; [|discriminate].
    destruct (step_view s e s1 g Hst) as [E|[(t & _ & Hs & _ & _)|[(t & He & Hs & E)|[(t & _ & Hs & _)|(t & _ & _ & E)]]]].
    + assert (H1' : wr (s1 g) = Some t1) by (now rewrite E).
      destruct (IH s1 s' g t1 t2 Hrun H1' H2 Hne) as (a & b & c & Hseg).
      exists (e :: a), b, c. now rewrite Hseg.
    + congruence.
    + rewrite H1 in Hs. inversion Hs; subst t.
      assert (Hn : wr (s1 g) <> Some t2) by (rewrite E; cbn; discriminate).
      destruct (acquire_exists seg s1 s' g t2 Hrun Hn H2) as (b & c & Hseg).
      exists [], b, c. now rewrite He, Hseg.
    + congruence.
    + assert (H1' : wr (s1 g) = Some t1) by (rewrite E; exact H1).
      destruct (IH s1 s' g t1 t2 Hrun H1' H2 Hne) as (a & b & c & Hseg).
      exists (e :: a), b, c. now rewrite Hseg.
Qed.

(* write section of t1, later read section of t2: t1 released, then t2 entered *)
Lemma handoff_wr : forall seg s s' g t1 t2,
  run seg s = Some s' -> lst_ok (s g) -> wr (s g) = Some t1 -> In t2 (rds (s' g)) ->
  exists a b c, seg = a ++ Rel t1 g :: b ++ RAcq t2 g :: c.
Proof.
  induction seg as [|e seg IH]; intros s s' g t1 t2 Hrun Hok H1 H2; cbn in Hrun.
  - inversion Hrun; subst. rewrite Hok in H2 by congruence. destruct H2.
  - destruct (step s e) as [s1|] eqn:Hst; [|discriminate].
    assert (Hok1 : lst_ok (s1 g)) by (eapply step_ok; eauto).
    destruct (step_view s e s1 g Hst) as [E|[(t & _ & Hs & _ & _)|[(t & He & Hs & E)|[(t & _ & Hs & _)|(t & _ & Hin & _)]]]].
    + assert (H1' : wr (s1 g) = Some t1) by (now rewrite E).
      destruct (IH s1 s' g t1 t2 Hrun Hok1 H1' H2) as (a & b & c & Hseg).
      exists (e :: a), b, c. now rewrite Hseg.
    + congruence.
    + rewrite H1 in Hs. inversion Hs; subst t.
      assert (Hn : ~ In t2 (rds (s1 g))).
      { rewrite E. cbn. rewrite Hok by congruence. tauto. }
      destruct (racquire_exists seg s1 s' g t2 Hrun Hn H2) as (b & c & Hseg).
      exists [], b, c. now rewrite He, Hseg.
    + congruence.
    + rewrite Hok in Hin by congruence. destruct Hin.
Qed.

(* read section of t1, later write section of t2: t1 left, then t2 acquired *)
Lemma handoff_rw : forall seg s s' g t1 t2,
  run seg s = Some s' -> lst_ok (s g) -> In t1 (rds (s g)) -> wr (s' g) = Some t2 ->
  exists a b c, seg = a ++ RRel t1 g :: b ++ Acq t2 g :: c.
Proof.
  induction seg as [|e seg IH]; intros s s' g t1 t2 Hrun Hok H1 H2; cbn in Hrun.
  - inversion Hrun; subst. rewrite Hok in H1 by congruence. destruct H1.
  - destruct (step s e) as [s1|] eqn:Hst; [|discriminate].
    assert (Hok1 : lst_ok (s1 g)) by (eapply step_ok; eauto).
    assert (Hw : wr (s g) = None).
    { destruct (wr (s g)) eqn:Hw; auto. rewrite Hok in H1 by congruence. destruct H1. }
    destruct (step_view s e s1 g Hst) as [E|[(t & _ & _ & Hr & _)|[(t & _ & Hs & _)|[(t & _ & _ & E)|(t & He & Hin & E)]]]].
    + assert (H1' : In t1 (rds (s1 g))) by (now rewrite E).
      destruct (IH s1 s' g t1 t2 Hrun Hok1 H1' H2) as (a & b & c & Hseg).
      exists (e :: a), b, c. now rewrite Hseg.
    + rewrite Hr in H1. destruct H1.
    + congruence.
    + assert (H1' : In t1 (rds (s1 g))) by (rewrite E; cbn; auto).
      destruct (IH s1 s' g t1 t2 Hrun Hok1 H1' H2) as (a & b & c & Hseg).
      exists (e :: a), b, c. now rewrite Hseg.
    + destruct (Nat.eq_dec t1 t) as [<-|Hne].
      * assert (Hn : wr (s1 g) <> Some t2) by (rewrite E; cbn; rewrite Hw; discriminate).
        destruct (acquire_exists seg s1 s' g t2 Hrun Hn H2) as (b & c & Hseg).
        exists [], b, c. now rewrite He, Hseg.
      * assert (H1' : In t1 (rds (s1 g))) by (rewrite E; cbn; now apply remove_one_other).
        destruct (IH s1 s' g t1 t2 Hrun Hok1 H1' H2) as (a & b & c & Hseg).
        exists (e :: a), b, c. now rewrite Hseg.
Qed.

(* ---- happens-before helpers ----------------------------------------------------------- *)

Lemma hb_lt : forall tr i j, hb tr i j -> i < j.
Proof. induction 1; lia. Qed.

Lemma access_not_fork : forall e x, accesses e x -> is_fork e = false.
Proof. intros e x H. destruct e; cbn in *; auto; unfold accesses in H; cbn in H; discriminate. Qed.

(* the common skeleton: an access e1 at i, an event e2 at j, and between them an event X of
   e1's thread followed by an event Y of e2's thread such that X synchronises with Y *)
Lemma ordered_via : forall tr i j e1 e2 p s q a b c X Y,
  tr = p ++ e1 :: s ++ e2 :: q -> length p = i -> length (p ++ e1 :: s) = j ->
  e1 :: s = a ++ X :: b ++ Y :: c -> e1 <> X -> thr X = thr e1 -> thr Y = thr e2 ->
  (forall k m, k < m -> nth_error tr k = Some X -> nth_error tr m = Some Y -> hb tr k m) ->
  hb tr i j.
Proof.
  intros tr i j e1 e2 p s q a b c X Y Htr Hp Hps Hseg HneX HtX HtY Hsync.
  destruct a as [|a0 a].
  { cbn in Hseg. exfalso. apply HneX. congruence. }
  cbn in Hseg. inversion Hseg as [[Ha0 Hs]]. subst a0.
  set (k := length (p ++ e1 :: a)).
  set (m := length ((p ++ e1 :: a) ++ X :: b)).
  assert (Htr2 : tr = (p ++ e1 :: a) ++ X :: (b ++ Y :: c ++ e2 :: q)).
  { rewrite Htr, Hs. repeat (rewrite <- app_assoc; cbn). reflexivity. }
  assert (Htr3 : tr = ((p ++ e1 :: a) ++ X :: b) ++ Y :: (c ++ e2 :: q)).
  { rewrite Htr2. repeat (rewrite <- app_assoc; cbn). reflexivity. }
  assert (Hk : nth_error tr k = Some X).
  { rewrite Htr2 at 1. apply nth_error_mid. }
  assert (Hm : nth_error tr m = Some Y).
  { rewrite Htr3 at 1. apply nth_error_mid. }
  assert (Hi : nth_error tr i = Some e1).
  { rewrite Htr, <- Hp. apply nth_error_mid. }
  assert (Hj : nth_error tr j = Some e2).
  { rewrite <- Hps. rewrite Htr.
    replace (p ++ e1 :: s ++ e2 :: q) with ((p ++ e1 :: s) ++ e2 :: q) by (now rewrite <- app_assoc).
    apply nth_error_mid. }
  assert (Hik : i < k).
  { unfold k. rewrite app_length. cbn. lia. }
  assert (Hkm : k < m).
  { unfold k, m. rewrite (app_length (p ++ e1 :: a)). cbn. lia. }
  assert (Hmj : m < j).
  { rewrite <- Hps. unfold m. rewrite Hs. repeat (rewrite app_length; cbn). lia. }
  apply hb_trans with k.
  - eapply hb_po; eauto.
  - apply hb_trans with m.
    + apply Hsync; auto.
    + eapply hb_po; eauto.
Qed.

(* the states just before positions i < j *)
Lemma states_at : forall tr i j e1 e2 sA sB,
  i < j -> nth_error tr i = Some e1 -> nth_error tr j = Some e2 ->
  run (firstn i tr) st0 = Some sA -> run (firstn j tr) st0 = Some sB ->
  exists p s q, tr = p ++ e1 :: s ++ e2 :: q /\ length p = i /\ length (p ++ e1 :: s) = j /\
                run (e1 :: s) sA = Some sB /\ (forall g, lst_ok (sA g)).
Proof.
  intros tr i j e1 e2 sA sB Hij Hi Hj HrA HrB.
  destruct (split_two tr i j e1 e2 Hij Hi Hj) as (p & s & q & Htr & Hp & Hps).
  exists p, s, q. repeat split; auto.
  - assert (Fi : firstn i tr = p).
    { rewrite Htr, <- Hp. apply firstn_of_split. }
    assert (Fj : firstn j tr = p ++ e1 :: s).
    { rewrite Htr, <- Hps.
      replace (p ++ e1 :: s ++ e2 :: q) with ((p ++ e1 :: s) ++ e2 :: q) by (now rewrite <- app_assoc).
      apply firstn_of_split. }
    rewrite Fi in HrA. rewrite Fj, run_app, HrA in HrB. exact HrB.
  - intros g. eapply run_ok; [exact HrA | apply st0_ok].
Qed.

(* two sections of the same lock by different threads, at least one of them a write
   section, are ordered *)
Lemma sections_ordered_ww : forall tr i j e1 e2 x g,
  i < j -> nth_error tr i = Some e1 -> nth_error tr j = Some e2 ->
  accesses e1 x -> thr e1 <> thr e2 ->
  holds tr i (thr e1) g -> holds tr j (thr e2) g -> hb tr i j.
Proof.
  intros tr i j e1 e2 x g Hij Hi Hj Hacc Hthr (sA & HrA & HA) (sB & HrB & HB).
  destruct (states_at tr i j e1 e2 sA sB Hij Hi Hj HrA HrB) as (p & s & q & Htr & Hp & Hps & Hrun & _).
  destruct (handoff_ww (e1 :: s) sA sB g (thr e1) (thr e2) Hrun HA HB Hthr) as (a & b & c & Hseg).
  eapply (ordered_via tr i j e1 e2 p s q a b c (Rel (thr e1) g) (Acq (thr e2) g)); eauto.
  - intros E. rewrite E in Hacc. unfold accesses in Hacc. cbn in Hacc. discriminate.
  - intros k m Hkm Hk Hm. eapply hb_sync; eauto.
Qed.

Lemma sections_ordered_wr : forall tr i j e1 e2 x g,
  i < j -> nth_error tr i = Some e1 -> nth_error tr j = Some e2 ->
  accesses e1 x ->
  holds tr i (thr e1) g -> holds_r tr j (thr e2) g -> hb tr i j.
Proof.
  intros tr i j e1 e2 x g Hij Hi Hj Hacc (sA & HrA & HA) (sB & HrB & HB).
  destruct (states_at tr i j e1 e2 sA sB Hij Hi Hj HrA HrB) as (p & s & q & Htr & Hp & Hps & Hrun & Hok).
  destruct (handoff_wr (e1 :: s) sA sB g (thr e1) (thr e2) Hrun (Hok g) HA HB) as (a & b & c & Hseg).
  eapply (ordered_via tr i j e1 e2 p s q a b c (Rel (thr e1) g) (RAcq (thr e2) g)); eauto.
  - intros E. rewrite E in Hacc. unfold accesses in Hacc. cbn in Hacc. discriminate.
  - intros k m Hkm Hk Hm. eapply hb_sync_wr; eauto.
Qed.

Lemma sections_ordered_rw : forall tr i j e1 e2 x g,
  i < j -> nth_error tr i = Some e1 -> nth_error tr j = Some e2 ->
  accesses e1 x ->
  holds_r tr i (thr e1) g -> holds tr j (thr e2) g -> hb tr i j.
Proof.
  intros tr i j e1 e2 x g Hij Hi Hj Hacc (sA & HrA & HA) (sB & HrB & HB).
  destruct (states_at tr i j e1 e2 sA sB Hij Hi Hj HrA HrB) as (p & s & q & Htr & Hp & Hps & Hrun & Hok).
  destruct (handoff_rw (e1 :: s) sA sB g (thr e1) (thr e2) Hrun (Hok g) HA HB) as (a & b & c & Hseg).
  eapply (ordered_via tr i j e1 e2 p s q a b c (RRel (thr e1) g) (Acq (thr e2) g)); eauto.
  - intros E. rewrite E in Hacc. unfold accesses in Hacc. cbn in Hacc. discriminate.
  - intros k m Hkm Hk Hm. eapply hb_sync_rw; eauto.
Qed.

(* before the first Fork only the main thread runs *)
Lemma init_is_main : forall tr i e,
  wf_threads tr -> init_at tr i -> nth_error tr i = Some e -> thr e = main_thread.
Proof.
  intros tr i e Hwf Hinit Hi.
  destruct (Nat.eq_dec (thr e) main_thread) as [|Hne]; auto.
  destruct (Hwf i e Hi Hne) as (k & t0 & Hk & Hf).
  assert (Hc : is_fork (Fork t0 (thr e)) = false) by (apply (Hinit k); [lia|exact Hf]).
  cbn in Hc. discriminate.
Qed.

(* an event of the initialisation phase happens before every later event *)
Lemma init_before_all : forall tr i e1,
  wf_threads tr -> init_at tr i -> nth_error tr i = Some e1 -> is_fork e1 = false ->
  forall j e2, i < j -> nth_error tr j = Some e2 -> hb tr i j.
Proof.
  intros tr i e1 Hwf Hinit Hi Hnf j.
  induction j as [j IH] using lt_wf_ind. intros e2 Hij Hj.
  destruct (Nat.eq_dec (thr e2) main_thread) as [Hm|Hne].
  - eapply hb_po; eauto. rewrite Hm. eapply init_is_main; eauto.
  - destruct (Hwf j e2 Hj Hne) as (k & t0 & Hkj & Hf).
    assert (Hik : i < k).
    { destruct (le_lt_dec k i) as [Hle|]; auto.
      assert (Hc : is_fork (Fork t0 (thr e2)) = false) by (apply (Hinit k); auto).
      cbn in Hc. discriminate. }
    apply hb_trans with k.
    + eapply IH; eauto.
    + eapply hb_fork; eauto.
Qed.

Lemma init_at_mono : forall tr i j, i <= j -> init_at tr j -> init_at tr i.
Proof. intros tr i j Hij H k e Hk. apply H. lia. Qed.

(* ---- the lockset theorem -------------------------------------------------------------- *)

Theorem lockset_drf : forall tr,
  wf_locks tr -> wf_threads tr ->
  forall x, disciplined tr x -> race_free_on tr x.
Proof.
  intros tr _ Hwt x Hd i j e1 e2 Hij Hi Hj (Ha1 & Ha2 & Hthr & Hw & Hat).
  (* an access of the initialisation phase at i, or at j, settles the matter *)
  assert (Hinit_i : init_at tr i -> hb tr i j).
  { intros Hin. apply (init_before_all tr i e1 Hwt Hin Hi (access_not_fork e1 x Ha1) j e2 Hij Hj). }
  assert (Hinit_j : init_at tr j -> hb tr i j).
  { intros Hin. exfalso. apply Hthr.
    rewrite (init_is_main tr j e2 Hwt Hin Hj).
    apply (init_is_main tr i e1 Hwt); auto. eapply init_at_mono; [|exact Hin]. lia. }
  destruct Hd as [HA|[(g & HB)|HC]].
  - destruct (HA i e1 Hi Ha1) as [|At1]; auto.
    destruct (HA j e2 Hj Ha2) as [|At2]; auto.
    destruct Hat as [F|F]; congruence.
  - destruct (HB i e1 Hi Ha1) as [|[W1|[R1 H1]]]; auto;
    destruct (HB j e2 Hj Ha2) as [|[W2|[R2 H2]]]; auto.
    + eapply sections_ordered_ww; eauto.
    + eapply sections_ordered_wr; eauto.
    + eapply sections_ordered_rw; eauto.
    + (* two plain reads inside read sections: not a conflict *)
      exfalso. destruct e1; destruct e2; cbn in *; destruct Hw; discriminate.
  - destruct (HC i e1 Hi Ha1) as [|R1]; auto.
    destruct (HC j e2 Hj Ha2) as [|R2]; auto.
    exfalso. destruct e1; destruct e2; cbn in *; destruct Hw; discriminate.
Qed.

(* ---- the static table ----------------------------------------------------------------- *)

Lemma mem_str_In : forall g l, mem_str g l = true <-> In g l.
Proof.
  intros g l. unfold mem_str. rewrite existsb_exists. split.
  - intros (y & Hy & He). apply String.eqb_eq in He. now subst.
  - intros H. exists g. split; auto. apply String.eqb_refl.
Qed.

Lemma nodup_str_In : forall l a, In a (nodup_str l) <-> In a l.
Proof.
  induction l as [|b l IH]; intros a; cbn; [tauto|].
  destruct (mem_str b l) eqn:Hb.
  - rewrite IH. split; auto. intros [->|]; auto. now apply mem_str_In.
  - cbn. rewrite IH. tauto.
Qed.

Lemma live_rows_In : forall f tbl r,
  In r (live_rows f tbl) <-> In r tbl /\ field r = f /\ kind_is_init (kind r) = false.
Proof.
  intros f tbl r. unfold live_rows. rewrite filter_In, andb_true_iff, negb_true_iff, String.eqb_eq. tauto.
Qed.

Lemma common_locks_held : forall rows g r,
  In g (common_locks rows) -> In r rows -> In g (held r).
Proof.
  intros rows g r Hg Hr. destruct rows as [|r0 rs]; [contradiction|].
  cbn in Hg. apply filter_In in Hg. destruct Hg as [Hg0 Hall].
  destruct Hr as [<-|Hr]; auto.
  rewrite forallb_forall in Hall. apply mem_str_In. now apply Hall.
Qed.

(* a name that is not a read-mode name is its own base *)
Lemma not_rname_strip : forall g, is_rname g = false -> strip_R g = g.
Proof. intros g H. unfold is_rname in H. apply negb_false_iff in H. now apply String.eqb_eq. Qed.

Section Soundness.
  Variable field_of : loc -> string.
  Variable inst : loc -> string -> lock.

  (* discipline_ok on the table gives the dynamic discipline for every location of every
     trace that respects the table *)
  Theorem discipline_sound : forall tbl,
    discipline_ok tbl = true ->
    forall tr, respects field_of inst tbl tr -> forall x, disciplined tr x.
  Proof.
    intros tbl Hok tr Hres x.
    (* is x accessed at all?  we only need the row given by `respects` at each access *)
    destruct (in_dec string_dec (field_of x) (fields_of tbl)) as [Hin|Hnin].
    - unfold discipline_ok in Hok. rewrite forallb_forall in Hok.
      specialize (Hok _ Hin). unfold field_ok in Hok.
      apply orb_true_iff in Hok. destruct Hok as [Hok|Hlk].
      + apply orb_true_iff in Hok. destruct Hok as [Hat|Hrd].
        * left. intros i e Hi Ha.
          destruct (Hres i e x Hi Ha) as (r & Hr & Hf & Hk & _).
          destruct (kind_is_init (kind r)) eqn:Hki.
          { left. destruct (kind r); try discriminate. exact Hk. }
          right. rewrite forallb_forall in Hat.
          assert (Hl : In r (live_rows (field_of x) tbl)) by (apply live_rows_In; auto).
          specialize (Hat r Hl). destruct (kind r); try discriminate. exact Hk.
        * right; right. intros i e Hi Ha.
          destruct (Hres i e x Hi Ha) as (r & Hr & Hf & Hk & _).
          destruct (kind_is_init (kind r)) eqn:Hki.
          { left. destruct (kind r); try discriminate. exact Hk. }
          right. rewrite forallb_forall in Hrd.
          assert (Hl : In r (live_rows (field_of x) tbl)) by (apply live_rows_In; auto).
          specialize (Hrd r Hl). destruct (kind r); try discriminate. exact Hk.
      + right; left.
        apply existsb_exists in Hlk. destruct Hlk as (g0 & Hg0 & Hgd).
        unfold guards in Hgd. apply andb_true_iff in Hgd. destruct Hgd as [Hbase Hrows].
        apply negb_true_iff in Hbase. rewrite forallb_forall in Hrows.
        exists (inst x (strip_R g0)). intros i e Hi Ha.
        destruct (Hres i e x Hi Ha) as (r & Hr & Hf & Hk & Hh).
        destruct (kind_is_init (kind r)) eqn:Hki.
        { left. destruct (kind r); try discriminate. exact Hk. }
        right.
        assert (Hl : In r (live_rows (field_of x) tbl)) by (apply live_rows_In; auto).
        assert (Hg0r : In g0 (held r)) by (eapply common_locks_held; eauto).
        specialize (Hrows r Hl). apply orb_true_iff in Hrows. destruct Hrows as [Hrd|Hw].
        * (* a plain-read row: the common lock, in the mode its name says *)
          assert (Hro : is_read_only e = true) by (destruct (kind r); try discriminate; exact Hk).
          specialize (Hh g0 Hg0r). unfold name_held in Hh.
          destruct (is_rname g0) eqn:Hrn.
          -- destruct Hh as [Hw|Hrm]; [now left | right; split; auto].
          -- left. rewrite (not_rname_strip g0 Hrn). exact Hh.
        * (* any other row lists the base name: write mode *)
          apply mem_str_In in Hw. specialize (Hh (strip_R g0) Hw). unfold name_held in Hh.
          rewrite Hbase in Hh. now left.
    - (* no row for this field: a trace that respects the table never touches x *)
      left. intros i e Hi Ha. exfalso.
      destruct (Hres i e x Hi Ha) as (r & Hr & Hf & _).
      apply Hnin. unfold fields_of. apply nodup_str_In. rewrite <- Hf. now apply in_map.
  Qed.

  (* the two together: what a passing table means *)
  Corollary table_gives_race_freedom : forall tbl,
    discipline_ok tbl = true ->
    forall tr, wf_locks tr -> wf_threads tr -> respects field_of inst tbl tr ->
    forall x, race_free_on tr x.
  Proof.
    intros tbl Hok tr Hwl Hwt Hres x.
    apply lockset_drf; auto. eapply discipline_sound; eauto.
  Qed.

  (* ---- the one-pass checker is sound --------------------------------------------------- *)

  Lemma opt_tid_is_spec : forall o t, opt_tid_is o t = true <-> o = Some t.
  Proof.
    intros [t'|] t; cbn; [|split; discriminate]. rewrite Nat.eqb_eq. split; congruence.
  Qed.

  Lemma firstn_prefix : forall (p q : trace), firstn (length p) (p ++ q) = p.
  Proof. intros p q. rewrite firstn_app, Nat.sub_diag, firstn_all. cbn. now rewrite app_nil_r. Qed.

  Lemma name_held_of_b : forall (p q : trace) s t x g,
    run p st0 = Some s -> name_heldb s t (inst x) g = true ->
    name_held (p ++ q) (length p) t (inst x) g.
  Proof.
    intros p q s t x g Hrun Hb. unfold name_heldb in Hb. unfold name_held.
    destruct (is_rname g).
    - apply orb_true_iff in Hb. destruct Hb as [Hb|Hb].
      + left. exists s. rewrite firstn_prefix. split; auto. now apply opt_tid_is_spec.
      + right. exists s. rewrite firstn_prefix. split; auto. now apply mem_tid_In.
    - exists s. rewrite firstn_prefix. split; auto. now apply opt_tid_is_spec.
  Qed.

  Definition no_fork (p : trace) : Prop := forall e, In e p -> is_fork e = false.

  Lemma init_at_of_no_fork : forall (p : trace) e q,
    no_fork (p ++ [e]) -> init_at (p ++ e :: q) (length p).
  Proof.
    intros p e q Hnf k e' Hk Hn.
    apply Hnf. replace (p ++ e :: q) with ((p ++ [e]) ++ q) in Hn by (now rewrite <- app_assoc).
    rewrite nth_error_app1 in Hn by (rewrite app_length; cbn; lia).
    eapply nth_error_In; eauto.
  Qed.

  (* generalised over the prefix p already consumed *)
  Lemma check_sound_gen : forall tbl q p s init forked,
    run p st0 = Some s ->
    (init = true -> no_fork p) ->
    (forall t, In t forked -> exists k t0, k < length p /\ nth_error p k = Some (Fork t0 t)) ->
    check field_of inst tbl q s init forked = true ->
    (exists s', run (p ++ q) st0 = Some s') /\
    (forall i e x, length p <= i -> nth_error (p ++ q) i = Some e -> accesses e x ->
       exists r, In r tbl /\ field r = field_of x /\ kind_matches (p ++ q) i e (kind r) /\
                 forall g, In g (held r) -> name_held (p ++ q) i (thr e) (inst x) g) /\
    (forall j e, length p <= j -> nth_error (p ++ q) j = Some e -> thr e <> main_thread ->
       exists k t0, k < j /\ nth_error (p ++ q) k = Some (Fork t0 (thr e))).
  Proof.
    intros tbl q. induction q as [|e q IH]; intros p s init forked Hrun Hinit Hforked Hc.
    - rewrite app_nil_r. split; [eauto|]. split.
      + intros i e x Hle Hn. apply nth_error_None in Hle. congruence.
      + intros j e Hle Hn. apply nth_error_None in Hle. congruence.
    - cbn [check] in Hc. apply andb_true_iff in Hc. destruct Hc as [Hc Hstep].
      apply andb_true_iff in Hc. destruct Hc as [Hthr Hrow].
      destruct (step s e) as [s1|] eqn:Hst; [|discriminate].
      set (init' := init && negb (is_fork e)) in *.
      set (forked' := match e with Fork _ t' => t' :: forked | _ => forked end) in *.
      assert (Hrun1 : run (p ++ [e]) st0 = Some s1).
      { rewrite run_app, Hrun. cbn. now rewrite Hst. }
      assert (Hinit1 : init' = true -> no_fork (p ++ [e])).
      { unfold init'. intros H. apply andb_true_iff in H. destruct H as [H1 H2]. apply negb_true_iff in H2.
        intros e' Hin. apply in_app_or in Hin. destruct Hin as [Hin|[<-|[]]]; auto. now apply Hinit. }
      assert (Hforked1 : forall t, In t forked' -> exists k t0, k < length (p ++ [e]) /\ nth_error (p ++ [e]) k = Some (Fork t0 t)).
      { intros t Hin. rewrite app_length. cbn [length].
        assert (Hold : In t forked -> exists k t0, k < length p + 1 /\ nth_error (p ++ [e]) k = Some (Fork t0 t)).
        { intros Ho. destruct (Hforked t Ho) as (k & t0 & Hk & Hn). exists k, t0. split; [lia|].
          rewrite nth_error_app1 by lia. exact Hn. }
        unfold forked' in Hin. destruct e as [a l|a l|a l|a l|a y|a y|a y|a b]; auto.
        destruct Hin as [<-|Hin]; auto.
        exists (length p), a. split; [lia|]. apply nth_error_mid. }
      replace (p ++ e :: q) with ((p ++ [e]) ++ q) by (now rewrite <- app_assoc).
      destruct (IH (p ++ [e]) s1 init' forked' Hrun1 Hinit1 Hforked1 Hstep) as (Hwf & Hres & Hthrs).
      split; [exact Hwf|]. split.
      + intros i e' x Hle Hn Hacc.
        destruct (Nat.eq_dec i (length p)) as [->|Hne].
        * (* the head event *)
          assert (He : e' = e).
          { rewrite <- app_assoc in Hn. cbn in Hn. rewrite nth_error_mid in Hn. congruence. }
          subst e'. unfold accesses in Hacc. rewrite Hacc in Hrow.
          apply existsb_exists in Hrow. destruct Hrow as (r & Hr & Hok).
          unfold row_okb in Hok. apply andb_true_iff in Hok. destruct Hok as [Hok Hheld].
          apply andb_true_iff in Hok. destruct Hok as [Hf Hk]. apply String.eqb_eq in Hf.
          exists r. split; auto. split; auto. split.
          -- rewrite <- app_assoc. cbn [app]. destruct (kind r); cbn in Hk |- *; auto.
             apply init_at_of_no_fork. apply Hinit1. exact Hk.
          -- intros g Hg. rewrite forallb_forall in Hheld. specialize (Hheld g Hg).
             rewrite <- app_assoc. cbn [app]. eapply name_held_of_b; eauto.
        * apply Hres; auto. rewrite app_length. cbn. lia.
      + intros j e' Hle Hn Hnm.
        destruct (Nat.eq_dec j (length p)) as [->|Hne].
        * assert (He : e' = e).
          { rewrite <- app_assoc in Hn. cbn in Hn. rewrite nth_error_mid in Hn. congruence. }
          subst e'. apply orb_true_iff in Hthr. destruct Hthr as [Hm|Hm].
          -- apply Nat.eqb_eq in Hm. contradiction.
          -- apply mem_tid_In in Hm. destruct (Hforked _ Hm) as (k & t0 & Hk & Hnk).
             exists k, t0. split; auto. rewrite <- app_assoc. rewrite nth_error_app1 by lia. exact Hnk.
        * apply Hthrs; auto. rewrite app_length. cbn. lia.
  Qed.

  (* a trace accepted by the checker is well formed and respects the table *)
  Theorem check_sound : forall tbl tr,
    check_trace field_of inst tbl tr = true ->
    wf_locks tr /\ wf_threads tr /\ respects field_of inst tbl tr.
  Proof.
    intros tbl tr H. unfold check_trace in H.
    destruct (check_sound_gen tbl tr [] st0 true [] eq_refl) as (Hwf & Hres & Hthr); auto.
    - intros _ e [].
    - intros t [].
    - cbn [app] in *. split; [exact Hwf|]. split.
      + intros j e Hn Hne. apply (Hthr j e); auto. cbn. lia.
      + intros i e x Hn Ha. apply (Hres i e x); auto. cbn. lia.
  Qed.
End Soundness.

(* failing_fields is empty exactly when the table passes *)
Lemma failing_fields_nil : forall tbl, failing_fields tbl = [] <-> discipline_ok tbl = true.
Proof.
  intros tbl. unfold failing_fields, discipline_ok. generalize (fields_of tbl) as fs.
  induction fs as [|f fs IH]; cbn; [tauto|].
  destruct (field_ok f tbl); cbn.
  - exact IH.
  - split; discriminate.
Qed.
