(* Proofs about Model/LockTrace.v: the lockset theorem (for all traces) and soundness of
   the static table discipline. *)
From Coq Require Import String List Arith Bool Lia.
From Snow Require Import Model.LockTrace.
Import ListNotations.

(* ---- lists -------------------------------------------------------------------------- *)

Lemma nth_error_mid : forall (A : Type) (l1 : list A) x l2,
  nth_error (l1 ++ x :: l2) (length l1) = Some x.
Proof.
  intros A l1 x l2. rewrite nth_error_app2 by lia. now rewrite Nat.sub_diag.
Qed.

Lemma firstn_of_split : forall (A : Type) (l1 : list A) x l2,
  firstn (length l1) (l1 ++ x :: l2) = l1.
Proof.
  intros A l1 x l2. rewrite firstn_app, Nat.sub_diag, firstn_all. cbn. now rewrite app_nil_r.
Qed.

(* two positions i < j split the trace in three *)
Lemma split_two : forall (tr : trace) i j e1 e2,
  i < j -> nth_error tr i = Some e1 -> nth_error tr j = Some e2 ->
  exists p s q, tr = p ++ e1 :: s ++ e2 :: q /\ length p = i /\ length (p ++ e1 :: s) = j.
Proof.
  intros tr i j e1 e2 Hij H1 H2.
  destruct (nth_error_split tr j H2) as (l1 & l2 & Htr & Hlen).
  assert (H1' : nth_error l1 i = Some e1).
  { rewrite Htr in H1. rewrite nth_error_app1 in H1 by lia. exact H1. }
  destruct (nth_error_split l1 i H1') as (p & s & Hl1 & Hp).
  exists p, s, l2. subst l1. split; [|split]; auto.
  rewrite Htr. now rewrite <- app_assoc.
Qed.

(* ---- running the lock state ----------------------------------------------------------- *)

Lemma run_app : forall a b s,
  run (a ++ b) s = match run a s with Some s' => run b s' | None => None end.
Proof.
  induction a as [|e a IH]; intros b s; cbn; auto.
  destruct (step s e); auto.
Qed.

Lemma upd_same : forall s l v, upd s l v l = v.
Proof. intros. unfold upd. now rewrite Nat.eqb_refl. Qed.

Lemma upd_other : forall s l v l', l' <> l -> upd s l v l' = s l'.
Proof. intros s l v l' H. unfold upd. apply Nat.eqb_neq in H. now rewrite H. Qed.

(* what one step can do to the owner of g *)
Lemma step_owner : forall s e s' g,
  step s e = Some s' ->
  s' g = s g
  \/ (exists t, e = Acq t g /\ s g = None /\ s' g = Some t)
  \/ (exists t, e = Rel t g /\ s g = Some t /\ s' g = None).
Proof.
  intros s e s' g H. destruct e as [t l|t l|t x|t x|t x|t t']; cbn in H; try (inversion H; subst; now left).
  - destruct (s l) eqn:Hl; [discriminate|]. inversion H; subst. clear H.
    destruct (Nat.eq_dec g l) as [->|Hne].
    + right; left. exists t. rewrite upd_same. auto.
    + left. now apply upd_other.
  - destruct (s l) as [t'|] eqn:Hl; [|discriminate].
    destruct (Nat.eqb t' t) eqn:Ht; [|discriminate]. apply Nat.eqb_eq in Ht. subst t'.
    inversion H; subst. clear H.
    destruct (Nat.eq_dec g l) as [->|Hne].
    + right; right. exists t. rewrite upd_same. auto.
    + left. now apply upd_other.
Qed.

(* if g ends up owned by t2 and was not owned by t2 at the start, t2 acquired it on the way *)
Lemma acquire_exists : forall seg s s' g t2,
  run seg s = Some s' -> s g <> Some t2 -> s' g = Some t2 ->
  exists b c, seg = b ++ Acq t2 g :: c.
Proof.
  induction seg as [|e seg IH]; intros s s' g t2 Hrun Hne Hend; cbn in Hrun.
  - inversion Hrun; subst. contradiction.
  - destruct (step s e) as [s1|] eqn:Hst; [|discriminate].
    destruct (step_owner s e s1 g Hst) as [Heq|[(t & He & Hs & Hs1)|(t & He & Hs & Hs1)]].
    + assert (Hne1 : s1 g <> Some t2) by (rewrite Heq; exact Hne).
      destruct (IH s1 s' g t2 Hrun Hne1 Hend) as (b & c & Hseg).
      exists (e :: b), c. now rewrite Hseg.
    + destruct (Nat.eq_dec t t2) as [->|Htt].
      * exists [], seg. now rewrite He.
      * assert (Hne1 : s1 g <> Some t2) by (rewrite Hs1; intros Hc; inversion Hc; contradiction).
        destruct (IH s1 s' g t2 Hrun Hne1 Hend) as (b & c & Hseg).
        exists (e :: b), c. now rewrite Hseg.
    + assert (Hne1 : s1 g <> Some t2) by (rewrite Hs1; discriminate).
      destruct (IH s1 s' g t2 Hrun Hne1 Hend) as (b & c & Hseg).
      exists (e :: b), c. now rewrite Hseg.
Qed.

(* the classic lockset step: between a state where t1 owns g and a later one where a
   different thread t2 owns g, t1 released g and, after that, t2 acquired it *)
Lemma handoff : forall seg s s' g t1 t2,
  run seg s = Some s' -> s g = Some t1 -> s' g = Some t2 -> t1 <> t2 ->
  exists a b c, seg = a ++ Rel t1 g :: b ++ Acq t2 g :: c.
Proof.
  induction seg as [|e seg IH]; intros s s' g t1 t2 Hrun H1 H2 Hne; cbn in Hrun.
  - inversion Hrun; subst. rewrite H1 in H2. inversion H2. contradiction.
  - destruct (step s e) as [s1|] eqn:Hst; [|discriminate].
    destruct (step_owner s e s1 g Hst) as [Heq|[(t & He & Hs & Hs1)|(t & He & Hs & Hs1)]].
    + rewrite H1 in Heq.
      destruct (IH s1 s' g t1 t2 Hrun Heq H2 Hne) as (a & b & c & Hseg).
      exists (e :: a), b, c. now rewrite Hseg.
    + rewrite H1 in Hs. discriminate.
    + rewrite H1 in Hs. inversion Hs; subst t.
      assert (Hn : s1 g <> Some t2) by (rewrite Hs1; discriminate).
      destruct (acquire_exists seg s1 s' g t2 Hrun Hn H2) as (b & c & Hseg).
      exists [], b, c. now rewrite He, Hseg.
Qed.

(* ---- happens-before helpers ----------------------------------------------------------- *)

Lemma hb_lt : forall tr i j, hb tr i j -> i < j.
Proof. induction 1; lia. Qed.

(* an access is not a lock operation *)
Lemma access_not_rel : forall e x t g, accesses e x -> e <> Rel t g.
Proof. intros e x t g H He. subst e. unfold accesses in H. cbn in H. discriminate. Qed.

Lemma access_not_fork : forall e x, accesses e x -> is_fork e = false.
Proof. intros e x H. destruct e; cbn in *; auto; unfold accesses in H; cbn in H; discriminate. Qed.

(* two critical sections of the same lock by different threads are ordered *)
Lemma critical_sections_ordered : forall tr i j e1 e2 x g,
  i < j -> nth_error tr i = Some e1 -> nth_error tr j = Some e2 ->
  accesses e1 x -> thr e1 <> thr e2 ->
  holds tr i (thr e1) g -> holds tr j (thr e2) g ->
  hb tr i j.
Proof.
  intros tr i j e1 e2 x g Hij Hi Hj Hacc Hthr (sA & HrA & HA) (sB & HrB & HB).
  destruct (split_two tr i j e1 e2 Hij Hi Hj) as (p & s & q & Htr & Hp & Hps).
  assert (Fi : firstn i tr = p).
  { rewrite Htr, <- Hp. apply firstn_of_split. }
  assert (Fj : firstn j tr = p ++ e1 :: s).
  { rewrite Htr, <- Hps.
    replace (p ++ e1 :: s ++ e2 :: q) with ((p ++ e1 :: s) ++ e2 :: q) by (now rewrite <- app_assoc).
    apply firstn_of_split. }
  rewrite Fi in HrA. rewrite Fj, run_app, HrA in HrB.
  destruct (handoff (e1 :: s) sA sB g (thr e1) (thr e2) HrB HA HB Hthr) as (a & b & c & Hseg).
  (* a is not empty: e1 is an access, not a release *)
  destruct a as [|a0 a].
  { cbn in Hseg. exfalso. apply (access_not_rel e1 x (thr e1) g Hacc). congruence. }
  cbn in Hseg. inversion Hseg as [[Ha0 Hs]]. subst a0.
  set (k := length (p ++ e1 :: a)).
  set (m := length ((p ++ e1 :: a) ++ Rel (thr e1) g :: b)).
  assert (Htr2 : tr = (p ++ e1 :: a) ++ Rel (thr e1) g :: (b ++ Acq (thr e2) g :: c ++ e2 :: q)).
  { rewrite Htr, Hs. repeat (rewrite <- app_assoc; cbn). reflexivity. }
  assert (Htr3 : tr = ((p ++ e1 :: a) ++ Rel (thr e1) g :: b) ++ Acq (thr e2) g :: (c ++ e2 :: q)).
  { rewrite Htr2. repeat (rewrite <- app_assoc; cbn). reflexivity. }
  assert (Hk : nth_error tr k = Some (Rel (thr e1) g)).
  { rewrite Htr2 at 1. apply nth_error_mid. }
  assert (Hm : nth_error tr m = Some (Acq (thr e2) g)).
  { rewrite Htr3 at 1. apply nth_error_mid. }
  assert (Hik : i < k).
  { unfold k. rewrite app_length. cbn. lia. }
  assert (Hkm : k < m).
  { unfold k, m. rewrite (app_length (p ++ e1 :: a)). cbn. lia. }
  assert (Hmj : m < j).
  { rewrite <- Hps. unfold m. rewrite Hs. repeat (rewrite app_length; cbn). lia. }
  apply hb_trans with k.
  - eapply hb_po; eauto.
  - apply hb_trans with m.
    + eapply hb_sync; eauto.
    + eapply hb_po; eauto.
Qed.

(* before the first Fork only the main thread runs *)
Lemma init_is_main : forall tr i e,
  wf_threads tr -> init_at tr i -> nth_error tr i = Some e -> thr e = main_thread.
Proof.
  intros tr i e Hwf Hinit Hi.
  destruct (Nat.eq_dec (thr e) main_thread) as [|Hne]; auto.
  destruct (Hwf i e Hi Hne) as (k & t0 & Hk & Hf).
  assert (Hc : is_fork (Fork t0 (thr e)) = false) by (apply (Hinit k); [lia|exact Hf]).
  cbn in Hc. discriminate.
Qed.

(* an event of the initialisation phase happens before every later event *)
Lemma init_before_all : forall tr i e1,
  wf_threads tr -> init_at tr i -> nth_error tr i = Some e1 -> is_fork e1 = false ->
  forall j e2, i < j -> nth_error tr j = Some e2 -> hb tr i j.
Proof.
  intros tr i e1 Hwf Hinit Hi Hnf j.
  induction j as [j IH] using lt_wf_ind. intros e2 Hij Hj.
  destruct (Nat.eq_dec (thr e2) main_thread) as [Hm|Hne].
  - eapply hb_po; eauto. rewrite Hm. eapply init_is_main; eauto.
  - destruct (Hwf j e2 Hj Hne) as (k & t0 & Hkj & Hf).
    assert (Hik : i < k).
    { destruct (le_lt_dec k i) as [Hle|]; auto.
      assert (Hc : is_fork (Fork t0 (thr e2)) = false) by (apply (Hinit k); auto).
      cbn in Hc. discriminate. }
    apply hb_trans with k.
    + eapply IH; eauto.
    + eapply hb_fork; eauto.
Qed.

Lemma init_at_mono : forall tr i j, i <= j -> init_at tr j -> init_at tr i.
Proof. intros tr i j Hij H k e Hk. apply H. lia. Qed.

(* ---- the lockset theorem -------------------------------------------------------------- *)

Theorem lockset_drf : forall tr,
  wf_locks tr -> wf_threads tr ->
  forall x, disciplined tr x -> race_free_on tr x.
Proof.
  intros tr _ Hwt x Hd i j e1 e2 Hij Hi Hj (Ha1 & Ha2 & Hthr & Hw & Hat).
  (* an access of the initialisation phase at i, or at j, settles the matter *)
  assert (Hinit_i : init_at tr i -> hb tr i j).
  { intros Hin. apply (init_before_all tr i e1 Hwt Hin Hi (access_not_fork e1 x Ha1) j e2 Hij Hj). }
  assert (Hinit_j : init_at tr j -> hb tr i j).
  { intros Hin. exfalso. apply Hthr.
    rewrite (init_is_main tr j e2 Hwt Hin Hj).
    apply (init_is_main tr i e1 Hwt); auto. eapply init_at_mono; [|exact Hin]. lia. }
  destruct Hd as [HA|[(g & HB)|HC]].
  - destruct (HA i e1 Hi Ha1) as [|At1]; auto.
    destruct (HA j e2 Hj Ha2) as [|At2]; auto.
    destruct Hat as [F|F]; congruence.
  - destruct (HB i e1 Hi Ha1) as [|H1]; auto.
    destruct (HB j e2 Hj Ha2) as [|H2]; auto.
    eapply critical_sections_ordered; eauto.
  - destruct (HC i e1 Hi Ha1) as [|R1]; auto.
    destruct (HC j e2 Hj Ha2) as [|R2]; auto.
    exfalso. destruct e1; destruct e2; cbn in *; destruct Hw; discriminate.
Qed.

(* ---- the static table ----------------------------------------------------------------- *)

Lemma mem_str_In : forall g l, mem_str g l = true <-> In g l.
Proof.
  intros g l. unfold mem_str. rewrite existsb_exists. split.
  - intros (y & Hy & He). apply String.eqb_eq in He. now subst.
  - intros H. exists g. split; auto. apply String.eqb_refl.
Qed.

Lemma nodup_str_In : forall l a, In a (nodup_str l) <-> In a l.
Proof.
  induction l as [|b l IH]; intros a; cbn; [tauto|].
  destruct (mem_str b l) eqn:Hb.
  - rewrite IH. split; auto. intros [->|]; auto. now apply mem_str_In.
  - cbn. rewrite IH. tauto.
Qed.

Lemma live_rows_In : forall f tbl r,
  In r (live_rows f tbl) <-> In r tbl /\ field r = f /\ kind_is_init (kind r) = false.
Proof.
  intros f tbl r. unfold live_rows. rewrite filter_In, andb_true_iff, negb_true_iff, String.eqb_eq. tauto.
Qed.

Lemma common_locks_held : forall rows g r,
  In g (common_locks rows) -> In r rows -> In g (held r).
Proof.
  intros rows g r Hg Hr. destruct rows as [|r0 rs]; [contradiction|].
  cbn in Hg. apply filter_In in Hg. destruct Hg as [Hg0 Hall].
  destruct Hr as [<-|Hr]; auto.
  rewrite forallb_forall in Hall. apply mem_str_In. now apply Hall.
Qed.

Section Soundness.
  Variable field_of : loc -> string.
  Variable inst : loc -> string -> lock.

  (* discipline_ok on the table gives the dynamic discipline for every location of every
     trace that respects the table *)
  Theorem discipline_sound : forall tbl,
    discipline_ok tbl = true ->
    forall tr, respects field_of inst tbl tr -> forall x, disciplined tr x.
  Proof.
    intros tbl Hok tr Hres x.
    (* is x accessed at all?  we only need the row given by `respects` at each access *)
    destruct (in_dec string_dec (field_of x) (fields_of tbl)) as [Hin|Hnin].
    - unfold discipline_ok in Hok. rewrite forallb_forall in Hok.
      specialize (Hok _ Hin). unfold field_ok in Hok.
      apply orb_true_iff in Hok. destruct Hok as [Hok|Hlk].
      + apply orb_true_iff in Hok. destruct Hok as [Hat|Hrd].
        * left. intros i e Hi Ha.
          destruct (Hres i e x Hi Ha) as (r & Hr & Hf & Hk & _).
          destruct (kind_is_init (kind r)) eqn:Hki.
          { left. destruct (kind r); try discriminate. exact Hk. }
          right. rewrite forallb_forall in Hat.
          assert (Hl : In r (live_rows (field_of x) tbl)) by (apply live_rows_In; auto).
          specialize (Hat r Hl). destruct (kind r); try discriminate. exact Hk.
        * right; right. intros i e Hi Ha.
          destruct (Hres i e x Hi Ha) as (r & Hr & Hf & Hk & _).
          destruct (kind_is_init (kind r)) eqn:Hki.
          { left. destruct (kind r); try discriminate. exact Hk. }
          right. rewrite forallb_forall in Hrd.
          assert (Hl : In r (live_rows (field_of x) tbl)) by (apply live_rows_In; auto).
          specialize (Hrd r Hl). destruct (kind r); try discriminate. exact Hk.
      + right; left.
        destruct (common_locks (live_rows (field_of x) tbl)) as [|g0 gs] eqn:Hc; [discriminate|].
        exists (inst x g0). intros i e Hi Ha.
        destruct (Hres i e x Hi Ha) as (r & Hr & Hf & Hk & Hh).
        destruct (kind_is_init (kind r)) eqn:Hki.
        { left. destruct (kind r); try discriminate. exact Hk. }
        right. apply Hh.
        apply common_locks_held with (rows := live_rows (field_of x) tbl).
        * rewrite Hc. now left.
        * apply live_rows_In; auto.
    - (* no row for this field: a trace that respects the table never touches x *)
      left. intros i e Hi Ha. exfalso.
      destruct (Hres i e x Hi Ha) as (r & Hr & Hf & _).
      apply Hnin. unfold fields_of. apply nodup_str_In. rewrite <- Hf. now apply in_map.
  Qed.

  (* the two together: what a passing table means *)
  Corollary table_gives_race_freedom : forall tbl,
    discipline_ok tbl = true ->
    forall tr, wf_locks tr -> wf_threads tr -> respects field_of inst tbl tr ->
    forall x, race_free_on tr x.
  Proof.
    intros tbl Hok tr Hwl Hwt Hres x.
    apply lockset_drf; auto. eapply discipline_sound; eauto.
  Qed.
End Soundness.

(* failing_fields is empty exactly when the table passes *)
Lemma failing_fields_nil : forall tbl, failing_fields tbl = [] <-> discipline_ok tbl = true.
Proof.
  intros tbl. unfold failing_fields, discipline_ok. generalize (fields_of tbl) as fs.
  induction fs as [|f fs IH]; cbn; [tauto|].
  destruct (field_ok f tbl); cbn.
  - exact IH.
  - split; discriminate.
Qed.
