(* EncapServerProofs.v — the chunk stream of a server carrier starts right after the 16-byte preamble. *)
From Coq Require Import List NArith Bool Arith Lia.
From Snow Require Import Lib.Wire Model.Encap Model.EncapServer Proofs.EncapProofs.
Import ListNotations.
Open Scope N_scope.

Lemma firstn_exact_app {A} (a b : list A) n : length a = n -> firstn n (a ++ b) = a.
Proof.
  intros <-. rewrite firstn_app, Nat.sub_diag, firstn_all. cbn [firstn]. apply app_nil_r.
Qed.
Lemma skipn_exact_app {A} (a b : list A) n : length a = n -> skipn n (a ++ b) = b.
Proof.
  intros <-. rewrite skipn_app, Nat.sub_diag, skipn_all. reflexivity.
Qed.

(* io.ReadFull of exactly the first n bytes, under any script, leaves exactly the suffix to the next reader *)
Lemma read_full_exact sc n pre rest : length pre = n ->
  exists sc', read_full sc n [] (pre ++ rest) = ROk pre rest sc'.
Proof.
  intros Hn.
  destruct (read_full_spec sc n [] (pre ++ rest)) as [sc' H]; [rewrite app_length; lia|].
  exists sc'. rewrite H. cbn [app]. rewrite (firstn_exact_app pre rest n Hn), (skipn_exact_app pre rest n Hn). reflexivity.
Qed.

Theorem stream_after_preamble tok cid s sc :
  length tok = TOKEN_LEN -> length cid = CLIENTID_LEN ->
  server_read (tok ++ cid ++ s) sc = SOk tok cid (fst (decode_stream s)) (snd (decode_stream s)).
Proof.
  intros Ht Hc. unfold server_read.
  destruct (read_full_exact sc TOKEN_LEN tok (cid ++ s) Ht) as [sc1 H1]. rewrite H1.
  destruct (read_full_exact sc1 CLIENTID_LEN cid s Hc) as [sc2 H2]. rewrite H2.
  rewrite read_all_independent by lia. fold (decode_stream s).
  destruct (decode_stream s) as [ps e]. reflexivity.
Qed.

Theorem server_roundtrip tok cid items s sc :
  length tok = TOKEN_LEN -> length cid = CLIENTID_LEN ->
  items_ok items -> encode_items items = Some s ->
  server_read (tok ++ cid ++ s) sc = SOk tok cid (datas items) EOF.
Proof.
  intros Ht Hc Hok He. rewrite stream_after_preamble by assumption.
  rewrite <- (read_stream_independent s []). rewrite (roundtrip_any_reader items s [] Hok He). reflexivity.
Qed.

(* a carrier that ends inside the preamble delivers no packet *)
Theorem server_short_preamble s sc : (length s < TOKEN_LEN + CLIENTID_LEN)%nat ->
  exists e, server_read s sc = SShort e.
Proof.
  intros Hs. unfold server_read.
  destruct (Nat.ltb_spec (length s) TOKEN_LEN) as [Hlt|Hge].
  - rewrite read_full_short by exact Hlt. eexists. reflexivity.
  - destruct (read_full_spec sc TOKEN_LEN [] s Hge) as [sc1 H1]. rewrite H1.
    rewrite read_full_short; [eexists; reflexivity|]. rewrite skipn_length. lia.
Qed.
