(* RedialProofs.v — properties of the RedialPacketConn machine (Model/Redial.v). *)
From Coq Require Import List Arith Bool Lia.
From Snow Require Import Model.Redial.
Import ListNotations.

Definition reachable (ecap qcap : nat) (s : rstate) : Prop :=
  exists tr, run_trace ecap qcap tr rs_init = Some s.
Definition user_label (l : label) : bool :=
  match l with LUWrite | LURead | LUClose => true | _ => false end.

(* ------------------------------------------------------------------ reachability *)

Lemma run_trace_app : forall ecap qcap tr1 tr2 s,
  run_trace ecap qcap (tr1 ++ tr2) s =
  match run_trace ecap qcap tr1 s with
  | Some s' => run_trace ecap qcap tr2 s'
  | None => None
  end.
Proof.
  intros ecap qcap tr1; induction tr1; simpl; intros; auto.
  destruct (step ecap qcap s a); auto.
Qed.

Lemma reachable_init : forall ecap qcap, reachable ecap qcap rs_init.
Proof. intros; exists []; reflexivity. Qed.

Lemma reachable_step : forall ecap qcap s l s',
  reachable ecap qcap s -> step ecap qcap s l = Some s' -> reachable ecap qcap s'.
Proof.
  intros ecap qcap s l s' [tr H] Hs. exists (tr ++ [l]).
  rewrite run_trace_app, H. simpl. rewrite Hs. reflexivity.
Qed.

Lemma reachable_induction : forall ecap qcap (P : rstate -> Prop),
  P rs_init ->
  (forall s l s', reachable ecap qcap s -> P s -> step ecap qcap s l = Some s' -> P s') ->
  forall s, reachable ecap qcap s -> P s.
Proof.
  intros ecap qcap P H0 HS s [tr Htr]. revert s Htr.
  induction tr using rev_ind; intros s Htr.
  - simpl in Htr. injection Htr as <-. exact H0.
  - rewrite run_trace_app in Htr.
    destruct (run_trace ecap qcap tr rs_init) as [s0|] eqn:E; try discriminate.
    simpl in Htr. destruct (step ecap qcap s0 x) as [s1|] eqn:E2; try discriminate.
    inversion Htr; subst. apply (HS s0 x s); auto. exists tr; auto.
Qed.

(* ------------------------------------------------------------------ list helpers *)

Lemma nth_error_upd : forall A (l : list A) k x k',
  nth_error (upd l k x) k' =
  if k' =? k then (match nth_error l k with Some _ => Some x | None => None end)
  else nth_error l k'.
Proof.
  induction l as [|h t IH]; intros k x k'.
  - simpl. destruct k'; destruct k; simpl; auto. destruct (k' =? k); auto.
  - destruct k; destruct k'; simpl; auto.
Qed.

Lemma upd_length : forall A (l : list A) k x, length (upd l k x) = length l.
Proof. induction l; destruct k; simpl; auto. Qed.

Lemma nth_error_snoc : forall A (l : list A) x k c,
  nth_error (l ++ [x]) k = Some c ->
  (k < length l /\ nth_error l k = Some c) \/ (k = length l /\ c = x).
Proof.
  intros A l x k c H. destruct (lt_dec k (length l)) as [Hlt|Hge].
  - rewrite nth_error_app1 in H by auto. left; auto.
  - rewrite nth_error_app2 in H by lia. right.
    destruct (k - length l) as [|n] eqn:E; simpl in H.
    + inversion H; subst; split; auto; lia.
    + destruct n; discriminate.
Qed.

Lemma nth_error_lt : forall A (l : list A) k c, nth_error l k = Some c -> k < length l.
Proof. intros. apply nth_error_Some. congruence. Qed.

Lemma is_rpc_eq : forall a b, is_rpc a b = true -> a = b.
Proof. destruct a, b; simpl; congruence. Qed.
Lemma is_wpc_eq : forall a b, is_wpc a b = true -> a = b.
Proof. destruct a, b; simpl; congruence. Qed.
Lemma is_rpc_iff : forall a b, is_rpc a b = true <-> a = b.
Proof. destruct a, b; simpl; split; congruence. Qed.
Lemma is_wpc_iff : forall a b, is_wpc a b = true <-> a = b.
Proof. destruct a, b; simpl; split; congruence. Qed.

Lemma c_closed_true : forall c, c_closed c = true <-> c_nclose c <> 0.
Proof.
  intros c; unfold c_closed. rewrite negb_true_iff, Nat.eqb_neq. tauto.
Qed.
Lemma c_closed_false : forall c, c_closed c = false <-> c_nclose c = 0.
Proof.
  intros c; unfold c_closed. rewrite negb_false_iff, Nat.eqb_eq. tauto.
Qed.

(* ------------------------------------------------------------------ the invariant *)

Definition cinv (ecap : nat) (d : dpc) (k : nat) (c : carrier) : Prop :=
  ch_closed (c_rerr c) = is_rpc (c_r c) RDone /\
  ch_closed (c_werr c) = is_wpc (c_w c) WDone /\
  ch_buf (c_rerr c) <= ecap /\ (0 < ch_buf (c_rerr c) -> c_r c = RDone) /\
  ch_buf (c_werr c) <= ecap /\ (0 < ch_buf (c_werr c) -> c_w c = WDone) /\
  (c_nclose c = 0 -> d = DExch k \/ d = DClose k) /\
  (d = DClose k \/ c_nclose c <> 0 -> c_r c = RDone \/ c_w c = WDone) /\
  c_nclose c <= 1 /\
  (d = DExch k \/ d = DClose k -> c_nclose c = 0).

Record inv (ecap : nat) (s : rstate) : Prop := mkinv {
  inv_len : forall k, r_d s = DExch k \/ r_d s = DClose k -> k < length (r_cs s);
  inv_err : r_closed s = true <-> r_err s <> ENone;
  inv_ghost : r_closed s = true -> g_close_called s = true \/ g_dial_failed s = true;
  inv_car : forall k c, nth_error (r_cs s) k = Some c -> cinv ecap (r_d s) k c
}.

Ltac boolnorm :=
  repeat match goal with
  | H : _ && _ = true |- _ => apply andb_prop in H; destruct H
  | H : negb _ = true |- _ => apply negb_true_iff in H
  | H : negb _ = false |- _ => apply negb_false_iff in H
  | H : _ || _ = true |- _ => apply orb_prop in H
  | H : _ || _ = false |- _ => apply orb_false_iff in H; destruct H
  | H : (_ =? _) = true |- _ => apply Nat.eqb_eq in H
  | H : (_ =? _) = false |- _ => apply Nat.eqb_neq in H
  | H : (_ <? _) = true |- _ => apply Nat.ltb_lt in H
  | H : (_ <? _) = false |- _ => apply Nat.ltb_ge in H
  | H : is_rpc _ _ = true |- _ => apply is_rpc_eq in H
  | H : is_wpc _ _ = true |- _ => apply is_wpc_eq in H
  end.

(* case analysis of  H : step ecap qcap s l = Some s'  (s a record of variables, l a constructor) *)
Ltac step_cases H :=
  unfold step, on_car, at_exch in H; simpl in H;
  repeat match type of H with
  | context [match ?x with _ => _ end] => destruct x eqn:?; try discriminate
  end;
  inversion H; subst; clear H.

Ltac destruct_carriers :=
  repeat match goal with c : carrier |- _ => destruct c as [? ? [? ?] [? ?] ?] end.

Lemma inv_init : forall ecap, inv ecap rs_init.
Proof.
  intros ecap; constructor; simpl.
  - intros k [H|H]; discriminate.
  - split; intros; congruence.
  - discriminate.
  - intros k c H. destruct k; discriminate.
Qed.

Ltac car_goal Hcar :=
  let k' := fresh "k'" in let c' := fresh "c'" in let Hn := fresh "Hn" in
  intros k' c' Hn;
  match type of Hn with
  | nth_error (upd ?l ?k ?x) _ = Some _ =>
      rewrite nth_error_upd in Hn;
      destruct (Nat.eqb_spec k' k) as [?|?];
      [ subst k';
        match goal with Hk : nth_error l k = Some _ |- _ =>
          rewrite Hk in Hn; inversion Hn; subst c'; clear Hn;
          pose proof (Hcar _ _ Hk); pose proof (nth_error_lt _ _ _ _ Hk) end
      | pose proof (Hcar _ _ Hn); pose proof (nth_error_lt _ _ _ _ Hn) ]
  | nth_error (?l ++ [?x]) _ = Some _ =>
      apply nth_error_snoc in Hn; destruct Hn as [[? Hn]|[? ?]];
      [ pose proof (Hcar _ _ Hn) | subst k' c' ]
  | _ => pose proof (Hcar _ _ Hn); pose proof (nth_error_lt _ _ _ _ Hn)
  end.

Ltac inj_d :=
  repeat match goal with
  | H : DExch _ = DExch _ |- _ => injection H as H; try subst
  | H : DClose _ = DClose _ |- _ => injection H as H; try subst
  end.

Ltac buf_cases :=
  repeat match goal with
  | H : 0 < ?b -> _ |- context [?b - 1] =>
      let E := fresh "E" in
      destruct (Nat.eq_dec b 0) as [E|E];
      [ subst b; simpl in * | specialize (H ltac:(lia)) ]
  end.

Ltac boolnorm2 :=
  repeat match goal with
  | H : match ?d with DTop => false | _ => _ end = true |- _ => destruct d; try discriminate
  end.

Ltac fin :=
  unfold cinv in *; destruct_carriers; unfold ch_ready in *; simpl in *;
  boolnorm; boolnorm2; boolnorm; subst;
  repeat match goal with H : _ /\ _ |- _ => destruct H end;
  rewrite ?upd_length, ?app_length in *; simpl in *; buf_cases;
  intuition (subst; simpl in *; try congruence; try lia; boolnorm; inj_d; subst;
             try congruence; try lia; auto).

Lemma inv_step : forall ecap qcap s l s',
  inv ecap s -> step ecap qcap s l = Some s' -> inv ecap s'.
Proof.
  intros ecap qcap s l s' Hinv H.
  destruct s as [cl er d cs sq rq gc gd].
  destruct Hinv as [Hlen Herr Hgh Hcar]. simpl in *.
  destruct l; step_cases H.
  all: try match goal with Hk : nth_error _ _ = Some _ |- _ =>
         pose proof (nth_error_lt _ _ _ _ Hk) end.
  all: constructor; simpl; [ | | | car_goal Hcar ].
  all: solve [fin].
Qed.


Lemma reachable_inv : forall ecap qcap s, reachable ecap qcap s -> inv ecap s.
Proof.
  intros ecap qcap. apply (reachable_induction ecap qcap (inv ecap)).
  - apply inv_init.
  - intros s l s' _ Hi Hs. eapply inv_step; eauto.
Qed.

(* ================================================================== A: both code versions *)

Theorem redial_errors_only_after_close_or_dial_failure :
  forall ecap qcap s l e, reachable ecap qcap s -> user_result s l = UErr e ->
    (g_close_called s = true \/ g_dial_failed s = true) /\ e = r_err s /\ e <> ENone /\ r_closed s = true.
Proof.
  intros ecap qcap s l e Hr Hu.
  destruct (reachable_inv _ _ _ Hr) as [_ Herr Hgh _].
  assert (Hc : r_closed s = true /\ e = r_err s).
  { unfold user_result in Hu.
    destruct l; try discriminate; destruct (r_closed s); try discriminate;
      try (destruct (r_recvq s =? 0); discriminate);
      inversion Hu; auto. }
  destruct Hc as [Hc ->]. repeat split; auto. apply Herr; auto.
Qed.

Theorem redial_closed_only_by_close_or_dial_failure :
  forall ecap qcap s, reachable ecap qcap s -> r_closed s = true ->
    g_close_called s = true \/ g_dial_failed s = true.
Proof.
  intros ecap qcap s Hr Hc. destruct (reachable_inv _ _ _ Hr) as [_ _ Hgh _]. auto.
Qed.

Theorem redial_one_active_carrier :
  forall ecap qcap s k c, reachable ecap qcap s -> nth_error (r_cs s) k = Some c -> c_closed c = false ->
    r_d s = DExch k \/ r_d s = DClose k.
Proof.
  intros ecap qcap s k c Hr Hn Hc.
  pose proof (inv_car _ _ (reachable_inv _ _ _ Hr) _ _ Hn) as Hci.
  apply c_closed_false in Hc. unfold cinv in Hci. tauto.
Qed.

Corollary redial_at_most_one_open :
  forall ecap qcap s k1 k2 c1 c2, reachable ecap qcap s ->
    nth_error (r_cs s) k1 = Some c1 -> nth_error (r_cs s) k2 = Some c2 ->
    c_closed c1 = false -> c_closed c2 = false -> k1 = k2.
Proof.
  intros ecap qcap s k1 k2 c1 c2 Hr H1 H2 Hc1 Hc2.
  pose proof (redial_one_active_carrier _ _ _ _ _ Hr H1 Hc1) as A.
  pose proof (redial_one_active_carrier _ _ _ _ _ Hr H2 Hc2) as B.
  destruct A as [A|A], B as [B|B]; congruence.
Qed.

Theorem redial_closed_once :
  forall ecap qcap s k c, reachable ecap qcap s -> nth_error (r_cs s) k = Some c -> c_nclose c <= 1.
Proof.
  intros ecap qcap s k c Hr Hn.
  pose proof (inv_car _ _ (reachable_inv _ _ _ Hr) _ _ Hn) as Hci.
  unfold cinv in Hci. tauto.
Qed.

(* when the dial loop is not serving a carrier, every carrier it obtained is closed *)
Theorem redial_done_all_closed :
  forall ecap qcap s, reachable ecap qcap s -> (r_d s = DDone \/ r_d s = DTop \/ r_d s = DDial) ->
    forall k c, nth_error (r_cs s) k = Some c -> c_closed c = true.
Proof.
  intros ecap qcap s Hr Hd k c Hn.
  destruct (c_closed c) eqn:Hc; auto. exfalso.
  pose proof (redial_one_active_carrier _ _ _ _ _ Hr Hn Hc) as A.
  destruct A as [A|A]; destruct Hd as [Hd|[Hd|Hd]]; congruence.
Qed.

(* ================================================================== C: the pinned code leaks *)

Theorem redial_v0_refuted_leak :
  forall qcap, 0 < qcap -> exists tr s c,
    run_trace 0 qcap tr rs_init = Some s /\ r_closed s = true /\ r_d s = DDone /\
    nth_error (r_cs s) 0 = Some c /\ c_closed c = true /\ c_r c = RSend /\ c_w c = WDone /\
    (forall l s', step 0 qcap s l = Some s' -> s' = s).
Proof.
  intros qcap Hq. destruct qcap as [|q]; [lia|]. clear Hq.
  exists [LDTop; LDialOk; LRTopDefault 0; LUWrite; LWSelPkt 0; LWriteFail 0; LWSendToD 0;
          LDCloseCarrier; LReadFail 0; LUClose; LDTop].
  exists (mkrs true EClosedConn DDone [mkcar RSend WDone (mkch 0 false) (mkch 0 true) 1] 0 0 true false).
  exists (mkcar RSend WDone (mkch 0 false) (mkch 0 true) 1).
  split; [reflexivity|].
  repeat (split; [reflexivity|]).
  intros l s' H.
  destruct l as [ | | | | | |k|k|k|k|k|k|k|k|k|k|k|k|k|k|k|k| | | ];
    try (destruct k as [|[|k]]); cbn in H; try discriminate; inversion H; reflexivity.
Qed.

(* ================================================================== B: the repaired code *)

Ltac en Hn l :=
  right; exists l; split;
  [ simpl; tauto
  | unfold enabled, step, on_car; simpl; rewrite Hn; simpl; try reflexivity ].

(* a thread of a carrier the adapter has closed is never blocked: it is done or one of its own
   steps (or the forced failure of its pending carrier call) is enabled *)
Theorem redial_v1_closed_carrier_threads_enabled :
  forall qcap s k c, reachable 1 qcap s -> nth_error (r_cs s) k = Some c -> c_closed c = true ->
    (c_r c = RDone \/ exists l, In l (r_labels k ++ [LReadFail k]) /\ enabled 1 qcap s l = true) /\
    (c_w c = WDone \/ exists l, In l (w_labels k ++ [LWriteFail k]) /\ enabled 1 qcap s l = true).
Proof.
  intros qcap s k c Hr Hn Hc.
  pose proof (inv_car _ _ (reachable_inv _ _ _ Hr) _ _ Hn) as Hci.
  apply c_closed_true in Hc. clear Hr.
  destruct s as [cl er d cs sq rq gc gd]. destruct c as [cr cw [rb rc] [wb wc] n].
  unfold cinv in Hci. simpl in *.
  destruct Hci as (I1r & I1w & I2r & I2r' & I2w & I2w' & I3 & I4 & I5 & I6).
  split.
  - destruct cr.
    + destruct cl.
      * en Hn (LRTopClosed k).
      * destruct (ch_ready (mkch wb wc)) eqn:Ew.
        -- en Hn (LRTopWerr k). rewrite Ew. reflexivity.
        -- en Hn (LRTopDefault k). rewrite Ew. reflexivity.
    + en Hn (LReadFail k).
    + destruct rb as [|rb]; [|exfalso; assert (RSend = RDone) by (apply I2r'; lia); discriminate].
      en Hn (LRSendBuf k).
    + left; reflexivity.
  - destruct cw.
    + destruct cl.
      * en Hn (LWSelClosed k).
      * assert (cr = RDone) by (destruct I4 as [|]; auto; discriminate). subst cr.
        simpl in I1r. subst rc.
        en Hn (LWSelRerr k). unfold ch_ready; simpl. rewrite orb_true_r. reflexivity.
    + en Hn (LWriteFail k).
    + destruct wb as [|wb]; [|exfalso; assert (WSend = WDone) by (apply I2w'; lia); discriminate].
      en Hn (LWSendBuf k).
    + left; reflexivity.
Qed.

Lemma all_done_fold : forall cs,
  (forall k c, nth_error cs k = Some c -> c_r c = RDone /\ c_w c = WDone) ->
  fold_right (fun c n => (if is_rpc (c_r c) RDone then 0 else 1) + (if is_wpc (c_w c) WDone then 0 else 1) + n) 0 cs = 0.
Proof.
  induction cs as [|h t IH]; intros H; simpl; auto.
  destruct (H 0 h eq_refl) as [-> ->]. simpl.
  apply IH. intros k c Hk. apply (H (S k) c Hk).
Qed.

Ltac stuck Hstuck Hn l :=
  let X := fresh "X" in
  pose proof (Hstuck l eq_refl) as X; unfold step, on_car in X; simpl in X;
  try rewrite Hn in X; simpl in X; try discriminate X.

(* after Close (or a dial failure): if nothing but user calls can happen any more, nothing is left *)
Theorem redial_v1_no_thread_left :
  forall qcap s, reachable 1 qcap s -> r_closed s = true ->
    (forall l, user_label l = false -> step 1 qcap s l = None) ->
    threads_left s = 0 /\ r_d s = DDone /\
    (forall k c, nth_error (r_cs s) k = Some c -> c_closed c = true /\ c_r c = RDone /\ c_w c = WDone).
Proof.
  intros qcap s Hr Hcl Hstuck.
  destruct (reachable_inv _ _ _ Hr) as [Hlen _ _ Hcar]. clear Hr.
  destruct s as [cl er d cs sq rq gc gd]. simpl in *. subst cl.
  assert (Hd : d = DDone).
  { destruct d as [| |k|k|]; auto; exfalso.
    - stuck Hstuck Hlen LDTop.
    - stuck Hstuck Hlen LDialOk.
    - assert (Hk : k < length cs) by (apply Hlen; auto).
      destruct (nth_error cs k) as [c|] eqn:Hn; [|apply nth_error_None in Hn; lia].
      pose proof (Hcar _ _ Hn) as Hci. unfold cinv in Hci.
      destruct c as [cr cw [rb rc] [wb wc] n]. simpl in *.
      destruct Hci as (I1r & I1w & I2r & I2r' & I2w & I2w' & I3 & I4 & I5 & I6).
      destruct cr.
      + stuck Hstuck Hn (LRTopClosed k).
      + stuck Hstuck Hn (LReadFail k).
      + destruct rb as [|rb]; [|assert (RSend = RDone) by (apply I2r'; lia); discriminate].
        stuck Hstuck Hn (LRSendBuf k).
      + simpl in I1r. subst rc. stuck Hstuck Hn LDRecvR.
        unfold ch_ready in X; simpl in X. rewrite orb_true_r in X. discriminate.
    - assert (Hk : k < length cs) by (apply Hlen; auto).
      destruct (nth_error cs k) as [c|] eqn:Hn; [|apply nth_error_None in Hn; lia].
      stuck Hstuck Hn LDCloseCarrier. }
  subst d.
  assert (Hall : forall k c, nth_error cs k = Some c -> c_closed c = true /\ c_r c = RDone /\ c_w c = WDone).
  { intros k c Hn. pose proof (Hcar _ _ Hn) as Hci. unfold cinv in Hci.
    rewrite c_closed_true.
    destruct c as [cr cw [rb rc] [wb wc] n]. simpl in *.
    destruct Hci as (I1r & I1w & I2r & I2r' & I2w & I2w' & I3 & I4 & I5 & I6).
    split; [intro; subst n; destruct I3 as [|]; auto; discriminate|].
    split.
    - destruct cr; auto; exfalso.
      + stuck Hstuck Hn (LRTopClosed k).
      + stuck Hstuck Hn (LReadFail k).
      + destruct rb as [|rb]; [|assert (RSend = RDone) by (apply I2r'; lia); discriminate].
        stuck Hstuck Hn (LRSendBuf k).
    - destruct cw; auto; exfalso.
      + stuck Hstuck Hn (LWSelClosed k).
      + stuck Hstuck Hn (LWriteFail k).
      + destruct wb as [|wb]; [|assert (WSend = WDone) by (apply I2w'; lia); discriminate].
        stuck Hstuck Hn (LWSendBuf k). }
  split; [|split; auto].
  unfold threads_left. simpl. apply all_done_fold.
  intros k c Hn. destruct (Hall k c Hn) as (_ & A & B). auto.
Qed.

(* ... and each own step of such a thread strictly lowers its rank *)
Definition rrank (p : rpc) : nat := match p with RTop => 3 | RRead => 2 | RSend => 1 | RDone => 0 end.
Definition wrank (p : wpc) : nat := match p with WSel => 3 | WWrite => 2 | WSend => 1 | WDone => 0 end.

(* ... a measure that strictly decreases with every non-user step once closed *)
Definition dweight (d : dpc) : nat :=
  match d with DDial => 6 | DExch _ => 3 | DClose _ => 2 | DTop => 1 | DDone => 0 end.
Definition rw (p : rpc) : nat := match p with RTop => 1 | RRead => 2 | RSend => 1 | RDone => 0 end.
Definition ww (p : wpc) : nat := match p with WSel => 1 | WWrite => 2 | WSend => 1 | WDone => 0 end.
Definition csum (cs : list carrier) : nat :=
  fold_right (fun c n => rw (c_r c) + ww (c_w c) + n) 0 cs.
Definition mu (s : rstate) : nat := dweight (r_d s) + 3 * r_sendq s + csum (r_cs s).

Lemma csum_upd : forall l k c c', nth_error l k = Some c ->
  csum (upd l k c') + (rw (c_r c) + ww (c_w c)) = csum l + (rw (c_r c') + ww (c_w c')).
Proof.
  induction l as [|h t IH]; intros k c c' H.
  - destruct k; discriminate.
  - destruct k; simpl in *.
    + inversion H; subst. unfold csum; simpl. lia.
    + specialize (IH _ _ c' H). unfold csum in *; simpl. lia.
Qed.

Lemma csum_app : forall l c, csum (l ++ [c]) = csum l + (rw (c_r c) + ww (c_w c)).
Proof.
  induction l as [|h t IH]; intros c; unfold csum in *; simpl.
  - lia.
  - rewrite IH. lia.
Qed.

Theorem redial_v1_closed_measure_decreases :
  forall qcap s l s', reachable 1 qcap s -> r_closed s = true -> user_label l = false ->
    step 1 qcap s l = Some s' -> mu s' < mu s.
Proof.
  intros qcap s l s' _ Hcl Hu H.
  destruct s as [cl er d cs sq rq gc gd]. simpl in *. subst cl.
  destruct l; try discriminate Hu; clear Hu; step_cases H; unfold mu; simpl;
    rewrite ?csum_app;
    try match goal with
    | Hk : nth_error ?l ?k = Some ?c |- context [csum (upd ?l ?k ?x)] =>
        pose proof (csum_upd l k c x Hk)
    end;
    destruct_carriers; unfold c_closed in *; simpl in *; boolnorm; subst; simpl in *;
    try discriminate; try lia.
Qed.

Theorem redial_v1_closed_carrier_rank_decreases :
  forall qcap s k c l s' c', reachable 1 qcap s -> nth_error (r_cs s) k = Some c -> c_closed c = true ->
    step 1 qcap s l = Some s' -> nth_error (r_cs s') k = Some c' ->
    rrank (c_r c') <= rrank (c_r c) /\ wrank (c_w c') <= wrank (c_w c) /\
    (In l (r_labels k ++ [LReadFail k; LReadOk k]) -> rrank (c_r c') < rrank (c_r c)) /\
    (In l (w_labels k ++ [LWriteFail k; LWriteOk k]) -> wrank (c_w c') < wrank (c_w c)).
Proof.
  intros qcap s k c l s' c' _ Hn Hc Hs Hn'.
  apply c_closed_true in Hc.
  destruct s as [cl er d cs sq rq gc gd]. simpl in *.
  destruct l; step_cases Hs; simpl in Hn';
  match type of Hn' with
  | nth_error (upd ?l ?j ?x) _ = Some _ =>
      rewrite nth_error_upd in Hn';
      destruct (Nat.eqb_spec k j) as [?|Hne];
      [ subst k;
        match goal with Hk : nth_error l j = Some _ |- _ =>
          rewrite Hn in Hk; inversion Hk; subst; clear Hk end;
        rewrite Hn in Hn'; inversion Hn'; subst c'; clear Hn'
      | rewrite Hn in Hn'; inversion Hn'; subst c'; clear Hn' ]
  | nth_error (?l ++ _) _ = Some _ =>
      rewrite nth_error_app1 in Hn' by (eapply nth_error_lt; eauto);
      rewrite Hn in Hn'; inversion Hn'; subst c'; clear Hn'
  | _ => rewrite Hn in Hn'; inversion Hn'; subst c'; clear Hn'
  end;
  destruct_carriers; unfold c_closed in *; simpl in *; boolnorm; subst; simpl in *;
  try discriminate; try lia;
  (split; [lia|]; split; [lia|]; split; intros HIn; simpl in HIn;
   intuition (try discriminate; try congruence; try lia)).
Qed.

(* sanity: the same schedule on the repaired code leaves no thread *)
Example redial_v1_same_trace_clean :
  forall qcap, 0 < qcap -> exists s,
    run_trace 1 qcap [LDTop; LDialOk; LRTopDefault 0; LUWrite; LWSelPkt 0; LWriteFail 0; LWSendBuf 0;
                      LDRecvW; LDCloseCarrier; LReadFail 0; LRSendBuf 0; LUClose; LDTop] rs_init = Some s /\
    r_closed s = true /\ r_d s = DDone /\ threads_left s = 0.
Proof.
  intros qcap Hq. destruct qcap as [|q]; [lia|]. clear Hq.
  exists (mkrs true EClosedConn DDone [mkcar RDone WDone (mkch 1 true) (mkch 0 true) 1] 0 0 true false).
  split; [vm_compute; reflexivity|]. split; [reflexivity|]. split; reflexivity.
Qed.
