(* EncapProofs.v — proofs about Model/Encap.v *)
From Coq Require Import List NArith Bool Arith Lia.
From Coq Require Import ZifyN ZifyNat ZifyBool.
From Snow Require Import Lib.Wire Model.Encap Proofs.EncapSweep.
Import ListNotations.
Open Scope N_scope.

(* ------------------------------------------------------------------ *)
(* io.ReadFull over any scripted reader                                *)

Lemma firstn_length_le {A} (n : nat) (l : list A) : (n <= length l)%nat -> length (firstn n l) = n.
Proof. intros H. rewrite firstn_length. lia. Qed.

Lemma firstn_skipn_app {A} (a b : nat) (l : list A) :
  firstn a l ++ firstn b (skipn a l) = firstn (a + b) l.
Proof.
  revert l; induction a as [|a IH]; intros l; cbn [firstn skipn plus app]; [reflexivity|].
  destruct l as [|x l]; cbn [firstn skipn app].
  - rewrite firstn_nil. reflexivity.
  - rewrite IH. reflexivity.
Qed.

Lemma skipn_skipn' {A} (a b : nat) (l : list A) : skipn b (skipn a l) = skipn (a + b) l.
Proof.
  revert l; induction a as [|a IH]; intros l; cbn [skipn plus]; [reflexivity|].
  destruct l as [|x l]; cbn [skipn]; [apply skipn_nil | apply IH].
Qed.

Definition full_err (acc rem : bytes) : rerr :=
  match acc ++ rem with [] => EOF | _ => UnexpectedEOF end.

Lemma read_full_spec : forall sc n acc rem,
  (n <= length rem)%nat ->
  exists sc', read_full sc n acc rem = ROk (acc ++ firstn n rem) (skipn n rem) sc'.
Proof.
  induction sc as [|[m fl] sc IH]; intros n acc rem Hn.
  - destruct n as [|n]; cbn [read_full].
    + exists []. cbn [firstn skipn]. rewrite app_nil_r. reflexivity.
    + destruct rem as [|b rem]; [cbn [length] in Hn; lia|].
      assert (L : length (firstn (S n) (b :: rem)) = S n) by (apply firstn_length_le; exact Hn).
      rewrite L. rewrite Nat.ltb_irrefl. exists []. reflexivity.
  - destruct n as [|n]; cbn [read_full].
    + exists ((m, fl) :: sc). cbn [firstn skipn]. rewrite app_nil_r. reflexivity.
    + destruct rem as [|b rem]; [cbn [length] in Hn; lia|].
      set (t := Nat.min m (S n)).
      assert (Ht : (t <= S n)%nat) by (unfold t; lia).
      assert (Lg : length (firstn t (b :: rem)) = t) by (apply firstn_length_le; lia).
      rewrite Lg.
      destruct (S n - t)%nat as [|n'] eqn:En'.
      * exists sc. assert (t = S n) by lia. subst t. rewrite H. reflexivity.
      * assert (Hlen : (S n' <= length (skipn t (b :: rem)))%nat) by (rewrite skipn_length; lia).
        destruct (IH (S n') (acc ++ firstn t (b :: rem)) (skipn t (b :: rem)) Hlen) as [sc' Hsc'].
        assert (Hr : read_full sc (S n') (acc ++ firstn t (b :: rem)) (skipn t (b :: rem)) =
                     ROk (acc ++ firstn (S n) (b :: rem)) (skipn (S n) (b :: rem)) sc').
        { rewrite Hsc'. rewrite <- app_assoc. rewrite firstn_skipn_app. rewrite skipn_skipn'.
          replace (t + S n')%nat with (S n) by lia. reflexivity. }
        destruct (skipn t (b :: rem)) as [|c rest] eqn:Esk.
        { cbn [length] in Hlen. lia. }
        exists sc'. exact Hr.
Qed.

Lemma read_full_short : forall sc n acc rem,
  (length rem < n)%nat -> read_full sc n acc rem = RErr (full_err acc rem).
Proof.
  induction sc as [|[m fl] sc IH]; intros n acc rem Hn.
  - destruct n as [|n]; [lia|]. cbn [read_full].
    destruct rem as [|b rem].
    + unfold full_err. rewrite app_nil_r. reflexivity.
    + assert (L : length (firstn (S n) (b :: rem)) = length (b :: rem)) by (rewrite firstn_length; lia).
      rewrite L. destruct (Nat.ltb_spec (length (b :: rem)) (S n)) as [_|Hc]; [|lia].
      unfold full_err. destruct acc; reflexivity.
  - destruct n as [|n]; [lia|]. cbn [read_full].
    destruct rem as [|b rem].
    + unfold full_err. rewrite app_nil_r. reflexivity.
    + set (t := Nat.min m (S n)).
      assert (Lg : length (firstn t (b :: rem)) = Nat.min t (length (b :: rem))) by apply firstn_length.
      destruct (S n - length (firstn t (b :: rem)))%nat as [|n'] eqn:En'; [lia|].
      assert (Hfe : full_err (acc ++ firstn t (b :: rem)) (skipn t (b :: rem)) = full_err acc (b :: rem)).
      { unfold full_err. rewrite <- app_assoc. rewrite firstn_skipn. reflexivity. }
      assert (Hrec : read_full sc (S n') (acc ++ firstn t (b :: rem)) (skipn t (b :: rem)) = RErr (full_err acc (b :: rem))).
      { rewrite IH; [rewrite Hfe; reflexivity|]. rewrite skipn_length. lia. }
      destruct (skipn t (b :: rem)) as [|c rest] eqn:Esk.
      * destruct fl; [|exact Hrec].
        unfold full_err in Hfe. rewrite app_nil_r in Hfe. rewrite Hfe. reflexivity.
      * exact Hrec.
Qed.

Lemma read_full_1_cons sc b r : exists sc', read_full sc 1 [] (b :: r) = ROk [b] r sc'.
Proof.
  destruct (read_full_spec sc 1 [] (b :: r)) as [sc' H]; [cbn [length]; lia|].
  exists sc'. exact H.
Qed.

Lemma read_full_1_nil sc : read_full sc 1 [] [] = RErr EOF.
Proof. rewrite read_full_short; [reflexivity | cbn [length]; lia]. Qed.

(* ------------------------------------------------------------------ *)
(* ReadData = one step of the script-free parser                       *)

Lemma map_eof_full_err acc rem : map_eof (full_err acc rem) = UnexpectedEOF.
Proof. unfold full_err. destruct (acc ++ rem); reflexivity. Qed.

Lemma body_step isdata n rem sc :
  match take_body isdata n rem with
  | PChunk _ d rest => exists sc', read_full sc (N.to_nat n) [] rem = ROk d rest sc'
  | _ => exists e, read_full sc (N.to_nat n) [] rem = RErr e /\ map_eof e = UnexpectedEOF
  end.
Proof.
  unfold take_body. destruct (Nat.ltb_spec (length rem) (N.to_nat n)) as [Hlt|Hge].
  - exists (full_err [] rem). split; [apply read_full_short; exact Hlt | apply map_eof_full_err].
  - destruct (read_full_spec sc (N.to_nat n) [] rem Hge) as [sc' H]. exists sc'. exact H.
Qed.

(* what ReadData does after the length prefix has been read *)
Definition after_len (f : nat) (isdata : bool) (n : N) (rem : bytes) (sc : script) : dres :=
  match read_full sc (N.to_nat n) [] rem with
  | RErr e => DErr (map_eof e)
  | ROk p rem3 sc3 => if isdata then DChunk p rem3 sc3 else read_data f rem3 sc3
  end.

Definition step_ok (f : nat) (r : pres) (res : dres) : Prop :=
  match r with
  | PEnd => res = DErr EOF
  | PShort => res = DErr UnexpectedEOF
  | PLong => res = DErr TooLong
  | PChunk true d rest => exists sc', res = DChunk d rest sc'
  | PChunk false d rest => exists sc', res = read_data f rest sc'
  end.

Lemma after_len_ok f isdata n rem sc :
  step_ok f (take_body isdata n rem) (after_len f isdata n rem sc).
Proof.
  unfold after_len. pose proof (body_step isdata n rem sc) as H.
  unfold take_body in *. destruct (length rem <? N.to_nat n)%nat.
  - destruct H as [e [He Hm]]. rewrite He. cbn [step_ok]. rewrite Hm. reflexivity.
  - destruct H as [sc' He]. rewrite He. destruct isdata; cbn [step_ok]; exists sc'; reflexivity.
Qed.

Lemma read_data_unfold f rem sc :
  read_data (S f) rem sc =
  match read_full sc 1 [] rem with
  | RErr e => DErr e
  | ROk [b] rem1 sc1 =>
      match read_len 3 0 (negb (N.land b 64 =? 0)) (N.land b 63) rem1 sc1 with
      | inr e => DErr e
      | inl None => DErr TooLong
      | inl (Some (n, rem2, sc2)) => after_len f (negb (N.land b 128 =? 0)) n rem2 sc2
      end
  | ROk _ _ _ => DErr TooLong
  end.
Proof. reflexivity. Qed.

Theorem read_data_step f rem sc : step_ok f (parse_one rem) (read_data (S f) rem sc).
Proof.
  rewrite read_data_unfold.
  destruct rem as [|b0 s1].
  { rewrite read_full_1_nil. reflexivity. }
  destruct (read_full_1_cons sc b0 s1) as [sc1 H1]. rewrite H1.
  cbn [parse_one].
  destruct (N.land b0 64 =? 0) eqn:E0; cbn [negb read_len].
  { apply after_len_ok. }
  destruct s1 as [|b1 s2].
  { rewrite read_full_1_nil. reflexivity. }
  destruct (read_full_1_cons sc1 b1 s2) as [sc2 H2]. cbn [Nat.leb]. rewrite H2.
  destruct (N.land b1 128 =? 0) eqn:E1; cbn [negb read_len].
  { apply after_len_ok. }
  destruct s2 as [|b2 s3].
  { cbn [Nat.leb]. rewrite read_full_1_nil. reflexivity. }
  destruct (read_full_1_cons sc2 b2 s3) as [sc3 H3]. cbn [Nat.leb]. rewrite H3.
  destruct (N.land b2 128 =? 0) eqn:E2; cbn [negb read_len].
  { apply after_len_ok. }
  reflexivity.
Qed.

(* every chunk consumes at least its first prefix byte *)
Lemma parse_one_shrinks s isdata d rest :
  parse_one s = PChunk isdata d rest -> (length rest < length s)%nat.
Proof.
  assert (TB : forall isd n x, take_body isd n x = PChunk isdata d rest -> (length rest <= length x)%nat).
  { intros isd n x. unfold take_body. destruct (length x <? N.to_nat n)%nat; [discriminate|].
    intros H. injection H as _ _ Hr. subst rest. rewrite skipn_length. lia. }
  destruct s as [|b0 s1]; cbn [parse_one]; [discriminate|].
  destruct (N.land b0 64 =? 0). { intros H. apply TB in H. cbn [length]. lia. }
  destruct s1 as [|b1 s2]; [discriminate|].
  destruct (N.land b1 128 =? 0). { intros H. apply TB in H. cbn [length]. lia. }
  destruct s2 as [|b2 s3]; [discriminate|].
  destruct (N.land b2 128 =? 0). { intros H. apply TB in H. cbn [length]. lia. }
  discriminate.
Qed.

(* skipping padding: ReadData returns what the parser finds at the next data chunk *)
Fixpoint next_data (fuel : nat) (s : bytes) : pres :=
  match fuel with
  | O => PLong
  | S f => match parse_one s with
           | PChunk false _ rest => next_data f rest
           | r => r
           end
  end.

Lemma read_data_next : forall fuel rem sc, (length rem < fuel)%nat ->
  match next_data fuel rem with
  | PChunk _ d rest => exists sc', read_data fuel rem sc = DChunk d rest sc'
  | PEnd => read_data fuel rem sc = DErr EOF
  | PShort => read_data fuel rem sc = DErr UnexpectedEOF
  | PLong => read_data fuel rem sc = DErr TooLong
  end.
Proof.
  induction fuel as [|f IH]; intros rem sc Hf; [lia|].
  pose proof (read_data_step f rem sc) as Hs.
  cbn [next_data]. destruct (parse_one rem) as [isd d rest| | |] eqn:Ep; cbn [step_ok] in Hs.
  - destruct isd.
    + exact Hs.
    + destruct Hs as [sc' Hs]. rewrite Hs. apply IH.
      apply parse_one_shrinks in Ep. lia.
  - exact Hs.
  - exact Hs.
  - exact Hs.
Qed.

Lemma next_data_isdata : forall fuel s isd d rest, next_data fuel s = PChunk isd d rest -> isd = true.
Proof.
  induction fuel as [|f IH]; intros s isd d rest; cbn [next_data]; [discriminate|].
  destruct (parse_one s) as [i dd rr| | |] eqn:Ep; try discriminate.
  destruct i; [|apply IH]. intros H. injection H as H _ _. symmetry. exact H.
Qed.

Lemma next_data_shrinks : forall fuel s isd d rest,
  next_data fuel s = PChunk isd d rest -> (length rest < length s)%nat.
Proof.
  induction fuel as [|f IH]; intros s isd d rest; cbn [next_data]; [discriminate|].
  destruct (parse_one s) as [i dd rr| | |] eqn:Ep; try discriminate.
  destruct i.
  - intros H. injection H as _ _ Hr. subst rr. eapply parse_one_shrinks; exact Ep.
  - intros H. apply IH in H. apply parse_one_shrinks in Ep. lia.
Qed.

Lemma parse_stream_S f s : parse_stream (S f) s =
  match parse_one s with
  | PEnd => ([], EOF) | PShort => ([], UnexpectedEOF) | PLong => ([], TooLong)
  | PChunk isdata d rest => let '(ds, e) := parse_stream f rest in if isdata then (d :: ds, e) else (ds, e)
  end.
Proof. reflexivity. Qed.
Lemma next_data_S f s : next_data (S f) s =
  match parse_one s with PChunk false _ rest => next_data f rest | r => r end.
Proof. reflexivity. Qed.

(* parse_stream in terms of next_data *)
Lemma parse_stream_next : forall fuel s, (length s < fuel)%nat ->
  parse_stream fuel s =
  match next_data fuel s with
  | PChunk _ d rest => let '(ds, e) := parse_stream (S (length rest)) rest in (d :: ds, e)
  | PEnd => ([], EOF)
  | PShort => ([], UnexpectedEOF)
  | PLong => ([], TooLong)
  end.
Proof.
  induction fuel as [|f IH]; intros s Hf; [lia|].
  rewrite parse_stream_S, next_data_S.
  destruct (parse_one s) as [isd d rest| | |] eqn:Ep; try reflexivity.
  pose proof (parse_one_shrinks _ _ _ _ Ep) as Hsh.
  destruct isd.
  - (* fuel irrelevance for the recursive call *)
    assert (FI : forall a b x, (length x < a)%nat -> (length x < b)%nat -> parse_stream a x = parse_stream b x).
    { clear. induction a as [|a IHa]; intros b x Ha Hb; [lia|]. destruct b as [|b]; [lia|].
      cbn [parse_stream]. destruct (parse_one x) as [isd d rest| | |] eqn:Ep; try reflexivity.
      apply parse_one_shrinks in Ep. rewrite (IHa b rest) by lia. reflexivity. }
    rewrite (FI f (S (length rest)) rest) by lia. reflexivity.
  - rewrite IH by lia.
    destruct (next_data f rest) as [i2 d2 r2| | |]; try reflexivity.
    destruct (parse_stream (S (length r2)) r2); reflexivity.
Qed.

Lemma parse_stream_fuel : forall a b x, (length x < a)%nat -> (length x < b)%nat ->
  parse_stream a x = parse_stream b x.
Proof.
  induction a as [|a IHa]; intros b x Ha Hb; [lia|]. destruct b as [|b]; [lia|].
  cbn [parse_stream]. destruct (parse_one x) as [isd d rest| | |] eqn:Ep; try reflexivity.
  apply parse_one_shrinks in Ep. rewrite (IHa b rest) by lia. reflexivity.
Qed.

(* ------------------------------------------------------------------ *)
(* Script independence: the reader's fragmentation never matters        *)

Theorem read_all_independent : forall fuel rem sc, (length rem < fuel)%nat ->
  read_all fuel rem sc = parse_stream (S (length rem)) rem.
Proof.
  induction fuel as [|f IH]; intros rem sc Hf; [lia|].
  cbn [read_all].
  rewrite (parse_stream_next (S (length rem)) rem) by lia.
  pose proof (read_data_next (S (length rem)) rem sc ltac:(lia)) as Hn.
  destruct (next_data (S (length rem)) rem) as [isd d rest| | |] eqn:En.
  - destruct Hn as [sc' Hn]. rewrite Hn.
    apply next_data_shrinks in En.
    rewrite IH by lia. reflexivity.
  - rewrite Hn. reflexivity.
  - rewrite Hn. reflexivity.
  - rewrite Hn. reflexivity.
Qed.

Theorem read_stream_independent : forall s sc, read_stream s sc = decode_stream s.
Proof.
  intros s sc. unfold read_stream, decode_stream. apply read_all_independent. lia.
Qed.

Lemma land63_lt x : (N.land x 63 =? x) = (x <? 64).
Proof.
  change 63 with (N.ones 6). rewrite N.land_ones.
  destruct (N.ltb_spec x 64) as [H|H].
  - apply N.eqb_eq. apply N.mod_small. exact H.
  - apply N.eqb_neq. intros E. assert (x mod 2 ^ 6 < 2 ^ 6) by (apply N.mod_lt; discriminate).
    change (2 ^ 6) with 64 in *. lia.
Qed.

Lemma prefix_for_none n : 1048576 <= n -> prefix_for n = None.
Proof.
  intros Hn. unfold prefix_for. rewrite !land63_lt. rewrite !N.shiftr_div_pow2.
  change (2 ^ 7) with 128. change (2 ^ 14) with 16384.
  assert (64 <= n / 128) by (apply N.div_le_lower_bound; lia).
  assert (64 <= n / 16384) by (apply N.div_le_lower_bound; lia).
  destruct (N.ltb_spec n 64); [lia|].
  destruct (N.ltb_spec (n / 128) 64); [lia|].
  destruct (N.ltb_spec (n / 16384) 64); [lia|]. reflexivity.
Qed.


(* ------------------------------------------------------------------ *)
(* bit arithmetic of the decoder                                        *)

Lemma small_bits_high c k n : c < 2 ^ k -> k <= n -> N.testbit c n = false.
Proof.
  intros Hc Hk. destruct (N.eq_dec c 0) as [->|Hnz]; [apply N.bits_0|].
  apply N.bits_above_log2. apply N.log2_lt_pow2; [lia|].
  apply N.lt_le_trans with (2 ^ k); [exact Hc|]. apply N.pow_le_mono_r; lia.
Qed.

Lemma land_shifted_small a c k : c < 2 ^ k -> N.land (a * 2 ^ k) c = 0.
Proof.
  intros Hc. apply N.bits_inj. intros n. rewrite N.land_spec, N.bits_0.
  destruct (N.ltb_spec n k) as [Hlt|Hge].
  - rewrite N.mul_pow2_bits_low by exact Hlt. reflexivity.
  - rewrite (small_bits_high c k n Hc Hge). apply andb_false_r.
Qed.

Lemma lor_shiftl_add a c k : c < 2 ^ k -> N.lor (N.shiftl a k) c = a * 2 ^ k + c.
Proof.
  intros Hc. rewrite N.shiftl_mul_pow2.
  pose proof (land_shifted_small a c k Hc) as H0.
  rewrite <- N.lxor_lor by exact H0.
  rewrite <- N.add_nocarry_lxor by exact H0. reflexivity.
Qed.

Lemma land_lt_pow2 b k : N.land b (N.ones k) < 2 ^ k.
Proof. rewrite N.land_ones. apply N.mod_lt. apply N.pow_nonzero. discriminate. Qed.

Lemma land63 b : N.land b 63 < 64. Proof. exact (land_lt_pow2 b 6). Qed.
Lemma land127 b : N.land b 127 < 128. Proof. exact (land_lt_pow2 b 7). Qed.

(* the value announced by any complete 1..3 byte prefix, as arithmetic, and its bound:
   the decoder never allocates more than 2^20 - 1 bytes *)
Theorem hdr_exact_value p isd v : hdr_exact p = Some (isd, v) ->
  v < 1048576 /\
  match p with
  | [b0] => v = N.land b0 63
  | [b0; b1] => v = N.land b0 63 * 128 + N.land b1 127
  | [b0; b1; b2] => v = (N.land b0 63 * 128 + N.land b1 127) * 128 + N.land b2 127
  | _ => False
  end.
Proof.
  destruct p as [|b0 [|b1 [|b2 [|b3 p]]]]; cbn [hdr_exact]; try discriminate.
  - destruct (N.land b0 64 =? 0); [|discriminate]. intros H; injection H as _ <-.
    pose proof (land63 b0). split; [lia | reflexivity].
  - destruct (N.land b0 64 =? 0); [discriminate|].
    destruct (N.land b1 128 =? 0); [|discriminate]. intros H; injection H as _ <-.
    pose proof (land63 b0). pose proof (land127 b1).
    rewrite lor_shiftl_add by (change (2 ^ 7) with 128; assumption). change (2 ^ 7) with 128.
    split; [lia | reflexivity].
  - destruct (N.land b0 64 =? 0); [discriminate|].
    destruct (N.land b1 128 =? 0); [discriminate|].
    destruct (N.land b2 128 =? 0); [|discriminate]. intros H; injection H as _ <-.
    pose proof (land63 b0). pose proof (land127 b1). pose proof (land127 b2).
    rewrite (lor_shiftl_add (N.land b0 63) (N.land b1 127) 7) by (change (2 ^ 7) with 128; assumption).
    rewrite lor_shiftl_add by (change (2 ^ 7) with 128; assumption). change (2 ^ 7) with 128.
    split; [lia | reflexivity].
Qed.

(* ------------------------------------------------------------------ *)
(* chunks: the unit of the wire format                                  *)

Record chunk := { c_isdata : bool; c_prefix : bytes; c_body : bytes }.
Definition chunk_wf (c : chunk) : Prop := hdr_exact (c_prefix c) = Some (c_isdata c, blen (c_body c)).
Definition chunk_bytes (c : chunk) : bytes := c_prefix c ++ c_body c.
Definition chunks_bytes (cs : list chunk) : bytes := concat (map chunk_bytes cs).
Fixpoint chunks_datas (cs : list chunk) : list bytes :=
  match cs with
  | [] => []
  | c :: cs' => if c_isdata c then c_body c :: chunks_datas cs' else chunks_datas cs'
  end.

Lemma take_body_exact isd d rest : take_body isd (blen d) (d ++ rest) = PChunk isd d rest.
Proof.
  unfold take_body, blen. rewrite Nat2N.id. rewrite app_length.
  destruct (Nat.ltb_spec (length d + length rest) (length d)) as [H|H]; [lia|].
  rewrite firstn_app, Nat.sub_diag, firstn_all. cbn [firstn]. rewrite app_nil_r.
  rewrite skipn_app, Nat.sub_diag, skipn_all. reflexivity.
Qed.

Lemma parse_one_chunk c rest : chunk_wf c ->
  parse_one (chunk_bytes c ++ rest) = PChunk (c_isdata c) (c_body c) rest.
Proof.
  intros Hwf. unfold chunk_bytes. rewrite <- app_assoc.
  rewrite (parse_one_hdr_exact _ _ _ _ Hwf). apply take_body_exact.
Qed.

Lemma chunk_bytes_nonempty c : chunk_wf c -> (0 < length (c_prefix c))%nat.
Proof.
  unfold chunk_wf. destruct (c_prefix c); cbn [hdr_exact length]; [discriminate | lia].
Qed.

Lemma parse_stream_chunks : forall cs fuel tail,
  Forall chunk_wf cs -> (length (chunks_bytes cs ++ tail) < fuel)%nat ->
  parse_stream fuel (chunks_bytes cs ++ tail) =
  let '(ds, e) := parse_stream (S (length tail)) tail in (chunks_datas cs ++ ds, e).
Proof.
  induction cs as [|c cs IH]; intros fuel tail Hwf Hf.
  - cbn [chunks_bytes map concat app chunks_datas] in *.
    rewrite (parse_stream_fuel fuel (S (length tail))) by lia.
    destruct (parse_stream (S (length tail)) tail); reflexivity.
  - inversion Hwf as [|? ? Hc Hcs]; subst.
    destruct fuel as [|f]; [lia|].
    unfold chunks_bytes in *. cbn [map concat] in *. rewrite <- app_assoc in *.
    rewrite parse_stream_S. rewrite (parse_one_chunk c _ Hc).
    pose proof (chunk_bytes_nonempty c Hc) as Hne.
    assert (Hlen : (length (concat (map chunk_bytes cs) ++ tail) < f)%nat).
    { assert (Hcb : length (chunk_bytes c) = (length (c_prefix c) + length (c_body c))%nat)
        by (unfold chunk_bytes; apply app_length).
      rewrite app_length in Hf. rewrite Hcb in Hf. lia. }
    rewrite (IH f tail Hcs Hlen).
    destruct (parse_stream (S (length tail)) tail) as [ds e].
    cbn [chunks_datas]. destruct (c_isdata c); reflexivity.
Qed.

Theorem decode_chunks cs : Forall chunk_wf cs ->
  decode_stream (chunks_bytes cs) = (chunks_datas cs, EOF).
Proof.
  intros Hwf. unfold decode_stream.
  pose proof (parse_stream_chunks cs (S (length (chunks_bytes cs))) [] Hwf) as H.
  rewrite app_nil_r in H. rewrite H by lia. cbn. rewrite app_nil_r. reflexivity.
Qed.

(* ------------------------------------------------------------------ *)
(* Writers produce well-formed chunks                                   *)

Lemma beq_eq : forall a b, beq a b = true -> a = b.
Proof.
  induction a as [|x a IH]; intros [|y b]; cbn [beq]; try discriminate; [reflexivity|].
  intros H. apply andb_prop in H. destruct H as [Hx Hr]. apply N.eqb_eq in Hx. subst y.
  f_equal. apply IH. exact Hr.
Qed.

Lemma zeros_length n : length (zeros n) = N.to_nat n.
Proof. unfold zeros. apply repeat_length. Qed.

Lemma padding_chunk_ok p : 1 <= p -> p <= 1024 ->
  exists c, chunk_wf c /\ c_isdata c = false /\ chunk_bytes c = padding_chunk p /\
            length (padding_chunk p) = N.to_nat p.
Proof.
  intros H1 H2.
  pose proof (all_bits_below 10 pad_check pad_sweep (p - 1) ltac:(cbn; lia)) as H.
  unfold pad_check in H. replace (p - 1 + 1) with p in H by lia.
  assert (G : forall h, pad_split h p = true ->
     exists c, chunk_wf c /\ c_isdata c = false /\ chunk_bytes c = padding_chunk p /\
               length (padding_chunk p) = N.to_nat p).
  { intros h Hh. unfold pad_split in Hh.
    destruct (hdr_exact (firstn h (padding_chunk p))) as [[[|] v]|] eqn:Eh; try discriminate.
    apply andb_prop in Hh. destruct Hh as [Hh Hl]. apply andb_prop in Hh. destruct Hh as [Hv Hb].
    apply N.eqb_eq in Hv. apply beq_eq in Hb. apply Nat.eqb_eq in Hl.
    exists {| c_isdata := false; c_prefix := firstn h (padding_chunk p); c_body := zeros v |}.
    unfold chunk_wf, chunk_bytes; cbn [c_isdata c_prefix c_body].
    split; [|split; [reflexivity|split]].
    - rewrite Eh. unfold blen. rewrite zeros_length, N2Nat.id. reflexivity.
    - rewrite <- Hb. apply firstn_skipn.
    - rewrite <- (firstn_skipn h (padding_chunk p)) at 1. rewrite app_length, Hl, Hb, zeros_length.
      rewrite <- Hv, N2Nat.inj_add, Nat2N.id. apply Nat.add_comm. }
  apply orb_prop in H. destruct H as [H|H]; [|exact (G 3%nat H)].
  apply orb_prop in H. destruct H as [H|H]; [exact (G 1%nat H) | exact (G 2%nat H)].
Qed.

Lemma write_padding_fuel_ok : forall fuel n, (N.to_nat (n / 1024) < fuel)%nat ->
  exists cs, Forall chunk_wf cs /\ Forall (fun c => c_isdata c = false) cs /\
             chunks_bytes cs = write_padding_fuel fuel n /\
             length (write_padding_fuel fuel n) = N.to_nat n.
Proof.
  induction fuel as [|f IH]; intros n Hf; [lia|].
  cbn [write_padding_fuel]. destruct (N.eqb_spec n 0) as [->|Hnz].
  - exists []. repeat split; constructor.
  - unfold PADBUF. set (p := N.min 1024 n).
    assert (Hp1 : 1 <= p) by (unfold p; lia). assert (Hp2 : p <= 1024) by (unfold p; lia).
    destruct (padding_chunk_ok p Hp1 Hp2) as [c [Hwf [Hd [Hb Hl]]]].
    assert (Hrec : exists cs, Forall chunk_wf cs /\ Forall (fun c => c_isdata c = false) cs /\
             chunks_bytes cs = write_padding_fuel f (n - p) /\
             length (write_padding_fuel f (n - p)) = N.to_nat (n - p)).
    { destruct (N.leb_spec 1024 n) as [Hge|Hlt].
      - apply IH. unfold p. rewrite N.min_l by exact Hge.
        assert ((n - 1024) / 1024 = n / 1024 - 1).
        { replace n with ((n - 1024) + 1 * 1024) at 2 by lia. rewrite N.div_add by discriminate. lia. }
        assert (1 <= n / 1024) by (apply N.div_le_lower_bound; lia). lia.
      - unfold p. rewrite N.min_r by lia. replace (n - n) with 0 by lia.
        exists []. assert (E0 : write_padding_fuel f 0 = []) by (destruct f; reflexivity).
        rewrite E0. repeat split; constructor. }
    destruct Hrec as [cs [Hcs [Hcd [Hcb Hcl]]]].
    exists (c :: cs). split; [constructor; assumption|]. split; [constructor; assumption|].
    split.
    + unfold chunks_bytes in *. cbn [map concat]. rewrite Hb, Hcb. reflexivity.
    + rewrite app_length, Hl, Hcl. unfold p. lia.
Qed.

Theorem write_padding_ok n :
  exists cs, Forall chunk_wf cs /\ Forall (fun c => c_isdata c = false) cs /\
             chunks_bytes cs = write_padding n /\ length (write_padding n) = N.to_nat n.
Proof. unfold write_padding, PADBUF. apply write_padding_fuel_ok. lia. Qed.

Lemma write_data_ok d : blen d < 1048576 ->
  exists c, write_data d = Some (chunk_bytes c) /\ chunk_wf c /\ c_isdata c = true /\ c_body c = d /\
            length (c_prefix c) = plen (blen d).
Proof.
  intros Hd. destruct (prefix_for_ok (blen d) Hd) as [p [Hp [Hh Hl]]].
  exists {| c_isdata := true; c_prefix := p; c_body := d |}.
  unfold write_data, chunk_bytes, chunk_wf; cbn [c_isdata c_prefix c_body]. rewrite Hp.
  repeat split; assumption.
Qed.

Lemma write_data_toolong d : 1048576 <= blen d -> write_data d = None.
Proof. intros H. unfold write_data. rewrite prefix_for_none by exact H. reflexivity. Qed.

Fixpoint items_ok (l : list item) : Prop :=
  match l with
  | [] => True
  | Data d :: l' => blen d < 1048576 /\ items_ok l'
  | Pad _ :: l' => items_ok l'
  end.

Lemma chunks_datas_nodata cs : Forall (fun c => c_isdata c = false) cs -> chunks_datas cs = [].
Proof. induction 1 as [|c cs Hc _ IH]; cbn [chunks_datas]; [reflexivity|]. rewrite Hc. exact IH. Qed.

Lemma chunks_datas_app a b : chunks_datas (a ++ b) = chunks_datas a ++ chunks_datas b.
Proof.
  induction a as [|c a IH]; cbn [app chunks_datas]; [reflexivity|].
  destruct (c_isdata c); cbn [app]; rewrite IH; reflexivity.
Qed.

Lemma chunks_bytes_app a b : chunks_bytes (a ++ b) = chunks_bytes a ++ chunks_bytes b.
Proof. unfold chunks_bytes. rewrite map_app, concat_app. reflexivity. Qed.

Theorem encode_items_chunks : forall items, items_ok items ->
  exists cs, encode_items items = Some (chunks_bytes cs) /\ Forall chunk_wf cs /\
             chunks_datas cs = datas items.
Proof.
  induction items as [|[d|n] items IH]; intros Hok.
  - exists []. repeat split; constructor.
  - destruct Hok as [Hd Hok]. destruct (IH Hok) as [cs [He [Hwf Hds]]].
    destruct (write_data_ok d Hd) as [c [Hw [Hc [Hi [Hb _]]]]].
    exists (c :: cs). cbn [encode_items]. rewrite Hw, He.
    split; [reflexivity|]. split; [constructor; assumption|].
    cbn [chunks_datas datas]. rewrite Hi, Hb, Hds. reflexivity.
  - cbn [items_ok] in Hok. destruct (IH Hok) as [cs [He [Hwf Hds]]].
    destruct (write_padding_ok n) as [ps [Hpw [Hpd [Hpb _]]]].
    exists (ps ++ cs). cbn [encode_items]. rewrite He.
    split; [rewrite chunks_bytes_app, Hpb; reflexivity|].
    split; [apply Forall_app; split; assumption|].
    rewrite chunks_datas_app, (chunks_datas_nodata ps Hpd). cbn [datas app]. exact Hds.
Qed.

(* ------------------------------------------------------------------ *)
(* C09: round trip under any reader                                     *)

Theorem roundtrip_any_reader : forall items s sc,
  items_ok items -> encode_items items = Some s ->
  read_stream s sc = (datas items, EOF).
Proof.
  intros items s sc Hok He.
  destruct (encode_items_chunks items Hok) as [cs [He' [Hwf Hds]]].
  rewrite He in He'. injection He' as ->.
  rewrite read_stream_independent. rewrite (decode_chunks cs Hwf). rewrite Hds. reflexivity.
Qed.

Theorem encode_total : forall items, items_ok items -> exists s, encode_items items = Some s.
Proof.
  intros items Hok. destruct (encode_items_chunks items Hok) as [cs [He _]]. eexists; exact He.
Qed.

Theorem encode_rejects_long : forall items, encode_items items <> None -> items_ok items.
Proof.
  induction items as [|[d|n] items IH]; cbn [encode_items items_ok]; intros H.
  - exact I.
  - destruct (N.ltb_spec (blen d) 1048576) as [Hlt|Hge].
    + split; [exact Hlt|]. apply IH. destruct (write_data d); [|congruence].
      destruct (encode_items items); congruence.
    + rewrite (write_data_toolong d Hge) in H. congruence.
  - apply IH. destruct (encode_items items); congruence.
Qed.

(* ------------------------------------------------------------------ *)
(* padding size and the size budget                                     *)

Theorem padding_exact n : length (write_padding n) = N.to_nat n.
Proof. destruct (write_padding_ok n) as [cs [_ [_ [_ H]]]]. exact H. Qed.

Theorem padding_invisible n sc : read_stream (write_padding n) sc = ([], EOF).
Proof.
  destruct (write_padding_ok n) as [cs [Hwf [Hd [Hb _]]]].
  rewrite read_stream_independent, <- Hb, (decode_chunks cs Hwf), (chunks_datas_nodata cs Hd). reflexivity.
Qed.

Theorem budget_respected n d : 0 < n -> blen d = max_data_for_size n ->
  exists w, write_data d = Some w /\ N.of_nat (length w) <= n.
Proof.
  intros Hn Hd. unfold max_data_for_size in Hd.
  destruct (N.ltb_spec n 1048576) as [Hlt|Hge].
  - destruct (prefix_for_ok n Hlt) as [p [Hp [_ Hl]]]. rewrite Hp in Hd.
    assert (Hdl : blen d < 1048576) by (unfold blen in *; lia).
    destruct (write_data_ok d Hdl) as [c [Hw [_ [_ [Hb Hpl]]]]].
    exists (chunk_bytes c). split; [exact Hw|].
    unfold chunk_bytes. rewrite app_length, Hb, Hpl.
    unfold blen in *. rewrite Hl in Hd. unfold plen in *.
    destruct (N.ltb_spec n 64); destruct (N.ltb_spec n 8192);
    destruct (N.ltb_spec (N.of_nat (length d)) 64); destruct (N.ltb_spec (N.of_nat (length d)) 8192); lia.
  - rewrite (prefix_for_none n Hge) in Hd.
    assert (Hdl : blen d < 1048576) by lia.
    destruct (write_data_ok d Hdl) as [c [Hw [_ [_ [Hb Hpl]]]]].
    exists (chunk_bytes c). split; [exact Hw|].
    unfold chunk_bytes. rewrite app_length, Hb, Hpl. unfold blen, plen in *.
    destruct (N.ltb_spec (N.of_nat (length d)) 64); destruct (N.ltb_spec (N.of_nat (length d)) 8192); lia.
Qed.

(* ------------------------------------------------------------------ *)
(* Classification of arbitrary byte streams                             *)

Definition tail_err (r : pres) : option rerr :=
  match r with
  | PEnd => Some EOF | PShort => Some UnexpectedEOF | PLong => Some TooLong
  | PChunk _ _ _ => None
  end.

Lemma take_body_inv isd n x i d rest : take_body isd n x = PChunk i d rest ->
  i = isd /\ x = d ++ rest /\ blen d = n.
Proof.
  unfold take_body. destruct (Nat.ltb_spec (length x) (N.to_nat n)) as [H|H]; [discriminate|].
  intros E. injection E as <- <- <-. split; [reflexivity|]. split.
  - symmetry. apply firstn_skipn.
  - unfold blen. rewrite firstn_length_le by exact H. apply N2Nat.id.
Qed.

Lemma parse_one_inv s isd d rest : parse_one s = PChunk isd d rest ->
  exists p, s = p ++ d ++ rest /\ hdr_exact p = Some (isd, blen d).
Proof.
  destruct s as [|b0 s1]; cbn [parse_one]; [discriminate|].
  destruct (N.land b0 64 =? 0) eqn:E0.
  { intros H. apply take_body_inv in H. destruct H as [-> [-> Hn]].
    exists [b0]. split; [reflexivity|]. cbn [hdr_exact]. rewrite E0, Hn. reflexivity. }
  destruct s1 as [|b1 s2]; [discriminate|].
  destruct (N.land b1 128 =? 0) eqn:E1.
  { intros H. apply take_body_inv in H. destruct H as [-> [-> Hn]].
    exists [b0; b1]. split; [reflexivity|]. cbn [hdr_exact]. rewrite E0, E1, Hn. reflexivity. }
  destruct s2 as [|b2 s3]; [discriminate|].
  destruct (N.land b2 128 =? 0) eqn:E2; [|discriminate].
  intros H. apply take_body_inv in H. destruct H as [-> [-> Hn]].
  exists [b0; b1; b2]. split; [reflexivity|]. cbn [hdr_exact]. rewrite E0, E1, E2, Hn. reflexivity.
Qed.

(* every byte string is a sequence of whole chunks followed by a tail on which the parser stops *)
Lemma decompose : forall fuel s, (length s < fuel)%nat ->
  exists cs tail e, Forall chunk_wf cs /\ s = chunks_bytes cs ++ tail /\ tail_err (parse_one tail) = Some e.
Proof.
  induction fuel as [|f IH]; intros s Hf; [lia|].
  destruct (parse_one s) as [isd d rest| | |] eqn:Ep.
  - pose proof (parse_one_shrinks _ _ _ _ Ep) as Hsh.
    destruct (parse_one_inv _ _ _ _ Ep) as [p [Hs Hh]].
    destruct (IH rest ltac:(lia)) as [cs [tail [e [Hwf [Hr He]]]]].
    exists ({| c_isdata := isd; c_prefix := p; c_body := d |} :: cs), tail, e.
    split; [constructor; [exact Hh | exact Hwf]|]. split; [|exact He].
    unfold chunks_bytes in *. cbn [map concat]. unfold chunk_bytes at 1. cbn [c_prefix c_body].
    rewrite Hs, Hr. rewrite <- !app_assoc. reflexivity.
  - exists [], s, EOF. rewrite Ep. repeat split. constructor.
  - exists [], s, UnexpectedEOF. rewrite Ep. repeat split. constructor.
  - exists [], s, TooLong. rewrite Ep. repeat split. constructor.
Qed.

Lemma decode_decomposed cs tail e : Forall chunk_wf cs -> tail_err (parse_one tail) = Some e ->
  decode_stream (chunks_bytes cs ++ tail) = (chunks_datas cs, e).
Proof.
  intros Hwf He. unfold decode_stream.
  rewrite (parse_stream_chunks cs _ tail Hwf) by lia.
  rewrite parse_stream_S. destruct (parse_one tail); cbn [tail_err] in He; try discriminate;
    injection He as <-; rewrite app_nil_r; reflexivity.
Qed.

Theorem classify s :
  exists cs tail, Forall chunk_wf cs /\ s = chunks_bytes cs ++ tail /\
    fst (decode_stream s) = chunks_datas cs /\
    match snd (decode_stream s) with
    | EOF => tail = []
    | UnexpectedEOF => parse_one tail = PShort
    | TooLong => parse_one tail = PLong
    end.
Proof.
  destruct (decompose (S (length s)) s ltac:(lia)) as [cs [tail [e [Hwf [Hs He]]]]].
  exists cs, tail. split; [exact Hwf|]. split; [exact Hs|].
  rewrite Hs, (decode_decomposed cs tail e Hwf He). cbn [fst snd]. split; [reflexivity|].
  destruct (parse_one tail) eqn:Ep; cbn [tail_err] in He; try discriminate; injection He as <-; try reflexivity.
  destruct tail; [reflexivity|]. cbn [parse_one] in Ep.
  destruct (N.land n 64 =? 0); [unfold take_body in Ep; destruct (_ <? _)%nat; discriminate|].
  destruct tail as [|b1 t2]; [discriminate|].
  destruct (N.land b1 128 =? 0); [unfold take_body in Ep; destruct (_ <? _)%nat; discriminate|].
  destruct t2 as [|b2 t3]; [discriminate|].
  destruct (N.land b2 128 =? 0); [unfold take_body in Ep; destruct (_ <? _)%nat; discriminate|discriminate].
Qed.

(* the three tail shapes, concretely *)
Lemma parse_one_long_iff t : parse_one t = PLong <->
  exists b0 b1 b2 r, t = b0 :: b1 :: b2 :: r /\
    N.land b0 64 <> 0 /\ N.land b1 128 <> 0 /\ N.land b2 128 <> 0.
Proof.
  split.
  - destruct t as [|b0 t1]; cbn [parse_one]; [discriminate|].
    destruct (N.eqb_spec (N.land b0 64) 0); [unfold take_body; destruct (_ <? _)%nat; discriminate|].
    destruct t1 as [|b1 t2]; [discriminate|].
    destruct (N.eqb_spec (N.land b1 128) 0); [unfold take_body; destruct (_ <? _)%nat; discriminate|].
    destruct t2 as [|b2 t3]; [discriminate|].
    destruct (N.eqb_spec (N.land b2 128) 0); [unfold take_body; destruct (_ <? _)%nat; discriminate|].
    intros _. exists b0, b1, b2, t3. repeat split; assumption.
  - intros [b0 [b1 [b2 [r [-> [H0 [H1 H2]]]]]]]. cbn [parse_one].
    apply N.eqb_neq in H0, H1, H2. rewrite H0, H1, H2. reflexivity.
Qed.

(* ------------------------------------------------------------------ *)
(* Truncation: a cut stream yields only whole chunks, never a partial one *)

Lemma firstn_app_le {A} k (a b : list A) : (k <= length a)%nat -> firstn k (a ++ b) = firstn k a.
Proof. intros H. rewrite firstn_app. replace (k - length a)%nat with 0%nat by lia. cbn [firstn]. apply app_nil_r. Qed.

Lemma firstn_app_ge {A} k (a b : list A) : (length a <= k)%nat -> firstn k (a ++ b) = a ++ firstn (k - length a) b.
Proof. intros H. rewrite firstn_app. rewrite firstn_all2 by exact H. reflexivity. Qed.

Lemma parse_one_proper_prefix c k rest : chunk_wf c -> (k < length (chunk_bytes c))%nat ->
  parse_one (firstn k (chunk_bytes c ++ rest)) = match k with O => PEnd | S _ => PShort end.
Proof.
  intros Hwf Hk. destruct k as [|k]; [reflexivity|].
  unfold chunk_bytes in *. rewrite <- app_assoc. rewrite app_length in Hk.
  set (x := c_body c ++ rest).
  assert (Hx : forall j, (j < length (c_body c))%nat -> forall isd,
             take_body isd (blen (c_body c)) (firstn j x) = PShort).
  { intros j Hj isd. unfold take_body, blen. rewrite Nat2N.id.
    assert (length (firstn j x) <= j)%nat by (rewrite firstn_length; lia).
    destruct (Nat.ltb_spec (length (firstn j x)) (length (c_body c))); [reflexivity | lia]. }
  unfold chunk_wf in Hwf.
  destruct (c_prefix c) as [|b0 [|b1 [|b2 [|b3 p]]]]; cbn [hdr_exact] in Hwf; try discriminate;
    cbn [length] in Hk.
  - destruct (N.land b0 64 =? 0) eqn:E0; [|discriminate]. injection Hwf as _ Hv.
    cbn [app firstn parse_one]. rewrite E0, Hv. apply Hx. lia.
  - destruct (N.land b0 64 =? 0) eqn:E0; [discriminate|].
    destruct (N.land b1 128 =? 0) eqn:E1; [|discriminate]. injection Hwf as _ Hv.
    destruct k as [|k]; cbn [app firstn parse_one]; rewrite E0; [reflexivity|].
    rewrite E1, Hv. apply Hx. lia.
  - destruct (N.land b0 64 =? 0) eqn:E0; [discriminate|].
    destruct (N.land b1 128 =? 0) eqn:E1; [discriminate|].
    destruct (N.land b2 128 =? 0) eqn:E2; [|discriminate]. injection Hwf as _ Hv.
    destruct k as [|[|k]]; cbn [app firstn parse_one]; rewrite E0; [reflexivity| |].
    + rewrite E1. reflexivity.
    + rewrite E1, E2, Hv. apply Hx. lia.
Qed.

Theorem truncation_prefix : forall cs k, Forall chunk_wf cs ->
  exists j e, decode_stream (firstn k (chunks_bytes cs)) = (firstn j (chunks_datas cs), e) /\
              (e = EOF \/ e = UnexpectedEOF).
Proof.
  induction cs as [|c cs IH]; intros k Hwf.
  - exists 0%nat, EOF. cbn [chunks_bytes map concat]. rewrite firstn_nil. split; [reflexivity | left; reflexivity].
  - inversion Hwf as [|? ? Hc Hcs]; subst.
    unfold chunks_bytes. cbn [map concat]. fold (chunks_bytes cs).
    destruct (Nat.ltb_spec k (length (chunk_bytes c))) as [Hlt|Hge].
    + pose proof (parse_one_proper_prefix c k (chunks_bytes cs) Hc Hlt) as Hp.
      exists 0%nat. unfold decode_stream. rewrite parse_stream_S, Hp.
      destruct k; [exists EOF | exists UnexpectedEOF]; (split; [reflexivity|]); [left | right]; reflexivity.
    + rewrite firstn_app_ge by exact Hge.
      destruct (IH (k - length (chunk_bytes c))%nat Hcs) as [j [e [Hd He]]].
      unfold decode_stream in *.
      set (t := firstn (k - length (chunk_bytes c)) (chunks_bytes cs)) in *.
      rewrite parse_stream_S, (parse_one_chunk c t Hc).
      pose proof (chunk_bytes_nonempty c Hc) as Hne.
      assert (Hcb : length (chunk_bytes c) = (length (c_prefix c) + length (c_body c))%nat)
        by (unfold chunk_bytes; apply app_length).
      rewrite (parse_stream_fuel _ (S (length t)) t) by (try rewrite app_length; lia).
      rewrite Hd. cbn [chunks_datas]. destruct (c_isdata c).
      * exists (S j), e. split; [reflexivity | exact He].
      * exists j, e. split; [reflexivity | exact He].
Qed.

(* ------------------------------------------------------------------ *)
(* The pinned (pre-fix) reader violates the round trip                  *)

Lemma v0_refuted_zero_read :
  let items := [Data (gen_bytes 200 1)] in
  let sc := [(1%nat, false); (0%nat, false); (1%nat, false)] in
  exists s, items_ok items /\ encode_items items = Some s /\ read_stream_v0 s sc <> (datas items, EOF).
Proof.
  intros items sc. eexists. split; [vm_compute; repeat split|]. split; [vm_compute; reflexivity|]. vm_compute. discriminate.
Qed.

Lemma v0_refuted_eof_with_data :
  let items := [Data []] in
  let sc := [(1%nat, true)] in
  exists s, items_ok items /\ encode_items items = Some s /\ read_stream_v0 s sc <> (datas items, EOF).
Proof.
  intros items sc. eexists. split; [vm_compute; repeat split|]. split; [vm_compute; reflexivity|]. vm_compute. discriminate.
Qed.
