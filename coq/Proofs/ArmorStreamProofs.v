(* ArmorStreamProofs.v — the streaming decoder (Model/ArmorStream.v): independence of the way the source
   delivers the document and of the caller's read sizes; release of the goroutine; bounded buffering.
   Everything up to the instantiation at the end is proved for an arbitrary tokenizer given as a
   byte-feed function (the library boundary). *)
From Coq Require Import List NArith ZArith Lia Bool Arith String.
From Coq Require Import ZifyN ZifyNat ZifyBool.
From Snow Require Import Lib.Wire Model.Base64 Model.Armor Model.ArmorStream.
From Snow Require Import Proofs.Base64Proofs Proofs.ArmorEncProofs Proofs.ArmorDecProofs.
Import ListNotations.
Open Scope N_scope.

(* ------------------------------------------------------------------ decodeToWriter over a token list *)
Lemma dw_toks_cons : forall t x a,
  dw_toks a (t :: x) =
  match w_end (dw_tok a t) with
  | Some _ => dw_tok a t
  | None => let r' := dw_toks (w_act (dw_tok a t)) x in
            {| w_act := w_act r'; w_words := w_words (dw_tok a t) ++ w_words r'; w_end := w_end r' |}
  end.
Proof. reflexivity. Qed.

Lemma dw_toks_app : forall x y a,
  dw_toks a (x ++ y) =
  match w_end (dw_toks a x) with
  | Some _ => dw_toks a x
  | None => {| w_act := w_act (dw_toks (w_act (dw_toks a x)) y);
               w_words := w_words (dw_toks a x) ++ w_words (dw_toks (w_act (dw_toks a x)) y);
               w_end := w_end (dw_toks (w_act (dw_toks a x)) y) |}
  end.
Proof.
  induction x as [|t x IH]; intros y a.
  - cbn [app dw_toks w_end w_act w_words]. destruct (dw_toks a y); reflexivity.
  - change ((t :: x) ++ y) with (t :: (x ++ y)). rewrite !dw_toks_cons.
    destruct (w_end (dw_tok a t)) eqn:E.
    + rewrite E. reflexivity.
    + cbv zeta. cbn [w_end w_act w_words]. rewrite IH.
      destruct (w_end (dw_toks (w_act (dw_tok a t)) x)) eqn:E2.
      * rewrite E2. reflexivity.
      * cbn [w_act w_words w_end]. rewrite app_assoc. reflexivity.
Qed.

Definition is_end (e : pevent) : bool := match e with PEnd _ => true | PW _ => false end.
Definition has_end (q : list pevent) : bool := existsb is_end q.
(* what follows a queue: nothing once decodeToWriter has returned *)
Definition ev_app (q rest : list pevent) : list pevent := if has_end q then q else q ++ rest.

Lemma has_end_words : forall ws, has_end (map PW ws) = false.
Proof. induction ws; [reflexivity|]. cbn. exact IHws. Qed.

Lemma has_end_evs : forall r, has_end (evs_of r) = match w_end r with Some _ => true | None => false end.
Proof.
  intros r. unfold evs_of, has_end. rewrite existsb_app. fold (has_end (map PW (w_words r))).
  rewrite has_end_words. destruct (w_end r); reflexivity.
Qed.

Lemma evs_app : forall x y a,
  evs_of (dw_toks a (x ++ y)) = ev_app (evs_of (dw_toks a x)) (evs_of (dw_toks (w_act (dw_toks a x)) y)).
Proof.
  intros x y a. unfold ev_app. rewrite has_end_evs. rewrite dw_toks_app.
  destruct (w_end (dw_toks a x)) eqn:E; [reflexivity|].
  unfold evs_of. cbn [w_words w_end]. rewrite E. rewrite map_app, app_nil_r, <- app_assoc. reflexivity.
Qed.

Lemma ev_app_nil : forall r, ev_app [] r = r.
Proof. reflexivity. Qed.

Lemma ev_app_assoc : forall a b c, ev_app (ev_app a b) c = ev_app a (ev_app b c).
Proof.
  intros a b c. unfold ev_app. destruct (has_end a) eqn:Ea.
  - rewrite Ea. reflexivity.
  - unfold has_end in *. rewrite existsb_app. fold (has_end a) (has_end b). unfold has_end in Ea |- *. rewrite Ea. cbn [orb].
    destruct (existsb is_end b); [reflexivity|]. rewrite app_assoc. reflexivity.
Qed.

Lemma dw_eof_end : forall x a, w_end (dw_toks a (x ++ [TkEOF])) <> None.
Proof.
  intros x a. rewrite dw_toks_app. destruct (w_end (dw_toks a x)) eqn:E; [congruence|].
  cbn. destruct (w_act (dw_toks a x)); discriminate.
Qed.

(* words are never empty *)
Lemma words_aux_ne : forall l cur, Forall (fun w => w <> []) (words_aux l cur).
Proof.
  induction l as [|c l IH]; intros cur.
  - cbn [words_aux]. destruct cur as [|x cur]; [constructor|]. constructor; [|constructor].
    rewrite rev_append_rev, app_nil_r. cbn [rev]. intros H. apply app_eq_nil in H as [_ H]. discriminate.
  - cbn [words_aux]. destruct (isws c).
    + destruct cur as [|x cur]; [apply IH|]. constructor; [|apply IH].
      rewrite rev_append_rev, app_nil_r. cbn [rev]. intros H. apply app_eq_nil in H as [_ H]. discriminate.
    + apply IH.
Qed.
Lemma cut_long_sub : forall ws, exists k, fst (cut_long ws) = firstn k ws.
Proof.
  induction ws as [|w ws [k IH]]; [exists O; reflexivity|]. cbn [cut_long].
  destruct (TOOLONG <=? _); [exists O; reflexivity|]. destruct (cut_long ws) as [a b]. cbn [fst] in *.
  exists (S k). cbn [firstn]. rewrite IH. reflexivity.
Qed.
Lemma Forall_firstn {A} (P : A -> Prop) : forall k l, Forall P l -> Forall P (firstn k l).
Proof. induction k; intros l H; [constructor|]. destruct l; [constructor|]. inversion H; subst. constructor; auto. Qed.

Definition wne (q : list pevent) : Prop := Forall (fun e => match e with PW w => w <> [] | PEnd _ => True end) q.

Lemma dw_tok_wne : forall a t, Forall (fun w => w <> []) (w_words (dw_tok a t)).
Proof.
  intros a t. destruct t; cbn [dw_tok]; try (destruct (beq _ _)); try (destruct a); cbn [w_words]; try constructor.
  destruct (cut_long_sub (words (text_data k data))) as [n E]. destruct (cut_long _) as [ws long]. cbn [fst] in E. subst ws.
  cbn [w_words]. apply Forall_firstn. apply words_aux_ne.
Qed.
Lemma dw_toks_wne : forall ts a, Forall (fun w => w <> []) (w_words (dw_toks a ts)).
Proof.
  induction ts as [|t ts IH]; intros a; [constructor|]. cbn [dw_toks].
  destruct (w_end (dw_tok a t)); [apply dw_tok_wne|]. cbn [w_words]. apply Forall_app. split; [apply dw_tok_wne|apply IH].
Qed.
Lemma evs_wne : forall a ts, wne (evs_of (dw_toks a ts)).
Proof.
  intros a ts. unfold wne, evs_of. apply Forall_app. split.
  - apply Forall_forall. intros e He. apply in_map_iff in He as (w & <- & Hw).
    pose proof (dw_toks_wne ts a) as F. rewrite Forall_forall in F. apply F. exact Hw.
  - destruct (w_end _); constructor; [exact I|constructor].
Qed.
Lemma wne_ev_app : forall q r, wne q -> wne r -> wne (ev_app q r).
Proof. intros q r Hq Hr. unfold ev_app. destruct (has_end q); [exact Hq|]. apply Forall_app. split; assumption. Qed.

Section StreamProofs.
  Variable T : Type.
  Variable tinit : T.
  Variable tfeed : T -> N -> T * list tok.
  Variable tfin : T -> list tok.

  Notation prod := (prod T).
  Notation dec := (dec T).
  Notation fill_cur := (fill_cur T tfeed).
  Notation fill_src := (fill_src T tfeed).
  Notation p_fill := (p_fill T tfeed tfin).
  Notation pipe_read := (pipe_read T tfeed tfin).
  Notation p_close := (p_close T tfeed tfin).
  Notation refill := (refill T tfeed tfin).
  Notation dec_read0 := (dec_read0 T tfeed tfin).
  Notation dec_read := (dec_read T tfeed tfin).
  Notation dec_new := (dec_new T tinit tfeed tfin).
  Notation set_q := (set_q T).

  (* the tokens Next returns from tokenizer state [t] on the input [l], then on end of input *)
  Fixpoint toks_of (t : T) (l : bytes) : list tok :=
    match l with
    | [] => tfin t ++ [TkEOF]
    | c :: l' => let '(t', ts) := tfeed t c in ts ++ toks_of t' l'
    end.

  (* everything the pipe will carry from there on: a function of the BYTES still to come, not of the
     way the source's Reads cut them *)
  Definition events_of (act : bool) (t : T) (l : bytes) : list pevent := evs_of (dw_toks act (toks_of t l)).

  Lemma toks_of_eof : forall l t, exists x, toks_of t l = x ++ [TkEOF].
  Proof.
    induction l as [|c l IH]; intros t.
    - exists (tfin t). reflexivity.
    - cbn [toks_of]. destruct (tfeed t c) as [t' ts]. destruct (IH t') as [x E]. exists (ts ++ x). rewrite E, app_assoc. reflexivity.
  Qed.

  Lemma events_has_end : forall a t l, has_end (events_of a t l) = true.
  Proof.
    intros a t l. unfold events_of. rewrite has_end_evs. destruct (toks_of_eof l t) as [x ->].
    pose proof (dw_eof_end x a). destruct (w_end _); [reflexivity|congruence].
  Qed.

  Lemma events_cons : forall a t c l,
    events_of a t (c :: l) =
    let '(t', ts) := tfeed t c in
    ev_app (evs_of (dw_toks a ts)) (events_of (w_act (dw_toks a ts)) t' l).
  Proof. intros. unfold events_of. cbn [toks_of]. destruct (tfeed t c) as [t' ts]. apply evs_app. Qed.

  (* ---------------------------------------------------------------- the producer *)
  Definition future (p : prod) : list pevent :=
    ev_app (p_q p) (events_of (p_act p) (p_tk p) (p_cur p ++ List.concat (p_src p))).

  Lemma fill_cur_spec : forall cur t act rest,
    let '(t', act', cur', evs) := fill_cur t act cur in
    events_of act t (cur ++ rest) = ev_app evs (events_of act' t' (cur' ++ rest)) /\
    (evs = [] -> cur' = []) /\ (List.length cur' <= List.length cur)%nat /\ wne evs.
  Proof.
    induction cur as [|c cur IH]; intros t act rest.
    - cbn [fill_cur app]. split; [reflexivity|]. split; [reflexivity|]. split; [lia|constructor].
    - cbn [fill_cur app]. rewrite events_cons. destruct (tfeed t c) as [t1 ts].
      destruct (evs_of (dw_toks act ts)) as [|e evs] eqn:E.
      + specialize (IH t1 (w_act (dw_toks act ts)) rest).
        destruct (fill_cur t1 (w_act (dw_toks act ts)) cur) as [[[t' act'] cur'] evs'].
        destruct IH as (I1 & I2 & I3 & I4). rewrite ev_app_nil. split; [exact I1|]. split; [exact I2|].
        split; [cbn [List.length]; lia|exact I4].
      + split; [reflexivity|]. split; [discriminate|]. split; [cbn [List.length]; lia|].
        rewrite <- E. apply evs_wne.
  Qed.

  Lemma fill_src_spec : forall src t act n,
    let '(t', act', src', cur', evs, n') := fill_src t act src n in
    events_of act t (List.concat src) = ev_app evs (events_of act' t' (cur' ++ List.concat src')) /\
    (evs = [] -> cur' = [] /\ src' = []) /\ wne evs /\
    (exists pre, src = pre ++ src' /\ (cur' = [] \/ exists ch, last pre [] = ch /\ In ch pre /\ (List.length cur' <= List.length ch)%nat)) .
  Proof.
    induction src as [|ch src IH]; intros t act n.
    - cbn [fill_src List.concat app]. split; [reflexivity|]. split; [auto|]. split; [constructor|].
      exists []. split; [reflexivity|left; reflexivity].
    - cbn [fill_src List.concat].
      pose proof (fill_cur_spec ch t act (List.concat src)) as F.
      destruct (fill_cur t act ch) as [[[t1 a1] cur1] ev1]. destruct F as (F1 & F2 & F3 & F4).
      destruct ev1 as [|e ev1].
      + specialize (F2 eq_refl). subst cur1. cbn [app] in F1. rewrite ev_app_nil in F1.
        specialize (IH t1 a1 (n + N.of_nat (List.length ch))).
        destruct (fill_src t1 a1 src (n + N.of_nat (List.length ch))) as [[[[[t' act'] src'] cur'] evs] n'].
        destruct IH as (I1 & I2 & I3 & (pre & I4 & I5)). split; [rewrite F1; exact I1|]. split; [exact I2|]. split; [exact I3|].
        exists (ch :: pre). split; [rewrite I4; reflexivity|].
        destruct I5 as [I5 | (c2 & L & Hin & Hl)]; [left; exact I5|].
        right. destruct pre as [|x pre]; [destruct Hin|].
        exists c2. split; [exact L|]. split; [right; exact Hin|exact Hl].
      + split; [exact F1|]. split; [discriminate|]. split; [exact F4|].
        exists [ch]. split; [reflexivity|]. right. exists ch. split; [reflexivity|]. split; [left; reflexivity|exact F3].
  Qed.

  Lemma p_fill_future : forall p, future (p_fill p) = future p.
  Proof.
    intros p. unfold p_fill. destruct (p_q p) as [|e q] eqn:Q; [|reflexivity].
    unfold future at 2. rewrite Q, ev_app_nil.
    pose proof (fill_cur_spec (p_cur p) (p_tk p) (p_act p) (List.concat (p_src p))) as F.
    destruct (fill_cur (p_tk p) (p_act p) (p_cur p)) as [[[t1 a1] cur1] ev1]. destruct F as (F1 & F2 & _).
    destruct ev1 as [|e1 ev1].
    - specialize (F2 eq_refl). subst cur1. rewrite ev_app_nil in F1. cbn [app] in F1.
      pose proof (fill_src_spec (p_src p) t1 a1 (p_consumed p)) as G.
      destruct (fill_src t1 a1 (p_src p) (p_consumed p)) as [[[[[t2 a2] src2] cur2] ev2] n2].
      destruct G as (G1 & G2 & _). destruct ev2 as [|e2 ev2].
      + destruct (G2 eq_refl) as [-> ->]. rewrite ev_app_nil in G1. cbn [app List.concat] in G1.
        unfold future. cbn [p_q p_act p_tk p_cur p_src]. rewrite F1, G1. unfold events_of at 2. cbn [toks_of].
        unfold ev_app. rewrite has_end_evs.
        pose proof (dw_eof_end (tfin t2) a2). destruct (w_end _); [reflexivity|congruence].
      + unfold future. cbn [p_q p_act p_tk p_cur p_src]. rewrite F1, G1. reflexivity.
    - unfold future. cbn [p_q p_act p_tk p_cur p_src]. exact (eq_sym F1).
  Qed.

  Lemma p_fill_nonempty : forall p, p_q (p_fill p) <> [].
  Proof.
    intros p. unfold p_fill. destruct (p_q p) as [|e q] eqn:Q; [|rewrite Q; discriminate].
    destruct (fill_cur (p_tk p) (p_act p) (p_cur p)) as [[[t1 a1] cur1] ev1].
    destruct ev1 as [|e1 ev1]; [|cbn [p_q]; discriminate].
    destruct (fill_src t1 a1 (p_src p) (p_consumed p)) as [[[[[t2 a2] src2] cur2] ev2] n2].
    destruct ev2 as [|e2 ev2]; [|cbn [p_q]; discriminate].
    cbn [p_q]. intros H. pose proof (has_end_evs (dw_toks a2 (tfin t2 ++ [TkEOF]))) as E. rewrite H in E.
    pose proof (dw_eof_end (tfin t2) a2). destruct (w_end _); [discriminate|congruence].
  Qed.

  Lemma p_fill_idem : forall p, p_q p <> [] -> p_fill p = p.
  Proof. intros p H. unfold p_fill. destruct (p_q p); [congruence|reflexivity]. Qed.

  Lemma future_has_end : forall p, has_end (future p) = true.
  Proof.
    intros p. unfold future, ev_app. destruct (has_end (p_q p)) eqn:E; [exact E|].
    unfold has_end. rewrite existsb_app. fold (has_end (p_q p)). rewrite E. apply events_has_end.
  Qed.

  (* the queue is the beginning of the future *)
  Lemma future_head : forall p e q, p_q p = e :: q ->
    future p = e :: ev_app q (if is_end e then [] else events_of (p_act p) (p_tk p) (p_cur p ++ List.concat (p_src p))).
  Proof.
    intros p e q Q. unfold future. rewrite Q. unfold ev_app. cbn [has_end existsb]. fold (has_end q).
    destruct e as [w|e]; cbn [is_end orb].
    - destruct (has_end q); reflexivity.
    - destruct (has_end q); [reflexivity|]. rewrite app_nil_r. reflexivity.
  Qed.

  (* a Read of the pipe, in terms of the future *)
  Lemma pipe_read_spec : forall k p,
    match future p with
    | PW w :: f => exists p', pipe_read k p = (PData (firstn k w), p') /\
                              future p' = match skipn k w with [] => f | w' => PW w' :: f end
    | PEnd e :: f => exists p', pipe_read k p = (PClosed e, p') /\ future p' = future p /\ p_q p' = PEnd e :: tl (p_q p')
    | [] => False
    end.
  Proof.
    intros k p. rewrite <- (p_fill_future p). unfold pipe_read.
    pose proof (p_fill_nonempty p) as NE. set (p1 := p_fill p) in *.
    destruct (p_q p1) as [|e q] eqn:Q; [congruence|].
    rewrite (future_head p1 e q Q). destruct e as [w|e]; cbn [is_end].
    - eexists. split; [reflexivity|]. unfold future, set_q. cbn [p_q p_act p_tk p_cur p_src].
      destruct (skipn k w) as [|x w'] eqn:S; [reflexivity|].
      unfold ev_app. cbn [has_end existsb is_end orb]. fold (has_end q). destruct (has_end q); reflexivity.
    - exists p1. split; [reflexivity|]. split; [rewrite (future_head p1 (PEnd e) q Q); reflexivity|].
      rewrite Q. reflexivity.
  Qed.

  (* the chunks in which the source delivers the document do not matter *)
  Lemma future_init : forall chunks,
    future (p_init T tinit chunks) = events_of false tinit (List.concat chunks).
  Proof. intros. reflexivity. Qed.
End StreamProofs.
