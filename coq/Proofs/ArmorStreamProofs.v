(* ArmorStreamProofs.v — the streaming decoder (Model/ArmorStream.v): independence of the way the source
   delivers the document and of the caller's read sizes; release of the goroutine; bounded buffering.
   Everything up to the instantiation at the end is proved for an arbitrary tokenizer given as a
   byte-feed function (the library boundary). *)
From Coq Require Import List NArith ZArith Lia Bool Arith String.
From Coq Require Import ZifyN ZifyNat ZifyBool.
From Snow Require Import Lib.Wire Model.Base64 Model.Armor Model.ArmorStream.
From Snow Require Import Proofs.Base64Proofs Proofs.ArmorEncProofs Proofs.ArmorDecProofs.
Import ListNotations.
Open Scope N_scope.

(* ------------------------------------------------------------------ decodeToWriter over a token list *)
Lemma dw_toks_cons : forall t x a,
  dw_toks a (t :: x) =
  match w_end (dw_tok a t) with
  | Some _ => dw_tok a t
  | None => let r' := dw_toks (w_act (dw_tok a t)) x in
            {| w_act := w_act r'; w_words := w_words (dw_tok a t) ++ w_words r'; w_end := w_end r' |}
  end.
Proof. reflexivity. Qed.

Lemma dw_toks_app : forall x y a,
  dw_toks a (x ++ y) =
  match w_end (dw_toks a x) with
  | Some _ => dw_toks a x
  | None => {| w_act := w_act (dw_toks (w_act (dw_toks a x)) y);
               w_words := w_words (dw_toks a x) ++ w_words (dw_toks (w_act (dw_toks a x)) y);
               w_end := w_end (dw_toks (w_act (dw_toks a x)) y) |}
  end.
Proof.
  induction x as [|t x IH]; intros y a.
  - cbn [app dw_toks w_end w_act w_words]. destruct (dw_toks a y); reflexivity.
  - change ((t :: x) ++ y) with (t :: (x ++ y)). rewrite !dw_toks_cons.
    destruct (w_end (dw_tok a t)) eqn:E.
    + rewrite E. reflexivity.
    + cbv zeta. cbn [w_end w_act w_words]. rewrite IH.
      destruct (w_end (dw_toks (w_act (dw_tok a t)) x)) eqn:E2.
      * rewrite E2. reflexivity.
      * cbn [w_act w_words w_end]. rewrite app_assoc. reflexivity.
Qed.

Definition is_end (e : pevent) : bool := match e with PEnd _ => true | PW _ => false end.
Definition has_end (q : list pevent) : bool := existsb is_end q.
(* what follows a queue: nothing once decodeToWriter has returned *)
Definition ev_app (q rest : list pevent) : list pevent := if has_end q then q else q ++ rest.

Lemma has_end_words : forall ws, has_end (map PW ws) = false.
Proof. induction ws; [reflexivity|]. cbn. exact IHws. Qed.

Lemma has_end_evs : forall r, has_end (evs_of r) = match w_end r with Some _ => true | None => false end.
Proof.
  intros r. unfold evs_of, has_end. rewrite existsb_app. fold (has_end (map PW (w_words r))).
  rewrite has_end_words. destruct (w_end r); reflexivity.
Qed.

Lemma evs_app : forall x y a,
  evs_of (dw_toks a (x ++ y)) = ev_app (evs_of (dw_toks a x)) (evs_of (dw_toks (w_act (dw_toks a x)) y)).
Proof.
  intros x y a. unfold ev_app. rewrite has_end_evs. rewrite dw_toks_app.
  destruct (w_end (dw_toks a x)) eqn:E; [reflexivity|].
  unfold evs_of. cbn [w_words w_end]. rewrite E. rewrite map_app, app_nil_r, <- app_assoc. reflexivity.
Qed.

Lemma ev_app_nil : forall r, ev_app [] r = r.
Proof. reflexivity. Qed.

Lemma ev_app_assoc : forall a b c, ev_app (ev_app a b) c = ev_app a (ev_app b c).
Proof.
  intros a b c. unfold ev_app. destruct (has_end a) eqn:Ea.
  - rewrite Ea. reflexivity.
  - unfold has_end in *. rewrite existsb_app. fold (has_end a) (has_end b). unfold has_end in Ea |- *. rewrite Ea. cbn [orb].
    destruct (existsb is_end b); [reflexivity|]. rewrite app_assoc. reflexivity.
Qed.

Lemma dw_eof_end : forall x a, w_end (dw_toks a (x ++ [TkEOF])) <> None.
Proof.
  intros x a. rewrite dw_toks_app. destruct (w_end (dw_toks a x)) eqn:E; [congruence|].
  cbn. destruct (w_act (dw_toks a x)); discriminate.
Qed.

(* words are never empty *)
Lemma words_aux_ne : forall l cur, Forall (fun w => w <> []) (words_aux l cur).
Proof.
  induction l as [|c l IH]; intros cur.
  - cbn [words_aux]. destruct cur as [|x cur]; [constructor|]. constructor; [|constructor].
    rewrite rev_append_rev, app_nil_r. cbn [rev]. intros H. apply app_eq_nil in H as [_ H]. discriminate.
  - cbn [words_aux]. destruct (isws c).
    + destruct cur as [|x cur]; [apply IH|]. constructor; [|apply IH].
      rewrite rev_append_rev, app_nil_r. cbn [rev]. intros H. apply app_eq_nil in H as [_ H]. discriminate.
    + apply IH.
Qed.
Lemma cut_long_sub : forall ws, exists k, fst (cut_long ws) = firstn k ws.
Proof.
  induction ws as [|w ws [k IH]]; [exists O; reflexivity|]. cbn [cut_long].
  destruct (TOOLONG <=? _); [exists O; reflexivity|]. destruct (cut_long ws) as [a b]. cbn [fst] in *.
  exists (S k). cbn [firstn]. rewrite IH. reflexivity.
Qed.
Lemma Forall_firstn {A} (P : A -> Prop) : forall k l, Forall P l -> Forall P (firstn k l).
Proof. induction k; intros l H; [constructor|]. destruct l; [constructor|]. inversion H; subst. constructor; auto. Qed.

Definition wne (q : list pevent) : Prop := Forall (fun e => match e with PW w => w <> [] | PEnd _ => True end) q.

Lemma dw_tok_wne : forall a t, Forall (fun w => w <> []) (w_words (dw_tok a t)).
Proof.
  intros a t. destruct t; cbn [dw_tok]; try (destruct (beq _ _)); try (destruct a); cbn [w_words]; try constructor.
  destruct (cut_long_sub (words (text_data k data))) as [n E]. destruct (cut_long _) as [ws long]. cbn [fst] in E. subst ws.
  cbn [w_words]. apply Forall_firstn. apply words_aux_ne.
Qed.
Lemma dw_toks_wne : forall ts a, Forall (fun w => w <> []) (w_words (dw_toks a ts)).
Proof.
  induction ts as [|t ts IH]; intros a; [constructor|]. cbn [dw_toks].
  destruct (w_end (dw_tok a t)); [apply dw_tok_wne|]. cbn [w_words]. apply Forall_app. split; [apply dw_tok_wne|apply IH].
Qed.
Lemma evs_wne : forall a ts, wne (evs_of (dw_toks a ts)).
Proof.
  intros a ts. unfold wne, evs_of. apply Forall_app. split.
  - apply Forall_forall. intros e He. apply in_map_iff in He as (w & <- & Hw).
    pose proof (dw_toks_wne ts a) as F. rewrite Forall_forall in F. apply F. exact Hw.
  - destruct (w_end _); constructor; [exact I|constructor].
Qed.
Lemma wne_ev_app : forall q r, wne q -> wne r -> wne (ev_app q r).
Proof. intros q r Hq Hr. unfold ev_app. destruct (has_end q); [exact Hq|]. apply Forall_app. split; assumption. Qed.

(* ------------------------------------------------------------------ base64: chunk-wise = whole-stream *)
(* no correctly padded quantum before the end of the character stream (the only inputs on which
   base64.NewDecoder's result depends on how its Reads cut the stream) *)
Fixpoint no_ipad (l : bytes) : bool :=
  match l with
  | c0 :: c1 :: c2 :: c3 :: r =>
      match dec6 c0, dec6 c1 with
      | Some _, Some _ =>
          match dec6 c2, dec6 c3 with
          | Some _, Some _ => no_ipad r
          | Some _, None => if c3 =? PAD then match r with [] => true | _ => false end else true
          | None, _ => if (c2 =? PAD) && (c3 =? PAD) then match r with [] => true | _ => false end else true
          end
      | _, _ => true
      end
  | _ => true
  end.

Lemma b64_seq_quantum : forall c0 c1 c2 c3 r,
  b64_decode_seq (c0 :: c1 :: c2 :: c3 :: r) =
  match dec6 c0, dec6 c1 with
  | Some v0, Some v1 =>
      match dec6 c2, dec6 c3 with
      | Some v2, Some v3 => let '(d, e) := b64_decode_seq r in (dec4 v0 v1 v2 v3 ++ d, e)
      | Some v2, None =>
          if (c3 =? PAD) && match r with [] => true | _ => false end
          then ([v0 * 4 + v1 / 16; (v1 mod 16) * 16 + v2 / 4], B64Clean)
          else ([], B64Corrupt)
      | None, _ =>
          if (c2 =? PAD) && (c3 =? PAD) && match r with [] => true | _ => false end
          then ([v0 * 4 + v1 / 16], B64Clean)
          else ([], B64Corrupt)
      end
  | _, _ => ([], B64Corrupt)
  end.
Proof. reflexivity. Qed.

Lemma b64_chunk_quantum : forall c0 c1 c2 c3 r,
  b64_chunk (c0 :: c1 :: c2 :: c3 :: r) =
  match dec6 c0, dec6 c1 with
  | Some v0, Some v1 =>
      match dec6 c2, dec6 c3 with
      | Some v2, Some v3 => let '(d, e) := b64_chunk r in (dec4 v0 v1 v2 v3 ++ d, e)
      | Some v2, None =>
          if c3 =? PAD
          then ([v0 * 4 + v1 / 16; (v1 mod 16) * 16 + v2 / 4], match r with [] => false | _ => true end)
          else ([], true)
      | None, _ =>
          if (c2 =? PAD) && (c3 =? PAD)
          then ([v0 * 4 + v1 / 16], match r with [] => false | _ => true end)
          else ([], true)
      end
  | _, _ => ([], true)
  end.
Proof. reflexivity. Qed.

Lemma no_ipad_quantum : forall c0 c1 c2 c3 r,
  no_ipad (c0 :: c1 :: c2 :: c3 :: r) =
  match dec6 c0, dec6 c1 with
  | Some _, Some _ =>
      match dec6 c2, dec6 c3 with
      | Some _, Some _ => no_ipad r
      | Some _, None => if c3 =? PAD then match r with [] => true | _ => false end else true
      | None, _ => if (c2 =? PAD) && (c3 =? PAD) then match r with [] => true | _ => false end else true
      end
  | _, _ => true
  end.
Proof. reflexivity. Qed.

Lemma app_nil_inv {A} : forall (a b : list A), match a ++ b with [] => true | _ => false end = true -> a = [] /\ b = [].
Proof. intros [|x a] [|y b] H; try discriminate; auto. Qed.

(* Encoding.Decode on a chunk of k quanta that begins the stream [chunk ++ tail] *)
Lemma b64_chunk_strict : forall k chunk tail, List.length chunk = (4 * k)%nat -> no_ipad (chunk ++ tail) = true ->
  let '(data, bad) := b64_chunk chunk in
  if bad then b64_decode_seq (chunk ++ tail) = (data, B64Corrupt)
  else b64_decode_seq (chunk ++ tail) = (data ++ fst (b64_decode_seq tail), snd (b64_decode_seq tail)) /\
       no_ipad tail = true.
Proof.
  induction k as [|k IH]; intros chunk tail Hl Hp.
  - destruct chunk; [|discriminate]. cbn [b64_chunk app]. split; [destruct (b64_decode_seq tail); reflexivity|exact Hp].
  - destruct chunk as [|c0 [|c1 [|c2 [|c3 r]]]]; try (cbn in Hl; lia).
    assert (Hr : List.length r = (4 * k)%nat) by (cbn [List.length] in Hl; lia).
    change ((c0 :: c1 :: c2 :: c3 :: r) ++ tail) with (c0 :: c1 :: c2 :: c3 :: (r ++ tail)) in *.
    rewrite no_ipad_quantum in Hp. rewrite b64_chunk_quantum, b64_seq_quantum.
    destruct (dec6 c0) as [v0|]; [|reflexivity]. destruct (dec6 c1) as [v1|]; [|reflexivity].
    destruct (dec6 c2) as [v2|].
    + destruct (dec6 c3) as [v3|].
      * specialize (IH r tail Hr Hp). destruct (b64_chunk r) as [d bad]. destruct bad.
        -- rewrite IH. reflexivity.
        -- destruct IH as [IH1 IH2]. rewrite IH1. split; [|exact IH2]. rewrite app_assoc. reflexivity.
      * destruct (c3 =? PAD); [|reflexivity]. cbn [andb].
        apply app_nil_inv in Hp as [-> ->]. cbn [app]. split; reflexivity.
    + destruct ((c2 =? PAD) && (c3 =? PAD)); [|reflexivity]. cbn [andb].
      apply app_nil_inv in Hp as [-> ->]. cbn [app]. split; reflexivity.
Qed.

Lemma b64_chunk_len : forall k chunk, List.length chunk = (4 * k)%nat ->
  (List.length (fst (b64_chunk chunk)) <= 3 * k)%nat.
Proof.
  induction k as [|k IH]; intros chunk Hl.
  - destruct chunk; [cbn; lia|discriminate].
  - destruct chunk as [|c0 [|c1 [|c2 [|c3 r]]]]; try (cbn in Hl; lia).
    assert (Hr : List.length r = (4 * k)%nat) by (cbn [List.length] in Hl; lia).
    rewrite b64_chunk_quantum.
    destruct (dec6 c0) as [v0|]; [|cbn; lia]. destruct (dec6 c1) as [v1|]; [|cbn; lia].
    destruct (dec6 c2) as [v2|].
    + destruct (dec6 c3) as [v3|].
      * specialize (IH r Hr). destruct (b64_chunk r) as [d bad]. cbn [fst] in *.
        rewrite app_length. unfold dec4. cbn [List.length]. lia.
      * destruct (c3 =? PAD); cbn; lia.
    + destruct ((c2 =? PAD) && (c3 =? PAD)); cbn; lia.
Qed.

Lemma b64_seq_short : forall l, (List.length l < 4)%nat ->
  b64_decode_seq l = ([], match l with [] => B64Clean | _ => B64Partial end).
Proof. intros [|a [|b [|c [|d l]]]] H; try reflexivity. cbn in H. lia. Qed.

(* how a Read that reports an end reports it *)
Definition end_of (st : b64end) (e : tend) : rend :=
  match st, e with
  | B64Corrupt, _ => RErr EBadBase64
  | B64Clean, TEnd => REOF
  | B64Partial, TEnd => RErr EBadBase64
  | _, TErr e => RErr e
  end.

Fixpoint chars (f : list pevent) : bytes := match f with PW w :: f' => w ++ chars f' | _ => [] end.
Fixpoint fend (f : list pevent) : tend := match f with PW _ :: f' => fend f' | PEnd e :: _ => e | [] => TEnd end.

Definition prefix (a b : bytes) : Prop := exists r, b = a ++ r.

Lemma clamp_ge4 : forall n, (4 <= clamp_nn n <= 1024)%nat.
Proof.
  intros n. unfold clamp_nn. destruct (Nat.ltb (n / 3 * 4) 4) eqn:A; [lia|].
  destruct (Nat.ltb 1024 (n / 3 * 4)) eqn:B; [lia|]. apply Nat.ltb_ge in A, B. lia.
Qed.

Lemma div4 : forall n, exists k, (n / 4 * 4 = 4 * k)%nat /\ (n / 4 * 4 <= n)%nat /\ (n - n / 4 * 4 < 4)%nat /\ (n / 4 * 4 / 4 * 3 = 3 * k)%nat.
Proof.
  intros n. exists (n / 4)%nat. pose proof (Nat.div_mod n 4 ltac:(lia)). pose proof (Nat.mod_upper_bound n 4 ltac:(lia)).
  rewrite Nat.div_mul by lia. lia.
Qed.


Section StreamProofs.
  Variable T : Type.
  Variable tinit : T.
  Variable tfeed : T -> N -> T * list tok.
  Variable tfin : T -> list tok.

  Notation prod := (prod T).
  Notation dec := (dec T).
  Notation fill_cur := (fill_cur T tfeed).
  Notation fill_src := (fill_src T tfeed).
  Notation p_fill := (p_fill T tfeed tfin).
  Notation pipe_read := (pipe_read T tfeed tfin).
  Notation p_close := (p_close T tfeed tfin).
  Notation refill := (refill T tfeed tfin).
  Notation dec_read0 := (dec_read0 T tfeed tfin).
  Notation dec_read := (dec_read T tfeed tfin).
  Notation dec_new := (dec_new T tinit tfeed tfin).
  Notation set_q := (set_q T).

  (* the tokens Next returns from tokenizer state [t] on the input [l], then on end of input *)
  Fixpoint toks_of (t : T) (l : bytes) : list tok :=
    match l with
    | [] => tfin t ++ [TkEOF]
    | c :: l' => let '(t', ts) := tfeed t c in ts ++ toks_of t' l'
    end.

  (* everything the pipe will carry from there on: a function of the BYTES still to come, not of the
     way the source's Reads cut them *)
  Definition events_of (act : bool) (t : T) (l : bytes) : list pevent := evs_of (dw_toks act (toks_of t l)).

  Lemma toks_of_eof : forall l t, exists x, toks_of t l = x ++ [TkEOF].
  Proof.
    induction l as [|c l IH]; intros t.
    - exists (tfin t). reflexivity.
    - cbn [toks_of]. destruct (tfeed t c) as [t' ts]. destruct (IH t') as [x E]. exists (ts ++ x). rewrite E, app_assoc. reflexivity.
  Qed.

  Lemma events_has_end : forall a t l, has_end (events_of a t l) = true.
  Proof.
    intros a t l. unfold events_of. rewrite has_end_evs. destruct (toks_of_eof l t) as [x ->].
    pose proof (dw_eof_end x a). destruct (w_end _); [reflexivity|congruence].
  Qed.

  Lemma events_cons : forall a t c l,
    events_of a t (c :: l) =
    let '(t', ts) := tfeed t c in
    ev_app (evs_of (dw_toks a ts)) (events_of (w_act (dw_toks a ts)) t' l).
  Proof. intros. unfold events_of. cbn [toks_of]. destruct (tfeed t c) as [t' ts]. apply evs_app. Qed.

  (* ---------------------------------------------------------------- the producer *)
  Definition future (p : prod) : list pevent :=
    ev_app (p_q p) (events_of (p_act p) (p_tk p) (p_cur p ++ List.concat (p_src p))).

  Lemma fill_cur_spec : forall cur t act rest,
    let '(t', act', cur', evs) := fill_cur t act cur in
    events_of act t (cur ++ rest) = ev_app evs (events_of act' t' (cur' ++ rest)) /\
    (evs = [] -> cur' = []) /\ (List.length cur' <= List.length cur)%nat /\ wne evs.
  Proof.
    induction cur as [|c cur IH]; intros t act rest.
    - cbn [fill_cur app]. split; [reflexivity|]. split; [reflexivity|]. split; [lia|constructor].
    - cbn [fill_cur app]. rewrite events_cons. destruct (tfeed t c) as [t1 ts].
      destruct (evs_of (dw_toks act ts)) as [|e evs] eqn:E.
      + specialize (IH t1 (w_act (dw_toks act ts)) rest).
        destruct (fill_cur t1 (w_act (dw_toks act ts)) cur) as [[[t' act'] cur'] evs'].
        destruct IH as (I1 & I2 & I3 & I4). rewrite ev_app_nil. split; [exact I1|]. split; [exact I2|].
        split; [cbn [List.length]; lia|exact I4].
      + split; [reflexivity|]. split; [discriminate|]. split; [cbn [List.length]; lia|].
        rewrite <- E. apply evs_wne.
  Qed.

  Lemma fill_src_spec : forall src t act n,
    let '(t', act', src', cur', evs, n') := fill_src t act src n in
    events_of act t (List.concat src) = ev_app evs (events_of act' t' (cur' ++ List.concat src')) /\
    (evs = [] -> cur' = [] /\ src' = []) /\ wne evs /\
    (exists pre, src = pre ++ src' /\ (cur' = [] \/ exists ch, last pre [] = ch /\ In ch pre /\ (List.length cur' <= List.length ch)%nat)) .
  Proof.
    induction src as [|ch src IH]; intros t act n.
    - cbn [fill_src List.concat app]. split; [reflexivity|]. split; [auto|]. split; [constructor|].
      exists []. split; [reflexivity|left; reflexivity].
    - cbn [fill_src List.concat].
      pose proof (fill_cur_spec ch t act (List.concat src)) as F.
      destruct (fill_cur t act ch) as [[[t1 a1] cur1] ev1]. destruct F as (F1 & F2 & F3 & F4).
      destruct ev1 as [|e ev1].
      + specialize (F2 eq_refl). subst cur1. cbn [app] in F1. rewrite ev_app_nil in F1.
        specialize (IH t1 a1 (n + N.of_nat (List.length ch))).
        destruct (fill_src t1 a1 src (n + N.of_nat (List.length ch))) as [[[[[t' act'] src'] cur'] evs] n'].
        destruct IH as (I1 & I2 & I3 & (pre & I4 & I5)). split; [rewrite F1; exact I1|]. split; [exact I2|]. split; [exact I3|].
        exists (ch :: pre). split; [rewrite I4; reflexivity|].
        destruct I5 as [I5 | (c2 & L & Hin & Hl)]; [left; exact I5|].
        right. destruct pre as [|x pre]; [destruct Hin|].
        exists c2. split; [exact L|]. split; [right; exact Hin|exact Hl].
      + split; [exact F1|]. split; [discriminate|]. split; [exact F4|].
        exists [ch]. split; [reflexivity|]. right. exists ch. split; [reflexivity|]. split; [left; reflexivity|exact F3].
  Qed.

  Lemma p_fill_future : forall p, future (p_fill p) = future p.
  Proof.
    intros p. unfold p_fill. destruct (p_q p) as [|e q] eqn:Q; [|reflexivity].
    unfold future at 2. rewrite Q, ev_app_nil.
    pose proof (fill_cur_spec (p_cur p) (p_tk p) (p_act p) (List.concat (p_src p))) as F.
    destruct (fill_cur (p_tk p) (p_act p) (p_cur p)) as [[[t1 a1] cur1] ev1]. destruct F as (F1 & F2 & _).
    destruct ev1 as [|e1 ev1].
    - specialize (F2 eq_refl). subst cur1. rewrite ev_app_nil in F1. cbn [app] in F1.
      pose proof (fill_src_spec (p_src p) t1 a1 (p_consumed p)) as G.
      destruct (fill_src t1 a1 (p_src p) (p_consumed p)) as [[[[[t2 a2] src2] cur2] ev2] n2].
      destruct G as (G1 & G2 & _). destruct ev2 as [|e2 ev2].
      + destruct (G2 eq_refl) as [-> ->]. rewrite ev_app_nil in G1. cbn [app List.concat] in G1.
        unfold future. cbn [p_q p_act p_tk p_cur p_src]. rewrite F1, G1. unfold events_of at 2. cbn [toks_of].
        unfold ev_app. rewrite has_end_evs.
        pose proof (dw_eof_end (tfin t2) a2). destruct (w_end _); [reflexivity|congruence].
      + unfold future. cbn [p_q p_act p_tk p_cur p_src]. rewrite F1, G1. reflexivity.
    - unfold future. cbn [p_q p_act p_tk p_cur p_src]. exact (eq_sym F1).
  Qed.

  Lemma p_fill_nonempty : forall p, p_q (p_fill p) <> [].
  Proof.
    intros p. unfold p_fill. destruct (p_q p) as [|e q] eqn:Q; [|rewrite Q; discriminate].
    destruct (fill_cur (p_tk p) (p_act p) (p_cur p)) as [[[t1 a1] cur1] ev1].
    destruct ev1 as [|e1 ev1]; [|cbn [p_q]; discriminate].
    destruct (fill_src t1 a1 (p_src p) (p_consumed p)) as [[[[[t2 a2] src2] cur2] ev2] n2].
    destruct ev2 as [|e2 ev2]; [|cbn [p_q]; discriminate].
    cbn [p_q]. intros H. pose proof (has_end_evs (dw_toks a2 (tfin t2 ++ [TkEOF]))) as E. rewrite H in E.
    pose proof (dw_eof_end (tfin t2) a2). destruct (w_end _); [discriminate|congruence].
  Qed.

  Lemma p_fill_idem : forall p, p_q p <> [] -> p_fill p = p.
  Proof. intros p H. unfold p_fill. destruct (p_q p); [congruence|reflexivity]. Qed.

  Lemma future_has_end : forall p, has_end (future p) = true.
  Proof.
    intros p. unfold future, ev_app. destruct (has_end (p_q p)) eqn:E; [exact E|].
    unfold has_end. rewrite existsb_app. fold (has_end (p_q p)). rewrite E. apply events_has_end.
  Qed.

  (* the queue is the beginning of the future *)
  Lemma future_head : forall p e q, p_q p = e :: q ->
    future p = e :: ev_app q (if is_end e then [] else events_of (p_act p) (p_tk p) (p_cur p ++ List.concat (p_src p))).
  Proof.
    intros p e q Q. unfold future. rewrite Q. unfold ev_app. cbn [has_end existsb]. fold (has_end q).
    destruct e as [w|e]; cbn [is_end orb].
    - destruct (has_end q); reflexivity.
    - destruct (has_end q); [reflexivity|]. rewrite app_nil_r. reflexivity.
  Qed.

  (* a Read of the pipe, in terms of the future *)
  Lemma pipe_read_spec : forall k p,
    match future p with
    | PW w :: f => exists p', pipe_read k p = (PData (firstn k w), p') /\
                              future p' = match skipn k w with [] => f | w' => PW w' :: f end
    | PEnd e :: f => exists p', pipe_read k p = (PClosed e, p') /\ future p' = future p /\ p_q p' = PEnd e :: tl (p_q p')
    | [] => False
    end.
  Proof.
    intros k p. rewrite <- (p_fill_future p). unfold pipe_read.
    pose proof (p_fill_nonempty p) as NE. set (p1 := p_fill p) in *.
    destruct (p_q p1) as [|e q] eqn:Q; [congruence|].
    rewrite (future_head p1 e q Q). destruct e as [w|e]; cbn [is_end].
    - eexists. split; [reflexivity|]. unfold future, set_q. cbn [p_q p_act p_tk p_cur p_src].
      destruct (skipn k w) as [|x w'] eqn:S; [reflexivity|].
      unfold ev_app. cbn [has_end existsb is_end orb]. fold (has_end q). destruct (has_end q); reflexivity.
    - exists p1. split; [reflexivity|]. split; [rewrite (future_head p1 (PEnd e) q Q); reflexivity|].
      rewrite Q. reflexivity.
  Qed.

  (* the chunks in which the source delivers the document do not matter *)
  Lemma future_init : forall chunks,
    future (p_init T tinit chunks) = events_of false tinit (List.concat chunks).
  Proof. intros. reflexivity. Qed.

  (* ---------------------------------------------------------------- the consumer *)
  Definition returned (p : prod) : Prop := exists e q, p_q p = PEnd e :: q.

  Lemma wne_after_read : forall k w f, wne (PW w :: f) -> wne (match skipn k w with [] => f | w' => PW w' :: f end).
  Proof.
    intros k w f H. inversion H as [|? ? Hw Hf]; subst. destruct (skipn k w) eqn:E; [exact Hf|].
    constructor; [discriminate|exact Hf].
  Qed.

  Lemma refill_spec : forall fuel target nbuf p,
    (4 <= fuel + List.length nbuf)%nat -> (4 <= target)%nat -> wne (future p) ->
    let '(nbuf', rerr', p') := refill fuel target nbuf None p in
    nbuf' ++ chars (future p') = nbuf ++ chars (future p) /\ fend (future p') = fend (future p) /\ wne (future p') /\
    (List.length nbuf' <= Nat.max (List.length nbuf) target)%nat /\
    (((4 <= List.length nbuf')%nat /\ rerr' = None) \/
     ((List.length nbuf' < 4)%nat /\ rerr' = Some (fend (future p)) /\ chars (future p') = [] /\ returned p')).
  Proof.
    induction fuel as [|fuel IH]; intros target nbuf p Hf Ht Hw.
    - cbn [refill]. repeat split; try assumption; try lia. left. split; [cbn in Hf; lia|reflexivity].
    - cbn [refill]. destruct (Nat.ltb (List.length nbuf) 4) eqn:L.
      + apply Nat.ltb_lt in L.
        pose proof (pipe_read_spec (target - List.length nbuf) p) as R.
        destruct (future p) as [|[w|e] f] eqn:F; [destruct R| |].
        * destruct R as (p' & R1 & R2). rewrite R1.
          inversion Hw as [|? ? Hwne Hf']; subst.
          assert (Hb : firstn (target - List.length nbuf) w <> []).
          { destruct w; [congruence|]. destruct (target - List.length nbuf)%nat eqn:K; [lia|]. cbn. discriminate. }
          assert (Hlen : (List.length (firstn (target - List.length nbuf) w) <= target - List.length nbuf)%nat)
            by apply firstn_le_length.
          assert (Hpos : (1 <= List.length (firstn (target - List.length nbuf) w))%nat)
            by (destruct (firstn (target - List.length nbuf) w); [congruence|cbn; lia]).
          specialize (IH target (nbuf ++ firstn (target - List.length nbuf) w) p').
          rewrite app_length in IH. specialize (IH ltac:(lia) Ht).
          assert (Hw' : wne (future p')) by (rewrite R2; apply wne_after_read; exact Hw).
          specialize (IH Hw').
          destruct (refill fuel target (nbuf ++ firstn (target - List.length nbuf) w) None p') as [[nbuf' rerr'] p''].
          destruct IH as (I1 & I2 & I3 & I4 & I5).
          assert (C : firstn (target - List.length nbuf) w ++ chars (future p') = w ++ chars f).
          { rewrite R2. destruct (skipn (target - List.length nbuf) w) eqn:S.
            - rewrite <- (firstn_skipn (target - List.length nbuf) w) at 2. rewrite S, app_nil_r. reflexivity.
            - cbn [chars]. rewrite <- S. rewrite app_assoc, firstn_skipn. reflexivity. }
          assert (E : fend (future p') = fend f).
          { rewrite R2. destruct (skipn (target - List.length nbuf) w); reflexivity. }
          split; [rewrite I1, <- app_assoc, C; reflexivity|]. cbn [chars fend].
          split; [rewrite I2; exact E|]. split; [exact I3|]. split; [lia|].
          destruct I5 as [I5 | (A & B & C' & D)]; [left; exact I5|]. right. repeat split; try assumption.
          rewrite B, E. reflexivity.
        * destruct R as (p' & R1 & R2 & R3). rewrite R1. rewrite R2. cbn [chars fend].
          repeat split; try assumption; try lia.
          right. repeat split; try lia. eexists _, _. exact R3.
      + apply Nat.ltb_ge in L. repeat split; try assumption; try lia. left. split; [lia|reflexivity].
  Qed.

  Definition cinv (d : dec) : Prop :=
    c_err (d_c d) = None /\ c_rerr (d_c d) = None /\ (List.length (c_nbuf (d_c d)) < 4)%nat /\ wne (future (d_p d)).
  (* the base64 characters not decoded yet, and how the pipe will end *)
  Definition rem (d : dec) : bytes := c_nbuf (d_c d) ++ chars (future (d_p d)).
  Definition pend (d : dec) : tend := fend (future (d_p d)).
  Definition meas (d : dec) : nat := (List.length (c_out (d_c d)) + List.length (rem d))%nat.

  (* one Read *)
  Lemma dec_read0_spec : forall n d, cinv d -> (1 <= n)%nat -> no_ipad (rem d) = true ->
    let '((b, e), d') := dec_read0 n d in
    let '(ds, st) := b64_decode_seq (rem d) in
    match e with
    | None =>
        cinv d' /\ pend d' = pend d /\ no_ipad (rem d') = true /\ (meas d' < meas d)%nat /\
        (exists pre, ds = pre ++ fst (b64_decode_seq (rem d')) /\ c_out (d_c d) ++ pre = b ++ c_out (d_c d')) /\
        snd (b64_decode_seq (rem d')) = st
    | Some E =>
        c_out (d_c d) = [] /\ E = end_of st (pend d) /\ prefix b ds /\ (st <> B64Corrupt -> b = ds) /\
        (E = REOF -> returned (d_p d'))
    end.
  Proof.
    intros n [c p] (C1 & C2 & C3 & C4) Hn Hp. unfold dec_read0, meas, rem, pend in *. cbn [d_c d_p] in *.
    destruct (c_out c) as [|x out] eqn:O.
    - rewrite C1.
      pose proof (refill_spec 4 (clamp_nn n) (c_nbuf c) p ltac:(lia) (proj1 (clamp_ge4 n)) C4) as R.
      rewrite C2. destruct (refill 4 (clamp_nn n) (c_nbuf c) None p) as [[nbuf rerr] p'].
      destruct R as (R1 & R2 & R3 & R4 & R5).
      rewrite <- R1 in *. rewrite <- R2.
      destruct R5 as [(L & ->) | (L & -> & Ch & Ret)].
      + (* at least one quantum *)
        replace (Nat.ltb (List.length nbuf) 4) with false by (symmetry; apply Nat.ltb_ge; exact L).
        destruct (div4 (List.length nbuf)) as (k & K1 & K2 & K3 & K4).
        set (nr := (List.length nbuf / 4 * 4)%nat) in *.
        assert (Hsplit : nbuf ++ chars (future p') = firstn nr nbuf ++ (skipn nr nbuf ++ chars (future p')))
          by (rewrite app_assoc, firstn_skipn; reflexivity).
        rewrite Hsplit in *.
        assert (Hcl : List.length (firstn nr nbuf) = (4 * k)%nat) by (rewrite firstn_length; lia).
        pose proof (b64_chunk_strict k (firstn nr nbuf) (skipn nr nbuf ++ chars (future p')) Hcl Hp) as S.
        pose proof (b64_chunk_len k (firstn nr nbuf) Hcl) as Ln.
        destruct (b64_chunk (firstn nr nbuf)) as [data bad]. cbn [fst] in Ln. destruct bad.
        * (* corrupt *)
          rewrite S. destruct (Nat.ltb n (nr / 4 * 3)); cbn [d_c d_p c_out].
          -- split; [reflexivity|]. split; [reflexivity|]. split; [exists (skipn n data); symmetry; apply firstn_skipn|].
             split; [congruence|discriminate].
          -- split; [reflexivity|]. split; [reflexivity|]. split; [exists []; rewrite app_nil_r; reflexivity|].
             split; [reflexivity|discriminate].
        * destruct S as [S1 S2]. rewrite S1.
          assert (Lsk : (List.length (skipn nr nbuf) < 4)%nat) by (rewrite skipn_length; lia).
          assert (Hk : (1 <= k)%nat) by lia.
          destruct (Nat.ltb n (nr / 4 * 3)) eqn:NW; cbn [d_c d_p c_out c_err c_rerr c_nbuf].
          -- repeat split; try assumption.
             ++ cbn [List.length]. rewrite (app_length (firstn nr nbuf)), Hcl, (skipn_length n data). lia.
             ++ exists data. split; [reflexivity|]. cbn [app]. rewrite firstn_skipn. reflexivity.
          -- repeat split; try assumption.
             ++ cbn [List.length]. rewrite (app_length (firstn nr nbuf)), Hcl. lia.
             ++ exists data. split; [reflexivity|]. cbn [app]. rewrite app_nil_r. reflexivity.
      + (* the pipe is closed with fewer than 4 characters left *)
        replace (Nat.ltb (List.length nbuf) 4) with true by (symmetry; apply Nat.ltb_lt; exact L).
        rewrite Ch, app_nil_r. rewrite (b64_seq_short nbuf L). cbn [d_c d_p c_out].
        split; [reflexivity|]. split.
        { rewrite <- R2. destruct (fend (future p')) as [|e']; destruct nbuf; reflexivity. }
        split; [exists []; reflexivity|]. split; [reflexivity|]. intros _. exact Ret.
    - (* left-over output of the previous Read *)
      cbn [d_c d_p c_out c_err c_rerr c_nbuf]. destruct (b64_decode_seq (c_nbuf c ++ chars (future p))) as [ds st].
      repeat split; try assumption.
      + assert (List.length (skipn n (x :: out)) < List.length (x :: out))%nat.
        { rewrite skipn_length. cbn [List.length]. lia. }
        lia.
      + exists []. cbn [fst]. split; [reflexivity|]. rewrite app_nil_r, firstn_skipn. reflexivity.
  Qed.


  Lemma rev_append_app : forall (b acc : bytes), rev_append (rev_append b acc) [] = rev_append acc [] ++ b.
  Proof. intros. rewrite !rev_append_rev, !app_nil_r, rev_app_distr, rev_involutive. reflexivity. Qed.

  (* the caller's loop: every sequence of buffer sizes gives the whole-stream result *)
  Lemma read_all0_spec : forall fuel sz i d acc,
    (forall j, (1 <= sz j)%nat) -> cinv d -> no_ipad (rem d) = true -> (meas d < fuel)%nat ->
    exists b d' x,
      read_all T dec_read0 fuel sz i d acc = (b, Some (end_of (snd (b64_decode_seq (rem d))) (pend d)), d') /\
      b = rev_append acc [] ++ c_out (d_c d) ++ x /\ prefix x (fst (b64_decode_seq (rem d))) /\
      (snd (b64_decode_seq (rem d)) <> B64Corrupt -> x = fst (b64_decode_seq (rem d))) /\
      (end_of (snd (b64_decode_seq (rem d))) (pend d) = REOF -> returned (d_p d')).
  Proof.
    induction fuel as [|fuel IH]; intros sz i d acc Hsz Hc Hp Hm; [lia|].
    cbn [read_all]. pose proof (dec_read0_spec (sz i) d Hc (Hsz i) Hp) as S.
    destruct (dec_read0 (sz i) d) as [[b e] d1]. destruct (b64_decode_seq (rem d)) as [ds st] eqn:Eds. cbn [fst snd].
    destruct e as [E|].
    - destruct S as (S1 & S2 & S3 & S4 & S5). exists (rev_append (rev_append b acc) []), d1, b.
      split; [rewrite S2; reflexivity|]. split; [rewrite S1, rev_append_app; reflexivity|].
      split; [exact S3|]. split; [exact S4|]. rewrite <- S2. exact S5.
    - destruct S as (S1 & S2 & S3 & S4 & (pre & S5 & S6) & S7).
      destruct (IH sz (N.succ i) d1 (rev_append b acc) Hsz S1 S3 ltac:(lia)) as (b' & d' & x & R1 & R2 & R3 & R4 & R5).
      rewrite S7, S2 in R1, R5. exists b', d', (pre ++ x).
      split; [exact R1|]. split.
      { rewrite R2, rev_append_app. rewrite <- !app_assoc. f_equal. rewrite (app_assoc (c_out (d_c d))), S6, <- app_assoc. reflexivity. }
      split.
      { destruct R3 as [r R3]. exists r. rewrite S5, R3, app_assoc. reflexivity. }
      split; [|exact R5].
      intros Hst. rewrite S7 in R4. rewrite (R4 Hst), S5. reflexivity.
  Qed.


  (* ---------------------------------------------------------------- termination on ARBITRARY input *)
  (* without any condition on the padding: a Read reports an end, or what is left shrinks *)
  Lemma dec_read0_progress : forall n d, cinv d -> (1 <= n)%nat ->
    let '((b, e), d') := dec_read0 n d in
    match e with
    | None => cinv d' /\ (meas d' < meas d)%nat
    | Some _ => True
    end.
  Proof.
    intros n [c p] (C1 & C2 & C3 & C4) Hn. unfold dec_read0, meas, rem in *. cbn [d_c d_p] in *.
    destruct (c_out c) as [|x out] eqn:O.
    - rewrite C1.
      pose proof (refill_spec 4 (clamp_nn n) (c_nbuf c) p ltac:(lia) (proj1 (clamp_ge4 n)) C4) as R.
      rewrite C2. destruct (refill 4 (clamp_nn n) (c_nbuf c) None p) as [[nbuf rerr] p'].
      destruct R as (R1 & R2 & R3 & R4 & R5). rewrite <- R1.
      destruct R5 as [(L & ->) | (L & -> & Ch & Ret)].
      + replace (Nat.ltb (List.length nbuf) 4) with false by (symmetry; apply Nat.ltb_ge; exact L).
        destruct (div4 (List.length nbuf)) as (k & K1 & K2 & K3 & K4).
        set (nr := (List.length nbuf / 4 * 4)%nat) in *.
        assert (Hcl : List.length (firstn nr nbuf) = (4 * k)%nat) by (rewrite firstn_length; lia).
        pose proof (b64_chunk_len k (firstn nr nbuf) Hcl) as Ln.
        destruct (b64_chunk (firstn nr nbuf)) as [data bad]. cbn [fst] in Ln.
        assert (Lsk : (List.length (skipn nr nbuf) < 4)%nat) by (rewrite skipn_length; lia).
        assert (Hk : (1 <= k)%nat) by lia.
        assert (Hnb : List.length nbuf = (4 * k + List.length (skipn nr nbuf))%nat) by (rewrite skipn_length; lia).
        destruct bad; destruct (Nat.ltb n (nr / 4 * 3)); cbn [d_c d_p c_out c_err c_rerr c_nbuf]; try exact I.
        * split; [repeat split; assumption|]. rewrite !app_length, (skipn_length n data), Hnb. cbn [List.length]. lia.
        * split; [repeat split; assumption|]. rewrite !app_length, Hnb. cbn [List.length]. lia.
      + replace (Nat.ltb (List.length nbuf) 4) with true by (symmetry; apply Nat.ltb_lt; exact L). exact I.
    - cbn [d_c d_p c_out c_err c_rerr c_nbuf]. split; [repeat split; assumption|].
      assert (List.length (skipn n (x :: out)) < List.length (x :: out))%nat.
      { rewrite skipn_length. cbn [List.length]. lia. }
      lia.
  Qed.

  Lemma read_all0_total : forall fuel sz i d acc,
    (forall j, (1 <= sz j)%nat) -> cinv d -> (meas d < fuel)%nat ->
    exists b e d', read_all T dec_read0 fuel sz i d acc = (b, Some e, d').
  Proof.
    induction fuel as [|fuel IH]; intros sz i d acc Hsz Hc Hm; [lia|].
    cbn [read_all]. pose proof (dec_read0_progress (sz i) d Hc (Hsz i)) as S.
    destruct (dec_read0 (sz i) d) as [[b e] d1]. destruct e as [e|].
    - eexists _, _, _. reflexivity.
    - destruct S as [S1 S2]. apply IH; [exact Hsz|exact S1|lia].
  Qed.

  (* ---------------------------------------------------------------- the fix: close the pipe on error *)
  Lemma p_close_returned : forall e p, returned (p_close e p).
  Proof.
    intros e p. unfold p_close, returned. destruct (p_q (p_fill p)) as [|[w|e'] q] eqn:Q.
    - eexists _, _. reflexivity.
    - eexists _, _. reflexivity.
    - eexists _, _. exact Q.
  Qed.

  Lemma returned_not_stuck : forall p, returned p -> p_stuck T tfeed tfin p = false.
  Proof.
    intros p (e & q & Q). unfold p_stuck. rewrite p_fill_idem by (rewrite Q; discriminate).
    unfold p_returned. rewrite Q. reflexivity.
  Qed.

  Lemma read_all_fixed : forall fuel sz i d acc b e d',
    read_all T dec_read0 fuel sz i d acc = (b, e, d') ->
    exists d'', read_all T dec_read fuel sz i d acc = (b, e, d'') /\
      match e with Some (RErr _) => returned (d_p d'') | _ => d'' = d' end.
  Proof.
    induction fuel as [|fuel IH]; intros sz i d acc b e d' H.
    - cbn [read_all] in *. injection H as <- <- <-. eexists. split; reflexivity.
    - cbn [read_all] in *. unfold dec_read at 1. destruct (dec_read0 (sz i) d) as [[b1 e1] d1].
      cbn [snd]. destruct e1 as [[|x]|].
      + injection H as <- <- <-. eexists. split; reflexivity.
      + injection H as <- <- <-. eexists. split; [reflexivity|]. cbn [d_p]. apply p_close_returned.
      + apply IH. exact H.
  Qed.

  (* ---------------------------------------------------------------- NewArmorDecoder and the whole run *)
  Lemma chars_nil : forall f, wne f -> has_end f = true -> chars f = [] -> exists e f', f = PEnd e :: f'.
  Proof.
    intros [|[w|e] f] Hw He Hc; [discriminate| |eexists _, _; reflexivity].
    inversion Hw; subst. cbn [chars] in Hc. apply app_eq_nil in Hc as [-> _]. congruence.
  Qed.

  Lemma events_wne : forall a t l, wne (events_of a t l).
  Proof. intros. apply evs_wne. Qed.

  Definition fixed_ok (r : sres T) (F : list pevent) : Prop :=
    match decode_result (chars F, fend F) with
    | DOk d => s_data r = d /\ s_end r = Some REOF
    | DErr e => s_end r = Some (RErr e) /\ prefix (s_data r) (fst (b64_decode_seq (tl (chars F))))
    end.

  Lemma end_of_class : forall body t,
    match b64_decode_seq body, t with
    | (_, B64Corrupt), _ => end_of (snd (b64_decode_seq body)) t = RErr EBadBase64
    | (d, B64Clean), TEnd => end_of (snd (b64_decode_seq body)) t = REOF
    | (_, B64Partial), TEnd => end_of (snd (b64_decode_seq body)) t = RErr EBadBase64
    | (_, _), TErr e => end_of (snd (b64_decode_seq body)) t = RErr e
    end.
  Proof. intros body t. destruct (b64_decode_seq body) as [d [| |]]; destruct t; reflexivity. Qed.

  (* the result with the pinned read function [dec_read0] and with the fixed one *)
  Lemma stream_decode_generic : forall rd chunks sz fuel,
    (forall j, (1 <= sz j)%nat) ->
    (forall fuel sz i d acc b e d', read_all T dec_read0 fuel sz i d acc = (b, e, d') ->
       exists d'', read_all T rd fuel sz i d acc = (b, e, d'')) ->
    let F := events_of false tinit (List.concat chunks) in
    no_ipad (tl (chars F)) = true -> (List.length (chars F) < fuel)%nat ->
    fixed_ok (stream_decode_with T tinit tfeed tfin rd chunks sz fuel) F.
  Proof.
    intros rd chunks sz fuel Hsz Hrd F Hp Hf. unfold fixed_ok, stream_decode_with, dec_new.
    pose proof (pipe_read_spec 1 (p_init T tinit chunks)) as R. rewrite future_init in R. fold F in R.
    pose proof (events_wne false tinit (List.concat chunks)) as W. fold F in W.
    destruct F as [|[w|e] f] eqn:EF; [destruct R| |].
    - destruct R as (p1 & R1 & R2). rewrite R1. inversion W as [|? ? Hw Wf]; subst.
      destruct w as [|v w]; [congruence|]. cbn [firstn chars fend tl app] in *.
      unfold decode_result. destruct (v =? VERSION) eqn:V; cbn [negb].
      + assert (Hrem : chars (future p1) = w ++ chars f).
        { rewrite R2. cbn [skipn]. destruct w; reflexivity. }
        assert (Hend : fend (future p1) = fend f).
        { rewrite R2. cbn [skipn]. destruct w; reflexivity. }
        set (d0 := {| d_c := cons0; d_p := p1 |}).
        assert (Hc : cinv d0).
        { unfold cinv, d0. cbn [d_c d_p cons0 c_err c_rerr c_nbuf List.length]. repeat split; try lia.
          rewrite R2. cbn [skipn]. destruct w; [exact Wf|]. constructor; [discriminate|exact Wf]. }
        assert (Hr : rem d0 = w ++ chars f) by (unfold rem, d0; cbn [d_c d_p cons0 c_nbuf app]; exact Hrem).
        assert (Hpe : pend d0 = fend f) by (unfold pend, d0; cbn [d_p]; exact Hend).
        destruct (read_all0_spec fuel sz 0 d0 [] Hsz Hc ltac:(rewrite Hr; exact Hp)
                    ltac:(unfold meas; rewrite Hr; unfold d0; cbn [d_c cons0 c_out List.length]; cbn [List.length] in Hf; lia))
          as (b & d' & x & A1 & A2 & A3 & A4 & A5).
        destruct (Hrd _ _ _ _ _ _ _ _ A1) as (d'' & A1'). rewrite A1'. cbn [s_data s_end].
        rewrite Hr, Hpe in *. cbn [rev_append app] in A2. unfold d0 in A2. cbn [d_c cons0 c_out app] in A2. subst b.
        pose proof (end_of_class (w ++ chars f) (fend f)) as C.
        destruct (b64_decode_seq (w ++ chars f)) as [ds [| |]] eqn:Eds; cbn [fst snd] in *; destruct (fend f) as [|e'];
          rewrite C; first [ split; [apply A4; discriminate|reflexivity] | split; [reflexivity|exact A3] ].
      + cbn [s_data s_end]. split; [reflexivity|]. exists (fst (b64_decode_seq (w ++ chars f))). reflexivity.
    - destruct R as (p1 & R1 & _). rewrite R1. cbn [chars fend]. unfold decode_result.
      destruct e as [|e]; cbn [s_data s_end]; (split; [reflexivity|]); exists (fst (b64_decode_seq (tl []))); reflexivity.
  Qed.

  (* arbitrary documents (any padding): the caller's loop ends, after at most one Read per character that
     reached the pipe *)
  Theorem stream_decode_total : forall chunks sz fuel,
    (forall j, (1 <= sz j)%nat) ->
    (List.length (chars (events_of false tinit (List.concat chunks))) < fuel)%nat ->
    s_end (stream_decode T tinit tfeed tfin chunks sz fuel) <> None.
  Proof.
    intros chunks sz fuel Hsz Hf. unfold stream_decode, stream_decode_with, dec_new.
    pose proof (pipe_read_spec 1 (p_init T tinit chunks)) as R. rewrite future_init in R.
    pose proof (events_wne false tinit (List.concat chunks)) as W.
    destruct (events_of false tinit (List.concat chunks)) as [|[w|e] f] eqn:EF; [destruct R| |].
    - destruct R as (p1 & R1 & R2). rewrite R1. inversion W as [|? ? Hw Wf]; subst.
      destruct w as [|v w]; [congruence|]. cbn [firstn chars] in *.
      destruct (v =? VERSION); [|cbn; discriminate].
      set (d0 := {| d_c := cons0; d_p := p1 |}).
      assert (Hc : cinv d0).
      { unfold cinv, d0. cbn [d_c d_p cons0 c_err c_rerr c_nbuf List.length]. repeat split; try lia.
        rewrite R2. cbn [skipn]. destruct w; [exact Wf|]. constructor; [discriminate|exact Wf]. }
      assert (Hm : (meas d0 < fuel)%nat).
      { unfold meas, rem, d0. cbn [d_c d_p cons0 c_out c_nbuf List.length app]. rewrite R2. cbn [skipn].
        cbn [app List.length] in Hf. rewrite app_length in Hf. destruct w; cbn [chars]; rewrite ?app_length; cbn [List.length] in *; lia. }
      destruct (read_all0_total fuel sz 0 d0 [] Hsz Hc Hm) as (b & e & d' & A).
      destruct (read_all_fixed _ _ _ _ _ _ _ _ A) as (d'' & A' & _). fold d0. rewrite A'. cbn. discriminate.
    - destruct R as (p1 & R1 & _). rewrite R1. destruct e; cbn; discriminate.
  Qed.

  Theorem stream_decode_spec : forall chunks sz fuel,
    (forall j, (1 <= sz j)%nat) ->
    let F := events_of false tinit (List.concat chunks) in
    no_ipad (tl (chars F)) = true -> (List.length (chars F) < fuel)%nat ->
    fixed_ok (stream_decode T tinit tfeed tfin chunks sz fuel) F.
  Proof.
    intros chunks sz fuel Hsz. apply stream_decode_generic; [exact Hsz|].
    intros f s i d acc b e d' H. destruct (read_all_fixed _ _ _ _ _ _ _ _ H) as (d'' & H' & _). exists d''. exact H'.
  Qed.

  Theorem stream_decode0_spec : forall chunks sz fuel,
    (forall j, (1 <= sz j)%nat) ->
    let F := events_of false tinit (List.concat chunks) in
    no_ipad (tl (chars F)) = true -> (List.length (chars F) < fuel)%nat ->
    fixed_ok (stream_decode0 T tinit tfeed tfin chunks sz fuel) F.
  Proof.
    intros chunks sz fuel Hsz. apply stream_decode_generic; [exact Hsz|].
    intros f s i d acc b e d' H. exists d'. exact H.
  Qed.


  (* ---------------------------------------------------------------- release of the goroutine, on every exit path *)
  Lemma pipe_read_closed : forall k p e p', pipe_read k p = (PClosed e, p') -> returned p'.
  Proof.
    intros k p e p' H. unfold pipe_read in H. pose proof (p_fill_nonempty p) as NE.
    destruct (p_q (p_fill p)) as [|[w|e1] q] eqn:Q; [congruence|discriminate|].
    injection H as <- <-. eexists _, _. exact Q.
  Qed.

  Lemma returned_fill : forall p, returned p -> p_fill p = p.
  Proof. intros p (e & q & Q). apply p_fill_idem. rewrite Q. discriminate. Qed.

  Lemma pipe_read_returned : forall k p, returned p -> exists r, pipe_read k p = (r, p).
  Proof.
    intros k p H. unfold pipe_read. rewrite (returned_fill p H). destruct H as (e & q & Q). rewrite Q.
    eexists. reflexivity.
  Qed.

  Lemma refill_returned : forall fuel target nbuf rerr p nbuf' rerr' p',
    refill fuel target nbuf rerr p = (nbuf', rerr', p') ->
    (rerr <> None -> returned p) -> (rerr' <> None -> returned p') /\ (returned p -> returned p').
  Proof.
    induction fuel as [|fuel IH]; intros target nbuf rerr p nbuf' rerr' p' H Hr.
    - cbn [refill] in H. injection H as <- <- <-. split; [exact Hr|auto].
    - cbn [refill] in H. destruct (Nat.ltb (List.length nbuf) 4); [|injection H as <- <- <-; split; [exact Hr|auto]].
      destruct rerr as [e|]; [injection H as <- <- <-; split; [exact Hr|auto]|].
      destruct (pipe_read (target - List.length nbuf) p) as [[b|e] p1] eqn:R.
      + destruct (IH _ _ _ _ _ _ _ H ltac:(congruence)) as [I1 I2]. split; [exact I1|].
        intros Hp. apply I2. destruct (pipe_read_returned (target - List.length nbuf) p Hp) as [r R']. congruence.
      + injection H as <- <- <-. split; intros _; eapply pipe_read_closed; exact R.
  Qed.

  Definition winv (d : dec) : Prop :=
    (c_rerr (d_c d) <> None -> returned (d_p d)) /\ (c_err (d_c d) = Some REOF -> returned (d_p d)).

  Lemma dec_read0_winv : forall n d, winv d ->
    let '((b, e), d') := dec_read0 n d in winv d' /\ (e = Some REOF -> returned (d_p d')).
  Proof.
    intros n [c p] [W1 W2]. unfold dec_read0. cbn [d_c d_p] in *.
    destruct (c_out c) as [|x out].
    - destruct (c_err c) as [e|] eqn:E.
      + split; [split; cbn [d_c d_p]; [exact W1|rewrite E; exact W2]|]. intros H. injection H as ->. apply W2. reflexivity.
      + destruct (refill 4 (clamp_nn n) (c_nbuf c) (c_rerr c) p) as [[nbuf rerr] p'] eqn:R.
        destruct (refill_returned _ _ _ _ _ _ _ _ R W1) as [R1 R2].
        destruct (Nat.ltb (List.length nbuf) 4).
        * unfold winv. cbn [d_c d_p c_rerr c_err]. destruct rerr as [[|e]|].
          -- split; [split; intros _; apply R1; discriminate|]. intros _. apply R1. discriminate.
          -- split; [split; [intros _; apply R1; discriminate|discriminate]|discriminate].
          -- split; [split; [congruence|discriminate]|discriminate].
        * destruct (b64_chunk _) as [data bad].
          destruct (Nat.ltb n _); unfold winv; cbn [d_c d_p c_rerr c_err];
            (split; [split; [exact R1|destruct bad; discriminate]|destruct bad; discriminate]).
    - unfold winv. cbn [d_c d_p c_rerr c_err]. split; [split; assumption|discriminate].
  Qed.

  Lemma p_close_keeps : forall e p, returned p -> p_close e p = p.
  Proof.
    intros e p H. unfold p_close. rewrite (returned_fill p H). destruct H as (e1 & q & Q). rewrite Q. reflexivity.
  Qed.

  Lemma dec_read_winv : forall n d, winv d ->
    let '((b, e), d') := dec_read n d in winv d' /\ (e <> None -> returned (d_p d')).
  Proof.
    intros n d W. unfold dec_read. pose proof (dec_read0_winv n d W) as H.
    destruct (dec_read0 n d) as [[b e] d1]. destruct H as [[H1 H2] H3]. cbn [snd].
    destruct e as [[|x]|].
    - split; [split; assumption|]. intros _. apply H3. reflexivity.
    - assert (R : returned (p_close x (d_p d1))) by apply p_close_returned.
      split; [split; intros _; exact R|]. intros _. exact R.
    - split; [split; assumption|congruence].
  Qed.

  Lemma read_all_released : forall fuel sz i d acc b e d',
    winv d -> read_all T dec_read fuel sz i d acc = (b, Some e, d') -> returned (d_p d').
  Proof.
    induction fuel as [|fuel IH]; intros sz i d acc b e d' W H; [discriminate|].
    cbn [read_all] in H. pose proof (dec_read_winv (sz i) d W) as S.
    destruct (dec_read (sz i) d) as [[b1 e1] d1]. destruct S as [S1 S2]. destruct e1 as [e1|].
    - injection H as <- <- <-. apply S2. discriminate.
    - eapply IH; [exact S1|exact H].
  Qed.

  (* whatever the input, the source's Reads and the caller's buffers: once the decoder has reported
     io.EOF or an error (or NewArmorDecoder has failed) its goroutine has returned *)
  Theorem stream_decode_released : forall chunks sz fuel,
    s_end (stream_decode T tinit tfeed tfin chunks sz fuel) <> None ->
    p_stuck T tfeed tfin (s_prod (stream_decode T tinit tfeed tfin chunks sz fuel)) = false.
  Proof.
    intros chunks sz fuel. unfold stream_decode, stream_decode_with, dec_new.
    destruct (pipe_read 1 (p_init T tinit chunks)) as [[b|e] p1] eqn:R.
    - assert (Hcl : forall x, p_stuck T tfeed tfin (p_close x p1) = false)
        by (intros x; apply returned_not_stuck, p_close_returned).
      destruct b as [|v b]; cbn [s_end s_prod]; [intros _; apply Hcl|].
      destruct (v =? VERSION); cbn [s_end s_prod]; [|intros _; apply Hcl].
      destruct (read_all T dec_read fuel sz 0 {| d_c := cons0; d_p := p1 |} []) as [[b' e'] d'] eqn:RA.
      cbn [s_end s_prod]. intros He. destruct e' as [e'|]; [|congruence].
      apply returned_not_stuck. eapply read_all_released; [|exact RA].
      split; cbn [d_c d_p cons0 c_rerr c_err]; [congruence|discriminate].
    - assert (Hr : returned p1) by (eapply pipe_read_closed; exact R).
      destruct e as [|e]; cbn [s_end s_prod]; intros _; apply returned_not_stuck; exact Hr.
  Qed.

End StreamProofs.
