From Coq Require Import List NArith Bool String.
From Snow Require Import Lib.Wire Model.BrokerHttp.
Import ListNotations.
Open Scope N_scope.

Section Proofs.
  Variable enc_req : bytes -> bytes -> bytes.
  Variable dec_resp : bytes -> option cpresp.
  Variable enc_err : bytes -> bytes.
  Variable amp_dec : bytes -> option bytes.
  Variable amp_arm : bytes -> bytes.
  Variable ipc_client ipc_proxy ipc_answer : bytes -> ipcres.

  (* the versioned encoding starts with the version line, never with '{' *)
  Hypothesis enc_not_legacy : forall o n, is_legacy (enc_req o n) = false.

  Lemma legacy_map_total_v1 : forall response, legacy_map dec_resp H1 response <> HPanic.
  Proof.
    intros response. unfold legacy_map. destruct (dec_resp response) as [r|]; [|discriminate].
    destruct (r_error r) as [|b e]; [discriminate|].
    destruct (beq (b :: e) STR_NO_PROXIES); [discriminate|].
    destruct (beq (b :: e) STR_TIMED_OUT); discriminate.
  Qed.

  Theorem handlers_total_v1 :
    (forall rd h, client_offers enc_req dec_resp ipc_client H1 rd h <> HPanic) /\
    (forall rd, proxy_polls ipc_proxy rd <> HPanic) /\
    (forall rd, proxy_answers ipc_answer rd <> HPanic) /\
    (forall ok path, amp_client_offers enc_err amp_dec amp_arm ipc_client ok path <> HPanic).
  Proof.
    repeat split.
    - intros [body|] h; cbn; [|discriminate].
      destruct (is_legacy body); destruct (ipc_client _); try discriminate. apply legacy_map_total_v1.
    - intros [body|]; cbn; [|discriminate]. destruct (ipc_proxy body); discriminate.
    - intros [body|]; cbn; [|discriminate]. destruct (ipc_answer body); discriminate.
    - intros ok path. unfold amp_client_offers. destruct ok; cbn; [|discriminate].
      destruct (amp_dec path) as [body|]; [|discriminate]. destruct (ipc_client body); discriminate.
  Qed.

  (* a legacy request is treated exactly like its versioned equivalent: same IPC call, and the response is
     the total image [legacy_map] of the versioned response *)
  Theorem legacy_equiv : forall v offer nat_header,
    is_legacy offer = true ->
    client_offers enc_req dec_resp ipc_client v (ReadOk offer) nat_header =
    match client_offers enc_req dec_resp ipc_client v (versioned_twin enc_req offer nat_header) nat_header with
    | HResp 200 response => legacy_map dec_resp v response
    | other => other
    end.
  Proof.
    intros v offer h Hl. unfold versioned_twin. cbn [client_offers]. rewrite Hl, enc_not_legacy.
    destruct (ipc_client (enc_req offer h)); reflexivity.
  Qed.

  Theorem legacy_map_cases : forall response,
    match dec_resp response with
    | None => legacy_map dec_resp H1 response = HResp 500 []
    | Some r =>
        (r_error r = [] -> legacy_map dec_resp H1 response = HResp 200 (r_answer r)) /\
        (r_error r = STR_NO_PROXIES -> legacy_map dec_resp H1 response = HResp 503 []) /\
        (r_error r = STR_TIMED_OUT -> legacy_map dec_resp H1 response = HResp 504 []) /\
        (r_error r <> [] -> r_error r <> STR_NO_PROXIES -> r_error r <> STR_TIMED_OUT ->
           legacy_map dec_resp H1 response = HResp 400 [])
    end.
  Proof.
    intros response. unfold legacy_map. destruct (dec_resp response) as [r|]; [|reflexivity].
    repeat split.
    - intros ->. reflexivity.
    - intros ->. reflexivity.
    - intros ->. reflexivity.
    - intros H1 H2 H3. destruct (r_error r) as [|b e] eqn:E; [congruence|].
      destruct (beq (b :: e) STR_NO_PROXIES) eqn:B1.
      { exfalso. apply H2. clear -B1. revert B1. generalize (b :: e) STR_NO_PROXIES.
        induction l as [|x l IH]; intros [|y m]; cbn; try discriminate; [reflexivity|].
        intros H. apply andb_prop in H. destruct H as [Hx Hr]. apply N.eqb_eq in Hx. subst. f_equal. apply IH. exact Hr. }
      destruct (beq (b :: e) STR_TIMED_OUT) eqn:B2; [|reflexivity].
      exfalso. apply H3. clear -B2. revert B2. generalize (b :: e) STR_TIMED_OUT.
      induction l as [|x l IH]; intros [|y m]; cbn; try discriminate; [reflexivity|].
      intros H. apply andb_prop in H. destruct H as [Hx Hr]. apply N.eqb_eq in Hx. subst. f_equal. apply IH. exact Hr.
  Qed.

  Theorem v0_legacy_panics : forall offer h r,
    is_legacy offer = true -> ipc_client (enc_req offer h) = IpcOk r ->
    dec_resp r = Some {| r_answer := []; r_error := bs "invalid NAT type" |} ->
    client_offers enc_req dec_resp ipc_client H0 (ReadOk offer) h = HPanic.
  Proof.
    intros offer h r Hl Hi Hd. cbn [client_offers]. rewrite Hl, Hi. unfold legacy_map. rewrite Hd. reflexivity.
  Qed.

  Theorem status_set : forall v rd h,
    match client_offers enc_req dec_resp ipc_client v rd h with
    | HResp st _ => st = 200 \/ st = 400 \/ st = 500 \/ st = 503 \/ st = 504
    | HPanic => v = H0
    end.
  Proof.
    intros v [body|] h; cbn; [|auto].
    destruct (is_legacy body); destruct (ipc_client _); auto 6.
    unfold legacy_map. destruct (dec_resp response) as [r|]; auto 6.
    destruct (r_error r) as [|b e]; auto 6.
    destruct (beq (b :: e) STR_NO_PROXIES); auto 6.
    destruct (beq (b :: e) STR_TIMED_OUT); auto 6. destruct v; auto 6.
  Qed.
End Proofs.
