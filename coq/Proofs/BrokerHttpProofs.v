From Coq Require Import List NArith Bool String.
From Snow Require Import Lib.Wire Model.BrokerHttp.
Import ListNotations.
Open Scope N_scope.

Section Proofs.
  Variable enc_req : bytes -> bytes -> bytes.
  Variable dec_resp : bytes -> option cpresp.
  Variable enc_err : bytes -> bytes.
  Variable amp_dec : bytes -> option bytes.
  Variable amp_arm : bytes -> bytes.
  Variable ipc_client ipc_proxy ipc_answer : bytes -> ipcres.

  (* the versioned encoding starts with the version line, never with '{' *)
  Hypothesis enc_not_legacy : forall o n, is_legacy (enc_req o n) = false.

  Lemma legacy_map_total_v1 : forall response, legacy_map dec_resp H1 response <> HPanic.
  Proof.
    intros response. unfold legacy_map. destruct (dec_resp response) as [r|]; [|discriminate].
    destruct (r_error r) as [|b e]; [discriminate|].
    destruct (beq (b :: e) STR_NO_PROXIES); [discriminate|].
    destruct (beq (b :: e) STR_TIMED_OUT); discriminate.
  Qed.

  Theorem handlers_total_v1 :
    (forall rd h, client_offers enc_req dec_resp ipc_client H1 rd h <> HPanic) /\
    (forall rd, proxy_polls ipc_proxy rd <> HPanic) /\
    (forall rd, proxy_answers ipc_answer rd <> HPanic) /\
    (forall ok path, amp_client_offers enc_err amp_dec amp_arm ipc_client ok path <> HPanic).
  Proof.
    repeat split.
    - intros [body|] h; cbn; [|discriminate].
      destruct (is_legacy body); destruct (ipc_client _); try discriminate. apply legacy_map_total_v1.
    - intros [body|]; cbn; [|discriminate]. destruct (ipc_proxy body); discriminate.
    - intros [body|]; cbn; [|discriminate]. destruct (ipc_answer body); discriminate.
    - intros ok path. unfold amp_client_offers. destruct ok; cbn; [|discriminate].
      destruct (amp_dec path) as [body|]; [|discriminate]. destruct (ipc_client body); discriminate.
  Qed.

  (* a legacy request is treated exactly like its versioned equivalent: same IPC call, and the response is
     the total image [legacy_map] of the versioned response *)
  Theorem legacy_equiv : forall v offer nat_header,
    is_legacy offer = true ->
    N.of_nat (List.length (enc_req offer nat_header)) <= READ_LIMIT_N ->
    client_offers enc_req dec_resp ipc_client v (ReadOk offer) nat_header =
    match client_offers enc_req dec_resp ipc_client v (versioned_twin enc_req offer nat_header) nat_header with
    | HResp 200 response => legacy_map dec_resp v response
    | other => other
    end.
  Proof.
    intros v offer h Hl Hfit. unfold versioned_twin, read_body.
    replace (READ_LIMIT_N <? _) with false by (symmetry; apply N.ltb_ge; exact Hfit).
    cbn [client_offers]. rewrite Hl, enc_not_legacy.
    destruct (ipc_client (enc_req offer h)); reflexivity.
  Qed.

  (* ... and only within it: the shim does not put the encoded body through the read limit. A legacy body that was read
     (so: within the limit) whose versioned encoding is beyond the limit is answered per IPC, while that encoding
     POSTed directly is a 400. (No use of enc_not_legacy.) *)
  Theorem legacy_diverges_over_limit : forall v offer nat_header,
    is_legacy offer = true ->
    READ_LIMIT_N < N.of_nat (List.length (enc_req offer nat_header)) ->
    client_offers enc_req dec_resp ipc_client v (ReadOk offer) nat_header =
      match ipc_client (enc_req offer nat_header) with
      | IpcOk response => legacy_map dec_resp v response
      | _ => HResp 500 []
      end /\
    client_offers enc_req dec_resp ipc_client v (versioned_twin enc_req offer nat_header) nat_header = HResp 400 [].
  Proof.
    intros v offer h Hl Hbig. split.
    - cbn [client_offers]. rewrite Hl. reflexivity.
    - unfold versioned_twin, read_body. apply N.ltb_lt in Hbig. rewrite Hbig. reflexivity.
  Qed.

  Theorem legacy_map_cases : forall response,
    match dec_resp response with
    | None => legacy_map dec_resp H1 response = HResp 500 []
    | Some r =>
        (r_error r = [] -> legacy_map dec_resp H1 response = HResp 200 (r_answer r)) /\
        (r_error r = STR_NO_PROXIES -> legacy_map dec_resp H1 response = HResp 503 []) /\
        (r_error r = STR_TIMED_OUT -> legacy_map dec_resp H1 response = HResp 504 []) /\
        (r_error r <> [] -> r_error r <> STR_NO_PROXIES -> r_error r <> STR_TIMED_OUT ->
           legacy_map dec_resp H1 response = HResp 400 [])
    end.
  Proof.
    intros response. unfold legacy_map. destruct (dec_resp response) as [r|]; [|reflexivity].
    repeat split.
    - intros ->. reflexivity.
    - intros ->. reflexivity.
    - intros ->. reflexivity.
    - intros H1 H2 H3. destruct (r_error r) as [|b e] eqn:E; [congruence|].
      destruct (beq (b :: e) STR_NO_PROXIES) eqn:B1.
      { exfalso. apply H2. clear -B1. revert B1. generalize (b :: e) STR_NO_PROXIES.
        induction l as [|x l IH]; intros [|y m]; cbn; try discriminate; [reflexivity|].
        intros H. apply andb_prop in H. destruct H as [Hx Hr]. apply N.eqb_eq in Hx. subst. f_equal. apply IH. exact Hr. }
      destruct (beq (b :: e) STR_TIMED_OUT) eqn:B2; [|reflexivity].
      exfalso. apply H3. clear -B2. revert B2. generalize (b :: e) STR_TIMED_OUT.
      induction l as [|x l IH]; intros [|y m]; cbn; try discriminate; [reflexivity|].
      intros H. apply andb_prop in H. destruct H as [Hx Hr]. apply N.eqb_eq in Hx. subst. f_equal. apply IH. exact Hr.
  Qed.

  Theorem v0_legacy_panics : forall offer h r,
    is_legacy offer = true -> ipc_client (enc_req offer h) = IpcOk r ->
    dec_resp r = Some {| r_answer := []; r_error := bs "invalid NAT type" |} ->
    client_offers enc_req dec_resp ipc_client H0 (ReadOk offer) h = HPanic.
  Proof.
    intros offer h r Hl Hi Hd. cbn [client_offers]. rewrite Hl, Hi. unfold legacy_map. rewrite Hd. reflexivity.
  Qed.

  Theorem status_set : forall v rd h,
    match client_offers enc_req dec_resp ipc_client v rd h with
    | HResp st _ => st = 200 \/ st = 400 \/ st = 500 \/ st = 503 \/ st = 504
    | HPanic => v = H0
    end.
  Proof.
    intros v [body|] h; cbn; [|auto].
    destruct (is_legacy body); destruct (ipc_client _); auto 6.
    unfold legacy_map. destruct (dec_resp response) as [r|]; auto 6.
    destruct (r_error r) as [|b e]; auto 6.
    destruct (beq (b :: e) STR_NO_PROXIES); auto 6.
    destruct (beq (b :: e) STR_TIMED_OUT); auto 6. destruct v; auto 6.
  Qed.
End Proofs.

(* ===================================================================================================
   The refined handlers (response writer, partial operations, routes, broker state through IPC only)
   =================================================================================================== *)
From Coq Require Import Arith Lia.

Lemma index_at_guarded : forall l i, (i < List.length l)%nat -> exists b, index_at l i = Ret b.
Proof.
  intros l i H. unfold index_at. destruct (nth_error l i) as [b|] eqn:E; [eauto|].
  apply nth_error_None in E. lia.
Qed.

Lemma slice_from_guarded : forall pre s, has_prefix pre s = true -> slice_from s (List.length pre) = Ret (skipn (List.length pre) s).
Proof.
  intros pre s H. unfold slice_from.
  assert (L : (List.length pre <= List.length s)%nat).
  { revert s H. induction pre as [|a pre IH]; intros [|b s] H; cbn in *; try lia; try discriminate.
    apply andb_prop in H. destruct H as [_ H]. apply IH in H. lia. }
  apply Nat.leb_le in L. rewrite L. reflexivity.
Qed.

Lemma has_prefix_app : forall pre t, has_prefix pre (pre ++ t) = true.
Proof. induction pre as [|a pre IH]; intros t; cbn; [reflexivity|]. rewrite N.eqb_refl, IH. reflexivity. Qed.

Lemma has_prefix_split : forall pre s, has_prefix pre s = true -> s = pre ++ skipn (List.length pre) s.
Proof.
  induction pre as [|a pre IH]; intros [|b s] H; cbn in *; try reflexivity; try discriminate.
  apply andb_prop in H. destruct H as [E H]. apply N.eqb_eq in E. subst. f_equal. apply IH. exact H.
Qed.

Lemma beq_refl : forall a, beq a a = true.
Proof. induction a as [|x a IH]; cbn; [reflexivity|]. rewrite N.eqb_refl, IH. reflexivity. Qed.

Lemma beq_true : forall a b, beq a b = true -> a = b.
Proof.
  induction a as [|x a IH]; intros [|y b] H; cbn in *; try reflexivity; try discriminate.
  apply andb_prop in H. destruct H as [E H]. apply N.eqb_eq in E. subst. f_equal. apply IH. exact H.
Qed.

Lemma beq_length_neq : forall a b, List.length a <> List.length b -> beq a b = false.
Proof.
  intros a b H. destruct (beq a b) eqn:E; [|reflexivity]. apply beq_true in E. subst. congruence.
Qed.

Lemma write_header_ok : forall code w, 100 <= code -> code <= 999 -> exists w', write_header code w = Ret w' /\ w_cors w' = w_cors w.
Proof.
  intros code w H1 H2. unfold write_header.
  replace (code <? 100) with false by (symmetry; apply N.ltb_ge; lia).
  replace (999 <? code) with false by (symmetry; apply N.ltb_ge; lia). cbn.
  destruct (w_code w); eexists; split; reflexivity.
Qed.

Lemma first_byte_legacy : forall body, exists b0,
  (if (0 <? List.length body)%nat then index_at body 0 else Ret 0) = Ret b0 /\
  ((0 <? List.length body)%nat && (b0 =? 123)) = is_legacy body.
Proof. intros [|b body]; cbn; eauto. Qed.

Section ServeProofs.
  Variable St : Type.
  Variable view : St -> bview.
  Variable enc_req : bytes -> bytes -> bytes.
  Variable dec_resp : bytes -> option cpresp.
  Variable enc_err : bytes -> bytes.
  Variable amp_dec : bytes -> option bytes.
  Variable amp_arm : bytes -> bytes.
  Variable ipc_client ipc_proxy ipc_answer : St -> bytes -> ipcres * St.

  Notation handle_ := (handle St view enc_req dec_resp enc_err amp_dec amp_arm ipc_client ipc_proxy ipc_answer).
  Notation serve_ := (serve_req St view enc_req dec_resp enc_err amp_dec amp_arm ipc_client ipc_proxy ipc_answer).
  Notation run_ := (run_reqs St view enc_req dec_resp enc_err amp_dec amp_arm ipc_client ipc_proxy ipc_answer).
  Notation reaches_ := (reaches_ipc amp_dec).

  Ltac wh := unfold wstatus, write_header; cbn.

  Lemma legacy_w_total : forall response w, legacy_w dec_resp H1 response w <> Panicked.
  Proof.
    intros response w. unfold legacy_w. destruct (dec_resp response) as [r|]; [|wh; destruct (w_code w); discriminate].
    destruct (r_error r) as [|b e]; [discriminate|].
    destruct (beq (b :: e) STR_NO_PROXIES); [wh; destruct (w_code w); discriminate|].
    destruct (beq (b :: e) STR_TIMED_OUT); wh; destruct (w_code w); discriminate.
  Qed.

  Lemma client_offers_w_total : forall s q w, fst (client_offers_w St enc_req dec_resp ipc_client H1 s q w) <> Panicked.
  Proof.
    intros s q w. unfold client_offers_w. destruct (read_body (q_sent q)) as [body|]; [|wh; destruct (w_code w); discriminate].
    destruct (0 <? List.length body)%nat eqn:L.
    - apply Nat.ltb_lt in L. destruct (index_at_guarded body 0 L) as [b0 ->].
      destruct (true && (b0 =? 123)); destruct (ipc_client s _) as [[response| | |] s']; cbn;
        try (wh; destruct (w_code w); discriminate); try discriminate. apply legacy_w_total.
    - cbn. destruct (ipc_client s body) as [[response| | |] s']; cbn; try (wh; destruct (w_code w); discriminate); try discriminate.
  Qed.

  Lemma post_w_total : forall ipc s q w, fst (post_w St ipc s q w) <> Panicked.
  Proof.
    intros ipc s q w. unfold post_w. destruct (read_body (q_sent q)) as [body|]; [|wh; destruct (w_code w); discriminate].
    destruct (ipc s body) as [[response| | |] s']; cbn; try discriminate; wh; destruct (w_code w); discriminate.
  Qed.

  Lemma amp_w_total : forall s q w, fst (amp_w St enc_err amp_dec amp_arm ipc_client s q w) <> Panicked.
  Proof.
    intros s q w. unfold amp_w. destruct (has_prefix AMP_ROUTE_B (q_path q)) eqn:P.
    - rewrite (slice_from_guarded _ _ P). destruct (beq _ (q_path q)); [wh; destruct (w_code w); discriminate|].
      destruct (amp_dec _) as [body|].
      + destruct (ipc_client s body) as [[response| | |] s']; cbn; try (wh; destruct (w_code w); discriminate).
      + cbn. wh. destruct (w_code w); discriminate.
    - rewrite beq_refl. wh. destruct (w_code w); discriminate.
  Qed.

  Lemma not_found_w_total : forall w, not_found_w w <> Panicked.
  Proof. intros w. unfold not_found_w. wh. destruct (w_code w); discriminate. Qed.

  (* no request reaches a panic in the repaired code: every index is guarded by the length test before it,
     every slice by HasPrefix, every status code is within 100..999 *)
  Theorem serve_never_panics_v1 : forall r s q,
    fst (handle_ H1 r s q) <> Panicked /\ fst (serve_ H1 s q) <> Panicked.
  Proof.
    assert (Hh : forall r s q, fst (handle_ H1 r s q) <> Panicked).
    { intros r s q. destruct r; cbn [handle]; unfold cors_wrap; try destruct (beq (q_method q) OPTIONS); cbn [fst]; unfold debug_w;
        first [ discriminate | apply post_w_total | apply client_offers_w_total | apply amp_w_total | apply not_found_w_total
              | (unfold metrics_w; destruct (v_metrics (view s)); [discriminate|apply not_found_w_total])
              | (wh; discriminate) ]. }
    intros r s q. split; [apply Hh|]. unfold serve_req. specialize (Hh (route_of (q_path q)) s q).
    destruct (handle_ H1 (route_of (q_path q)) s q) as [o s']. cbn in *. destruct o; [discriminate|congruence].
  Qed.

  (* the pinned code: the legacy shim panics on any other error string *)
  Theorem serve_v0_panics : forall s q offer r s',
    route_of (q_path q) = RClient -> beq (q_method q) OPTIONS = false ->
    read_body (q_sent q) = ReadOk offer -> is_legacy offer = true ->
    ipc_client s (enc_req offer (header_get (q_hdrs q) NAT_HEADER)) = (IpcOk r, s') ->
    dec_resp r = Some {| r_answer := []; r_error := bs "invalid NAT type" |} ->
    fst (serve_ H0 s q) = Panicked.
  Proof.
    intros s q offer r s' Hr Hm Hb Hl Hi Hd. unfold serve_req. rewrite Hr. cbn [handle]. unfold cors_wrap. rewrite Hm.
    unfold client_offers_w. rewrite Hb. destruct offer as [|b0 offer]; [discriminate|]. cbn in Hl. cbn [List.length Nat.ltb Nat.leb index_at nth_error].
    cbn. rewrite Hl. cbn in Hi. rewrite Hi. unfold legacy_w. rewrite Hd. reflexivity.
  Qed.

  (* ---- the mux lets only paths with the prefix through to ampClientOffers, and then the prefix branch is dead ---- *)
  Theorem route_amp_prefix : forall p, route_of p = RAmp -> exists t, p = AMP_ROUTE_B ++ t.
  Proof.
    intros p H. unfold route_of in H.
    repeat match type of H with (if ?c then _ else _) = _ => destruct c eqn:?; try discriminate end.
    exists (skipn (List.length AMP_ROUTE_B) p). apply has_prefix_split. assumption.
  Qed.

  Theorem amp_via_mux_no_prefix_error : forall s q w t,
    q_path q = AMP_ROUTE_B ++ t ->
    amp_w St enc_err amp_dec amp_arm ipc_client s q w =
    match amp_dec t with
    | Some body => let (r, s') := ipc_client s body in
                   match r with
                   | IpcOk response => (match write_header 200 w with Ret w' => Ret (write (amp_arm response) w') | Panicked => Panicked end, s')
                   | _ => wstatus St 500 w s'
                   end
    | None => (match write_header 200 w with
               | Ret w' => Ret (write (amp_arm (enc_err (bs "cannot decode URL path"))) w')
               | Panicked => Panicked end, s)
    end.
  Proof.
    intros s q w t Hp. unfold amp_w. rewrite Hp, has_prefix_app, (slice_from_guarded _ _ (has_prefix_app _ _)).
    rewrite skipn_app, skipn_all, Nat.sub_diag. cbn [skipn app].
    rewrite beq_length_neq; [reflexivity|]. rewrite app_length. cbn. lia.
  Qed.

  (* a path that does not start with the prefix (reachable only by calling the handler directly) is a 500 *)
  Theorem amp_wrong_prefix : forall s q w, has_prefix AMP_ROUTE_B (q_path q) = false ->
    amp_w St enc_err amp_dec amp_arm ipc_client s q w = wstatus St 500 w s.
  Proof. intros s q w H. unfold amp_w. rewrite H, beq_refl. reflexivity. Qed.

  (* ---- CORS preflight: every wrapped route answers OPTIONS with an empty 200 and does not touch the state ---- *)
  Definition wrapped (r : route) : bool :=
    match r with RProxy | RClient | RAnswer | RDebug | RMetrics | RAmp => true | _ => false end.
  Theorem options_early_return : forall v r s q, wrapped r = true -> q_method q = OPTIONS ->
    handle_ v r s q = (Ret (set_cors rw_new), s) /\
    respond q (Ret (set_cors rw_new)) = Ret {| p_status := 200; p_body := []; p_cors := true |}.
  Proof.
    intros v r s q Hw Hm. split.
    - destruct r; try discriminate; cbn [handle]; unfold cors_wrap; rewrite Hm, beq_refl; reflexivity.
    - unfold respond, finish. cbn. destruct (beq (q_method q) _); reflexivity.
  Qed.

  (* ---- bodies beyond the limit: 400 on the three POST routes, state untouched ---- *)
  Theorem oversize_is_400 : forall v r s q, (r = RProxy \/ r = RClient \/ r = RAnswer) ->
    beq (q_method q) OPTIONS = false -> READ_LIMIT_N < N.of_nat (List.length (q_sent q)) ->
    handle_ v r s q = (Ret {| w_code := Some 400; w_body := []; w_cors := true |}, s).
  Proof.
    intros v r s q Hr Hm Hl. assert (R : read_body (q_sent q) = ReadTooLarge).
    { unfold read_body. apply N.ltb_lt in Hl. rewrite Hl. reflexivity. }
    destruct Hr as [->|[->| ->]]; cbn [handle]; unfold cors_wrap; rewrite Hm; unfold post_w, client_offers_w; rewrite R; reflexivity.
  Qed.

  Theorem within_limit_read : forall q, N.of_nat (List.length (q_sent q)) <= READ_LIMIT_N -> read_body (q_sent q) = ReadOk (q_sent q).
  Proof. intros q H. unfold read_body. replace (READ_LIMIT_N <? _) with false; [reflexivity|]. symmetry. apply N.ltb_ge. exact H. Qed.

  (* ---- handlers change the broker state through IPC only ---- *)
  Theorem no_ipc_state_unchanged : forall v s q, reaches_ q = false -> snd (serve_ v s q) = s.
  Proof.
    intros v s q H. unfold serve_req. destruct (handle_ v (route_of (q_path q)) s q) as [o s'] eqn:E. cbn.
    unfold reaches_ipc in H. destruct (beq (q_method q) OPTIONS) eqn:M; cbn [negb andb] in H.
    - destruct (route_of (q_path q)); cbn [handle] in E; unfold cors_wrap in E; rewrite ?M in E; inversion E; reflexivity.
    - destruct (route_of (q_path q)) eqn:R; cbn [handle] in E; unfold cors_wrap in E; rewrite ?M in E;
        try (inversion E; reflexivity).
      + unfold within_limit in H. unfold post_w in E. destruct (read_body (q_sent q)); [discriminate|]. inversion E; reflexivity.
      + unfold within_limit in H. unfold client_offers_w in E. destruct (read_body (q_sent q)); [discriminate|]. inversion E; reflexivity.
      + unfold within_limit in H. unfold post_w in E. destruct (read_body (q_sent q)); [discriminate|]. inversion E; reflexivity.
      + destruct (route_amp_prefix _ R) as [t Ht]. rewrite (amp_via_mux_no_prefix_error s q _ t Ht) in E.
        rewrite Ht, skipn_app, skipn_all, Nat.sub_diag in H. cbn [skipn app] in H.
        destruct (amp_dec t); [discriminate|]. inversion E; reflexivity.
  Qed.

  (* and a request that does reach IPC leaves exactly the state that IPC call leaves *)
  Theorem ipc_state : forall v s q, reaches_ q = true ->
    exists ipc body, In ipc [ipc_client; ipc_proxy; ipc_answer] /\ snd (serve_ v s q) = snd (ipc s body).
  Proof.
    intros v s q H. unfold serve_req. destruct (handle_ v (route_of (q_path q)) s q) as [o s'] eqn:E. cbn.
    unfold reaches_ipc in H. destruct (beq (q_method q) OPTIONS) eqn:M; cbn [negb andb] in H; [discriminate|].
    destruct (route_of (q_path q)) eqn:R; try discriminate; cbn [handle] in E; unfold cors_wrap in E; rewrite ?M in E.
    - unfold within_limit in H. unfold post_w in E. destruct (read_body (q_sent q)) as [body|]; [|discriminate].
      exists ipc_proxy, body. split; [cbn; auto|]. destruct (ipc_proxy s body). inversion E; reflexivity.
    - unfold within_limit in H. unfold client_offers_w in E. destruct (read_body (q_sent q)) as [body|]; [|discriminate].
      destruct (if (0 <? List.length body)%nat then index_at body 0 else Ret 0) as [b0|] eqn:F.
      + exists ipc_client, (if (0 <? List.length body)%nat && (b0 =? 123) then enc_req body (header_get (q_hdrs q) NAT_HEADER) else body).
        split; [cbn; auto|]. destruct (ipc_client s _) as [[response| | |] s2]; inversion E; reflexivity.
      + exfalso. destruct (0 <? List.length body)%nat eqn:L; [|discriminate]. apply Nat.ltb_lt in L.
        destruct (index_at_guarded body 0 L) as [b Hb]. congruence.
    - unfold within_limit in H. unfold post_w in E. destruct (read_body (q_sent q)) as [body|]; [|discriminate].
      exists ipc_answer, body. split; [cbn; auto|]. destruct (ipc_answer s body). inversion E; reflexivity.
    - destruct (route_amp_prefix _ R) as [t Ht]. rewrite (amp_via_mux_no_prefix_error s q _ t Ht) in E.
      rewrite Ht, skipn_app, skipn_all, Nat.sub_diag in H. cbn [skipn app] in H.
      destruct (amp_dec t) as [body|]; [|discriminate]. exists ipc_client, body. split; [cbn; auto|].
      destruct (ipc_client s body) as [[response| | |] s2]; inversion E; reflexivity.
  Qed.

  (* history: taking any set of requests that do not reach IPC (malformed AMP paths, oversize bodies, preflights,
     unknown routes, /debug, /metrics, /prometheus, /robots.txt ...) out of a history changes no other response *)
  Theorem history_drop : forall v (drop : hreq -> bool),
    (forall q, drop q = true -> reaches_ q = false) ->
    forall qs s,
      filter (fun p => negb (drop (fst p))) (run_ v s qs) = run_ v s (filter (fun q => negb (drop q)) qs).
  Proof.
    intros v drop Hd. induction qs as [|q qs IH]; intros s; [reflexivity|].
    cbn [run_reqs filter]. destruct (serve_ v s q) as [o s'] eqn:E. cbn [filter fst].
    destruct (drop q) eqn:D; cbn [negb].
    - assert (s' = s) by (rewrite <- (no_ipc_state_unchanged v s q (Hd q D)), E; reflexivity). subst s'. apply IH.
    - cbn [run_reqs]. rewrite E. f_equal. apply IH.
  Qed.

  Lemma run_app_nonempty : forall v pre q s, run_ v s (pre ++ [q]) <> [].
  Proof. intros v [|p pre] q s; cbn [app run_reqs]; destruct (serve_req _ _ _ _ _ _ _ _ _ _ _ _ _); discriminate. Qed.

  (* the response to a request is a function of (broker state, request): restated for the record, it is how
     [serve_req] is typed; what needs proof is that a prefix of state-preserving requests is invisible *)
  Corollary malformed_prefix_invisible : forall v pre s q,
    Forall (fun p => reaches_ p = false) pre ->
    fst (serve_ v s q) = match last (run_ v s (pre ++ [q])) (q, Panicked) with (_, o) => o end.
  Proof.
    intros v pre. induction pre as [|p pre IH]; intros s q Hf.
    - cbn. destruct (serve_ v s q). reflexivity.
    - inversion Hf as [|? ? Hp Hr]; subst. cbn [app run_reqs]. destruct (serve_ v s p) as [o s'] eqn:E.
      assert (s' = s) by (rewrite <- (no_ipc_state_unchanged v s p Hp), E; reflexivity). subst s'.
      rewrite (IH s q Hr). destruct (run_ v s (pre ++ [q])) eqn:R; [|reflexivity].
      exfalso. exact (run_app_nonempty v pre q s R).
  Qed.

  (* ---- the refined client handler computes the total function of the first model ---- *)
  Definition hresp_of (o : outc rw) : hresp :=
    match o with Ret w => HResp (match w_code w with Some c => c | None => 200 end) (w_body w) | Panicked => HPanic end.

  Theorem client_offers_refines : forall v s q,
    hresp_of (fst (client_offers_w St enc_req dec_resp ipc_client v s q (set_cors rw_new))) =
    client_offers enc_req dec_resp (fun b => fst (ipc_client s b)) v (read_body (q_sent q)) (header_get (q_hdrs q) NAT_HEADER).
  Proof.
    intros v s q. unfold client_offers_w, client_offers. destruct (read_body (q_sent q)) as [body|]; [|reflexivity].
    destruct body as [|b0 body].
    - cbn. destruct (ipc_client s []) as [[response| | |] s']; reflexivity.
    - cbn [List.length Nat.ltb Nat.leb index_at nth_error is_legacy andb].
      destruct (b0 =? 123); destruct (ipc_client s _) as [[response| | |] s']; cbn; try reflexivity.
      unfold legacy_w, legacy_map. destruct (dec_resp response) as [r|]; [|reflexivity].
      destruct (r_error r) as [|c e]; [reflexivity|].
      destruct (beq (c :: e) STR_NO_PROXIES); [reflexivity|]. destruct (beq (c :: e) STR_TIMED_OUT); [reflexivity|].
      destruct v; reflexivity.
  Qed.

  Theorem post_refines : forall ipc s q,
    hresp_of (fst (post_w St ipc s q (set_cors rw_new))) =
    ipc_status (match read_body (q_sent q) with ReadOk b => fst (ipc s b) | ReadTooLarge => IpcBadRequest end).
  Proof.
    intros ipc s q. unfold post_w. destruct (read_body (q_sent q)) as [body|]; [|reflexivity].
    destruct (ipc s body) as [[response| | |] s']; reflexivity.
  Qed.

  (* ---- a legacy request and its versioned twin: same IPC call, same state afterwards, response = image under legacy_map ---- *)
  Hypothesis enc_not_legacy : forall o n, is_legacy (enc_req o n) = false.

  Theorem legacy_twin_same_state : forall v s q q' offer,
    route_of (q_path q) = RClient -> route_of (q_path q') = RClient ->
    beq (q_method q) OPTIONS = false -> beq (q_method q') OPTIONS = false ->
    read_body (q_sent q) = ReadOk offer -> is_legacy offer = true ->
    q_sent q' = enc_req offer (header_get (q_hdrs q) NAT_HEADER) ->
    N.of_nat (List.length (enc_req offer (header_get (q_hdrs q) NAT_HEADER))) <= READ_LIMIT_N ->
    snd (serve_ v s q) = snd (serve_ v s q') /\
    hresp_of (fst (handle_ v RClient s q)) =
      match hresp_of (fst (handle_ v RClient s q')) with
      | HResp 200 response => legacy_map dec_resp v response
      | other => other
      end.
  Proof.
    intros v s q q' offer Hr Hr' Hm Hm' Hb Hl Hs Hfit.
    assert (Hb' : read_body (q_sent q') = ReadOk (q_sent q')) by (apply within_limit_read; rewrite Hs; exact Hfit).
    split.
    - unfold serve_req. rewrite Hr, Hr'. cbn [handle]. unfold cors_wrap. rewrite Hm, Hm'. unfold client_offers_w. rewrite Hb, Hb'.
      destruct (first_byte_legacy offer) as [b0 [F0 L0]]. destruct (first_byte_legacy (q_sent q')) as [b1 [F1 L1]].
      rewrite F0, F1, L0, L1, Hl. rewrite Hs at 1. rewrite enc_not_legacy. rewrite Hs.
      destruct (ipc_client s _) as [[response| | |] s']; reflexivity.
    - cbn [handle]. unfold cors_wrap. rewrite Hm, Hm'. rewrite !client_offers_refines. rewrite Hb, Hb', Hs.
      cbn [client_offers]. rewrite Hl, enc_not_legacy. destruct (fst (ipc_client s _)); reflexivity.
  Qed.

  (* the divergence of the shim at the size limit, at the level of whole requests: the legacy request (body within the
     limit) makes the IPC call on the encoded body - whatever its size - leaves the state that call leaves and answers
     with the image of its outcome; the encoded body POSTed directly is beyond the limit: 400, no IPC call, state
     untouched *)
  Theorem legacy_twin_over_limit : forall v s q q' offer,
    route_of (q_path q) = RClient -> route_of (q_path q') = RClient ->
    beq (q_method q) OPTIONS = false -> beq (q_method q') OPTIONS = false ->
    read_body (q_sent q) = ReadOk offer -> is_legacy offer = true ->
    q_sent q' = enc_req offer (header_get (q_hdrs q) NAT_HEADER) ->
    READ_LIMIT_N < N.of_nat (List.length (enc_req offer (header_get (q_hdrs q) NAT_HEADER))) ->
    let call := ipc_client s (enc_req offer (header_get (q_hdrs q) NAT_HEADER)) in
    snd (serve_ v s q) = snd call /\
    hresp_of (fst (handle_ v RClient s q)) =
      match fst call with
      | IpcOk response => legacy_map dec_resp v response
      | _ => HResp 500 []
      end /\
    handle_ v RClient s q' = (Ret {| w_code := Some 400; w_body := []; w_cors := true |}, s) /\
    snd (serve_ v s q') = s.
  Proof.
    intros v s q q' offer Hr Hr' Hm Hm' Hb Hl Hs Hbig call.
    assert (H400 : handle_ v RClient s q' = (Ret {| w_code := Some 400; w_body := []; w_cors := true |}, s)).
    { apply oversize_is_400; [right; left; reflexivity | exact Hm' | rewrite Hs; exact Hbig]. }
    split; [|split; [|split; [exact H400|]]].
    - unfold serve_req. rewrite Hr. cbn [handle]. unfold cors_wrap. rewrite Hm. unfold client_offers_w. rewrite Hb.
      destruct (first_byte_legacy offer) as [b0 [F0 L0]]. rewrite F0, L0, Hl. subst call.
      destruct (ipc_client s _) as [[response| | |] s']; reflexivity.
    - cbn [handle]. unfold cors_wrap. rewrite Hm. rewrite client_offers_refines. rewrite Hb.
      cbn [client_offers]. rewrite Hl. subst call. destruct (fst (ipc_client s _)); reflexivity.
    - unfold serve_req. rewrite Hr', H400. reflexivity.
  Qed.
End ServeProofs.

(* ---- header lookup ---- *)
Lemma canon_aux_idem : forall l u, canon_aux u (canon_aux u l) = canon_aux u l.
Proof.
  induction l as [|c l IH]; intros u; [reflexivity|]. cbn [canon_aux].
  set (c' := if u && is_lower c then c - 32 else if negb u && is_upper c then c + 32 else c).
  assert (E : (if u && is_lower c' then c' - 32 else if negb u && is_upper c' then c' + 32 else c') = c').
  { subst c'. unfold is_lower, is_upper. destruct u; cbn.
    - destruct ((97 <=? c) && (c <=? 122)) eqn:A.
      + apply andb_prop in A. destruct A as [A1 A2]. apply N.leb_le in A1. apply N.leb_le in A2.
        replace (97 <=? c - 32) with false by (symmetry; apply N.leb_gt; lia). reflexivity.
      + rewrite A. reflexivity.
    - destruct ((65 <=? c) && (c <=? 90)) eqn:A.
      + apply andb_prop in A. destruct A as [A1 A2]. apply N.leb_le in A1. apply N.leb_le in A2.
        replace (c + 32 <=? 90) with false by (symmetry; apply N.leb_gt; lia). rewrite andb_false_r. reflexivity.
      + rewrite A. reflexivity. }
  rewrite E. f_equal. apply IH.
Qed.

(* the lookup does not depend on the spelling of the header name: any two names with the same canonical form *)
Theorem header_get_spelling : forall lines k1 k2, canon_key k1 = canon_key k2 -> header_get lines k1 = header_get lines k2.
Proof. intros lines k1 k2 H. unfold header_get. rewrite H. reflexivity. Qed.

Theorem header_get_first : forall k v rest key, canon_key k = canon_key key -> header_get ((k, v) :: rest) key = trim_ows v.
Proof. intros k v rest key H. unfold header_get. cbn. rewrite H, beq_refl. reflexivity. Qed.

Theorem header_get_skip : forall k v rest key, canon_key k <> canon_key key -> header_get ((k, v) :: rest) key = header_get rest key.
Proof.
  intros k v rest key H. unfold header_get. cbn. destruct (beq (canon_key k) (canon_key key)) eqn:E; [|reflexivity].
  apply beq_true in E. contradiction.
Qed.
