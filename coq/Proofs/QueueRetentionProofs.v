(* QueueRetentionProofs.v — the outgoing queues of QueuePacketConn (Model/QueueConn.v over
   Model/ClientMap.v) over ARBITRARY histories: writes, receives through OutgoingQueue, receives on
   a queue obtained earlier, and sweeps, with real queue contents.

   1. [qstep_rec]: the exact effect of every operation on the record (last seen, queue identity,
      queue contents) of every client address.
   2. retention at a sweep ([sweep_kept], [sweep_not_early], [sweep_removed]) with contents, and the
      closed-queue bookkeeping ([dead_ok]: a queue that is in the map is not closed).
   3. [epoch_fifo]: first-in-first-out per address over arbitrary histories, counted since the
      address's queue was (re)created; what was queued at an expiry goes with the closed queue.
   4. the sweeper goroutine of NewClientMap as sweeps at phase + k*period ([ticked]): an idle
      client is kept at every sweep before last_seen + timeout and gone at every sweep from then
      on, the first of which comes before last_seen + timeout + period. *)
From Coq Require Import List NArith ZArith Bool Arith Lia Permutation.
From Snow Require Import Model.GoHeap Model.ClientMap Model.QueueConn.
From Snow Require Import Proofs.GoHeapProofs Proofs.ClientMapProofs Proofs.QueueOutProofs.
Import ListNotations.

(* ---------------------------------------------------------------- small facts *)

Lemma set_q_id : forall r, set_q r (c_q r) = r.
Proof. destruct r; reflexivity. Qed.

Lemma rec_of_unique : forall c a r, cm_inv c -> In r (byAge c) -> c_addr r = a -> rec_of c a = Some r.
Proof. intros c a r H Hin <-. apply rec_of_in; auto. Qed.

Lemma qid_unique : forall c r1 r2, cm_inv c -> In r1 (byAge c) -> In r2 (byAge c) ->
  c_qid r1 = c_qid r2 -> r1 = r2.
Proof.
  intros c r1 r2 (_ & _ & _ & _ & Hnd & _) H1 H2 E.
  apply In_nth_error in H1, H2. destruct H1 as [i Hi], H2 as [j Hj].
  assert (i = j).
  { apply (proj1 (NoDup_nth_error (map c_qid (byAge c))) Hnd).
    - rewrite map_length. eapply nth_error_lt; eauto.
    - rewrite (map_nth_error c_qid _ _ Hi), (map_nth_error c_qid _ _ Hj). congruence. }
  subst. congruence.
Qed.

Definition rcv_of (q : list payload) : rcv := match q with [] => RcvEmpty | p :: _ => RcvPkt p end.

(* ---------------------------------------------------------------- channel operations, per address *)

Lemma q_send_rec : forall cap p c b rb, cm_inv c -> rec_of c b = Some rb ->
  snd (q_send cap (c_qid rb) p c) = (length (c_q rb) <? cap) /\
  cm_inv (fst (q_send cap (c_qid rb) p c)) /\
  dead (fst (q_send cap (c_qid rb) p c)) = dead c /\
  next_qid (fst (q_send cap (c_qid rb) p c)) = next_qid c /\
  (forall x, rec_of (fst (q_send cap (c_qid rb) p c)) x =
     if N.eqb b x then Some (if length (c_q rb) <? cap then set_q rb (c_q rb ++ [p]) else rb) else rec_of c x).
Proof.
  intros cap p c b rb Hinv Hrec.
  destruct (rec_of_locate c b rb Hinv Hrec) as (i & Hi & Hf & Ha).
  unfold q_send. rewrite Hf, Hi. destruct (length (c_q rb) <? cap) eqn:L; simpl.
  - split; auto. split; [apply cm_inv_set_q; auto|]. split; auto. split; auto.
    intro x. rewrite rec_of_set_q; auto. rewrite Ha. reflexivity.
  - split; auto. split; auto. split; auto. split; auto.
    intro x. destruct (N.eqb b x) eqn:E; auto. apply N.eqb_eq in E. subst. auto.
Qed.

Lemma q_recv_rec : forall c b rb, cm_inv c -> rec_of c b = Some rb ->
  snd (q_recv (c_qid rb) c) = rcv_of (c_q rb) /\
  cm_inv (fst (q_recv (c_qid rb) c)) /\
  dead (fst (q_recv (c_qid rb) c)) = dead c /\
  next_qid (fst (q_recv (c_qid rb) c)) = next_qid c /\
  (forall x, rec_of (fst (q_recv (c_qid rb) c)) x =
     if N.eqb b x then Some (set_q rb (tl (c_q rb))) else rec_of c x).
Proof.
  intros c b rb Hinv Hrec.
  destruct (rec_of_locate c b rb Hinv Hrec) as (i & Hi & Hf & Ha).
  unfold q_recv. rewrite Hf, Hi. destruct (c_q rb) as [|p q'] eqn:Hq; simpl.
  - split; auto. split; auto. split; auto. split; auto.
    intro x. destruct (N.eqb b x) eqn:E; auto. apply N.eqb_eq in E. subst x.
    rewrite Hrec. f_equal. rewrite <- Hq. symmetry. apply set_q_id.
  - split; auto. split; [apply cm_inv_set_q; auto|]. split; auto. split; auto.
    intro x. rewrite rec_of_set_q; auto. rewrite Ha. reflexivity.
Qed.

Lemma dead_take_keys : forall k d, map fst (fst (dead_take k d)) = map fst d.
Proof.
  induction d as [|[k' q] t IH]; simpl; auto.
  destruct (Nat.eqb k' k).
  - destruct q; reflexivity.
  - destruct (dead_take k t) as [t' r]. simpl in *. congruence.
Qed.

(* ---------------------------------------------------------------- one step, seen from one address *)

(* what an operation does to the record of address [a]: [ro] is the record before (None: the
   address has no queue), [nq] the next fresh queue identity, [closed] the connection's flag *)
Definition rec_after (cap : nat) (timeout : Z) (a : N) (nq : nat) (closed : bool)
                     (ro : option crec) (o : qop) : option crec :=
  match o with
  | QWrite p b now =>
      if closed then ro
      else if N.eqb b a then
        let r := touch_rec a now nq ro in
        Some (if length (c_q r) <? cap then set_q r (c_q r ++ [p]) else r)
      else ro
  | QOutRecv b now =>
      if N.eqb b a then let r := touch_rec a now nq ro in Some (set_q r (tl (c_q r))) else ro
  | QHeldRecv k =>
      match ro with
      | Some r => if Nat.eqb (c_qid r) k then Some (set_q r (tl (c_q r))) else ro
      | None => None
      end
  | QSweep now =>
      match ro with
      | Some r => if expired now timeout r then None else ro
      | None => None
      end
  | _ => ro
  end.

(* the answer of an operation that concerns address [a] *)
Definition out_after (cap : nat) (a : N) (nq : nat) (closed : bool) (ro : option crec) (o : qop) : option qout :=
  match o with
  | QWrite p b now =>
      if closed then Some OErrClosed
      else if N.eqb b a then
        let r := touch_rec a now nq ro in Some (OWrote (length p) (c_qid r) (length (c_q r) <? cap))
      else None
  | QOutRecv b now =>
      if N.eqb b a then let r := touch_rec a now nq ro in Some (ORecv (c_qid r) (rcv_of (c_q r))) else None
  | QHeldRecv k =>
      match ro with
      | Some r => if Nat.eqb (c_qid r) k then Some (ORecv k (rcv_of (c_q r))) else None
      | None => None
      end
  | _ => None
  end.

Lemma touch_rec_addr : forall c a now, (forall r, rec_of c a = Some r -> c_addr r = a) ->
  c_addr (touch_rec a now (next_qid c) (rec_of c a)) = a.
Proof.
  intros c a now H. destruct (rec_of c a) as [r|] eqn:E; simpl; auto.
Qed.

Theorem qstep_rec : forall cap timeout s o a, cm_inv (clients s) ->
  let ro := rec_of (clients s) a in
  let nq := next_qid (clients s) in
  cm_inv (clients (fst (qstep cap timeout s o))) /\
  rec_of (clients (fst (qstep cap timeout s o))) a = rec_after cap timeout a nq (qclosed s) ro o /\
  (forall x, out_after cap a nq (qclosed s) ro o = Some x -> snd (qstep cap timeout s o) = x).
Proof.
  intros cap timeout s o a Hinv ro nq.
  split; [apply qstep_inv; auto|].
  destruct o as [p b|n|p b now|b now|k|now|].
  - (* QIncoming *)
    simpl. destruct (qclosed s); [|destruct (length (recvq s) <? cap)]; simpl; split; auto; discriminate.
  - (* QRead *)
    simpl. destruct (qclosed s); [|destruct (recvq s) as [|[p b] q]]; simpl; split; auto; discriminate.
  - (* QWrite *)
    unfold qstep. destruct (qclosed s) eqn:Hc.
    + simpl. split; auto. intros x H. inversion H. auto.
    + destruct (send_queue_full b now (clients s) Hinv) as (Hinv1 & Hrec1 & Hk & Hoth & Hdead & Hnq).
      destruct (send_queue b now (clients s)) as [c1 k]. simpl in Hinv1, Hrec1, Hk, Hoth, Hdead, Hnq.
      set (rb := touch_rec b now (next_qid (clients s)) (rec_of (clients s) b)) in *.
      destruct (q_send_rec cap p c1 b rb Hinv1 Hrec1) as (Hok & Hinv2 & Hdead2 & Hnq2 & Hrec2).
      rewrite <- Hk in Hok, Hinv2, Hdead2, Hnq2, Hrec2.
      destruct (q_send cap k p c1) as [c2 ok]. simpl in *.
      rewrite Hrec2. destruct (N.eqb b a) eqn:E.
      * apply N.eqb_eq in E. subst b. fold ro in rb. fold nq in rb. split; auto.
        intros x H. inversion H. subst. reflexivity.
      * split; [|discriminate]. apply Hoth. apply N.eqb_neq in E. auto.
  - (* QOutRecv *)
    unfold qstep.
    destruct (send_queue_full b now (clients s) Hinv) as (Hinv1 & Hrec1 & Hk & Hoth & Hdead & Hnq).
    destruct (send_queue b now (clients s)) as [c1 k]. simpl in Hinv1, Hrec1, Hk, Hoth, Hdead, Hnq.
    set (rb := touch_rec b now (next_qid (clients s)) (rec_of (clients s) b)) in *.
    destruct (q_recv_rec c1 b rb Hinv1 Hrec1) as (Hok & Hinv2 & Hdead2 & Hnq2 & Hrec2).
    rewrite <- Hk in Hok, Hinv2, Hdead2, Hnq2, Hrec2.
    destruct (q_recv k c1) as [c2 x0]. simpl in *.
    rewrite Hrec2. destruct (N.eqb b a) eqn:E.
    + apply N.eqb_eq in E. subst b. fold ro in rb. fold nq in rb. split; auto.
      intros x H. inversion H. subst. reflexivity.
    + split; [|discriminate]. apply Hoth. apply N.eqb_neq in E. auto.
  - (* QHeldRecv *)
    unfold qstep.
    destruct (find_qid k (byAge (clients s))) as [i|] eqn:F.
    + destruct (find_qid_some _ _ _ F) as (rk & Hrk & Hqk).
      assert (Hin : In rk (byAge (clients s))) by (eapply nth_error_In; eauto).
      assert (Hrec : rec_of (clients s) (c_addr rk) = Some rk) by (apply rec_of_in; auto).
      destruct (q_recv_rec (clients s) (c_addr rk) rk Hinv Hrec) as (Hok & Hinv2 & Hdead2 & Hnq2 & Hrec2).
      rewrite Hqk in Hok, Hinv2, Hdead2, Hnq2, Hrec2.
      destruct (q_recv k (clients s)) as [c2 x0]. simpl in *.
      rewrite Hrec2. unfold ro. destruct (rec_of (clients s) a) as [r|] eqn:Ea.
      * destruct (Nat.eqb (c_qid r) k) eqn:Ek.
        -- apply Nat.eqb_eq in Ek.
           assert (r = rk).
           { apply (qid_unique (clients s)); auto; [apply (rec_of_some _ _ _ Ea) | congruence]. }
           subst rk. destruct (rec_of_some _ _ _ Ea) as [_ Haddr]. rewrite Haddr, N.eqb_refl.
           split; auto. intros x H. inversion H. subst. auto.
        -- destruct (N.eqb (c_addr rk) a) eqn:E.
           ++ apply N.eqb_eq in E. rewrite E in Hrec. rewrite Ea in Hrec. inversion Hrec. subst.
              rewrite Nat.eqb_refl in Ek. discriminate.
           ++ split; [auto | discriminate].
      * destruct (N.eqb (c_addr rk) a) eqn:E.
        -- apply N.eqb_eq in E. rewrite E in Hrec. congruence.
        -- split; [auto | discriminate].
    + assert (Hsame : byAge (fst (q_recv k (clients s))) = byAge (clients s)).
      { unfold q_recv. rewrite F. destruct (dead_take k (dead (clients s))). reflexivity. }
      destruct (q_recv k (clients s)) as [c2 x0]. simpl in *.
      assert (Hr : rec_of c2 a = rec_of (clients s) a) by (unfold rec_of; rewrite Hsame; auto).
      rewrite Hr. unfold ro. destruct (rec_of (clients s) a) as [r|] eqn:Ea.
      * destruct (Nat.eqb (c_qid r) k) eqn:Ek.
        -- apply Nat.eqb_eq in Ek. exfalso.
           destruct (rec_of_locate _ _ _ Hinv Ea) as (i & _ & Hf & _). congruence.
        -- split; [auto | discriminate].
      * split; [auto | discriminate].
  - (* QSweep *)
    simpl.
    pose proof (remove_expired_aux_spec (length (byAge (clients s))) now timeout (clients s) Hinv (Nat.le_refl _))
      as (I1 & I2 & I3 & I4 & I5 & I6 & I7).
    fold (remove_expired now timeout (clients s)) in *.
    set (c' := remove_expired now timeout (clients s)) in *.
    split; [|discriminate]. unfold ro.
    destruct (rec_of (clients s) a) as [r|] eqn:Ea.
    + destruct (rec_of_some _ _ _ Ea) as [Hin Haddr].
      destruct (expired now timeout r) eqn:Ex.
      * destruct (rec_of c' a) as [r2|] eqn:E2; auto. exfalso.
        destruct (rec_of_some _ _ _ E2) as [Hin2 Haddr2].
        assert (r2 = r).
        { pose proof (rec_of_unique _ a r2 Hinv (I5 _ Hin2) Haddr2). congruence. }
        subst. rewrite (I3 _ Hin2) in Ex. discriminate.
      * destruct (I4 r Hin) as [Hk|[Hex _]]; [|congruence].
        apply rec_of_unique; auto.
    + destruct (rec_of c' a) as [r2|] eqn:E2; auto. exfalso.
      destruct (rec_of_some _ _ _ E2) as [Hin2 Haddr2].
      pose proof (rec_of_unique _ a r2 Hinv (I5 _ Hin2) Haddr2). congruence.
  - (* QClose *)
    simpl. destruct (qclosed s); simpl; split; auto; discriminate.
Qed.

(* ---------------------------------------------------------------- closed queues *)

(* a queue that is in the map has not been closed; identities of closed queues are never handed out again *)
Definition dead_ok (c : cmap) : Prop :=
  (forall e, In e (dead c) -> fst e < next_qid c) /\
  (forall e r, In e (dead c) -> In r (byAge c) -> fst e <> c_qid r).

Lemma dead_ok_empty : dead_ok cm_empty.
Proof. split; simpl; tauto. Qed.

Lemma in_byAge_rec_of : forall c r, cm_inv c -> In r (byAge c) <-> rec_of c (c_addr r) = Some r.
Proof.
  intros c r H. split; [apply rec_of_in; auto | intro E; apply (rec_of_some _ _ _ E)].
Qed.

Lemma send_queue_dead_ok : forall a now c, cm_inv c -> dead_ok c -> dead_ok (fst (send_queue a now c)).
Proof.
  intros a now c Hinv [D1 D2].
  destruct (send_queue_full a now c Hinv) as (Hinv1 & Hrec1 & _ & Hoth & Hdead & Hnq).
  set (c' := fst (send_queue a now c)) in *.
  assert (Hle : next_qid c <= next_qid c') by (rewrite Hnq; destruct (rec_of c a); lia).
  split; rewrite Hdead.
  - intros e He. specialize (D1 e He). lia.
  - intros e r He Hr. apply (in_byAge_rec_of c' r Hinv1) in Hr.
    destruct (N.eq_dec (c_addr r) a) as [E|E].
    + rewrite E, Hrec1 in Hr. inversion Hr as [Hr']. clear Hr.
      destruct (rec_of c a) as [r0|] eqn:E0; simpl.
      * apply D2; auto. apply (rec_of_some _ _ _ E0).
      * specialize (D1 e He). lia.
    + rewrite Hoth in Hr by auto. apply D2; auto. apply (rec_of_some _ _ _ Hr).
Qed.

Lemma set_q_dead_ok : forall c i r q, dead_ok c -> nth_error (byAge c) i = Some r ->
  dead_ok (set_byAge c (set_nth i (set_q r q) (byAge c))).
Proof.
  intros c i r q [D1 D2] Hr. split; simpl; auto.
  intros e x He Hx.
  assert (H : In (c_qid x) (map c_qid (set_nth i (set_q r q) (byAge c)))) by (apply in_map; auto).
  rewrite (map_set_nth_same _ _ c_qid _ i (set_q r q) r Hr eq_refl) in H.
  apply in_map_iff in H. destruct H as (y & Hy1 & Hy2). rewrite <- Hy1. auto.
Qed.

Lemma q_send_dead_ok : forall cap k p c, dead_ok c -> dead_ok (fst (q_send cap k p c)).
Proof.
  intros cap k p c H. unfold q_send.
  destruct (find_qid k (byAge c)) as [i|]; auto.
  destruct (nth_error (byAge c) i) as [r|] eqn:Hr; auto.
  destruct (length (c_q r) <? cap); auto. simpl. apply set_q_dead_ok; auto.
Qed.

Lemma q_recv_dead_ok : forall k c, dead_ok c -> dead_ok (fst (q_recv k c)).
Proof.
  intros k c H. unfold q_recv.
  destruct (find_qid k (byAge c)) as [i|].
  - destruct (nth_error (byAge c) i) as [r|] eqn:Hr; auto.
    destruct (c_q r); auto. simpl. apply set_q_dead_ok; auto.
  - pose proof (dead_take_keys k (dead c)) as K.
    destruct (dead_take k (dead c)) as [d r]. simpl in *. destruct H as [D1 D2].
    assert (Hin : forall e, In e d -> exists e0, In e0 (dead c) /\ fst e0 = fst e).
    { intros e He. assert (X : In (fst e) (map fst d)) by (apply in_map; auto).
      rewrite K in X. apply in_map_iff in X. destruct X as (e0 & X1 & X2). eauto. }
    split; simpl.
    + intros e He. destruct (Hin e He) as (e0 & H1 & H2). rewrite <- H2. auto.
    + intros e x He Hx. destruct (Hin e He) as (e0 & H1 & H2). rewrite <- H2. auto.
Qed.

Lemma remove_expired_dead_ok : forall now timeout c, cm_inv c -> dead_ok c ->
  dead_ok (remove_expired now timeout c).
Proof.
  intros now timeout c Hinv [D1 D2].
  pose proof (remove_expired_aux_spec (length (byAge c)) now timeout c Hinv (Nat.le_refl _))
    as (I1 & I2 & I3 & I4 & I5 & I6 & I7).
  fold (remove_expired now timeout c) in *. set (c' := remove_expired now timeout c) in *.
  pose proof Hinv as (_ & _ & _ & _ & _ & Hb).
  split.
  - intros e He. rewrite I2. destruct (I7 e He) as [H|(r & R1 & R2 & _)]; auto.
    subst e. simpl. auto.
  - intros e x He Hx. destruct (I7 e He) as [H|(r & R1 & R2 & _ & R4)].
    + apply D2; auto.
    + subst e. simpl. intro E. apply R4.
      assert (r = x) by (apply (qid_unique c); auto). subst. auto.
Qed.

Lemma qstep_dead_ok : forall cap timeout s o, cm_inv (clients s) -> dead_ok (clients s) ->
  dead_ok (clients (fst (qstep cap timeout s o))).
Proof.
  intros cap timeout s o Hinv Hd. destruct o; simpl.
  - destruct (qclosed s); auto. destruct (length (recvq s) <? cap); auto.
  - destruct (qclosed s); auto. destruct (recvq s) as [|[p a] q]; auto.
  - destruct (qclosed s); auto.
    pose proof (send_queue_dead_ok a now (clients s) Hinv Hd) as H1.
    destruct (send_queue a now (clients s)) as [c1 k]. simpl in H1.
    pose proof (q_send_dead_ok cap k p c1 H1) as H2.
    destruct (q_send cap k p c1) as [c2 ok]. simpl in *. auto.
  - pose proof (send_queue_dead_ok a now (clients s) Hinv Hd) as H1.
    destruct (send_queue a now (clients s)) as [c1 k]. simpl in H1.
    pose proof (q_recv_dead_ok k c1 H1) as H2.
    destruct (q_recv k c1) as [c2 r]. simpl in *. auto.
  - pose proof (q_recv_dead_ok k (clients s) Hd) as H2.
    destruct (q_recv k (clients s)) as [c2 r]. simpl in *. auto.
  - apply remove_expired_dead_ok; auto.
  - destruct (qclosed s); auto.
Qed.

Lemma qrun_dead_ok : forall cap timeout ops s, cm_inv (clients s) -> dead_ok (clients s) ->
  dead_ok (clients (fst (qrun cap timeout ops s))).
Proof.
  induction ops as [|o ops IH]; intros s Hinv Hd; simpl; auto.
  pose proof (qstep_inv cap timeout s o Hinv) as H1.
  pose proof (qstep_dead_ok cap timeout s o Hinv Hd) as H2.
  destruct (qstep cap timeout s o) as [s1 r]. simpl in H1, H2.
  specialize (IH s1 H1 H2). destruct (qrun cap timeout ops s1) as [s2 rs]. simpl in *. auto.
Qed.

(* the identities of closed queues only accumulate *)
Lemma qstep_dead_keys : forall cap timeout s o k, cm_inv (clients s) ->
  In k (map fst (dead (clients s))) -> In k (map fst (dead (clients (fst (qstep cap timeout s o))))).
Proof.
  intros cap timeout s o k Hinv Hk. destruct o; simpl.
  - destruct (qclosed s); auto. destruct (length (recvq s) <? cap); auto.
  - destruct (qclosed s); auto. destruct (recvq s) as [|[p a] q]; auto.
  - destruct (qclosed s); auto.
    destruct (send_queue_full a now (clients s) Hinv) as (Hinv1 & Hrec1 & Hk1 & _ & Hdead & _).
    destruct (send_queue a now (clients s)) as [c1 k1]. simpl in *.
    destruct (q_send_rec cap p c1 a _ Hinv1 Hrec1) as (_ & _ & Hdead2 & _).
    rewrite <- Hk1 in Hdead2. destruct (q_send cap k1 p c1) as [c2 ok]. simpl in *. congruence.
  - destruct (send_queue_full a now (clients s) Hinv) as (Hinv1 & Hrec1 & Hk1 & _ & Hdead & _).
    destruct (send_queue a now (clients s)) as [c1 k1]. simpl in *.
    destruct (q_recv_rec c1 a _ Hinv1 Hrec1) as (_ & _ & Hdead2 & _).
    rewrite <- Hk1 in Hdead2. destruct (q_recv k1 c1) as [c2 x]. simpl in *. congruence.
  - unfold q_recv. destruct (find_qid k0 (byAge (clients s))) as [i|].
    + destruct (nth_error (byAge (clients s)) i) as [r|]; auto. destruct (c_q r); auto.
    + pose proof (dead_take_keys k0 (dead (clients s))) as K.
      destruct (dead_take k0 (dead (clients s))) as [d r]. simpl in *. congruence.
  - pose proof (remove_expired_aux_spec (length (byAge (clients s))) now timeout (clients s) Hinv (Nat.le_refl _))
      as (_ & _ & _ & _ & _ & I6 & _).
    fold (remove_expired now timeout (clients s)) in *.
    apply in_map_iff in Hk. destruct Hk as (e & E1 & E2). apply in_map_iff. exists e. auto.
  - destruct (qclosed s); auto.
Qed.

(* ---------------------------------------------------------------- retention at a sweep, with contents *)

Section Sweep.
  Variable cap : nat.
  Variable timeout : Z.

  Definition after_sweep (s : qconn) (now : Z) : qconn := fst (qstep cap timeout s (QSweep now)).

  (* kept: the same record -- same queue identity, same last-seen, same contents in the same
     order -- and the queue is not closed *)
  Theorem sweep_kept : forall s now a r, cm_inv (clients s) -> dead_ok (clients s) ->
    rec_of (clients s) a = Some r -> (now - c_seen r < timeout)%Z ->
    rec_of (clients (after_sweep s now)) a = Some r /\
    out_q (clients (after_sweep s now)) a = c_q r /\
    ~ In (c_qid r) (map fst (dead (clients (after_sweep s now)))).
  Proof.
    intros s now a r Hinv Hd Hrec Hlt. unfold after_sweep.
    destruct (qstep_rec cap timeout s (QSweep now) a Hinv) as (Hinv1 & Hrec1 & _).
    pose proof (qstep_dead_ok cap timeout s (QSweep now) Hinv Hd) as [_ D2].
    rewrite Hrec in Hrec1. simpl in Hrec1.
    assert (Ex : expired now timeout r = false).
    { unfold expired. rewrite Z.geb_leb. apply Z.leb_gt. lia. }
    rewrite Ex in Hrec1. simpl. split; auto. split.
    - unfold out_q. rewrite Hrec1. auto.
    - intro X. apply in_map_iff in X. destruct X as (e & E1 & E2).
      apply (D2 e r E2); auto. apply (rec_of_some _ _ _ Hrec1).
  Qed.

  (* nothing is removed, and no queue is closed, before the full timeout; a sweep creates nothing *)
  Theorem sweep_not_early : forall s now, cm_inv (clients s) ->
    (forall a r, rec_of (clients s) a = Some r -> rec_of (clients (after_sweep s now)) a <> Some r ->
       (now - c_seen r >= timeout)%Z /\ rec_of (clients (after_sweep s now)) a = None) /\
    (forall e, In e (dead (clients (after_sweep s now))) -> ~ In e (dead (clients s)) ->
       exists r, rec_of (clients s) (c_addr r) = Some r /\ e = (c_qid r, c_q r) /\ (now - c_seen r >= timeout)%Z) /\
    (forall a r, rec_of (clients (after_sweep s now)) a = Some r -> rec_of (clients s) a = Some r).
  Proof.
    intros s now Hinv. unfold after_sweep.
    assert (Hex: forall r, expired now timeout r = true -> (now - c_seen r >= timeout)%Z).
    { intros r H. unfold expired in H. rewrite Z.geb_leb in H. apply Z.leb_le in H. lia. }
    split; [|split].
    - intros a r Hrec Hne.
      destruct (qstep_rec cap timeout s (QSweep now) a Hinv) as (_ & Hrec1 & _).
      rewrite Hrec in Hrec1. simpl in Hrec1, Hne |- *.
      destruct (expired now timeout r) eqn:Ex; [|congruence]. auto.
    - intros e He Hn. simpl in He.
      pose proof (remove_expired_aux_spec (length (byAge (clients s))) now timeout (clients s) Hinv (Nat.le_refl _))
        as (_ & _ & _ & _ & _ & _ & I7).
      destruct (I7 e He) as [H|(r & R1 & R2 & R3 & _)]; [contradiction|].
      exists r. split; [apply rec_of_in; auto|]. auto.
    - intros a r Hrec1.
      destruct (qstep_rec cap timeout s (QSweep now) a Hinv) as (_ & Hrec & _).
      simpl in Hrec1, Hrec. rewrite Hrec1 in Hrec.
      destruct (rec_of (clients s) a) as [r0|]; [|discriminate].
      destruct (expired now timeout r0); [discriminate | congruence].
  Qed.

  (* removed: the address has no queue any more, the queue is closed with exactly what was in it *)
  Theorem sweep_removed : forall s now a r, cm_inv (clients s) ->
    rec_of (clients s) a = Some r -> (now - c_seen r >= timeout)%Z ->
    rec_of (clients (after_sweep s now)) a = None /\
    out_q (clients (after_sweep s now)) a = [] /\
    In (c_qid r, c_q r) (dead (clients (after_sweep s now))) /\
    (forall r', In r' (byAge (clients (after_sweep s now))) -> c_qid r' <> c_qid r).
  Proof.
    intros s now a r Hinv Hrec Hge. unfold after_sweep.
    destruct (qstep_rec cap timeout s (QSweep now) a Hinv) as (Hinv1 & Hrec1 & _).
    rewrite Hrec in Hrec1. simpl in Hrec1.
    assert (Ex : expired now timeout r = true).
    { unfold expired. rewrite Z.geb_leb. apply Z.leb_le. lia. }
    rewrite Ex in Hrec1. simpl. split; auto. split; [unfold out_q; rewrite Hrec1; auto|].
    pose proof (remove_expired_aux_spec (length (byAge (clients s))) now timeout (clients s) Hinv (Nat.le_refl _))
      as (_ & _ & I3 & I4 & I5 & _).
    fold (remove_expired now timeout (clients s)) in *.
    destruct (rec_of_some _ _ _ Hrec) as [Hin _].
    split.
    - destruct (I4 r Hin) as [H|[_ H]]; auto. rewrite (I3 _ H) in Ex. discriminate.
    - intros r' Hr' E.
      assert (r' = r) by (apply (qid_unique (clients s)); auto). subst.
      rewrite (I3 _ Hr') in Ex. discriminate.
  Qed.
End Sweep.

(* after an expiry the address gets a NEW queue: a fresh identity (greater than that of every queue
   ever made, open or closed), empty -- what was queued before the expiry is not in it *)
Theorem new_queue_fresh : forall c a now, cm_inv c -> dead_ok c -> rec_of c a = None ->
  let c' := fst (send_queue a now c) in
  let k := snd (send_queue a now c) in
  rec_of c' a = Some (mkrec a now k []) /\ k = next_qid c /\
  (forall r, In r (byAge c) -> c_qid r < k) /\ (forall e, In e (dead c) -> fst e < k).
Proof.
  intros c a now Hinv [D1 _] Hnone.
  destruct (send_queue_full a now c Hinv) as (_ & Hrec1 & Hk & _).
  rewrite Hnone in Hrec1, Hk. simpl in *. rewrite Hk. split; auto. split; auto.
  destruct Hinv as (_ & _ & _ & _ & _ & Hb). split; auto.
Qed.

(* ---------------------------------------------------------------- FIFO per address, arbitrary histories *)

(* Bookkeeping over the observable trace (operations and their answers) for one address [a]:
   None = [a] has no queue; Some e = [a] has a queue, e_seen = the clock reading of the last
   operation that looked it up, e_qid = its identity, e_w = the packets WriteTo(_, a) enqueued and
   e_r = the packets receivers took from it, both SINCE THE QUEUE WAS CREATED.  A sweep at [now]
   ends the epoch iff now - e_seen >= timeout. *)
Record epoch := mkep { e_seen : Z; e_qid : nat; e_w : list payload; e_r : list payload }.

Definition ep_step (timeout : Z) (a : N) (st : option epoch) (o : qop) (r : qout) : option epoch :=
  match o, r with
  | QWrite p b now, OWrote _ k ok =>
      if N.eqb b a then
        match st with
        | Some e => Some (mkep now (e_qid e) (if ok then e_w e ++ [p] else e_w e) (e_r e))
        | None => Some (mkep now k (if ok then [p] else []) [])
        end
      else st
  | QOutRecv b now, ORecv k x =>
      if N.eqb b a then
        let got := match x with RcvPkt p => [p] | _ => [] end in
        match st with
        | Some e => Some (mkep now (e_qid e) (e_w e) (e_r e ++ got))
        | None => Some (mkep now k [] got)
        end
      else st
  | QHeldRecv k', ORecv _ (RcvPkt p) =>
      match st with
      | Some e => if Nat.eqb (e_qid e) k' then Some (mkep (e_seen e) (e_qid e) (e_w e) (e_r e ++ [p])) else st
      | None => None
      end
  | QSweep now, _ =>
      match st with
      | Some e => if (now - e_seen e >=? timeout)%Z then None else st
      | None => None
      end
  | _, _ => st
  end.

Fixpoint ep_run (timeout : Z) (a : N) (st : option epoch) (ops : list qop) (outs : list qout) : option epoch :=
  match ops, outs with
  | o :: ops', r :: outs' => ep_run timeout a (ep_step timeout a st o r) ops' outs'
  | _, _ => st
  end.

Definition ep_inv (a : N) (st : option epoch) (c : cmap) : Prop :=
  match st with
  | None => rec_of c a = None
  | Some e => exists r, rec_of c a = Some r /\ c_seen r = e_seen e /\ c_qid r = e_qid e /\
                        e_w e = e_r e ++ c_q r
  end.

Lemma ep_inv_same : forall a st c c', rec_of c' a = rec_of c a -> ep_inv a st c -> ep_inv a st c'.
Proof. intros a st c c' E H. unfold ep_inv in *. destruct st; rewrite E; auto. Qed.

Lemma ep_step_other : forall timeout a st o r,
  match o with QIncoming _ _ | QRead _ | QClose => True | _ => False end -> ep_step timeout a st o r = st.
Proof. intros timeout a st o r H. destruct o; try contradiction; destruct r; reflexivity. Qed.

Lemma ep_step_write_other : forall timeout a st p b now r, N.eqb b a = false ->
  ep_step timeout a st (QWrite p b now) r = st.
Proof. intros. destruct r; simpl; try rewrite H; reflexivity. Qed.

Lemma ep_step_outrecv_other : forall timeout a st b now r, N.eqb b a = false ->
  ep_step timeout a st (QOutRecv b now) r = st.
Proof. intros. destruct r; simpl; try rewrite H; reflexivity. Qed.

Lemma ep_step_inv : forall cap timeout s o a st, cm_inv (clients s) -> ep_inv a st (clients s) ->
  ep_inv a (ep_step timeout a st o (snd (qstep cap timeout s o))) (clients (fst (qstep cap timeout s o))).
Proof.
  intros cap timeout s o a st Hinv Hep.
  destruct (qstep_rec cap timeout s o a Hinv) as (_ & Hrec & Hout).
  destruct o as [p b|n|p b now|b now|k|now|].
  - (* QIncoming *) rewrite ep_step_other by exact I. eapply ep_inv_same; eauto.
  - (* QRead *) rewrite ep_step_other by exact I. eapply ep_inv_same; eauto.
  - (* QWrite *)
    unfold rec_after in Hrec. unfold out_after in Hout. destruct (qclosed s) eqn:Hc.
    + rewrite (Hout _ eq_refl). eapply ep_inv_same; [exact Hrec | exact Hep].
    + destruct (N.eqb b a) eqn:E.
      * rewrite (Hout _ eq_refl). unfold ep_step. rewrite E.
        destruct st as [e|]; simpl in Hep.
        -- destruct Hep as (r & H1 & H2 & H3 & H4). rewrite H1 in Hrec. simpl in Hrec. rewrite H1. simpl.
           destruct (length (c_q r) <? cap); simpl; eexists; (split; [exact Hrec|]); simpl;
             (split; [auto|]); (split; [auto|]).
           ++ rewrite H4. rewrite app_assoc. reflexivity.
           ++ auto.
        -- rewrite Hep in Hrec. simpl in Hrec. rewrite Hep. simpl.
           destruct (0 <? cap); simpl; eexists; (split; [exact Hrec|]); simpl; auto.
      * rewrite ep_step_write_other by auto. eapply ep_inv_same; eauto.
  - (* QOutRecv *)
    unfold rec_after in Hrec. unfold out_after in Hout. destruct (N.eqb b a) eqn:E.
    + rewrite (Hout _ eq_refl). unfold ep_step. rewrite E.
      destruct st as [e|]; simpl in Hep.
      * destruct Hep as (r & H1 & H2 & H3 & H4). rewrite H1 in Hrec. simpl in Hrec. rewrite H1. simpl.
        eexists; (split; [exact Hrec|]); simpl. split; auto. split; auto.
        rewrite H4. destruct (c_q r); simpl; rewrite ?app_nil_r, <- ?app_assoc; auto.
      * rewrite Hep in Hrec. simpl in Hrec. rewrite Hep. simpl.
        eexists; (split; [exact Hrec|]); simpl. auto.
    + rewrite ep_step_outrecv_other by auto. eapply ep_inv_same; eauto.
  - (* QHeldRecv *)
    unfold rec_after in Hrec. unfold out_after in Hout.
    assert (Hshape : exists x, snd (qstep cap timeout s (QHeldRecv k)) = ORecv k x).
    { simpl. destruct (q_recv k (clients s)) as [c2 x]. simpl. eauto. }
    destruct Hshape as (x & Hs). rewrite Hs in *.
    destruct st as [e|]; simpl in Hep.
    + destruct Hep as (r & H1 & H2 & H3 & H4). rewrite H1 in Hrec, Hout. simpl in Hrec, Hout.
      unfold ep_step. rewrite <- H3.
      destruct (Nat.eqb (c_qid r) k) eqn:Ek.
      * specialize (Hout _ eq_refl). inversion Hout as [Hx]. clear Hout.
        destruct (c_q r) as [|p q'] eqn:Hq; simpl.
        -- exists r. rewrite Hrec. simpl tl. split; [f_equal; rewrite <- Hq; apply set_q_id|]. rewrite Hq. auto.
        -- eexists; (split; [exact Hrec|]); simpl. split; auto. split; auto.
           rewrite H4, <- app_assoc. reflexivity.
      * destruct x as [p| |]; simpl; exists r; rewrite Hrec; auto.
    + rewrite Hep in Hrec. simpl in Hrec. unfold ep_step. destruct x; simpl; auto.
  - (* QSweep *)
    unfold rec_after in Hrec. unfold ep_step.
    destruct st as [e|]; simpl in Hep.
    + destruct Hep as (r & H1 & H2 & H3 & H4). rewrite H1 in Hrec. unfold expired in Hrec. rewrite H2 in Hrec.
      destruct (now - e_seen e >=? timeout)%Z; simpl; auto. exists r. auto.
    + rewrite Hep in Hrec. auto.
  - (* QClose *) rewrite ep_step_other by exact I. eapply ep_inv_same; eauto.
Qed.

Theorem epoch_fifo : forall cap timeout ops a s st, cm_inv (clients s) -> ep_inv a st (clients s) ->
  cm_inv (clients (fst (qrun cap timeout ops s))) /\
  ep_inv a (ep_run timeout a st ops (snd (qrun cap timeout ops s))) (clients (fst (qrun cap timeout ops s))).
Proof.
  intros cap timeout ops a. induction ops as [|o ops IH]; intros s st Hinv Hep.
  - simpl. auto.
  - pose proof (qstep_inv cap timeout s o Hinv) as Hinv1.
    pose proof (ep_step_inv cap timeout s o a st Hinv Hep) as Hep1.
    change (qrun cap timeout (o :: ops) s) with
      (let '(s1, r) := qstep cap timeout s o in
       let '(s2, rs) := qrun cap timeout ops s1 in (s2, r :: rs)).
    destruct (qstep cap timeout s o) as [s1 r]. simpl in Hinv1, Hep1.
    specialize (IH s1 (ep_step timeout a st o r) Hinv1 Hep1).
    destruct (qrun cap timeout ops s1) as [s2 rs]. simpl in *. exact IH.
Qed.

(* ---------------------------------------------------------------- idle clients and sweeps *)

(* operations, other than sweeps, that can change the record of [a] (whose queue is [k]) *)
Definition mentions (a : N) (k : nat) (o : qop) : bool :=
  match o with
  | QWrite _ b _ | QOutRecv b _ => N.eqb b a
  | QHeldRecv k' => Nat.eqb k k'
  | _ => false
  end.

Definition is_sweep (o : qop) : bool := match o with QSweep _ => true | _ => false end.

Definition idle_op (a : N) (k : nat) (o : qop) : bool := negb (is_sweep o) && negb (mentions a k o).

Lemma idle_step : forall cap timeout s o a r, cm_inv (clients s) ->
  rec_of (clients s) a = Some r -> idle_op a (c_qid r) o = true ->
  rec_of (clients (fst (qstep cap timeout s o))) a = Some r.
Proof.
  intros cap timeout s o a r Hinv Hrec Hidle.
  destruct (qstep_rec cap timeout s o a Hinv) as (_ & H & _). rewrite H, Hrec.
  unfold idle_op in Hidle. apply andb_prop in Hidle. destruct Hidle as [H1 H2].
  destruct o; simpl in *; auto; try discriminate.
  - destruct (qclosed s); auto. destruct (N.eqb a0 a); auto; discriminate.
  - destruct (N.eqb a0 a); auto; discriminate.
  - destruct (Nat.eqb (c_qid r) k); auto; discriminate.
Qed.

Lemma gone_step : forall cap timeout s o a k, cm_inv (clients s) ->
  rec_of (clients s) a = None -> idle_op a k o = true \/ is_sweep o = true ->
  rec_of (clients (fst (qstep cap timeout s o))) a = None.
Proof.
  intros cap timeout s o a k Hinv Hrec Hidle.
  destruct (qstep_rec cap timeout s o a Hinv) as (_ & H & _). rewrite H, Hrec.
  destruct o; simpl in *; auto.
  - destruct Hidle as [Hi|Hi]; [|discriminate]. unfold idle_op in Hi. simpl in Hi.
    destruct (qclosed s); auto. destruct (N.eqb a0 a); auto; discriminate.
  - destruct Hidle as [Hi|Hi]; [|discriminate]. unfold idle_op in Hi. simpl in Hi.
    destruct (N.eqb a0 a); auto; discriminate.
Qed.

Lemma idle_run : forall cap timeout ops s a r, cm_inv (clients s) ->
  rec_of (clients s) a = Some r -> forallb (idle_op a (c_qid r)) ops = true ->
  rec_of (clients (fst (qrun cap timeout ops s))) a = Some r.
Proof.
  intros cap timeout ops. induction ops as [|o ops IH]; intros s a r Hinv Hrec Hidle; simpl; auto.
  simpl in Hidle. apply andb_prop in Hidle. destruct Hidle as [H1 H2].
  pose proof (qstep_inv cap timeout s o Hinv) as Hinv1.
  pose proof (idle_step cap timeout s o a r Hinv Hrec H1) as Hrec1.
  destruct (qstep cap timeout s o) as [s1 x]. simpl in *.
  specialize (IH s1 a r Hinv1 Hrec1 H2). destruct (qrun cap timeout ops s1) as [s2 rs]. simpl in *. auto.
Qed.

Lemma gone_run : forall cap timeout ops s a k, cm_inv (clients s) ->
  rec_of (clients s) a = None -> forallb (fun o => idle_op a k o || is_sweep o) ops = true ->
  rec_of (clients (fst (qrun cap timeout ops s))) a = None.
Proof.
  intros cap timeout ops. induction ops as [|o ops IH]; intros s a k Hinv Hrec Hidle; simpl; auto.
  simpl in Hidle. apply andb_prop in Hidle. destruct Hidle as [H1 H2].
  pose proof (qstep_inv cap timeout s o Hinv) as Hinv1.
  apply orb_prop in H1.
  pose proof (gone_step cap timeout s o a k Hinv Hrec H1) as Hrec1.
  destruct (qstep cap timeout s o) as [s1 x]. simpl in *.
  specialize (IH s1 a k Hinv1 Hrec1 H2). destruct (qrun cap timeout ops s1) as [s2 rs]. simpl in *. auto.
Qed.

Lemma qrun_dead_keys : forall cap timeout ops s k, cm_inv (clients s) ->
  In k (map fst (dead (clients s))) -> In k (map fst (dead (clients (fst (qrun cap timeout ops s))))).
Proof.
  intros cap timeout ops. induction ops as [|o ops IH]; intros s k Hinv Hk; simpl; auto.
  pose proof (qstep_inv cap timeout s o Hinv) as Hinv1.
  pose proof (qstep_dead_keys cap timeout s o k Hinv Hk) as Hk1.
  destruct (qstep cap timeout s o) as [s1 x]. simpl in *.
  specialize (IH s1 k Hinv1 Hk1). destruct (qrun cap timeout ops s1) as [s2 rs]. simpl in *. auto.
Qed.

Lemma qrun_app : forall cap timeout ops1 ops2 s,
  fst (qrun cap timeout (ops1 ++ ops2) s) = fst (qrun cap timeout ops2 (fst (qrun cap timeout ops1 s))).
Proof.
  intros cap timeout ops1. induction ops1 as [|o ops1 IH]; intros ops2 s; simpl; auto.
  destruct (qstep cap timeout s o) as [s1 r]. specialize (IH ops2 s1).
  destruct (qrun cap timeout (ops1 ++ ops2) s1) as [s2 rs].
  destruct (qrun cap timeout ops1 s1) as [s3 rs3]. simpl in *. auto.
Qed.

(* a history cut at its sweeps: segments of other operations, each followed by a sweep at the given instant *)
Fixpoint swept (segs : list (list qop * Z)) : list qop :=
  match segs with
  | [] => []
  | (seg, tau) :: rest => seg ++ QSweep tau :: swept rest
  end.

Definition idle_segs (a : N) (k : nat) (segs : list (list qop * Z)) : Prop :=
  Forall (fun x => forallb (idle_op a k) (fst x) = true) segs.

Lemma swept_idle_or_sweep : forall a k segs, idle_segs a k segs ->
  forallb (fun o => idle_op a k o || is_sweep o) (swept segs) = true.
Proof.
  intros a k segs H. induction H as [|[seg tau] rest H _ IH]; simpl; auto.
  rewrite forallb_app. apply andb_true_intro. split.
  - apply forallb_forall. intros o Ho. simpl in H.
    rewrite (proj1 (forallb_forall _ _) H o Ho). reflexivity.
  - simpl. exact IH.
Qed.

Lemma idle_segs_gone : forall cap timeout segs s a k, cm_inv (clients s) -> idle_segs a k segs ->
  rec_of (clients s) a = None -> In k (map fst (dead (clients s))) ->
  rec_of (clients (fst (qrun cap timeout (swept segs) s))) a = None /\
  In k (map fst (dead (clients (fst (qrun cap timeout (swept segs) s))))).
Proof.
  intros cap timeout segs s a k Hinv Hidle Hrec Hk. split.
  - apply (gone_run cap timeout (swept segs) s a k Hinv Hrec). apply swept_idle_or_sweep; auto.
  - apply qrun_dead_keys; auto.
Qed.

Theorem swept_idle : forall cap timeout segs s a r, cm_inv (clients s) ->
  rec_of (clients s) a = Some r -> idle_segs a (c_qid r) segs ->
  let s' := fst (qrun cap timeout (swept segs) s) in
  (Forall (fun x => (snd x - c_seen r < timeout)%Z) segs -> rec_of (clients s') a = Some r) /\
  (Exists (fun x => (snd x - c_seen r >= timeout)%Z) segs ->
     rec_of (clients s') a = None /\ In (c_qid r) (map fst (dead (clients s')))).
Proof.
  intros cap timeout segs. induction segs as [|[seg tau] rest IH]; intros s a r Hinv Hrec Hidle; simpl.
  - split; auto. intro X. inversion X.
  - inversion Hidle as [|x l Hseg Hrest]; subst. simpl in Hseg.
    rewrite qrun_app.
    set (s1 := fst (qrun cap timeout seg s)).
    assert (Hinv1 : cm_inv (clients s1)) by (apply qrun_inv; auto).
    assert (Hrec1 : rec_of (clients s1) a = Some r) by (apply idle_run; auto).
    change (qrun cap timeout (QSweep tau :: swept rest) s1) with
      (let '(s2, x) := qstep cap timeout s1 (QSweep tau) in
       let '(s3, rs) := qrun cap timeout (swept rest) s2 in (s3, x :: rs)).
    pose proof (qstep_inv cap timeout s1 (QSweep tau) Hinv1) as Hinv2.
    destruct (Z_lt_ge_dec (tau - c_seen r) timeout) as [Hlt|Hge].
    + (* kept at this sweep *)
      destruct (qstep_rec cap timeout s1 (QSweep tau) a Hinv1) as (_ & Hrec2 & _).
      rewrite Hrec1 in Hrec2. unfold rec_after in Hrec2.
      assert (Ex : expired tau timeout r = false) by (unfold expired; rewrite Z.geb_leb; apply Z.leb_gt; lia).
      rewrite Ex in Hrec2.
      destruct (qstep cap timeout s1 (QSweep tau)) as [s2 x]. simpl in Hinv2, Hrec2.
      specialize (IH s2 a r Hinv2 Hrec2 Hrest). simpl in IH.
      destruct (qrun cap timeout (swept rest) s2) as [s3 rs]. simpl in *.
      destruct IH as [IH1 IH2]. split.
      * intro F. inversion F; subst. auto.
      * intro E. inversion E; subst; auto. simpl in *. lia.
    + (* removed at this sweep, and stays removed *)
      destruct (sweep_removed cap timeout s1 tau a r Hinv1 Hrec1 Hge) as (Hrec2 & _ & Hdead2 & _).
      unfold after_sweep in Hrec2, Hdead2.
      destruct (qstep cap timeout s1 (QSweep tau)) as [s2 x]. simpl in Hinv2, Hrec2, Hdead2.
      assert (Hk : In (c_qid r) (map fst (dead (clients s2)))).
      { apply in_map_iff. exists (c_qid r, c_q r). auto. }
      pose proof (idle_segs_gone cap timeout rest s2 a (c_qid r) Hinv2 Hrest Hrec2 Hk) as G.
      destruct (qrun cap timeout (swept rest) s2) as [s3 rs]. simpl in *.
      split; auto. intro F. inversion F; subst. simpl in *. lia.
Qed.

(* ---------------------------------------------------------------- the sweeper goroutine of NewClientMap *)

(* for { time.Sleep(period); removeExpired(time.Now(), timeout) }, idealised: the k-th sweep is at
   phase + k*period (k = 1, 2, ...; any phase); NewClientMap uses period = timeout/2 *)
Definition tick (phase period : Z) (k : nat) : Z := (phase + Z.of_nat k * period)%Z.

Fixpoint with_ticks (phase period : Z) (k : nat) (segs : list (list qop)) : list (list qop * Z) :=
  match segs with
  | [] => []
  | seg :: rest => (seg, tick phase period (S k)) :: with_ticks phase period (S k) rest
  end.

(* the history: segments of operations that are not sweeps, the i-th followed by the (k+i)-th sweep *)
Definition ticked (phase period : Z) (k : nat) (segs : list (list qop)) : list qop :=
  swept (with_ticks phase period k segs).

Lemma with_ticks_idle : forall phase period a q segs k,
  Forall (fun seg => forallb (idle_op a q) seg = true) segs -> idle_segs a q (with_ticks phase period k segs).
Proof.
  intros phase period a q segs. induction segs as [|seg rest IH]; intros k H; simpl; [constructor|].
  inversion H; subst. constructor; auto. apply IH; auto.
Qed.

Lemma with_ticks_in : forall phase period segs k x, In x (with_ticks phase period k segs) ->
  exists i, 1 <= i <= length segs /\ snd x = tick phase period (k + i).
Proof.
  intros phase period segs. induction segs as [|seg rest IH]; intros k x H; simpl in *; [tauto|].
  destruct H as [H|H].
  - subst x. exists 1. simpl. split; [lia|]. f_equal. lia.
  - destruct (IH (S k) x H) as (i & Hi & E). exists (S i). split; [lia|]. rewrite E. f_equal. lia.
Qed.

Lemma with_ticks_last : forall phase period segs k, segs <> [] ->
  exists seg, In (seg, tick phase period (k + length segs)) (with_ticks phase period k segs).
Proof.
  intros phase period segs. induction segs as [|seg rest IH]; intros k H; [congruence|].
  destruct rest as [|seg2 rest2].
  - exists seg. simpl. left. f_equal. f_equal. lia.
  - destruct (IH (S k) ltac:(discriminate)) as (sg & Hin). exists sg. right.
    replace (k + length (seg :: seg2 :: rest2)) with (S k + length (seg2 :: rest2)) by (simpl; lia). auto.
Qed.

Lemma tick_mono : forall phase period i j, (0 < period)%Z -> i <= j -> (tick phase period i <= tick phase period j)%Z.
Proof. intros. unfold tick. nia. Qed.

(* the first tick at or after [t] (when the k0-th tick is before t) comes before t + period *)
Lemma first_tick : forall phase period k0 t, (0 < period)%Z -> (tick phase period k0 < t)%Z ->
  exists n, 1 <= n /\ (t <= tick phase period (k0 + n) < t + period)%Z /\
            (forall i, i < n -> (tick phase period (k0 + i) < t)%Z).
Proof.
  intros phase period k0 t Hp Hlt. unfold tick in *.
  set (d := (t - (phase + Z.of_nat k0 * period))%Z).
  assert (Hd : (0 < d)%Z) by (unfold d; lia).
  set (n := Z.to_nat ((d + period - 1) / period)).
  pose proof (Z.div_mod (d + period - 1) period ltac:(lia)) as Hdm.
  pose proof (Z.mod_pos_bound (d + period - 1) period Hp) as Hmb.
  assert (Hq : (1 <= (d + period - 1) / period)%Z).
  { apply Z.div_le_lower_bound; lia. }
  assert (Hn : Z.of_nat n = ((d + period - 1) / period)%Z) by (unfold n; rewrite Z2Nat.id; lia).
  exists n. split; [lia|]. split.
  - rewrite Nat2Z.inj_add, Hn. unfold d in *. nia.
  - intros i Hi. rewrite Nat2Z.inj_add.
    assert (Z.of_nat i <= (d + period - 1) / period - 1)%Z by lia. unfold d in *. nia.
Qed.

Theorem ticker_window : forall cap timeout phase period k0 segs s a r,
  (0 < period)%Z -> cm_inv (clients s) ->
  rec_of (clients s) a = Some r ->
  Forall (fun seg => forallb (idle_op a (c_qid r)) seg = true) segs -> segs <> [] ->
  let tau := tick phase period (k0 + length segs) in
  let s' := fst (qrun cap timeout (ticked phase period k0 segs) s) in
  ((tau < c_seen r + timeout)%Z -> rec_of (clients s') a = Some r) /\
  ((tau >= c_seen r + timeout)%Z -> rec_of (clients s') a = None /\ In (c_qid r) (map fst (dead (clients s')))).
Proof.
  intros cap timeout phase period k0 segs s a r Hp Hinv Hrec Hidle Hne tau s'.
  pose proof (with_ticks_idle phase period a (c_qid r) segs k0 Hidle) as Hidle'.
  destruct (swept_idle cap timeout (with_ticks phase period k0 segs) s a r Hinv Hrec Hidle') as [K G].
  fold (ticked phase period k0 segs) in K, G. fold s' in K, G.
  split.
  - intro Hlt. apply K. apply Forall_forall. intros x Hx.
    destruct (with_ticks_in _ _ _ _ _ Hx) as (i & Hi & E). rewrite E.
    pose proof (tick_mono phase period (k0 + i) (k0 + length segs) Hp ltac:(lia)). unfold tau in Hlt. lia.
  - intro Hge. apply G. apply Exists_exists.
    destruct (with_ticks_last phase period segs k0 Hne) as (sg & Hin).
    exists (sg, tick phase period (k0 + length segs)). split; auto. simpl. unfold tau in Hge. lia.
Qed.

Lemma swept_app : forall l1 l2, swept (l1 ++ l2) = swept l1 ++ swept l2.
Proof.
  induction l1 as [|[seg tau] l1 IH]; intros l2; simpl; auto.
  rewrite IH, <- app_assoc. reflexivity.
Qed.

Lemma with_ticks_app : forall phase period l1 l2 k,
  with_ticks phase period k (l1 ++ l2) = with_ticks phase period k l1 ++ with_ticks phase period (k + length l1) l2.
Proof.
  intros phase period l1. induction l1 as [|seg l1 IH]; intros l2 k; simpl.
  - rewrite Nat.add_0_r. reflexivity.
  - rewrite IH. replace (k + S (length l1)) with (S k + length l1) by lia. reflexivity.
Qed.

Lemma ticked_app : forall phase period l1 l2,
  ticked phase period 0 (l1 ++ l2) = ticked phase period 0 l1 ++ ticked phase period (length l1) l2.
Proof. intros. unfold ticked. rewrite with_ticks_app, swept_app. reflexivity. Qed.

(* The sweeper and an idle client, in one statement: there is an n >= 1 -- the number of the first
   sweep at or after last_seen + timeout, which comes before last_seen + timeout + period -- such
   that after fewer than n further sweeps the client is still there with the same queue and the
   same contents, and after n or more it is gone and its queue is closed. *)
Theorem ticker_idle_client : forall cap timeout phase period pre a r,
  (0 < period)%Z ->
  let k0 := length pre in
  let s := fst (qrun cap timeout (ticked phase period 0 pre) qc_empty) in
  rec_of (clients s) a = Some r ->
  (tick phase period k0 < c_seen r + timeout)%Z ->
  exists n, 1 <= n /\
    (c_seen r + timeout <= tick phase period (k0 + n) < c_seen r + timeout + period)%Z /\
    forall segs, Forall (fun seg => forallb (idle_op a (c_qid r)) seg = true) segs ->
      let s' := fst (qrun cap timeout (ticked phase period 0 (pre ++ segs)) qc_empty) in
      (length segs < n -> rec_of (clients s') a = Some r /\ out_q (clients s') a = c_q r) /\
      (n <= length segs -> rec_of (clients s') a = None /\ In (c_qid r) (map fst (dead (clients s')))).
Proof.
  intros cap timeout phase period pre a r Hp k0 s Hrec Hlast.
  destruct (first_tick phase period k0 (c_seen r + timeout) Hp Hlast) as (n & Hn & Hwin & Hbefore).
  exists n. split; auto. split; auto.
  intros segs Hidle s'.
  assert (Hinv : cm_inv (clients s)) by (apply qrun_inv; exact cm_inv_empty).
  assert (Es' : s' = fst (qrun cap timeout (ticked phase period k0 segs) s)).
  { unfold s'. rewrite ticked_app, qrun_app. reflexivity. }
  destruct segs as [|seg0 rest] eqn:Esegs.
  - split; [|intro Hl; simpl in Hl; lia]. intros _. rewrite Es'. simpl. split; auto. unfold out_q. rewrite Hrec. auto.
  - rewrite <- Esegs in *.
    assert (Hne : segs <> []) by (rewrite Esegs; discriminate).
    destruct (ticker_window cap timeout phase period k0 segs s a r Hp Hinv Hrec Hidle Hne) as [K G].
    rewrite <- Es' in K, G. split.
    + intro Hl. assert (Hr : rec_of (clients s') a = Some r) by (apply K; apply Hbefore; auto).
      split; auto. unfold out_q. rewrite Hr. auto.
    + intro Hl. apply G.
      pose proof (tick_mono phase period (k0 + n) (k0 + length segs) Hp ltac:(lia)). lia.
Qed.

(* ---------------------------------------------------------------- from the empty connection *)

Lemma reach_inv : forall cap timeout ops,
  cm_inv (clients (fst (qrun cap timeout ops qc_empty))) /\ dead_ok (clients (fst (qrun cap timeout ops qc_empty))).
Proof.
  intros. split; [apply qrun_inv; exact cm_inv_empty | apply qrun_dead_ok; [exact cm_inv_empty | exact dead_ok_empty]].
Qed.

Theorem epoch_fifo_from_empty : forall cap timeout ops a,
  let '(s', outs) := qrun cap timeout ops qc_empty in
  match ep_run timeout a None ops outs with
  | None => rec_of (clients s') a = None /\ out_q (clients s') a = []
  | Some e => exists r, rec_of (clients s') a = Some r /\ c_seen r = e_seen e /\ c_qid r = e_qid e /\
                        e_w e = e_r e ++ out_q (clients s') a
  end.
Proof.
  intros cap timeout ops a.
  assert (H0 : ep_inv a None (clients qc_empty)) by reflexivity.
  destruct (epoch_fifo cap timeout ops a qc_empty None cm_inv_empty H0) as [_ H].
  destruct (qrun cap timeout ops qc_empty) as [s' outs]. simpl in H.
  destruct (ep_run timeout a None ops outs) as [e|]; simpl in H.
  - destruct H as (r & H1 & H2 & H3 & H4). exists r. unfold out_q. rewrite H1. auto.
  - unfold out_q. rewrite H. auto.
Qed.
