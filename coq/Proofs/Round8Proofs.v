(* Round8Proofs.v — proofs about binCount and roundedCounter (model: Model/Round8.v). *)
From Coq Require Import List NArith ZArith Lia Bool Arith.
From Coq Require Import ZifyN ZifyNat ZifyBool.
From Snow Require Import Model.Round8.
Import ListNotations.
Open Scope N_scope.

Ltac Zify.zify_post_hook ::= Z.div_mod_to_equations.

(* ---------- bin ---------- *)
Lemma bin_spec : forall n, n <= bin n /\ bin n < n + 8 /\ N.divide 8 (bin n).
Proof.
  intro n. unfold bin. split; [|split].
  - lia.
  - lia.
  - exists ((n + 7) / 8). lia.
Qed.

Lemma bin_unique : forall n v, n <= v -> v < n + 8 -> N.divide 8 v -> v = bin n.
Proof.
  intros n v H1 H2 [z Hz]. unfold bin. subst v. lia.
Qed.

Lemma bin_succ : forall t, bin (t + 1) = if bin t <? t + 1 then bin t + 8 else bin t.
Proof.
  intro t. unfold bin. destruct (8 * ((t + 7) / 8) <? t + 1) eqn:E; lia.
Qed.

Lemma bin_mono : forall a b, a <= b -> bin a <= bin b.
Proof. intros a b H. unfold bin. lia. Qed.

(* ---------- sequential Inc ---------- *)
Definition rc_ok (c : rc) : Prop := snd c = bin (fst c).

Lemma inc_seq_ok : forall c, rc_ok c -> rc_ok (inc_seq c) /\ fst (inc_seq c) = fst c + 1.
Proof.
  intros [t v] H. unfold rc_ok in *. cbn [fst snd] in H. subst v.
  unfold inc_seq. cbn [fst snd]. cbv zeta. pose proof (bin_succ t) as HB.
  destruct (bin t <? t + 1); cbn [fst snd]; auto.
Qed.

Lemma incs_spec : forall n c, rc_ok c -> incs n c = (fst c + N.of_nat n, bin (fst c + N.of_nat n)).
Proof.
  induction n as [|n IH]; intros c H.
  - cbn [incs]. destruct c as [t v]. unfold rc_ok in H. cbn [fst snd] in *. subst v.
    replace (t + N.of_nat 0) with t by lia. reflexivity.
  - cbn [incs]. destruct (inc_seq_ok c H) as [H1 H2]. rewrite (IH _ H1), H2.
    replace (fst c + 1 + N.of_nat n) with (fst c + N.of_nat (S n)) by lia. reflexivity.
Qed.

Lemma inc_seq_from_zero : forall n, incs n rc0 = (N.of_nat n, bin (N.of_nat n)).
Proof.
  intro n. rewrite incs_spec by reflexivity. cbn [fst rc0]. rewrite N.add_0_l. reflexivity.
Qed.

Lemma incsN_spec : forall n, incsN n rc0 = (n, bin n).
Proof.
  intro n. unfold incsN. induction n as [|n IH] using N.peano_ind.
  - reflexivity.
  - rewrite N.iter_succ, IH. unfold inc_seq. cbn [fst snd]. cbv zeta.
    replace (N.succ n) with (n + 1) by lia. rewrite bin_succ.
    destruct (bin n <? n + 1); reflexivity.
Qed.

(* ---------- v0 (pinned code): refutations by explicit interleavings ---------- *)
Lemma v0_overshoot :
  let s := run0 sched_overshoot init0 in
  quiescent0 2 s = true /\ done0 s = 10%nat /\ total0 s = 10 /\ value0 s = 24 /\ bin 10 = 16.
Proof. vm_compute. repeat split; reflexivity. Qed.

Lemma v0_undershoot :
  let s := run0 sched_undershoot init0 in
  quiescent0 9 s = true /\ done0 s = 9%nat /\ total0 s = 9 /\ value0 s = 8.
Proof. vm_compute. repeat split; reflexivity. Qed.

(* ---------- repaired machine: invariant over all schedules ---------- *)
Definition inv_pc (s : str) (p : pcr) : Prop :=
  match p with
  | IR => False
  | LR => valuer s = bin (totalr s) /\ totalr s = N.of_nat (doner s)
  | CR => valuer s = bin (N.of_nat (doner s)) /\ totalr s = N.of_nat (doner s) + 1
  | DR => valuer s = bin (N.of_nat (doner s)) /\ totalr s = N.of_nat (doner s) + 1 /\ valuer s < totalr s
  | UR => valuer s = bin (totalr s) /\ totalr s = N.of_nat (doner s) + 1
  end.

Ltac sim := cbn [lockr pcsr valuer totalr doner startedr inv_pc].

Definition Inv (s : str) : Prop :=
  match lockr s with
  | None => (forall j, pcsr s j = IR) /\ valuer s = bin (totalr s) /\ totalr s = N.of_nat (doner s) /\ startedr s = doner s
  | Some i => (forall j, j <> i -> pcsr s j = IR) /\ startedr s = S (doner s) /\ inv_pc s (pcsr s i)
  end.

Lemma upd_same : forall A (f : nat -> A) i x, upd f i x i = x.
Proof. intros. unfold upd. rewrite Nat.eqb_refl. reflexivity. Qed.
Lemma upd_other : forall A (f : nat -> A) i j x, j <> i -> upd f i x j = f j.
Proof. intros. unfold upd. destruct (Nat.eqb j i) eqn:E; [apply Nat.eqb_eq in E; contradiction | reflexivity]. Qed.

Lemma Inv_init : Inv initr.
Proof. unfold Inv, initr. sim. repeat split. Qed.

Lemma Inv_step : forall s i s', Inv s -> stepr s i = Some s' -> Inv s'.
Proof.
  intros s i s' HI Hs. unfold stepr in Hs. unfold Inv in HI.
  destruct (lockr s) as [h|] eqn:EL.
  - (* mutex held by h *)
    destruct HI as [Hoth [Hst Hpc]].
    destruct (Nat.eq_dec i h) as [->|Hne].
    + destruct (pcsr s h) eqn:EP; cbn [inv_pc] in Hpc.
      * contradiction.
      * (* LR -> CR *)
        inversion Hs; subst s'; clear Hs. unfold Inv. sim. rewrite upd_same. sim.
        destruct Hpc as [Hv Ht]. split; [|split].
        -- intros j Hj. rewrite upd_other by exact Hj. apply Hoth; exact Hj.
        -- exact Hst.
        -- split; [rewrite Hv, Ht; reflexivity | lia].
      * (* CR -> DR / UR *)
        inversion Hs; subst s'; clear Hs. unfold Inv. sim. rewrite upd_same.
        destruct Hpc as [Hv Ht]. split; [|split].
        -- intros j Hj. rewrite upd_other by exact Hj. apply Hoth; exact Hj.
        -- exact Hst.
        -- destruct (valuer s <? totalr s) eqn:EC; sim.
           ++ repeat split; try assumption. lia.
           ++ split; [|exact Ht].
              pose proof (bin_succ (N.of_nat (doner s))) as HB.
              rewrite <- Hv in HB. rewrite <- Ht in HB. rewrite EC in HB. rewrite HB. reflexivity.
      * (* DR -> UR *)
        inversion Hs; subst s'; clear Hs. unfold Inv. sim. rewrite upd_same. sim.
        destruct Hpc as [Hv [Ht Hlt]]. split; [|split].
        -- intros j Hj. rewrite upd_other by exact Hj. apply Hoth; exact Hj.
        -- exact Hst.
        -- split; [|exact Ht].
           pose proof (bin_succ (N.of_nat (doner s))) as HB.
           rewrite <- Hv in HB. rewrite <- Ht in HB.
           assert (EC : (valuer s <? totalr s) = true) by lia. rewrite EC in HB. rewrite HB. reflexivity.
      * (* UR -> IR, unlock *)
        inversion Hs; subst s'; clear Hs. unfold Inv. sim.
        destruct Hpc as [Hv Ht]. repeat split.
        -- intro j. destruct (Nat.eq_dec j h) as [->|Hj]; [apply upd_same | rewrite upd_other by exact Hj; apply Hoth; exact Hj].
        -- exact Hv.
        -- lia.
        -- exact Hst.
    + (* another thread: it is idle, hence blocked *)
      rewrite (Hoth i Hne) in Hs. discriminate.
  - (* mutex free: every thread idle; i takes the mutex *)
    destruct HI as [Hidle [Hv [Ht Hst]]]. rewrite (Hidle i) in Hs.
    inversion Hs; subst s'; clear Hs. unfold Inv. sim. rewrite upd_same. sim. repeat split.
    + intros j Hj. rewrite upd_other by exact Hj. apply Hidle.
    + lia.
    + exact Hv.
    + exact Ht.
Qed.

Lemma Inv_run : forall sched s, Inv s -> Inv (runr sched s).
Proof.
  induction sched as [|i sched IH]; intros s HI; cbn [runr fold_left].
  - exact HI.
  - apply IH. unfold stepr_skip. destruct (stepr s i) eqn:E; [eapply Inv_step; eassumption | exact HI].
Qed.

Lemma Inv_reach : forall sched, Inv (runr sched initr).
Proof. intro sched. apply Inv_run, Inv_init. Qed.

(* consequences, for every schedule *)
Lemma observer_exact : forall sched v,
  observer (runr sched initr) = Some v ->
  v = bin (N.of_nat (doner (runr sched initr))) /\ startedr (runr sched initr) = doner (runr sched initr).
Proof.
  intros sched v H. pose proof (Inv_reach sched) as HI. unfold observer in H. unfold Inv in HI.
  destruct (lockr (runr sched initr)); [discriminate|]. inversion H; subst v.
  destruct HI as [_ [Hv [Ht Hs]]]. rewrite Hv, Ht. auto.
Qed.

Lemma vb_aux : forall d v X, v = bin X -> (X = N.of_nat d \/ X = N.of_nat d + 1) ->
  N.of_nat d <= v /\ v <= bin (N.of_nat (S d)) /\ N.divide 8 v.
Proof.
  intros d v X -> HX. pose proof (bin_spec X) as [L [_ D]].
  assert (M : bin X <= bin (N.of_nat (S d))) by (apply bin_mono; lia).
  repeat split; [lia | exact M | exact D].
Qed.

Lemma value_bounds_always : forall sched,
  let s := runr sched initr in
  N.of_nat (doner s) <= valuer s /\ valuer s <= bin (N.of_nat (startedr s)) /\ N.divide 8 (valuer s) /\
  (startedr s = doner s \/ startedr s = S (doner s)).
Proof.
  intros sched s. pose proof (Inv_reach sched) as HI. fold s in HI. unfold Inv in HI.
  destruct (lockr s) as [h|].
  - destruct HI as [_ [Hst Hpc]]. rewrite Hst.
    assert (G : N.of_nat (doner s) <= valuer s /\ valuer s <= bin (N.of_nat (S (doner s))) /\ N.divide 8 (valuer s)).
    { destruct (pcsr s h); cbn [inv_pc] in Hpc.
      - contradiction.
      - destruct Hpc as [Hv Ht]. eapply vb_aux; [exact Hv | left; exact Ht].
      - destruct Hpc as [Hv Ht]. eapply vb_aux; [exact Hv | left; reflexivity].
      - destruct Hpc as [Hv [Ht _]]. eapply vb_aux; [exact Hv | left; reflexivity].
      - destruct Hpc as [Hv Ht]. eapply vb_aux; [exact Hv | right; exact Ht]. }
    destruct G as [G1 [G2 G3]]. repeat split; auto.
  - destruct HI as [_ [Hv [Ht Hst]]]. rewrite Hst.
    pose proof (bin_spec (totalr s)) as [L [_ D]]. rewrite Hv. rewrite Ht in *.
    repeat split; auto. apply N.le_refl.
Qed.

Lemma quiescent_exact : forall sched,
  let s := runr sched initr in
  (forall j, pcsr s j = IR) ->
  lockr s = None /\ totalr s = N.of_nat (doner s) /\ valuer s = bin (totalr s) /\ startedr s = doner s /\
  (totalr s, valuer s) = incs (doner s) rc0.
Proof.
  intros sched s Hq. pose proof (Inv_reach sched) as HI. fold s in HI. unfold Inv in HI.
  destruct (lockr s) as [h|].
  - destruct HI as [_ [_ Hpc]]. rewrite (Hq h) in Hpc. contradiction.
  - destruct HI as [_ [Hv [Ht Hst]]]. repeat split; auto.
    rewrite inc_seq_from_zero, Hv, Ht. reflexivity.
Qed.

(* progress: no schedule can wedge the counter — some thread can always move, and a thread inside Inc
   finishes within 4 of its own steps *)
Lemma never_stuck : forall sched i, exists j, stepr (runr sched initr) j <> None /\ (lockr (runr sched initr) = None -> j = i).
Proof.
  intros sched i. pose proof (Inv_reach sched) as HI. unfold Inv in HI.
  destruct (lockr (runr sched initr)) as [h|] eqn:EL.
  - exists h. split; [|discriminate]. unfold stepr. destruct HI as [_ [_ Hpc]].
    destruct (pcsr (runr sched initr) h); cbn in Hpc; try contradiction; discriminate.
  - exists i. split; [|reflexivity]. unfold stepr. destruct HI as [Hid _]. rewrite (Hid i), EL. discriminate.
Qed.

(* the runner's per-step states are exactly the states of [runr] on the prefixes of the schedule *)
Lemma runr_trace_nth : forall sched s n, (n < List.length sched)%nat ->
  nth_error (runr_trace sched s) n = Some (runr (firstn (S n) sched) s).
Proof.
  induction sched as [|i sched IH]; intros s n Hn; cbn [List.length] in Hn; [lia|].
  destruct n as [|n]; cbn [runr_trace nth_error firstn].
  - unfold runr. destruct sched; reflexivity.
  - rewrite IH by lia. unfold runr. cbn [fold_left firstn]. reflexivity.
Qed.

Lemma runr_trace_length : forall sched s, List.length (runr_trace sched s) = List.length sched.
Proof. induction sched as [|i sched IH]; intro s; cbn [runr_trace List.length]; [reflexivity | rewrite IH; reflexivity]. Qed.
