(* SafelogOwnProofs.v — LogScrubber.Write keeps no reference to the caller's slice (Model/SafelogOwn.v):
   for the copying writer the sink's content and the pending bytes are a function of the byte VALUES handed to the
   Write calls, whatever the caller does to its memory between the calls; a writer that keeps a view of the
   caller's array is refuted by a caller that refills one array (io.Copy, bufio.Writer, os/exec). *)
From Coq Require Import List NArith Arith Lia String.
From Snow Require Import Lib.Wire Model.Regex Model.Scrub Model.SafelogOwn Model.SafelogRound2.
From Snow Require Import Proofs.RegexProofs Proofs.ScrubProofs Proofs.C07Proofs Proofs.C07CoverProofs.
Import ListNotations.
Open Scope nat_scope.
Open Scope list_scope.

Section Own.
  Variable sc : bytes -> bytes.

  Lemma run_mem_own : forall h buf,
    run_mem (write_own sc) (Own buf) h =
      (fst (run_writes (write sc) buf (passed h)), Own (snd (run_writes (write sc) buf (passed h)))).
  Proof.
    induction h as [|[mem n] h IH]; intros buf; [reflexivity|].
    change (passed ((mem, n) :: h)) with (firstn n mem :: passed h).
    cbn [run_mem run_writes]. unfold write_own. cbn [deref].
    destruct (write sc buf (firstn n mem)) as [o r].
    rewrite IH. destruct (run_writes (write sc) r (passed h)) as [os bufn]. reflexivity.
  Qed.

  (* the writer's effect is that of the value-level writer on the bytes passed: no dependence on the caller's memory
     outside the slices, nor on what becomes of it after a call *)
  Theorem write_no_retention : forall h,
    run_mem (write_own sc) (Own []) h =
      (fst (run_writes (write sc) [] (passed h)), Own (snd (run_writes (write sc) [] (passed h)))).
  Proof. intros h; apply run_mem_own. Qed.

  Theorem write_values_only : forall h1 h2,
    List.concat (passed h1) = List.concat (passed h2) ->
    run_mem (write_own sc) (Own []) h1 = run_mem (write_own sc) (Own []) h2.
  Proof.
    intros h1 h2 E. rewrite !write_no_retention.
    rewrite (write_split_independent sc (passed h1) (passed h2) E). reflexivity.
  Qed.

  Lemma passed_scratch : forall cap poison ws, passed (scratch_history cap poison ws) = ws.
  Proof.
    intros cap poison ws. unfold passed, scratch_history. rewrite map_map.
    induction ws as [|w ws IH]; [reflexivity|].
    cbn [map fst snd]. f_equal; [|exact IH].
    rewrite firstn_app, firstn_all, Nat.sub_diag. cbn [firstn]. apply app_nil_r.
  Qed.

  (* the delivery of the Go driver (one scratch array, overwritten after every call) = the value-level writer *)
  Theorem run_scratch_spec : forall ws, run_scratch sc ws = run_writes (write sc) [] ws.
  Proof.
    intros ws. unfold run_scratch. rewrite write_no_retention, passed_scratch.
    destruct (run_writes (write sc) [] ws); reflexivity.
  Qed.
End Own.

(* the retaining writer, a caller that refills one array of 25 bytes: "up: " then "2001:db8::1 is reachable\n".
   The pending view (offset 0, 4 bytes) reads "2001" at the second call: the line handed to the scrubber is
   "20012001:db8::1 is reachable\n" and the address goes out whole. *)
Lemma retaining_writer_refuted :
  exists h pre w post junk,
    passed h = [pre; w ++ post] /\ (forall m n, In (m, n) h -> List.length m = 25) /\
    matches addr_spec w /\ left_ok pre /\ right_ok post /\
    fst (run_writes (write sc2) [] (passed h)) = [pre ++ scrubbed ++ post] /\
    fst (run_mem (write_own sc2) (Own []) h) = [pre ++ scrubbed ++ post] /\
    fst (run_mem (write_retain sc2) (Own []) h) = [junk ++ w ++ post].
Proof.
  exists (scratch_history 25 55%N [B"up: "; B"2001:db8::1" ++ B" is reachable" ++ [NL]]),
         (B"up: "), (B"2001:db8::1"), (B" is reachable" ++ [NL]), (B"2001").
  split; [apply passed_scratch|].
  split.
  { intros m n [E|[E|[]]]; inversion E; reflexivity. }
  split; [apply spec_word; vm_compute; reflexivity|].
  split; [right; exists (B"up:"), 32%N; split; reflexivity|].
  split; [right; exists 32%N, (B"is reachable" ++ [NL]); split; reflexivity|].
  split; [vm_compute; reflexivity|].
  split; vm_compute; reflexivity.
Qed.
