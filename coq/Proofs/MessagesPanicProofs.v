(* MessagesPanicProofs.v — proofs about Model/MessagesPanic.v (C12: the decoders of common/messages
   return a value or an error, never a panic). *)
From Coq Require Import List NArith ZArith Bool Arith Lia String.
From Snow Require Import Lib.Wire Model.JsonBoundary Model.Messages Model.MessagesPanic Proofs.MessagesProofs.
Import ListNotations.
Open Scope N_scope.

Definition is_dpanic {A} (r : dres A) : bool := match r with DPanic _ => true | DVal _ => false end.

(* ---------------------------------------------------------------- strings.Split(s, ".") *)

Lemma split_dot_ne_fst : forall l, fst (split_dot_ne l) = before_dot l.
Proof.
  induction l as [|c r IH]; cbn [split_dot_ne before_dot]; [reflexivity|].
  destruct (split_dot_ne r) as [h t]. cbn [fst] in IH. destruct (c =? 46); cbn [fst]; [reflexivity|].
  rewrite IH. reflexivity.
Qed.

Lemma split_dot_head : forall l, nth_error (split_dot l) 0 = Some (before_dot l).
Proof.
  intros l. unfold split_dot. rewrite <- split_dot_ne_fst. destruct (split_dot_ne l) as [h t]. reflexivity.
Qed.

Lemma split_dot_nonempty : forall l, split_dot l <> [].
Proof. intros l. unfold split_dot. destruct (split_dot_ne l) as [h t]. discriminate. Qed.

Fixpoint count_dots (l : bytes) : nat :=
  match l with
  | [] => O
  | c :: r => if c =? 46 then S (count_dots r) else count_dots r
  end.

(* the library's specification: Count(s, ".") + 1 pieces, none contains a dot, joined by dots they are s *)
Lemma split_dot_spec : forall l,
  List.length (split_dot l) = S (count_dots l)
  /\ join [46] (split_dot l) = l
  /\ Forall (fun p => ~ In 46 p) (split_dot l).
Proof.
  unfold split_dot. induction l as [|c r IH]; cbn [split_dot_ne count_dots].
  - split; [reflexivity|]. split; [reflexivity|]. constructor; [intros []|constructor].
  - destruct (split_dot_ne r) as [h t]. destruct IH as (Hl & Hj & Hf).
    destruct (c =? 46) eqn:E.
    + apply N.eqb_eq in E. subst c. split; [cbn [List.length] in *; lia|]. split.
      * change (join [46] ([] :: h :: t)) with ([] ++ [46] ++ join [46] (h :: t)). rewrite Hj. reflexivity.
      * constructor; [intros []|exact Hf].
    + apply N.eqb_neq in E. split; [exact Hl|]. split.
      * destruct t as [|x t']; cbn [join] in *; [rewrite Hj; reflexivity|].
        rewrite <- Hj. reflexivity.
      * inversion Hf as [|p ps Hp Hps]; subst. constructor; [|exact Hps].
        intros [H|H]; [congruence|contradiction].
Qed.

(* ---------------------------------------------------------------- bytes.SplitN(data, "\n", 2) *)

Lemma splitn_nl_spec : forall data,
  (splitn_nl data = [data] /\ ~ In 10 data)
  \/ exists a b, splitn_nl data = [a; b] /\ data = a ++ 10 :: b /\ ~ In 10 a.
Proof.
  intros data. unfold splitn_nl. destruct (split_nl data) as [[a b]|] eqn:E.
  - right. exists a, b. split; [reflexivity|]. apply split_nl_some. exact E.
  - left. split; [reflexivity|]. apply split_nl_none. exact E.
Qed.

(* ---------------------------------------------------------------- the partial steps *)

Lemma go_index_safe : forall {A B} (l : list A) i (k : A -> dres B),
  (i < List.length l)%nat -> (forall x, is_dpanic (k x) = false) -> is_dpanic (go_index l i k) = false.
Proof.
  intros A B l i k Hi Hk. unfold go_index. destruct (nth_error l i) eqn:E; [apply Hk|].
  apply nth_error_None in E. lia.
Qed.

Lemma index0_safe : forall {B} (l : list bytes) (k : bytes -> dres B),
  l <> [] -> (forall x, is_dpanic (k x) = false) -> is_dpanic (go_index l 0 k) = false.
Proof. intros B l k Hl Hk. destruct l as [|x l]; [contradiction|]. apply Hk. Qed.

Definition split_ok (L : libs) : Prop := forall s, l_split L s <> [].

Lemma GO_split_ok : split_ok GO.
Proof. intros s. apply split_dot_nonempty. Qed.

Ltac open_struct ND SC :=
  rewrite unmarshal_eq by apply ND;
  match goal with |- context [typed_okb ?sc ?v] => destruct (typed_okb sc v) end; [|reflexivity];
  cbv [map SC fst snd fieldval]; cbn [get_str get_int get_ptr nth_error].

(* ---------------------------------------------------------------- no decoder panics.
   Value level, for every JSON value, any library whose Split returns at least one element. *)

Lemma proxy_poll_safe : forall L v, split_ok L -> is_dpanic (decode_proxy_poll_g CODE L v) = false.
Proof.
  intros L v HL. unfold decode_proxy_poll_g. open_struct nodup_poll_req poll_req_schema.
  apply index0_safe; [apply HL|]. intros major.
  destruct (negb (beq major (bs "1"))); [reflexivity|].
  destruct (beq _ []); [reflexivity|].
  destruct (norm_nat _); [|reflexivity].
  cbn [CODE g_nil andb]. destruct (last_ptr _ _); reflexivity.
Qed.

Lemma proxy_poll_legacy_safe : forall L v, split_ok L -> is_dpanic (decode_proxy_poll_legacy_g CODE L v) = false.
Proof.
  intros L v HL. unfold decode_proxy_poll_legacy_g. pose proof (proxy_poll_safe L v HL) as H.
  destruct (decode_proxy_poll_g CODE L v) as [[r|]|w]; [|reflexivity|discriminate].
  destruct (beq (pq_pattern r) []); reflexivity.
Qed.

Lemma poll_response_safe : forall v, is_dpanic (decode_poll_response_g v) = false.
Proof.
  intros v. unfold decode_poll_response_g. open_struct nodup_poll_resp poll_resp_schema.
  destruct (beq _ []); [reflexivity|].
  destruct (beq _ CLIENT_MATCH); [destruct (beq _ []); reflexivity|].
  destruct (beq _ NO_MATCH); reflexivity.
Qed.

Lemma poll_response_legacy_safe : forall v, is_dpanic (decode_poll_response_legacy_g v) = false.
Proof.
  intros v. unfold decode_poll_response_legacy_g. pose proof (poll_response_safe v) as H.
  destruct (decode_poll_response_g v) as [[[[o n] u]|]|w]; [|reflexivity|discriminate].
  destruct (beq u []); reflexivity.
Qed.

Lemma answer_request_safe : forall L v, split_ok L -> is_dpanic (decode_answer_request_g L v) = false.
Proof.
  intros L v HL. unfold decode_answer_request_g. open_struct nodup_answer_req answer_req_schema.
  apply index0_safe; [apply HL|]. intros major.
  destruct (negb (beq major (bs "1"))); [reflexivity|].
  destruct (beq _ [] || beq _ []); reflexivity.
Qed.

Lemma answer_response_safe : forall v, is_dpanic (decode_answer_response_g v) = false.
Proof.
  intros v. unfold decode_answer_response_g. open_struct nodup_answer_resp answer_resp_schema.
  destruct (beq _ []); reflexivity.
Qed.

Lemma client_poll_body_safe : forall v, is_dpanic (decode_client_poll_body_g v) = false.
Proof.
  intros v. unfold decode_client_poll_body_g. open_struct nodup_client_req client_req_schema.
  destruct (beq _ []); [reflexivity|].
  destruct (negb (fingerprint_ok _)); [reflexivity|].
  destruct (norm_nat _); reflexivity.
Qed.

Lemma client_response_safe : forall v, is_dpanic (decode_client_response_g v) = false.
Proof.
  intros v. unfold decode_client_response_g. open_struct nodup_client_resp client_resp_schema.
  destruct (beq _ [] && beq _ []); reflexivity.
Qed.

Lemma opt_decode_g_safe : forall {A} (d : json -> dres A) o,
  (forall v, is_dpanic (d v) = false) -> is_dpanic (opt_decode_g d o) = false.
Proof. intros A d [v|] H; [apply H|reflexivity]. Qed.

(* the client decoder: `len(parts) < 2` covers both indexings for ANY slice the library could return *)
Lemma client_poll_safe : forall L parse data, is_dpanic (decode_client_poll_g CODE L parse data) = false.
Proof.
  intros L parse data. unfold decode_client_poll_g. cbn [CODE g_len andb].
  destruct (List.length (l_splitn L data) <? 2)%nat eqn:E; [reflexivity|].
  apply Nat.ltb_ge in E.
  apply go_index_safe; [lia|]. intros p0.
  destruct (negb (beq p0 CLIENT_VERSION)); [reflexivity|].
  apply go_index_safe; [lia|]. intros p1.
  apply opt_decode_g_safe. apply client_poll_body_safe.
Qed.

Lemma not_panic : forall {A} (r : dres A), is_dpanic r = false -> forall w, r <> DPanic w.
Proof. intros A r H w E. subst r. discriminate. Qed.

(* all eight exported decoders, bytes level, through the library parser *)
Definition never_panics (L : libs) (parse : bytes -> option json) (data : bytes) : Prop :=
  forall w,
    opt_decode_g (decode_proxy_poll_g CODE L) (parse data) <> DPanic w
    /\ opt_decode_g (decode_proxy_poll_legacy_g CODE L) (parse data) <> DPanic w
    /\ opt_decode_g decode_poll_response_g (parse data) <> DPanic w
    /\ opt_decode_g decode_poll_response_legacy_g (parse data) <> DPanic w
    /\ opt_decode_g (decode_answer_request_g L) (parse data) <> DPanic w
    /\ opt_decode_g decode_answer_response_g (parse data) <> DPanic w
    /\ decode_client_poll_g CODE L parse data <> DPanic w
    /\ opt_decode_g decode_client_response_g (parse data) <> DPanic w.

Theorem decoders_never_panic_lib : forall L, split_ok L -> forall parse data, never_panics L parse data.
Proof.
  intros L HL parse data w.
  repeat split; apply not_panic; try apply opt_decode_g_safe; intros;
    first [ apply proxy_poll_safe; exact HL | apply proxy_poll_legacy_safe; exact HL | apply poll_response_safe
          | apply poll_response_legacy_safe | apply answer_request_safe; exact HL | apply answer_response_safe
          | apply client_poll_safe | apply client_response_safe ].
Qed.

Theorem decoders_never_panic : forall parse data, never_panics GO parse data.
Proof. intros parse data. apply decoders_never_panic_lib. apply GO_split_ok. Qed.

(* ---------------------------------------------------------------- refinement: the fine decoders, as
   written and over the Go library, compute exactly the decoders of Model/Messages.v *)

Lemma proxy_poll_refines : forall v, decode_proxy_poll_code v = DVal (decode_proxy_poll v).
Proof.
  intros v. unfold decode_proxy_poll_code, decode_proxy_poll_g, decode_proxy_poll.
  open_struct nodup_poll_req poll_req_schema.
  unfold go_index. cbn [GO l_split]. rewrite split_dot_head. unfold major_ok.
  destruct (negb (beq _ (bs "1"))); [reflexivity|].
  destruct (beq _ []); [reflexivity|].
  destruct (norm_nat _); [|reflexivity].
  cbn [CODE g_nil andb]. destruct (last_ptr _ _); reflexivity.
Qed.

Lemma proxy_poll_legacy_refines : forall v, decode_proxy_poll_legacy_code v = DVal (decode_proxy_poll_legacy v).
Proof.
  intros v. unfold decode_proxy_poll_legacy_code, decode_proxy_poll_legacy_g, decode_proxy_poll_legacy.
  change (decode_proxy_poll_g CODE GO v) with (decode_proxy_poll_code v). rewrite proxy_poll_refines.
  destruct (decode_proxy_poll v) as [r|]; [|reflexivity]. destruct (beq (pq_pattern r) []); reflexivity.
Qed.

Lemma poll_response_refines : forall v, decode_poll_response_g v = DVal (decode_poll_response v).
Proof.
  intros v. unfold decode_poll_response_g, decode_poll_response.
  open_struct nodup_poll_resp poll_resp_schema.
  destruct (beq _ []); [reflexivity|].
  destruct (beq _ CLIENT_MATCH); [destruct (beq _ []); reflexivity|].
  destruct (beq _ NO_MATCH); reflexivity.
Qed.

Lemma poll_response_legacy_refines : forall v, decode_poll_response_legacy_g v = DVal (decode_poll_response_legacy v).
Proof.
  intros v. unfold decode_poll_response_legacy_g, decode_poll_response_legacy. rewrite poll_response_refines.
  destruct (decode_poll_response v) as [[[o n] u]|]; [|reflexivity]. destruct (beq u []); reflexivity.
Qed.

Lemma answer_request_refines : forall v, decode_answer_request_code v = DVal (decode_answer_request v).
Proof.
  intros v. unfold decode_answer_request_code, decode_answer_request_g, decode_answer_request.
  open_struct nodup_answer_req answer_req_schema.
  unfold go_index. cbn [GO l_split]. rewrite split_dot_head. unfold major_ok.
  destruct (negb (beq _ (bs "1"))); [reflexivity|].
  destruct (beq _ [] || beq _ []); reflexivity.
Qed.

Lemma answer_response_refines : forall v, decode_answer_response_g v = DVal (decode_answer_response v).
Proof.
  intros v. unfold decode_answer_response_g, decode_answer_response.
  open_struct nodup_answer_resp answer_resp_schema.
  destruct (beq _ []); reflexivity.
Qed.

Lemma client_poll_body_refines : forall v, decode_client_poll_body_g v = DVal (decode_client_poll_body v).
Proof.
  intros v. unfold decode_client_poll_body_g, decode_client_poll_body.
  open_struct nodup_client_req client_req_schema.
  destruct (beq _ []); [reflexivity|].
  destruct (negb (fingerprint_ok _)); [reflexivity|].
  destruct (norm_nat _); reflexivity.
Qed.

Lemma client_response_refines : forall v, decode_client_response_g v = DVal (decode_client_response v).
Proof.
  intros v. unfold decode_client_response_g, decode_client_response.
  open_struct nodup_client_resp client_resp_schema.
  destruct (beq _ [] && beq _ []); reflexivity.
Qed.

Lemma opt_decode_refines : forall {A} (dg : json -> dres A) (d : json -> result A) o,
  (forall v, dg v = DVal (d v)) -> opt_decode_g dg o = DVal (opt_decode d o).
Proof. intros A dg d [v|] H; [apply H|reflexivity]. Qed.

Lemma client_poll_refines : forall parse data, decode_client_poll_code parse data = DVal (decode_client_poll parse data).
Proof.
  intros parse data. unfold decode_client_poll_code, decode_client_poll_g, decode_client_poll.
  cbn [CODE g_len andb GO l_splitn]. unfold splitn_nl. destruct (split_nl data) as [[ver body]|].
  - cbn [List.length Nat.ltb Nat.leb]. unfold go_index. cbn [nth_error].
    destruct (beq ver CLIENT_VERSION); cbn [negb]; [|reflexivity].
    apply opt_decode_refines. apply client_poll_body_refines.
  - reflexivity.
Qed.

Definition refines_at (parse : bytes -> option json) (data : bytes) : Prop :=
  opt_decode_g decode_proxy_poll_code (parse data) = DVal (opt_decode decode_proxy_poll (parse data))
  /\ opt_decode_g decode_proxy_poll_legacy_code (parse data) = DVal (opt_decode decode_proxy_poll_legacy (parse data))
  /\ opt_decode_g decode_poll_response_g (parse data) = DVal (opt_decode decode_poll_response (parse data))
  /\ opt_decode_g decode_poll_response_legacy_g (parse data) = DVal (opt_decode decode_poll_response_legacy (parse data))
  /\ opt_decode_g decode_answer_request_code (parse data) = DVal (opt_decode decode_answer_request (parse data))
  /\ opt_decode_g decode_answer_response_g (parse data) = DVal (opt_decode decode_answer_response (parse data))
  /\ decode_client_poll_code parse data = DVal (decode_client_poll parse data)
  /\ opt_decode_g decode_client_response_g (parse data) = DVal (opt_decode decode_client_response (parse data)).

Theorem decoders_refine : forall parse data, refines_at parse data.
Proof.
  intros parse data.
  repeat split; try apply opt_decode_refines;
    first [ apply proxy_poll_refines | apply proxy_poll_legacy_refines | apply poll_response_refines
          | apply poll_response_legacy_refines | apply answer_request_refines | apply answer_response_refines
          | apply client_poll_refines | apply client_response_refines ].
Qed.

(* ---------------------------------------------------------------- the checks are what makes it so *)

(* without `len(parts) < 2`: "1.0" with no newline passes the version test and then indexes parts[1] *)
Lemma len_guard_needed : forall parse,
  decode_client_poll_g (mkGuards false true) GO parse (bs "1.0") = DPanic WIndex
  /\ decode_client_poll_code parse (bs "1.0") = DVal Err.
Proof. intros parse. split; reflexivity. Qed.

(* and with it, even a library returning an empty slice (SplitN with n = 0 does) is harmless *)
Lemma len_guard_suffices :
  decode_client_poll_g CODE (mkLibs split_dot (fun _ => [])) (fun _ => None) [] = DVal Err
  /\ decode_client_poll_g (mkGuards false true) (mkLibs split_dot (fun _ => [])) (fun _ => None) [] = DPanic WIndex.
Proof. split; reflexivity. Qed.

(* without `!= nil`: a poll without AcceptedRelayPattern (every proxy older than 1.3) dereferences nil *)
Definition old_poll : json := JObj [(bs "Sid", JStr (bs "x")); (bs "Version", JStr (bs "1.2"))].
Lemma nil_guard_needed :
  decode_proxy_poll_g (mkGuards true false) GO old_poll = DPanic WNilDeref
  /\ decode_proxy_poll_code old_poll =
     DVal (Ok {| pq_sid := bs "x"; pq_type := bs "unknown"; pq_nat := bs "unknown"; pq_clients := 0%Z;
                 pq_pattern := []; pq_aware := false |}).
Proof. split; vm_compute; reflexivity. Qed.

(* Split(...)[0] has no check in the code: it rests on the library returning at least one element *)
Lemma split_contract_needed :
  let L := mkLibs (fun _ => []) splitn_nl in
  decode_proxy_poll_g CODE L old_poll = DPanic WIndex
  /\ decode_answer_request_g L (JObj []) = DPanic WIndex.
Proof. split; vm_compute; reflexivity. Qed.

(* ---------------------------------------------------------------- encoders *)

Lemma encode_client_poll_safe : forall offer nat fp,
  encode_client_poll_g (Some (offer, nat, fp)) = DVal (Ok (encode_client_poll offer nat fp)).
Proof. reflexivity. Qed.

Lemma encode_client_response_safe : forall resp, is_dpanic (encode_client_response_g resp) = false.
Proof. intros [[a e]|]; reflexivity. Qed.

Lemma encode_nil_receiver : encode_client_poll_g None = DPanic WNilDeref /\ encode_client_response_g None = DVal (Ok JNull).
Proof. split; reflexivity. Qed.
