(* BrokerProofs.v — invariants of the broker interleaving machine (Model/Broker.v) *)
From Coq Require Import List NArith ZArith Bool Arith Lia.
From Snow Require Import Model.Broker.
Import ListNotations.
Open Scope N_scope.

(* ------------------------------------------------------------------ *)
(* generic list lemmas                                                   *)

Lemma upd_length {A} (f : A -> A) : forall l i, length (upd i f l) = length l.
Proof. induction l as [|x l IH]; intros [|i]; cbn [upd length]; try reflexivity. rewrite IH. reflexivity. Qed.

Lemma nth_upd_eq {A} (f : A -> A) : forall l i x, nth_error l i = Some x -> nth_error (upd i f l) i = Some (f x).
Proof.
  induction l as [|y l IH]; intros [|i] x; cbn [upd nth_error]; try discriminate.
  - intros H; injection H as ->. reflexivity.
  - apply IH.
Qed.

Lemma nth_upd_neq {A} (f : A -> A) : forall l i j, i <> j -> nth_error (upd i f l) j = nth_error l j.
Proof.
  induction l as [|y l IH]; intros [|i] [|j] H; cbn [upd nth_error]; try reflexivity; try congruence.
  apply IH. congruence.
Qed.

Lemma nth_upd_inv {A} (f : A -> A) l i j y : nth_error (upd i f l) j = Some y ->
  (i = j /\ exists x, nth_error l i = Some x /\ y = f x) \/ (i <> j /\ nth_error l j = Some y).
Proof.
  intros H. destruct (Nat.eq_dec i j) as [->|Hne].
  - left. split; [reflexivity|]. destruct (nth_error l j) as [x|] eqn:E.
    + rewrite (nth_upd_eq f l j x E) in H. injection H as <-. exists x. split; reflexivity.
    + assert (L : (length l <= j)%nat) by (apply nth_error_None; exact E).
      assert (nth_error (upd j f l) j = None) by (apply nth_error_None; rewrite upd_length; exact L).
      congruence.
  - right. split; [exact Hne|]. rewrite nth_upd_neq in H by exact Hne. exact H.
Qed.

Lemma lookup_remove_key {A} k k' (l : list (N * A)) :
  lookup k' (remove_key k l) = if k' =? k then None else lookup k' l.
Proof.
  induction l as [|[a v] l IH]; cbn [remove_key lookup].
  - destruct (k' =? k); reflexivity.
  - destruct (N.eqb_spec k a) as [->|Hka].
    + rewrite IH. destruct (N.eqb_spec k' a) as [->|Hk'a]; reflexivity.
    + cbn [lookup]. rewrite IH. destruct (N.eqb_spec k' a) as [->|Hk'a].
      * destruct (N.eqb_spec a k); [congruence | reflexivity].
      * reflexivity.
Qed.

Lemma in_remove_key {A} k k' (v : A) l : In (k', v) (remove_key k l) -> In (k', v) l /\ k' <> k.
Proof.
  induction l as [|[a w] l IH]; cbn [remove_key]; [intros []|].
  destruct (N.eqb_spec k a) as [->|Hka].
  - intros H. destruct (IH H). split; [right; assumption | assumption].
  - intros [H|H].
    + injection H as -> ->. split; [left; reflexivity | congruence].
    + destruct (IH H). split; [right; assumption | assumption].
Qed.

Lemma lookup_in {A} k (v : A) l : lookup k l = Some v -> In (k, v) l.
Proof.
  induction l as [|[a w] l IH]; cbn [lookup]; [discriminate|].
  destruct (N.eqb_spec k a) as [->|H].
  - intros E; injection E as ->. left; reflexivity.
  - intros E. right. apply IH. exact E.
Qed.

(* ------------------------------------------------------------------ *)
(* the invariant                                                         *)

Definition w_unmatched_waiting (w : wpc) : bool := match w with W_Select | W_TimedOut => true | _ => false end.
Definition w_before_offer (w : wpc) : bool :=
  match w with W_Select | W_TimedOut | W_Late | W_Stuck => true | _ => false end.
Definition w_after_offer (w : wpc) : bool :=
  match w with W_Forward _ | W_Done (PMatch _) | W_Done PError => true | _ => false end.

(* the life cycle of a registered poll and of the client that claimed it *)
Definition shape_ok (e : entry) : bool :=
  match e_cl e with
  | None =>
      match e_w e with
      | W_Select | W_TimedOut => e_inheap e && e_live e
      | W_Done PNoMatch => negb (e_inheap e) && negb (e_live e)
      | _ => false
      end
  | Some c =>
      negb (e_inheap e) &&
      match c_pc c with
      | C_Send => e_live e && w_before_offer (e_w e)
      | C_Wait | C_Cleanup _ => e_live e && w_after_offer (e_w e)
      | C_Done _ => negb (e_live e) && w_after_offer (e_w e)
      end
  end.

Definition compat (cn pn : natty) : bool :=
  if is_unrestricted cn then negb (is_unrestricted pn) else is_unrestricted pn.

Definition blist := list (fpr * url).

(* what the waiter forwards / what the handler returned belongs to the client stored in the entry; the relay URL
   of a match was configured for that client's fingerprint in a list installed NOT BEFORE the one current at the
   client's request ([hist] is newest first, the list current at the request sits at position
   [length hist - c_epoch c]: the URL comes from a position i <= that one), and it is the URL the client
   was checked against unless the list was re-installed after the client's request; the handler fails only then *)
Definition minfo_ok (hist : list blist) (e : entry) : Prop :=
  (forall f, e_w e = W_Forward f ->
     exists c, e_cl e = Some c /\ f_offer f = c_offer c /\ f_nat f = c_nat c /\ f_fp f = c_fp c) /\
  (forall m, e_w e = W_Done (PMatch m) ->
     exists c, e_cl e = Some c /\ m_offer m = c_offer c /\ m_nat m = c_nat c /\
       (exists i br, (i + c_epoch c <= length hist)%nat /\ nth_error hist i = Some br /\
                     lookup (c_fp c) br = Some (m_url m)) /\
       (m_url m = c_url c \/ (c_epoch c < length hist)%nat)) /\
  (e_w e = W_Done PError -> exists c, e_cl e = Some c /\ (c_epoch c < length hist)%nat).

Definition client_ok (cur : blist) (hist : list blist) (ncid : nat) (e : entry) : Prop :=
  forall c, e_cl e = Some c ->
    compat (c_nat c) (e_nat e) = true /\ (c_id c < ncid)%nat /\ (c_epoch c <= length hist)%nat /\
    (exists br, nth_error hist (length hist - c_epoch c) = Some br /\ lookup (c_fp c) br = Some (c_url c)) /\
    (c_epoch c = length hist -> lookup (c_fp c) cur = Some (c_url c)).

Definition answers_ok (e : entry) : Prop :=
  (forall a, e_buf e = Some a -> In a (e_posted e)) /\
  (forall aid a, In (aid, a) (e_senders e) -> In a (e_posted e)) /\
  (forall c a, e_cl e = Some c -> (c_pc c = C_Cleanup (CAnswer a) \/ c_pc c = C_Done (CAnswer a)) -> In a (e_posted e)).

Definition no_stuck (v : version) (e : entry) : Prop :=
  match v with
  | V1 => e_w e <> W_Stuck
  | V0 => e_w e <> W_Late /\ e_buf e = None
  end.

Definition entry_ok (v : version) (cur : blist) (hist : list blist) (ncid : nat) (e : entry) : Prop :=
  shape_ok e = true /\ minfo_ok hist e /\ client_ok cur hist ncid e /\ answers_ok e /\ no_stuck v e.

Fixpoint count_live (es : list entry) : Z :=
  match es with
  | [] => 0%Z
  | e :: es' => ((if e_live e then 1 else 0) + count_live es')%Z
  end.

Record Inv (v : version) (s : state) : Prop := {
  inv_entries : forall p e, nth_error (entries s) p = Some e -> entry_ok v (bridges s) (br_hist s) (next_cid s) e;
  inv_idmap : forall sd p, In (sd, p) (idmap s) ->
      exists e, nth_error (entries s) p = Some e /\ e_sid e = sd /\ e_live e = true;
  inv_gauge : gauge s = count_live (entries s);
  inv_posted : forall p e a, nth_error (entries s) p = Some e -> In a (e_posted e) ->
      exists aid, In (aid, e_sid e, a) (answer_log s);
  inv_cids : forall p q e1 e2 c1 c2, nth_error (entries s) p = Some e1 -> nth_error (entries s) q = Some e2 ->
      e_cl e1 = Some c1 -> e_cl e2 = Some c2 -> c_id c1 = c_id c2 -> p = q;
  inv_done_cids : forall cid n fp o r, In (cid, n, fp, o, r) (done_clients s) -> (cid < next_cid s)%nat;
  inv_hist : nth_error (br_hist s) 0 = Some (bridges s)   (* the current list is the newest installed one *)
}.

Lemma inv_init v br : Inv v (init br).
Proof.
  constructor; cbn [init entries idmap gauge bridges br_hist next_cid answer_log done_clients].
  - intros p e H. destruct p; discriminate.
  - intros sd p [].
  - reflexivity.
  - intros p e a H. destruct p; discriminate.
  - intros p q e1 e2 c1 c2 H. destruct p; discriminate.
  - intros cid n fp o r [].
  - reflexivity.
Qed.

Lemma inv_hist_in v s : Inv v s -> In (bridges s) (br_hist s).
Proof. intros I. eapply nth_error_In. apply (inv_hist v s I). Qed.

(* ------------------------------------------------------------------ *)
(* count_live under updates                                              *)

Lemma count_live_app a b : count_live (a ++ b) = (count_live a + count_live b)%Z.
Proof. induction a as [|e a IH]; cbn [app count_live]; [lia | rewrite IH; lia]. Qed.

Lemma count_live_upd f : forall es p e, nth_error es p = Some e ->
  count_live (upd p f es) = (count_live es - (if e_live e then 1 else 0) + (if e_live (f e) then 1 else 0))%Z.
Proof.
  induction es as [|x es IH]; intros [|p] e; cbn [nth_error upd count_live]; try discriminate.
  - intros H; injection H as ->. lia.
  - intros H. rewrite (IH p e H). lia.
Qed.

Lemma count_live_upd_same f es p e : nth_error es p = Some e -> e_live (f e) = e_live e ->
  count_live (upd p f es) = count_live es.
Proof. intros H E. rewrite (count_live_upd f es p e H), E. lia. Qed.

(* ------------------------------------------------------------------ *)
(* the client record changes only in its program counter / timer flag    *)

Definition csame (c c' : clrec) : Prop :=
  c_id c' = c_id c /\ c_nat c' = c_nat c /\ c_fp c' = c_fp c /\ c_offer c' = c_offer c /\
  c_url c' = c_url c /\ c_epoch c' = c_epoch c.

Lemma csame_cpc pc c : csame c (set_cpc pc c).
Proof. repeat split. Qed.
Lemma csame_cfired c : csame c (set_cfired c).
Proof. repeat split. Qed.

Lemma minfo_ok_same hist e e' c c' :
  minfo_ok hist e -> e_w e' = e_w e -> e_cl e = Some c -> e_cl e' = Some c' -> csame c c' -> minfo_ok hist e'.
Proof.
  intros [A [B C]] Hw Hc Hc' (Hid & Hn & Hf & Ho & Hu & He). rewrite Hc in *. unfold minfo_ok. rewrite Hw, Hc'.
  split; [|split].
  - intros f Hf0. destruct (A f Hf0) as [c0 [E [X [Y Z]]]]. injection E as <-. exists c'. repeat split; congruence.
  - intros m Hm. destruct (B m Hm) as [c0 [E [X [Y [Z W]]]]]. injection E as <-. exists c'.
    split; [reflexivity|]. split; [congruence|]. split; [congruence|]. rewrite Hf, Hu, He. split; assumption.
  - intros Hm. destruct (C Hm) as [c0 [E X]]. injection E as <-. exists c'. split; [reflexivity|]. rewrite He. exact X.
Qed.

Lemma minfo_ok_w hist e e' :
  minfo_ok hist e -> e_w e' = e_w e -> e_cl e' = e_cl e -> minfo_ok hist e'.
Proof. intros H Hw Hc. unfold minfo_ok in *. rewrite Hw, Hc. exact H. Qed.

Lemma client_ok_same cur hist n e e' c c' :
  client_ok cur hist n e -> e_nat e' = e_nat e -> e_cl e = Some c -> e_cl e' = Some c' -> csame c c' ->
  client_ok cur hist n e'.
Proof.
  intros H Hn Hc Hc' (Hid & Hnat & Hf & Ho & Hu & He) c0 Hc0. rewrite Hc' in Hc0. injection Hc0 as <-.
  destruct (H c Hc) as [A [B [C [D E]]]]. rewrite Hn, Hid, Hnat, Hf, Hu, He. repeat split; assumption.
Qed.

Lemma client_ok_w cur hist n e e' :
  client_ok cur hist n e -> e_nat e' = e_nat e -> e_cl e' = e_cl e -> client_ok cur hist n e'.
Proof. intros H Hn Hc. unfold client_ok in *. rewrite Hn, Hc. exact H. Qed.

(* ------------------------------------------------------------------ *)
(* preservation: steps that rewrite one entry                            *)

Lemma client_ok_mono cur hist n n' e : (n <= n')%nat -> client_ok cur hist n e -> client_ok cur hist n' e.
Proof. intros Hn H c Hc. destruct (H c Hc) as [A [B C]]. repeat split; try apply C; try assumption. lia. Qed.

Lemma entry_ok_mono v cur hist n n' e : (n <= n')%nat -> entry_ok v cur hist n e -> entry_ok v cur hist n' e.
Proof.
  intros Hn [A [B [C [D E]]]]. unfold entry_ok.
  split; [exact A|]. split; [exact B|]. split; [eapply client_ok_mono; eassumption|]. split; assumption.
Qed.

(* installing a list: every recorded fact survives (the new list is one more installed list, and every client's
   request is now strictly older than the newest installation) *)
Lemma entry_ok_install v cur hist n e br : entry_ok v cur hist n e -> entry_ok v br (br :: hist) n e.
Proof.
  intros [A [[B1 [B2 B3]] [C [D E]]]]. unfold entry_ok. split; [exact A|]. split; [|split; [|split; assumption]].
  - split; [exact B1|]. split.
    + intros m Hm. destruct (B2 m Hm) as [c [X [Y [Z [[i [b [Hi [Hb Hl]]]] W]]]]]. exists c.
      split; [exact X|]. split; [exact Y|]. split; [exact Z|]. split.
      * exists (S i), b. split; [cbn [length]; lia | split; [exact Hb | exact Hl]].
      * destruct W as [W|W]; [left; exact W | right; cbn [length]; lia].
    + intros Hm. destruct (B3 Hm) as [c [X Y]]. exists c. split; [exact X | cbn [length]; lia].
  - intros c Hc. destruct (C c Hc) as [X [Y [Z [[b [Hb Hl]] W]]]].
    split; [exact X|]. split; [exact Y|]. split; [cbn [length]; lia|]. split.
    + exists b. split; [|exact Hl]. cbn [length]. rewrite Nat.sub_succ_l by exact Z. exact Hb.
    + cbn [length]. intros Heq. lia.
Qed.

Definition live_z (e : entry) : Z := if e_live e then 1%Z else 0%Z.

Lemma inv_step_upd v s s' p e f :
  Inv v s ->
  nth_error (entries s) p = Some e ->
  entries s' = upd p f (entries s) ->
  bridges s' = bridges s ->
  br_hist s' = br_hist s ->
  (next_cid s <= next_cid s')%nat ->
  done_clients s' = done_clients s ->
  entry_ok v (bridges s) (br_hist s) (next_cid s') (f e) ->
  e_sid (f e) = e_sid e ->
  (forall sd q, In (sd, q) (idmap s') -> In (sd, q) (idmap s) /\ (q = p -> e_live (f e) = true)) ->
  gauge s' = (gauge s - live_z e + live_z (f e))%Z ->
  (forall x, In x (answer_log s) -> In x (answer_log s')) ->
  (forall a, In a (e_posted (f e)) -> In a (e_posted e) \/ exists aid, In (aid, e_sid e, a) (answer_log s')) ->
  (forall c', e_cl (f e) = Some c' ->
      (exists c, e_cl e = Some c /\ c_id c' = c_id c) \/ (e_cl e = None /\ (next_cid s <= c_id c')%nat)) ->
  Inv v s'.
Proof.
  intros I Hp He Hb Hh Hn Hd Hok Hsid Hid Hg Hlog Hpost Hcid.
  destruct I as [Ie Ii Ig Ipo Ic Id Ih].
  constructor.
  - intros q e' Hq. rewrite He in Hq. rewrite Hb, Hh.
    destruct (nth_upd_inv f _ _ _ _ Hq) as [[-> [x [Hx ->]]]|[Hne Hq']].
    + rewrite Hp in Hx. injection Hx as <-. exact Hok.
    + eapply entry_ok_mono; [exact Hn | eapply Ie; exact Hq'].
  - intros sd q Hin. destruct (Hid sd q Hin) as [Hin' Hlive].
    destruct (Ii sd q Hin') as [e0 [Hq [Hs Hl]]]. rewrite He.
    destruct (Nat.eq_dec p q) as [->|Hne].
    + rewrite Hp in Hq. injection Hq as <-. exists (f e).
      split; [apply nth_upd_eq; exact Hp|]. split; [congruence | apply Hlive; reflexivity].
    + exists e0. split; [rewrite nth_upd_neq by exact Hne; exact Hq | split; assumption].
  - rewrite Hg, He, Ig. rewrite (count_live_upd f _ _ _ Hp). unfold live_z. lia.
  - intros q e' a Hq Ha. rewrite He in Hq.
    destruct (nth_upd_inv f _ _ _ _ Hq) as [[-> [x [Hx ->]]]|[Hne Hq']].
    + rewrite Hp in Hx. injection Hx as <-. rewrite Hsid.
      destruct (Hpost a Ha) as [Hold|Hnew]; [|exact Hnew].
      destruct (Ipo _ _ _ Hp Hold) as [aid Haid]. exists aid. apply Hlog. exact Haid.
    + destruct (Ipo _ _ _ Hq' Ha) as [aid Haid]. exists aid. apply Hlog. exact Haid.
  - intros q1 q2 e1 e2 c1 c2 H1 H2 Hc1 Hc2 Heq. rewrite He in H1, H2.
    destruct (nth_upd_inv f _ _ _ _ H1) as [[<- [x1 [Hx1 ->]]]|[Hne1 H1']];
    destruct (nth_upd_inv f _ _ _ _ H2) as [[<- [x2 [Hx2 ->]]]|[Hne2 H2']].
    + reflexivity.
    + rewrite Hp in Hx1. injection Hx1 as <-. exfalso.
      destruct (Hcid c1 Hc1) as [[c [Hce Hci]]|[Hnone Hfresh]].
      * apply Hne2. eapply Ic; [exact Hp | exact H2' | exact Hce | exact Hc2 | congruence].
      * destruct (Ie _ _ H2') as [_ [_ [Hcl _]]]. destruct (Hcl c2 Hc2) as [_ [Hlt _]]. lia.
    + rewrite Hp in Hx2. injection Hx2 as <-. exfalso.
      destruct (Hcid c2 Hc2) as [[c [Hce Hci]]|[Hnone Hfresh]].
      * apply Hne1. symmetry. eapply Ic; [exact H1' | exact Hp | exact Hc1 | exact Hce | congruence].
      * destruct (Ie _ _ H1') as [_ [_ [Hcl _]]]. destruct (Hcl c1 Hc1) as [_ [Hlt _]]. lia.
    + eapply Ic; eassumption.
  - intros cid n fp o r Hin. rewrite Hd in Hin. apply Id in Hin. lia.
  - rewrite Hb, Hh. exact Ih.
Qed.

(* ------------------------------------------------------------------ *)
(* preservation, label by label                                          *)

Ltac unpack_ok H :=
  let A := fresh "Hshape" in let B := fresh "Hminfo" in let C := fresh "Hclient" in
  let D := fresh "Hans" in let E := fresh "Hstuck" in
  destruct H as [A [B [C [D E]]]].

Ltac bool_crush :=
  repeat match goal with
         | H : _ && _ = true |- _ => apply andb_prop in H; destruct H
         | H : negb _ = true |- _ => apply negb_true_iff in H
         | |- _ && _ = true => apply andb_true_intro; split
         | |- negb _ = true => apply negb_true_iff
         end.

Lemma inv_step_simple v s p e f :
  Inv v s ->
  nth_error (entries s) p = Some e ->
  entry_ok v (bridges s) (br_hist s) (next_cid s) (f e) ->
  e_sid (f e) = e_sid e -> e_live (f e) = e_live e ->
  (forall a, In a (e_posted (f e)) -> In a (e_posted e)) ->
  (forall c', e_cl (f e) = Some c' -> exists c, e_cl e = Some c /\ c_id c' = c_id c) ->
  Inv v (with_entries (upd p f (entries s)) s).
Proof.
  intros I Hp Hok Hsid Hlive Hpost Hcid.
  eapply (inv_step_upd v s _ p e f I Hp); cbn [with_entries entries bridges br_hist next_cid done_clients idmap gauge answer_log];
    try reflexivity; try lia; auto.
  - intros sd q Hin. split; [exact Hin|]. intros ->. rewrite Hlive.
    destruct (inv_idmap v s I sd p Hin) as [e0 [H0 [_ Hl]]]. rewrite Hp in H0. injection H0 as <-. exact Hl.
  - unfold live_z. rewrite Hlive. lia.
Qed.

Ltac same_client := let c := fresh "c" in let H := fresh "H" in
  intros c H; exists c; split; [exact H | reflexivity].

Ltac ok_split := unfold entry_ok; split; [| split; [| split; [| split]]].
Ltac unfold_ok := unfold shape_ok, answers_ok, no_stuck in *.

(* minfo_ok of an entry whose waiter is in a state that carries no offer *)
Lemma minfo_ok_none hist e :
  (forall f, e_w e <> W_Forward f) -> (forall m, e_w e <> W_Done (PMatch m)) -> e_w e <> W_Done PError ->
  minfo_ok hist e.
Proof.
  intros A B C. split; [|split].
  - intros f H. elim (A f H).
  - intros m H. elim (B m H).
  - intros H. elim (C H).
Qed.

Lemma step_FireW v s p s' : Inv v s -> step v s (L_FireW p) = Some s' -> Inv v s'.
Proof.
  intros I H. cbn [step] in H.
  destruct (nth_error (entries s) p) as [e|] eqn:Hp; [|discriminate].
  destruct (e_w e) eqn:Ew; try discriminate. destruct (e_wfired e) eqn:Ef; [discriminate|].
  injection H as <-.
  pose proof (inv_entries v s I p e Hp) as Hok.
  apply (inv_step_simple v s p e set_wfired I Hp); cbn; auto. same_client.
Qed.

Lemma step_WTake v s p s' : Inv v s -> step v s (L_WTake p) = Some s' -> Inv v s'.
Proof.
  intros I H. cbn [step] in H.
  destruct (nth_error (entries s) p) as [e|] eqn:Hp; [|discriminate].
  destruct (e_w e) eqn:Ew; try discriminate. destruct (e_wfired e) eqn:Ef; [|discriminate].
  injection H as <-.
  pose proof (inv_entries v s I p e Hp) as Hok.
  apply (inv_step_simple v s p e (set_w W_TimedOut) I Hp); cbn; auto; [|same_client].
  unpack_ok Hok. ok_split; unfold_ok; cbn; rewrite ?Ew in *.
  - destruct (e_cl e) as [c|]; [|exact Hshape]. destruct (c_pc c); exact Hshape.
  - apply minfo_ok_none; cbn; discriminate.
  - exact Hclient.
  - exact Hans.
  - destruct v; [split; [discriminate | apply Hstuck] | discriminate].
Qed.
