(* Proofs that depend on the generated tables (Gen/AccessTable.v: current source;
   Gen/AccessTableV0.v: pinned tree), and the non-vacuity examples of C20. *)
From Coq Require Import String List Arith Lia.
From Snow Require Import Model.LockTrace Proofs.LockTraceProofs Gen.AccessTable Gen.AccessTableV0.
Import ListNotations.

(* the table extracted from the current source passes the discipline *)
Lemma table_ok : discipline_ok access_table = true.
Proof. vm_compute. reflexivity. Qed.

Lemma tracked_fields_race_free :
  forall (field_of : loc -> string) (inst : loc -> string -> lock) tr,
  wf_locks tr -> wf_threads tr -> respects field_of inst access_table tr ->
  forall x, race_free_on tr x.
Proof.
  intros field_of inst tr Hwl Hwt Hres x.
  exact (table_gives_race_freedom field_of inst access_table table_ok tr Hwl Hwt Hres x).
Qed.

(* the pinned tree: these tracked fields have no consistent discipline *)
Lemma table_v0_refuted :
  failing_fields access_table_v0 =
  ["CountryStats.counts"; "CountryStats.natRestricted"; "CountryStats.natUnknown";
   "CountryStats.natUnrestricted"; "CountryStats.proxies[]"; "CountryStats.unknown";
   "Metrics.clientDeniedCount"; "Metrics.clientProxyMatchCount";
   "Metrics.clientRestrictedDeniedCount"; "Metrics.clientRoundtripEstimate";
   "Metrics.clientUnrestrictedDeniedCount"; "Metrics.countryStats"; "Metrics.proxyIdleCount";
   "Metrics.proxyPollRejectedWithRelayURLExtension"; "Metrics.proxyPollWithRelayURLExtension";
   "Metrics.proxyPollWithoutRelayURLExtension"; "bytesSyncLogger.inEvents";
   "bytesSyncLogger.inbound"; "bytesSyncLogger.outEvents"; "bytesSyncLogger.outbound";
   "roundedCounter.total"; "roundedCounter.value"; "tokens_t.clients"]%string
  /\ discipline_ok access_table_v0 = false.
Proof. split; vm_compute; reflexivity. Qed.

(* ---- the hypotheses are satisfiable ------------------------------------------------------- *)

Definition ex_tbl : list access :=
  [mkAccess "a.go:1" "writer" "T.f" KWrite ["T.mu"%string];
   mkAccess "a.go:2" "reader" "T.f" KRead ["T.mu"%string]]%string.

Definition ex_tr : trace :=
  [Fork 0 1; Acq 0 7; Wr 0 5; Rel 0 7; Acq 1 7; Rd 1 5; Rel 1 7].

Definition ex_field_of : loc -> string := fun _ => "T.f"%string.
Definition ex_inst : loc -> string -> lock := fun _ _ => 7.

(* a trace with two threads and a real conflict on location 5 that is well formed and
   respects a passing table: the theorems apply to it non-vacuously, and give hb 2 5 *)
Lemma hypotheses_satisfiable :
  discipline_ok ex_tbl = true /\ wf_locks ex_tr /\ wf_threads ex_tr /\
  respects ex_field_of ex_inst ex_tbl ex_tr /\
  nth_error ex_tr 2 = Some (Wr 0 5) /\ nth_error ex_tr 5 = Some (Rd 1 5) /\
  conflict (Wr 0 5) (Rd 1 5) 5 /\
  disciplined ex_tr 5 /\ hb ex_tr 2 5.
Proof.
  assert (Hwl : wf_locks ex_tr) by (eexists; reflexivity).
  assert (Hwt : wf_threads ex_tr).
  { intros j e Hj Hne.
    do 7 (destruct j as [|j]; [cbn in Hj; inversion Hj; subst e; cbn in *; unfold main_thread in *;
          first [congruence | (exists 0, 0; split; [lia|reflexivity])]|]).
    destruct j; discriminate. }
  assert (Hres : respects ex_field_of ex_inst ex_tbl ex_tr).
  { intros i e x Hi Ha.
    destruct i as [|[|[|[|[|[|[|i]]]]]]]; cbn in Hi; try (destruct i; discriminate);
      inversion Hi; subst e; unfold accesses in Ha; cbn in Ha; try discriminate.
    - exists (mkAccess "a.go:1" "writer" "T.f" KWrite ["T.mu"%string]). cbn.
      repeat split; auto. intros g _. eexists; split; reflexivity.
    - exists (mkAccess "a.go:2" "reader" "T.f" KRead ["T.mu"%string]). cbn.
      repeat split; auto. intros g _. eexists; split; reflexivity. }
  assert (Hc : conflict (Wr 0 5) (Rd 1 5) 5).
  { unfold conflict, accesses. cbn. repeat split; auto. }
  assert (Hok : discipline_ok ex_tbl = true) by reflexivity.
  assert (Hd : disciplined ex_tr 5) by (eapply discipline_sound; eauto).
  repeat split; auto; try apply Hc.
  eapply (lockset_drf ex_tr Hwl Hwt 5 Hd 2 5); eauto. reflexivity. reflexivity.
Qed.

(* ---- and the conclusion is not trivially true --------------------------------------------- *)

(* two unsynchronised writes after a fork: well formed, but NOT ordered by happens-before *)
Definition racy_tr : trace := [Fork 0 1; Wr 0 5; Wr 1 5].

Lemma racy_hb_shape : forall i j, hb racy_tr i j -> i = 0 /\ (j = 1 \/ j = 2).
Proof.
  intros i j H. induction H as [i j e1 e2 Hij H1 H2 Ht|i j t t' l Hij H1 H2|i j t t' e Hij H1 H2 Ht|i j k _ IH1 _ IH2].
  - destruct i as [|[|[|i]]]; destruct j as [|[|[|j]]]; cbn in *; try lia; try discriminate;
      inversion H1; inversion H2; subst; cbn in Ht; try discriminate; auto.
    all: try (destruct i; discriminate); try (destruct j; discriminate).
  - destruct i as [|[|[|i]]]; cbn in H1; try discriminate. destruct i; discriminate.
  - destruct i as [|[|[|i]]]; cbn in H1; try discriminate; [|destruct i; discriminate].
    inversion H1; subst.
    destruct j as [|[|[|j]]]; cbn in H2; try lia; try (inversion H2; subst; cbn in *; auto; discriminate).
    destruct j; discriminate.
  - destruct IH1 as [-> [->| ->]]; destruct IH2 as [E _]; discriminate.
Qed.

Lemma racy_trace_not_ordered :
  wf_locks racy_tr /\ wf_threads racy_tr /\ conflict (Wr 0 5) (Wr 1 5) 5 /\
  ~ hb racy_tr 1 2 /\ ~ disciplined racy_tr 5.
Proof.
  assert (Hwl : wf_locks racy_tr) by (eexists; reflexivity).
  assert (Hwt : wf_threads racy_tr).
  { intros j e Hj Hne.
    do 3 (destruct j as [|j]; [cbn in Hj; inversion Hj; subst e; cbn in *; unfold main_thread in *;
          first [congruence | (exists 0, 0; split; [lia|reflexivity])]|]).
    destruct j; discriminate. }
  assert (Hc : conflict (Wr 0 5) (Wr 1 5) 5).
  { unfold conflict, accesses. cbn. repeat split; auto. }
  assert (Hn : ~ hb racy_tr 1 2).
  { intros H. apply racy_hb_shape in H. destruct H; discriminate. }
  repeat split; auto; try apply Hc.
  intros Hd. apply Hn.
  apply (lockset_drf racy_tr Hwl Hwt 5 Hd 1 2 (Wr 0 5) (Wr 1 5)); auto.
Qed.
