(* Proofs that depend on the generated tables (Gen/AccessTable.v: current source;
   Gen/AccessTableV0.v: pinned tree), and the non-vacuity examples of C20. *)
From Coq Require Import String List Arith Lia.
From Snow Require Import Model.LockTrace Proofs.LockTraceProofs Gen.AccessTable Gen.AccessTableV0.
Import ListNotations.

(* the table extracted from the current source passes the discipline *)
Lemma table_ok : discipline_ok access_table = true.
Proof. vm_compute. reflexivity. Qed.

Lemma tracked_fields_race_free :
  forall (field_of : loc -> string) (inst : loc -> string -> lock) tr,
  wf_locks tr -> wf_threads tr -> respects field_of inst access_table tr ->
  forall x, race_free_on tr x.
Proof.
  intros field_of inst tr Hwl Hwt Hres x.
  exact (table_gives_race_freedom field_of inst access_table table_ok tr Hwl Hwt Hres x).
Qed.

(* the pinned tree: these tracked fields have no consistent discipline *)
Lemma table_v0_refuted :
  failing_fields access_table_v0 =
  ["CountryStats.counts"; "CountryStats.natRestricted"; "CountryStats.natUnknown";
   "CountryStats.natUnrestricted"; "CountryStats.proxies[]"; "CountryStats.unknown";
   "Metrics.clientDeniedCount"; "Metrics.clientProxyMatchCount";
   "Metrics.clientRestrictedDeniedCount"; "Metrics.clientRoundtripEstimate";
   "Metrics.clientUnrestrictedDeniedCount"; "Metrics.countryStats"; "Metrics.proxyIdleCount";
   "Metrics.proxyPollRejectedWithRelayURLExtension"; "Metrics.proxyPollWithRelayURLExtension";
   "Metrics.proxyPollWithoutRelayURLExtension"; "bytesSyncLogger.inEvents";
   "bytesSyncLogger.inbound"; "bytesSyncLogger.outEvents"; "bytesSyncLogger.outbound";
   "roundedCounter.total"; "roundedCounter.value"; "tokens_t.clients"]%string
  /\ discipline_ok access_table_v0 = false.
Proof. split; vm_compute; reflexivity. Qed.

(* ---- the hypotheses are satisfiable ------------------------------------------------------- *)

Definition ex_tbl : list access :=
  [mkAccess "a.go:1" "writer" "T.f" KWrite ["T.mu"%string];
   mkAccess "a.go:2" "reader" "T.f" KRead ["T.mu"%string]]%string.

Definition ex_tr : trace :=
  [Fork 0 1; Acq 0 7; Wr 0 5; Rel 0 7; Acq 1 7; Rd 1 5; Rel 1 7].

(* the read-write variant: the writer holds the RWMutex in write mode, two readers are inside
   overlapping read sections of it *)
Definition rw_tbl : list access :=
  [mkAccess "b.go:1" "writer" "T.f" KWrite ["T.rw"; "T.rw#R"];
   mkAccess "b.go:2" "reader" "T.f" KRead ["T.rw#R"]]%string.
Definition rw_tr : trace :=
  [Fork 0 1; Fork 0 2; RAcq 1 7; RAcq 2 7; Rd 1 5; Rd 2 5; RRel 1 7; RRel 2 7; Acq 0 7; Wr 0 5; Rel 0 7;
   RAcq 2 7; Rd 2 5; RRel 2 7].
(* a WRITE made under a read-mode hold: the table check rejects it *)
Definition rw_bad_tbl : list access :=
  [mkAccess "b.go:1" "writer" "T.f" KWrite ["T.rw#R"];
   mkAccess "b.go:2" "reader" "T.f" KRead ["T.rw#R"]]%string.
Definition rw_bad_tr : trace :=
  [Fork 0 1; RAcq 0 7; RAcq 1 7; Wr 0 5; Rd 1 5].

Definition ex_field_of : loc -> string := fun _ => "T.f"%string.
Definition ex_inst : loc -> string -> lock := fun _ _ => 7.

(* a trace with two threads and a real conflict on location 5 that is well formed and
   respects a passing table: the theorems apply to it non-vacuously, and give hb 2 5 *)
Lemma hypotheses_satisfiable :
  discipline_ok ex_tbl = true /\ wf_locks ex_tr /\ wf_threads ex_tr /\
  respects ex_field_of ex_inst ex_tbl ex_tr /\
  nth_error ex_tr 2 = Some (Wr 0 5) /\ nth_error ex_tr 5 = Some (Rd 1 5) /\
  conflict (Wr 0 5) (Rd 1 5) 5 /\
  disciplined ex_tr 5 /\ hb ex_tr 2 5.
Proof.
  assert (Hchk : check_trace ex_field_of ex_inst ex_tbl ex_tr = true) by (vm_compute; reflexivity).
  destruct (check_sound ex_field_of ex_inst ex_tbl ex_tr Hchk) as (Hwl & Hwt & Hres).
  assert (Hc : conflict (Wr 0 5) (Rd 1 5) 5).
  { unfold conflict, accesses. cbn. repeat split; auto. }
  assert (Hok : discipline_ok ex_tbl = true) by (vm_compute; reflexivity).
  assert (Hd : disciplined ex_tr 5) by (eapply discipline_sound; eauto).
  repeat split; auto; try apply Hc.
  eapply (lockset_drf ex_tr Hwl Hwt 5 Hd 2 5); eauto. reflexivity. reflexivity.
Qed.

(* ---- read-write locks: overlapping read sections are in scope -------------------------------- *)

(* rw_tr is well formed although threads 1 and 2 are inside read sections of lock 7 at the same
   time (position 4); it respects a passing table; the write of thread 0 conflicts with both
   earlier reads and with the later one, and the theorem orders all three pairs *)
Lemma rw_hypotheses_satisfiable :
  discipline_ok rw_tbl = true /\ wf_locks rw_tr /\ wf_threads rw_tr /\
  respects ex_field_of ex_inst rw_tbl rw_tr /\
  holds_r rw_tr 4 1 7 /\ holds_r rw_tr 4 2 7 /\
  conflict (Rd 1 5) (Wr 0 5) 5 /\ conflict (Rd 2 5) (Wr 0 5) 5 /\ conflict (Wr 0 5) (Rd 2 5) 5 /\
  hb rw_tr 4 9 /\ hb rw_tr 5 9 /\ hb rw_tr 9 12.
Proof.
  assert (Hchk : check_trace ex_field_of ex_inst rw_tbl rw_tr = true) by (vm_compute; reflexivity).
  destruct (check_sound ex_field_of ex_inst rw_tbl rw_tr Hchk) as (Hwl & Hwt & Hres).
  assert (Hok : discipline_ok rw_tbl = true) by (vm_compute; reflexivity).
  assert (Hd : disciplined rw_tr 5) by (eapply discipline_sound; eauto).
  assert (Hc1 : conflict (Rd 1 5) (Wr 0 5) 5) by (unfold conflict, accesses; cbn; repeat split; auto).
  assert (Hc2 : conflict (Rd 2 5) (Wr 0 5) 5) by (unfold conflict, accesses; cbn; repeat split; auto).
  assert (Hc3 : conflict (Wr 0 5) (Rd 2 5) 5) by (unfold conflict, accesses; cbn; repeat split; auto).
  split; [exact Hok|]. split; [exact Hwl|]. split; [exact Hwt|]. split; [exact Hres|].
  split; [eexists; split; [reflexivity | cbn; auto]|].
  split; [eexists; split; [reflexivity | cbn; auto]|].
  split; [exact Hc1|]. split; [exact Hc2|]. split; [exact Hc3|].
  split; [|split].
  - apply (lockset_drf rw_tr Hwl Hwt 5 Hd 4 9 (Rd 1 5) (Wr 0 5)); [lia | reflexivity | reflexivity | exact Hc1].
  - apply (lockset_drf rw_tr Hwl Hwt 5 Hd 5 9 (Rd 2 5) (Wr 0 5)); [lia | reflexivity | reflexivity | exact Hc2].
  - apply (lockset_drf rw_tr Hwl Hwt 5 Hd 9 12 (Wr 0 5) (Rd 2 5)); [lia | reflexivity | reflexivity | exact Hc3].
Qed.

(* a write made while only a READ section is open: the trace is well formed and every access is
   an instance of a row of rw_bad_tbl holding what the row records, yet the write and the read of
   the other thread are unordered - and the table check rejects rw_bad_tbl for exactly that row *)
Lemma rw_bad_hb_source : forall i j, hb rw_bad_tr i j -> i < 3.
Proof.
  intros i j H. induction H as [i j e1 e2 Hij H1 H2 Ht|i j t t' l Hij H1 H2|i j t t' l Hij H1 H2|i j t t' l Hij H1 H2
                               |i j t t' e Hij H1 H2 Ht|i j k _ IH1 _ IH2]; auto.
  - destruct i as [|[|[|[|[|i]]]]]; try lia; cbn in H1; try (destruct i; discriminate).
    + inversion H1; subst e1.
      destruct j as [|[|[|[|[|j]]]]]; try lia; cbn in H2; try (destruct j; discriminate).
      inversion H2; subst e2. cbn in Ht. discriminate.
    + inversion H1; subst e1.
      destruct j as [|[|[|[|[|j]]]]]; try lia; cbn in H2; destruct j; discriminate.
  - destruct i as [|[|[|[|[|i]]]]]; cbn in H1; try discriminate; destruct i; discriminate.
  - destruct i as [|[|[|[|[|i]]]]]; cbn in H1; try discriminate; destruct i; discriminate.
  - destruct i as [|[|[|[|[|i]]]]]; cbn in H1; try discriminate; destruct i; discriminate.
  - destruct i as [|[|[|[|[|i]]]]]; cbn in H1; try discriminate; try lia; destruct i; discriminate.
Qed.

Lemma write_under_read_lock_rejected :
  discipline_ok rw_bad_tbl = false /\ failing_fields rw_bad_tbl = ["T.f"%string] /\
  wf_locks rw_bad_tr /\ wf_threads rw_bad_tr /\ respects ex_field_of ex_inst rw_bad_tbl rw_bad_tr /\
  conflict (Wr 0 5) (Rd 1 5) 5 /\ ~ hb rw_bad_tr 3 4 /\ ~ disciplined rw_bad_tr 5.
Proof.
  assert (Hchk : check_trace ex_field_of ex_inst rw_bad_tbl rw_bad_tr = true) by (vm_compute; reflexivity).
  destruct (check_sound ex_field_of ex_inst rw_bad_tbl rw_bad_tr Hchk) as (Hwl & Hwt & Hres).
  assert (Hc : conflict (Wr 0 5) (Rd 1 5) 5) by (unfold conflict, accesses; cbn; repeat split; auto).
  assert (Hn : ~ hb rw_bad_tr 3 4) by (intros H; apply rw_bad_hb_source in H; lia).
  split; [vm_compute; reflexivity|]. split; [vm_compute; reflexivity|].
  repeat split; auto; try apply Hc.
  intros Hd. apply Hn. apply (lockset_drf rw_bad_tr Hwl Hwt 5 Hd 3 4 (Wr 0 5) (Rd 1 5)); auto.
Qed.

(* ---- the generated table: its hypothesis is satisfiable -------------------------------------- *)

(* the locks a trace enters, the locations it touches *)
Fixpoint acquired (tr : trace) : list lock :=
  match tr with
  | [] => []
  | Acq _ l :: r | RAcq _ l :: r => l :: acquired r
  | _ :: r => acquired r
  end.
Fixpoint touched (tr : trace) : list loc :=
  match tr with
  | [] => []
  | e :: r => match acc_loc e with Some x => x :: touched r | None => touched r end
  end.

(* some read section is entered while another thread is inside a read section of the same lock *)
Fixpoint overlapb (tr : trace) (s : lockst) : bool :=
  match tr with
  | [] => false
  | e :: r =>
      match step s e with
      | None => false
      | Some s' =>
          match e with
          | RAcq t l => existsb (fun t' => negb (Nat.eqb t' t)) (rds (s l))
          | _ => false
          end || overlapb r s'
      end
  end.

Lemma overlapb_sound_gen : forall q p s,
  run p st0 = Some s -> overlapb q s = true ->
  exists i t1 t2 g, t1 <> t2 /\ holds_r (p ++ q)%list i t1 g /\ holds_r (p ++ q)%list i t2 g.
Proof.
  induction q as [|e q IH]; intros p s Hrun H; cbn in H; [discriminate|].
  destruct (step s e) as [s1|] eqn:Hst; [|discriminate].
  assert (Hrun1 : run (p ++ [e])%list st0 = Some s1) by (rewrite run_app, Hrun; cbn; now rewrite Hst).
  apply Bool.orb_true_iff in H. destruct H as [H|H].
  - destruct e as [t l|t l|t l|t l|t x|t x|t x|t t']; try discriminate.
    apply existsb_exists in H. destruct H as (t' & Hin & Hne).
    apply Bool.negb_true_iff, Nat.eqb_neq in Hne.
    cbn in Hst. destruct (wr (s l)); [discriminate|]. inversion Hst; subst s1.
    exists (length (p ++ [RAcq t l])%list), t, t', l. split; [congruence|].
    replace (p ++ RAcq t l :: q)%list with ((p ++ [RAcq t l]) ++ q)%list by (now rewrite <- app_assoc).
    split; eexists; (split; [rewrite firstn_prefix; exact Hrun1|]); rewrite upd_same; cbn; auto.
  - replace (p ++ e :: q)%list with ((p ++ [e]) ++ q)%list by (now rewrite <- app_assoc). eapply IH; eauto.
Qed.

Lemma overlapb_sound : forall tr, overlapb tr st0 = true ->
  exists i t1 t2 g, t1 <> t2 /\ holds_r tr i t1 g /\ holds_r tr i t2 g.
Proof. intros tr H. exact (overlapb_sound_gen tr [] st0 eq_refl H). Qed.

Lemma gen_ex_checked : check_trace gen_ex_field_of gen_ex_inst access_table gen_ex_tr = true.
Proof. vm_compute. reflexivity. Qed.

(* a trace over the real field names, built from the table's own rows (writer row and reader row
   of eight fields guarded by different mutexes, two readers inside one read section of the
   RWMutex), respects the generated table: the premise of C20_tracked_fields_race_free is
   satisfiable for it *)
Lemma generated_table_respected :
  wf_locks gen_ex_tr /\ wf_threads gen_ex_tr /\
  respects gen_ex_field_of gen_ex_inst access_table gen_ex_tr /\
  3 <= length (nodup Nat.eq_dec (acquired gen_ex_tr)) /\
  3 <= length (nodup string_dec (map gen_ex_field_of (touched gen_ex_tr))) /\
  (forall x, race_free_on gen_ex_tr x) /\
  (exists i t1 t2 g, t1 <> t2 /\ holds_r gen_ex_tr i t1 g /\ holds_r gen_ex_tr i t2 g).
Proof.
  destruct (check_sound _ _ _ _ gen_ex_checked) as (Hwl & Hwt & Hres).
  split; [exact Hwl|]. split; [exact Hwt|]. split; [exact Hres|].
  split; [vm_compute; lia|]. split; [vm_compute; lia|]. split.
  - intros x. exact (tracked_fields_race_free gen_ex_field_of gen_ex_inst gen_ex_tr Hwl Hwt Hres x).
  - apply overlapb_sound. vm_compute. reflexivity.
Qed.

(* what the recorded-trace leg of the check establishes for each trace it accepts *)
Lemma checked_trace_race_free :
  forall (field_of : loc -> string) (inst : loc -> string -> lock) tr,
  check_trace field_of inst access_table tr = true ->
  wf_locks tr /\ wf_threads tr /\ respects field_of inst access_table tr /\ forall x, race_free_on tr x.
Proof.
  intros field_of inst tr H. destruct (check_sound _ _ _ _ H) as (Hwl & Hwt & Hres).
  repeat split; auto. intros x. exact (tracked_fields_race_free field_of inst tr Hwl Hwt Hres x).
Qed.

(* ---- and the conclusion is not trivially true --------------------------------------------- *)

(* two unsynchronised writes after a fork: well formed, but NOT ordered by happens-before *)
Definition racy_tr : trace := [Fork 0 1; Wr 0 5; Wr 1 5].

Lemma racy_hb_shape : forall i j, hb racy_tr i j -> i = 0 /\ (j = 1 \/ j = 2).
Proof.
  intros i j H. induction H as [i j e1 e2 Hij H1 H2 Ht|i j t t' l Hij H1 H2|i j t t' l Hij H1 H2|i j t t' l Hij H1 H2
                               |i j t t' e Hij H1 H2 Ht|i j k _ IH1 _ IH2].
  - destruct i as [|[|[|i]]]; destruct j as [|[|[|j]]]; cbn in *; try lia; try discriminate;
      inversion H1; inversion H2; subst; cbn in Ht; try discriminate; auto.
    all: try (destruct i; discriminate); try (destruct j; discriminate).
  - destruct i as [|[|[|i]]]; cbn in H1; try discriminate. destruct i; discriminate.
  - destruct i as [|[|[|i]]]; cbn in H1; try discriminate. destruct i; discriminate.
  - destruct i as [|[|[|i]]]; cbn in H1; try discriminate. destruct i; discriminate.
  - destruct i as [|[|[|i]]]; cbn in H1; try discriminate; [|destruct i; discriminate].
    inversion H1; subst.
    destruct j as [|[|[|j]]]; cbn in H2; try lia; try (inversion H2; subst; cbn in *; auto; discriminate).
    destruct j; discriminate.
  - destruct IH1 as [-> [->| ->]]; destruct IH2 as [E _]; discriminate.
Qed.

Lemma racy_trace_not_ordered :
  wf_locks racy_tr /\ wf_threads racy_tr /\ conflict (Wr 0 5) (Wr 1 5) 5 /\
  ~ hb racy_tr 1 2 /\ ~ disciplined racy_tr 5.
Proof.
  assert (Hwl : wf_locks racy_tr) by (eexists; reflexivity).
  assert (Hwt : wf_threads racy_tr).
  { intros j e Hj Hne.
    do 3 (destruct j as [|j]; [cbn in Hj; inversion Hj; subst e; cbn in *; unfold main_thread in *;
          first [congruence | (exists 0, 0; split; [lia|reflexivity])]|]).
    destruct j; discriminate. }
  assert (Hc : conflict (Wr 0 5) (Wr 1 5) 5).
  { unfold conflict, accesses. cbn. repeat split; auto. }
  assert (Hn : ~ hb racy_tr 1 2).
  { intros H. apply racy_hb_shape in H. destruct H; discriminate. }
  repeat split; auto; try apply Hc.
  intros Hd. apply Hn.
  apply (lockset_drf racy_tr Hwl Hwt 5 Hd 1 2 (Wr 0 5) (Wr 1 5)); auto.
Qed.
