(* TokensConcProofs.v — tokens_t under arbitrary interleavings of its callers (Model/TokensConc.v). *)
From Coq Require Import List ZArith Arith Bool Lia.
From Snow Require Import Model.Tokens Model.TokensConc.
Import ListNotations.
Local Open Scope Z_scope.

Lemma sumz_cons : forall f m l, sumz f (m :: l) = f m + sumz f l.
Proof. reflexivity. Qed.
Lemma total_cons : forall f l ll, total f (l :: ll) = sumz f l + total f ll.
Proof. reflexivity. Qed.
Lemma prog_net_cons : forall o p, prog_net (o :: p) = op_net o + prog_net p.
Proof. reflexivity. Qed.
Lemma progs_net_cons : forall p ps, progs_net (p :: ps) = prog_net p + progs_net ps.
Proof. reflexivity. Qed.

Lemma total_set_nth : forall f ll i m rest,
  nth_error ll i = Some (m :: rest) -> total f (set_nth ll i rest) = total f ll - f m.
Proof.
  intros f ll. induction ll as [|l ll IH]; intros i m rest H.
  - destruct i; discriminate.
  - destruct i as [|j]; cbn [nth_error] in H.
    + inversion H; subst. cbn [set_nth]. rewrite !total_cons, sumz_cons. lia.
    + cbn [set_nth]. rewrite !total_cons, (IH j m rest H). lia.
Qed.

Lemma set_nth_length : forall A (l : list A) i x, length (set_nth l i x) = length l.
Proof. intros A l. induction l as [|y l IH]; intros i x; destruct i; cbn [set_nth length]; auto. Qed.

Lemma sumz_app : forall f a b, sumz f (a ++ b) = sumz f a + sumz f b.
Proof. intros f a b. induction a as [|m a IH]; [reflexivity|]. cbn [app]. rewrite !sumz_cons, IH. lia. Qed.

Lemma sumz_compile_c : forall p, sumz net_c (compile p) = prog_net p.
Proof.
  induction p as [|o p IH]; [reflexivity|].
  change (compile (o :: p)) with (micros_of o ++ compile p). rewrite sumz_app, IH, prog_net_cons.
  destruct o; reflexivity.
Qed.
Lemma sumz_compile_h : forall p, sumz net_h (compile p) = prog_net p.
Proof.
  induction p as [|o p IH]; [reflexivity|].
  change (compile (o :: p)) with (micros_of o ++ compile p). rewrite sumz_app, IH, prog_net_cons.
  destruct o; reflexivity.
Qed.
Lemma total_compile_c : forall ps, total net_c (map compile ps) = progs_net ps.
Proof. induction ps as [|p ps IH]; [reflexivity|]. cbn [map]. rewrite total_cons, progs_net_cons, IH, sumz_compile_c. reflexivity. Qed.
Lemma total_compile_h : forall ps, total net_h (map compile ps) = progs_net ps.
Proof. induction ps as [|p ps IH]; [reflexivity|]. cbn [map]. rewrite total_cons, progs_net_cons, IH, sumz_compile_h. reflexivity. Qed.

Lemma quiescent_total : forall f ll, forallb finished ll = true -> total f ll = 0.
Proof.
  intros f ll. induction ll as [|l ll IH]; [reflexivity|]. cbn [forallb]. intro H.
  apply andb_true_iff in H. destruct H as [Hl Hr]. destruct l; [|discriminate].
  rewrite total_cons, (IH Hr). reflexivity.
Qed.

(* ---- one step ------------------------------------------------------------------------------------ *)
Lemma clients_apply : forall t m, clients (micro_apply t m) = clients t + net_c m.
Proof. intros t m. destruct m; cbn [micro_apply net_c]; unfold tok_inc, tok_dec, tok_send, tok_recv; try destruct (cap t =? 0)%nat; cbn [clients]; lia. Qed.

Lemma cap_apply : forall t m, cap (micro_apply t m) = cap t.
Proof. intros t m. destruct m; cbn [micro_apply]; unfold tok_inc, tok_dec, tok_send, tok_recv; try destruct (cap t =? 0)%nat; reflexivity. Qed.

Lemma chlen_apply : forall t m, cap t <> O -> micro_ready t m = true ->
  Z.of_nat (chlen (micro_apply t m)) = Z.of_nat (chlen t) + net_h m /\ (chlen t <= cap t -> chlen (micro_apply t m) <= cap t)%nat.
Proof.
  intros t m Hc Hr. destruct m; cbn [micro_apply net_h micro_ready] in *; unfold tok_inc, tok_dec, tok_send, tok_recv, send_ready, recv_ready in *.
  - cbn [chlen]. split; [lia|auto].
  - destruct (Nat.eqb_spec (cap t) 0) as [E|E]; [contradiction|]. cbn [orb] in Hr. apply Nat.ltb_lt in Hr. cbn [chlen]. split; lia.
  - cbn [chlen]. split; [lia|auto].
  - destruct (Nat.eqb_spec (cap t) 0) as [E|E]; [contradiction|]. cbn [orb] in Hr. apply Nat.ltb_lt in Hr. cbn [chlen]. split; lia.
Qed.

Lemma chlen_apply_nocap : forall t m, cap t = O -> chlen (micro_apply t m) = chlen t.
Proof. intros t m Hc. destruct m; cbn [micro_apply]; unfold tok_inc, tok_dec, tok_send, tok_recv; rewrite ?Hc; reflexivity. Qed.

Definition cinv (K H : Z) (s : cstate) : Prop :=
  clients (ctok s) + total net_c (todo s) = K /\
  (cap (ctok s) <> O -> Z.of_nat (chlen (ctok s)) + total net_h (todo s) = H /\ (chlen (ctok s) <= cap (ctok s))%nat) /\
  (cap (ctok s) = O -> chlen (ctok s) = O).

Lemma cstep_inv : forall K H s i s', cinv K H s -> cstep s i = Some s' ->
  cinv K H s' /\ cap (ctok s') = cap (ctok s) /\ length (todo s') = length (todo s).
Proof.
  intros K H s i s' (Ic & Ih & I0) Hs. unfold cstep in Hs.
  destruct (nth_error (todo s) i) as [[|m rest]|] eqn:En; try discriminate.
  destruct (micro_ready (ctok s) m) eqn:Er; [|discriminate]. inversion Hs; subst s'; clear Hs. cbn [ctok todo].
  rewrite cap_apply, set_nth_length. split; [|split; reflexivity].
  unfold cinv. cbn [ctok todo]. rewrite cap_apply, clients_apply, !(total_set_nth _ _ _ _ _ En). split; [lia|]. split.
  - intro Hc. destruct (Ih Hc) as [Ha Hb]. destruct (chlen_apply _ _ Hc Er) as [Hx Hy]. split; [lia|auto].
  - intro Hc. rewrite chlen_apply_nocap by exact Hc. auto.
Qed.

Lemma crun_inv : forall sched K H s s', cinv K H s -> crun s sched = Some s' ->
  cinv K H s' /\ cap (ctok s') = cap (ctok s) /\ length (todo s') = length (todo s).
Proof.
  induction sched as [|i r IH]; intros K H s s' I Hr; cbn [crun] in Hr.
  - inversion Hr; subst. auto.
  - destruct (cstep s i) as [s1|] eqn:E; [|discriminate].
    destruct (cstep_inv _ _ _ _ _ I E) as (I1 & Hc1 & Hl1).
    destruct (IH _ _ _ _ I1 Hr) as (I2 & Hc2 & Hl2). split; [exact I2|]. split; congruence.
Qed.

(* a tokens value as the sequential machine leaves it: the channel holds one element per counted client *)
Definition balanced (t : tokens) : Prop :=
  (cap t <> O -> Z.of_nat (chlen t) = clients t /\ (chlen t <= cap t)%nat) /\ (cap t = O -> chlen t = O).

Lemma cinit_cinv : forall t ps, balanced t ->
  cinv (clients t + progs_net ps) (clients t + progs_net ps) (cinit t ps).
Proof.
  intros t ps [Hb H0]. unfold cinv, cinit. cbn [ctok todo]. rewrite total_compile_c, total_compile_h.
  split; [reflexivity|]. split; [|exact H0]. intro Hc. destruct (Hb Hc) as [Ha Hl]. split; [lia|exact Hl].
Qed.

(* ---- the statements ------------------------------------------------------------------------------ *)

(* at every point of every interleaving: the counter is its start value plus what the steps taken so far added, i.e.
   the final value minus what the pending steps will still add.  No update is ever lost or doubled. *)
Theorem counter_exact : forall t ps sched s, balanced t ->
  crun (cinit t ps) sched = Some s ->
  clients (ctok s) = clients t + progs_net ps - total net_c (todo s).
Proof.
  intros t ps sched s Hb Hr. destruct (crun_inv _ _ _ _ _ (cinit_cinv t ps Hb) Hr) as ((Ic & _) & _). lia.
Qed.

Theorem channel_exact : forall t ps sched s, balanced t -> cap t <> O ->
  crun (cinit t ps) sched = Some s ->
  Z.of_nat (chlen (ctok s)) = clients t + progs_net ps - total net_h (todo s) /\ (chlen (ctok s) <= cap t)%nat.
Proof.
  intros t ps sched s Hb Hc Hr. destruct (crun_inv _ _ _ _ _ (cinit_cinv t ps Hb) Hr) as ((_ & Ih & _) & Hcap & _).
  cbn [cinit ctok] in Hcap. rewrite Hcap in Ih. destruct (Ih Hc) as [Ha Hl]. rewrite <- Hcap. rewrite Hcap. split; [lia|exact Hl].
Qed.

(* quiescence: the same count whatever the schedule was, and the tokens value is balanced again *)
Theorem quiescent_count : forall t ps sched s, balanced t ->
  crun (cinit t ps) sched = Some s -> quiescent s = true ->
  clients (ctok s) = clients t + progs_net ps /\ balanced (ctok s).
Proof.
  intros t ps sched s Hb Hr Hq. unfold quiescent in Hq.
  destruct (crun_inv _ _ _ _ _ (cinit_cinv t ps Hb) Hr) as ((Ic & Ih & I0) & Hcap & _).
  rewrite (quiescent_total _ _ Hq) in Ic. split; [lia|]. split; [|exact I0].
  intro Hc. destruct (Ih Hc) as [Ha Hl]. rewrite (quiescent_total _ _ Hq) in Ha. split; [lia|exact Hl].
Qed.

Corollary quiescent_schedule_independent : forall t ps sched1 sched2 s1 s2, balanced t ->
  crun (cinit t ps) sched1 = Some s1 -> quiescent s1 = true ->
  crun (cinit t ps) sched2 = Some s2 -> quiescent s2 = true ->
  clients (ctok s1) = clients (ctok s2).
Proof.
  intros t ps a b s1 s2 Hb H1 Q1 H2 Q2.
  destruct (quiescent_count _ _ _ _ Hb H1 Q1) as [E1 _]. destruct (quiescent_count _ _ _ _ Hb H2 Q2) as [E2 _]. lia.
Qed.

(* the driver's round: n holders and n starters, k short sessions each: a quiescent round leaves the count as it was *)
Lemma pairs_net : forall k, prog_net (pairs k) = 0.
Proof. induction k as [|k IH]; [reflexivity|]. cbn [pairs]. rewrite !prog_net_cons, IH. reflexivity. Qed.
Lemma prog_net_app : forall a b, prog_net (a ++ b) = prog_net a + prog_net b.
Proof. intros a b. induction a as [|o a IH]; [reflexivity|]. cbn [app]. rewrite !prog_net_cons, IH. lia. Qed.
Lemma round_net : forall n k, progs_net (round_progs n k) = 0.
Proof.
  induction n as [|n IH]; intro k; [reflexivity|]. cbn [round_progs]. rewrite !progs_net_cons, IH.
  unfold holder, starter. rewrite prog_net_app, !prog_net_cons, pairs_net. reflexivity.
Qed.

Theorem stress_round_count : forall t n k sched s, balanced t ->
  crun (cinit t (round_progs n k)) sched = Some s -> quiescent s = true ->
  clients (ctok s) = clients t /\ balanced (ctok s).
Proof.
  intros t n k sched s Hb Hr Hq. destruct (quiescent_count _ _ _ _ Hb Hr Hq) as [E B]. rewrite round_net in E. split; [lia|exact B].
Qed.

(* without a channel (capacity 0) no step ever blocks: every goroutine with something left to do can move *)
Theorem nocap_never_blocks : forall s i m rest, cap (ctok s) = O ->
  nth_error (todo s) i = Some (m :: rest) -> exists s', cstep s i = Some s'.
Proof.
  intros s i m rest Hc Hn. unfold cstep. rewrite Hn.
  assert (micro_ready (ctok s) m = true) as ->; [|eauto].
  destruct m; cbn [micro_ready]; unfold send_ready, recv_ready; rewrite ?Hc; reflexivity.
Qed.

(* with a channel: a goroutine about to RELEASE (counter already decremented, receive pending) is never blocked as long as
   no goroutine is between the two halves of a get in a way that... -- stated in its simple, sufficient form: the receive
   is enabled whenever the channel is non-empty, and the channel is non-empty whenever more sends than receives have
   happened; the session machine proves the rest (C16_release_never_blocks). *)

(* ---- load + store: what the atomic add buys -------------------------------------------------------- *)
Definition two_rets : lstate := mkL 2 [(0, lret); (0, lret)].
Theorem load_store_loses_a_release :
  exists s, lrun two_rets [0; 1; 0; 1]%nat = Some s /\ lquiescent s = true /\ lclients s = 1.
Proof. eexists. split; [vm_compute; reflexivity|]. split; reflexivity. Qed.
Theorem load_store_sequential_is_fine :
  exists s, lrun two_rets [0; 0; 1; 1]%nat = Some s /\ lquiescent s = true /\ lclients s = 0.
Proof. eexists. split; [vm_compute; reflexivity|]. split; reflexivity. Qed.
Definition ret_and_get : lstate := mkL 1 [(0, lret); (0, lget)].
Theorem load_store_loses_a_get :
  exists s, lrun ret_and_get [0; 1; 1; 0]%nat = Some s /\ lquiescent s = true /\ lclients s = 0.
Proof. eexists. split; [vm_compute; reflexivity|]. split; reflexivity. Qed.

(* non-vacuity: two holders and two starters (k = 1), capacity 4, three slots in use; a schedule that really overlaps *)
Definition ex_tok : tokens := mkTok 4 3 3.
Lemma ex_tok_balanced : balanced ex_tok.
Proof. split; cbn; intros; [split; [reflexivity|lia]|discriminate]. Qed.
Definition ex_sched : list nat :=
  [0; 2; 1; 3; 0; 2; 1; 3; 1; 3; 0; 2; 1; 0; 3; 2; 1; 3; 0; 2; 0; 1; 2; 3]%nat.
Example ex_round_runs :
  exists s, crun (cinit ex_tok (round_progs 2 1)) ex_sched = Some s /\ quiescent s = true /\ clients (ctok s) = 3.
Proof. eexists. split; [vm_compute; reflexivity|]. split; reflexivity. Qed.
