(* PeersProofs.v — invariants of the Peers interleaving machine (coq/Model/Peers.v). *)
From Coq Require Import List Arith Bool Lia.
From Snow Require Import Model.Peers.
Import ListNotations.

Inductive reachable (v : version) (max : nat) : state -> Prop :=
| reach_init : reachable v max (init max)
| reach_step : forall s l s', reachable v max s -> step v s l = Some s' -> reachable v max s'.

Lemma run_reachable : forall v max tr s s', reachable v max s -> run v s tr = Some s' -> reachable v max s'.
Proof.
  induction tr as [|l tr IH]; simpl; intros s s' R H.
  - inversion H; subst; assumption.
  - destruct (step v s l) eqn:E; [|discriminate]. eapply IH; [|exact H]. eapply reach_step; eauto.
Qed.

(* ---------------------------------------------------------------- lists *)

Lemma nth_error_set_nth : forall A (l : list A) i j x,
  nth_error (set_nth i x l) j =
  if Nat.eqb j i then match nth_error l i with Some _ => Some x | None => None end else nth_error l j.
Proof.
  induction l as [|h t IH]; intros i j x.
  - simpl. destruct (Nat.eqb j i); destruct i, j; reflexivity.
  - destruct i, j; simpl; try reflexivity. apply IH.
Qed.

Lemma length_set_nth : forall A (l : list A) i x, length (set_nth i x l) = length l.
Proof. induction l; destruct i; simpl; intros; auto. Qed.

Lemma nth_error_snoc : forall A (l : list A) x j e,
  nth_error (l ++ [x]) j = Some e -> nth_error l j = Some e \/ (j = length l /\ e = x).
Proof.
  intros A l x j e H. destruct (lt_dec j (length l)).
  - rewrite nth_error_app1 in H by assumption. auto.
  - rewrite nth_error_app2 in H by lia. destruct (j - length l) eqn:E.
    + simpl in H. inversion H. right. split; [lia|reflexivity].
    + simpl in H. destruct n0; discriminate.
Qed.

Lemma close_all_mono : forall l f p, f p = true -> close_all f l p = true.
Proof.
  induction l as [|q l IH]; simpl; intros f p H; auto.
  apply IH. unfold close_peer. destruct (Nat.eqb p q); auto.
Qed.

Lemma close_all_in : forall l f p, In p l -> close_all f l p = true.
Proof.
  induction l as [|q l IH]; simpl; intros f p H; [contradiction|].
  destruct H as [->|H].
  - apply close_all_mono. unfold close_peer. rewrite Nat.eqb_refl. reflexivity.
  - apply IH; assumption.
Qed.

Lemma close_all_notin : forall l f p, ~ In p l -> close_all f l p = f p.
Proof.
  induction l as [|q l IH]; simpl; intros f p H; auto.
  rewrite IH by tauto. unfold close_peer. destruct (Nat.eqb_spec p q); [subst; tauto|reflexivity].
Qed.

(* ---------------------------------------------------------------- step inversion *)

Ltac step_inv H :=
  unfold step in H;
  match type of H with (if ?b then _ else _) = _ => destruct b eqn:Hpan; [discriminate|] end;
  repeat match type of H with
    | match ?x with _ => _ end = Some _ => destruct x eqn:?; try discriminate
    | (if ?x then _ else _) = Some _ => destruct x eqn:?; try discriminate
  end;
  inversion H; subst; clear H.

Ltac nth_set H :=
  rewrite nth_error_set_nth in H;
  match type of H with (if Nat.eqb ?j ?i then _ else _) = _ => destruct (Nat.eqb_spec j i); [subst|] end.

Definition col_crit (c : col_pc) : bool :=
  match c with C_Locked | C_Catching | C_Caught _ | C_Sending _ | C_Unlock _ => true | _ => false end.
Definition end_crit (e : end_pc) : bool :=
  match e with E_Locked | E_ChanClosed | E_Unlock => true | _ => false end.
Definition col_hasconn (c : col_pc) : bool :=
  match c with C_Catching | C_Caught _ | C_Sending _ => true | _ => false end.

(* ---------------------------------------------------------------- I1: who holds the lock *)

Definition inv_lock (s : state) : Prop :=
  (col_crit (col s) = true -> lock s = Some T_Col) /\
  (forall i e, nth_error (ends s) i = Some e -> end_crit e = true -> lock s = Some (T_End i)).

Ltac ends_cases Hn :=
  first
  [ rewrite nth_error_set_nth in Hn;
    match type of Hn with (if Nat.eqb ?j ?i then _ else _) = _ =>
      destruct (Nat.eqb_spec j i);
      [ subst;
        match type of Hn with match ?x with _ => _ end = _ =>
          first [ match goal with Heq : x = _ |- _ => rewrite Heq in Hn end
                | destruct x eqn:?; [|discriminate] ] end;
        inversion Hn; subst; clear Hn
      | ] end
  | apply nth_error_snoc in Hn; destruct Hn as [Hn|[? ?]]; [|subst]
  | idtac ].

Ltac lock_facts Hc He :=
  try match type of Hc with (true = true -> _) => specialize (Hc eq_refl) end;
  repeat match goal with
   | Hn : nth_error (ends _) _ = Some _ |- _ =>
       first [ pose proof (He _ _ Hn eq_refl) | pose proof (He _ _ Hn ltac:(assumption)) | idtac ];
       revert Hn
  end; intros.

Lemma inv_lock_step : forall v s l s', inv_lock s -> step v s l = Some s' -> inv_lock s'.
Proof.
  intros v s l s' [Hc He] H. unfold inv_lock.
  destruct l; step_inv H; cbn in *; split;
    try (intros Hcc; try discriminate; try (specialize (Hc Hcc)); lock_facts Hc He; try reflexivity; try congruence; auto; fail);
    try (intros j e Hn Hcr; ends_cases Hn; try discriminate; try (destruct v; discriminate);
         lock_facts Hc He; try reflexivity; try congruence; auto; fail).
Qed.

(* ---------------------------------------------------------------- I2-I4: peers are tracked and bounded *)

Definition col_peer (c : col_pc) : option peer :=
  match c with C_Caught p | C_Sending p => Some p | _ => None end.
Definition col_reserves (c : col_pc) : bool :=
  match c with C_Catching | C_Caught _ => true | _ => false end.

Definition inv_fresh (s : state) : Prop :=
  (forall p, closedf s p = true -> p < next_peer s) /\
  (forall p, In p (active s) -> p < next_peer s) /\
  (forall p, col_peer (col s) = Some p -> p < next_peer s).

Definition inv_track (s : state) : Prop :=
  forall p, p < next_peer s -> closedf s p = false -> In p (active s) \/ col s = C_Caught p.

Definition inv_bound (s : state) : Prop :=
  length (active s) + (if col_reserves (col s) then 1 else 0) <= cap s.

Lemma filter_len_le : forall A (f : A -> bool) l, length (filter f l) <= length l.
Proof. induction l; simpl; [lia|]. destruct (f a); simpl; lia. Qed.

Lemma inv_fresh_step : forall v s l s', inv_fresh s -> step v s l = Some s' -> inv_fresh s'.
Proof.
  intros v s l s' (Hf & Ha & Hp) H. unfold inv_fresh.
  destruct l; step_inv H; cbn in *;
    try (repeat split; first [assumption | discriminate | (intros; discriminate) | idtac]; fail).
  all: repeat split; try assumption; try (intros; discriminate).
  all: try (intros q Hq; try (apply filter_In in Hq; destruct Hq); auto; fail).
  all: try (intros q Hq; specialize (Hf _ Hq); lia).
  all: try (intros q Hq; specialize (Ha _ Hq); lia).
  all: try (intros q Hq; inversion Hq; subst; try lia; apply Hp; reflexivity).
  - intros q Hq. apply in_app_or in Hq. destruct Hq as [Hq|[<-|[]]]; auto.
  - rewrite Heqc. exact Hp.
  - intros q Hq. unfold close_peer in Hq. destruct (Nat.eqb_spec q p); subst; auto.
    apply Nat.ltb_lt. assumption.
  - intros q Hq. destruct (in_dec Nat.eq_dec q (active s)) as [Hi|Hi]; auto.
    rewrite close_all_notin in Hq by assumption. auto.
Qed.

Lemma inv_track_step : forall v s l s', inv_track s -> step v s l = Some s' -> inv_track s'.
Proof.
  intros v s l s' Ht H. unfold inv_track in *.
  destruct l; step_inv H; cbn in *; try assumption;
    try (intros q Hq Hl; destruct (Ht q Hq Hl) as [Hi|Hc]; [auto|congruence]; fail).
  - intros q Hq Hl. destruct (Ht q Hq Hl) as [Hi|Hc]; [|discriminate].
    left. apply filter_In. split; auto. unfold live. rewrite Hl. reflexivity.
  - intros q Hq Hl. destruct (Ht q Hq Hl) as [Hi|Hc]; [|discriminate].
    left. apply filter_In. split; auto. unfold live. rewrite Hl. reflexivity.
  - intros q Hq Hl. destruct (Nat.eq_dec q (next_peer s)) as [->|Hne]; [right; reflexivity|].
    destruct (Ht q ltac:(lia) Hl) as [Hi|Hc]; [auto|discriminate].
  - intros q Hq Hl. destruct (Ht q Hq Hl) as [Hi|Hc].
    + left. apply in_or_app. auto.
    + inversion Hc; subst. left. apply in_or_app. right. left. reflexivity.
  - intros q Hq Hl. unfold close_peer in Hl. destruct (Nat.eqb q p); [discriminate|]. auto.
  - intros q Hq Hl. destruct (in_dec Nat.eq_dec q (active s)) as [Hi|Hi].
    + rewrite close_all_in in Hl by assumption. discriminate.
    + rewrite close_all_notin in Hl by assumption. destruct (Ht q Hq Hl); [contradiction|auto].
Qed.

Lemma inv_bound_step : forall v s l s', inv_bound s -> step v s l = Some s' -> inv_bound s'.
Proof.
  intros v s l s' Hb H. unfold inv_bound in *.
  destruct l; step_inv H; cbn in *; try assumption; try lia.
  - pose proof (filter_len_le _ (live s) (active s)). lia.
  - apply Nat.leb_gt in Heqb0. lia.
  - rewrite app_length. simpl. lia.
  - rewrite Heqc in *. assumption.
Qed.

(* the three together, for every reachable state *)
Lemma reachable_inv : forall (P : state -> Prop) v max,
  P (init max) -> (forall s l s', reachable v max s -> P s -> step v s l = Some s' -> P s') ->
  forall s, reachable v max s -> P s.
Proof. intros P v max H0 Hs s R. induction R; eauto. Qed.

Lemma reach_lock : forall v max s, reachable v max s -> inv_lock s.
Proof.
  intros v max. apply reachable_inv.
  - split; cbn; intros; try discriminate. destruct i; discriminate.
  - intros. eapply inv_lock_step; eauto.
Qed.

Lemma reach_fresh : forall v max s, reachable v max s -> inv_fresh s.
Proof.
  intros v max. apply reachable_inv.
  - repeat split; cbn; intros; try discriminate; contradiction.
  - intros. eapply inv_fresh_step; eauto.
Qed.

Lemma reach_track : forall v max s, reachable v max s -> inv_track s.
Proof.
  intros v max. apply reachable_inv.
  - unfold inv_track; cbn; intros; lia.
  - intros. eapply inv_track_step; eauto.
Qed.

Lemma reach_cap : forall v max s, reachable v max s -> cap s = max.
Proof.
  intros v max. apply reachable_inv; [reflexivity|].
  intros s l s' _ IH H. destruct l; step_inv H; cbn in *; first [assumption | congruence | idtac "left"].
Qed.

Lemma reach_bound : forall v max s, reachable v max s -> inv_bound s.
Proof.
  intros v max. apply reachable_inv.
  - unfold inv_bound; cbn; lia.
  - intros. eapply inv_bound_step; eauto.
Qed.

(* C15_bound: the number of peers that exist and are not closed never exceeds Max *)
Lemma live_peers_bound : forall v max s, reachable v max s -> length (live_peers s) <= max.
Proof.
  intros v max s R.
  pose proof (reach_track _ _ _ R) as Ht. pose proof (reach_bound _ _ _ R) as Hb.
  rewrite <- (reach_cap _ _ _ R). unfold inv_bound in Hb.
  assert (Hnd : NoDup (live_peers s)) by (apply NoDup_filter, seq_NoDup).
  assert (Hin : forall p, In p (live_peers s) -> In p (active s) \/ col s = C_Caught p).
  { intros p Hp. apply filter_In in Hp. destruct Hp as [Hs Hl]. apply in_seq in Hs.
    apply Ht; [lia|]. unfold live in Hl. destruct (closedf s p); [discriminate|reflexivity]. }
  destruct (col s) eqn:Ec; cbn in Hb;
    try (assert (Hle : length (live_peers s) <= length (active s))
           by (apply NoDup_incl_length; [assumption|]; intros q Hq; destruct (Hin q Hq); [assumption|discriminate]); lia).
  assert (Hle : length (live_peers s) <= length (p :: active s)).
  { apply NoDup_incl_length; [assumption|]. intros q Hq. destruct (Hin q Hq) as [|E]; [right; assumption|].
    inversion E. left. reflexivity. }
  simpl in Hle. lia.
Qed.

(* Count() itself (length of the purged list) and the raw list are bounded too *)
Lemma active_bound : forall v max s, reachable v max s -> length (active s) <= max.
Proof.
  intros v max s R. pose proof (reach_bound _ _ _ R) as Hb. rewrite <- (reach_cap _ _ _ R).
  unfold inv_bound in Hb. lia.
Qed.
