(* PeersProofs.v — invariants of the Peers interleaving machine (coq/Model/Peers.v). *)
From Coq Require Import List Arith Bool Lia.
From Snow Require Import Model.Peers.
Import ListNotations.

Inductive reachable (v : version) (max : nat) : state -> Prop :=
| reach_init : reachable v max (init max)
| reach_step : forall s l s', reachable v max s -> step v s l = Some s' -> reachable v max s'.

Lemma run_reachable : forall v max tr s s', reachable v max s -> run v s tr = Some s' -> reachable v max s'.
Proof.
  induction tr as [|l tr IH]; simpl; intros s s' R H.
  - inversion H; subst; assumption.
  - destruct (step v s l) eqn:E; [|discriminate]. eapply IH; [|exact H]. eapply reach_step; eauto.
Qed.

(* ---------------------------------------------------------------- lists *)

Lemma nth_error_set_nth : forall A (l : list A) i j x,
  nth_error (set_nth i x l) j =
  if Nat.eqb j i then match nth_error l i with Some _ => Some x | None => None end else nth_error l j.
Proof.
  induction l as [|h t IH]; intros i j x.
  - simpl. destruct (Nat.eqb j i); destruct i, j; reflexivity.
  - destruct i, j; simpl; try reflexivity. apply IH.
Qed.

Lemma length_set_nth : forall A (l : list A) i x, length (set_nth i x l) = length l.
Proof. induction l; destruct i; simpl; intros; auto. Qed.

Lemma nth_error_snoc : forall A (l : list A) x j e,
  nth_error (l ++ [x]) j = Some e -> nth_error l j = Some e \/ (j = length l /\ e = x).
Proof.
  intros A l x j e H. destruct (lt_dec j (length l)).
  - rewrite nth_error_app1 in H by assumption. auto.
  - rewrite nth_error_app2 in H by lia. destruct (j - length l) eqn:E.
    + simpl in H. inversion H. right. split; [lia|reflexivity].
    + simpl in H. destruct n0; discriminate.
Qed.

Lemma close_all_mono : forall l f p, f p = true -> close_all f l p = true.
Proof.
  induction l as [|q l IH]; simpl; intros f p H; auto.
  apply IH. unfold close_peer. destruct (Nat.eqb p q); auto.
Qed.

Lemma close_all_in : forall l f p, In p l -> close_all f l p = true.
Proof.
  induction l as [|q l IH]; simpl; intros f p H; [contradiction|].
  destruct H as [->|H].
  - apply close_all_mono. unfold close_peer. rewrite Nat.eqb_refl. reflexivity.
  - apply IH; assumption.
Qed.

Lemma close_all_notin : forall l f p, ~ In p l -> close_all f l p = f p.
Proof.
  induction l as [|q l IH]; simpl; intros f p H; auto.
  rewrite IH by tauto. unfold close_peer. destruct (Nat.eqb_spec p q); [subst; tauto|reflexivity].
Qed.

(* ---------------------------------------------------------------- step inversion *)

Ltac step_inv H :=
  unfold step in H;
  match type of H with (if ?b then _ else _) = _ => destruct b eqn:Hpan; [discriminate|] end;
  repeat match type of H with
    | match ?x with _ => _ end = Some _ => destruct x eqn:?; try discriminate
    | (if ?x then _ else _) = Some _ => destruct x eqn:?; try discriminate
  end;
  inversion H; subst; clear H.

Ltac nth_set H :=
  rewrite nth_error_set_nth in H;
  match type of H with (if Nat.eqb ?j ?i then _ else _) = _ => destruct (Nat.eqb_spec j i); [subst|] end.

Definition col_crit (c : col_pc) : bool :=
  match c with C_Locked | C_Catching | C_Caught _ | C_Sending _ | C_Unlock _ => true | _ => false end.
Definition end_crit (e : end_pc) : bool :=
  match e with E_Locked | E_ChanClosed | E_Unlock => true | _ => false end.
Definition col_hasconn (c : col_pc) : bool :=
  match c with C_Catching | C_Caught _ | C_Sending _ => true | _ => false end.

(* ---------------------------------------------------------------- I1: who holds the lock *)

Definition inv_lock (s : state) : Prop :=
  (col_crit (col s) = true -> lock s = Some T_Col) /\
  (forall i e, nth_error (ends s) i = Some e -> end_crit e = true -> lock s = Some (T_End i)).

Ltac ends_cases Hn :=
  first
  [ rewrite nth_error_set_nth in Hn;
    match type of Hn with (if Nat.eqb ?j ?i then _ else _) = _ =>
      destruct (Nat.eqb_spec j i);
      [ subst;
        match type of Hn with match ?x with _ => _ end = _ =>
          first [ match goal with Heq : x = _ |- _ => rewrite Heq in Hn end
                | destruct x eqn:?; [|discriminate] ] end;
        inversion Hn; subst; clear Hn
      | ] end
  | apply nth_error_snoc in Hn; destruct Hn as [Hn|[? ?]]; [|subst]
  | idtac ].

Ltac lock_facts Hc He :=
  try match type of Hc with (true = true -> _) => specialize (Hc eq_refl) end;
  repeat match goal with
   | Hn : nth_error (ends _) _ = Some _ |- _ =>
       first [ pose proof (He _ _ Hn eq_refl) | pose proof (He _ _ Hn ltac:(assumption)) | idtac ];
       revert Hn
  end; intros.

Lemma inv_lock_step : forall v s l s', inv_lock s -> step v s l = Some s' -> inv_lock s'.
Proof.
  intros v s l s' [Hc He] H. unfold inv_lock.
  destruct l; step_inv H; cbn in *; split;
    try (intros Hcc; try discriminate; try (specialize (Hc Hcc)); lock_facts Hc He; try reflexivity; try congruence; auto; fail);
    try (intros j e Hn Hcr; ends_cases Hn; try discriminate; try (destruct v; discriminate);
         lock_facts Hc He; try reflexivity; try congruence; auto; fail).
Qed.

(* ---------------------------------------------------------------- I2-I4: peers are tracked and bounded *)

Definition col_peer (c : col_pc) : option peer :=
  match c with C_Caught p | C_Sending p => Some p | _ => None end.
Definition col_reserves (c : col_pc) : bool :=
  match c with C_Catching | C_Caught _ => true | _ => false end.

Definition inv_fresh (s : state) : Prop :=
  (forall p, closedf s p = true -> p < next_peer s) /\
  (forall p, In p (active s) -> p < next_peer s) /\
  (forall p, col_peer (col s) = Some p -> p < next_peer s).

Definition inv_track (s : state) : Prop :=
  forall p, p < next_peer s -> closedf s p = false -> In p (active s) \/ col s = C_Caught p.

Definition inv_bound (s : state) : Prop :=
  length (active s) + (if col_reserves (col s) then 1 else 0) <= cap s.

Lemma filter_len_le : forall A (f : A -> bool) l, length (filter f l) <= length l.
Proof. induction l; simpl; [lia|]. destruct (f a); simpl; lia. Qed.

Lemma inv_fresh_step : forall v s l s', inv_fresh s -> step v s l = Some s' -> inv_fresh s'.
Proof.
  intros v s l s' (Hf & Ha & Hp) H. unfold inv_fresh.
  destruct l; step_inv H; cbn in *;
    try (repeat split; first [assumption | discriminate | (intros; discriminate) | idtac]; fail).
  all: repeat split; try assumption; try (intros; discriminate).
  all: try (intros q Hq; try (apply filter_In in Hq; destruct Hq); auto; fail).
  all: try (intros q Hq; specialize (Hf _ Hq); lia).
  all: try (intros q Hq; specialize (Ha _ Hq); lia).
  all: try (intros q Hq; inversion Hq; subst; try lia; apply Hp; reflexivity).
  - intros q Hq. apply in_app_or in Hq. destruct Hq as [Hq|[<-|[]]]; auto.
  - rewrite Heqc. exact Hp.
  - intros q Hq. unfold close_peer in Hq. destruct (Nat.eqb_spec q p); subst; auto.
    apply Nat.ltb_lt. assumption.
  - intros q Hq. destruct (in_dec Nat.eq_dec q (active s)) as [Hi|Hi]; auto.
    rewrite close_all_notin in Hq by assumption. auto.
Qed.

Lemma inv_track_step : forall v s l s', inv_track s -> step v s l = Some s' -> inv_track s'.
Proof.
  intros v s l s' Ht H. unfold inv_track in *.
  destruct l; step_inv H; cbn in *; try assumption;
    try (intros q Hq Hl; destruct (Ht q Hq Hl) as [Hi|Hc]; [auto|congruence]; fail).
  - intros q Hq Hl. destruct (Ht q Hq Hl) as [Hi|Hc]; [|discriminate].
    left. apply filter_In. split; auto. unfold live. rewrite Hl. reflexivity.
  - intros q Hq Hl. destruct (Ht q Hq Hl) as [Hi|Hc]; [|discriminate].
    left. apply filter_In. split; auto. unfold live. rewrite Hl. reflexivity.
  - intros q Hq Hl. destruct (Nat.eq_dec q (next_peer s)) as [->|Hne]; [right; reflexivity|].
    destruct (Ht q ltac:(lia) Hl) as [Hi|Hc]; [auto|discriminate].
  - intros q Hq Hl. destruct (Ht q Hq Hl) as [Hi|Hc].
    + left. apply in_or_app. auto.
    + inversion Hc; subst. left. apply in_or_app. right. left. reflexivity.
  - intros q Hq Hl. unfold close_peer in Hl. destruct (Nat.eqb q p); [discriminate|]. auto.
  - intros q Hq Hl. destruct (in_dec Nat.eq_dec q (active s)) as [Hi|Hi].
    + rewrite close_all_in in Hl by assumption. discriminate.
    + rewrite close_all_notin in Hl by assumption. destruct (Ht q Hq Hl); [contradiction|auto].
Qed.

Lemma inv_bound_step : forall v s l s', inv_bound s -> step v s l = Some s' -> inv_bound s'.
Proof.
  intros v s l s' Hb H. unfold inv_bound in *.
  destruct l; step_inv H; cbn in *; try assumption; try lia.
  - pose proof (filter_len_le _ (live s) (active s)). lia.
  - apply Nat.leb_gt in Heqb0. lia.
  - rewrite app_length. simpl. lia.
  - rewrite Heqc in *. assumption.
Qed.

(* the three together, for every reachable state *)
Lemma reachable_inv : forall (P : state -> Prop) v max,
  P (init max) -> (forall s l s', reachable v max s -> P s -> step v s l = Some s' -> P s') ->
  forall s, reachable v max s -> P s.
Proof. intros P v max H0 Hs s R. induction R; eauto. Qed.

Lemma reach_lock : forall v max s, reachable v max s -> inv_lock s.
Proof.
  intros v max. apply reachable_inv.
  - split; cbn; intros; try discriminate. destruct i; discriminate.
  - intros. eapply inv_lock_step; eauto.
Qed.

Lemma reach_fresh : forall v max s, reachable v max s -> inv_fresh s.
Proof.
  intros v max. apply reachable_inv.
  - repeat split; cbn; intros; try discriminate; contradiction.
  - intros. eapply inv_fresh_step; eauto.
Qed.

Lemma reach_track : forall v max s, reachable v max s -> inv_track s.
Proof.
  intros v max. apply reachable_inv.
  - unfold inv_track; cbn; intros; lia.
  - intros. eapply inv_track_step; eauto.
Qed.

Lemma reach_cap : forall v max s, reachable v max s -> cap s = max.
Proof.
  intros v max. apply reachable_inv; [reflexivity|].
  intros s l s' _ IH H. destruct l; step_inv H; cbn in *; first [assumption | congruence | idtac "left"].
Qed.

Lemma reach_bound : forall v max s, reachable v max s -> inv_bound s.
Proof.
  intros v max. apply reachable_inv.
  - unfold inv_bound; cbn; lia.
  - intros. eapply inv_bound_step; eauto.
Qed.

(* C15_bound: the number of peers that exist and are not closed never exceeds Max *)
Lemma live_peers_bound : forall v max s, reachable v max s -> length (live_peers s) <= max.
Proof.
  intros v max s R.
  pose proof (reach_track _ _ _ R) as Ht. pose proof (reach_bound _ _ _ R) as Hb.
  rewrite <- (reach_cap _ _ _ R). unfold inv_bound in Hb.
  assert (Hnd : NoDup (live_peers s)) by (apply NoDup_filter, seq_NoDup).
  assert (Hin : forall p, In p (live_peers s) -> In p (active s) \/ col s = C_Caught p).
  { intros p Hp. apply filter_In in Hp. destruct Hp as [Hs Hl]. apply in_seq in Hs.
    apply Ht; [lia|]. unfold live in Hl. destruct (closedf s p); [discriminate|reflexivity]. }
  destruct (col s) eqn:Ec; cbn in Hb;
    try (assert (Hle : length (live_peers s) <= length (active s))
           by (apply NoDup_incl_length; [assumption|]; intros q Hq; destruct (Hin q Hq); [assumption|discriminate]); lia).
  assert (Hle : length (live_peers s) <= length (p :: active s)).
  { apply NoDup_incl_length; [assumption|]. intros q Hq. destruct (Hin q Hq) as [|E]; [right; assumption|].
    inversion E. left. reflexivity. }
  simpl in Hle. lia.
Qed.

(* Count() itself (length of the purged list) and the raw list are bounded too *)
Lemma active_bound : forall v max s, reachable v max s -> length (active s) <= max.
Proof.
  intros v max s R. pose proof (reach_bound _ _ _ R) as Hb. rewrite <- (reach_cap _ _ _ R).
  unfold inv_bound in Hb. lia.
Qed.

(* ---------------------------------------------------------------- I5: what End has already done *)

Definition past_melt (e : end_pc) : bool :=
  match e with E_Melted | E_Locked | E_ChanClosed | E_Unlock | E_Finish => true | _ => false end.
Definition past_chan (e : end_pc) : bool :=
  match e with E_ChanClosed | E_Unlock | E_Finish | E_Done => true | _ => false end.
Definition past_close (e : end_pc) : bool :=
  match e with E_Unlock | E_Finish | E_Done => true | _ => false end.

Definition all_closed (s : state) : Prop := forall p, p < next_peer s -> closedf s p = true.

Definition inv_end (s : state) : Prop :=
  (chan_closed s = true -> melted s = true) /\
  (chan_closed s = true -> col_hasconn (col s) = false) /\
  (forall i e, nth_error (ends s) i = Some e -> past_melt e = true -> melted s = true) /\
  (forall i e, nth_error (ends s) i = Some e -> past_chan e = true -> chan_closed s = true) /\
  (forall i e, nth_error (ends s) i = Some e -> past_close e = true -> all_closed s) /\
  (once s = O_Done -> chan_closed s = true /\ all_closed s).

Lemma past_close_chan : forall e, past_close e = true -> past_chan e = true.
Proof. destruct e; simpl; auto. Qed.
Lemma hasconn_crit : forall c, col_hasconn c = true -> col_crit c = true.
Proof. destruct c; simpl; auto. Qed.
Lemma close_peer_mono : forall f p q, f q = true -> close_peer f p q = true.
Proof. intros. unfold close_peer. destruct (Nat.eqb q p); auto. Qed.

Lemma inv_end_step : forall v s l s', inv_lock s -> inv_track s -> inv_end s -> step v s l = Some s' -> inv_end s'.
Proof.
  intros v s l s' [Lc Le] Ht (E1 & E2 & E3 & E4 & E5 & E6) H. unfold inv_end, all_closed in *.
  destruct l; step_inv H; cbn in *.
  all: repeat match goal with |- _ /\ _ => split end.
  all: try assumption.
  all: try (intros; discriminate).
  all: try (intros j e Hn Hp; ends_cases Hn; try discriminate; try (destruct v; discriminate); eauto; fail).
  all: try (intros; congruence).
  all: try (intro Hcc; try (pose proof (E1 Hcc)); try (pose proof (E2 Hcc)); try (destruct (E6 Hcc));
            try rewrite Heqc in *; cbn in *; first [congruence | auto]; fail).
  - (* Catch_ok, enders *) intros j e Hn Hp. pose proof (E4 _ _ Hn (past_close_chan _ Hp)) as Hc.
    specialize (E2 Hc). discriminate.
  - intros Ho. destruct (E6 Ho) as [Hc _]. specialize (E2 Hc). discriminate.
  - (* Peer_closes *) intros j e Hn Hp q Hq. apply close_peer_mono. eauto.
  - intros Ho. destruct (E6 Ho) as [Hc Ha]. split; auto. intros q Hq. apply close_peer_mono. auto.
  - (* End_once when done *) intros j e Hn Hp. ends_cases Hn; eauto. apply E6; reflexivity.
  - intros j e Hn Hp. ends_cases Hn; eauto. apply E6; reflexivity.
  - (* End_wait *) intros j e Hn Hp. ends_cases Hn; eauto. apply E6; reflexivity.
  - intros j e Hn Hp. ends_cases Hn; eauto. apply E6; reflexivity.
  - (* End_closechan *) intros _. eapply E3; eauto.
  - intros _. destruct (col_hasconn (col s)) eqn:Eh; [|reflexivity].
    pose proof (Lc (hasconn_crit _ Eh)) as L1. pose proof (Le _ _ Heqo eq_refl) as L2. congruence.
  - (* End_closepeers *) intros j e Hn Hp q Hq.
    destruct (closedf s q) eqn:Ecl; [apply close_all_mono; assumption|].
    destruct (Ht q Hq Ecl) as [Hi|Hcol]; [apply close_all_in; assumption|].
    assert (L1 : lock s = Some T_Col) by (apply Lc; rewrite Hcol; reflexivity).
    pose proof (Le _ _ Heqo eq_refl) as L2. congruence.
  - intros Ho. destruct (E6 Ho) as [Hc Ha]. split; auto. intros q Hq. apply close_all_mono. auto.
  - (* End_finish *) intros _. split; [eapply E4; eauto | eapply E5; eauto].
Qed.

Lemma reach_end : forall v max s, reachable v max s -> inv_end s.
Proof.
  intros v max s R. induction R.
  - unfold inv_end, all_closed. cbn. repeat split; try discriminate; intros; try discriminate; try lia;
      destruct i; discriminate.
  - eapply inv_end_step; eauto using reach_lock, reach_track.
Qed.

(* ---------------------------------------------------------------- V1: sync.Once discipline, no panic *)

Definition runner_pc (e : end_pc) : bool :=
  match e with E_Run | E_Melted | E_Locked | E_ChanClosed | E_Unlock | E_Finish => true | _ => false end.
Definition chan_witness (e : end_pc) : bool :=
  match e with E_ChanClosed | E_Unlock | E_Finish => true | _ => false end.

Definition inv_once (s : state) : Prop :=
  (forall i j ei ej, nth_error (ends s) i = Some ei -> nth_error (ends s) j = Some ej ->
                     runner_pc ei = true -> runner_pc ej = true -> i = j) /\
  (forall i e, nth_error (ends s) i = Some e -> runner_pc e = true -> once s = O_Running) /\
  (once s = O_Running -> exists i e, nth_error (ends s) i = Some e /\ runner_pc e = true) /\
  (once s = O_Free -> melted s = false) /\
  (forall i, nth_error (ends s) i = Some E_Run -> melted s = false) /\
  (forall i, nth_error (ends s) i = Some E_Done -> once s = O_Done) /\
  (forall i, nth_error (ends s) i = Some E_Wait -> once s <> O_Free) /\
  (chan_closed s = true -> once s = O_Done \/ exists i e, nth_error (ends s) i = Some e /\ chan_witness e = true).

Lemma nth_error_set_nth_neq : forall A (l : list A) i j x, j <> i -> nth_error (set_nth i x l) j = nth_error l j.
Proof. intros. rewrite nth_error_set_nth. destruct (Nat.eqb_spec j i); [contradiction|reflexivity]. Qed.
Lemma nth_error_set_nth_eq : forall A (l : list A) i x y, nth_error l i = Some y -> nth_error (set_nth i x l) i = Some x.
Proof. intros. rewrite nth_error_set_nth. rewrite Nat.eqb_refl. rewrite H. reflexivity. Qed.

Lemma inv_once_frame : forall s s',
  ends s' = ends s -> once s' = once s -> melted s' = melted s -> chan_closed s' = chan_closed s ->
  inv_once s -> inv_once s'.
Proof. intros s s' H1 H2 H3 H4 H. unfold inv_once in *. rewrite H1, H2, H3, H4. exact H. Qed.

Ltac k_auto :=
  intros;
  repeat match goal with
    | Hn : nth_error (set_nth _ _ _) _ = Some _ |- _ => ends_cases Hn
    | Hn : nth_error (_ ++ [_]) _ = Some _ |- _ => ends_cases Hn
  end;
  try discriminate; try congruence; try lia; eauto.

Ltac wit_old Hex :=
  let j := fresh "j" in let e := fresh "e" in let Hj := fresh "Hj" in let HP := fresh "HP" in
  destruct Hex as (j & e & Hj & HP);
  match goal with |- exists _ _, nth_error (set_nth ?i ?en _) _ = Some _ /\ _ =>
    destruct (Nat.eq_dec j i);
    [ subst;
      first [ exfalso; match goal with Heq : nth_error (ends _) i = Some _ |- _ =>
                rewrite Heq in Hj; inversion Hj; subst; simpl in HP; discriminate end
            | exists i, en; split; [eapply nth_error_set_nth_eq; eauto | first [reflexivity | congruence]] ]
    | exists j, e; split; [rewrite nth_error_set_nth_neq; auto | auto] ]
  end.

Lemma inv_once_step : forall s l s', inv_once s -> step V1 s l = Some s' -> inv_once s'.
Proof.
  intros s l s' K H.
  destruct l;
    try (step_inv H; (eapply inv_once_frame; [| | | |exact K]; reflexivity)).
  all: destruct K as (K1 & K2 & K3 & K4 & K5 & K6 & K7 & K8); unfold inv_once.
  all: step_inv H; cbn in *.
  all: repeat match goal with |- _ /\ _ => split end.
  all: try assumption.
  all: try (k_auto; fail).
  all: try (intros Hx; first [specialize (K3 Hx) | specialize (K3 eq_refl)]; wit_old K3; fail).
  all: try (intros Hx; first [specialize (K8 Hx) | specialize (K8 eq_refl)];
            destruct K8 as [K8|K8]; [left; congruence | right; wit_old K8]; fail).
  - (* End_call *) intros Hx. destruct (K3 Hx) as (j & e & Hj & HP). exists j, e. split; auto.
    rewrite nth_error_app1; auto. apply nth_error_Some. congruence.
  - intros Hx. destruct (K8 Hx) as [|(j & e & Hj & HP)]; auto. right. exists j, e. split; auto.
    rewrite nth_error_app1; auto. apply nth_error_Some. congruence.
  - (* End_once, Once free: nobody else is running *)
    intros a b ea eb Ha Hb Ra Rb. ends_cases Ha; ends_cases Hb; auto; exfalso.
    + pose proof (K2 _ _ Hb Rb). congruence.
    + pose proof (K2 _ _ Ha Ra). congruence.
    + pose proof (K2 _ _ Ha Ra). congruence.
  - intros _. exists i, E_Run. split; [eapply nth_error_set_nth_eq; eauto | reflexivity].
  - intros a Ha. ends_cases Ha. pose proof (K6 _ Ha). congruence.
  - (* End_once, Once running: wait *) intros a Ha. ends_cases Ha. pose proof (K6 _ Ha). congruence.
  - (* End_once / End_wait when done *) intros a e Ha Ra. ends_cases Ha; [discriminate|]. pose proof (K2 _ _ Ha Ra). congruence.
  - intros a e Ha Ra. ends_cases Ha; [discriminate|]. pose proof (K2 _ _ Ha Ra). congruence.
  - (* End_melt *) intros Hx. pose proof (K2 _ _ Heqo eq_refl). congruence.
  - intros a Ha. ends_cases Ha. exfalso. assert (a = i) by (eapply K1; eauto). contradiction.
  - (* End_closechan *) intros _. right. exists i, E_ChanClosed. split; [eapply nth_error_set_nth_eq; eauto | reflexivity].
  - (* End_finish *) intros a e Ha Ra. ends_cases Ha; [discriminate|]. exfalso.
    assert (a = i) by (eapply K1; eauto). contradiction.
Qed.

Lemma reach_once : forall max s, reachable V1 max s -> inv_once s.
Proof.
  intros max s R. induction R.
  - unfold inv_once. cbn. repeat split; intros; try discriminate; try (destruct i; discriminate).
  - eapply inv_once_step; eauto.
Qed.

(* the repaired code never panics *)
Lemma v1_no_panic : forall max s, reachable V1 max s -> panicked s = false.
Proof.
  intros max s R. induction R; [reflexivity|].
  pose proof (reach_end _ _ _ R) as (E1 & E2 & _).
  pose proof (reach_once _ _ R) as (K1 & K2 & K3 & K4 & K5 & K6 & K7 & K8).
  destruct l; step_inv H; cbn in *; try assumption; exfalso.
  - (* send on closed channel *) specialize (E2 eq_refl). discriminate.
  - (* close(melt) twice *) specialize (K5 _ Heqo). congruence.
  - (* close(snowflakeChan) twice *)
    destruct (K8 eq_refl) as [Hd|(j & e & Hj & HP)].
    + pose proof (K2 _ _ Heqo eq_refl). congruence.
    + assert (j = i) by (eapply K1; eauto; destruct e; simpl in *; congruence). subst.
      rewrite Heqo in Hj. inversion Hj; subst. discriminate.
Qed.

(* ---------------------------------------------------------------- End closes everything; nothing starts after End *)

Lemma all_closed_no_live : forall s, all_closed s -> live_peers s = [].
Proof.
  intros s H. unfold live_peers.
  assert (forall l, (forall p, In p l -> p < next_peer s) -> filter (live s) l = []) as G.
  { induction l as [|a l IH]; intros Hl; simpl; [reflexivity|].
    unfold live at 1. rewrite (H a) by (apply Hl; left; reflexivity). simpl.
    apply IH. intros q Hq. apply Hl. right. assumption. }
  apply G. intros p Hp. apply in_seq in Hp. lia.
Qed.

Lemma end_done_facts : forall v max s i, reachable v max s -> nth_error (ends s) i = Some E_Done ->
  all_closed s /\ live_peers s = [] /\ melted s = true /\ chan_closed s = true /\ col_hasconn (col s) = false.
Proof.
  intros v max s i R Hd. pose proof (reach_end _ _ _ R) as (E1 & E2 & E3 & E4 & E5 & E6).
  assert (Hc : chan_closed s = true) by (eapply E4; eauto).
  assert (Ha : all_closed s) by (eapply E5; eauto).
  repeat split; auto using all_closed_no_live.
Qed.

(* Collect called once End has begun (melt closed) is refused without calling Catch *)
Lemma collect_refused_after_melt : forall v s s', melted s = true -> step v s Col_check = Some s' ->
  col s' = C_Unlock R_Melted.
Proof. intros v s s' Hm H. step_inv H; cbn; congruence. Qed.

(* a Catch only ever begins while melt is still open *)
Lemma catch_begins_unmelted : forall v s l s', step v s l = Some s' ->
  col s' = C_Catching -> col s <> C_Catching -> melted s = false.
Proof.
  intros v s l s' H Hc Hn. destruct l; step_inv H; cbn in *; try congruence.
Qed.

(* peers in the channel and in poppers' hands exist *)
Definition inv_chanfresh (s : state) : Prop :=
  (forall p, In p (chan s) -> p < next_peer s) /\
  (forall i p, nth_error (pops s) i = Some (P_Got p) -> p < next_peer s).

Ltac pops_cases Hn :=
  first
  [ unfold set_pop in Hn; cbn in Hn; rewrite nth_error_set_nth in Hn;
    match type of Hn with (if Nat.eqb ?j ?i then _ else _) = _ =>
      destruct (Nat.eqb_spec j i);
      [ subst;
        match type of Hn with match ?x with _ => _ end = _ =>
          first [ match goal with Heq : x = _ |- _ => rewrite Heq in Hn end
                | destruct x eqn:?; [|discriminate] ] end;
        inversion Hn; subst; clear Hn
      | ] end
  | apply nth_error_snoc in Hn; destruct Hn as [Hn|[? ?]]; [|subst]
  | idtac ].

Lemma inv_chanfresh_step : forall v s l s', inv_fresh s -> inv_chanfresh s -> step v s l = Some s' -> inv_chanfresh s'.
Proof.
  intros v s l s' (_ & _ & Fp) [Hc Hg] H. unfold inv_chanfresh.
  destruct l; step_inv H; cbn in *; split; try assumption.
  all: try (intros q Hq; specialize (Hc _ Hq); lia).
  all: try (intros j q Hq; specialize (Hg _ _ Hq); lia).
  all: try (intros j q Hq; pops_cases Hq; try discriminate; eauto; fail).
  - intros q Hq. apply in_app_or in Hq. destruct Hq as [Hq|[<-|[]]]; auto.
  - rewrite Heql. intros q [].
  - intros q Hq. apply Hc. right. assumption.
Qed.

Lemma reach_chanfresh : forall v max s, reachable v max s -> inv_chanfresh s.
Proof.
  intros v max s R. induction R.
  - split; cbn; intros; try contradiction. destruct i; discriminate.
  - eapply inv_chanfresh_step; eauto using reach_fresh.
Qed.

(* Pop: a returned peer was open when Pop tested it *)
Lemma pop_returns_checked : forall v s i s' p, step v s (Pop_check i) = Some s' ->
  nth_error (pops s') i = Some (P_Ret (Some p)) ->
  nth_error (pops s) i = Some (P_Got p) /\ closedf s p = false.
Proof.
  intros v s i s' p H Hr. step_inv H; cbn in Hr; rewrite nth_error_set_nth, Nat.eqb_refl, Heqo in Hr.
  - discriminate.
  - inversion Hr; subst. auto.
Qed.

(* ... and it is only by that step that a Pop returns a peer *)
Lemma pop_ret_only_by_check : forall v s l s' i p, step v s l = Some s' ->
  nth_error (pops s') i = Some (P_Ret (Some p)) -> nth_error (pops s) i <> Some (P_Ret (Some p)) ->
  l = Pop_check i.
Proof.
  intros v s l s' i p H Hr Hn. destruct l; step_inv H; cbn in *; try congruence.
  all: try (pops_cases Hr; try discriminate; try congruence; fail).
Qed.

(* after End has returned, Pop returns nil and does not block *)
Lemma pop_after_end : forall v max s i j, reachable v max s -> nth_error (ends s) i = Some E_Done ->
  (forall s' p, step v s (Pop_check j) = Some s' -> nth_error (pops s') j <> Some (P_Ret (Some p))) /\
  (panicked s = false -> nth_error (pops s) j = Some P_Wait -> exists s', step v s (Pop_recv j) = Some s').
Proof.
  intros v max s i j R Hd. destruct (end_done_facts _ _ _ _ R Hd) as (Ha & _ & _ & Hc & _).
  destruct (reach_chanfresh _ _ _ R) as [_ Hg]. split.
  - intros s' p H Hr. destruct (pop_returns_checked _ _ _ _ _ H Hr) as [Hgot Hcl].
    rewrite (Ha p) in Hcl; [discriminate|]. eapply Hg; eauto.
  - intros Hp Hw. unfold step. rewrite Hp, Hw. destruct (chan s); [rewrite Hc|]; eauto.
Qed.

(* ---------------------------------------------------------------- the lock holder is inside its critical section *)

Definition inv_lock2 (s : state) : Prop :=
  (lock s = Some T_Col -> col_crit (col s) = true) /\
  (forall j, lock s = Some (T_End j) -> exists e, nth_error (ends s) j = Some e /\ end_crit e = true).

Lemma inv_lock2_step : forall v s l s', inv_lock s -> inv_lock2 s -> step v s l = Some s' -> inv_lock2 s'.
Proof.
  intros v s l s' [Lc Le] [Mc Me] H. unfold inv_lock2.
  destruct l; step_inv H; cbn in *; split.
  all: try assumption.
  all: try (intros; discriminate).
  all: try (intros; reflexivity).
  all: try (intros Hx; specialize (Mc Hx); congruence).
  all: try (intros j Hl; first [ destruct (Me j Hl) as (e & Hj & Hc) | inversion Hl; subst; clear Hl ];
            match goal with |- exists _, nth_error (set_nth ?i ?en _) _ = Some _ /\ _ =>
              first
              [ exists en; split; [eapply nth_error_set_nth_eq; eauto | reflexivity]
              | destruct (Nat.eq_dec j i);
                [ subst; match goal with Heq : nth_error (ends _) i = Some _ |- _ =>
                    rewrite Heq in Hj; inversion Hj; subst; simpl in Hc; first [discriminate |
                    (exists en; split; [eapply nth_error_set_nth_eq; eauto | reflexivity])] end
                | exists e; split; [rewrite nth_error_set_nth_neq; auto | auto] ] ]
            end; fail).
  - rewrite Heqc. reflexivity.
  - intros j Hl. destruct (Me j Hl) as (e & Hj & Hc). exists e. split; auto.
    rewrite nth_error_app1; auto. apply nth_error_Some. congruence.
Qed.

Lemma reach_lock2 : forall v max s, reachable v max s -> inv_lock2 s.
Proof.
  intros v max s R. induction R.
  - split; cbn; intros; discriminate.
  - eapply inv_lock2_step; eauto using reach_lock.
Qed.

(* ---------------------------------------------------------------- V1: End terminates *)
Lemma end_pc_eq_dec : forall a b : end_pc, {a = b} + {a <> b}.
Proof. decide equality. Qed.


Definition erank (e : end_pc) : nat :=
  match e with E_Run => 6 | E_Melted => 5 | E_Locked => 4 | E_ChanClosed => 3 | E_Unlock => 2 | E_Finish => 1 | _ => 0 end.
Fixpoint esum (l : list end_pc) : nat := match l with [] => 0 | e :: t => erank e + esum t end.
Definition col_rank (c : col_pc) : nat :=
  match c with C_Locked => 5 | C_Catching => 4 | C_Caught _ => 3 | C_Sending _ => 2 | C_Unlock _ => 1 | _ => 0 end.
Definition own_rank (e : option end_pc) : nat :=
  match e with Some E_Start => 2 | Some E_Wait => 1 | _ => 0 end.
Definition once_rank (o : once_st) : nat := match o with O_Free => 8 | _ => 0 end.

(* steps of End callers and of the collector that is inside Collect; no new call of any kind *)
Definition helpful (l : label) : bool :=
  match l with
  | End_once _ | End_wait _ | End_melt _ | End_lock _ | End_closechan _ | End_closepeers _ | End_unlock _ | End_finish _
  | Col_check | Catch_ok | Catch_err | Col_push | Col_send | Col_abort | Col_unlock => true
  | _ => false
  end.

Definition end_rank (s : state) (i : nat) : nat :=
  own_rank (nth_error (ends s) i) + esum (ends s) + col_rank (col s) + once_rank (once s).

Lemma esum_set_nth : forall l i eo en, nth_error l i = Some eo ->
  esum (set_nth i en l) + erank eo = esum l + erank en.
Proof.
  induction l as [|h t IH]; intros i eo en H; destruct i; simpl in *; try discriminate.
  - inversion H; subst. lia.
  - specialize (IH _ _ en H). lia.
Qed.

Lemma esum_zero : forall l, (forall j e, nth_error l j = Some e -> erank e = 0) -> esum l = 0.
Proof.
  induction l as [|h t IH]; intros H; simpl; [reflexivity|].
  rewrite (H 0 h eq_refl). rewrite IH; [reflexivity|]. intros j e Hj. apply (H (S j) e Hj).
Qed.

Lemma erank_runner : forall e, erank e <> 0 -> runner_pc e = true.
Proof. destruct e; simpl; intros; congruence. Qed.

Definition oracle_ok (ok : bool) (l : label) : Prop :=
  match l with Catch_ok => ok = true | Catch_err => ok = false | _ => True end.

(* the runner of the Once (or the collector holding the lock it needs) can always take a step *)
Lemma runner_progress : forall max s r er (ok : bool), reachable V1 max s ->
  nth_error (ends s) r = Some er -> runner_pc er = true ->
  exists l s' er', step V1 s l = Some s' /\ helpful l = true /\ oracle_ok ok l /\
    esum (ends s') + col_rank (col s') < esum (ends s) + col_rank (col s) /\
    once_rank (once s') <= once_rank (once s) /\
    nth_error (ends s') r = Some er' /\ own_rank (Some er') = 0 /\
    (forall j, j <> r -> nth_error (ends s') j = nth_error (ends s) j).
Proof.
  intros max s r er ok R Hr Hrun.
  pose proof (v1_no_panic _ _ R) as Hp.
  pose proof (reach_lock _ _ _ R) as [Lc Le].
  pose proof (reach_lock2 _ _ _ R) as [Mc Me].
  pose proof (reach_end _ _ _ R) as (E1 & E2 & E3 & E4 & E5 & E6).
  pose proof (reach_once _ _ R) as (K1 & K2 & K3 & K4 & K5 & K6 & K7 & K8).
  assert (Hupd : forall en, erank en < erank er ->
             esum (set_nth r en (ends s)) + col_rank (col s) < esum (ends s) + col_rank (col s)).
  { intros en H3. pose proof (esum_set_nth _ _ _ en Hr). lia. }
  assert (Hnth : forall en, nth_error (set_nth r en (ends s)) r = Some en)
    by (intros; eapply nth_error_set_nth_eq; eauto).
  assert (Hoth : forall en j, j <> r -> nth_error (set_nth r en (ends s)) j = nth_error (ends s) j)
    by (intros; apply nth_error_set_nth_neq; assumption).
  destruct er; try discriminate.
  - (* E_Run *) exists (End_melt r). unfold step. rewrite Hp, Hr, (K5 _ Hr).
    eexists; exists E_Melted. repeat split; cbn; auto; try (apply Hupd; cbn; lia); try lia.
  - (* E_Melted: needs the lock *)
    destruct (lock s) eqn:El.
    + (* held: by the collector, which can move *)
      assert (Hm : melted s = true) by (eapply E3; eauto).
      assert (Hcol : t = T_Col).
      { destruct t as [|j]; [reflexivity|]. exfalso.
        destruct (Me j eq_refl) as (e & Hj & Hc).
        assert (j = r) by (eapply K1; eauto; destruct e; simpl in *; congruence). subst.
        rewrite Hr in Hj. inversion Hj; subst. discriminate. }
      subst. specialize (Mc eq_refl).
      destruct (col s) eqn:Ec; try discriminate.
      * exists Col_check. unfold step. rewrite Hp, Ec, Hm.
        eexists; exists E_Melted. repeat split; cbn; auto; try lia.
      * exists (if ok then Catch_ok else Catch_err). destruct ok; unfold step; rewrite Hp, Ec;
          eexists; exists E_Melted; repeat split; cbn; auto; try lia.
      * exists Col_push. unfold step. rewrite Hp, Ec.
        eexists; exists E_Melted. repeat split; cbn; auto; try lia.
      * exists Col_abort. unfold step. rewrite Hp, Ec, Hm.
        eexists; exists E_Melted. repeat split; cbn; auto; try lia.
      * exists Col_unlock. unfold step. rewrite Hp, Ec.
        eexists; exists E_Melted. repeat split; cbn; auto; try lia.
    + exists (End_lock r). unfold step. rewrite Hp, Hr, El.
      eexists; exists E_Locked. repeat split; cbn; auto; try (apply Hupd; cbn; lia); try lia.
  - (* E_Locked *)
    assert (Hc : chan_closed s = false).
    { destruct (chan_closed s) eqn:Ecc; [|reflexivity]. exfalso.
      destruct (K8 eq_refl) as [Hd|(j & e & Hj & HP)].
      - pose proof (K2 _ _ Hr eq_refl). congruence.
      - assert (j = r) by (eapply K1; eauto; destruct e; simpl in *; congruence). subst.
        rewrite Hr in Hj. inversion Hj; subst. discriminate. }
    exists (End_closechan r). unfold step. rewrite Hp, Hr, Hc.
    eexists; exists E_ChanClosed. repeat split; cbn; auto; try (apply Hupd; cbn; lia); try lia.
  - exists (End_closepeers r). unfold step. rewrite Hp, Hr.
    eexists; exists E_Unlock. repeat split; cbn; auto; try (apply Hupd; cbn; lia); try lia.
  - exists (End_unlock r). unfold step. rewrite Hp, Hr.
    eexists; exists E_Finish. repeat split; cbn; auto; try (apply Hupd; cbn; lia); try lia.
  - exists (End_finish r). unfold step. rewrite Hp, Hr.
    eexists; exists E_Done. repeat split; cbn; auto; try (apply Hupd; cbn; lia); try lia.
Qed.

Lemma end_progress : forall max s i e (ok : bool), reachable V1 max s ->
  nth_error (ends s) i = Some e -> e <> E_Done ->
  exists l s', step V1 s l = Some s' /\ helpful l = true /\ oracle_ok ok l /\
    end_rank s' i < end_rank s i /\ exists e', nth_error (ends s') i = Some e'.
Proof.
  intros max s i e ok R Hi Hnd.
  pose proof (v1_no_panic _ _ R) as Hp.
  pose proof (reach_once _ _ R) as (K1 & K2 & K3 & K4 & K5 & K6 & K7 & K8).
  assert (Hrun : forall r er, nth_error (ends s) r = Some er -> runner_pc er = true ->
            (r = i \/ (r <> i /\ once s = O_Running)) -> 
            exists l s', step V1 s l = Some s' /\ helpful l = true /\ oracle_ok ok l /\
              end_rank s' i < end_rank s i /\ exists e', nth_error (ends s') i = Some e').
  { intros r er Hr Hrp Hcase.
    destruct (runner_progress _ _ _ _ ok R Hr Hrp) as (l & s' & er' & Hs & Hh & Ho & Hdec & Hon & Hn & Hown & Hoth).
    exists l, s'. repeat split; auto.
    - unfold end_rank. destruct Hcase as [->|[Hne _]].
      + rewrite Hn, Hi. rewrite Hown.
        assert (own_rank (Some e) = 0) by (rewrite Hi in Hr; inversion Hr; subst; destruct er; simpl in *; congruence).
        lia.
      + rewrite (Hoth i) by auto. lia.
    - destruct Hcase as [->|[Hne _]]; [eauto|]. rewrite (Hoth i) by auto. eauto. }
  destruct e; try congruence.
  - (* E_Start *)
    exists (End_once i). unfold step. rewrite Hp, Hi. destruct (once s) eqn:Eo.
    + eexists. repeat split; cbn; auto.
      * unfold end_rank. cbn. rewrite nth_error_set_nth_eq with (y := E_Start) by assumption. rewrite Hi, Eo. cbn.
        assert (esum (ends s) = 0).
        { apply esum_zero. intros j ej Hj. destruct (Nat.eq_dec (erank ej) 0); [assumption|exfalso].
          pose proof (K2 _ _ Hj (erank_runner _ n)). congruence. }
        pose proof (esum_set_nth _ _ _ E_Run Hi). cbn in *. lia.
      * eexists. eapply nth_error_set_nth_eq; eauto.
    + eexists. repeat split; cbn; auto.
      * unfold end_rank. cbn. rewrite nth_error_set_nth_eq with (y := E_Start) by assumption. rewrite Hi, Eo. cbn.
        pose proof (esum_set_nth _ _ _ E_Wait Hi). cbn in *. lia.
      * eexists. eapply nth_error_set_nth_eq; eauto.
    + eexists. repeat split; cbn; auto.
      * unfold end_rank. cbn. rewrite nth_error_set_nth_eq with (y := E_Start) by assumption. rewrite Hi, Eo. cbn.
        pose proof (esum_set_nth _ _ _ E_Done Hi). cbn in *. lia.
      * eexists. eapply nth_error_set_nth_eq; eauto.
  - (* E_Wait *)
    destruct (once s) eqn:Eo.
    + exfalso. apply (K7 _ Hi). reflexivity.
    + destruct (K3 eq_refl) as (r & er & Hr & Hrp).
      apply (Hrun r er Hr Hrp). right. split; [|reflexivity]. intros ->. rewrite Hi in Hr. inversion Hr; subst. discriminate.
    + exists (End_wait i). unfold step. rewrite Hp, Hi, Eo.
      eexists. repeat split; cbn; auto.
      * unfold end_rank. cbn. rewrite nth_error_set_nth_eq with (y := E_Wait) by assumption. rewrite Hi, Eo. cbn.
        pose proof (esum_set_nth _ _ _ E_Done Hi). cbn in *. lia.
      * eexists. eapply nth_error_set_nth_eq; eauto.
  - apply (Hrun i _ Hi eq_refl). auto.
  - apply (Hrun i _ Hi eq_refl). auto.
  - apply (Hrun i _ Hi eq_refl). auto.
  - apply (Hrun i _ Hi eq_refl). auto.
  - apply (Hrun i _ Hi eq_refl). auto.
  - apply (Hrun i _ Hi eq_refl). auto.
Qed.

(* From every reachable state of the repaired code, a pending End call completes within
   end_rank helpful steps (its own, the Once runner's, and those of the collector inside
   Collect, whose in-flight Catch may return either way). *)
Lemma end_terminates : forall n max s i e (oracle : bool), reachable V1 max s ->
  nth_error (ends s) i = Some e -> end_rank s i <= n ->
  exists tr s', length tr <= end_rank s i /\ forallb helpful tr = true /\ Forall (oracle_ok oracle) tr /\
    run V1 s tr = Some s' /\ nth_error (ends s') i = Some E_Done.
Proof.
  induction n as [|n IH]; intros max s i e oracle R Hi Hle.
  - destruct (end_pc_eq_dec e E_Done) as [->|Hne].
    + exists [], s. repeat split; simpl; auto; lia.
    + destruct (end_progress _ _ _ _ oracle R Hi Hne) as (l & s' & _ & _ & _ & Hdec & _). lia.
  - destruct (end_pc_eq_dec e E_Done) as [->|Hne].
    + exists [], s. repeat split; simpl; auto; lia.
    + destruct (end_progress _ _ _ _ oracle R Hi Hne) as (l & s1 & Hs & Hh & Ho & Hdec & e1 & Hi1).
      assert (R1 : reachable V1 max s1) by (eapply reach_step; eauto).
      destruct (IH max s1 i e1 oracle R1 Hi1 ltac:(lia)) as (tr & s2 & Hlen & Hhelp & Hor & Hrun & Hd).
      exists (l :: tr), s2. repeat split; simpl; auto; try lia.
      * rewrite Hh. assumption.
      * rewrite Hs. assumption.
Qed.

Lemma esum_unique_bound : forall l,
  (forall i j ei ej, nth_error l i = Some ei -> nth_error l j = Some ej ->
                     runner_pc ei = true -> runner_pc ej = true -> i = j) -> esum l <= 6.
Proof.
  induction l as [|h t IH]; intros U; simpl; [lia|].
  destruct (Nat.eq_dec (erank h) 0) as [Hz|Hnz].
  - rewrite Hz. apply IH. intros i j ei ej Hi Hj Ri Rj.
    assert (S i = S j) by (eapply U; eauto). lia.
  - assert (esum t = 0).
    { apply esum_zero. intros j e Hj. destruct (Nat.eq_dec (erank e) 0); [assumption|exfalso].
      assert (0 = S j) by (eapply (U 0 (S j) h e); simpl; eauto using erank_runner). discriminate. }
    destruct h; simpl in *; lia.
Qed.

Lemma end_rank_bound : forall max s i, reachable V1 max s -> end_rank s i <= 15.
Proof.
  intros max s i R. pose proof (reach_once _ _ R) as (K1 & K2 & _).
  pose proof (esum_unique_bound _ K1) as Hb. unfold end_rank.
  assert (own_rank (nth_error (ends s) i) <= 2) by (destruct (nth_error (ends s) i) as [[]|]; simpl; lia).
  assert (col_rank (col s) <= 5) by (destruct (col s); simpl; lia).
  destruct (once s) eqn:Eo; simpl; try lia.
  assert (esum (ends s) = 0).
  { apply esum_zero. intros j ej Hj. destruct (Nat.eq_dec (erank ej) 0); [assumption|exfalso].
    pose proof (K2 _ _ Hj (erank_runner _ n)). congruence. }
  lia.
Qed.

(* ---------------------------------------------------------------- V0: the three failures *)

(* End twice, sequentially: the second close(melt) panics *)
Definition trace_double_end : list label :=
  [End_call; End_melt 0; End_lock 0; End_closechan 0; End_closepeers 0; End_unlock 0; End_call; End_melt 1].

Lemma v0_double_end_panics : exists s, run V0 (init 1) trace_double_end = Some s /\ panicked s = true
  /\ nth_error (ends s) 0 = Some E_Done.
Proof. eexists. split; [vm_compute; reflexivity|]. split; reflexivity. Qed.

(* Max = 2; the spare goes stale, is replaced, the replacement goes stale too: the channel is
   full of closed peers and the fourth Collect blocks in the send while holding collectLock.
   (Collect = lock, check, catch, push, send, unlock, return; Pop = call, recv, check.) *)
Definition collect_ok : list label := [Col_lock; Col_check; Catch_ok; Col_push; Col_send; Col_unlock; Col_return].
Definition trace_deadlock : list label :=
  collect_ok ++ [Pop_call; Pop_recv 0; Pop_check 0] ++ collect_ok ++ [Peer_closes 1] ++ collect_ok ++ [Peer_closes 2]
  ++ [Col_lock; Col_check; Catch_ok; Col_push] ++ [End_call; End_melt 0].

Definition no_pop (l : label) : bool :=
  match l with Pop_call | Pop_recv _ | Pop_check _ => false | _ => true end.

Local Arguments nth_error : simpl never.

Definition stuck_shape (s : state) : Prop :=
  (exists p, col s = C_Sending p) /\ lock s = Some T_Col /\ length (chan s) = cap s /\ chan_closed s = false
  /\ nth_error (ends s) 0 = Some E_Melted /\ inv_lock s.

Lemma stuck_shape_step : forall s l s', stuck_shape s -> no_pop l = true -> step V0 s l = Some s' ->
  stuck_shape s'.
Proof.
  intros s l s' ((p & Hc) & Hl & Hch & Hcc & He & IL) Hn H.
  assert (IL' : inv_lock s') by (eapply inv_lock_step; eauto).
  destruct IL as [_ Le].
  assert (Hset : forall i e en, nth_error (ends s) i = Some e -> e <> E_Melted ->
            nth_error (set_nth i en (ends s)) 0 = Some E_Melted).
  { intros i e en Hi Hne. rewrite nth_error_set_nth. destruct (Nat.eqb_spec 0 i); [subst; congruence|assumption]. }
  destruct l; try discriminate; step_inv H; unfold stuck_shape; cbn.
  all: try (apply Nat.ltb_lt in Heqb0; exfalso; lia).
  all: try (exfalso; match goal with Hx : nth_error (ends ?s0) ?i = Some ?e |- _ =>
              assert (lock s0 = Some (T_End i)) by (apply (Le _ _ Hx); reflexivity); congruence end).
  all: repeat split; eauto; try congruence; try (eapply Hset; eauto; discriminate);
       try exact (proj1 IL'); try exact (proj2 IL').
  - rewrite nth_error_app1; auto. apply nth_error_Some. congruence.
Qed.

Lemma stuck_forever : forall tr s s', stuck_shape s -> forallb no_pop tr = true -> run V0 s tr = Some s' ->
  stuck_shape s'.
Proof.
  induction tr as [|l tr IH]; intros s s' Hs Hn Hr; simpl in *.
  - inversion Hr; subst; assumption.
  - apply andb_prop in Hn. destruct Hn as [Hl Hn]. destruct (step V0 s l) eqn:Es; [|discriminate].
    apply (IH s0 s'); auto. eapply stuck_shape_step; eauto.
Qed.

(* The reachable state after trace_deadlock: End has begun (melt closed) and is waiting for the lock,
   the collector holds the lock and waits for room in the channel. Unless some Pop happens, no
   continuation whatsoever lets that End return. *)
Lemma v0_deadlock : exists s, run V0 (init 2) trace_deadlock = Some s /\ panicked s = false /\
  nth_error (ends s) 0 = Some E_Melted /\
  (forall l, helpful l = true -> step V0 s l = None) /\
  (forall tr s', forallb no_pop tr = true -> run V0 s tr = Some s' -> nth_error (ends s') 0 = Some E_Melted).
Proof.
  destruct (run V0 (init 2) trace_deadlock) as [s0|] eqn:E; [|vm_compute in E; discriminate].
  assert (R : reachable V0 2 s0) by (eapply run_reachable; [apply reach_init|exact E]).
  assert (S0 : stuck_shape s0).
  { vm_compute in E. inversion E; subst. unfold stuck_shape. cbn.
    repeat split; eauto. apply (reach_lock _ _ _ R). }
  exists s0. split; [reflexivity|]. split; [vm_compute in E; inversion E; reflexivity|].
  split; [apply S0|]. split.
  - intros l Hl. vm_compute in E. inversion E; subst. destruct l; try discriminate; try reflexivity;
      unfold step; cbn; repeat (destruct i as [|i]; try reflexivity).
  - intros tr s' Hn Hr. apply (stuck_forever _ _ _ S0 Hn Hr).
Qed.

