(* ProxySessionLiveProofs.v — the general form of "it polls again with full capacity" for the proxy
   session machine (Model/ProxySession.v, repaired code V1): slot accounting at EVERY reachable state
   (not only when all sessions have ended), when the poll loop is enabled, and that no session can
   sit on a slot with nothing left to run.

   occupied = sessions whose get completed and that have not finished their ret
            = in_use (ret not called) + releasing (ret called, channel receive still to come). *)
From Coq Require Import List ZArith Arith Bool Lia.
From Snow Require Import Model.Tokens Model.ProxySession Proofs.ProxySessionProofs.
Import ListNotations.
Local Open Scope nat_scope.

Definition releasing (st : state) : nat := tot pend st + mpend (mn st).
Definition occupied (st : state) : nat := in_use st + releasing st.
Definition free_slots (N : nat) (st : state) : nat := N - occupied st.

(* ------------------------------------------------------------------ accounting *)

Lemma inv_occupied : forall N st, N <> 0 -> Inv N st ->
  chlen (tok st) = occupied st /\ occupied st <= N /\ free_slots N st + occupied st = N.
Proof.
  intros N st HN I. destruct (inv_ch _ _ I HN) as [E L]. unfold free_slots, occupied, releasing.
  rewrite in_use_tot. lia.
Qed.

Lemma inv_count : forall N st, Inv N st -> count (tok st) = (Z.of_nat (in_use st) + mget (mn st))%Z.
Proof. intros N st I. unfold count. rewrite in_use_tot. apply (inv_clients _ _ I). Qed.

(* the second half of get (the channel send) is enabled exactly when a slot is free *)
Lemma inv_send_ready_iff : forall N st, N <> 0 -> Inv N st ->
  (send_ready (tok st) = true <-> 0 < free_slots N st).
Proof.
  intros N st HN I. destruct (inv_occupied _ _ HN I) as (E & L & F). unfold send_ready.
  rewrite (inv_cap _ _ I). destruct (Nat.eqb_spec N 0) as [|_]; [contradiction|]. cbn [orb].
  rewrite Nat.ltb_lt. unfold free_slots in *. lia.
Qed.

(* the loop head: get's first half is always enabled; its second half iff a slot is free; when it
   goes through, the loop polls and exactly one more slot is in use *)
Lemma inv_poll_loop : forall N st, Inv N st -> mn st = MTop ->
  exists st1, step V1 st LGet = Some st1 /\ mn st1 = MGetSend /\ in_use st1 = in_use st /\
              releasing st1 = releasing st /\
              ((N = 0 \/ 0 < free_slots N st) ->
                 exists st2, step V1 st1 LGetSend = Some st2 /\ mn st2 = MPoll /\
                             in_use st2 = in_use st + 1 /\ releasing st2 = releasing st /\
                             gets st2 = S (gets st)) /\
              (N <> 0 -> free_slots N st = 0 -> step V1 st1 LGetSend = None).
Proof.
  intros N st I Hm. assert (Hcap := inv_cap _ _ I). assert (Hcur := inv_cur _ _ I).
  destruct st as [t m b cu ps g]. cbn [tok mn bg cur polls gets] in *. subst m.
  destruct cu as [c|].
  { exfalso. crush_sess c. }
  eexists. split; [reflexivity|]. split; [reflexivity|].
  unfold in_use, releasing, tot, sessions, set_mn, set_tok. cbn [tok mn bg cur polls gets mpend].
  split; [reflexivity|]. split; [reflexivity|].
  assert (SRiff : N <> 0 -> (send_ready (tok_inc t) = true <-> 0 < free_slots N (mkSt t MTop b None ps g))).
  { intros HN. rewrite <- (inv_send_ready_iff N _ HN I). cbn [tok]. tok_case t. reflexivity. }
  split.
  - intros Hfree. cbn [step mn tok].
    assert (SR : send_ready (tok_inc t) = true).
    { destruct (Nat.eq_dec N 0) as [E0|HN].
      - tok_case t. subst. reflexivity.
      - apply SRiff; [exact HN|]. destruct Hfree; [contradiction|assumption]. }
    rewrite SR. eexists. split; [reflexivity|]. cbn [mn bg cur gets]. split; [reflexivity|].
    rewrite !app_nil_r. rewrite map_app, sum_app. cbn. split; [lia|]. split; reflexivity.
  - intros HN Hz. cbn [step mn tok].
    pose proof (SRiff HN) as [S1 _].
    destruct (send_ready (tok_inc t)); [specialize (S1 eq_refl); lia | reflexivity].
Qed.

(* ------------------------------------------------------------------ lists *)

Lemma nth_error_upd_eq : forall A (l : list A) i (f : A -> A) c,
  nth_error l i = Some c -> nth_error (upd i f l) i = Some (f c).
Proof.
  induction l as [|x l IH]; intros [|k] f c H; cbn in *; try discriminate.
  - inversion H; subst. reflexivity.
  - apply IH. exact H.
Qed.

Lemma upd_upd : forall A (l : list A) i (f g : A -> A),
  upd i f (upd i g l) = upd i (fun x => f (g x)) l.
Proof. induction l as [|x l IH]; intros [|k] f g; cbn; auto. rewrite IH. reflexivity. Qed.

(* ------------------------------------------------------------------ a handler that holds a slot can release it *)

(* the steps the handler goroutine of a session still has to take to give the slot back; they are
   its own steps only: nothing is asked of the loop, of another session, of the peer - or of the RELAY:
   while the relay is being dialled the path takes the handshake timer (HDialTimer), never an answer of
   the relay (HDialOk / HDialFail) *)
Definition handler_path (i : nat) (c : sess) : list label :=
  match hp c with
  | HStart => [LH i HClaim; LH i HDialTimer; LH i HRecv]
  | HDial => [LH i HDialTimer; LH i HRecv]
  | HRun => [LH i HEnd; LH i HRecv]
  | HRetRecv => [LH i HRecv]
  | _ => []
  end.

Definition own_handler_step (i : nat) (l : label) : Prop := exists a, l = LH i a.

Lemma handler_path_own : forall i c, Forall (own_handler_step i) (handler_path i c).
Proof.
  intros i c. unfold handler_path. destruct (hp c); repeat constructor; eexists; reflexivity.
Qed.

Lemma handler_path_short : forall i c, length (handler_path i c) <= 3.
Proof. intros i c. unfold handler_path. destruct (hp c); cbn; lia. Qed.

(* one step of the handler goroutine of a background session *)
Lemma bg_step : forall st i c a c' t', nth_error (bg st) i = Some c -> hstep V1 a (tok st) c = Some (c', t') ->
  exists st', step V1 st (LH i a) = Some st' /\ nth_error (bg st') i = Some c' /\ tok st' = t' /\
              mn st' = mn st /\ cur st' = cur st /\ length (bg st') = length (bg st).
Proof.
  intros st i c a c' t' Hn Hs. cbn [step]. rewrite Hn, Hs. eexists. split; [reflexivity|].
  unfold set_tok, set_bg. cbn [tok bg cur mn]. rewrite (nth_error_upd_eq _ _ _ _ _ Hn), length_upd. auto.
Qed.

Lemma nth_error_sum_le : forall (f : sess -> nat) l i c, nth_error l i = Some c -> f c <= sum (map f l).
Proof.
  induction l as [|x l IH]; intros [|k] c Hn; cbn in *; try discriminate.
  - inversion Hn; subst; lia.
  - specialize (IH _ _ Hn). lia.
Qed.

Lemma recv_ready_of : forall N t, cap t = N -> (N <> 0 -> 1 <= chlen t) -> recv_ready t = true.
Proof.
  intros N t Hc Hl. unfold recv_ready. destruct (Nat.eqb_spec (cap t) 0) as [|n]; [reflexivity|].
  cbn [orb]. apply Nat.ltb_lt. apply Hl. congruence.
Qed.

Lemma chlen_recv : forall t, cap t <> 0 -> 1 <= chlen t -> S (chlen (tok_recv t)) = chlen t.
Proof. intros t Hc Hl. tok_case t. destruct (Nat.eqb_spec cp 0); [contradiction|]. cbn. lia. Qed.

Lemma run_cons : forall v st l ls,
  run v st (l :: ls) = match step v st l with Some st' => run v st' ls | None => None end.
Proof. reflexivity. Qed.
Lemma run_nil : forall v st, run v st [] = Some st.
Proof. reflexivity. Qed.

Local Opaque run step.

(* a background session (runSession has returned from it) that still occupies a slot *)
Lemma bg_release_path : forall N st i c, Inv N st ->
  nth_error (bg st) i = Some c -> holds c + pend c = 1 ->
  exists st' c', run V1 st (handler_path i c) = Some st' /\
    handler_path i c <> [] /\
    nth_error (bg st') i = Some c' /\ holds c' = 0 /\ pend c' = 0 /\ hp c' = HDone /\ released c' = 1 /\
    mn st' = mn st /\ cur st' = cur st /\ length (bg st') = length (bg st) /\
    (N <> 0 -> S (chlen (tok st')) = chlen (tok st)).
Proof.
  intros N st i c I Hn Hocc.
  assert (Hok : bg_ok c = true).
  { pose proof (inv_bg _ _ I) as Ibg. rewrite Forall_forall in Ibg. apply Ibg. eapply nth_error_In; eauto. }
  assert (Hcap := inv_cap _ _ I).
  assert (Hch : N <> 0 -> 1 <= chlen (tok st)).
  { intros HN. destruct (inv_ch _ _ I HN) as [E _]. unfold tot in E.
    pose proof (nth_error_sum_le holds _ _ _ Hn). pose proof (nth_error_sum_le pend _ _ _ Hn). lia. }
  unfold handler_path.
  crush_sess c; cbn [hp] in *; try (cbn in Hocc; discriminate); try lia.
  - (* HStart, not yet claimed *)
    destruct (bg_step st i _ HClaim _ _ Hn eq_refl) as (st1 & S1 & N1 & T1 & M1 & C1 & L1).
    destruct (bg_step st1 i _ HDialTimer _ _ N1 eq_refl) as (st2 & S2 & N2 & T2 & M2 & C2 & L2).
    assert (R2 : recv_ready (tok st2) = true).
    { apply (recv_ready_of N); rewrite T2, T1; tok_case (tok st); auto. }
    cbn in N2. destruct (bg_step st2 i _ HRecv (mkSess HDone true OHandler false true) (tok_recv (tok st2)) N2) as (st3 & S3 & N3 & T3 & M3 & C3 & L3).
    { cbn [hstep hp]. rewrite R2. reflexivity. }
    exists st3. eexists. rewrite run_cons, S1, run_cons, S2, run_cons, S3, run_nil. split; [reflexivity|]. split; [discriminate|].
    split; [exact N3|]. cbn. repeat split; try congruence.
    intros HN. rewrite T3, T2, T1. specialize (Hch HN).
    rewrite chlen_recv; tok_case (tok st); cbn; auto; lia.
  - (* HDial: the relay is being dialled; the handshake timer *)
    destruct (bg_step st i _ HDialTimer _ _ Hn eq_refl) as (st2 & S2 & N2 & T2 & M2 & C2 & L2).
    assert (R2 : recv_ready (tok st2) = true).
    { apply (recv_ready_of N); rewrite T2; tok_case (tok st); auto. }
    cbn in N2. destruct (bg_step st2 i _ HRecv (mkSess HDone true OHandler false true) (tok_recv (tok st2)) N2) as (st3 & S3 & N3 & T3 & M3 & C3 & L3).
    { cbn [hstep hp]. rewrite R2. reflexivity. }
    exists st3. eexists. rewrite run_cons, S2, run_cons, S3, run_nil. split; [reflexivity|]. split; [discriminate|].
    split; [exact N3|]. cbn. repeat split; try congruence.
    intros HN. rewrite T3, T2. specialize (Hch HN).
    rewrite chlen_recv; tok_case (tok st); cbn; auto; lia.
  - (* HRun *)
    destruct (bg_step st i _ HEnd _ _ Hn eq_refl) as (st2 & S2 & N2 & T2 & M2 & C2 & L2).
    assert (R2 : recv_ready (tok st2) = true).
    { apply (recv_ready_of N); rewrite T2; tok_case (tok st); auto. }
    cbn in N2. destruct (bg_step st2 i _ HRecv (mkSess HDone true OHandler false true) (tok_recv (tok st2)) N2) as (st3 & S3 & N3 & T3 & M3 & C3 & L3).
    { cbn [hstep hp]. rewrite R2. reflexivity. }
    exists st3. eexists. rewrite run_cons, S2, run_cons, S3, run_nil. split; [reflexivity|]. split; [discriminate|].
    split; [exact N3|]. cbn. repeat split; try congruence.
    intros HN. rewrite T3, T2. specialize (Hch HN).
    rewrite chlen_recv; tok_case (tok st); cbn; auto; lia.
  - (* HRetRecv *)
    assert (R2 : recv_ready (tok st) = true) by (apply (recv_ready_of N); auto).
    destruct (bg_step st i _ HRecv (mkSess HDone true OHandler false true) (tok_recv (tok st)) Hn) as (st3 & S3 & N3 & T3 & M3 & C3 & L3).
    { cbn [hstep hp]. rewrite R2. reflexivity. }
    exists st3. eexists. rewrite run_cons, S3, run_nil. split; [reflexivity|]. split; [discriminate|].
    split; [exact N3|]. cbn. repeat split; try congruence.
    intros HN. rewrite T3. specialize (Hch HN). apply chlen_recv; [congruence|assumption].
Qed.

Local Transparent run step.

(* ------------------------------------------------------------------ runSession returns, and gives the slot back unless a handler owns it *)

(* the steps of the Start goroutine that end runSession from any stage without the peer's help: the
   broker's error answer where one is awaited, the 20 s timer where the data channel is awaited *)
Definition give_up_tail (o : owner) : list label :=
  match o with OHandler => [LGiveUp] | _ => [LGiveUp; LClose; LMainRecv] end.

Definition main_exit (m : mpc) (o : owner) : list label :=
  match m with
  | MPoll => [LPollNil; LMainRecv]
  | MRelay => [LRelayBad; LMainRecv]
  | MMakePC => [LPcFail; LMainRecv]
  | MAnswer => LAnswerFail :: give_up_tail o
  | MSelect => LSelectTimeout :: give_up_tail o
  | MGiveUp => give_up_tail o
  | MClosing => [LClose; LMainRecv]
  | MRetRecv => [LMainRecv]
  | _ => []
  end.

Definition main_step (l : label) : bool :=
  match l with LH _ _ | LDcOpen | LGet | LGetSend | LStop => false | _ => true end.

Lemma main_exit_main : forall m o, forallb main_step (main_exit m o) = true.
Proof. intros m o. destruct m, o; reflexivity. Qed.

Lemma main_exit_short : forall m o, length (main_exit m o) <= 4.
Proof. intros m o. destruct m, o; cbn; lia. Qed.

Lemma cur_exit_path : forall N st c, Inv N st -> cur st = Some c ->
  exists st' c', run V1 st (main_exit (mn st) (own c)) = Some st' /\
    main_exit (mn st) (own c) <> [] /\
    mn st' = MTop /\ cur st' = None /\ bg st' = bg st ++ [c'] /\
    hp c' = hp c /\ dc c' = dc c /\
    (* the slot: given back by runSession, or left to the handler that claimed the session *)
    ((own c <> OHandler /\ holds c' = 0 /\ mrel c' = true /\ hrel c' = false /\
        (N <> 0 -> S (chlen (tok st')) = chlen (tok st)))
     \/ (own c = OHandler /\ c' = c /\ tok st' = tok st)).
Proof.
  intros N st c I Hc.
  assert (Hcap := inv_cap _ _ I). assert (Hok := inv_cur _ _ I). rewrite Hc in Hok.
  assert (Hch : N <> 0 -> holds c + mpend (mn st) <= chlen (tok st)).
  { intros HN. destruct (inv_ch _ _ I HN) as [E _]. unfold tot in E. rewrite Hc in E. lia. }
  destruct st as [t m b cu ps g]. cbn [tok mn bg cur polls gets] in *. subst cu.
  assert (RR : forall t0, cap t0 = N -> (N <> 0 -> 1 <= chlen t0) -> recv_ready t0 = true).
  { intros t0 Hc0 Hl. unfold recv_ready. destruct (Nat.eqb_spec (cap t0) 0) as [|n]; [reflexivity|].
    cbn [orb]. apply Nat.ltb_lt. apply Hl. congruence. }
  destruct m; crush_sess c; cbn [main_exit give_up_tail own];
    cbn [run step mn cur tok bg polls gets main_ret record_poll set_mn set_cur set_tok finish
         dc own hp mrel hrel];
    unfold main_ret, record_poll, set_mn, set_cur, set_tok, finish;
    cbn [run step mn cur tok bg polls gets dc own hp mrel hrel];
    try (rewrite RR; [| tok_case t; assumption | intros HN; specialize (Hch HN); tok_case t; cbn in Hch; lia]);
    (eexists; eexists; split; [reflexivity|]; split; [discriminate|];
     cbn [mn cur bg tok]; repeat (split; [reflexivity|]);
     first [ right; repeat split; reflexivity
           | left; split; [discriminate|]; cbn; repeat (split; [reflexivity|]);
             intros HN; specialize (Hch HN); tok_case t; cbn in Hch;
             destruct (Nat.eqb_spec cp 0); [lia|]; cbn; lia ]).
Qed.

(* ------------------------------------------------------------------ the session under negotiation: runSession returns and the slot comes back *)

Lemma run_app : forall v tr1 tr2 st st1, run v st tr1 = Some st1 -> run v st (tr1 ++ tr2) = run v st1 tr2.
Proof.
  induction tr1 as [|l tr1 IH]; intros tr2 st st1 H; cbn in *.
  - inversion H; subst. reflexivity.
  - destruct (step v st l); [|discriminate]. apply IH. exact H.
Qed.

(* steps of the session with id i when it is the one runSession is in: steps of the Start goroutine
   inside runSession (never the peer's LDcOpen, never the loop's get) and steps of the session's own
   handler goroutine *)
Definition cur_session_step (i : nat) (l : label) : bool :=
  match l with LH j _ => j =? i | _ => main_step l end.

Definition cur_release (st : state) (c : sess) : list label :=
  main_exit (mn st) (own c) ++
  match own c with OHandler => handler_path (length (bg st)) c | _ => [] end.

Lemma cur_release_steps : forall st c, forallb (cur_session_step (length (bg st))) (cur_release st c) = true.
Proof.
  intros st c. unfold cur_release. rewrite forallb_app. apply andb_true_iff. split.
  - assert (H := main_exit_main (mn st) (own c)). revert H. generalize (main_exit (mn st) (own c)).
    induction l as [|x l IH]; cbn; [auto|]. intros H. apply andb_true_iff in H as [H1 H2].
    rewrite IH by exact H2. destruct x; cbn in *; try discriminate; auto.
  - destruct (own c); try reflexivity. unfold handler_path. destruct (hp c); cbn; rewrite ?Nat.eqb_refl; reflexivity.
Qed.

Lemma cur_release_short : forall st c, length (cur_release st c) <= 6.
Proof.
  intros st c. unfold cur_release. rewrite app_length.
  pose proof (handler_path_short (length (bg st)) c). destruct (mn st), (own c); cbn in *; lia.
Qed.

Lemma cur_release_path : forall N st c, Inv N st -> cur st = Some c ->
  holds c + pend c + mpend (mn st) = 1 ->
  exists st' c', run V1 st (cur_release st c) = Some st' /\ cur_release st c <> [] /\
    mn st' = MTop /\ cur st' = None /\
    nth_error (bg st') (length (bg st)) = Some c' /\ length (bg st') = S (length (bg st)) /\
    holds c' = 0 /\ pend c' = 0 /\ released c' = 1 /\
    (N <> 0 -> S (chlen (tok st')) = chlen (tok st)).
Proof.
  intros N st c I Hc Hocc.
  destruct (cur_exit_path N st c I Hc) as (st1 & c1 & R1 & Hne & M1 & C1 & B1 & Hhp & Hdc & Hslot).
  assert (Hok := inv_cur _ _ I). rewrite Hc in Hok.
  unfold cur_release.
  assert (Hnth : nth_error (bg st1) (length (bg st)) = Some c1).
  { rewrite B1, nth_error_app2, Nat.sub_diag by lia. reflexivity. }
  assert (Hlen : length (bg st1) = S (length (bg st))) by (rewrite B1, app_length; cbn; lia).
  destruct Hslot as [(Hown & Hh & Hm & Hr & Hch) | (Hown & -> & Htok)].
  - assert (Hnil : match own c with OHandler => handler_path (length (bg st)) c | _ => [] end = [])
      by (destruct (own c); congruence).
    rewrite Hnil, app_nil_r. exists st1, c1. split; [exact R1|]. split; [exact Hne|].
    repeat (split; [assumption|]).
    assert (pend c1 = 0).
    { unfold pend. rewrite Hhp. destruct (mn st); crush_sess c; reflexivity. }
    split; [assumption|]. split; [|exact Hch]. unfold released. rewrite Hm, Hr. reflexivity.
  - assert (I1 : Inv N st1) by (eapply run_inv_from; eauto).
    assert (Hmp : mpend (mn st) = 0) by (destruct (mn st); crush_sess c; reflexivity).
    rewrite Hown in *.
    destruct (bg_release_path N st1 _ c I1 Hnth ltac:(lia))
      as (st2 & c2 & R2 & Hne2 & N2 & Hh2 & Hp2 & Hd2 & Hrel2 & M2 & C2 & L2 & Hch2).
    exists st2, c2. rewrite (run_app _ _ _ _ _ R1). split; [exact R2|].
    split; [intros E; apply app_eq_nil in E as [E _]; contradiction|].
    rewrite M2, C2, L2, <- Htok. repeat (split; [assumption|]). exact Hch2.
Qed.

(* a stage of runSession at which the only things awaited are the broker or the peer has, for each
   of them, the bounded alternative the path above takes: the broker's request fails or times out,
   the data channel timer fires *)
Lemma main_exit_waits : forall m o,
  match m with
  | MPoll => In LPollNil (main_exit m o)
  | MAnswer => In LAnswerFail (main_exit m o)
  | MSelect => In LSelectTimeout (main_exit m o)
  | _ => True
  end.
Proof. intros m o. destruct m; cbn; auto. Qed.

(* ------------------------------------------------------------------ the relay dial: who can release the slot of a served session *)

Lemma nth_error_upd_neq : forall A (l : list A) i j (f : A -> A), i <> j -> nth_error (upd j f l) i = nth_error l i.
Proof. induction l as [|x l IH]; intros [|i] [|j] f H; cbn; auto; congruence. Qed.

Lemma nth_snoc_keep : forall A (l x : list A) i c, nth_error l i = Some c -> nth_error (l ++ x) i = Some c.
Proof. intros A l x i c H. rewrite nth_error_app1; [exact H|]. apply nth_error_Some. congruence. Qed.

(* a session runSession has returned from is touched by the steps of its own handler goroutine only (both code versions) *)
Lemma bg_frame : forall v st l st' i c, step v st l = Some st' -> (forall a, l <> LH i a) ->
  nth_error (bg st) i = Some c -> nth_error (bg st') i = Some c.
Proof.
  intros v st l st' i c H Hl Hn. destruct st as [t m b cu ps g]. cbn [bg] in Hn.
  destruct l; cbn [step] in H; cbn [tok mn bg cur polls gets] in H.
  all: try (destruct m; try discriminate;
            unfold main_ret, record_poll, finish, set_mn, set_tok, set_cur, set_bg in H; cbn [tok mn bg cur polls gets] in H;
            repeat match type of H with
              | match ?x with _ => _ end = Some _ => destruct x eqn:?; try discriminate
              | (if ?x then _ else _) = Some _ => destruct x eqn:?; try discriminate
              end;
            inversion H; subst; cbn [bg]; first [exact Hn | apply nth_snoc_keep; exact Hn]).
  (* left: LH i0 a *)
  - assert (Hne : i <> i0) by (intros ->; eapply Hl; reflexivity).
    destruct (nth_error b i0) as [c0|] eqn:Hj.
    + destruct (hstep v a t c0) as [[c' t']|]; [|discriminate]. inversion H; subst.
      unfold set_tok, set_bg. cbn [bg]. rewrite nth_error_upd_neq by exact Hne. exact Hn.
    + destruct (i0 =? length b); [|discriminate]. destruct cu as [c0|]; [|discriminate].
      destruct (hstep v a t c0) as [[c' t']|]; [|discriminate]. inversion H; subst. exact Hn.
Qed.

(* what the relay, or the handler's own timer, can make of a dial in progress *)
Definition dial_event (i : nat) (l : label) : bool :=
  match l with
  | LH j HDialOk | LH j HDialFail | LH j HDialTimer => j =? i
  | _ => false
  end.

(* the other steps of the handler are not enabled while it dials *)
Lemma hstep_dial_only : forall v a t c, hp c = HDial -> a <> HDialOk -> a <> HDialFail -> a <> HDialTimer -> hstep v a t c = None.
Proof. intros v a t c Hh H1 H2 H3. unfold hstep. rewrite Hh. destruct a; congruence. Qed.

(* A relay that hangs (accepts the connection and never answers) with no timer bounding the dial: whatever else
   happens - any number of steps of the loop, of other sessions, of the broker - the session stays where it is,
   holding its slot.  (Both code versions; this is what the handshake timer of the dialer is for.) *)
Lemma hang_holds_slot : forall v tr st st' i c, nth_error (bg st) i = Some c -> hp c = HDial ->
  forallb (fun l => negb (dial_event i l)) tr = true -> run v st tr = Some st' ->
  nth_error (bg st') i = Some c.
Proof.
  induction tr as [|l tr IH]; intros st st' i c Hn Hh Hf H; cbn in *.
  - inversion H; subst. exact Hn.
  - apply andb_true_iff in Hf as [Hl Hf]. destruct (step v st l) as [st1|] eqn:E; [|discriminate].
    apply (IH st1 st' i c); auto.
    destruct l; try (eapply bg_frame; [exact E| intros; discriminate | exact Hn]).
    destruct (Nat.eq_dec i0 i) as [->|Hne].
    + (* a step of the session's own handler: only the dial events are enabled at HDial *)
      exfalso. cbn [step] in E. rewrite Hn in E.
      rewrite hstep_dial_only in E; [discriminate|exact Hh| | |];
        intros ->; cbn in Hl; rewrite Nat.eqb_refl in Hl; discriminate.
    + eapply bg_frame; [exact E| |exact Hn]. intros a' Ha. inversion Ha. congruence.
Qed.

(* a well-formed served session that is dialling the relay holds exactly one slot, and its own timer gives it back *)
Lemma bg_dial_facts : forall i c, bg_ok c = true -> hp c = HDial ->
  holds c = 1 /\ pend c = 0 /\ released c = 0 /\ handler_path i c = [LH i HDialTimer; LH i HRecv].
Proof. intros i c Hok Hh. unfold handler_path. rewrite Hh. crush_sess c; auto. Qed.

Lemma dial_timer_releases : forall N st i c, Inv N st -> nth_error (bg st) i = Some c -> hp c = HDial ->
  holds c = 1 /\
  exists st' c', run V1 st [LH i HDialTimer; LH i HRecv] = Some st' /\
    nth_error (bg st') i = Some c' /\ holds c' = 0 /\ pend c' = 0 /\ hp c' = HDone /\ released c' = 1 /\
    mn st' = mn st /\ cur st' = cur st /\ in_use st' + 1 = in_use st /\
    (N <> 0 -> S (chlen (tok st')) = chlen (tok st)).
Proof.
  intros N st i c I Hn Hh.
  assert (Hok : bg_ok c = true).
  { pose proof (inv_bg _ _ I) as Ibg. rewrite Forall_forall in Ibg. apply Ibg. eapply nth_error_In; eauto. }
  destruct (bg_dial_facts i c Hok Hh) as (Hh1 & Hp0 & _ & Hpath). split; [exact Hh1|].
  destruct (bg_release_path N st i c I Hn ltac:(lia)) as (st' & c' & R & _ & N' & H0 & P0 & D & Rl & M & C & L & Ch).
  rewrite Hpath in R. exists st', c'. repeat (split; [assumption|]). split; [|exact Ch].
  (* in_use: only session i changed, from holding to not holding *)
  pose proof (run_inv_from _ _ _ _ I R) as I'.
  cbn [run] in R. destruct (step V1 st (LH i HDialTimer)) as [s1|] eqn:E1; [|discriminate].
  destruct (step V1 s1 (LH i HRecv)) as [s2|] eqn:E2; [|discriminate]. inversion R; subst s2.
  cbn [step] in E1. rewrite Hn in E1. destruct (hstep V1 HDialTimer (tok st) c) as [[c1 t1]|] eqn:Hs1; [|discriminate].
  inversion E1; subst s1. clear E1.
  cbn [step] in E2. unfold set_tok, set_bg in E2. cbn [bg tok] in E2. rewrite (nth_error_upd_eq _ _ _ _ _ Hn) in E2.
  destruct (hstep V1 HRecv t1 c1) as [[c2 t2]|] eqn:Hs2; [|discriminate]. inversion E2; subst st'. clear E2.
  rewrite !in_use_tot. unfold tot. cbn [bg cur]. rewrite upd_upd.
  pose proof (sum_upd holds (bg st) i c c2 Hn) as Su.
  assert (Hc2 : holds c2 = 0).
  { cbn [bg] in N'. rewrite upd_upd in N'. rewrite (nth_error_upd_eq _ _ _ _ _ Hn) in N'. inversion N'; subst. exact H0. }
  rewrite Hc2, Hh1 in Su.
  replace (upd i (fun x => (fun _ => c2) ((fun _ => c1) x)) (bg st)) with (upd i (fun _ => c2) (bg st)) by reflexivity.
  lia.
Qed.
