(* CarrierOnceProofs.v — exactly-once, in-order delivery of outgoing packets across carriers:
   for every ClientID the packets accepted by WriteTo are, in order, the packets consumed so far
   followed by those still queued; every consumed packet went to exactly one carrier (or was lost with
   a failing WriteData), and that carrier presented the queue's ClientID. *)
From Coq Require Import List NArith Bool Arith Lia.
From Snow Require Import Lib.Wire Model.Encap Model.CarrierLayer Proofs.CarrierProofs.
Import ListNotations.
Open Scope N_scope.

Definition for_cid (c : bytes) (x : bytes * bytes) : bool := beq c (fst x).
Definition acc_for (c : bytes) (l : list (bytes * bytes)) : list bytes := map snd (filter (for_cid c) l).
Definition cons_for (c : bytes) (l : list (option nat * bytes * bytes)) : list bytes :=
  map snd (filter (fun x => beq c (snd (fst x))) l).
Definition owner_is (i : nat) (x : option nat * bytes * bytes) : bool :=
  match fst (fst x) with Some j => Nat.eqb i j | None => false end.
Definition down_of (i : nat) (l : list (option nat * bytes * bytes)) : list bytes := map snd (filter (owner_is i) l).

Lemma beq_sym a b : beq a b = beq b a.
Proof.
  revert b. induction a as [|x a IH]; intros [|y b]; cbn [beq]; try reflexivity.
  rewrite N.eqb_sym, IH. reflexivity.
Qed.

Record OInv (s : sstate) : Prop := {
  oi_fifo : forall c, acc_for c (accepted s) = cons_for c (consumed s) ++ q_lookup c (sendqs s);
  oi_down : forall i k, nth_error (carriers s) i = Some k -> k_down k = down_of i (consumed s);
  oi_owner : forall i c p, In (Some i, c, p) (consumed s) ->
             exists k, nth_error (carriers s) i = Some k /\ k_cid k = c /\ ~ pre_open k;
  oi_range : forall i c p, In (Some i, c, p) (consumed s) -> (i < length (carriers s))%nat
}.

Lemma oinv_init : OInv sinit.
Proof.
  constructor; cbn.
  - intros c. reflexivity.
  - intros [|i] k H; discriminate.
  - intros i c p [].
  - intros i c p [].
Qed.

Lemma kupd_length f : forall l i, length (kupd i f l) = length l.
Proof. induction l as [|x l IH]; intros [|i]; cbn [kupd length]; try reflexivity. rewrite IH. reflexivity. Qed.

Lemma down_of_none l i : (forall j c p, In (Some j, c, p) l -> j <> i) -> down_of i l = [].
Proof.
  induction l as [|[[o c] p] l IH]; intros H; cbn; [reflexivity|].
  unfold owner_is at 1. cbn [fst]. destruct o as [j|].
  - destruct (Nat.eqb_spec i j) as [->|Hne].
    + exfalso. apply (H j c p); [left; reflexivity | reflexivity].
    + apply IH. intros j' c' p' Hin. apply (H j' c' p'). right. exact Hin.
  - apply IH. intros j' c' p' Hin. apply (H j' c' p'). right. exact Hin.
Qed.

Lemma down_of_snoc j l o c p :
  down_of j (l ++ [(o, c, p)]) = down_of j l ++ (match o with Some i => if Nat.eqb j i then [p] else [] | None => [] end).
Proof.
  unfold down_of. rewrite filter_app, map_app. cbn [filter]. unfold owner_is at 2. cbn [fst].
  destruct o as [i|]; [destruct (Nat.eqb j i)|]; reflexivity.
Qed.

Lemma pump_keeps_down fuel k k' ps : pump fuel k = (k', ps) -> k_down k' = k_down k.
Proof. intros H. destruct (pump_spec fuel k) as [k2 [ps2 [Hp Hok]]]. rewrite H in Hp. injection Hp as <- <-. apply (po_down _ _ _ Hok). Qed.

Theorem sstep_oinv s o : SInv s -> OInv s -> OInv (sstep s o).
Proof.
  intros SI [Ifi Ido Iow Ira]. destruct o; cbn [sstep].
  - (* new *) constructor; cbn.
    + exact Ifi.
    + intros i k H. destruct (nth_app_new _ _ _ _ H) as [Ho|[-> ->]]; [apply Ido; exact Ho|].
      cbn. symmetry. apply down_of_none. intros j c p Hin Hj. subst j. apply Ira in Hin. lia.
    + intros i c p Hin. destruct (Iow i c p Hin) as [k [Hk R]]. exists k. split; [|exact R].
      rewrite nth_error_app1; [exact Hk|]. apply nth_error_Some. congruence.
    + intros i c p Hin. rewrite app_length. apply Ira in Hin. cbn. lia.
  - (* recv *) destruct (nth_error (carriers s) i) as [k|] eqn:Hk; [|constructor; assumption].
    assert (Hsame : OInv s) by (constructor; assumption).
    destruct (k_state k) eqn:Es; try exact Hsame;
    (destruct (pump (S (S (S (length (k_buf k) + length b)))) (with_buf (k_buf k ++ b) k)) as [k' ps] eqn:Hp;
     pose proof (pump_keeps_down _ _ _ _ Hp) as Hd; cbn in Hd;
     destruct (pump_spec (S (S (S (length (k_buf k) + length b)))) (with_buf (k_buf k ++ b) k)) as [k2 [ps2 [Hp2 Hok]]];
     rewrite Hp in Hp2; injection Hp2 as <- <-;
     constructor; cbn;
     [ exact Ifi
     | intros j kj Hj; destruct (knth_upd_inv _ _ _ _ _ Hj) as [[<- [x [Hx ->]]]|[Hne Hj']];
         [rewrite Hd; apply Ido; exact Hk | apply Ido; exact Hj']
     | intros j c p Hin; destruct (Iow j c p Hin) as [kj [Hj [Hc Hnp]]];
         destruct (Nat.eq_dec i j) as [<-|Hne];
         [ rewrite Hk in Hj; injection Hj as <-; exists k'; split; [apply knth_upd_eq with (x := k); exact Hk|];
           split; [rewrite <- Hc; apply (po_cid _ _ _ Hok); cbn; unfold pre_open in Hnp; rewrite Es in *; tauto|];
           intros Hpre; destruct (po_pre _ _ _ Hok Hpre) as [_ Hpk]; unfold pre_open in Hpk, Hnp; cbn in Hpk; tauto
         | exists kj; split; [rewrite knth_upd_neq by exact Hne; exact Hj | split; assumption] ]
     | intros j c p Hin; rewrite kupd_length; apply (Ira j c p Hin) ]).
  - (* close *) constructor; cbn.
    + exact Ifi.
    + intros j kj Hj. destruct (knth_upd_inv _ _ _ _ _ Hj) as [[<- [x [Hx ->]]]|[Hne Hj']]; [cbn; apply Ido; exact Hx | apply Ido; exact Hj'].
    + intros j c p Hin. destruct (Iow j c p Hin) as [kj [Hj [Hc Hnp]]].
      destruct (Nat.eq_dec i j) as [<-|Hne].
      * exists (kill kj). split; [apply knth_upd_eq; exact Hj|]. split; [exact Hc|]. unfold pre_open; cbn. intros [H|H]; discriminate.
      * exists kj. split; [rewrite knth_upd_neq by exact Hne; exact Hj | split; assumption].
    + intros j c p Hin. rewrite kupd_length. apply (Ira j c p Hin).
  - (* writeto *) destruct (length (q_lookup cid (sendqs s)) <? QUEUE_SIZE)%nat; [|constructor; assumption].
    constructor; cbn; try assumption.
    intros c. unfold acc_for. rewrite filter_app, map_app. fold (acc_for c (accepted s)). rewrite Ifi.
    cbn [filter]. unfold for_cid at 1. cbn [fst]. destruct (beq c cid) eqn:E.
    + apply beq_true_eq in E. subst c. rewrite q_lookup_set_same. cbn. rewrite app_assoc. reflexivity.
    + rewrite q_lookup_set_other by exact E. cbn. rewrite app_nil_r. reflexivity.
  - (* send *) destruct (nth_error (carriers s) i) as [k|] eqn:Hk; [|constructor; assumption].
    destruct (k_state k) eqn:Es; try (constructor; assumption).
    destruct (q_lookup (k_cid k) (sendqs s)) as [|p q'] eqn:Eq; [constructor; assumption|].
    assert (Hfifo : forall (o : option nat) c, acc_for c (accepted s) =
              cons_for c (consumed s ++ [(o, k_cid k, p)]) ++ q_lookup c (q_set (k_cid k) q' (sendqs s))).
    { intros o c. rewrite Ifi. unfold cons_for. rewrite filter_app, map_app. cbn [filter fst snd].
      destruct (beq c (k_cid k)) eqn:E.
      - apply beq_true_eq in E. subst c. rewrite q_lookup_set_same, Eq. cbn. rewrite <- app_assoc. reflexivity.
      - rewrite q_lookup_set_other by exact E. cbn. rewrite app_nil_r. reflexivity. }
    assert (Hnp : ~ pre_open k) by (unfold pre_open; rewrite Es; intros [H|H]; discriminate).
    destruct (write_data p) as [w|] eqn:Ew; constructor; cbn [carriers consumed sendqs accepted recvq delivered].
    + apply Hfifo.
    + intros j kj Hj. rewrite down_of_snoc.
      destruct (knth_upd_inv _ _ _ _ _ Hj) as [[<- [x [Hx ->]]]|[Hne Hj']].
      * rewrite Hk in Hx. injection Hx as <-. cbn [k_down]. rewrite Nat.eqb_refl. rewrite (Ido i k Hk). reflexivity.
      * destruct (Nat.eqb_spec j i) as [->|_]; [congruence|]. rewrite app_nil_r. apply Ido. exact Hj'.
    + intros j c p0 Hin. apply in_app_or in Hin. destruct Hin as [Hin|[Hin|[]]].
      * destruct (Iow j c p0 Hin) as [kj [Hj [Hc Hnpj]]]. destruct (Nat.eq_dec i j) as [<-|Hne].
        -- rewrite Hk in Hj. injection Hj as <-. eexists. split; [apply knth_upd_eq; exact Hk|]. cbn. split; [exact Hc|].
           unfold pre_open; cbn. intros [H|H]; discriminate.
        -- exists kj. split; [rewrite knth_upd_neq by exact Hne; exact Hj | split; assumption].
      * injection Hin as <- <- <-. eexists. split; [apply knth_upd_eq; exact Hk|]. cbn. split; [reflexivity|].
        unfold pre_open; cbn. intros [H|H]; discriminate.
    + intros j c p0 Hin. rewrite kupd_length. apply in_app_or in Hin. destruct Hin as [Hin|[Hin|[]]];
        [apply (Ira j c p0 Hin) | injection Hin as <- _ _; apply nth_error_Some; congruence].
    + apply Hfifo.
    + intros j kj Hj. rewrite down_of_snoc, app_nil_r.
      destruct (knth_upd_inv _ _ _ _ _ Hj) as [[<- [x [Hx ->]]]|[Hne Hj']]; [cbn; apply Ido; exact Hx | apply Ido; exact Hj'].
    + intros j c p0 Hin. apply in_app_or in Hin. destruct Hin as [Hin|[Hin|[]]]; [|discriminate].
      destruct (Iow j c p0 Hin) as [kj [Hj [Hc Hnpj]]]. destruct (Nat.eq_dec i j) as [<-|Hne].
      * exists (kill kj). split; [apply knth_upd_eq; exact Hj|]. split; [exact Hc|]. unfold pre_open; cbn. intros [H|H]; discriminate.
      * exists kj. split; [rewrite knth_upd_neq by exact Hne; exact Hj | split; assumption].
    + intros j c p0 Hin. rewrite kupd_length. apply in_app_or in Hin. destruct Hin as [Hin|[Hin|[]]]; [apply (Ira j c p0 Hin) | discriminate].
  - (* readfrom *) destruct (recvq s); constructor; assumption.
Qed.

Theorem srun_oinv : forall ops, OInv (srun ops).
Proof.
  intros ops. unfold srun.
  assert (G : forall s, SInv s -> OInv s -> SInv (fold_left sstep ops s) /\ OInv (fold_left sstep ops s)).
  { induction ops as [|o ops IH]; intros s S O; cbn [fold_left]; [split; assumption|].
    apply IH; [apply sstep_inv; exact S | apply sstep_oinv; assumption]. }
  apply G; [apply sinv_init | apply oinv_init].
Qed.
