(* CarrierFragProofs.v — what a carrier contributes depends only on the CONCATENATION of the upstream bytes
   it received, not on how they were split into arrivals, in every phase (token, ClientID, chunks). *)
From Coq Require Import List NArith Bool Arith Lia.
From Snow Require Import Lib.Wire Model.Encap Proofs.EncapSweep Proofs.EncapProofs Model.CarrierLayer Proofs.CarrierProofs.
Import ListNotations.
Open Scope N_scope.

Definition phase_cost (st : kstate) : nat :=
  match st with K_Token => 2 | K_ClientID => 1 | K_Open => 0 | K_Dead => 0 end.
Definition need (k : carrier) : nat := length (k_buf k) + phase_cost (k_state k).

Lemma pump_fuel : forall F1 F2 k, (need k < F1)%nat -> (need k < F2)%nat -> pump F1 k = pump F2 k.
Proof.
  induction F1 as [|F1 IH]; intros F2 k H1 H2; [lia|]. destruct F2 as [|F2]; [lia|].
  unfold need in *. cbn [pump]. destruct (k_state k) eqn:Es; cbn [phase_cost] in *.
  - destruct (Nat.ltb_spec (length (k_buf k)) 8) as [Hl|Hl]; [reflexivity|].
    destruct (beq (firstn 8 (k_buf k)) TOKEN); [|reflexivity].
    apply IH; unfold need; cbn [k_buf k_state phase_cost]; rewrite skipn_length; lia.
  - destruct (Nat.ltb_spec (length (k_buf k)) 8) as [Hl|Hl]; [reflexivity|].
    apply IH; unfold need; cbn [k_buf k_state phase_cost]; rewrite skipn_length; lia.
  - destruct (parse_one (k_buf k)) as [isd d rest| | |] eqn:Ep; try reflexivity.
    apply parse_one_shrinks in Ep.
    match goal with |- context [pump F1 ?K] => rewrite (IH F2 K) end;
      [reflexivity| |]; cbn [k_buf k_state phase_cost]; lia.
  - reflexivity.
Qed.

Lemma pump_S f k : pump (S f) k =
  match k_state k with
  | K_Token =>
      if (length (k_buf k) <? 8)%nat then (k, [])
      else if beq (firstn 8 (k_buf k)) TOKEN
           then pump f {| k_state := K_ClientID; k_cid := []; k_buf := skipn 8 (k_buf k);
                          k_up := k_up k; k_down := k_down k; k_wire := k_wire k |}
           else ({| k_state := K_Dead; k_cid := []; k_buf := []; k_up := k_up k; k_down := k_down k; k_wire := k_wire k |}, [])
  | K_ClientID =>
      if (length (k_buf k) <? 8)%nat then (k, [])
      else pump f {| k_state := K_Open; k_cid := firstn 8 (k_buf k); k_buf := skipn 8 (k_buf k);
                     k_up := k_up k; k_down := k_down k; k_wire := k_wire k |}
  | K_Open =>
      match parse_one (k_buf k) with
      | PChunk isdata d rest =>
          let k' := {| k_state := K_Open; k_cid := k_cid k; k_buf := rest;
                       k_up := if isdata then k_up k ++ [d] else k_up k;
                       k_down := k_down k; k_wire := k_wire k |} in
          let '(k'', ps) := pump f k' in
          (k'', if isdata then d :: ps else ps)
      | PLong => ({| k_state := K_Dead; k_cid := k_cid k; k_buf := []; k_up := k_up k;
                     k_down := k_down k; k_wire := k_wire k |}, [])
      | PEnd | PShort => (k, [])
      end
  | K_Dead => (k, [])
  end.
Proof. reflexivity. Qed.

(* appending bytes to the buffer of a carrier, keeping everything else *)
Definition more (k : carrier) (b : bytes) : carrier := with_buf (k_buf k ++ b) k.

Lemma skipn_app_le {A} n (a b : list A) : (n <= length a)%nat -> skipn n (a ++ b) = skipn n a ++ b.
Proof. intros H. rewrite skipn_app. replace (n - length a)%nat with 0%nat by lia. reflexivity. Qed.

(* Pumping what has arrived and then, after more bytes arrive, pumping again gives the same carrier and the
   same packets as pumping once with all the bytes. *)
(* what S_Recv does to a carrier: a closed carrier ignores the bytes *)
Definition feed (k : carrier) (b : bytes) : carrier * list bytes :=
  match k_state k with
  | K_Dead => (k, [])
  | _ => pump (S (need (more k b))) (more k b)
  end.

Lemma feed_alive k b : k_state k <> K_Dead -> feed k b = pump (S (need (more k b))) (more k b).
Proof. unfold feed. destruct (k_state k); congruence. Qed.

Theorem pump_app : forall F k b,
  (need k < F)%nat -> k_state k <> K_Dead ->
  let '(k1, ps1) := pump F k in
  let '(k2, ps2) := feed k1 b in
  pump (S (need (more k b))) (more k b) = (k2, ps1 ++ ps2).
Proof.
  induction F as [|F IH]; intros k b HF Hal; [lia|].
  assert (Hmb : k_buf (more k b) = k_buf k ++ b) by reflexivity.
  assert (Hms : k_state (more k b) = k_state k) by reflexivity.
  pose proof (feed_alive k b Hal) as Hfa.
  unfold need in HF. rewrite (pump_S F k). destruct (k_state k) eqn:Es; cbn [phase_cost] in HF; [| | |congruence].
  - (* token *)
    destruct (Nat.ltb_spec (length (k_buf k)) 8) as [Hl|Hl].
    { rewrite Hfa. destruct (pump (S (need (more k b))) (more k b)) as [k2 ps2]. reflexivity. }
    destruct (beq (firstn 8 (k_buf k)) TOKEN) eqn:Et.
    + set (k' := {| k_state := K_ClientID; k_cid := []; k_buf := skipn 8 (k_buf k); k_up := k_up k;
                    k_down := k_down k; k_wire := k_wire k |}).
      assert (Hn : (need k' < F)%nat) by (unfold need, k'; cbn [k_buf k_state phase_cost]; rewrite skipn_length; lia).
      specialize (IH k' b Hn ltac:(discriminate)). destruct (pump F k') as [k1 ps1].
      destruct (feed k1 b) as [k2 ps2].
      rewrite <- IH. rewrite (pump_S (need (more k b)) (more k b)). rewrite Hms, Hmb.
      rewrite app_length. destruct (Nat.ltb_spec (length (k_buf k) + length b) 8) as [Hc|_]; [lia|].
      rewrite firstn_app_le by lia. rewrite Et. rewrite skipn_app_le by lia.
      apply pump_fuel; unfold need, more, with_buf, k'; cbn [k_buf k_state phase_cost]; rewrite ?Es; cbn [phase_cost]; rewrite ?app_length, ?skipn_length; lia.
    + unfold feed. cbn [k_state].
      rewrite (pump_S (need (more k b)) (more k b)). rewrite Hms, Hmb.
      rewrite app_length. destruct (Nat.ltb_spec (length (k_buf k) + length b) 8) as [Hc|_]; [lia|].
      rewrite firstn_app_le by lia. rewrite Et. reflexivity.
  - (* client id *)
    destruct (Nat.ltb_spec (length (k_buf k)) 8) as [Hl|Hl].
    { rewrite Hfa. destruct (pump (S (need (more k b))) (more k b)) as [k2 ps2]. reflexivity. }
    set (k' := {| k_state := K_Open; k_cid := firstn 8 (k_buf k); k_buf := skipn 8 (k_buf k); k_up := k_up k;
                  k_down := k_down k; k_wire := k_wire k |}).
    assert (Hn : (need k' < F)%nat) by (unfold need, k'; cbn [k_buf k_state phase_cost]; rewrite skipn_length; lia).
    specialize (IH k' b Hn ltac:(discriminate)). destruct (pump F k') as [k1 ps1].
    destruct (feed k1 b) as [k2 ps2].
    rewrite <- IH. rewrite (pump_S (need (more k b)) (more k b)). rewrite Hms, Hmb.
    rewrite app_length. destruct (Nat.ltb_spec (length (k_buf k) + length b) 8) as [Hc|_]; [lia|].
    rewrite firstn_app_le by lia. rewrite skipn_app_le by lia.
    apply pump_fuel; unfold need, more, with_buf, k'; cbn [k_buf k_state phase_cost]; rewrite ?Es; cbn [phase_cost]; rewrite ?app_length, ?skipn_length; lia.
  - (* open *)
    destruct (parse_one (k_buf k)) as [isd d rest| | |] eqn:Ep.
    + pose proof (parse_one_shrinks _ _ _ _ Ep) as Hsh.
      set (k' := {| k_state := K_Open; k_cid := k_cid k; k_buf := rest;
                    k_up := if isd then k_up k ++ [d] else k_up k; k_down := k_down k; k_wire := k_wire k |}).
      assert (Hn : (need k' < F)%nat) by (unfold need, k'; cbn [k_buf k_state phase_cost]; lia).
      specialize (IH k' b Hn ltac:(discriminate)). cbn zeta. fold k'. destruct (pump F k') as [k1 ps1].
      destruct (feed k1 b) as [k2 ps2].
      rewrite (pump_S (need (more k b)) (more k b)). rewrite Hms, Hmb.
      rewrite (parse_one_chunk_app (k_buf k) b isd d rest Ep). cbn zeta.
      match goal with |- context [pump (need (more k b)) ?K] =>
        replace (pump (need (more k b)) K) with (pump (S (need (more k' b))) (more k' b)) end.
      * rewrite IH. destruct isd; reflexivity.
      * apply pump_fuel; unfold need, more, with_buf, k'; cbn [k_buf k_state phase_cost]; rewrite ?Es; cbn [phase_cost]; rewrite ?app_length; lia.
    + rewrite Hfa. destruct (pump (S (need (more k b))) (more k b)) as [k2 ps2]. reflexivity.
    + rewrite Hfa. destruct (pump (S (need (more k b))) (more k b)) as [k2 ps2]. reflexivity.
    + unfold feed. cbn [k_state].
      rewrite (pump_S (need (more k b)) (more k b)). rewrite Hms, Hmb.
      rewrite (parse_one_long_app (k_buf k) b Ep). reflexivity.
Qed.

(* Two arrivals equal one arrival of the concatenation. *)
Theorem feed_app : forall k b1 b2, k_state k <> K_Dead ->
  feed k (b1 ++ b2) =
  let '(k1, ps1) := feed k b1 in let '(k2, ps2) := feed k1 b2 in (k2, ps1 ++ ps2).
Proof.
  intros k b1 b2 Hal. rewrite (feed_alive k (b1 ++ b2) Hal), (feed_alive k b1 Hal).
  assert (Hm : more k (b1 ++ b2) = more (more k b1) b2) by (unfold more, with_buf; cbn; rewrite app_assoc; reflexivity).
  rewrite Hm.
  pose proof (pump_app (S (need (more k b1))) (more k b1) b2 ltac:(lia) Hal) as H.
  destruct (pump (S (need (more k b1))) (more k b1)) as [k1 ps1]. destruct (feed k1 b2) as [k2 ps2]. exact H.
Qed.

(* ---------- lifted to the server state: two arrivals on a carrier equal one arrival of the concatenation ---------- *)

Lemma recv_is_feed k b : k_state k <> K_Dead ->
  pump (S (S (S (length (k_buf k) + length b)))) (with_buf (k_buf k ++ b) k) = feed k b.
Proof.
  intros H. rewrite (feed_alive k b H).
  assert (L : length (k_buf k ++ b) = (length (k_buf k) + length b)%nat) by apply app_length.
  apply pump_fuel; unfold need, more, with_buf; cbn [k_buf k_state]; destruct (k_state k); cbn [phase_cost]; lia.
Qed.


Lemma kupd_kupd (a b : carrier) : forall l i, kupd i (fun _ => b) (kupd i (fun _ => a) l) = kupd i (fun _ => b) l.
Proof.
  induction l as [|x l IH]; intros [|i]; cbn [kupd]; try reflexivity. rewrite IH. reflexivity.
Qed.

Lemma enqueue_all_app cid : forall a b q, enqueue_all cid (a ++ b) q = enqueue_all cid b (enqueue_all cid a q).
Proof. induction a as [|p a IH]; intros b q; cbn [app enqueue_all]; [reflexivity | apply IH]. Qed.

Lemma feed_cid k b k1 ps1 : feed k b = (k1, ps1) -> ps1 <> [] ->
  forall b2 k2 ps2, feed k1 b2 = (k2, ps2) -> k_cid k2 = k_cid k1.
Proof.
  intros H1 Hne b2 k2 ps2 H2.
  assert (Hk1 : ~ pre_open k1).
  { unfold feed in H1. destruct (k_state k) eqn:Es;
      try (destruct (pump_spec (S (need (more k b))) (more k b)) as [kk [pp [Hp Hok]]]; rewrite H1 in Hp; injection Hp as <- <-;
           intros Hpre; destruct (po_pre _ _ _ Hok Hpre) as [Hnil _]; congruence).
    injection H1 as <- <-. congruence. }
  unfold feed in H2. destruct (k_state k1) eqn:Es1; try (exfalso; apply Hk1; unfold pre_open; tauto).
  - destruct (pump_spec (S (need (more k1 b2))) (more k1 b2)) as [kk [pp [Hp Hok]]]. rewrite H2 in Hp. injection Hp as <- <-.
    apply (po_cid _ _ _ Hok). left. exact Es1.
  - injection H2 as <- <-. reflexivity.
Qed.

Theorem recv_split s i b1 b2 :
  sstep (sstep s (S_Recv i b1)) (S_Recv i b2) = sstep s (S_Recv i (b1 ++ b2)).
Proof.
  cbn [sstep]. destruct (nth_error (carriers s) i) as [k|] eqn:Hk.
  2:{ cbn [sstep]. rewrite Hk. reflexivity. }
  destruct (Bool.bool_dec (match k_state k with K_Dead => true | _ => false end) true) as [Hd|Hal].
  { destruct (k_state k) eqn:Es; try discriminate. cbn [sstep]. rewrite Hk, Es. reflexivity. }
  assert (Halive : k_state k <> K_Dead) by (intros E; rewrite E in Hal; apply Hal; reflexivity).
  pose proof (feed_app k b1 b2 Halive) as Hfa.
  assert (R1 := recv_is_feed k b1 Halive). assert (R12 := recv_is_feed k (b1 ++ b2) Halive).
  destruct (k_state k) eqn:Es; try congruence;
  (rewrite R1, R12; destruct (feed k b1) as [k1 ps1] eqn:F1; cbn [sstep carriers];
   rewrite (knth_upd_eq _ _ _ _ Hk);
   destruct (feed k1 b2) as [k2 ps2] eqn:F2; rewrite Hfa;
   destruct (Bool.bool_dec (match k_state k1 with K_Dead => true | _ => false end) true) as [Hd1|Hal1];
   [ destruct (k_state k1) eqn:Es1; try discriminate;
     unfold feed in F2; rewrite Es1 in F2; injection F2 as <- <-; rewrite app_nil_r;
     cbn [carriers recvq sendqs accepted delivered consumed]; rewrite ?kupd_kupd; reflexivity
   | assert (Ha1 : k_state k1 <> K_Dead) by (intros E; rewrite E in Hal1; apply Hal1; reflexivity);
     rewrite (recv_is_feed k1 b2 Ha1), F2;
     destruct (k_state k1) eqn:Es1; try congruence;
     cbn [carriers recvq sendqs accepted delivered consumed]; rewrite ?kupd_kupd, ?enqueue_all_app;
     (destruct ps1 as [|p0 ps1']; [reflexivity|];
      rewrite (feed_cid k b1 k1 (p0 :: ps1') F1 ltac:(discriminate) b2 k2 ps2 F2); reflexivity) ]).
Qed.

Theorem recv_pieces : forall pieces s i b,
  fold_left (fun st x => sstep st (S_Recv i x)) pieces (sstep s (S_Recv i b)) = sstep s (S_Recv i (b ++ concat pieces)).
Proof.
  induction pieces as [|x pieces IH]; intros s i b; cbn [fold_left concat].
  - rewrite app_nil_r. reflexivity.
  - rewrite recv_split. rewrite IH. rewrite app_assoc. reflexivity.
Qed.
