(* ProxyMainProofs.v — the proxy's main(): which flags reach the relay URL test (Model/ProxyMain.v), composed with the
   session and life-time theorems of Proofs/ProxyRelayProofs.v. *)
From Coq Require Import List NArith Bool Arith String.
From Snow Require Import Lib.Wire Model.NameMatcher Model.RelayCheck Model.ProxyRelay Model.ProxyMain.
From Snow Require Import Proofs.NameMatcherProofs Proofs.ProxyRelayProofs.
Import ListNotations.
Open Scope N_scope.

(* AllowNonTLSRelay of the proxy main() starts is the -allow-non-tls-relay flag: no other flag, and nothing in
   Start(), has a say *)
Lemma main_allow_is_flag : forall f, pc_allow_non_tls (proxy_config_of_flags f) = fl_allow_non_tls f.
Proof. reflexivity. Qed.

Lemma main_pattern_is_flag : forall f,
  pc_pattern (proxy_config_of_flags f) = flag_or DEFAULT_RELAY_PATTERN (fl_pattern f).
Proof. reflexivity. Qed.

Lemma main_relay_is_flag : forall f,
  pc_relay_url (proxy_config_of_flags f) = or_default DEFAULT_RELAY_URL (flag_or DEFAULT_RELAY_URL (fl_relay f)).
Proof. reflexivity. Qed.

(* what the relay URL test reads of the command line: two flags *)
Lemma main_check_cfg : forall f,
  check_cfg (proxy_config_of_flags f) = mk_proxy_cfg (flag_or DEFAULT_RELAY_PATTERN (fl_pattern f)) (fl_allow_non_tls f).
Proof. reflexivity. Qed.

Lemma main_check_reads_two_flags : forall f1 f2,
  fl_pattern f1 = fl_pattern f2 -> fl_allow_non_tls f1 = fl_allow_non_tls f2 ->
  check_cfg (proxy_config_of_flags f1) = check_cfg (proxy_config_of_flags f2).
Proof. intros f1 f2 H1 H2. rewrite !main_check_cfg, H1, H2. reflexivity. Qed.

Lemma proxy_main_some : forall lib f c, proxy_main lib f = Some c -> c = proxy_config_of_flags f.
Proof. intros lib f c H. unfold proxy_main in H. destruct (start_ok lib (proxy_config_of_flags f)); congruence. Qed.

(* a proxy that got as far as polling has a pattern Start() accepted, and a RelayURL that parses *)
Lemma proxy_main_started : forall lib f c, proxy_main lib f = Some c ->
  is_valid_rule (pc_pattern c) = true /\ ul_parse lib (pc_relay_url c) <> ParseError.
Proof.
  intros lib f c H. unfold proxy_main in H.
  destruct (start_ok lib (proxy_config_of_flags f)) eqn:E; [|discriminate]. inversion H; subst c. clear H.
  unfold start_ok in E. apply andb_true_iff in E. destruct E as [E E4]. apply andb_true_iff in E. destruct E as [_ E3].
  split; [exact E4|]. unfold parses in E3. destruct (ul_parse lib (pc_relay_url (proxy_config_of_flags f))); [discriminate|discriminate].
Qed.

(* the decision on a broker-supplied URL, in terms of the command line *)
Lemma main_decision_iff : forall f raw pu,
  proxy_relay_decision (check_cfg (proxy_config_of_flags f)) raw pu = DialBrokerURL <->
  raw <> [] /\ exists scheme host, pu = Parsed scheme host
     /\ is_member (new_matcher (flag_or DEFAULT_RELAY_PATTERN (fl_pattern f))) host = true
     /\ (fl_allow_non_tls f = true \/ scheme = WSS).
Proof. intros f raw pu. rewrite main_check_cfg. apply proxy_dial_broker_iff. Qed.

(* one session of a proxy started WITHOUT -allow-non-tls-relay: a broker-supplied URL reaches the dialer only when it
   is a wss URL whose host is inside the pattern flag (default when not given) — whatever the other flags *)
Lemma main_session_without_flag : forall lib f c raw ip t,
  proxy_main lib f = Some c -> fl_allow_non_tls f = false -> raw <> [] ->
  run_session lib c raw ip = SDial t ->
  t = ul_redial lib raw ip /\
  exists h, ul_parse lib raw = Parsed WSS h
            /\ is_member (new_matcher (flag_or DEFAULT_RELAY_PATTERN (fl_pattern f))) h = true.
Proof.
  intros lib f c raw ip t Hm Hf Hne R. apply proxy_main_some in Hm. subst c.
  destruct (session_dial_string _ _ _ _ _ R) as [(_ & Ht & sch & h & Hp & M & A)|[He _]]; [|contradiction].
  split; [exact Ht|]. exists h. rewrite main_pattern_is_flag in M. rewrite main_allow_is_flag, Hf in A.
  destruct A as [A|A]; [discriminate|]. subst sch. split; assumption.
Qed.

(* over the whole life of the process: every string handed to the websocket dialer is printed from the operator's own
   RelayURL, or makes the dialer connect (if at all) over TLS to a host inside the pattern flag *)
Lemma main_life_without_flag : forall lib f evs st outs t,
  redial_preserves lib ->
  fl_allow_non_tls f = false ->
  proxy_main_run lib f evs = Some (st, outs) ->
  In t (ps_dials st) ->
  (exists ip, t = ul_redial lib (or_default DEFAULT_RELAY_URL (flag_or DEFAULT_RELAY_URL (fl_relay f))) ip)
  \/ (forall tls h, ws_dial lib t = DialTo tls h ->
        tls = true /\ is_member (new_matcher (flag_or DEFAULT_RELAY_PATTERN (fl_pattern f))) h = true).
Proof.
  intros lib f evs st outs t RP Hf Hr Hin. unfold proxy_main_run in Hr.
  destruct (proxy_main lib f) as [c|] eqn:Hm; [|discriminate]. inversion Hr as [Hp]. clear Hr.
  apply proxy_main_some in Hm. subst c.
  assert (Hin' : In t (ps_dials (fst (prun lib (pinit (proxy_config_of_flags f)) evs)))) by (rewrite Hp; exact Hin).
  destruct (proxy_life_dials_sound lib _ evs t RP Hin') as [[ip Ht]|H].
  - left. exists ip. exact Ht.
  - right. intros tls h Hd. destruct (H tls h Hd) as [M [T|T]].
    + split; [exact T|exact M].
    + rewrite main_allow_is_flag, Hf in T. discriminate.
Qed.

(* with the flag, or without it: the answers of the process to its sessions are those of ONE configuration, that of
   the command line, at every point of its life *)
Lemma main_run_outcome_at : forall lib f pre raw ip post st outs,
  proxy_main_run lib f (pre ++ P_Session raw ip :: post) = Some (st, outs) ->
  nth_error outs (List.length pre) = Some (Some (run_session lib (proxy_config_of_flags f) raw ip)).
Proof.
  intros lib f pre raw ip post st outs Hr. unfold proxy_main_run in Hr.
  destruct (proxy_main lib f) as [c|] eqn:Hm; [|discriminate]. inversion Hr as [Hp]. clear Hr.
  apply proxy_main_some in Hm. subst c.
  pose proof (prun_outcome_at lib (pinit (proxy_config_of_flags f)) pre raw ip post) as H.
  rewrite Hp in H. exact H.
Qed.
