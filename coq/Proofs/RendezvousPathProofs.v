(* RendezvousPathProofs.v — C11, the path clauses for ALL paths (dot and empty segments included):
   url.ResolveReference's path resolution as the rendezvous code uses it (Model/Rendezvous.v resolve_path) and
   path.Join/Clean inside amp.CacheURL (Model/CacheURL.v path_join) on arbitrary segment lists. *)
From Coq Require Import List NArith ZArith Lia Bool Arith String.
From Coq Require Import ZifyN ZifyNat ZifyBool.
From Snow Require Import Lib.Wire Lib.AmpPathUtil Model.B64Url Model.AmpPath Model.CacheURL Model.Rendezvous.
From Snow Require Import Proofs.CacheURLProofs.
Import ListNotations.
Open Scope N_scope.
Notation length := List.length.

(* ---------- split_on / join ---------- *)

Lemma split_on_aux_nonempty : forall sep l cur, split_on_aux sep l cur <> [].
Proof. intros sep. induction l as [|c l IH]; intros cur; cbn; [discriminate|]. destruct (c =? sep); [discriminate|apply IH]. Qed.

Lemma rev'_rev : forall (l : bytes), rev' l = rev l.
Proof. intros. unfold rev'. rewrite <- rev_alt. reflexivity. Qed.

Lemma join_cons : forall sep x xs, xs <> [] -> join sep (x :: xs) = x ++ sep ++ join sep xs.
Proof. intros sep x [|y ys] H; [congruence|reflexivity]. Qed.

Lemma join_split_aux : forall sep l cur, join [sep] (split_on_aux sep l cur) = rev cur ++ l.
Proof.
  intros sep. induction l as [|c l IH]; intros cur.
  - cbn. rewrite rev'_rev, app_nil_r. reflexivity.
  - cbn [split_on_aux]. destruct (c =? sep) eqn:E.
    + apply N.eqb_eq in E. subst. rewrite join_cons by apply split_on_aux_nonempty. rewrite IH, rev'_rev. reflexivity.
    + rewrite IH. cbn [rev]. rewrite <- app_assoc. reflexivity.
Qed.

Lemma join_split : forall sep l, join [sep] (split_on sep l) = l.
Proof. intros. unfold split_on. rewrite join_split_aux. reflexivity. Qed.

Lemma split_on_aux_elems : forall sep l cur e, ~ In sep cur -> In e (split_on_aux sep l cur) -> ~ In sep e.
Proof.
  intros sep. induction l as [|c l IH]; intros cur e Hc H.
  - cbn in H. destruct H as [H|[]]. subst. rewrite rev'_rev. intros X. apply in_rev in X. contradiction.
  - cbn [split_on_aux] in H. destruct (c =? sep) eqn:E.
    + destruct H as [H|H].
      * subst. rewrite rev'_rev. intros X. apply in_rev in X. contradiction.
      * apply (IH [] e); [intros []|assumption].
    + apply (IH (c :: cur) e); [|assumption]. intros [X|X]; [apply N.eqb_neq in E; congruence|contradiction].
Qed.

Lemma split_on_elems : forall sep l e, In e (split_on sep l) -> ~ In sep e.
Proof. intros sep l e H. apply (split_on_aux_elems sep l [] e); [intros []|assumption]. Qed.

Lemma split_on_cons_sep : forall sep l, split_on sep (sep :: l) = [] :: split_on sep l.
Proof. intros. change (sep :: l) with ([] ++ sep :: l). rewrite split_on_app. reflexivity. Qed.

Lemma split_join : forall sep l, l <> [] -> Forall (fun e => ~ In sep e) l -> split_on sep (join [sep] l) = l.
Proof.
  intros sep. induction l as [|x l IH]; intros Hne F; [congruence|].
  inversion F as [|? ? Hx F']; subst. destruct l as [|y l].
  - cbn. apply split_on_nosep. assumption.
  - rewrite join_cons by discriminate. cbn [app]. rewrite split_on_app, split_on_nosep by assumption.
    rewrite IH by (try discriminate; assumption). reflexivity.
Qed.

(* ---------- resolve_path ---------- *)

Definition nodot (e : bytes) : Prop := is_dot e = false /\ is_dotdot e = false.

Lemma rp_stack_nodots : forall elems st, Forall nodot elems -> rp_stack elems st = rev elems ++ st.
Proof.
  induction elems as [|e r IH]; intros st F; [reflexivity|]. inversion F as [|? ? [H1 H2] F']; subst.
  cbn [rp_stack]. rewrite H1, H2, IH by assumption. cbn [rev]. rewrite <- app_assoc. reflexivity.
Qed.

Lemma rp_stack_app : forall a b st, rp_stack (a ++ b) st = rp_stack b (rp_stack a st).
Proof.
  induction a as [|e a IH]; intros b st; [reflexivity|]. cbn [app rp_stack].
  destruct (is_dot e); [apply IH|]. destruct (is_dotdot e); apply IH.
Qed.

Lemma last_is_dots_nodot : forall a e, nodot e -> last_is_dots (a ++ [e]) = false.
Proof. intros a e [H1 H2]. unfold last_is_dots. rewrite rev_app_distr. cbn. rewrite H1, H2. reflexivity. Qed.

Lemma nodot_nil : nodot [].
Proof. split; reflexivity. Qed.

(* what the old model said, for paths without dot segments: the directory of the base path followed by the reference *)
Lemma resolve_path_nodots : forall base c ref,
  c <> SLASHC ->
  Forall nodot (split_on SLASHC (upto_last SLASHC base ++ c :: ref)) ->
  resolve_path base (c :: ref) = resolve_rel base (c :: ref).
Proof.
  intros base c ref Hc F. unfold resolve_path, resolve_rel. apply N.eqb_neq in Hc. rewrite Hc.
  set (full := upto_last SLASHC base ++ c :: ref) in *.
  assert (Hne : full <> []) by (subst full; destruct (upto_last SLASHC base); discriminate).
  destruct full as [|f0 full'] eqn:Ef; [congruence|]. rewrite <- Ef in *.
  rewrite rp_stack_nodots by assumption. rewrite app_nil_r, rev_involutive, join_split.
  assert (L : last_is_dots (split_on SLASHC full) = false).
  { destruct (exists_last (split_on_aux_nonempty SLASHC full [])) as [a [e Hs]]. fold (split_on SLASHC full) in Hs.
    rewrite Hs. apply last_is_dots_nodot. rewrite Hs in F. apply Forall_app in F. destruct F as [_ F]. inversion F; assumption. }
  rewrite L, app_nil_r. rewrite Ef. unfold lead_slash. cbn [tl]. destruct (f0 =? SLASHC); reflexivity.
Qed.

(* the stack only ever holds slash-free elements that are neither "." nor ".." *)
Definition okseg (e : bytes) : Prop := nodot e /\ ~ In SLASHC e.

Lemma rp_stack_ok : forall elems st, Forall (fun e => ~ In SLASHC e) elems -> Forall okseg st -> Forall okseg (rp_stack elems st).
Proof.
  induction elems as [|e r IH]; intros st Fe Fs; [assumption|]. inversion Fe as [|? ? He Fe']; subst. cbn [rp_stack].
  destruct (is_dot e) eqn:D1.
  - apply IH; [assumption|]. destruct st; [|assumption]. apply Forall_cons; [|apply Forall_nil]. split; [apply nodot_nil|intros []].
  - destruct (is_dotdot e) eqn:D2.
    + apply IH; [assumption|]. destruct st as [|a [|b st']]; try apply Forall_nil. inversion Fs; assumption.
    + apply IH; [assumption|]. apply Forall_cons; [|assumption]. split; [split; assumption|assumption].
Qed.

(* url.ResolveReference never leaves a dot segment in the path, whatever the base path and the reference *)
Theorem resolve_path_dotfree : forall base ref, Forall nodot (split_on SLASHC (resolve_path base ref)).
Proof.
  intros base ref. unfold resolve_path.
  set (full := match ref with [] => base | c :: _ => if c =? SLASHC then ref else upto_last SLASHC base ++ ref end).
  destruct full as [|f0 full'] eqn:Ef; [cbn; apply Forall_cons; [apply nodot_nil|apply Forall_nil]|]. rewrite <- Ef.
  set (st := rp_stack (split_on SLASHC full) []).
  assert (Fs : Forall okseg st).
  { apply rp_stack_ok; [|apply Forall_nil]. apply Forall_forall. intros e He. apply (split_on_elems _ _ _ He). }
  set (trail := if last_is_dots (split_on SLASHC full) then [SLASHC] else []).
  (* all segments of "/" ++ join (rev st) ++ trail *)
  assert (Fr : Forall nodot (split_on SLASHC (SLASHC :: join [SLASHC] (rev st) ++ trail))).
  { rewrite split_on_cons_sep. apply Forall_cons; [apply nodot_nil|].
    assert (Fj : Forall nodot (split_on SLASHC (join [SLASHC] (rev st)))).
    { destruct (rev st) as [|x xs] eqn:Er.
      - cbn. apply Forall_cons; [apply nodot_nil|apply Forall_nil].
      - rewrite split_join; [|discriminate|].
        + rewrite <- Er. apply Forall_rev. eapply Forall_impl; [|exact Fs]. intros a [H _]. exact H.
        + rewrite <- Er. apply Forall_rev. eapply Forall_impl; [|exact Fs]. intros a [_ H]. exact H. }
    subst trail. destruct (last_is_dots (split_on SLASHC full)).
    - rewrite split_on_app. apply Forall_app. split; [assumption|]. cbn. apply Forall_cons; [apply nodot_nil|apply Forall_nil].
    - rewrite app_nil_r. assumption. }
  remember (join [SLASHC] (rev st) ++ trail) as x eqn:Ex.
  destruct x as [|c1 x']; [exact Fr|].
  destruct (c1 =? SLASHC) eqn:Ec; [|exact Fr]. apply N.eqb_eq in Ec. subst c1. cbn [tl].
  rewrite split_on_cons_sep in Fr. inversion Fr; assumption.
Qed.

(* the elements of the reference are the last segments of the result when the reference has no dot segments of its own:
   nothing that follows can pop them *)
Lemma resolve_path_keeps_ref : forall base c ref,
  c <> SLASHC -> Forall nodot (split_on SLASHC (c :: ref)) ->
  exists pre, resolve_path base (c :: ref) = pre ++ SLASHC :: c :: ref.
Proof.
  intros base c ref Hc F. unfold resolve_path. apply N.eqb_neq in Hc. rewrite Hc.
  set (dir := upto_last SLASHC base).
  assert (Hdir : dir = [] \/ exists d, dir = d ++ [SLASHC]).
  { subst dir. clear. induction base as [|b base IH]; [left; reflexivity|]. cbn [upto_last].
    destruct (upto_last SLASHC base) as [|u us] eqn:E.
    - destruct (b =? SLASHC) eqn:Eb; [|left; reflexivity]. apply N.eqb_eq in Eb. subst. right. exists []. reflexivity.
    - right. destruct IH as [IH|[d Hd]]; [discriminate|]. exists (b :: d). rewrite Hd. reflexivity. }
  assert (Hne : dir ++ c :: ref <> []) by (destruct dir; discriminate).
  destruct (dir ++ c :: ref) as [|f0 full'] eqn:Ef; [congruence|]. rewrite <- Ef.
  assert (Hsplit : exists a, split_on SLASHC (dir ++ c :: ref) = a ++ split_on SLASHC (c :: ref)).
  { destruct Hdir as [->|[d ->]]; [exists []; reflexivity|]. exists (split_on SLASHC d). rewrite <- app_assoc. cbn [app]. apply split_on_app. }
  destruct Hsplit as [a Ha]. rewrite Ha. rewrite rp_stack_app. rewrite (rp_stack_nodots (split_on SLASHC (c :: ref))) by assumption.
  rewrite rev_app_distr, rev_involutive.
  assert (L : last_is_dots (a ++ split_on SLASHC (c :: ref)) = false).
  { destruct (exists_last (split_on_aux_nonempty SLASHC (c :: ref) [])) as [a' [e He]]. fold (split_on SLASHC (c :: ref)) in He.
    rewrite He, app_assoc. apply last_is_dots_nodot. rewrite He in F. apply Forall_app in F. destruct F as [_ F]. inversion F; assumption. }
  rewrite L, app_nil_r.
  set (pre := rev (rp_stack a [])).
  assert (J : join [SLASHC] (pre ++ split_on SLASHC (c :: ref)) =
              match pre with [] => c :: ref | _ => join [SLASHC] pre ++ SLASHC :: c :: ref end).
  { clearbody pre. induction pre as [|x pre IHp]; [cbn [app]; apply join_split|].
    cbn [app]. rewrite join_cons by (destruct pre; [apply split_on_aux_nonempty|discriminate]).
    rewrite IHp. destruct pre as [|y pre']; [cbn; reflexivity|]. rewrite (join_cons [SLASHC] x (y :: pre')) by discriminate.
    rewrite <- !app_assoc. reflexivity. }
  rewrite J. destruct pre as [|x pre'].
  - exists []. cbn. rewrite Hc. reflexivity.
  - destruct (join [SLASHC] (x :: pre') ++ SLASHC :: c :: ref) as [|j0 js] eqn:Ej; [destruct (join [SLASHC] (x :: pre')); discriminate|].
    destruct (j0 =? SLASHC) eqn:E0.
    + cbn [tl]. apply N.eqb_eq in E0. subst j0.
      destruct (join [SLASHC] (x :: pre')) as [|k ks] eqn:Ek.
      * cbn [app] in Ej. inversion Ej; subst. exists []. reflexivity.
      * cbn [app] in Ej. inversion Ej; subst. exists (SLASHC :: ks). reflexivity.
    + exists (SLASHC :: join [SLASHC] (x :: pre')). rewrite <- Ej. reflexivity.
Qed.

(* ---------- path.Clean / path.Join for arbitrary segments ---------- *)

Definition keep (s : bytes) : bool := nonempty s && negb (is_dot s).

Lemma clean_segs_nodotdot : forall rooted l out, Forall (fun s => is_dotdot s = false) l ->
  clean_segs rooted l out = rev out ++ filter keep l.
Proof.
  intros rooted. induction l as [|s l IH]; intros out F; [cbn; rewrite app_nil_r; reflexivity|].
  inversion F as [|? ? Hs F']; subst. cbn [clean_segs filter]. unfold keep, nonempty.
  destruct (beq s []) eqn:E0; cbn [orb negb andb]; [apply IH; assumption|].
  destruct (is_dot s) eqn:E1; cbn [negb]; [apply IH; assumption|]. rewrite Hs.
  rewrite IH by assumption. cbn [rev]. rewrite <- app_assoc. reflexivity.
Qed.

(* clean_segs returns the reversed final stack: continuing with more segments is continuing from that stack *)
Lemma clean_segs_app : forall rooted a b out, clean_segs rooted (a ++ b) out = clean_segs rooted b (rev (clean_segs rooted a out)).
Proof.
  intros rooted. induction a as [|s a IH]; intros b out; [cbn; rewrite rev_involutive; reflexivity|].
  cbn [app clean_segs]. destruct (beq s [] || is_dot s); [apply IH|].
  destruct (is_dotdot s); [|apply IH]. destruct out as [|top out']; [destruct rooted; apply IH|].
  destruct (is_dotdot top); apply IH.
Qed.

Lemma clean_segs_app_nodotdot : forall rooted a b, Forall (fun s => is_dotdot s = false) b ->
  clean_segs rooted (a ++ b) [] = clean_segs rooted a [] ++ filter keep b.
Proof. intros. rewrite clean_segs_app, clean_segs_nodotdot by assumption. rewrite rev_involutive. reflexivity. Qed.

Lemma nodot_keep_nonempty : forall l, Forall nodot l -> filter keep l = filter nonempty l.
Proof.
  induction l as [|s l IH]; intros F; [reflexivity|]. inversion F as [|? ? [H1 _] F']; subst. cbn [filter]. rewrite IH by assumption.
  unfold keep. rewrite H1. cbn [negb]. rewrite andb_true_r. reflexivity.
Qed.

(* ---------- amp.CacheURL's path for arbitrary cache and publisher paths ---------- *)

Lemma split_abs_normal : forall ms x p, Forall normal_seg ms ->
  split_on SLASHC (x ++ abs_path ms ++ SLASHC :: p) = split_on SLASHC x ++ ms ++ split_on SLASHC p.
Proof.
  induction ms as [|m ms IH]; intros x p F.
  - cbn [abs_path flat_map app]. apply split_on_app.
  - inversion F as [|? ? Hm F']; subst. change (abs_path (m :: ms)) with (SLASHC :: m ++ abs_path ms).
    cbn [app]. rewrite split_on_app. rewrite <- app_assoc. rewrite IH by assumption.
    rewrite (split_on_nosep SLASHC m) by apply Hm. reflexivity.
Qed.

Lemma normal_keep : forall ms, Forall normal_seg ms -> filter keep ms = ms.
Proof.
  induction ms as [|m ms IH]; intros F; [reflexivity|]. inversion F as [|? ? [H0 [_ [H1 _]]] F']; subst. cbn [filter].
  rewrite IH by assumption.
  unfold keep, nonempty, is_dot. rewrite beq_nil_false by assumption. rewrite (proj2 (beq_neq m [DOTC]) H1). reflexivity.
Qed.

Lemma normal_nodotdot : forall ms, Forall normal_seg ms -> Forall (fun s => is_dotdot s = false) ms.
Proof.
  intros ms F. eapply Forall_impl; [|exact F]. intros a [_ [_ [_ H]]]. unfold is_dotdot. apply beq_neq. assumption.
Qed.

Lemma middle_normal : forall pu, p_hostname pu <> [] -> p_hostname pu <> [DOTC] -> p_hostname pu <> [DOTC; DOTC] ->
  Forall normal_seg (middle pu).
Proof.
  intros pu H0 H1 H2. unfold middle. apply Forall_app. split; [apply Forall_one; apply normal_c|].
  apply Forall_app. split; [apply Forall_s_opt|apply Forall_one; apply path_escape_normal; assumption].
Qed.

(* The result path of CacheURL for ANY cache path (empty or rooted) and ANY publisher path without ".." segments:
   the cleaned cache path, then c[/s]/<host>, then the publisher path's segments except the empty and "." ones.
   Nothing else is dropped, nothing reordered. *)
Theorem cache_path_general : forall pu cu,
  (c_epath cu = [] \/ exists cp, c_epath cu = SLASHC :: cp) ->
  p_hostname pu <> [] -> p_hostname pu <> [DOTC] -> p_hostname pu <> [DOTC; DOTC] ->
  Forall (fun s => is_dotdot s = false) (split_on SLASHC (p_epath pu)) ->
  lead_slash (path_join (path_components pu cu (bs "c"%string))) =
  abs_path (clean_segs true (split_on SLASHC (c_epath cu)) [] ++ middle pu ++ filter keep (split_on SLASHC (p_epath pu))).
Proof.
  intros pu cu Hc H0 H1 H2 Fp.
  pose proof (middle_normal pu H0 H1 H2) as Fm.
  unfold path_join, path_components. rewrite path_escape_c.
  assert (NE : forallb (fun e => beq e []) ([c_epath cu; bs "c"%string] ++
              (if beq (p_scheme pu) S_HTTPS then [bs "s"%string] else []) ++ [path_escape (p_hostname pu); p_epath pu]) = false).
  { cbn [app forallb]. change (beq (bs "c"%string) []) with false. rewrite andb_false_r. reflexivity. }
  rewrite NE.
  assert (Ftail : Forall (fun s => is_dotdot s = false) (middle pu ++ split_on SLASHC (p_epath pu))).
  { apply Forall_app. split; [apply normal_nodotdot|]; assumption. }
  assert (Ktail : filter keep (middle pu ++ split_on SLASHC (p_epath pu)) = middle pu ++ filter keep (split_on SLASHC (p_epath pu))).
  { rewrite filter_app, normal_keep by assumption. reflexivity. }
  destruct Hc as [He|[cp He]]; rewrite He.
  - (* no cache path: the join starts at "c" and is unrooted *)
    change (bs "c"%string) with [99]. cbn [app join_buf]. rewrite join_buf_nonempty by discriminate. change [99] with (bs "c"%string).
    set (mid' := (if beq (p_scheme pu) S_HTTPS then [bs "s"%string] else []) ++ [path_escape (p_hostname pu)]).
    assert (Fm' : Forall normal_seg mid').
    { subst mid'. unfold middle in Fm. apply Forall_app in Fm. destruct Fm as [_ Fm]. exact Fm. }
    assert (E : bs "c"%string ++ flat_map (fun e => SLASHC :: e)
                  ((if beq (p_scheme pu) S_HTTPS then [bs "s"%string] else []) ++ [path_escape (p_hostname pu); p_epath pu])
                = bs "c"%string ++ abs_path mid' ++ SLASHC :: p_epath pu).
    { subst mid'. unfold abs_path. rewrite !flat_map_app. cbn [flat_map]. rewrite !app_nil_r. rewrite <- !app_assoc. reflexivity. }
    rewrite E. change (clean_segs true (split_on SLASHC []) []) with (@nil bytes). cbn [app].
    assert (Sp : split_on SLASHC (bs "c"%string ++ abs_path mid' ++ SLASHC :: p_epath pu) = middle pu ++ split_on SLASHC (p_epath pu)).
    { rewrite split_abs_normal by assumption. rewrite split_on_nosep by (vm_compute; intuition discriminate).
      subst mid'. unfold middle. rewrite <- !app_assoc. reflexivity. }
    unfold path_clean. change (bs "c"%string ++ abs_path mid' ++ SLASHC :: p_epath pu) with (99 :: (abs_path mid' ++ SLASHC :: p_epath pu)) in *.
    cbv iota. change (99 =? SLASHC) with false. cbv iota.
    rewrite Sp. rewrite clean_segs_nodotdot by assumption. cbn [rev app]. rewrite Ktail.
    destruct (middle pu ++ filter keep (split_on SLASHC (p_epath pu))) as [|s0 ss] eqn:Em; [unfold middle in Em; discriminate|].
    rewrite <- (slash_join_abs (s0 :: ss)) by discriminate.
    unfold lead_slash. destruct (join [SLASHC] (s0 :: ss)) as [|j0 js] eqn:Ej.
    + (* a join of non-empty first segment is non-empty *)
      exfalso. assert (s0 = bs "c"%string) by (unfold middle in Em; inversion Em; reflexivity). subst s0.
      destruct ss; cbn in Ej; discriminate.
    + assert (j0 = 99).
      { assert (s0 = bs "c"%string) by (unfold middle in Em; inversion Em; reflexivity). subst s0. destruct ss; cbn in Ej; inversion Ej; reflexivity. }
      subst j0. reflexivity.
  - (* a rooted cache path *)
    cbn [app join_buf]. rewrite join_buf_nonempty by discriminate.
    assert (EQ : (SLASHC :: cp ++ SLASHC :: bs "c"%string) ++
                 flat_map (fun e => SLASHC :: e)
                   ((if beq (p_scheme pu) S_HTTPS then [bs "s"%string] else []) ++ [path_escape (p_hostname pu); p_epath pu])
                 = (SLASHC :: cp) ++ abs_path (middle pu) ++ SLASHC :: p_epath pu).
    { unfold middle, abs_path. rewrite !flat_map_app. cbn [flat_map]. rewrite !app_nil_r. cbn [app]. rewrite <- !app_assoc. reflexivity. }
    rewrite EQ. unfold path_clean. cbn [app]. rewrite N.eqb_refl.
    change (SLASHC :: cp ++ abs_path (middle pu) ++ SLASHC :: p_epath pu) with ((SLASHC :: cp) ++ abs_path (middle pu) ++ SLASHC :: p_epath pu).
    rewrite split_abs_normal by assumption.
    rewrite clean_segs_app_nodotdot by assumption. rewrite Ktail.
    set (A := clean_segs true (split_on SLASHC (SLASHC :: cp)) []).
    rewrite slash_join_abs by (unfold middle; destruct A; discriminate).
    destruct (A ++ middle pu ++ filter keep (split_on SLASHC (p_epath pu))) as [|x xs] eqn:Ex; [unfold middle in Ex; destruct A; discriminate|].
    reflexivity.
Qed.

(* which inputs DO lose path components: a publisher path with a ".." segment, handed to the exported CacheURL directly,
   eats the host (and the content type) in front of it - the resulting cache URL names another origin path *)
Example cache_url_dotdot_loses_host :
  let pu := {| p_scheme := S_HTTPS; p_user := false; p_hostname := bs "h.example"; p_port := [];
               p_epath := bs "/../x"; p_rawquery := []; p_fragment := [] |} in
  let cu := {| c_scheme := S_HTTPS; c_user := None; c_hostname := bs "cdn.ampproject.org"; c_port := [];
               c_epath := bs "/"; c_rawquery := []; c_fragment := [] |} in
  option_map r_rawpath (cache_url (fun x => Some x) (fun x => Some x) (fun _ => []) h34_runes pu cu (bs "c")) = Some (bs "/c/s/x").
Proof. vm_compute. reflexivity. Qed.
