(* BrokerGateProofs.v — composition of the relay-pattern gate (Model/RelayCheck.v, C06) with the matching
   machine (Model/Broker.v); definitions: Model/BrokerGate.v: a poll is registered only if the gate accepts it; a rejected poll changes
   nothing, hence no entry exists for it and no client is ever handed to it. *)
From Coq Require Import List NArith ZArith Bool Arith.
From Snow Require Import Lib.Wire Model.NameMatcher Model.RelayCheck Model.JsonBoundary Model.Messages Model.Broker Model.BrokerGate
  Proofs.BrokerProofs Proofs.BrokerSteps Proofs.NameMatcherProofs.
Import ListNotations.
Open Scope N_scope.

Theorem rejected_poll_changes_nothing cfg v s sd n pt cl pat :
  broker_accepts_poll cfg pat = false ->
  gstep cfg v s (G_ProxyPoll sd n pt cl pat) = Some (s, Some RejectedPattern).
Proof. intros H. cbn [gstep]. rewrite H. reflexivity. Qed.

Theorem registered_only_if_superset cfg v s sd n pt cl pat s' :
  gstep cfg v s (G_ProxyPoll sd n pt cl pat) = Some (s', Some Registered) ->
  broker_accepts_poll cfg pat = true /\ length (entries s') = S (length (entries s)).
Proof.
  cbn [gstep]. destruct (broker_accepts_poll cfg pat); [|discriminate].
  cbn [step option_map]. intros H. injection H as <-. split; [reflexivity|]. cbn. rewrite app_length. cbn. apply Nat.add_1_r.
Qed.

(* the gated machine only ever takes steps of the matching machine, so every invariant and theorem about
   reachable states of Model/Broker.v (C02, C03, C04) holds for it *)
Theorem gstep_refines cfg v s g s' r : gstep cfg v s g = Some (s', r) ->
  s' = s \/ exists l, step v s l = Some s'.
Proof.
  destruct g as [sd n pt cl pat|l]; cbn [gstep].
  - destruct (broker_accepts_poll cfg pat).
    + destruct (step v s (L_Poll sd n pt cl)) as [s1|] eqn:E; [|discriminate]. cbn. intros H; injection H as <- _.
      right. eexists. exact E.
    + intros H; injection H as <- _. left. reflexivity.
  - destruct l; try discriminate;
    match goal with |- option_map _ (step v s ?L) = _ -> _ =>
      destruct (step v s L) as [s1|] eqn:E; [|discriminate]; cbn; intros H; injection H as <- _; right; eexists; exact E end.
Qed.

Theorem gated_inv cfg v s g s' r : Inv v s -> gstep cfg v s g = Some (s', r) -> Inv v s'.
Proof.
  intros I H. destruct (gstep_refines cfg v s g s' r H) as [->|[l Hl]]; [exact I|].
  eapply step_preserves_inv; eassumption.
Qed.

(* ================================================================== the BrokerContext as ProxyPolls sees it
   (Model/BrokerGate.v bstep / brun): request bodies through the real decoder, the three counters, the matching
   core, re-installation of the patterns. *)

(* the option handed to the gate says what the code's CheckProxyRelayPattern(relayPattern, !relayPatternSupported) says *)
Lemma poll_label_verdict cfg r :
  broker_accepts_poll cfg (poll_pattern r) = check_proxy_relay_pattern cfg (pq_pattern r) (negb (pq_aware r)).
Proof.
  unfold poll_pattern, broker_accepts_poll. destruct (pq_aware r); cbn [negb]; [reflexivity|].
  unfold check_proxy_relay_pattern. reflexivity.
Qed.

(* awareness is the presence of the field: nothing else of the request (Version in particular) enters *)
Lemma poll_pattern_is_field v :
  forall sid ver ty nat n pat q,
  unmarshal poll_req_schema v = Some [VStr sid; VStr ver; VStr ty; VStr nat; VInt n; VPtr pat] ->
  decode_proxy_poll v = Ok q -> poll_pattern q = pat.
Proof.
  intros sid ver ty nat n pat q U. unfold decode_proxy_poll. rewrite U.
  destruct (negb (major_ok ver)); [discriminate|]. destruct (beq sid []); [discriminate|].
  destruct (norm_nat nat); [|discriminate]. intros H; injection H as <-.
  unfold poll_pattern. cbn. destruct pat; reflexivity.
Qed.

Lemma gstep_poll_cases cfg v s sd n pt cl pat :
  exists s', gstep cfg v s (G_ProxyPoll sd n pt cl pat)
             = Some (s', Some (if broker_accepts_poll cfg pat then Registered else RejectedPattern))
             /\ (broker_accepts_poll cfg pat = false -> s' = s)
             /\ map e_sid (entries s') = map e_sid (entries s) ++ (if broker_accepts_poll cfg pat then [sd] else []).
Proof.
  cbn [gstep]. destruct (broker_accepts_poll cfg pat).
  - cbn [step option_map]. eexists. split; [reflexivity|]. split; [discriminate|].
    cbn [entries]. rewrite map_app. reflexivity.
  - exists s. split; [reflexivity|]. split; [reflexivity|]. rewrite app_nil_r. reflexivity.
Qed.

Lemma bstep_poll v c body c' r :
  bstep v c (B_Poll body) = Some (c', r) ->
  r = poll_verdict (b_cfg c) body /\ b_cfg c' = b_cfg c /\
  match opt_decode decode_proxy_poll body with
  | Err => c' = c
  | Ok q =>
      b_metrics c' = (if broker_accepts_poll (b_cfg c) (poll_pattern q) then (fun m => m) else bump_rejected)
                       (bump_seen (pq_aware q) (b_metrics c))
      /\ (broker_accepts_poll (b_cfg c) (poll_pattern q) = false -> b_core c' = b_core c)
      /\ map e_sid (entries (b_core c')) = map e_sid (entries (b_core c))
           ++ (if broker_accepts_poll (b_cfg c) (poll_pattern q) then [sid_tag (pq_sid q)] else [])
  end.
Proof.
  unfold bstep, poll_verdict. destruct (opt_decode decode_proxy_poll body) as [q|].
  - rewrite <- poll_label_verdict. unfold poll_label.
    destruct (gstep_poll_cases (b_cfg c) v (b_core c) (sid_tag (pq_sid q)) (natty_of (pq_nat q))
                (sid_tag (pq_type q)) (Z.to_N (pq_clients q)) (poll_pattern q)) as [s' [E [Hrej Hs]]].
    rewrite E. destruct (broker_accepts_poll (b_cfg c) (poll_pattern q));
      intros H; injection H as <- <-; cbn [b_cfg b_metrics b_core]; repeat split; assumption.
  - intros H; injection H as <- <-. repeat split.
Qed.

Lemma bstep_reply v c ev c' r : bstep v c ev = Some (c', r) -> r = breply_of (b_cfg c) ev.
Proof.
  destruct ev as [body|cfg'|l]; intros H.
  - apply bstep_poll in H. apply H.
  - cbn in H. injection H as _ <-. reflexivity.
  - cbn [bstep] in H. destruct (gstep (b_cfg c) v (b_core c) (G_Other l)) as [[core' o]|]; [|discriminate].
    injection H as _ <-. reflexivity.
Qed.

(* INVARIANT: no step other than InstallBridgeListProfile writes the two patterns *)
Lemma bstep_cfg v c ev c' r : bstep v c ev = Some (c', r) -> b_cfg c' = bcfg_after (b_cfg c) [ev].
Proof.
  destruct ev as [body|cfg'|l]; intros H.
  - apply bstep_poll in H. apply H.
  - cbn in H. injection H as <- _. reflexivity.
  - cbn [bstep] in H. destruct (gstep (b_cfg c) v (b_core c) (G_Other l)) as [[core' o]|]; [|discriminate].
    injection H as <- _. reflexivity.
Qed.

Lemma bstep_cfg_not_written v c ev c' r :
  bstep v c ev = Some (c', r) -> (forall cfg', ev <> B_Install cfg') -> b_cfg c' = b_cfg c.
Proof.
  intros H N. rewrite (bstep_cfg _ _ _ _ _ H). destruct ev; try reflexivity. exfalso. eapply N. reflexivity.
Qed.

Lemma bcfg_after_app : forall pre post cfg, bcfg_after cfg (pre ++ post) = bcfg_after (bcfg_after cfg pre) post.
Proof. induction pre as [|[b|c|l] r IH]; intros post cfg; cbn; [reflexivity| | |]; apply IH. Qed.

Lemma brun_cfg v : forall evs c c' rs, brun v c evs = Some (c', rs) -> b_cfg c' = bcfg_after (b_cfg c) evs.
Proof.
  induction evs as [|ev r IH]; intros c c' rs H; cbn [brun] in H.
  - injection H as <- _. reflexivity.
  - destruct (bstep v c ev) as [[c1 o]|] eqn:E; [|discriminate].
    destruct (brun v c1 r) as [[c2 os]|] eqn:E2; [|discriminate]. injection H as <- _.
    rewrite (IH _ _ _ E2), (bstep_cfg _ _ _ _ _ E). destruct ev; reflexivity.
Qed.

(* the replies of a run: each one is the function [breply_of] of the patterns then in force and the event *)
Fixpoint breplies (cfg : broker_cfg) (evs : list bevent) : list breply :=
  match evs with
  | [] => []
  | ev :: r => breply_of cfg ev :: breplies (bcfg_after cfg [ev]) r
  end.

Lemma brun_replies v : forall evs c c' rs, brun v c evs = Some (c', rs) -> rs = breplies (b_cfg c) evs.
Proof.
  induction evs as [|ev r IH]; intros c c' rs H; cbn [brun] in H.
  - injection H as _ <-. reflexivity.
  - destruct (bstep v c ev) as [[c1 o]|] eqn:E; [|discriminate].
    destruct (brun v c1 r) as [[c2 os]|] eqn:E2; [|discriminate]. injection H as _ <-.
    cbn [breplies]. rewrite (bstep_reply _ _ _ _ _ E), (IH _ _ _ E2), (bstep_cfg _ _ _ _ _ E). reflexivity.
Qed.

Lemma breplies_length : forall evs cfg, length (breplies cfg evs) = length evs.
Proof. induction evs as [|ev r IH]; intros cfg; cbn; [reflexivity|]. rewrite IH. reflexivity. Qed.

Lemma breplies_app : forall pre post cfg,
  breplies cfg (pre ++ post) = breplies cfg pre ++ breplies (bcfg_after cfg pre) post.
Proof.
  induction pre as [|ev r IH]; intros post cfg; cbn [app breplies bcfg_after]; [reflexivity|].
  rewrite IH. destruct ev; reflexivity.
Qed.

(* HISTORY INDEPENDENCE over the machine: whatever the context went through before (polls of any kind, bad
   requests, client offers, answers, timeouts, counters at any value), the reply to an event is the function
   [breply_of] of the event and of the patterns of the latest installation. *)
Theorem brun_reply_at v c pre ev post c' rs :
  brun v c (pre ++ ev :: post) = Some (c', rs) ->
  nth_error rs (length pre) = Some (breply_of (bcfg_after (b_cfg c) pre) ev).
Proof.
  intros H. rewrite (brun_replies _ _ _ _ _ H), breplies_app.
  rewrite nth_error_app2 by (rewrite breplies_length; apply Nat.le_refl).
  rewrite breplies_length, Nat.sub_diag. reflexivity.
Qed.

(* two contexts that agree on the installed patterns answer every continuation alike *)
Theorem brun_state_irrelevant v c1 c2 evs c1' c2' rs1 rs2 :
  b_cfg c1 = b_cfg c2 ->
  brun v c1 evs = Some (c1', rs1) -> brun v c2 evs = Some (c2', rs2) -> rs1 = rs2.
Proof.
  intros E H1 H2. rewrite (brun_replies _ _ _ _ _ H1), (brun_replies _ _ _ _ _ H2), E. reflexivity.
Qed.

(* a rejected poll and a malformed request leave the matching core exactly as it was *)
Theorem bstep_rejected_changes_nothing v c body c' r :
  bstep v c (B_Poll body) = Some (c', r) -> r <> PollReply Registered -> b_core c' = b_core c.
Proof.
  intros H N. destruct (bstep_poll _ _ _ _ _ H) as [Hr [_ Hd]]. unfold poll_verdict in Hr.
  destruct (opt_decode decode_proxy_poll body) as [q|].
  - destruct Hd as [_ [Hrej _]]. apply Hrej. rewrite <- poll_label_verdict in Hr.
    destruct (broker_accepts_poll (b_cfg c) (poll_pattern q)); [|reflexivity]. exfalso. apply N. exact Hr.
  - rewrite Hd. reflexivity.
Qed.

(* ---- entries of the matching core are created by admitted polls and by nothing else ---- *)

Lemma map_upd_sid f : (forall e, e_sid (f e) = e_sid e) ->
  forall l p, map e_sid (upd p f l) = map e_sid l.
Proof.
  intros Hf. induction l as [|x l IH]; intros [|p]; cbn [upd map]; try reflexivity.
  - rewrite Hf. reflexivity.
  - rewrite IH. reflexivity.
Qed.

Ltac sid_upd :=
  apply map_upd_sid; intros ?;
  repeat match goal with |- context [if ?b then _ else _] => destruct b end; reflexivity.

Lemma step_sids v s l s' :
  step v s l = Some s' -> (forall sd n pt cl, l <> L_Poll sd n pt cl) ->
  map e_sid (entries s') = map e_sid (entries s).
Proof.
  intros H NP. destruct l; try (exfalso; eapply NP; reflexivity); cbv beta delta [step] iota zeta in H;
  repeat match type of H with
         | context [match ?x with _ => _ end] => destruct x eqn:?; try discriminate
         end;
  injection H as <-; cbn [entries with_entries]; try reflexivity; sid_upd.
Qed.

Lemma gstep_other_sids cfg v s l s' r :
  gstep cfg v s (G_Other l) = Some (s', r) -> map e_sid (entries s') = map e_sid (entries s).
Proof.
  cbn [gstep]. destruct l;
  try discriminate;
  match goal with |- option_map _ (step v s ?L) = _ -> _ =>
    destruct (step v s L) as [s1|] eqn:E; [|discriminate]; cbn [option_map]; intros H; injection H as <- _;
    apply (step_sids _ _ _ _ E); intros; discriminate end.
Qed.

Lemma bstep_sids v c ev c' r :
  bstep v c ev = Some (c', r) ->
  map e_sid (entries (b_core c')) = map e_sid (entries (b_core c)) ++ admitted_sids (b_cfg c) [ev].
Proof.
  destruct ev as [body|cfg'|l]; intros H.
  - destruct (bstep_poll _ _ _ _ _ H) as [_ [_ Hd]]. cbn [admitted_sids].
    destruct (opt_decode decode_proxy_poll body) as [q|].
    + destruct Hd as [_ [_ Hs]]. rewrite Hs. destruct (broker_accepts_poll (b_cfg c) (poll_pattern q)); reflexivity.
    + rewrite Hd, app_nil_r. reflexivity.
  - cbn in H. injection H as <- _. cbn. rewrite app_nil_r. reflexivity.
  - cbn [bstep] in H. destruct (gstep (b_cfg c) v (b_core c) (G_Other l)) as [[core' o]|] eqn:E; [|discriminate].
    injection H as <- _. cbn [b_core admitted_sids]. rewrite app_nil_r. exact (gstep_other_sids _ _ _ _ _ _ E).
Qed.

Lemma admitted_sids_cons cfg ev r :
  admitted_sids cfg (ev :: r) = admitted_sids cfg [ev] ++ admitted_sids (bcfg_after cfg [ev]) r.
Proof.
  destruct ev as [body|c|l]; cbn [admitted_sids bcfg_after]; try reflexivity.
  destruct (opt_decode decode_proxy_poll body) as [q|]; [|reflexivity].
  destruct (broker_accepts_poll cfg (poll_pattern q)); reflexivity.
Qed.

Theorem brun_sids v : forall evs c c' rs, brun v c evs = Some (c', rs) ->
  map e_sid (entries (b_core c')) = map e_sid (entries (b_core c)) ++ admitted_sids (b_cfg c) evs.
Proof.
  induction evs as [|ev r IH]; intros c c' rs H; cbn [brun] in H.
  - injection H as <- _. cbn. rewrite app_nil_r. reflexivity.
  - destruct (bstep v c ev) as [[c1 o]|] eqn:E; [|discriminate].
    destruct (brun v c1 r) as [[c2 os]|] eqn:E2; [|discriminate]. injection H as <- _.
    rewrite (admitted_sids_cons (b_cfg c) ev r), (IH _ _ _ E2), (bstep_sids _ _ _ _ _ E), (bstep_cfg _ _ _ _ _ E), app_assoc.
    reflexivity.
Qed.

(* where an admitted sid comes from: a well-formed poll whose pattern (for a poll without the field: the presumed
   pattern) was judged a superset of the allowed pattern under the installation then in force *)
Lemma admitted_sids_sound : forall evs cfg sd, In sd (admitted_sids cfg evs) ->
  exists pre body post q, evs = pre ++ B_Poll body :: post /\ opt_decode decode_proxy_poll body = Ok q
    /\ sid_tag (pq_sid q) = sd /\ broker_accepts_poll (bcfg_after cfg pre) (poll_pattern q) = true.
Proof.
  induction evs as [|ev r IH]; intros cfg sd H; [destruct H|].
  rewrite admitted_sids_cons in H. apply in_app_or in H. destruct H as [H|H].
  - destruct ev as [body|c|l]; cbn [admitted_sids] in H; try (destruct H).
    destruct (opt_decode decode_proxy_poll body) as [q|] eqn:D; [|destruct H].
    destruct (broker_accepts_poll cfg (poll_pattern q)) eqn:A; [|destruct H].
    destruct H as [H|[]]. exists [], body, r, q. repeat split; assumption.
  - destruct (IH _ _ H) as [pre [body [post [q [-> [D [S A]]]]]]].
    exists (ev :: pre), body, post, q. repeat split; try assumption.
    change (ev :: pre) with ([ev] ++ pre). rewrite bcfg_after_app. exact A.
Qed.

(* "never gives such a proxy a client": in a broker context started with no proxies, after ANY history every
   entry of the matching core (the only place a client offer can be put: Model/Broker.v, C02) belongs to a poll
   that the gate admitted under the patterns in force when it arrived *)
Theorem brun_entries_admitted v cfg br evs c' rs :
  brun v (binit cfg br) evs = Some (c', rs) ->
  forall e, In e (entries (b_core c')) ->
  exists pre body post q, evs = pre ++ B_Poll body :: post /\ opt_decode decode_proxy_poll body = Ok q
    /\ sid_tag (pq_sid q) = e_sid e /\ broker_accepts_poll (bcfg_after cfg pre) (poll_pattern q) = true.
Proof.
  intros H e He. apply (admitted_sids_sound evs cfg). pose proof (brun_sids _ _ _ _ _ H) as S. cbn in S.
  rewrite <- S. apply in_map. exact He.
Qed.

(* the run of the machine projects onto the history-free reading (Model/RelayCheck.v broker_run): polls that
   decode, by the content of their AcceptedRelayPattern field, and re-installations *)
Lemma broker_run_app' : forall pre post cfg,
  broker_run cfg (pre ++ post) = broker_run cfg pre ++ broker_run (broker_cfg_after cfg pre) post.
Proof. induction pre as [|[pat|c] r IH]; intros post cfg; cbn; [reflexivity| |]; rewrite IH; reflexivity. Qed.

Lemma breply_abs cfg ev :
  flat_map abs_reply [breply_of cfg ev] = broker_run cfg (abs_event ev)
  /\ broker_cfg_after cfg (abs_event ev) = bcfg_after cfg [ev].
Proof.
  destruct ev as [body|c|l]; cbn [breply_of abs_event flat_map app]; try (split; reflexivity).
  unfold poll_verdict. destruct (opt_decode decode_proxy_poll body) as [q|]; [|split; reflexivity].
  rewrite <- poll_label_verdict. cbn. destruct (broker_accepts_poll cfg (poll_pattern q)); split; reflexivity.
Qed.

Theorem brun_projects_to_broker_run v : forall evs c c' rs, brun v c evs = Some (c', rs) ->
  flat_map abs_reply rs = broker_run (b_cfg c) (flat_map abs_event evs).
Proof.
  intros evs c c' rs H. rewrite (brun_replies _ _ _ _ _ H). clear H. generalize (b_cfg c). clear.
  induction evs as [|ev r IH]; intros cfg; [reflexivity|].
  cbn [breplies flat_map]. rewrite broker_run_app'. destruct (breply_abs cfg ev) as [E1 E2].
  cbn [flat_map] in E1. rewrite app_nil_r in E1. rewrite E1, E2, IH. reflexivity.
Qed.

(* polls and re-installations are always enabled (ProxyPolls never blocks before its verdict) *)
Lemma brun_polls_enabled v : forall evs c,
  forallb (fun ev => match ev with B_Core _ => false | _ => true end) evs = true ->
  exists c' rs, brun v c evs = Some (c', rs).
Proof.
  induction evs as [|ev r IH]; intros c H; [eexists; eexists; reflexivity|].
  cbn [forallb] in H. apply andb_prop in H. destruct H as [H1 H2].
  assert (exists c1 o, bstep v c ev = Some (c1, o)) as [c1 [o E]].
  { destruct ev as [body|cfg'|l]; [| eexists; eexists; reflexivity | discriminate].
    unfold bstep. destruct (opt_decode decode_proxy_poll body) as [q|]; [|eexists; eexists; reflexivity].
    unfold poll_label.
    destruct (gstep_poll_cases (b_cfg c) v (b_core c) (sid_tag (pq_sid q)) (natty_of (pq_nat q))
                (sid_tag (pq_type q)) (Z.to_N (pq_clients q)) (poll_pattern q)) as [s' [E _]].
    rewrite E. destruct (broker_accepts_poll (b_cfg c) (poll_pattern q)); eexists; eexists; reflexivity. }
  destruct (IH c1 H2) as [c2 [os E2]]. cbn [brun]. rewrite E, E2. eexists; eexists; reflexivity.
Qed.
