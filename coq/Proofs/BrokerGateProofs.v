(* BrokerGateProofs.v — composition of the relay-pattern gate (Model/RelayCheck.v, C06) with the matching
   machine (Model/Broker.v): a poll is registered only if the gate accepts it; a rejected poll changes
   nothing, hence no entry exists for it and no client is ever handed to it. *)
From Coq Require Import List NArith ZArith Bool Arith.
From Snow Require Import Lib.Wire Model.NameMatcher Model.RelayCheck Model.Broker Proofs.BrokerProofs Proofs.BrokerSteps Proofs.NameMatcherProofs.
Import ListNotations.
Open Scope N_scope.

(* labels of the gated machine: a proxy poll carries its AcceptedRelayPattern field (None = legacy poll) *)
Inductive glabel :=
| G_ProxyPoll (s : sid) (n : natty) (pt cl : N) (pat : option bytes)
| G_Other (l : label).

Inductive poll_reply := Registered | RejectedPattern.

Definition gstep (cfg : broker_cfg) (v : version) (s : state) (g : glabel) : option (state * option poll_reply) :=
  match g with
  | G_ProxyPoll sd n pt cl pat =>
      if broker_accepts_poll cfg pat
      then option_map (fun s' => (s', Some Registered)) (step v s (L_Poll sd n pt cl))
      else Some (s, Some RejectedPattern)
  | G_Other (L_Poll _ _ _ _) => None           (* polls only enter through the gate *)
  | G_Other l => option_map (fun s' => (s', None)) (step v s l)
  end.

Theorem rejected_poll_changes_nothing cfg v s sd n pt cl pat :
  broker_accepts_poll cfg pat = false ->
  gstep cfg v s (G_ProxyPoll sd n pt cl pat) = Some (s, Some RejectedPattern).
Proof. intros H. cbn [gstep]. rewrite H. reflexivity. Qed.

Theorem registered_only_if_superset cfg v s sd n pt cl pat s' :
  gstep cfg v s (G_ProxyPoll sd n pt cl pat) = Some (s', Some Registered) ->
  broker_accepts_poll cfg pat = true /\ length (entries s') = S (length (entries s)).
Proof.
  cbn [gstep]. destruct (broker_accepts_poll cfg pat); [|discriminate].
  cbn [step option_map]. intros H. injection H as <-. split; [reflexivity|]. cbn. rewrite app_length. cbn. apply Nat.add_1_r.
Qed.

(* the gated machine only ever takes steps of the matching machine, so every invariant and theorem about
   reachable states of Model/Broker.v (C02, C03, C04) holds for it *)
Theorem gstep_refines cfg v s g s' r : gstep cfg v s g = Some (s', r) ->
  s' = s \/ exists l, step v s l = Some s'.
Proof.
  destruct g as [sd n pt cl pat|l]; cbn [gstep].
  - destruct (broker_accepts_poll cfg pat).
    + destruct (step v s (L_Poll sd n pt cl)) as [s1|] eqn:E; [|discriminate]. cbn. intros H; injection H as <- _.
      right. eexists. exact E.
    + intros H; injection H as <- _. left. reflexivity.
  - destruct l; try discriminate;
    match goal with |- option_map _ (step v s ?L) = _ -> _ =>
      destruct (step v s L) as [s1|] eqn:E; [|discriminate]; cbn; intros H; injection H as <- _; right; eexists; exact E end.
Qed.

Theorem gated_inv cfg v s g s' r : Inv v s -> gstep cfg v s g = Some (s', r) -> Inv v s'.
Proof.
  intros I H. destruct (gstep_refines cfg v s g s' r H) as [->|[l Hl]]; [exact I|].
  eapply step_preserves_inv; eassumption.
Qed.
