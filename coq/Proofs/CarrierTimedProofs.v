(* CarrierTimedProofs.v — Model/CarrierTimed.v, part 1:
   (A) the KCP listener's view: whatever else is read, the datagrams read under ONE ClientID with ONE conversation id
       make exactly one accepted connection, which is input all of them in order;
   (B) time does not touch the upstream side: the timed server is simulated, on the carriers' upstream view, the
       receive queue and what KCP reads, by the untimed [srun] on the schedule [untimes] (the same arrivals and
       closes, plus a close wherever a write loop ended because its queue had expired or WriteData failed), so every
       upstream theorem of C05 (tagging, fragmentation independence, per-carrier decoding, in-order merge) holds for it. *)
From Coq Require Import List NArith ZArith Bool Arith Lia.
From Snow Require Import Lib.Wire Model.Encap Proofs.EncapSweep Proofs.EncapProofs Model.CarrierLayer
  Proofs.CarrierProofs Proofs.CarrierOnceProofs Proofs.CarrierFragProofs Proofs.CarrierMultiProofs
  Model.GoHeap Model.ClientMap Model.CarrierTimed.
Import ListNotations.
Open Scope N_scope.

(* ================================================================ (A) the listener's view *)

Definition dgram (x : bytes * bytes) : bytes := firstn MTU_LIMIT (fst x).
Definition long_enough (x : bytes * bytes) : bool := negb (length (dgram x) <? IKCP_OVERHEAD)%nat.
Definition of_key (key : bytes) (s : lsess) : bool := beq (l_key s) key.
Definition from_key (key : bytes) (x : bytes * bytes) : bool := (beq (snd x) key && long_enough x)%bool.

Definition one_session (key : bytes) (conv : N) (ds : list bytes) : list lsess :=
  match ds with [] => [] | _ => [{| l_key := key; l_conv := conv; l_in := ds; l_live := true |}] end.

Lemma beq_sym' a b : beq a b = beq b a.
Proof. apply beq_sym. Qed.

Lemma l_input_other key cs d : forall ss key', beq key' key = false ->
  filter (of_key key') (fst (l_input key cs d ss)) = filter (of_key key') ss.
Proof.
  induction ss as [|s r IH]; intros key' Hne; cbn [l_input]; [reflexivity|].
  destruct (l_live s && beq (l_key s) key)%bool eqn:E.
  - apply andb_prop in E. destruct E as [_ E]. apply beq_true_eq in E.
    assert (Hk : beq (l_key s) key' = false) by (rewrite E, beq_sym; exact Hne).
    destruct cs as [[conv sn]|]; [destruct (conv =? l_conv s); [|destruct (sn =? 0)]|];
      cbn [fst filter]; unfold of_key; cbn [l_key]; rewrite ?Hk; reflexivity.
  - specialize (IH key' Hne). destruct (l_input key cs d r) as [r' h]. cbn [fst] in *. cbn [filter].
    rewrite IH. reflexivity.
Qed.

Lemma l_step_other ss x key : beq key (snd x) = false ->
  filter (of_key key) (l_step ss x) = filter (of_key key) ss.
Proof.
  intros Hne. unfold l_step. destruct (length (firstn MTU_LIMIT (fst x)) <? IKCP_OVERHEAD)%nat; [reflexivity|].
  pose proof (l_input_other (snd x) (conv_sn (firstn MTU_LIMIT (fst x))) (firstn MTU_LIMIT (fst x)) ss key Hne) as H.
  destruct (l_input (snd x) (conv_sn (firstn MTU_LIMIT (fst x))) (firstn MTU_LIMIT (fst x)) ss) as [ss' h]. cbn [fst] in H.
  destruct h as [[|]|]; try exact H;
    (destruct (conv_sn (firstn MTU_LIMIT (fst x))) as [[conv sn]|]; [|exact H];
     rewrite filter_app, H; cbn [filter]; unfold of_key at 2; cbn [l_key]; rewrite beq_sym, Hne; apply app_nil_r).
Qed.

(* no session of this key at all *)
Lemma l_input_absent key cs d : forall ss, filter (of_key key) ss = [] -> l_input key cs d ss = (ss, None).
Proof.
  induction ss as [|s r IH]; intros H; cbn [l_input]; [reflexivity|].
  cbn [filter] in H. unfold of_key at 1 in H. destruct (beq (l_key s) key) eqn:E; [discriminate|].
  rewrite andb_false_r. rewrite (IH H). reflexivity.
Qed.

(* exactly one session of this key, live, with this conversation id *)
Lemma l_input_present key conv sn d ds : forall ss,
  filter (of_key key) ss = [{| l_key := key; l_conv := conv; l_in := ds; l_live := true |}] ->
  exists ss', l_input key (Some (conv, sn)) d ss = (ss', Some true) /\
              filter (of_key key) ss' = [{| l_key := key; l_conv := conv; l_in := ds ++ [d]; l_live := true |}].
Proof.
  induction ss as [|s r IH]; intros H; [discriminate|]. cbn [l_input]. cbn [filter] in H. unfold of_key at 1 in H.
  destruct (beq (l_key s) key) eqn:E.
  - injection H as Hs Hr. subst s. cbn [l_live l_key l_conv l_in]. cbn [andb]. rewrite N.eqb_refl.
    eexists. split; [reflexivity|]. cbn [filter]. unfold of_key at 1. cbn [l_key]. rewrite beq_refl, Hr. reflexivity.
  - rewrite andb_false_r. destruct (IH H) as [r' [Hi Hf]]. rewrite Hi. eexists. split; [reflexivity|].
    cbn [filter]. unfold of_key at 1. rewrite E. exact Hf.
Qed.

Lemma l_step_key ss x key conv ds :
  beq (snd x) key = true -> long_enough x = true ->
  (exists sn, conv_sn (dgram x) = Some (conv, sn)) ->
  filter (of_key key) ss = one_session key conv ds ->
  filter (of_key key) (l_step ss x) = one_session key conv (ds ++ [dgram x]).
Proof.
  intros Hk Hl [sn Hc] Hss. apply beq_true_eq in Hk. unfold l_step. fold (dgram x).
  unfold long_enough in Hl. apply negb_true_iff in Hl. rewrite Hl, Hc, Hk.
  destruct ds as [|d0 ds].
  - cbn [one_session] in Hss. rewrite (l_input_absent key _ _ ss Hss).
    rewrite filter_app, Hss. cbn [filter app]. unfold of_key. cbn [l_key]. rewrite beq_refl. reflexivity.
  - cbn [one_session] in Hss. destruct (l_input_present key conv sn (dgram x) (d0 :: ds) ss Hss) as [ss' [Hi Hf]].
    rewrite Hi. rewrite Hf. reflexivity.
Qed.

Lemma l_step_short ss x : long_enough x = false -> l_step ss x = ss.
Proof. intros H. unfold l_step. fold (dgram x). unfold long_enough in H. apply negb_false_iff in H. rewrite H. reflexivity. Qed.

(* Theorem (one accepted connection). Whatever the listener reads — datagrams of any number of other ClientIDs, short
   ones, in any interleaving — if the datagrams read under ClientID [key] that are long enough to be looked at all carry
   the conversation id [conv], then the listener has accepted for [key] exactly one connection when there is such a
   datagram (none otherwise), it is live, and its KCP was input exactly those datagrams, in the order they were read. *)
Theorem one_accepted_connection : forall key conv read,
  (forall x, In x read -> from_key key x = true -> exists sn, conv_sn (dgram x) = Some (conv, sn)) ->
  filter (of_key key) (listener_view read) = one_session key conv (map dgram (filter (from_key key) read)).
Proof.
  intros key conv read. unfold listener_view.
  assert (G : forall ss ds, filter (of_key key) ss = one_session key conv ds ->
    (forall x, In x read -> from_key key x = true -> exists sn, conv_sn (dgram x) = Some (conv, sn)) ->
    filter (of_key key) (fold_left l_step read ss) = one_session key conv (ds ++ map dgram (filter (from_key key) read))).
  { induction read as [|x read IH]; intros ss ds Hss Hc; cbn [fold_left filter map]; [rewrite app_nil_r; exact Hss|].
    assert (Hc' : forall y, In y read -> from_key key y = true -> exists sn, conv_sn (dgram y) = Some (conv, sn))
      by (intros y Hy; apply Hc; right; exact Hy).
    destruct (from_key key x) eqn:Ef.
    - cbn [map]. replace (ds ++ dgram x :: map dgram (filter (from_key key) read))
        with ((ds ++ [dgram x]) ++ map dgram (filter (from_key key) read)) by (rewrite <- app_assoc; reflexivity).
      apply IH; [|exact Hc']. unfold from_key in Ef. apply andb_prop in Ef. destruct Ef as [E1 E2].
      apply l_step_key; try assumption. apply Hc; [left; reflexivity|]. unfold from_key. rewrite E1, E2. reflexivity.
    - apply IH; [|exact Hc']. unfold from_key in Ef. apply andb_false_iff in Ef. destruct Ef as [E|E].
      + rewrite l_step_other by (rewrite beq_sym; exact E). exact Hss.
      + rewrite l_step_short by exact E. exact Hss. }
  intros Hc. apply (G [] []); [reflexivity | exact Hc].
Qed.

(* ---- the same-conversation premise of [one_accepted_connection] cannot be dropped ----
   A datagram under the same ClientID with ANOTHER conversation id and sn = 0 makes kcp-go's listener close the session
   it has for that ClientID and accept a second one (Listener.packetInput: `else if sn == 0 { s.Close(); s = nil }`, then
   the "new session" branch).  So the premise is not an artefact of the proof: one ClientID carrying two conversations is
   two accepted connections, the first of them closed. *)

(* exactly one session of this key, live, with ANOTHER conversation id, and the datagram starts a conversation (sn = 0):
   the session is closed, to be replaced *)
Lemma l_input_replace key conv conv2 d ds : forall ss,
  conv2 <> conv ->
  filter (of_key key) ss = [{| l_key := key; l_conv := conv; l_in := ds; l_live := true |}] ->
  exists ss', l_input key (Some (conv2, 0)) d ss = (ss', Some false) /\
              filter (of_key key) ss' = [{| l_key := key; l_conv := conv; l_in := ds; l_live := false |}].
Proof.
  intros ss Hne. induction ss as [|s r IH]; intros H; [discriminate|]. cbn [l_input]. cbn [filter] in H. unfold of_key at 1 in H.
  destruct (beq (l_key s) key) eqn:E.
  - injection H as Hs Hr. subst s. cbn [l_live l_key l_conv l_in]. cbn [andb].
    apply N.eqb_neq in Hne. rewrite Hne. cbn [N.eqb].
    eexists. split; [reflexivity|]. cbn [filter]. unfold of_key at 1. cbn [l_key]. rewrite beq_refl, Hr. reflexivity.
  - rewrite andb_false_r. destruct (IH H) as [r' [Hi Hf]]. rewrite Hi. eexists. split; [reflexivity|].
    cbn [filter]. unfold of_key at 1. rewrite E. exact Hf.
Qed.

Lemma listener_view_snoc read x : listener_view (read ++ [x]) = l_step (listener_view read) x.
Proof. unfold listener_view. rewrite fold_left_app. reflexivity. Qed.

(* Theorem (two conversations, two connections). Take ANY read history that satisfies the premise of
   [one_accepted_connection] for [key] and [conv] and contains at least one datagram of [key] that is looked at; let one
   more datagram arrive under the same ClientID with a different conversation id and sn = 0. Then the listener has
   accepted TWO connections for [key]: the first, with everything read so far, is closed; the second is live and was
   input the new datagram. *)
Theorem second_conv_second_connection : forall key conv conv2 read x2,
  (forall x, In x read -> from_key key x = true -> exists sn, conv_sn (dgram x) = Some (conv, sn)) ->
  filter (from_key key) read <> [] ->
  snd x2 = key -> long_enough x2 = true -> conv_sn (dgram x2) = Some (conv2, 0) -> conv2 <> conv ->
  filter (of_key key) (listener_view (read ++ [x2])) =
    [{| l_key := key; l_conv := conv; l_in := map dgram (filter (from_key key) read); l_live := false |};
     {| l_key := key; l_conv := conv2; l_in := [dgram x2]; l_live := true |}].
Proof.
  intros key conv conv2 read x2 Hc Hne Hk Hl Hc2 Hdiff.
  pose proof (one_accepted_connection key conv read Hc) as H1.
  rewrite listener_view_snoc. set (ss := listener_view read) in *.
  destruct (map dgram (filter (from_key key) read)) as [|d0 ds] eqn:Eds.
  { exfalso. apply Hne. destruct (filter (from_key key) read); [reflexivity|discriminate]. }
  cbn [one_session] in H1.
  destruct (l_input_replace key conv conv2 (dgram x2) (d0 :: ds) ss Hdiff H1) as [ss' [Hi Hf]].
  unfold l_step. fold (dgram x2). unfold long_enough in Hl. apply negb_true_iff in Hl. rewrite Hl, Hc2, Hk, Hi.
  rewrite filter_app, Hf. cbn [filter app]. unfold of_key. cbn [l_key]. rewrite beq_refl. reflexivity.
Qed.

(* ... hence the conclusion of [one_accepted_connection] fails for such a history, whatever conversation id one names *)
Corollary second_conv_not_one_connection : forall key conv conv2 read x2 conv',
  (forall x, In x read -> from_key key x = true -> exists sn, conv_sn (dgram x) = Some (conv, sn)) ->
  filter (from_key key) read <> [] ->
  snd x2 = key -> long_enough x2 = true -> conv_sn (dgram x2) = Some (conv2, 0) -> conv2 <> conv ->
  filter (of_key key) (listener_view (read ++ [x2])) <>
    one_session key conv' (map dgram (filter (from_key key) (read ++ [x2]))).
Proof.
  intros key conv conv2 read x2 conv' Hc Hne Hk Hl Hc2 Hdiff.
  rewrite (second_conv_second_connection key conv conv2 read x2 Hc Hne Hk Hl Hc2 Hdiff).
  unfold one_session. destruct (map dgram (filter (from_key key) (read ++ [x2]))); discriminate.
Qed.

(* ================================================================ (B) upstream does not depend on time *)

Section Sim.
  Variable timeout : Z.

  Definition alive_at (cs : list carrier) (i : nat) : bool :=
    match nth_error cs i with Some k => match k_state k with K_Dead => false | _ => true end | None => false end.

  (* the untimed operations with the same effect on the upstream side *)
  Definition untime1 (t : tstate) (o : top) : list sop :=
    match o with
    | T_New => [S_New]
    | T_Recv i b _ => [S_Recv i b]
    | T_Close i => [S_Close i]
    | T_ReadFrom => [S_ReadFrom]
    | T_WriteTo _ _ _ | T_Sweep _ => []
    | T_Send i _ => if (alive_at (tcar t) i && negb (alive_at (tcar (tstep timeout t o)) i))%bool then [S_Close i] else []
    end.

  Fixpoint untimes (t : tstate) (ops : list top) : list sop :=
    match ops with
    | [] => []
    | o :: r => untime1 t o ++ untimes (tstep timeout t o) r
    end.

  Definition usim (t : tstate) (s : sstate) : Prop :=
    map strip (tcar t) = map strip (carriers s) /\ trecvq t = recvq s /\ tdelivered t = delivered s.

  Lemma map_strip_kupd f g : (forall k, strip (f k) = g (strip k)) ->
    forall l i, map strip (kupd i f l) = kupd i g (map strip l).
  Proof.
    intros H. induction l as [|x l IH]; intros [|i]; cbn [kupd map]; try reflexivity.
    - rewrite H. reflexivity.
    - rewrite IH. reflexivity.
  Qed.

  Lemma cons_inj {A} (a b : A) l l' : a :: l = b :: l' -> a = b /\ l = l'.
  Proof. intros H. split; [exact (f_equal (hd a) H) | exact (f_equal (@tl _) H)]. Qed.

  Lemma nth_strip l1 l2 i k1 : map strip l1 = map strip l2 -> nth_error l1 i = Some k1 ->
    exists k2, nth_error l2 i = Some k2 /\ strip k1 = strip k2.
  Proof.
    revert l2 i. induction l1 as [|x l1 IH]; intros [|y l2] [|i] H Hn; cbn in *; try discriminate.
    - injection Hn as <-. apply cons_inj in H. destruct H as [H _]. exists y. split; [reflexivity | exact H].
    - apply cons_inj in H. destruct H as [_ H]. apply (IH l2 i H Hn).
  Qed.

  Lemma nth_strip_none l1 l2 i : map strip l1 = map strip l2 -> nth_error l1 i = None -> nth_error l2 i = None.
  Proof.
    intros H Hn. apply nth_error_None. apply nth_error_None in Hn.
    rewrite <- (map_length strip l2), <- H, map_length. exact Hn.
  Qed.

  Lemma kupd_same_strip k' k'' : strip k' = strip k'' -> forall l1 l2 i, map strip l1 = map strip l2 ->
    map strip (kupd i (fun _ => k') l1) = map strip (kupd i (fun _ => k'') l2).
  Proof.
    intros Hk. induction l1 as [|x l1 IH]; intros [|y l2] [|i] H; cbn in *; try discriminate; try reflexivity.
    - apply cons_inj in H. destruct H as [_ H]. rewrite Hk, H. reflexivity.
    - apply cons_inj in H. destruct H as [H0 H]. rewrite H0, (IH l2 i H). reflexivity.
  Qed.

  Lemma kupd_kill_strip : forall l1 l2 i, map strip l1 = map strip l2 -> map strip (kupd i kill l1) = map strip (kupd i kill l2).
  Proof.
    induction l1 as [|x l1 IH]; intros [|y l2] [|i] H; cbn in *; try discriminate; try reflexivity.
    - apply cons_inj in H. destruct H as [H0 H]. rewrite !strip_kill, H0, H. reflexivity.
    - apply cons_inj in H. destruct H as [H0 H]. rewrite H0, (IH l2 i H). reflexivity.
  Qed.

  Lemma alive_strip l1 l2 i : map strip l1 = map strip l2 -> alive_at l1 i = alive_at l2 i.
  Proof.
    intros H. unfold alive_at. destruct (nth_error l1 i) as [k1|] eqn:E1.
    - destruct (nth_strip _ _ _ _ H E1) as [k2 [E2 Hs]]. rewrite E2.
      destruct (strip_fields _ _ Hs) as [-> _]. reflexivity.
    - rewrite (nth_strip_none _ _ _ H E1). reflexivity.
  Qed.

  (* the receive step on two carriers with the same upstream view *)
  Lemma pump_same_strip f k1 k2 : strip k1 = strip k2 ->
    strip (fst (pump f k1)) = strip (fst (pump f k2)) /\ snd (pump f k1) = snd (pump f k2).
  Proof.
    intros H. pose proof (pump_strip f k1) as A. pose proof (pump_strip f k2) as B. rewrite H in A. rewrite A in B.
    split; [exact (f_equal fst B) | exact (f_equal snd B)].
  Qed.

  Lemma with_buf_strip x k : strip (with_buf x k) = with_buf x (strip k).
  Proof. reflexivity. Qed.

  Lemma tstep_recv_view t i b now k : nth_error (tcar t) i = Some k -> k_state k <> K_Dead ->
    let kp := pump (S (S (S (length (k_buf k) + length b)))) (with_buf (k_buf k ++ b) k) in
    tcar (tstep timeout t (T_Recv i b now)) = kupd i (fun _ => fst kp) (tcar t) /\
    trecvq (tstep timeout t (T_Recv i b now)) = enqueue_all (k_cid (fst kp)) (snd kp) (trecvq t) /\
    tdelivered (tstep timeout t (T_Recv i b now)) = tdelivered t.
  Proof.
    intros Hk Hal. cbn zeta. cbn [tstep]. rewrite Hk.
    destruct (pump (S (S (S (length (k_buf k) + length b)))) (with_buf (k_buf k ++ b) k)) as [k' ps]. cbn [fst snd].
    destruct (k_state k); try congruence;
      (destruct (pre_openb k && entered k')%bool;
       [destruct (send_queue (cid_key (k_cid k')) now (tcm t)) as [cm' q] | ]; cbn; repeat split).
  Qed.

  Lemma sstep_recv_view s i b k : nth_error (carriers s) i = Some k -> k_state k <> K_Dead ->
    let kp := pump (S (S (S (length (k_buf k) + length b)))) (with_buf (k_buf k ++ b) k) in
    carriers (sstep s (S_Recv i b)) = kupd i (fun _ => fst kp) (carriers s) /\
    recvq (sstep s (S_Recv i b)) = enqueue_all (k_cid (fst kp)) (snd kp) (recvq s) /\
    delivered (sstep s (S_Recv i b)) = delivered s.
  Proof.
    intros Hk Hal. cbn zeta. cbn [sstep]. rewrite Hk.
    destruct (pump (S (S (S (length (k_buf k) + length b)))) (with_buf (k_buf k ++ b) k)) as [k' ps]. cbn [fst snd].
    destruct (k_state k); try congruence; cbn; repeat split.
  Qed.

  Lemma tstep_sim t s o : usim t s -> usim (tstep timeout t o) (fold_left sstep (untime1 t o) s).
  Proof.
    intros [Hc [Hq Hd]]. destruct o; cbn [untime1 fold_left].
    - (* new *) cbn [tstep sstep]. unfold usim. cbn. rewrite !map_app, Hc. repeat split; assumption.
    - (* recv *) destruct (nth_error (tcar t) i) as [k|] eqn:Hk.
      2:{ cbn [tstep sstep]. rewrite Hk, (nth_strip_none _ _ _ Hc Hk). repeat split; assumption. }
      destruct (nth_strip _ _ _ _ Hc Hk) as [k2 [Hk2 Hs]].
      destruct (strip_fields _ _ Hs) as [Hst [_ [Hbuf _]]].
      destruct (k_state k) eqn:Es.
      4:{ cbn [tstep sstep]. rewrite Hk, Hk2, <- Hst, Es. repeat split; assumption. }
      all: (assert (Hal : k_state k <> K_Dead) by congruence;
            assert (Hal2 : k_state k2 <> K_Dead) by congruence;
            destruct (tstep_recv_view t i b now k Hk Hal) as [T1 [T2 T3]];
            destruct (sstep_recv_view s i b k2 Hk2 Hal2) as [S1 [S2 S3]];
            rewrite <- Hbuf in S1, S2;
            assert (Hsw : strip (with_buf (k_buf k ++ b) k) = strip (with_buf (k_buf k ++ b) k2))
              by (rewrite !with_buf_strip, Hs; reflexivity);
            destruct (pump_same_strip (S (S (S (length (k_buf k) + length b)))) _ _ Hsw) as [P1 P2];
            destruct (strip_fields _ _ P1) as [_ [Hcid _]];
            unfold usim; rewrite T1, T2, T3, S1, S2, S3;
            split; [apply kupd_same_strip; assumption|]; split; [rewrite Hcid, P2, Hq; reflexivity | exact Hd]).
    - (* close *) cbn [tstep sstep]. unfold usim. cbn. split; [apply kupd_kill_strip; exact Hc|]. split; assumption.
    - (* writeto *) cbn [tstep]. destruct (send_queue (cid_key cid) now (tcm t)) as [c1 q].
      destruct (q_send QUEUE_SIZE q p c1) as [c2 ok]. repeat split; assumption.
    - (* send *)
      assert (Hnochange : forall t', tcar t' = tcar t -> trecvq t' = trecvq t -> tdelivered t' = tdelivered t ->
                usim t' (fold_left sstep (if (alive_at (tcar t) i && negb (alive_at (tcar t') i))%bool then [S_Close i] else []) s)).
      { intros t' E1 E2 E3. rewrite E1. destruct (alive_at (tcar t) i); cbn [andb negb fold_left]; unfold usim; rewrite E1, E2, E3;
          repeat split; assumption. }
      assert (Hkill : forall t' k, nth_error (tcar t) i = Some k -> k_state k = K_Open ->
                tcar t' = kupd i kill (tcar t) -> trecvq t' = trecvq t -> tdelivered t' = tdelivered t ->
                usim t' (fold_left sstep (if (alive_at (tcar t) i && negb (alive_at (tcar t') i))%bool then [S_Close i] else []) s)).
      { intros t' k Hk Es E1 E2 E3.
        assert (A1 : alive_at (tcar t) i = true) by (unfold alive_at; rewrite Hk, Es; reflexivity).
        assert (A2 : alive_at (tcar t') i = false) by (unfold alive_at; rewrite E1, (knth_upd_eq _ _ _ _ Hk); reflexivity).
        rewrite A1, A2. cbn [andb negb fold_left sstep]. unfold usim. cbn [carriers recvq delivered]. rewrite E1, E2, E3.
        split; [apply kupd_kill_strip; exact Hc|]. split; assumption. }
      cbn [tstep] in *. destruct (nth_error (tcar t) i) as [k|] eqn:Hk; [|apply Hnochange; reflexivity].
      destruct (nth_error (theld t) i) as [[q|]|]; try (apply Hnochange; reflexivity).
      destruct (k_state k) eqn:Es; try (apply Hnochange; reflexivity).
      destruct (q_recv q (tcm t)) as [c1 r]. destruct r as [p| |].
      + destruct (write_data p) as [w|].
        * destruct (send_queue (cid_key (k_cid k)) now c1) as [c2 q'].
          assert (A1 : alive_at (tcar t) i = true) by (unfold alive_at; rewrite Hk, Es; reflexivity).
          match goal with |- usim ?T _ => assert (A2 : alive_at (tcar T) i = true) end.
          { unfold alive_at. cbn [tcar]. rewrite (knth_upd_eq _ _ _ _ Hk). reflexivity. }
          rewrite A1, A2. cbn [andb negb fold_left]. unfold usim. cbn [tcar trecvq tdelivered].
          split; [|split; assumption]. rewrite <- Hc. clear - Hk Es.
          revert i Hk. induction (tcar t) as [|x l IH]; intros [|i] Hk; cbn in *; try discriminate.
          -- injection Hk as ->. unfold strip at 1. cbn. unfold strip. rewrite Es. reflexivity.
          -- rewrite (IH i Hk). reflexivity.
        * apply (Hkill _ k eq_refl Es); reflexivity.
      + apply Hnochange; reflexivity.
      + apply (Hkill _ k eq_refl Es); reflexivity.
    - (* readfrom *) cbn [tstep sstep]. rewrite <- Hq. destruct (trecvq t) as [|x q'] eqn:Et.
      + unfold usim. rewrite Et. repeat split; assumption.
      + unfold usim. cbn. rewrite Hd. repeat split; assumption.
    - (* sweep *) cbn [tstep]. repeat split; assumption.
  Qed.

  Lemma tsim_run : forall ops t s, usim t s ->
    usim (fold_left (tstep timeout) ops t) (fold_left sstep (untimes t ops) s).
  Proof.
    induction ops as [|o ops IH]; intros t s H; cbn [fold_left untimes]; [exact H|].
    rewrite fold_left_app. apply IH. apply tstep_sim. exact H.
  Qed.

  (* Theorem: upstream, the timed server IS the untimed server on the schedule [untimes]. *)
  Theorem trun_upstream_is_srun : forall ops,
    usim (trun timeout ops) (srun (untimes tinit ops)).
  Proof. intros ops. apply tsim_run. repeat split. Qed.
End Sim.
