(* AmpPathProofs.v — proofs about Model/B64Url.v and Model/AmpPath.v (C11, path part). *)
From Coq Require Import List NArith ZArith Lia Bool Arith.
From Coq Require Import ZifyN ZifyNat ZifyBool.
From Snow Require Import Lib.Wire Model.B64Url Model.AmpPath.
Import ListNotations.
Open Scope N_scope.
Ltac Zify.zify_post_hook ::= Z.div_mod_to_equations.

Definition wf_bytes (l : bytes) : Prop := Forall (fun b => b < 256) l.

(* ---------- characters ---------- *)

Lemma u_dec_enc_char : forall v, v < 64 -> u_dec_char (u_enc_char v) = Some v.
Proof.
  intros v Hv. unfold u_enc_char.
  destruct (v <? 26) eqn:E1; [|destruct (v <? 52) eqn:E2; [|destruct (v <? 62) eqn:E3; [|destruct (v =? 62) eqn:E4]]];
    unfold u_dec_char;
    repeat match goal with |- context[if ?b then _ else _] => let E := fresh "E" in destruct b eqn:E end;
    try (f_equal; lia); try (exfalso; lia).
Qed.

Lemma u_enc_char_in_alphabet : forall v, u_dec_char (u_enc_char v) <> None.
Proof.
  intros v. unfold u_enc_char.
  destruct (v <? 26) eqn:E1; [|destruct (v <? 52) eqn:E2; [|destruct (v <? 62) eqn:E3; [|destruct (v =? 62) eqn:E4]]];
    unfold u_dec_char;
    repeat match goal with |- context[if ?b then _ else _] => let E := fresh "E" in destruct b eqn:E end;
    try discriminate; exfalso; lia.
Qed.

Definition in_alphabet (c : N) : Prop := u_dec_char c <> None.

Lemma slash_not_in_alphabet : ~ in_alphabet 47.
Proof. unfold in_alphabet. vm_compute. congruence. Qed.
Lemma nl_not_in_alphabet : forall c, is_nl c = true -> ~ in_alphabet c.
Proof.
  intros c H. unfold is_nl in H. apply orb_true_iff in H. destruct H as [H|H]; apply N.eqb_eq in H; subst;
    unfold in_alphabet; vm_compute; congruence.
Qed.

(* ---------- three-at-a-time / four-at-a-time induction ---------- *)

Lemma list_ind3 (A : Type) (P : list A -> Prop) :
  P [] -> (forall a, P [a]) -> (forall a b, P [a; b]) ->
  (forall a b c r, P r -> P (a :: b :: c :: r)) -> forall l, P l.
Proof.
  intros H0 H1 H2 H3.
  assert (H : forall l, P l /\ (forall a, P (a :: l)) /\ (forall a b, P (a :: b :: l))).
  { induction l as [|x l [IH0 [IH1 IH2]]]; [repeat split; auto|].
    repeat split; auto. }
  intros l. apply H.
Qed.

Lemma list_ind4 (A : Type) (P : list A -> Prop) :
  P [] -> (forall a, P [a]) -> (forall a b, P [a; b]) -> (forall a b c, P [a; b; c]) ->
  (forall a b c d r, P r -> P (a :: b :: c :: d :: r)) -> forall l, P l.
Proof.
  intros H0 H1 H2 H3 H4.
  assert (H : forall l, P l /\ (forall a, P (a :: l)) /\ (forall a b, P (a :: b :: l)) /\ (forall a b c, P (a :: b :: c :: l))).
  { induction l as [|x l [IH0 [IH1 [IH2 IH3]]]]; [repeat split; auto|].
    repeat split; auto. }
  intros l. apply H.
Qed.

(* ---------- the encoder's output is in the alphabet ---------- *)

Lemma u_encode_alphabet : forall d, Forall in_alphabet (u_encode d).
Proof.
  intros d. induction d using list_ind3; cbn [u_encode];
    repeat (apply Forall_cons; [apply u_enc_char_in_alphabet|]); auto.
Qed.

Lemma u_encode_no_slash : forall d, ~ In 47 (u_encode d).
Proof.
  intros d H. pose proof (u_encode_alphabet d) as F. rewrite Forall_forall in F.
  apply (slash_not_in_alphabet (F _ H)).
Qed.

Lemma strip_nl_alphabet : forall s, Forall in_alphabet s -> strip_nl s = s.
Proof.
  induction s as [|c s IH]; intros F; [reflexivity|]. inversion F; subst.
  unfold strip_nl in *. cbn [filter]. destruct (is_nl c) eqn:E.
  - exfalso. eapply nl_not_in_alphabet; eauto.
  - cbn. f_equal. auto.
Qed.

(* ---------- round trip ---------- *)

(* the 6-bit values the encoder emits *)
Fixpoint u_sextets (l : bytes) : list N :=
  match l with
  | a :: b :: c :: r =>
      let n := a * 65536 + b * 256 + c in
      n / 262144 :: (n / 4096) mod 64 :: (n / 64) mod 64 :: n mod 64 :: u_sextets r
  | [a; b] => let n := a * 65536 + b * 256 in [n / 262144; (n / 4096) mod 64; (n / 64) mod 64]
  | [a] => let n := a * 65536 in [n / 262144; (n / 4096) mod 64]
  | [] => []
  end.

Lemma u_encode_sextets : forall d, u_encode d = map u_enc_char (u_sextets d).
Proof.
  intros d. induction d using list_ind3; cbn [u_encode u_sextets map]; try reflexivity.
  rewrite IHd. reflexivity.
Qed.

Lemma u_sextets_small : forall d, wf_bytes d -> Forall (fun v => v < 64) (u_sextets d).
Proof.
  intros d. induction d using list_ind3; intros W; cbn [u_sextets].
  - constructor.
  - inversion W; subst. repeat constructor; lia.
  - inversion W as [|? ? Ha W']; subst. inversion W'; subst. repeat constructor; lia.
  - inversion W as [|? ? Ha W1]; subst. inversion W1 as [|? ? Hb W2]; subst. inversion W2 as [|? ? Hc W3]; subst.
    repeat constructor; try lia. auto.
Qed.

Lemma u_vals_map_enc : forall vs, Forall (fun v => v < 64) vs -> u_vals (map u_enc_char vs) = Some vs.
Proof.
  induction vs as [|v vs IH]; intros F; [reflexivity|]. inversion F; subst.
  cbn [map u_vals]. rewrite u_dec_enc_char by assumption. rewrite IH by assumption. reflexivity.
Qed.

Lemma quantum3 : forall a b c, a < 256 -> b < 256 -> c < 256 ->
  let n := a * 65536 + b * 256 + c in
  let m := (n / 262144) * 262144 + ((n / 4096) mod 64) * 4096 + ((n / 64) mod 64) * 64 + n mod 64 in
  m / 65536 = a /\ (m / 256) mod 256 = b /\ m mod 256 = c.
Proof. intros a b c Ha Hb Hc n m. subst n m. lia. Qed.

Lemma quantum2 : forall a b, a < 256 -> b < 256 ->
  let n := a * 65536 + b * 256 in
  let m := (n / 262144) * 262144 + ((n / 4096) mod 64) * 4096 + ((n / 64) mod 64) * 64 in
  m / 65536 = a /\ (m / 256) mod 256 = b.
Proof. intros a b Ha Hb n m. subst n m. lia. Qed.

Lemma quantum1 : forall a, a < 256 ->
  let n := a * 65536 in
  let m := (n / 262144) * 262144 + ((n / 4096) mod 64) * 4096 in
  m / 65536 = a.
Proof. intros a Ha n m. subst n m. lia. Qed.

Lemma u_quanta_sextets : forall d, wf_bytes d -> u_quanta (u_sextets d) = Some d.
Proof.
  intros d. induction d using list_ind3; intros W.
  - reflexivity.
  - inversion W; subst. cbn [u_sextets u_quanta]. rewrite (quantum1 a) by assumption. reflexivity.
  - inversion W as [|? ? Ha W']; subst. inversion W' as [|? ? Hb ?]; subst. cbn [u_sextets u_quanta].
    destruct (quantum2 a b Ha Hb) as [E1 E2]. rewrite E1, E2. reflexivity.
  - inversion W as [|? ? Ha W1]; subst. inversion W1 as [|? ? Hb W2]; subst. inversion W2 as [|? ? Hc W3]; subst.
    cbn [u_sextets u_quanta]. rewrite IHd by assumption.
    destruct (quantum3 a b c Ha Hb Hc) as [E1 [E2 E3]]. rewrite E1, E2, E3. reflexivity.
Qed.

Lemma u_decode_encode : forall d, wf_bytes d -> u_decode (u_encode d) = Some d.
Proof.
  intros d W. unfold u_decode. rewrite strip_nl_alphabet by apply u_encode_alphabet.
  rewrite u_encode_sextets. rewrite u_vals_map_enc by (apply u_sextets_small; assumption).
  apply u_quanta_sextets; assumption.
Qed.

(* ---------- when does the decoder refuse ---------- *)

Lemma u_vals_none : forall l, u_vals l = None <-> exists c, In c l /\ u_dec_char c = None.
Proof.
  induction l as [|c l IH]; cbn [u_vals].
  - split; [discriminate|intros [c [[] _]]].
  - destruct (u_dec_char c) eqn:E.
    + destruct (u_vals l) eqn:E2.
      * split; [discriminate|]. intros [x [[Hx|Hx] Hd]]; [subst; congruence|].
        assert (H : @None (list N) = None) by reflexivity. exfalso.
        destruct IH as [_ IH]. assert (X : Some l0 = None) by (apply IH; eauto). discriminate.
      * split; [|reflexivity]. intros _. destruct IH as [IH _]. destruct (IH eq_refl) as [x [Hx Hd]]. exists x. split; [right|]; auto.
    + split; [|reflexivity]. intros _. exists c. split; [left; reflexivity|assumption].
Qed.

Lemma u_vals_length : forall l vs, u_vals l = Some vs -> length vs = length l.
Proof.
  induction l as [|c l IH]; cbn [u_vals]; intros vs H.
  - inversion H. reflexivity.
  - destruct (u_dec_char c); [|discriminate]. destruct (u_vals l) eqn:E; [|discriminate].
    inversion H; subst. cbn [length]. f_equal. apply IH. reflexivity.
Qed.

Lemma u_quanta_none : forall vs, u_quanta vs = None <-> (length vs mod 4 = 1)%nat.
Proof.
  intros vs. induction vs using list_ind4; cbn [u_quanta length].
  - split; [discriminate|]. cbn. discriminate.
  - split; reflexivity.
  - split; [discriminate|]. cbn. discriminate.
  - split; [discriminate|]. cbn. discriminate.
  - destruct (u_quanta vs) eqn:E.
    + split; [discriminate|]. intros H. exfalso.
      assert (X : (length vs mod 4 = 1)%nat).
      { replace (S (S (S (S (length vs))))) with (length vs + 1 * 4)%nat in H by lia.
        rewrite Nat.mod_add in H by lia. exact H. }
      apply IHvs in X. discriminate.
    + split; [|reflexivity]. intros _.
      replace (S (S (S (S (length vs))))) with (length vs + 1 * 4)%nat by lia.
      rewrite Nat.mod_add by lia. apply IHvs. reflexivity.
Qed.

(* the decoder refuses exactly: a character outside the alphabet (other than CR/LF, which
   are skipped), or a number of alphabet characters that is 1 modulo 4 *)
Lemma u_decode_none : forall s,
  u_decode s = None <->
  (exists c, In c s /\ is_nl c = false /\ ~ in_alphabet c) \/ (length (strip_nl s) mod 4 = 1)%nat.
Proof.
  intros s. unfold u_decode. destruct (u_vals (strip_nl s)) eqn:E.
  - rewrite u_quanta_none. rewrite (u_vals_length _ _ E). split; [intros H; right; exact H|].
    intros [[c [Hc [Hn Ha]]]|H]; [|exact H]. exfalso.
    assert (X : u_vals (strip_nl s) = None).
    { apply u_vals_none. exists c. split.
      - unfold strip_nl. apply filter_In. split; [assumption|]. rewrite Hn. reflexivity.
      - unfold in_alphabet in Ha. destruct (u_dec_char c); [exfalso; apply Ha; discriminate|reflexivity]. }
    congruence.
  - split; [|reflexivity]. intros _. left. apply u_vals_none in E. destruct E as [c [Hc Hd]].
    unfold strip_nl in Hc. apply filter_In in Hc. destruct Hc as [Hc Hn]. exists c. split; [assumption|].
    split; [destruct (is_nl c); [discriminate|reflexivity]|unfold in_alphabet; congruence].
Qed.

(* ---------- DecodePath ---------- *)

Lemma after_last_none : forall sep l, after_last sep l = None <-> ~ In sep l.
Proof.
  intros sep. induction l as [|c l IH]; cbn [after_last].
  - split; auto.
  - destruct (after_last sep l) eqn:E.
    + split; [discriminate|]. intros H. exfalso. assert (X : ~ In sep l) by (intros X; apply H; right; exact X).
      apply IH in X. discriminate.
    + destruct (c =? sep) eqn:Ec.
      * apply N.eqb_eq in Ec. subst. split; [discriminate|]. intros H. exfalso. apply H. left. reflexivity.
      * apply N.eqb_neq in Ec. split; [|reflexivity]. intros _ [H|H]; [congruence|]. destruct IH as [IH _]. apply IH; auto.
Qed.

Lemma after_last_some : forall sep l t,
  after_last sep l = Some t <-> exists pre, l = pre ++ sep :: t /\ ~ In sep t.
Proof.
  intros sep. induction l as [|c l IH]; intros t; cbn [after_last].
  - split; [discriminate|]. intros [pre [H _]]. destruct pre; discriminate.
  - destruct (after_last sep l) eqn:E.
    + split.
      * intros H. inversion H; subst. destruct (IH t) as [IH1 _]. destruct (IH1 eq_refl) as [pre [Hl Hn]].
        exists (c :: pre). subst. split; [reflexivity|assumption].
      * intros [pre [Hl Hn]]. destruct pre as [|x pre]; cbn in Hl; inversion Hl; subst.
        -- exfalso. apply after_last_none in Hn. congruence.
        -- apply IH. eauto.
    + pose proof (proj1 (after_last_none sep l) E) as Hnl. destruct (c =? sep) eqn:Ec.
      * apply N.eqb_eq in Ec. subst. split.
        -- intros H. inversion H; subst. exists []. split; [reflexivity|assumption].
        -- intros [pre [Hl Hn]]. destruct pre as [|x pre]; cbn in Hl; inversion Hl; subst; [reflexivity|].
           exfalso. apply Hnl. apply in_or_app. right. left. reflexivity.
      * apply N.eqb_neq in Ec. split; [discriminate|]. intros [pre [Hl Hn]].
        destruct pre as [|x pre]; cbn in Hl; inversion Hl; subst; [congruence|].
        exfalso. apply Hnl. apply in_or_app. right. left. reflexivity.
Qed.

(* whatever precedes the final slash is ignored: any padding, with any number of slashes *)
Lemma path_roundtrip : forall pad data, wf_bytes data ->
  decode_path (encode_path_with_pad pad data) = POk data.
Proof.
  intros pad data W. unfold encode_path_with_pad, decode_path. rewrite N.eqb_refl.
  assert (E : after_last SLASH (pad ++ SLASH :: u_encode data) = Some (u_encode data)).
  { apply after_last_some. exists pad. split; [reflexivity|apply u_encode_no_slash]. }
  rewrite E. rewrite u_decode_encode by assumption. reflexivity.
Qed.

Lemma path_roundtrip_encoder : forall cb data, wf_bytes data ->
  decode_path (encode_path cb data) = POk data.
Proof. intros. apply path_roundtrip. assumption. Qed.

(* same path, different padding: same bytes *)
Lemma path_padding_irrelevant : forall pad1 pad2 t,
  ~ In SLASH t ->
  decode_path (ZERO_CH :: pad1 ++ SLASH :: t) = decode_path (ZERO_CH :: pad2 ++ SLASH :: t).
Proof.
  intros pad1 pad2 t Hn. unfold decode_path. rewrite N.eqb_refl.
  assert (E1 : after_last SLASH (pad1 ++ SLASH :: t) = Some t) by (apply after_last_some; eauto).
  assert (E2 : after_last SLASH (pad2 ++ SLASH :: t) = Some t) by (apply after_last_some; eauto).
  rewrite E1, E2. reflexivity.
Qed.

(* the complete classification of DecodePath's outcomes *)
Lemma path_outcomes : forall p,
  (decode_path p = PErr MissingFormat <-> p = []) /\
  (decode_path p = PErr UnknownFormat <-> exists v rest, p = v :: rest /\ v <> ZERO_CH) /\
  (decode_path p = PErr MissingData <-> exists rest, p = ZERO_CH :: rest /\ ~ In SLASH rest) /\
  (decode_path p = PErr BadBase64 <->
     exists pre t, p = ZERO_CH :: pre ++ SLASH :: t /\ ~ In SLASH t /\ u_decode t = None) /\
  (forall d, decode_path p = POk d <->
     exists pre t, p = ZERO_CH :: pre ++ SLASH :: t /\ ~ In SLASH t /\ u_decode t = Some d).
Proof.
  intros p. destruct p as [|v rest].
  - cbn [decode_path]. repeat split; try discriminate; auto;
      try (intros [? [? [H _]]]; discriminate); try (intros [? [H _]]; discriminate).
  - unfold decode_path. destruct (v =? ZERO_CH) eqn:Ev.
    + apply N.eqb_eq in Ev. subst v. destruct (after_last SLASH rest) eqn:E.
      * apply after_last_some in E. destruct E as [pre [Hr Hn]].
        assert (U : forall pre' t', ZERO_CH :: rest = ZERO_CH :: pre' ++ SLASH :: t' -> ~ In SLASH t' -> t' = b).
        { intros pre' t' H1 H2. inversion H1 as [H3].
          assert (X : after_last SLASH rest = Some t') by (apply after_last_some; eauto).
          assert (Y : after_last SLASH rest = Some b) by (apply after_last_some; eauto). congruence. }
        destruct (u_decode b) eqn:Ed; repeat split; try discriminate.
        -- intros [v [r [H1 H2]]]. inversion H1; subst. congruence.
        -- intros [r [H1 H2]]. inversion H1; subst. exfalso. apply H2. apply in_or_app. right. left. reflexivity.
        -- intros [pre' [t' [H1 [H2 H3]]]]. rewrite (U _ _ H1 H2) in H3. congruence.
        -- intros H. inversion H; subst. exists pre, b. repeat split; auto.
        -- intros [pre' [t' [H1 [H2 H3]]]]. rewrite (U _ _ H1 H2) in H3. congruence.
        -- intros [v [r [H1 H2]]]. inversion H1; subst. congruence.
        -- intros [r [H1 H2]]. inversion H1; subst. exfalso. apply H2. apply in_or_app. right. left. reflexivity.
        -- intros _. exists pre, b. subst. repeat split; auto.
        -- intros [pre' [t' [H1 [H2 H3]]]]. rewrite (U _ _ H1 H2) in H3. congruence.
      * apply after_last_none in E. repeat split; try discriminate.
        -- intros [v [r [H1 H2]]]. inversion H1; subst. congruence.
        -- intros _. exists rest. split; auto.
        -- intros [pre' [t' [H1 _]]]. inversion H1; subst. exfalso. apply E. apply in_or_app. right. left. reflexivity.
        -- intros [pre' [t' [H1 _]]]. inversion H1; subst. exfalso. apply E. apply in_or_app. right. left. reflexivity.
    + apply N.eqb_neq in Ev. repeat split; try discriminate.
      * intros _. exists v, rest. split; auto.
      * intros [r [H1 _]]. inversion H1; subst. congruence.
      * intros [pre' [t' [H1 _]]]. inversion H1; subst. congruence.
      * intros [pre' [t' [H1 _]]]. inversion H1; subst. congruence.
Qed.

(* the mutation LastIndexByte -> IndexByte is observable: padding with a slash *)
Lemma first_slash_differs : exists pad data,
  after_first SLASH (pad ++ SLASH :: u_encode data) <> after_last SLASH (pad ++ SLASH :: u_encode data).
Proof. exists [SLASH], [65]. vm_compute. discriminate. Qed.
