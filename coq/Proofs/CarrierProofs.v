(* CarrierProofs.v — invariants of the server carrier layer (Model/CarrierLayer.v) *)
From Coq Require Import List NArith Bool Arith Lia.
From Snow Require Import Lib.Wire Model.Encap Proofs.EncapSweep Proofs.EncapProofs Model.CarrierLayer.
Import ListNotations.
Open Scope N_scope.

(* ---------- kupd ---------- *)
Lemma knth_upd_eq f : forall l i x, nth_error l i = Some x -> nth_error (kupd i f l) i = Some (f x).
Proof.
  induction l as [|y l IH]; intros [|i] x; cbn [kupd nth_error]; try discriminate.
  - intros H; injection H as ->. reflexivity.
  - apply IH.
Qed.
Lemma knth_upd_neq f : forall l i j, i <> j -> nth_error (kupd i f l) j = nth_error l j.
Proof.
  induction l as [|y l IH]; intros [|i] [|j] H; cbn [kupd nth_error]; try reflexivity; try congruence.
  apply IH. congruence.
Qed.
Lemma knth_upd_inv f l i j y : nth_error (kupd i f l) j = Some y ->
  (i = j /\ exists x, nth_error l i = Some x /\ y = f x) \/ (i <> j /\ nth_error l j = Some y).
Proof.
  intros H. destruct (Nat.eq_dec i j) as [->|Hne].
  - left. split; [reflexivity|]. destruct (nth_error l j) as [x|] eqn:E.
    + rewrite (knth_upd_eq f l j x E) in H. injection H as <-. exists x. split; reflexivity.
    + exfalso. revert j H E. clear. induction l as [|a l IH]; intros [|j]; cbn; try discriminate. apply IH.
  - right. split; [exact Hne|]. rewrite knth_upd_neq in H by exact Hne. exact H.
Qed.

(* ---------- pump ---------- *)

Definition pre_open (k : carrier) : Prop := k_state k = K_Token \/ k_state k = K_ClientID.

(* what pump preserves / establishes *)
Record pump_ok (k k' : carrier) (ps : list bytes) : Prop := {
  po_down : k_down k' = k_down k;
  po_wire : k_wire k' = k_wire k;
  po_up : k_up k' = k_up k ++ ps;
  po_cid : k_state k = K_Open \/ k_state k = K_Dead -> k_cid k' = k_cid k;
  po_pre : pre_open k' -> ps = [] /\ pre_open k;
  po_dead : k_state k = K_Dead -> k' = k
}.

Lemma pump_spec : forall fuel k, exists k' ps, pump fuel k = (k', ps) /\ pump_ok k k' ps.
Proof.
  induction fuel as [|f IH]; intros k.
  - exists k, []. split; [reflexivity|]. constructor; try reflexivity; try (intros; reflexivity).
    + rewrite app_nil_r. reflexivity.
    + intros H. split; [reflexivity | exact H].
  - cbn [pump]. destruct (k_state k) eqn:Es.
    + (* token *) destruct (length (k_buf k) <? 8)%nat.
      { exists k, []. split; [reflexivity|]. constructor; try reflexivity; try (intros; reflexivity).
        - rewrite app_nil_r. reflexivity.
        - intros _. split; [reflexivity | left; exact Es]. }
      destruct (beq (firstn 8 (k_buf k)) TOKEN).
      * match goal with |- context [pump f ?K] => destruct (IH K) as [k' [ps [Hp Hok]]] end.
        exists k', ps. split; [exact Hp|]. destruct Hok as [A B C D E F]. cbn in *.
        constructor; try assumption.
        -- intros [H|H]; congruence.
        -- intros H. destruct (E H) as [E1 _]. split; [exact E1 | left; exact Es].
        -- intros H; congruence.
      * eexists; exists []. split; [reflexivity|]. constructor; cbn; try reflexivity.
        -- rewrite app_nil_r. reflexivity.
        -- intros [H|H]; congruence.
        -- intros [H|H]; discriminate.
        -- intros H; congruence.
    + (* client id *) destruct (length (k_buf k) <? 8)%nat.
      { exists k, []. split; [reflexivity|]. constructor; try reflexivity; try (intros; reflexivity).
        - rewrite app_nil_r. reflexivity.
        - intros _. split; [reflexivity | right; exact Es]. }
      match goal with |- context [pump f ?K] => destruct (IH K) as [k' [ps [Hp Hok]]] end.
      exists k', ps. split; [exact Hp|]. destruct Hok as [A B C D E F]. cbn in *.
      constructor; try assumption.
      * intros [H|H]; congruence.
      * intros H. destruct (E H) as [E1 [E2|E2]]; discriminate.
      * intros H; congruence.
    + (* open *) destruct (parse_one (k_buf k)) as [isd d rest| | |] eqn:Ep.
      * match goal with |- context [pump f ?K] => destruct (IH K) as [k' [ps [Hp Hok]]] end.
        rewrite Hp. destruct Hok as [A B C D E F]. cbn in *.
        exists k', (if isd then d :: ps else ps). split; [reflexivity|].
        constructor; try assumption.
        -- rewrite C. destruct isd; [rewrite <- app_assoc; reflexivity | reflexivity].
        -- intros _. apply D. left. reflexivity.
        -- intros H. destruct (E H) as [_ [E2|E2]]; discriminate.
        -- intros H; congruence.
      * exists k, []. split; [reflexivity|]. constructor; try reflexivity; try (intros; reflexivity).
        -- rewrite app_nil_r. reflexivity.
        -- intros [H|H]; congruence.
      * exists k, []. split; [reflexivity|]. constructor; try reflexivity; try (intros; reflexivity).
        -- rewrite app_nil_r. reflexivity.
        -- intros [H|H]; congruence.
      * eexists; exists []. split; [reflexivity|]. constructor; cbn; try reflexivity.
        -- rewrite app_nil_r. reflexivity.
        -- intros [H|H]; discriminate.
        -- intros H; congruence.
    + exists k, []. split; [reflexivity|]. constructor; try reflexivity; try (intros; reflexivity).
      * rewrite app_nil_r. reflexivity.
      * intros [H|H]; congruence.
Qed.

(* ---------- queues ---------- *)
Lemma beq_refl a : beq a a = true.
Proof. induction a as [|x a IH]; cbn [beq]; [reflexivity|]. rewrite N.eqb_refl, IH. reflexivity. Qed.

Lemma beq_true_eq a b : beq a b = true -> a = b.
Proof. apply beq_eq. Qed.

Lemma q_lookup_set_same c q l : q_lookup c (q_set c q l) = q.
Proof.
  induction l as [|[c' q'] l IH]; cbn [q_set q_lookup].
  - rewrite beq_refl. reflexivity.
  - destruct (beq c c') eqn:E; cbn [q_lookup]; [rewrite beq_refl; reflexivity | rewrite E; exact IH].
Qed.

Lemma q_lookup_set_other c c' q l : beq c' c = false -> q_lookup c' (q_set c q l) = q_lookup c' l.
Proof.
  intros Hne. induction l as [|[c2 q2] l IH]; cbn [q_set q_lookup].
  - rewrite Hne. reflexivity.
  - destruct (beq c c2) eqn:E; cbn [q_lookup].
    + apply beq_true_eq in E. subst c2. rewrite Hne. reflexivity.
    + destruct (beq c' c2); [reflexivity | exact IH].
Qed.

Lemma enqueue_all_in cid : forall ps q x, In x (enqueue_all cid ps q) -> In x q \/ exists p, In p ps /\ x = (p, cid).
Proof.
  induction ps as [|p ps IH]; intros q x H; cbn [enqueue_all] in H; [left; exact H|].
  destruct (IH _ _ H) as [Hq|[p' [Hp' ->]]].
  - destruct (length q <? QUEUE_SIZE)%nat; [|left; exact Hq].
    apply in_app_or in Hq. destruct Hq as [Hq|[Hq|[]]]; [left; exact Hq|].
    right. exists p. split; [left; reflexivity | symmetry; exact Hq].
  - right. exists p'. split; [right; exact Hp' | reflexivity].
Qed.

(* ---------- the invariant ---------- *)

Fixpoint wire_of (ps : list bytes) : option bytes :=
  match ps with
  | [] => Some []
  | p :: ps' => match write_data p, wire_of ps' with
                | Some a, Some b => Some (a ++ b)
                | _, _ => None
                end
  end.

Lemma wire_of_app a p w wa : wire_of a = Some wa -> write_data p = Some w -> wire_of (a ++ [p]) = Some (wa ++ w).
Proof.
  revert wa. induction a as [|x a IH]; intros wa Ha Hp; cbn [app wire_of] in *.
  - injection Ha as <-. rewrite Hp. cbn. rewrite app_nil_r. reflexivity.
  - destruct (write_data x) as [wx|]; [|discriminate]. destruct (wire_of a) as [wr|] eqn:Er; [|discriminate].
    injection Ha as <-. rewrite (IH wr eq_refl Hp). rewrite app_assoc. reflexivity.
Qed.

Record SInv (s : sstate) : Prop := {
  (* every packet handed (or about to be handed) to KCP was extracted from a carrier that presented that ClientID *)
  si_up : forall p a, In (p, a) (delivered s ++ recvq s) ->
          exists i k, nth_error (carriers s) i = Some k /\ k_cid k = a /\ In p (k_up k) /\ ~ pre_open k;
  (* a carrier that has not presented token and ClientID has no effect *)
  si_pre : forall i k, nth_error (carriers s) i = Some k -> pre_open k ->
           k_up k = [] /\ k_down k = [] /\ k_wire k = [];
  (* what a carrier wrote downstream was addressed to its ClientID; the bytes are the framed packets *)
  si_down : forall i k p, nth_error (carriers s) i = Some k -> In p (k_down k) -> In (k_cid k, p) (accepted s);
  si_wire : forall i k, nth_error (carriers s) i = Some k -> wire_of (k_down k) = Some (k_wire k);
  si_queue : forall c p, In p (q_lookup c (sendqs s)) -> In (c, p) (accepted s)
}.

Lemma sinv_init : SInv sinit.
Proof.
  constructor; cbn.
  - intros p a [].
  - intros [|i] k H; discriminate.
  - intros [|i] k p H; discriminate.
  - intros [|i] k H; discriminate.
  - intros c p [].
Qed.

Lemma nth_app_new {A} (l : list A) x i y : nth_error (l ++ [x]) i = Some y ->
  nth_error l i = Some y \/ (i = length l /\ y = x).
Proof.
  intros H. destruct (Nat.lt_ge_cases i (length l)) as [Hlt|Hge].
  - left. rewrite nth_error_app1 in H by exact Hlt. exact H.
  - right. rewrite nth_error_app2 in H by exact Hge.
    destruct (i - length l)%nat as [|j] eqn:E; cbn in H; [injection H as <-; split; [lia | reflexivity]|].
    destruct j; discriminate.
Qed.

Theorem sstep_inv s o : SInv s -> SInv (sstep s o).
Proof.
  intros I. destruct I as [Iu Ip Id Iw Iq]. destruct o; cbn [sstep].
  - (* new *) constructor; cbn.
    + intros p a H. destruct (Iu p a H) as [i [k [Hn R]]]. exists i, k. split; [|exact R].
      rewrite nth_error_app1; [exact Hn|]. apply nth_error_Some. congruence.
    + intros i k H Hpre. destruct (nth_app_new _ _ _ _ H) as [Ho|[_ ->]]; [eapply Ip; eassumption|]. repeat split.
    + intros i k p H Hin. destruct (nth_app_new _ _ _ _ H) as [Ho|[_ ->]]; [eapply Id; eassumption|]. destruct Hin.
    + intros i k H. destruct (nth_app_new _ _ _ _ H) as [Ho|[_ ->]]; [eapply Iw; eassumption|]. reflexivity.
    + exact Iq.
  - (* recv *) destruct (nth_error (carriers s) i) as [k|] eqn:Hk; [|constructor; assumption].
    assert (Hdead : k_state k = K_Dead -> SInv s) by (intros _; constructor; assumption).
    destruct (k_state k) eqn:Es; try (apply Hdead; reflexivity);
    (destruct (pump_spec (S (S (S (length (k_buf k) + length b)))) (with_buf (k_buf k ++ b) k)) as [k' [ps [Hp Hok]]];
     rewrite Hp; destruct Hok as [A B C D E F]; cbn in A, B, C, D, E, F;
     constructor; cbn).
    all: try (intros p a Hin; apply in_app_or in Hin; destruct Hin as [Hin|Hin];
      [ destruct (Iu p a (in_or_app _ _ _ (or_introl Hin))) as [j [kj [Hj [Hc [Hu Hnp]]]]]
      | apply enqueue_all_in in Hin; destruct Hin as [Hin|[p' [Hp' Heq]]];
        [ destruct (Iu p a (in_or_app _ _ _ (or_intror Hin))) as [j [kj [Hj [Hc [Hu Hnp]]]]] | ] ]).
    all: try (destruct (Nat.eq_dec i j) as [<-|Hne];
      [ rewrite Hk in Hj; injection Hj as <-; exists i, k'; split; [apply knth_upd_eq with (x := k); exact Hk|];
        split; [rewrite <- Hc; apply D; unfold pre_open in Hnp; rewrite Es in *; tauto|];
        split; [rewrite C; apply in_or_app; left; exact Hu|];
        intros Hpre; destruct (E Hpre) as [_ Hpk]; unfold pre_open in Hpk, Hnp; cbn in Hpk; tauto
      | exists j, kj; split; [rewrite knth_upd_neq by exact Hne; exact Hj|]; repeat split; assumption ]).
    all: try (injection Heq as -> ->; exists i, k'; split; [apply knth_upd_eq with (x := k); exact Hk|];
      split; [reflexivity|]; split; [rewrite C; apply in_or_app; right; exact Hp'|];
      intros Hpre; destruct (E Hpre) as [Hnil _]; subst ps; destruct Hp').
    all: try (intros j kj Hj Hpre; destruct (knth_upd_inv _ _ _ _ _ Hj) as [[<- [x [Hx ->]]]|[Hne Hj']];
      [ destruct (E Hpre) as [Hnil Hpk]; subst ps; rewrite A, B, C, app_nil_r;
        apply (Ip i k Hk); unfold pre_open in *; cbn in Hpk; exact Hpk
      | eapply Ip; eassumption ]).
    all: try (intros j kj p Hj Hin; destruct (knth_upd_inv _ _ _ _ _ Hj) as [[<- [x [Hx ->]]]|[Hne Hj']];
      [ rewrite A in Hin;
        assert (Hcid : k_cid k' = k_cid k \/ k_down k = []) by
          (destruct (k_state k) eqn:Es'; try (left; apply D; tauto);
           right; apply (Ip i k Hk); unfold pre_open; tauto);
        destruct Hcid as [Hc|Hn]; [rewrite Hc; eapply Id; eassumption | rewrite Hn in Hin; destruct Hin]
      | eapply Id; eassumption ]).
    all: try (intros j kj Hj; destruct (knth_upd_inv _ _ _ _ _ Hj) as [[<- [x [Hx ->]]]|[Hne Hj']];
      [ rewrite A, B; eapply Iw; exact Hk | eapply Iw; eassumption ]).
    all: try exact Iq.
  - (* close *) constructor; cbn.
    + intros p a H. destruct (Iu p a H) as [j [kj [Hj [Hc [Hu Hnp]]]]].
      destruct (Nat.eq_dec i j) as [<-|Hne].
      * exists i, (kill kj). split; [apply knth_upd_eq; exact Hj|]. repeat split; try assumption.
        unfold pre_open; cbn. intros [H1|H1]; discriminate.
      * exists j, kj. split; [rewrite knth_upd_neq by exact Hne; exact Hj|]. repeat split; assumption.
    + intros j kj Hj Hpre. destruct (knth_upd_inv _ _ _ _ _ Hj) as [[<- [x [Hx ->]]]|[Hne Hj']];
        [unfold pre_open in Hpre; cbn in Hpre; destruct Hpre; discriminate | eapply Ip; eassumption].
    + intros j kj p Hj Hin. destruct (knth_upd_inv _ _ _ _ _ Hj) as [[<- [x [Hx ->]]]|[Hne Hj']];
        [cbn in *; eapply Id; eassumption | eapply Id; eassumption].
    + intros j kj Hj. destruct (knth_upd_inv _ _ _ _ _ Hj) as [[<- [x [Hx ->]]]|[Hne Hj']];
        [cbn; eapply Iw; eassumption | eapply Iw; eassumption].
    + exact Iq.
  - (* writeto *) destruct (length (q_lookup cid (sendqs s)) <? QUEUE_SIZE)%nat; [|constructor; assumption].
    constructor; cbn.
    + exact Iu.
    + exact Ip.
    + intros i k p0 Hk Hin. apply in_or_app. left. eapply Id; eassumption.
    + exact Iw.
    + intros c p0 Hin. destruct (beq c cid) eqn:E.
      * apply beq_true_eq in E. subst c. rewrite q_lookup_set_same in Hin.
        apply in_app_or in Hin. apply in_or_app. destruct Hin as [Hin|[<-|[]]]; [left; apply Iq; exact Hin | right; left; reflexivity].
      * rewrite q_lookup_set_other in Hin by exact E. apply in_or_app. left. apply Iq. exact Hin.
  - (* send *) destruct (nth_error (carriers s) i) as [k|] eqn:Hk; [|constructor; assumption].
    destruct (k_state k) eqn:Es; try (constructor; assumption).
    destruct (q_lookup (k_cid k) (sendqs s)) as [|p q'] eqn:Eq; [constructor; assumption|].
    assert (Hacc : In (k_cid k, p) (accepted s)) by (apply Iq; rewrite Eq; left; reflexivity).
    assert (Hq : forall c p0, In p0 (q_lookup c (q_set (k_cid k) q' (sendqs s))) -> In (c, p0) (accepted s)).
    { intros c p0 Hin. destruct (beq c (k_cid k)) eqn:E.
      - apply beq_true_eq in E. subst c. rewrite q_lookup_set_same in Hin. apply Iq. rewrite Eq. right. exact Hin.
      - rewrite q_lookup_set_other in Hin by exact E. apply Iq. exact Hin. }
    destruct (write_data p) as [w|] eqn:Ew; constructor; cbn.
    + intros p0 a H. destruct (Iu p0 a H) as [j [kj [Hj [Hc [Hu Hnp]]]]].
      destruct (Nat.eq_dec i j) as [<-|Hne].
      * rewrite Hk in Hj. injection Hj as <-. eexists i, _. split; [apply knth_upd_eq; exact Hk|]. cbn.
        repeat split; try assumption. unfold pre_open; cbn. intros [H1|H1]; discriminate.
      * exists j, kj. split; [rewrite knth_upd_neq by exact Hne; exact Hj|]. repeat split; assumption.
    + intros j kj Hj Hpre. destruct (knth_upd_inv _ _ _ _ _ Hj) as [[<- [x [Hx ->]]]|[Hne Hj']];
        [unfold pre_open in Hpre; cbn in Hpre; destruct Hpre; discriminate | eapply Ip; eassumption].
    + intros j kj p0 Hj Hin. destruct (knth_upd_inv _ _ _ _ _ Hj) as [[<- [x [Hx ->]]]|[Hne Hj']]; [|eapply Id; eassumption].
      rewrite Hk in Hx. injection Hx as <-. cbn in *. apply in_app_or in Hin.
      destruct Hin as [Hin|[<-|[]]]; [eapply Id; eassumption | exact Hacc].
    + intros j kj Hj. destruct (knth_upd_inv _ _ _ _ _ Hj) as [[<- [x [Hx ->]]]|[Hne Hj']]; [|eapply Iw; eassumption].
      rewrite Hk in Hx. injection Hx as <-. cbn. apply wire_of_app; [eapply Iw; exact Hk | exact Ew].
    + exact Hq.
    + intros p0 a H. destruct (Iu p0 a H) as [j [kj [Hj [Hc [Hu Hnp]]]]].
      destruct (Nat.eq_dec i j) as [<-|Hne].
      * exists i, (kill kj). split; [apply knth_upd_eq; exact Hj|]. repeat split; try assumption.
        unfold pre_open; cbn. intros [H1|H1]; discriminate.
      * exists j, kj. split; [rewrite knth_upd_neq by exact Hne; exact Hj|]. repeat split; assumption.
    + intros j kj Hj Hpre. destruct (knth_upd_inv _ _ _ _ _ Hj) as [[<- [x [Hx ->]]]|[Hne Hj']];
        [unfold pre_open in Hpre; cbn in Hpre; destruct Hpre; discriminate | eapply Ip; eassumption].
    + intros j kj p0 Hj Hin. destruct (knth_upd_inv _ _ _ _ _ Hj) as [[<- [x [Hx ->]]]|[Hne Hj']];
        [cbn in *; eapply Id; eassumption | eapply Id; eassumption].
    + intros j kj Hj. destruct (knth_upd_inv _ _ _ _ _ Hj) as [[<- [x [Hx ->]]]|[Hne Hj']];
        [cbn; eapply Iw; eassumption | eapply Iw; eassumption].
    + exact Hq.
  - (* readfrom *) destruct (recvq s) as [|x q'] eqn:Er; [constructor; try assumption; intros p a Hin; apply Iu; rewrite Er in Hin; exact Hin|].
    constructor; cbn; try assumption.
    intros p a Hin. apply Iu. rewrite <- app_assoc in Hin. exact Hin.
Qed.

Lemma srun_app ops o : srun (ops ++ [o]) = sstep (srun ops) o.
Proof. unfold srun. rewrite fold_left_app. reflexivity. Qed.

Theorem srun_inv : forall ops, SInv (srun ops).
Proof.
  intros ops. unfold srun. assert (G : forall s, SInv s -> SInv (fold_left sstep ops s)).
  { induction ops as [|o ops IH]; intros s I; cbn [fold_left]; [exact I|]. apply IH. apply sstep_inv. exact I. }
  apply G. apply sinv_init.
Qed.

(* ---------- downstream bytes decode to exactly the packets taken ---------- *)

Lemma wire_of_encode : forall ps, wire_of ps = encode_items (map Data ps).
Proof.
  induction ps as [|p ps IH]; cbn [wire_of map encode_items]; [reflexivity|]. rewrite IH. reflexivity.
Qed.

Lemma wire_of_items_ok : forall ps w, wire_of ps = Some w -> items_ok (map Data ps).
Proof.
  intros ps w H. apply encode_rejects_long. rewrite <- wire_of_encode, H. discriminate.
Qed.

Lemma datas_map_data : forall ps, datas (map Data ps) = ps.
Proof. induction ps as [|p ps IH]; cbn [map datas]; [reflexivity | rewrite IH; reflexivity]. Qed.

Theorem wire_decodes : forall ps w sc, wire_of ps = Some w -> read_stream w sc = (ps, EOF).
Proof.
  intros ps w sc H. replace (ps, EOF) with (datas (map Data ps), EOF) by (rewrite datas_map_data; reflexivity).
  apply roundtrip_any_reader; [eapply wire_of_items_ok; exact H | rewrite <- wire_of_encode; exact H].
Qed.

(* ---------- a carrier without the token has no effect, and stays closed ---------- *)

Lemma token_reject f k : k_state k = K_Token -> (8 <= length (k_buf k))%nat ->
  beq (firstn 8 (k_buf k)) TOKEN = false ->
  exists k', pump (S f) k = (k', []) /\ k_state k' = K_Dead /\
             k_up k' = k_up k /\ k_down k' = k_down k /\ k_wire k' = k_wire k.
Proof.
  intros Hs Hl Hb. cbn [pump]. rewrite Hs.
  destruct (Nat.ltb_spec (length (k_buf k)) 8) as [Hlt|_]; [lia|]. rewrite Hb.
  eexists. split; [reflexivity|]. repeat split.
Qed.

Lemma dead_forever s i k o : nth_error (carriers s) i = Some k -> k_state k = K_Dead ->
  exists k', nth_error (carriers (sstep s o)) i = Some k' /\ k_state k' = K_Dead /\
             k_up k' = k_up k /\ k_down k' = k_down k /\ k_wire k' = k_wire k.
Proof.
  intros Hk Hd. destruct o; cbn [sstep].
  - exists k. split; [|repeat split; assumption]. cbn. rewrite nth_error_app1; [exact Hk|]. apply nth_error_Some. congruence.
  - destruct (nth_error (carriers s) i0) as [k0|] eqn:Hk0; [|exists k; repeat split; assumption].
    destruct (Nat.eq_dec i0 i) as [->|Hne].
    + rewrite Hk in Hk0. injection Hk0 as <-. rewrite Hd. exists k. repeat split; assumption.
    + destruct (k_state k0); try (exists k; repeat split; assumption);
      (destruct (pump _ _) as [k' ps]; cbn; exists k; split; [rewrite knth_upd_neq by exact Hne; exact Hk | repeat split; assumption]).
  - cbn. destruct (Nat.eq_dec i0 i) as [->|Hne].
    + exists (kill k). split; [apply knth_upd_eq; exact Hk | repeat split].
    + exists k. split; [rewrite knth_upd_neq by exact Hne; exact Hk | repeat split; assumption].
  - destruct (length (q_lookup cid (sendqs s)) <? QUEUE_SIZE)%nat; exists k; repeat split; assumption.
  - destruct (nth_error (carriers s) i0) as [k0|] eqn:Hk0; [|exists k; repeat split; assumption].
    destruct (Nat.eq_dec i0 i) as [->|Hne].
    + rewrite Hk in Hk0. injection Hk0 as <-. rewrite Hd. exists k. repeat split; assumption.
    + destruct (k_state k0); try (exists k; repeat split; assumption).
      destruct (q_lookup (k_cid k0) (sendqs s)); [exists k; repeat split; assumption|].
      destruct (write_data b); cbn; exists k; (split; [rewrite knth_upd_neq by exact Hne; exact Hk | repeat split; assumption]).
  - destruct (recvq s); exists k; repeat split; assumption.
Qed.

(* ---------- the read loop does not depend on how the upstream bytes are fragmented ---------- *)

Fixpoint open_pump (fuel : nat) (buf : bytes) : list bytes * bytes * bool :=
  match fuel with
  | O => ([], buf, false)
  | S f =>
      match parse_one buf with
      | PChunk isd d rest => let '(ps, t, dd) := open_pump f rest in (if isd then d :: ps else ps, t, dd)
      | PLong => ([], [], true)
      | PEnd | PShort => ([], buf, false)
      end
  end.

Lemma open_pump_fuel : forall a b buf, (length buf < a)%nat -> (length buf < b)%nat -> open_pump a buf = open_pump b buf.
Proof.
  induction a as [|a IH]; intros b buf Ha Hb; [lia|]. destruct b as [|b]; [lia|].
  cbn [open_pump]. destruct (parse_one buf) as [isd d rest| | |] eqn:Ep; try reflexivity.
  apply parse_one_shrinks in Ep. rewrite (IH b rest) by lia. reflexivity.
Qed.

Lemma pump_is_open_pump : forall fuel k, k_state k = K_Open ->
  let '(ps, t, dd) := open_pump fuel (k_buf k) in
  exists k', pump fuel k = (k', ps) /\ k_buf k' = t /\ k_state k' = (if dd then K_Dead else K_Open) /\ k_cid k' = k_cid k.
Proof.
  induction fuel as [|f IH]; intros k Hs; cbn [open_pump pump].
  - exists k. repeat split. exact Hs.
  - rewrite Hs. destruct (parse_one (k_buf k)) as [isd d rest| | |] eqn:Ep.
    + match goal with |- context [pump f ?K] => specialize (IH K eq_refl) end. cbn [k_buf] in IH.
      destruct (open_pump f rest) as [[ps t] dd]. destruct IH as [k' [Hp [Hb [Hst Hc]]]].
      rewrite Hp. exists k'. repeat split; assumption.
    + exists k. repeat split. exact Hs.
    + exists k. repeat split. exact Hs.
    + eexists. repeat split.
Qed.

Lemma parse_one_chunk_app b1 b2 isd d rest :
  parse_one b1 = PChunk isd d rest -> parse_one (b1 ++ b2) = PChunk isd d (rest ++ b2).
Proof.
  intros H. destruct (parse_one_inv _ _ _ _ H) as [p [Hb Hh]]. subst b1.
  pose proof (parse_one_chunk {| c_isdata := isd; c_prefix := p; c_body := d |} (rest ++ b2) Hh) as P.
  unfold chunk_bytes in P. cbn [c_prefix c_body c_isdata] in P.
  rewrite <- !app_assoc in *. exact P.
Qed.

Lemma parse_one_long_app b1 b2 : parse_one b1 = PLong -> parse_one (b1 ++ b2) = PLong.
Proof.
  intros H. apply parse_one_long_iff in H. destruct H as [x0 [x1 [x2 [r [-> Hc]]]]].
  apply parse_one_long_iff. exists x0, x1, x2, (r ++ b2). split; [reflexivity | exact Hc].
Qed.

Lemma open_pump_S f buf : open_pump (S f) buf =
  match parse_one buf with
  | PChunk isd d rest => let '(ps, t, dd) := open_pump f rest in (if isd then d :: ps else ps, t, dd)
  | PLong => ([], [], true)
  | PEnd | PShort => ([], buf, false)
  end.
Proof. reflexivity. Qed.

Lemma parse_one_end b : parse_one b = PEnd -> b = [].
Proof.
  destruct b as [|b0 s1]; [reflexivity|]. cbn [parse_one].
  assert (T : forall i n x, take_body i n x <> PEnd) by (intros i n x; unfold take_body; destruct (_ <? _)%nat; discriminate).
  destruct (N.land b0 64 =? 0); [intros H; elim (T _ _ _ H)|].
  destruct s1 as [|b1 s2]; [discriminate|].
  destruct (N.land b1 128 =? 0); [intros H; elim (T _ _ _ H)|].
  destruct s2 as [|b2 s3]; [discriminate|].
  destruct (N.land b2 128 =? 0); [intros H; elim (T _ _ _ H)|discriminate].
Qed.

Theorem open_pump_app : forall f1 b1 b2, (length b1 < f1)%nat ->
  open_pump (S (length (b1 ++ b2))) (b1 ++ b2) =
  let '(ps1, t1, d1) := open_pump f1 b1 in
  if d1 then (ps1, [], true)
  else let '(ps2, t2, d2) := open_pump (S (length (t1 ++ b2))) (t1 ++ b2) in (ps1 ++ ps2, t2, d2).
Proof.
  induction f1 as [|f IH]; intros b1 b2 Hf; [lia|].
  rewrite (open_pump_S f b1).
  destruct (parse_one b1) as [isd d rest| | |] eqn:Ep.
  - rewrite (open_pump_S (length (b1 ++ b2)) (b1 ++ b2)).
    rewrite (parse_one_chunk_app b1 b2 isd d rest Ep).
    pose proof (parse_one_shrinks _ _ _ _ Ep) as Hsh.
    rewrite (open_pump_fuel (length (b1 ++ b2)) (S (length (rest ++ b2))) (rest ++ b2))
      by (rewrite !app_length; lia).
    rewrite (IH rest b2) by lia.
    destruct (open_pump f rest) as [[ps1 t1] d1]. destruct d1; [reflexivity|].
    destruct (open_pump (S (length (t1 ++ b2))) (t1 ++ b2)) as [[ps2 t2] d2].
    destruct isd; reflexivity.
  - apply parse_one_end in Ep. subst b1. cbn [app].
    destruct (open_pump (S (length b2)) b2) as [[ps2 t2] d2]. reflexivity.
  - destruct (open_pump (S (length (b1 ++ b2))) (b1 ++ b2)) as [[ps2 t2] d2]. reflexivity.
  - rewrite (open_pump_S (length (b1 ++ b2)) (b1 ++ b2)). rewrite (parse_one_long_app b1 b2 Ep). reflexivity.
Qed.
