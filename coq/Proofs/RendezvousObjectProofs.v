(* RendezvousObjectProofs.v — one httpRendezvous / ampCacheRendezvous object over all its Exchanges
   (Model/Rendezvous.v, Section RendezvousObject): the configuration is never written, so the request and the
   result of an Exchange at any position of any history are those of a first Exchange on a new object. *)
From Coq Require Import List NArith Lia Bool Arith String.
From Snow Require Import Lib.Wire Model.B64Url Model.AmpPath Model.CacheURL Model.Rendezvous.
From Snow Require Import Proofs.RendezvousProofs.
Import ListNotations.
Open Scope N_scope.
Notation length := List.length.

Section Object.
  Variable to_unicode : bytes -> option bytes.
  Variable to_ascii : bytes -> option bytes.
  Variable sha256 : bytes -> bytes.
  Variable h34 : bytes -> bool.
  Variable armor_decode : bytes -> option bytes.

  Notation request_of := (rdv_request to_unicode to_ascii sha256 h34).
  Notation result_of := (rdv_result to_unicode to_ascii sha256 h34 armor_decode).
  Notation step := (rdv_step to_unicode to_ascii sha256 h34 armor_decode).
  Notation run := (rdv_run to_unicode to_ascii sha256 h34 armor_decode).

  (* what one Exchange answers, as a function of the configuration and the event *)
  Definition exchange_of (c : rdv_config) (ev : rdv_event) : option request * option bytes :=
    (request_of c (ev_poll ev) (ev_cb ev), result_of c ev).

  Lemma rdv_step_conf : forall s ev, rs_conf (fst (step s ev)) = rs_conf s.
  Proof. reflexivity. Qed.

  Lemma rdv_step_out : forall s ev, snd (step s ev) = exchange_of (rs_conf s) ev.
  Proof. reflexivity. Qed.

  Lemma rdv_run_conf : forall evs s, rs_conf (fst (run s evs)) = rs_conf s.
  Proof.
    induction evs as [|ev r IH]; intros s; [reflexivity|].
    cbn [rdv_run]. destruct (step s ev) as [s1 o] eqn:E1.
    specialize (IH s1). destruct (run s1 r) as [s2 os] eqn:E2. cbn [fst] in *.
    rewrite IH. change s1 with (fst (s1, o)). rewrite <- E1. apply rdv_step_conf.
  Qed.

  Lemma rdv_run_count : forall evs s, rs_exchanges (fst (run s evs)) = rs_exchanges s + N.of_nat (length evs).
  Proof.
    induction evs as [|ev r IH]; intros s; [cbn; lia|].
    cbn [rdv_run]. destruct (step s ev) as [s1 o] eqn:E1.
    specialize (IH s1). destruct (run s1 r) as [s2 os] eqn:E2. cbn [fst] in *.
    rewrite IH. unfold rdv_step in E1. inversion E1; subst. cbn [rs_exchanges length]. lia.
  Qed.

  Lemma rdv_run_map : forall evs s, snd (run s evs) = map (exchange_of (rs_conf s)) evs.
  Proof.
    induction evs as [|ev r IH]; intros s; [reflexivity|].
    cbn [rdv_run]. destruct (step s ev) as [s1 o] eqn:E1.
    specialize (IH s1). destruct (run s1 r) as [s2 os] eqn:E2. cbn [snd map] in *.
    assert (Hc : rs_conf s1 = rs_conf s) by (change s1 with (fst (s1, o)); rewrite <- E1; apply rdv_step_conf).
    assert (Ho : o = exchange_of (rs_conf s) ev) by (change o with (snd (s1, o)); rewrite <- E1; apply rdv_step_out).
    rewrite IH, Hc, Ho. reflexivity.
  Qed.

  (* the Exchange at any position of any history, from any state of the object *)
  Lemma rdv_run_at : forall s pre ev post,
    nth_error (snd (run s (pre ++ ev :: post))) (length pre) = Some (exchange_of (rs_conf s) ev).
  Proof.
    intros. rewrite rdv_run_map, map_app. cbn [map].
    rewrite nth_error_app2 by (rewrite map_length; lia).
    rewrite map_length, Nat.sub_diag. reflexivity.
  Qed.

  (* ... is the one Exchange of a new object with the same configuration *)
  Lemma rdv_run_at_is_first : forall c pre ev post,
    nth_error (snd (run (rdv_init c) (pre ++ ev :: post))) (length pre) = nth_error (snd (run (rdv_init c) [ev])) 0.
  Proof. intros. rewrite rdv_run_at. reflexivity. Qed.

  Lemma rdv_run_state_irrelevant : forall s1 s2 evs,
    rs_conf s1 = rs_conf s2 -> snd (run s1 evs) = snd (run s2 evs).
  Proof. intros s1 s2 evs H. rewrite !rdv_run_map, H. reflexivity. Qed.

  (* fronting holds for EVERY request a fronted object ever makes: it connects to the front; without an AMP cache the
     Host header names the broker, with one it names the cache subdomain computed for that very poll *)
  Lemma rdv_fronted_every_request : forall c pre ev post q r,
    rc_front c <> [] ->
    nth_error (snd (run (rdv_init c) (pre ++ ev :: post))) (length pre) = Some (Some q, r) ->
    q_connect_host q = rc_front c /\
    match rc_method c with
    | MHttp => q_host_header q = b_host (rc_broker c) /\ q_method q = bs "POST"%string /\ q_body q = Some (ev_poll ev)
    | MAmp None => q_host_header q = b_host (rc_broker c) /\ q_method q = bs "GET"%string /\ q_body q = None
    | MAmp (Some cu) =>
        q_method q = bs "GET"%string /\ q_body q = None /\
        exists u, cache_url to_unicode to_ascii sha256 h34 (amp_pub_url (rc_broker c) (ev_cb ev) (ev_poll ev)) cu (bs "c"%string) = Some u /\
                  q_host_header q = r_host u
    end.
  Proof.
    intros c pre ev post q r Hf H. rewrite rdv_run_at in H. cbn [rdv_init rs_conf] in H.
    unfold exchange_of in H. inversion H as [[Hq Hr]]. clear H Hr.
    unfold rdv_request in Hq. destruct (rc_method c) as [|cache].
    - inversion Hq; subst q.
      destruct (http_fronting (rc_broker c) (rc_front c) (ev_poll ev) Hf) as (A & B & C & D & _).
      repeat split; assumption.
    - destruct (amp_fronting to_unicode to_ascii sha256 h34 _ _ _ _ _ _ Hf Hq) as (A & B & C & D).
      destruct cache as [cu|]; repeat split; assumption.
  Qed.

  (* without a front every request of the object goes to, and names, the same host: the broker's (no cache) *)
  Lemma rdv_unfronted_every_request : forall c pre ev post q r,
    rc_front c = [] -> (rc_method c = MHttp \/ rc_method c = MAmp None) ->
    nth_error (snd (run (rdv_init c) (pre ++ ev :: post))) (length pre) = Some (Some q, r) ->
    q_connect_host q = b_host (rc_broker c) /\ q_host_header q = b_host (rc_broker c).
  Proof.
    intros c pre ev post q r Hf Hm H. rewrite rdv_run_at in H. cbn [rdv_init rs_conf] in H.
    unfold exchange_of in H. inversion H as [[Hq Hr]]. clear H Hr.
    unfold rdv_request in Hq. destruct Hm as [Hm|Hm]; rewrite Hm, Hf in Hq.
    - inversion Hq; subst q. split; reflexivity.
    - unfold amp_request in Hq. inversion Hq; subst q. split; reflexivity.
  Qed.

  (* an error of one Exchange (transport error, non-200, Location, oversize) is the error of that Exchange only *)
  Lemma rdv_errors_do_not_linger : forall c bad good,
    snd (run (rdv_init c) (bad ++ [good])) = snd (run (rdv_init c) bad) ++ [exchange_of c good].
  Proof. intros. rewrite !rdv_run_map, map_app. reflexivity. Qed.
End Object.
