(* BrokerUrlHist.v — C02, the relay URL of a match over histories, without reference to the ghost fields:
   in any history from the empty broker, a poll that returned a match was handed its URL by a step L_RvForward p of the
   history, the URL is what the list current AT THAT STEP configures for the fingerprint of the client whose offer it
   forwards, and that client's request (the step L_Client .. (Some p) that put it into the poll) occurs EARLIER in the
   history - so the list the URL was looked up in is the one current at the request or one installed after it. *)
From Coq Require Import List NArith ZArith Bool Arith Lia.
From Snow Require Import Model.Broker Proofs.BrokerProofs Proofs.BrokerSteps Proofs.BrokerThms Proofs.BrokerHist.
Import ListNotations.
Open Scope N_scope.

Definition new_client (s : state) (n : natty) (ofp : option fpr) (o : offer) (u : url) : clrec :=
  {| c_id := next_cid s; c_nat := n; c_fp := fp_of ofp; c_offer := o; c_pc := C_Send; c_fired := false;
     c_url := u; c_epoch := length (br_hist s) |}.

Definition forward_result (s : state) (f : fwd_info) : presp :=
  match lookup (f_fp f) (bridges s) with
  | Some u => PMatch {| m_offer := f_offer f; m_nat := f_nat f; m_url := u |}
  | None => PError
  end.

(* how one step changes the waiter state and the client of an entry *)
Definition w_change (s : state) (l : label) (q : nat) (e e' : entry) : Prop :=
  e_w e' = e_w e \/ (forall m, e_w e' <> W_Done (PMatch m)) \/
  (l = L_RvForward q /\ exists f, e_w e = W_Forward f /\ e_w e' = W_Done (forward_result s f)).

Definition cl_change (s : state) (l : label) (q : nat) (e e' : entry) : Prop :=
  e_cl e' = e_cl e \/
  (exists c c', e_cl e = Some c /\ e_cl e' = Some c' /\ csame c c') \/
  (exists n ofp o u, l = L_Client n ofp o (Some q) /\ lookup (fp_of ofp) (bridges s) = Some u /\
                     e_cl e' = Some (new_client s n ofp o u)).

Ltac crack H :=
  repeat match type of H with
         | match ?x with _ => _ end = Some _ => destruct x eqn:?; try discriminate
         | (if ?x then _ else _) = Some _ => destruct x eqn:?; try discriminate
         end.

Ltac same_entry :=
  repeat match goal with
         | H1 : nth_error ?l ?p = Some ?a, H2 : nth_error ?l ?p = Some ?b |- _ =>
             let E := fresh in assert (E : a = b) by congruence; subst a; clear H2
         end.

Ltac w_part v :=
  first [ left; reflexivity
        | right; left; intros ?; cbn; try destruct v; discriminate
        | right; right; split; [reflexivity|]; eexists; split; [eassumption | reflexivity] ].

Ltac cl_part :=
  first [ left; reflexivity
        | right; left; eexists; eexists; split; [eassumption|]; split; [reflexivity|];
          first [apply csame_cpc | apply csame_cfired]
        | right; right; eexists; eexists; eexists; eexists; split; [reflexivity|]; split; [eassumption | reflexivity] ].

Lemma entry_step v s l s' q e' : step v s l = Some s' -> nth_error (entries s') q = Some e' ->
  (exists sd n pt cl, l = L_Poll sd n pt cl /\ e' = new_entry sd n pt cl) \/
  (exists e, nth_error (entries s) q = Some e /\ w_change s l q e e' /\ cl_change s l q e e').
Proof.
  intros H Hq. unfold w_change, cl_change, forward_result, new_client.
  destruct l; cbn [step] in H.
  - (* Poll *)
    injection H as <-. cbn [entries] in Hq. destruct (Nat.lt_ge_cases q (length (entries s))) as [Hlt|Hge].
    + rewrite nth_error_app1 in Hq by exact Hlt. right. exists e'. split; [exact Hq|]. split; left; reflexivity.
    + rewrite nth_error_app2 in Hq by exact Hge. destruct (q - length (entries s))%nat as [|d]; cbn in Hq.
      * injection Hq as <-. left. eexists; eexists; eexists; eexists. split; reflexivity.
      * destruct d; discriminate.
  - crack H. injection H as <-. cbn [entries with_entries] in Hq.
    destruct (nth_upd_inv _ _ _ _ _ Hq) as [[<- [x [Hx ->]]]|[Hne Hq']]; right;
      [exists x; split; [exact Hx|]; same_entry; split; [w_part v | cl_part]
      | exists e'; split; [exact Hq'|]; split; left; reflexivity].
  - crack H. injection H as <-. cbn [entries with_entries] in Hq.
    destruct (nth_upd_inv _ _ _ _ _ Hq) as [[<- [x [Hx ->]]]|[Hne Hq']]; right;
      [exists x; split; [exact Hx|]; same_entry; split; [w_part v | cl_part]
      | exists e'; split; [exact Hq'|]; split; left; reflexivity].
  - crack H; injection H as <-; cbn [entries with_entries] in Hq;
    (destruct (nth_upd_inv _ _ _ _ _ Hq) as [[<- [x [Hx ->]]]|[Hne Hq']]; right;
      [exists x; split; [exact Hx|]; same_entry; split; [w_part v | cl_part]
      | exists e'; split; [exact Hq'|]; split; left; reflexivity]).
  - (* Client *)
    crack H; injection H as <-; cbn [entries] in Hq.
    + destruct (nth_upd_inv _ _ _ _ _ Hq) as [[<- [x [Hx ->]]]|[Hne Hq']]; right;
        [exists x; split; [exact Hx|]; same_entry; split; [w_part v | cl_part]
        | exists e'; split; [exact Hq'|]; split; left; reflexivity].
    + right. exists e'. split; [exact Hq|]. split; left; reflexivity.
    + right. exists e'. split; [exact Hq|]. split; left; reflexivity.
  - crack H. injection H as <-. cbn [entries with_entries] in Hq.
    destruct (nth_upd_inv _ _ _ _ _ Hq) as [[<- [x [Hx ->]]]|[Hne Hq']]; right;
      [exists x; split; [exact Hx|]; same_entry; split; [w_part v | cl_part]
      | exists e'; split; [exact Hq'|]; split; left; reflexivity].
  - (* RvForward *)
    crack H. injection H as <-. cbn [entries with_entries] in Hq.
    destruct (nth_upd_inv _ _ _ _ _ Hq) as [[<- [x [Hx ->]]]|[Hne Hq']]; right;
      [exists x; split; [exact Hx|]; same_entry; split; [w_part v | cl_part]
      | exists e'; split; [exact Hq'|]; split; left; reflexivity].
  - crack H. injection H as <-. cbn [entries with_entries] in Hq.
    destruct (nth_upd_inv _ _ _ _ _ Hq) as [[<- [x [Hx ->]]]|[Hne Hq']]; right;
      [exists x; split; [exact Hx|]; same_entry; split; [w_part v | cl_part]
      | exists e'; split; [exact Hq'|]; split; left; reflexivity].
  - crack H. injection H as <-. cbn [entries with_entries] in Hq.
    destruct (nth_upd_inv _ _ _ _ _ Hq) as [[<- [x [Hx ->]]]|[Hne Hq']]; right;
      [exists x; split; [exact Hx|]; same_entry; split; [w_part v | cl_part]
      | exists e'; split; [exact Hq'|]; split; left; reflexivity].
  - crack H. injection H as <-. cbn [entries with_entries] in Hq.
    destruct (nth_upd_inv _ _ _ _ _ Hq) as [[<- [x [Hx ->]]]|[Hne Hq']]; right;
      [exists x; split; [exact Hx|]; same_entry; split; [w_part v | cl_part]
      | exists e'; split; [exact Hq'|]; split; left; reflexivity].
  - (* Answer *)
    crack H; injection H as <-; cbn [entries] in Hq.
    + destruct (nth_upd_inv _ _ _ _ _ Hq) as [[<- [x [Hx ->]]]|[Hne Hq']]; right;
        [exists x; split; [exact Hx|]; split; [w_part v | cl_part]
        | exists e'; split; [exact Hq'|]; split; left; reflexivity].
    + right. exists e'. split; [exact Hq|]. split; left; reflexivity.
  - crack H. injection H as <-. cbn [entries with_entries] in Hq.
    destruct (nth_upd_inv _ _ _ _ _ Hq) as [[<- [x [Hx ->]]]|[Hne Hq']]; right;
      [exists x; split; [exact Hx|]; same_entry; split; [w_part v | cl_part]
      | exists e'; split; [exact Hq'|]; split; left; reflexivity].
  - (* AnswerPut *)
    crack H; injection H as <-; cbn [entries with_entries] in Hq;
    (destruct (nth_upd_inv _ _ _ _ _ Hq) as [[<- [x [Hx ->]]]|[Hne Hq']]; right;
      [exists x; split; [exact Hx|]; same_entry;
       repeat match goal with |- context [e_buf ?z] => destruct (e_buf z) end; (split; [w_part v | cl_part])
      | exists e'; split; [exact Hq'|]; split; left; reflexivity]).
  - crack H. injection H as <-. cbn [entries with_entries] in Hq.
    destruct (nth_upd_inv _ _ _ _ _ Hq) as [[<- [x [Hx ->]]]|[Hne Hq']]; right;
      [exists x; split; [exact Hx|]; same_entry; split; [w_part v | cl_part]
      | exists e'; split; [exact Hq'|]; split; left; reflexivity].
  - (* Install *)
    injection H as <-. right. exists e'. split; [exact Hq|]. split; left; reflexivity.
Qed.

(* ---- the two facts carried along a history ---- *)

(* the client of a poll was put there by a request of the history, checked against the list current at that request *)
Definition client_from_request (v : version) (s0 : state) (ls : list label) (q : nat) (c : clrec) : Prop :=
  exists pre n ofp o post sreq, ls = pre ++ L_Client n ofp o (Some q) :: post /\ run v s0 pre = Some sreq /\
    c_fp c = fp_of ofp /\ c_offer c = o /\ c_nat c = n /\ lookup (fp_of ofp) (bridges sreq) = Some (c_url c).

(* a match was returned by a forward step of the history, with the URL of the list current at that step, and the
   client whose offer it carries was in the poll by then *)
Definition match_from_forward (v : version) (s0 : state) (ls : list label) (q : nat) (m : match_info) : Prop :=
  exists pre post sfwd e1 c, ls = pre ++ L_RvForward q :: post /\ run v s0 pre = Some sfwd /\
    nth_error (entries sfwd) q = Some e1 /\ e_cl e1 = Some c /\
    m_offer m = c_offer c /\ m_nat m = c_nat c /\ lookup (c_fp c) (bridges sfwd) = Some (m_url m).

Definition traced (v : version) (s0 : state) (ls : list label) (s : state) : Prop :=
  forall q e, nth_error (entries s) q = Some e ->
    (forall c, e_cl e = Some c -> client_from_request v s0 ls q c) /\
    (forall m, e_w e = W_Done (PMatch m) -> match_from_forward v s0 ls q m).

Lemma traced_run v s0 : forall ls2 ls1 s1 s, Inv v s1 -> run v s0 ls1 = Some s1 -> run v s1 ls2 = Some s ->
  traced v s0 ls1 s1 -> traced v s0 (ls1 ++ ls2) s.
Proof.
  induction ls2 as [|l ls2 IH]; intros ls1 s1 s I H1 H2 T; cbn [run] in H2.
  - injection H2 as <-. rewrite app_nil_r. exact T.
  - destruct (step v s1 l) as [s1'|] eqn:Hs; [|discriminate].
    replace (ls1 ++ l :: ls2) with ((ls1 ++ [l]) ++ ls2) by (rewrite <- app_assoc; reflexivity).
    apply (IH (ls1 ++ [l]) s1' s); [eapply step_preserves_inv; eassumption | | exact H2 |].
    + rewrite run_app, H1. cbn [run]. rewrite Hs. reflexivity.
    + intros q e' Hq.
      destruct (entry_step v s1 l s1' q e' Hs Hq) as [[sd [n [pt [cl [-> ->]]]]]|[e [He [Hw Hc]]]].
      { split; [intros c Hc; discriminate | intros m Hm; discriminate]. }
      destruct (T q e He) as [TA TB]. split.
      * (* client *)
        intros c' Hc'. destruct Hc as [Hsame|[[c [c2 [Hce [Hce' Hcs]]]]|[n [ofp [o [u [-> [Hl Hnew]]]]]]]].
        -- rewrite Hsame in Hc'. destruct (TA c' Hc') as [pre [n [ofp [o [post [sreq [E R]]]]]]].
           exists pre, n, ofp, o, (post ++ [l]), sreq. split; [rewrite E, <- app_assoc; reflexivity | exact R].
        -- rewrite Hce' in Hc'. injection Hc' as <-.
           destruct (TA c Hce) as [pre [n [ofp [o [post [sreq [E [R [A1 [A2 [A3 A4]]]]]]]]]]].
           destruct Hcs as (_ & Hn & Hf & Ho & Hu & _).
           exists pre, n, ofp, o, (post ++ [l]), sreq. split; [rewrite E, <- app_assoc; reflexivity|].
           split; [exact R|]. rewrite Hf, Ho, Hn, Hu. repeat split; assumption.
        -- rewrite Hnew in Hc'. injection Hc' as <-.
           exists ls1, n, ofp, o, [], s1. split; [reflexivity|]. split; [exact H1|]. cbn. repeat split. exact Hl.
      * (* match *)
        intros m Hm. destruct Hw as [Hsame|[Hnot|[-> [f [Hf Hdone]]]]].
        -- rewrite Hsame in Hm. destruct (TB m Hm) as [pre [post [sfwd [e1 [c [E R]]]]]].
           exists pre, (post ++ [l]), sfwd, e1, c. split; [rewrite E, <- app_assoc; reflexivity | exact R].
        -- elim (Hnot m Hm).
        -- rewrite Hdone in Hm. unfold forward_result in Hm.
           destruct (lookup (f_fp f) (bridges s1)) as [u|] eqn:Hl; [|discriminate]. injection Hm as <-.
           destruct (inv_entries v s1 I q e He) as [_ [[Hfw _] _]].
           destruct (Hfw f Hf) as [c [Hce [Ho [Hn Hfp]]]].
           exists ls1, [], s1, e, c. split; [reflexivity|]. split; [exact H1|]. split; [exact He|]. split; [exact Hce|].
           cbn. split; [exact Ho|]. split; [exact Hn|]. rewrite <- Hfp. exact Hl.
Qed.

Lemma traced_init v br : forall ls s, run v (init br) ls = Some s -> traced v (init br) ls s.
Proof.
  intros ls s H. change ls with ([] ++ ls).
  apply (traced_run v (init br) ls [] (init br) s (inv_init v br) eq_refl H).
  intros q e Hq. destruct q; discriminate.
Qed.

(* C02: in any history a poll's match carries the URL that the list current at its forward step configures for the
   fingerprint the client named in its request, that request comes earlier in the history and was accepted against the
   list current then; offer and NAT type are the request's. *)
Theorem relay_url_history v br ls s p e m :
  run v (init br) ls = Some s -> nth_error (entries s) p = Some e -> e_w e = W_Done (PMatch m) ->
  exists pre n ofp o mid post sreq sfwd,
    ls = pre ++ L_Client n ofp o (Some p) :: mid ++ L_RvForward p :: post /\
    run v (init br) pre = Some sreq /\
    run v (init br) (pre ++ L_Client n ofp o (Some p) :: mid) = Some sfwd /\
    m_offer m = o /\ m_nat m = n /\
    lookup (fp_of ofp) (bridges sreq) <> None /\
    lookup (fp_of ofp) (bridges sfwd) = Some (m_url m).
Proof.
  intros H Hp Hw.
  destruct (traced_init v br ls s H p e Hp) as [_ TB].
  destruct (TB m Hw) as [pre2 [post2 [sfwd [e1 [c [E [R [He1 [Hc1 [Ho [Hn Hl]]]]]]]]]]].
  destruct (traced_init v br pre2 sfwd R p e1 He1) as [TA _].
  destruct (TA c Hc1) as [pre [n [ofp [o [mid [sreq [E2 [R2 [A1 [A2 [A3 A4]]]]]]]]]]].
  exists pre, n, ofp, o, mid, post2, sreq, sfwd.
  split; [rewrite E, E2, <- app_assoc; reflexivity|]. split; [exact R2|]. split; [rewrite <- E2; exact R|].
  split; [congruence|]. split; [congruence|]. split; [rewrite A4; discriminate|]. rewrite <- A1. exact Hl.
Qed.
