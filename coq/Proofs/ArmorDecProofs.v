(* ArmorDecProofs.v — the decoder automaton on armored documents: round trip,
   whitespace re-separation, size limit. *)
From Coq Require Import List NArith ZArith Lia Bool Arith String.
From Coq Require Import ZifyN ZifyNat ZifyBool.
From Snow Require Import Lib.Wire Model.Base64 Model.Armor Proofs.Base64Proofs Proofs.ArmorEncProofs.
Import ListNotations.
Open Scope N_scope.

(* the automaton's state outside an error: tokenizer (mode, count, data of the text token being read),
   inside pre?, words written so far *)
Definition mkb (m : mode) (n : N) (tb : bytes) (a : bool) (o : list bytes) : dst :=
  {| tkz := tk m n tb; active := a; out_rev := o; halt := None |}.
Definition mk (m : mode) (n : N) (a : bool) (o : list bytes) : dst := mkb m n [] a o.
Definition st (t : tks) (a : bool) (o : list bytes) : dst := {| tkz := t; active := a; out_rev := o; halt := None |}.

Definition strip (t : bytes) : bytes := filter (fun c => negb (isws c)) t.
Definition noLT (t : bytes) : Prop := Forall (fun c => c <> LT) t.
Definition blen (t : bytes) : N := N.of_nat (List.length t).

Lemma blen_cons : forall c t, blen (c :: t) = blen t + 1.
Proof. intros. unfold blen. cbn [List.length]. lia. Qed.
Lemma blen_app : forall a b, blen (a ++ b) = blen a + blen b.
Proof. intros. unfold blen. rewrite app_length. lia. Qed.

Lemma run_app : forall a b s, run s (a ++ b) = run (run s a) b.
Proof. intros. unfold run. apply fold_left_app. Qed.

Lemma run_cons : forall s c l, run s (c :: l) = run (step s c) l.
Proof. reflexivity. Qed.

Lemma strip_app : forall a b, strip (a ++ b) = strip a ++ strip b.
Proof. intros. unfold strip. apply filter_app. Qed.

(* ---- the word splitter ---- *)
Lemma words_aux_concat : forall l cur, List.concat (words_aux l cur) = rev cur ++ strip l.
Proof.
  induction l as [|c l IH]; intros cur.
  - cbn [words_aux strip filter]. rewrite app_nil_r. destruct cur; [reflexivity|].
    cbn [List.concat]. rewrite rev_append_rev, !app_nil_r. reflexivity.
  - cbn [words_aux strip filter]. fold (strip l). destruct (isws c) eqn:E; cbn [negb].
    + destruct cur as [|x cur]; [rewrite IH; reflexivity|].
      cbn [List.concat]. rewrite IH. rewrite rev_append_rev, app_nil_r. reflexivity.
    + rewrite IH. cbn [rev]. rewrite <- app_assoc. reflexivity.
Qed.

Lemma words_concat : forall l, List.concat (words l) = strip l.
Proof. intros. unfold words. rewrite words_aux_concat. reflexivity. Qed.

Lemma words_aux_len : forall l cur, Forall (fun w => (List.length w <= List.length cur + List.length l)%nat) (words_aux l cur).
Proof.
  induction l as [|c l IH]; intros cur.
  - cbn [words_aux]. destruct cur; [constructor|]. constructor; [|constructor].
    rewrite rev_append_rev, app_nil_r, rev_length. cbn [List.length]. lia.
  - cbn [words_aux]. destruct (isws c).
    + destruct cur as [|x cur].
      * eapply Forall_impl; [|apply IH]. cbv beta. cbn [List.length]. intros; lia.
      * constructor.
        -- rewrite rev_append_rev, app_nil_r, rev_length. cbn [List.length]. lia.
        -- eapply Forall_impl; [|apply IH]. cbv beta. cbn [List.length]. intros; lia.
    + eapply Forall_impl; [|apply IH]. cbv beta. cbn [List.length]. intros; lia.
Qed.

Lemma words_len : forall l, Forall (fun w => (List.length w <= List.length l)%nat) (words l).
Proof. intros. unfold words. apply (words_aux_len l []). Qed.

Lemma cut_long_short : forall ws, Forall (fun w => N.of_nat (List.length w) < TOOLONG) ws -> cut_long ws = (ws, false).
Proof.
  induction 1 as [|w ws Hw Hr IH]; [reflexivity|]. cbn [cut_long].
  replace (TOOLONG <=? N.of_nat (List.length w)) with false by (symmetry; apply N.leb_gt; exact Hw).
  rewrite IH. reflexivity.
Qed.

(* ---- Text() on text without CR, NUL, '&' is the identity ---- *)
Definition plain (t : bytes) : Prop := Forall (fun c => c <> AMP /\ c <> 13) t.

Lemma conv_nl_plain : forall t, Forall (fun c => c <> 13) t -> conv_nl t = t.
Proof.
  induction 1 as [|c t Hc Ht IH]; [reflexivity|]. cbn [conv_nl].
  replace (c =? 13) with false by (symmetry; apply N.eqb_neq; exact Hc). rewrite IH. reflexivity.
Qed.
Lemma unesc_plain : forall t, Forall (fun c => c <> AMP) t -> unesc O t = t.
Proof.
  induction 1 as [|c t Hc Ht IH]; [reflexivity|]. cbn [unesc].
  replace (c =? AMP) with false by (symmetry; apply N.eqb_neq; exact Hc). rewrite IH. reflexivity.
Qed.

(* convertNewlines only rewrites whitespace into whitespace *)
Lemma strip_cons : forall c l, strip (c :: l) = if isws c then strip l else c :: strip l.
Proof. intros. unfold strip. cbn [filter]. destruct (isws c); reflexivity. Qed.

Lemma strip_conv_nl : forall t, strip (conv_nl t) = strip t.
Proof.
  assert (H : forall t, strip (conv_nl t) = strip t /\ forall c, strip (conv_nl (c :: t)) = strip (c :: t)).
  { induction t as [|c2 t [IH1 IH2]].
    - split; [reflexivity|]. intros c. cbn [conv_nl]. destruct (N.eqb_spec c 13) as [->|]; reflexivity.
    - split; [apply IH2|]. intros c.
      assert (E : conv_nl (c :: c2 :: t) =
                  if c =? 13 then 10 :: (if c2 =? 10 then conv_nl t else conv_nl (c2 :: t)) else c :: conv_nl (c2 :: t))
        by reflexivity.
      rewrite E. clear E. destruct (N.eqb_spec c 13) as [->|Hc]; cbv iota.
      + rewrite (strip_cons 10), (strip_cons 13). change (isws 10) with true. change (isws 13) with true. cbv iota.
        destruct (N.eqb_spec c2 10) as [->|H10].
        * rewrite (strip_cons 10). change (isws 10) with true. cbv iota. exact IH1.
        * apply IH2.
      + rewrite (strip_cons c (conv_nl (c2 :: t))), (strip_cons c (c2 :: t)), IH2. reflexivity. }
  intros t. apply H.
Qed.
Lemma conv_nl_eq1 : forall c, conv_nl [c] = if c =? 13 then [10] else [c].
Proof. reflexivity. Qed.
Lemma conv_nl_eq2 : forall c c2 t, conv_nl (c :: c2 :: t) =
  if c =? 13 then 10 :: (if c2 =? 10 then conv_nl t else conv_nl (c2 :: t)) else c :: conv_nl (c2 :: t).
Proof. reflexivity. Qed.

Lemma conv_nl_noamp : forall t, Forall (fun c => c <> AMP) t -> Forall (fun c => c <> AMP) (conv_nl t).
Proof.
  assert (H : forall t, Forall (fun c => c <> AMP) t ->
              Forall (fun c => c <> AMP) (conv_nl t) /\ forall c, c <> AMP -> Forall (fun c => c <> AMP) (conv_nl (c :: t))).
  { induction t as [|c2 t IH]; intros Ht.
    - split; [constructor|]. intros c Hc. rewrite conv_nl_eq1. destruct (c =? 13); (constructor; [|constructor]); [discriminate|exact Hc].
    - inversion Ht as [|? ? H2 Ht']; subst. destruct (IH Ht') as [IH1 IH2].
      split; [apply IH2; exact H2|]. intros c Hc. rewrite conv_nl_eq2. destruct (c =? 13).
      + constructor; [discriminate|]. destruct (c2 =? 10); [exact IH1|apply IH2; exact H2].
      + constructor; [exact Hc|apply IH2; exact H2]. }
  intros t Ht. apply (H t Ht).
Qed.
Lemma conv_nl_len : forall t, (List.length (conv_nl t) <= List.length t)%nat.
Proof.
  assert (H : forall t, (List.length (conv_nl t) <= List.length t)%nat /\
                        forall c, (List.length (conv_nl (c :: t)) <= S (List.length t))%nat).
  { induction t as [|c2 t [IH1 IH2]].
    - split; [cbn; lia|]. intros c. rewrite conv_nl_eq1. destruct (c =? 13); cbn [List.length]; lia.
    - split; [apply IH2|]. intros c. rewrite conv_nl_eq2. destruct (c =? 13).
      + destruct (c2 =? 10); cbn [List.length]; [lia|]. specialize (IH2 c2). lia.
      + cbn [List.length]. specialize (IH2 c2). lia. }
  intros t. apply H.
Qed.

(* the words decodeToWriter writes for a text token whose text has no '&' *)
Lemma text_words : forall t, Forall (fun c => c <> AMP) t -> blen t < MAXBUF ->
  exists ws, cut_long (words (text_data KText t)) = (ws, false) /\ List.concat ws = strip t.
Proof.
  intros t Ht Hn. exists (words (text_data KText t)). unfold text_data, unescape.
  rewrite (unesc_plain _ (conv_nl_noamp t Ht)). split.
  - apply cut_long_short. eapply Forall_impl; [|apply words_len]. cbv beta. intros w Hw.
    pose proof (conv_nl_len t). unfold blen, MAXBUF, TOOLONG in *. lia.
  - rewrite words_concat. apply strip_conv_nl.
Qed.

(* ---- single steps ---- *)
Lemma apply_nil : forall t a o, apply_toks t a o [] = {| tkz := t; active := a; out_rev := o; halt := None |}.
Proof. reflexivity. Qed.

Lemma step_txt : forall n tb a o c, n + 1 < MAXBUF -> c <> LT ->
  step (mkb MTxt n tb a o) c = mkb MTxt (n + 1) (c :: tb) a o.
Proof.
  intros n tb a o c Hn Hc. unfold step, mkb, tk_step, tk. cbn [halt tkz tmd tcnt tbuf active out_rev].
  replace (MAXBUF <=? n + 1) with false by (symmetry; apply N.leb_gt; exact Hn).
  unfold txt_on. replace (c =? LT) with false by (symmetry; apply N.eqb_neq; exact Hc). reflexivity.
Qed.

Lemma step_txt_lt : forall n tb a o, n + 1 < MAXBUF -> step (mkb MTxt n tb a o) LT = mkb MLt (n + 1) tb a o.
Proof.
  intros n tb a o Hn. unfold step, mkb, tk_step, tk. cbn [halt tkz tmd tcnt tbuf active out_rev].
  replace (MAXBUF <=? n + 1) with false by (symmetry; apply N.leb_gt; exact Hn).
  reflexivity.
Qed.

(* what decodeToWriter does with the text token that ends where a tag starts *)
Definition flushed (a : bool) (tb : bytes) (o : list bytes) : dst -> Prop :=
  fun s => s = apply_toks (tkz s) a o (flush KText tb).

Lemma step_lt_slash : forall n tb a o, n + 1 < MAXBUF ->
  step (mkb MLt n tb a o) SLASH = apply_toks (tk MEndOpen 2 []) a o (flush KText tb).
Proof.
  intros n tb a o Hn. unfold step, mkb, tk_step, tk. cbn [halt tkz tmd tcnt tbuf active out_rev].
  replace (MAXBUF <=? n + 1) with false by (symmetry; apply N.leb_gt; exact Hn).
  reflexivity.
Qed.

Lemma step_lt_p : forall n tb a o, n + 1 < MAXBUF ->
  step (mkb MLt n tb a o) 112 = apply_toks (tk (MTag false TgName [112] 112) 2 []) a o (flush KText tb).
Proof.
  intros n tb a o Hn. unfold step, mkb, tk_step, tk. cbn [halt tkz tmd tcnt tbuf active out_rev].
  replace (MAXBUF <=? n + 1) with false by (symmetry; apply N.leb_gt; exact Hn).
  reflexivity.
Qed.

(* outside pre a text token is dropped *)
Lemma apply_flush_inactive : forall t tb o, apply_toks t false o (flush KText tb) = st t false o.
Proof. intros t [|c tb] o; reflexivity. Qed.

(* inside pre its words are written *)
Lemma apply_flush_active : forall t tb o ws,
  cut_long (words (text_data KText (rev tb))) = (ws, false) ->
  apply_toks t true o (flush KText tb) = st t true (rev ws ++ o).
Proof.
  intros t tb o ws H. destruct tb as [|c tb].
  - cbn in H. injection H as <-. reflexivity.
  - unfold flush, apply_toks. cbn [dw_toks dw_tok]. rewrite rev_append_rev, app_nil_r. rewrite H.
    cbn [w_end w_act w_words]. rewrite app_nil_r. rewrite rev_append_rev. reflexivity.
Qed.

Lemma run_text : forall t n tb a o, noLT t -> n + blen t < MAXBUF ->
  run (mkb MTxt n tb a o) t = mkb MTxt (n + blen t) (rev t ++ tb) a o.
Proof.
  induction t as [|c t IH]; intros n tb a o Hs Hn.
  - cbn. unfold blen. cbn. rewrite N.add_0_r. reflexivity.
  - inversion Hs as [|? ? Hc Ht]; subst. rewrite blen_cons in *.
    rewrite run_cons.
    rewrite step_txt by (assumption || lia).
    rewrite IH by (assumption || lia).
    cbn [rev]. rewrite <- app_assoc. cbn [app]. f_equal. lia.
Qed.

Lemma run_open_pre : forall o, run (st (tk (MTag false TgName [112] 112) 2 []) false o) (bs "re>"%string) = mk MTxt 0 true o.
Proof. intros o. vm_compute. reflexivity. Qed.
Lemma run_close_pre : forall o, run (st (tk MEndOpen 2 []) true o) (bs "pre>"%string) = mk MTxt 0 false o.
Proof. intros o. vm_compute. reflexivity. Qed.
Lemma run_boiler_start : run dinit boilerplate_start = mkb MTxt 1 [LF] false [].
Proof. vm_compute. reflexivity. Qed.
Lemma boiler_end_eq : boilerplate_end = LT :: SLASH :: bs "body>"%string ++ [LF] ++ bs "</html>"%string.
Proof. vm_compute. reflexivity. Qed.
Lemma run_boiler_end_tail : forall o,
  run (st (tk MEndOpen 2 []) false o) (bs "body>"%string ++ [LF] ++ bs "</html>"%string) = mk MTxt 0 false o.
Proof. intros o. vm_compute. reflexivity. Qed.
Lemma pre_open_eq : bs "<pre>"%string = LT :: 112 :: bs "re>"%string.
Proof. vm_compute. reflexivity. Qed.
Lemma pre_close_eq : bs "</pre>"%string = LT :: SLASH :: bs "pre>"%string.
Proof. vm_compute. reflexivity. Qed.

Lemma run_boiler_end : forall n tb o, n + 2 < MAXBUF ->
  run (mkb MTxt n tb false o) boilerplate_end = mk MTxt 0 false o.
Proof.
  intros n tb o Hn. rewrite boiler_end_eq.
  rewrite !run_cons.
  rewrite step_txt_lt by lia. rewrite step_lt_slash by lia. rewrite apply_flush_inactive.
  apply run_boiler_end_tail.
Qed.

(* ---- documents: boilerplate, pre elements with arbitrary '<'- and '&'-free text, such text between ---- *)
Definition seg_bytes (sg : bytes * bytes) : bytes := bs "<pre>"%string ++ fst sg ++ bs "</pre>"%string ++ snd sg.
Definition doc_of (segs : list (bytes * bytes)) : bytes :=
  boilerplate_start ++ List.concat (map seg_bytes segs) ++ boilerplate_end.
Definition noAMP (t : bytes) : Prop := Forall (fun c => c <> AMP) t.
(* +2: the tokenizer reads two bytes of look-ahead ("</") into the text token's buffer *)
Definition seg_ok (sg : bytes * bytes) : Prop :=
  noLT (fst sg) /\ noAMP (fst sg) /\ noLT (snd sg) /\ blen (fst sg) + 2 < MAXBUF /\ blen (snd sg) + 2 < MAXBUF.

Definition words_cat (o : list bytes) : bytes := List.concat (rev o).

Lemma run_seg : forall t post n tb o, n + 2 < MAXBUF -> seg_ok (t, post) ->
  exists o', run (mkb MTxt n tb false o) (seg_bytes (t, post)) = mkb MTxt (blen post) (rev post) false o' /\
             words_cat o' = words_cat o ++ strip t.
Proof.
  intros t post n tb o Hn (H1 & HA & H2 & H3 & H4). cbn [fst snd] in *.
  destruct (text_words t HA ltac:(lia)) as (ws & Hws & Hcat).
  exists (rev ws ++ o). split.
  - unfold seg_bytes. cbn [fst snd]. rewrite pre_open_eq, pre_close_eq.
    cbn [app]. rewrite !run_cons.
    rewrite step_txt_lt by lia. rewrite step_lt_p by lia. rewrite apply_flush_inactive.
    rewrite run_app. rewrite run_open_pre.
    rewrite run_app. unfold mk. rewrite run_text by (assumption || lia).
    cbn [app]. rewrite !run_cons.
    rewrite step_txt_lt by lia. rewrite step_lt_slash by lia.
    rewrite app_nil_r. rewrite (apply_flush_active _ (rev t) o ws) by (rewrite rev_involutive; exact Hws).
    rewrite run_app. rewrite run_close_pre.
    unfold mk. rewrite run_text by (assumption || lia).
    rewrite N.add_0_l, app_nil_r. reflexivity.
  - unfold words_cat. rewrite rev_app_distr, rev_involutive, concat_app, Hcat. reflexivity.
Qed.

Lemma run_segs : forall segs n tb o, n + 2 < MAXBUF -> Forall seg_ok segs ->
  exists n' tb' o', n' + 2 < MAXBUF /\
    run (mkb MTxt n tb false o) (List.concat (map seg_bytes segs)) = mkb MTxt n' tb' false o' /\
    words_cat o' = words_cat o ++ strip (List.concat (map fst segs)).
Proof.
  induction segs as [|[t post] segs IH]; intros n tb o Hn Hok.
  - exists n, tb, o. split; [assumption|]. split; [reflexivity|]. cbn. rewrite app_nil_r. reflexivity.
  - inversion Hok as [|? ? Hs Hrest]; subst.
    cbn [map List.concat]. rewrite run_app.
    destruct (run_seg t post n tb o Hn Hs) as (o1 & E1 & C1). rewrite E1.
    destruct Hs as (_ & _ & _ & _ & Hp). cbn [snd] in Hp.
    destruct (IH (blen post) (rev post) o1 Hp Hrest) as (n' & tb' & o' & Hn' & E & C).
    exists n', tb', o'. split; [assumption|]. split; [exact E|].
    rewrite C, C1. cbn [fst]. rewrite strip_app, <- app_assoc. reflexivity.
Qed.

Lemma finish_quiet : forall o, finish (mk MTxt 0 false o) = (rev o, TEnd).
Proof. intros o. unfold finish, mk, mkb. cbn. rewrite rev_append_rev, app_nil_r. reflexivity. Qed.

Lemma scan_doc : forall segs, Forall seg_ok segs ->
  armor_scan (doc_of segs) = (strip (List.concat (map fst segs)), TEnd).
Proof.
  intros segs Hok. unfold armor_scan, armor_words_of, doc_of.
  rewrite run_app, run_boiler_start. rewrite run_app.
  destruct (run_segs segs 1 [LF] [] ltac:(unfold MAXBUF; lia) Hok) as (n' & tb' & o' & Hn' & E & C).
  rewrite E. rewrite run_boiler_end by assumption. rewrite finish_quiet.
  f_equal. exact C.
Qed.

Lemma decode_doc : forall segs p, bytes_ok p = true -> Forall seg_ok segs ->
  strip (List.concat (map fst segs)) = VERSION :: b64_encode p ->
  armor_decode (doc_of segs) = DOk p.
Proof.
  intros segs p Hp Hok Hs. unfold armor_decode. rewrite scan_doc by assumption. rewrite Hs.
  unfold decode_result. rewrite N.eqb_refl. cbn [negb].
  rewrite b64_roundtrip_seq by assumption. reflexivity.
Qed.

(* ------------------------------------------------------------------ the encoder's document *)
Definition armor_char (c : N) : Prop :=
  c = PAD \/ c = VERSION \/ (65 <= c <= 90) \/ (97 <= c <= 122) \/ (48 <= c <= 57) \/ c = 43 \/ c = 47.

Lemma armor_char_enc6 : forall n, armor_char (enc6 n).
Proof. intros n. unfold armor_char. right; right. apply enc6_range. Qed.
Lemma armor_char_pad : armor_char PAD.
Proof. left; reflexivity. Qed.

Lemma b64_encode_chars : forall p, Forall armor_char (b64_encode p).
Proof.
  intros p. induction p as [ | a | a b | a b c p IH] using list_ind3.
  - constructor.
  - cbn [b64_encode enc_tail].
    repeat (apply Forall_cons; [first [apply armor_char_enc6 | apply armor_char_pad]|]). apply Forall_nil.
  - cbn [b64_encode enc_tail].
    repeat (apply Forall_cons; [first [apply armor_char_enc6 | apply armor_char_pad]|]). apply Forall_nil.
  - cbn [b64_encode enc3 app].
    repeat (apply Forall_cons; [apply armor_char_enc6|]). exact IH.
Qed.

Lemma armor_char_safe : forall c, armor_char c -> c <> LT /\ isws c = false.
Proof.
  intros c H. unfold armor_char, PAD, VERSION in H. unfold LT, isws.
  split; [lia|]. destruct H as [->|[->|H]]; try reflexivity.
  repeat match goal with |- context [?a =? ?b] => destruct (N.eqb_spec a b); [lia|] end. reflexivity.
Qed.

Lemma armor_char_noamp : forall c, armor_char c -> c <> AMP.
Proof. intros c H. unfold armor_char, PAD, VERSION in H. unfold AMP. lia. Qed.

Definition seg_of (ws : list bytes) : bytes * bytes := (LF :: List.concat (map word_line ws), [LF]).

Lemma element_seg : forall ws, element ws = seg_bytes (seg_of ws).
Proof.
  intros ws. unfold element, seg_bytes, seg_of, PRE_OPEN, PRE_CLOSE. cbn [fst snd].
  rewrite <- !app_assoc. reflexivity.
Qed.

Lemma armor_encode_doc : forall p, armor_encode p = doc_of (map seg_of (armor_elements p)).
Proof.
  intros p. unfold armor_encode, doc_of. rewrite map_map.
  rewrite (map_ext element (fun x => seg_bytes (seg_of x)) element_seg). reflexivity.
Qed.

Lemma strip_words : forall ws, Forall (Forall armor_char) ws ->
  strip (List.concat (map word_line ws)) = List.concat ws.
Proof.
  induction ws as [|w ws IH]; intros H; [reflexivity|].
  inversion H as [|? ? Hw Hr]; subst. cbn [map List.concat]. unfold word_line at 1.
  rewrite !strip_app. rewrite IH by assumption.
  assert (E : strip w = w).
  { clear -Hw. induction Hw as [|c w Hc Hw IHw]; [reflexivity|].
    cbn [strip filter]. destruct (armor_char_safe c Hc) as [_ ->]. cbn [negb]. fold (strip w).
    rewrite IHw. reflexivity. }
  rewrite E. change (strip [LF]) with (@nil N). rewrite app_nil_r. reflexivity.
Qed.

Lemma noLT_words : forall ws, Forall (Forall armor_char) ws -> noLT (List.concat (map word_line ws)).
Proof.
  induction ws as [|w ws IH]; intros H; [constructor|].
  inversion H as [|? ? Hw Hr]; subst. cbn [map List.concat]. unfold word_line at 1, noLT.
  rewrite !Forall_app. split; [split|].
  - eapply Forall_impl; [|exact Hw]. intros c Hc. apply (armor_char_safe c Hc).
  - constructor; [unfold LF, LT; lia|constructor].
  - apply IH. assumption.
Qed.

Lemma noAMP_words : forall ws, Forall (Forall armor_char) ws -> noAMP (List.concat (map word_line ws)).
Proof.
  induction ws as [|w ws IH]; intros H; [constructor|].
  inversion H as [|? ? Hw Hr]; subst. cbn [map List.concat]. unfold word_line at 1, noAMP.
  rewrite !Forall_app. split; [split|].
  - eapply Forall_impl; [|exact Hw]. intros c Hc. apply (armor_char_noamp c Hc).
  - constructor; [unfold LF, AMP; lia|constructor].
  - apply IH. assumption.
Qed.

Lemma len_word_lines : forall ws, Forall (fun w => (List.length w <= 32)%nat) ws ->
  (List.length (List.concat (map word_line ws)) <= 33 * List.length ws)%nat.
Proof.
  induction ws as [|w ws IH]; intros H; [cbn; lia|].
  inversion H; subst. cbn [map List.concat List.length]. unfold word_line at 1.
  rewrite !app_length. cbn [List.length]. specialize (IH ltac:(assumption)). lia.
Qed.

Lemma in_group_chars {A} (P : A -> Prop) : forall n l, (1 <= n)%nat -> Forall P l -> Forall (Forall P) (group n l).
Proof.
  intros n l Hn H. apply Forall_forall. intros g Hg. apply Forall_forall. intros x Hx.
  rewrite Forall_forall in H. apply H. rewrite <- (group_concat n l Hn).
  apply in_concat. exists g. split; assumption.
Qed.

Lemma armor_words_facts : forall p,
  Forall (Forall armor_char) (armor_words p) /\
  Forall (fun w => (1 <= List.length w <= 32)%nat) (armor_words p) /\
  List.concat (armor_words p) = VERSION :: b64_encode p.
Proof.
  intros p. unfold armor_words, bytesPerChunk. repeat split.
  - apply in_group_chars; [lia|]. constructor; [right; left; reflexivity|apply b64_encode_chars].
  - apply group_sizes. lia.
  - apply group_concat. lia.
Qed.

Lemma armor_elements_facts : forall p,
  Forall (fun ws => Forall (Forall armor_char) ws /\
                    Forall (fun w => (1 <= List.length w <= 32)%nat) ws /\
                    (1 <= List.length ws <= 992)%nat) (armor_elements p) /\
  List.concat (List.concat (armor_elements p)) = VERSION :: b64_encode p.
Proof.
  intros p. destruct (armor_words_facts p) as (H1 & H2 & H3).
  unfold armor_elements, chunksPerElement. split.
  - pose proof (in_group_chars (Forall armor_char) 992%nat _ ltac:(lia) H1) as G1.
    pose proof (in_group_chars (fun w => (1 <= List.length w <= 32)%nat) 992%nat _ ltac:(lia) H2) as G2.
    pose proof (group_sizes 992%nat (armor_words p) ltac:(lia)) as G3.
    rewrite Forall_forall in *. intros ws Hws. auto.
  - rewrite group_concat by lia. exact H3.
Qed.

Lemma seg_of_ok : forall ws, Forall (Forall armor_char) ws ->
  Forall (fun w => (1 <= List.length w <= 32)%nat) ws -> (List.length ws <= 992)%nat -> seg_ok (seg_of ws).
Proof.
  intros ws Hc Hl Hn. unfold seg_ok, seg_of. cbn [fst snd]. split; [|split; [|split; [|split]]].
  - constructor; [unfold LF, LT; lia|]. apply noLT_words. assumption.
  - constructor; [unfold LF, AMP; lia|]. apply noAMP_words. assumption.
  - constructor; [unfold LF, LT; lia|constructor].
  - assert (Hl' : Forall (fun w => (List.length w <= 32)%nat) ws)
      by (eapply Forall_impl; [|exact Hl]; cbv beta; intros; lia).
    pose proof (len_word_lines ws Hl') as L. unfold blen, MAXBUF. cbn [List.length]. lia.
  - unfold blen, MAXBUF. cbn. lia.
Qed.

Lemma strip_segs : forall els, Forall (Forall (Forall armor_char)) els ->
  strip (List.concat (map fst (map seg_of els))) = List.concat (List.concat els).
Proof.
  induction els as [|ws els IH]; intros H; [reflexivity|].
  inversion H; subst. cbn [map List.concat fst seg_of]. rewrite concat_app.
  rewrite strip_app. rewrite IH by assumption.
  change (LF :: List.concat (map word_line ws)) with ([LF] ++ List.concat (map word_line ws)).
  rewrite strip_app. rewrite strip_words by assumption. reflexivity.
Qed.

Lemma roundtrip : forall p, bytes_ok p = true -> armor_decode (armor_encode p) = DOk p.
Proof.
  intros p Hp. rewrite armor_encode_doc.
  destruct (armor_elements_facts p) as (F & C).
  apply decode_doc; [assumption| |].
  - rewrite Forall_forall in *. intros sg Hsg. apply in_map_iff in Hsg as (ws & <- & Hws).
    destruct (F ws Hws) as (A1 & A2 & A3). apply seg_of_ok; [assumption|assumption|lia].
  - rewrite strip_segs; [exact C|].
    rewrite Forall_forall in *. intros ws Hws. apply (F ws Hws).
Qed.

(* ------------------------------------------------------------------ shape *)
Definition element_text (ws : list bytes) : bytes := LF :: List.concat (map word_line ws).

Lemma shape : forall p, exists els : list (list bytes),
  armor_encode p = boilerplate_start ++ List.concat (map element els) ++ boilerplate_end /\
  Forall (fun ws => (1 <= List.length ws <= 992)%nat /\
                    Forall (fun w => (1 <= List.length w <= 32)%nat /\ Forall armor_char w) ws /\
                    element ws = bs "<pre>"%string ++ element_text ws ++ bs "</pre>"%string ++ [LF] /\
                    blen (element_text ws) <= 32737) els /\
  List.concat (List.concat els) = VERSION :: b64_encode p.
Proof.
  intros p. exists (armor_elements p). destruct (armor_elements_facts p) as (F & C).
  split; [reflexivity|]. split; [|exact C].
  rewrite Forall_forall in *. intros ws Hws. destruct (F ws Hws) as (A1 & A2 & A3).
  split; [exact A3|]. split; [|split].
  - rewrite Forall_forall in *. intros w Hw. split; [apply A2; exact Hw | apply A1; exact Hw].
  - apply element_seg.
  - assert (Hl' : Forall (fun w => (List.length w <= 32)%nat) ws)
      by (eapply Forall_impl; [|exact A2]; cbv beta; intros; lia).
    pose proof (len_word_lines ws Hl') as L. unfold element_text, blen. cbn [List.length]. lia.
Qed.

(* ------------------------------------------------------------------ whitespace re-separation *)
Definition ws_only (t : bytes) : Prop := Forall (fun c => isws c = true) t.

(* one pre element after rewriting: leading whitespace, then each word followed by its
   separator; [post] is the text after "</pre>" *)
Record rseg := { r_lead : bytes; r_words : list (bytes * bytes); r_post : bytes }.
Definition resep_text (r : rseg) : bytes :=
  r_lead r ++ List.concat (map (fun ws => fst ws ++ snd ws) (r_words r)).
Definition resep_doc (rs : list rseg) : bytes := doc_of (map (fun r => (resep_text r, r_post r)) rs).
Definition rseg_ws (r : rseg) : Prop :=
  ws_only (r_lead r) /\ Forall (fun ws => ws_only (snd ws)) (r_words r) /\ ws_only (r_post r).
Definition rseg_fits (r : rseg) : Prop := blen (resep_text r) + 2 < MAXBUF /\ blen (r_post r) + 2 < MAXBUF.

Lemma ws_only_noLT : forall t, ws_only t -> noLT t.
Proof.
  intros t H. eapply Forall_impl; [|exact H]. intros c Hc. cbv beta in Hc.
  intros ->. vm_compute in Hc. discriminate.
Qed.
Lemma ws_only_noAMP : forall t, ws_only t -> noAMP t.
Proof.
  intros t H. eapply Forall_impl; [|exact H]. intros c Hc. cbv beta in Hc.
  intros ->. vm_compute in Hc. discriminate.
Qed.
Lemma ws_only_strip : forall t, ws_only t -> strip t = [].
Proof.
  induction 1 as [|c t Hc Ht IH]; [reflexivity|]. cbn [strip filter]. rewrite Hc. cbn [negb]. exact IH.
Qed.
Lemma chars_strip : forall w, Forall armor_char w -> strip w = w.
Proof.
  induction 1 as [|c w Hc Hw IH]; [reflexivity|].
  cbn [strip filter]. destruct (armor_char_safe c Hc) as [_ ->]. cbn [negb]. fold (strip w). rewrite IH. reflexivity.
Qed.
Lemma chars_noLT : forall w, Forall armor_char w -> noLT w.
Proof. intros w H. eapply Forall_impl; [|exact H]. intros c Hc. apply (armor_char_safe c Hc). Qed.
Lemma chars_noAMP : forall w, Forall armor_char w -> noAMP w.
Proof. intros w H. eapply Forall_impl; [|exact H]. intros c Hc. apply (armor_char_noamp c Hc). Qed.

Lemma resep_text_facts : forall r, rseg_ws r -> Forall (Forall armor_char) (map fst (r_words r)) ->
  noLT (resep_text r) /\ noAMP (resep_text r) /\ strip (resep_text r) = List.concat (map fst (r_words r)).
Proof.
  intros [lead wss post] (Hl & Hs & _) Hc. cbn [r_lead r_words r_post] in *. unfold resep_text. cbn [r_lead r_words].
  unfold noLT, noAMP. rewrite !Forall_app, strip_app. rewrite (ws_only_strip lead Hl). cbn [app].
  split; [split; [apply ws_only_noLT; exact Hl|]|split; [split; [apply ws_only_noAMP; exact Hl|]|]].
  - induction wss as [|[w s] wss IH]; [constructor|].
    inversion Hs; subst. inversion Hc; subst. cbn [map List.concat fst snd] in *.
    rewrite !Forall_app. repeat split; [apply chars_noLT; assumption|apply ws_only_noLT; assumption|].
    apply IH; assumption.
  - induction wss as [|[w s] wss IH]; [constructor|].
    inversion Hs; subst. inversion Hc; subst. cbn [map List.concat fst snd] in *.
    rewrite !Forall_app. repeat split; [apply chars_noAMP; assumption|apply ws_only_noAMP; assumption|].
    apply IH; assumption.
  - induction wss as [|[w s] wss IH]; [reflexivity|].
    inversion Hs; subst. inversion Hc; subst. cbn [map List.concat fst snd] in *.
    rewrite !strip_app. rewrite chars_strip by assumption. rewrite ws_only_strip by assumption.
    rewrite IH by assumption. rewrite app_nil_r. reflexivity.
Qed.

Lemma resep_ok : forall p rs, bytes_ok p = true ->
  map (fun r => map fst (r_words r)) rs = armor_elements p ->
  Forall rseg_ws rs -> Forall rseg_fits rs ->
  armor_decode (resep_doc rs) = DOk p.
Proof.
  intros p rs Hp Hw Hws Hfit. destruct (armor_elements_facts p) as (F & C).
  rewrite <- Hw in F, C. clear Hw.
  assert (Hch : Forall (fun r => Forall (Forall armor_char) (map fst (r_words r))) rs).
  { rewrite Forall_forall in *. intros r Hr.
    apply (F (map fst (r_words r))). apply in_map_iff. exists r. split; [reflexivity|exact Hr]. }
  clear F. unfold resep_doc. apply decode_doc; [assumption| |].
  - rewrite Forall_forall in *. intros sg Hsg. apply in_map_iff in Hsg as (r & <- & Hr).
    destruct (resep_text_facts r (Hws r Hr) (Hch r Hr)) as (N1 & N2 & _).
    destruct (Hfit r Hr) as (S1 & S2). destruct (Hws r Hr) as (_ & _ & W3).
    unfold seg_ok. cbn [fst snd]. repeat split; try assumption. apply ws_only_noLT; exact W3.
  - rewrite <- C. clear C Hfit Hp.
    induction rs as [|r rs IH]; [reflexivity|].
    inversion Hws; subst. inversion Hch; subst.
    cbn [map List.concat fst]. rewrite strip_app, concat_app. rewrite IH by assumption.
    destruct (resep_text_facts r ltac:(assumption) ltac:(assumption)) as (_ & _ & ->). reflexivity.
Qed.

(* ---- over the limit: an error, never other data ---- *)
Lemma run_dead : forall l s e, halt s = Some e -> run s l = s.
Proof.
  induction l as [|c l IH]; intros s e H; [reflexivity|].
  rewrite run_cons. assert (E : step s c = s) by (unfold step; rewrite H; reflexivity).
  rewrite E. eapply IH; exact H.
Qed.

Definition is_err (s : dst) : Prop := exists e, halt s = Some (TErr e).

Lemma run_err : forall l s, is_err s -> is_err (run s l).
Proof. intros l s [e H]. rewrite (run_dead l s _ H). exists e. exact H. Qed.

(* the text token cut off by the buffer limit, then the ErrorToken: decodeToWriter returns an error *)
Lemma dw_flush_over : forall a k tb, exists e, w_end (dw_toks a (flush k tb ++ [TkOver])) = Some (TErr e).
Proof.
  intros a k [|c tb]; [exists EOversize; reflexivity|].
  unfold flush. cbn [app dw_toks]. destruct a.
  - cbn [dw_tok]. destruct (cut_long _) as [ws [|]]; cbn [w_end w_act w_words]; eexists; reflexivity.
  - exists EOversize. reflexivity.
Qed.

Lemma step_over_txt : forall n tb a o c, MAXBUF <= n + 1 -> is_err (step (mkb MTxt n tb a o) c).
Proof.
  intros n tb a o c H. unfold step, mkb, tk_step, tk. cbn [halt tkz tmd tcnt tbuf active out_rev].
  replace (MAXBUF <=? n + 1) with true by (symmetry; apply N.leb_le; exact H).
  cbn [is_text_mode kind_of pending push rev_append]. unfold is_err, apply_toks. cbn [halt].
  apply dw_flush_over.
Qed.
Lemma step_over_lt : forall n tb a o c, MAXBUF <= n + 1 -> is_err (step (mkb MLt n tb a o) c).
Proof.
  intros n tb a o c H. unfold step, mkb, tk_step, tk. cbn [halt tkz tmd tcnt tbuf active out_rev].
  replace (MAXBUF <=? n + 1) with true by (symmetry; apply N.leb_le; exact H).
  cbn [is_text_mode kind_of pending push rev_append]. unfold is_err, apply_toks. cbn [halt].
  apply dw_flush_over.
Qed.

Lemma text_over : forall t n tb a o rest, noLT t -> n < MAXBUF -> MAXBUF <= n + blen t + 2 ->
  is_err (run (mkb MTxt n tb a o) (t ++ LT :: SLASH :: rest)).
Proof.
  induction t as [|c t IH]; intros n tb a o rest Hs Hn Hov.
  - cbn [app]. unfold blen in Hov. cbn [List.length] in Hov. rewrite run_cons.
    destruct (N.le_gt_cases MAXBUF (n + 1)) as [H1|H1].
    + apply run_err. apply step_over_txt. exact H1.
    + rewrite step_txt_lt by lia. rewrite run_cons.
      apply run_err. apply step_over_lt. lia.
  - inversion Hs as [|? ? Hc Ht]; subst. rewrite blen_cons in Hov. cbn [app]. rewrite run_cons.
    destruct (N.le_gt_cases MAXBUF (n + 1)) as [H1|H1].
    + apply run_err. apply step_over_txt. exact H1.
    + rewrite step_txt by assumption. apply IH; [assumption|lia|lia].
Qed.

Lemma decode_result_err : forall out e, exists e', decode_result (out, TErr e) = DErr e'.
Proof.
  intros [|v body] e; [eexists; reflexivity|]. unfold decode_result.
  destruct (negb (v =? VERSION)); [eexists; reflexivity|].
  destruct (b64_decode_seq body) as [d [| |]]; eexists; reflexivity.
Qed.

Lemma doc_over : forall segs1 t post segs2, Forall seg_ok segs1 -> noLT t -> MAXBUF <= blen t + 2 ->
  exists e, armor_decode (doc_of (segs1 ++ (t, post) :: segs2)) = DErr e.
Proof.
  intros segs1 t post segs2 Hok Ht Hov.
  assert (D : is_err (run dinit (doc_of (segs1 ++ (t, post) :: segs2)))).
  { unfold doc_of. rewrite run_app, run_boiler_start. rewrite map_app, concat_app. rewrite !run_app.
    destruct (run_segs segs1 1 [LF] [] ltac:(unfold MAXBUF; lia) Hok) as (n' & tb' & o' & Hn' & E & _). rewrite E.
    cbn [map List.concat]. rewrite run_app. unfold seg_bytes at 1. cbn [fst snd].
    rewrite pre_open_eq, pre_close_eq. cbn [app]. rewrite !run_cons.
    rewrite step_txt_lt by lia. rewrite step_lt_p by lia. rewrite apply_flush_inactive. rewrite run_app, run_open_pre.
    do 2 apply run_err.
    apply text_over; [assumption|unfold MAXBUF; lia|lia]. }
  destruct D as [e D]. unfold armor_decode, armor_scan, armor_words_of, finish. rewrite D. apply decode_result_err.
Qed.

Lemma resep_over : forall rs1 r rs2,
  Forall rseg_ws (rs1 ++ [r]) ->
  Forall (fun r => Forall (Forall armor_char) (map fst (r_words r))) (rs1 ++ [r]) ->
  Forall rseg_fits rs1 -> MAXBUF <= blen (resep_text r) + 2 ->
  exists e, armor_decode (resep_doc (rs1 ++ r :: rs2)) = DErr e.
Proof.
  intros rs1 r rs2 Hws Hch Hfit Hov. unfold resep_doc. rewrite map_app. cbn [map].
  apply Forall_app in Hws as (Hws1 & Hwsr). apply Forall_app in Hch as (Hch1 & Hchr).
  inversion Hwsr; subst. inversion Hchr; subst.
  apply doc_over.
  - rewrite Forall_forall in *. intros sg Hsg. apply in_map_iff in Hsg as (r0 & <- & Hr).
    destruct (resep_text_facts r0 (Hws1 r0 Hr) (Hch1 r0 Hr)) as (N1 & N2 & _).
    destruct (Hfit r0 Hr) as (S1 & S2). destruct (Hws1 r0 Hr) as (_ & _ & W3).
    unfold seg_ok. cbn [fst snd]. repeat split; try assumption. apply ws_only_noLT; exact W3.
  - apply resep_text_facts; assumption.
  - exact Hov.
Qed.

Lemma ws_only_repeat : forall n, ws_only (repeat 32 n).
Proof. induction n; constructor; [reflexivity|assumption]. Qed.
