(* RegexProofs.v — declarative semantics of regular expressions ([matches]), correctness of
   nullable / derivatives / normalising constructors, and soundness of the inclusion checker:
       incl r1 r2 = true -> forall w, matches r1 w -> matches r2 w.
   Symbols are arbitrary N (no byte bound is needed). *)
From Coq Require Import List NArith Bool Arith Lia.
From Snow Require Import Lib.Wire Model.Regex Model.RegexIncl.
Import ListNotations.
Open Scope N_scope.

(* The language of a regex: anchors match nothing, capture groups are transparent. *)
Inductive matches : re -> bytes -> Prop :=
| MEps : matches Eps []
| MCls : forall rs c, in_cls c rs = true -> matches (Cls rs) [c]
| MSeq : forall a b w1 w2, matches a w1 -> matches b w2 -> matches (Seq a b) (w1 ++ w2)
| MAltL : forall a b w, matches a w -> matches (Alt a b) w
| MAltR : forall a b w, matches b w -> matches (Alt a b) w
| MStar0 : forall a, matches (Star a) []
| MStarS : forall a w1 w2, matches a w1 -> matches (Star a) w2 -> matches (Star a) (w1 ++ w2)
| MRep0 : forall a n, matches (Rep a 0 n) []
| MRepS : forall a m n w1 w2,
    matches a w1 -> matches (Rep a (pred m) n) w2 -> matches (Rep a m (S n)) (w1 ++ w2)
| MGrp : forall k a w, matches a w -> matches (Grp k a) w.

Lemma matches_emp : forall w, ~ matches Emp w.
Proof. intros w H; inversion H. Qed.

Lemma matches_eps : forall w, matches Eps w -> w = [].
Proof. intros w H; inversion H; reflexivity. Qed.

Lemma matches_seq_inv : forall a b w, matches (Seq a b) w ->
  exists w1 w2, w = w1 ++ w2 /\ matches a w1 /\ matches b w2.
Proof. intros a b w H; inversion H; subst; eauto. Qed.

Lemma matches_alt_inv : forall a b w, matches (Alt a b) w -> matches a w \/ matches b w.
Proof. intros a b w H; inversion H; subst; auto. Qed.

Lemma matches_grp_inv : forall k a w, matches (Grp k a) w -> matches a w.
Proof. intros k a w H; inversion H; subst; auto. Qed.

(* ---------------------------------------------------------------- nullable *)

Lemma rep_nil : forall a n m, matches a [] -> (m <= n)%nat -> matches (Rep a m n) [].
Proof.
  intros a n; induction n as [|n IH]; intros m Ha Hle.
  - assert (m = 0%nat) by lia; subst; constructor.
  - destruct m as [|m]; [constructor|].
    change (@nil N) with (@nil N ++ @nil N). apply MRepS; [exact Ha|].
    apply IH; [exact Ha|simpl; lia].
Qed.

Lemma nullable_matches : forall r, nullable r = true -> matches r [].
Proof.
  induction r; simpl; intros Hn; try discriminate.
  - constructor.
  - apply andb_true_iff in Hn; destruct Hn as [H1 H2].
    change (@nil N) with (@nil N ++ @nil N); constructor; auto.
  - apply orb_true_iff in Hn; destruct Hn; [apply MAltL|apply MAltR]; auto.
  - constructor.
  - apply orb_true_iff in Hn; destruct Hn as [Hm|Hm].
    + apply Nat.eqb_eq in Hm; subst; constructor.
    + apply andb_true_iff in Hm; destruct Hm as [Ha Hle]. apply Nat.leb_le in Hle.
      apply rep_nil; auto.
  - constructor; auto.
Qed.

Lemma matches_nil_nullable : forall r w, matches r w -> w = [] -> nullable r = true.
Proof.
  induction 1; intros Hw; simpl; try reflexivity; try discriminate.
  - apply app_eq_nil in Hw; destruct Hw; rewrite IHmatches1, IHmatches2; auto.
  - rewrite IHmatches; auto.
  - rewrite IHmatches; auto; apply orb_true_r.
  - apply app_eq_nil in Hw; destruct Hw as [H1 H2].
    specialize (IHmatches1 H1); specialize (IHmatches2 H2). simpl in IHmatches2.
    rewrite IHmatches1 in *; simpl in *.
    destruct m as [|m]; simpl in *; [reflexivity|].
    apply orb_true_iff in IHmatches2; destruct IHmatches2 as [Hz|Hl].
    + apply Nat.eqb_eq in Hz; subst; reflexivity.
    + exact Hl.
  - auto.
Qed.

Lemma nullable_correct : forall r, nullable r = true <-> matches r [].
Proof.
  intros r; split; [apply nullable_matches|intros H; eapply matches_nil_nullable; eauto].
Qed.

(* ---------------------------------------------------------------- the order decides equality *)

Lemma cls_cmp_eq : forall a b, cls_cmp a b = Eq -> a = b.
Proof.
  induction a as [|[l1 h1] a IH]; destruct b as [|[l2 h2] b]; simpl; intros H; try discriminate; auto.
  destruct (N.compare l1 l2) eqn:E1; try discriminate.
  destruct (N.compare h1 h2) eqn:E2; try discriminate.
  apply N.compare_eq in E1; apply N.compare_eq in E2; subst. f_equal; auto.
Qed.

Lemma re_cmp_eq : forall a b, re_cmp a b = Eq -> a = b.
Proof.
  induction a; destruct b; simpl; intros H; try discriminate; auto.
  - f_equal; apply cls_cmp_eq; auto.
  - destruct (re_cmp a1 b1) eqn:E; try discriminate. f_equal; auto.
  - destruct (re_cmp a1 b1) eqn:E; try discriminate. f_equal; auto.
  - f_equal; auto.
  - destruct (Nat.compare m m0) eqn:E1; try discriminate.
    destruct (Nat.compare n n0) eqn:E2; try discriminate.
    apply Nat.compare_eq in E1; apply Nat.compare_eq in E2; subst. f_equal; auto.
  - destruct (Nat.compare k k0) eqn:E1; try discriminate.
    apply Nat.compare_eq in E1; subst; f_equal; auto.
Qed.

Lemma re_eqb_eq : forall a b, re_eqb a b = true -> a = b.
Proof.
  unfold re_eqb; intros a b H; destruct (re_cmp a b) eqn:E; try discriminate; apply re_cmp_eq; auto.
Qed.

Lemma pmem_In : forall p V, pmem p V = true -> In p V.
Proof.
  unfold pmem; intros p V H. apply existsb_exists in H; destruct H as [q [Hq He]].
  unfold pair_eqb in He; apply andb_true_iff in He; destruct He as [H1 H2].
  apply re_eqb_eq in H1; apply re_eqb_eq in H2. destruct p, q; simpl in *; subst; auto.
Qed.

(* ---------------------------------------------------------------- normalising constructors *)

Lemma is_emp_true : forall r, is_emp r = true -> r = Emp.
Proof. destruct r; simpl; intros; try discriminate; auto. Qed.

Lemma is_eps_true : forall r, is_eps r = true -> r = Eps.
Proof. destruct r; simpl; intros; try discriminate; auto. Qed.

Lemma mkSeq_matches : forall a b w, matches (mkSeq a b) w <-> matches (Seq a b) w.
Proof.
  intros a b w; unfold mkSeq.
  destruct (is_emp a) eqn:Ea; simpl.
  { apply is_emp_true in Ea; subst; split; intros H.
    - exfalso; eapply matches_emp; eauto.
    - apply matches_seq_inv in H; destruct H as (w1 & w2 & _ & H & _); exfalso; eapply matches_emp; eauto. }
  destruct (is_emp b) eqn:Eb; simpl.
  { apply is_emp_true in Eb; subst; split; intros H.
    - exfalso; eapply matches_emp; eauto.
    - apply matches_seq_inv in H; destruct H as (w1 & w2 & _ & _ & H); exfalso; eapply matches_emp; eauto. }
  destruct (is_eps a) eqn:Ea'.
  { apply is_eps_true in Ea'; subst; split; intros H.
    - change w with ([] ++ w); constructor; auto; constructor.
    - apply matches_seq_inv in H; destruct H as (w1 & w2 & Hw & H1 & H2).
      apply matches_eps in H1; subst; auto. }
  destruct (is_eps b) eqn:Eb'.
  { apply is_eps_true in Eb'; subst; split; intros H.
    - rewrite <- (app_nil_r w); constructor; auto; constructor.
    - apply matches_seq_inv in H; destruct H as (w1 & w2 & Hw & H1 & H2).
      apply matches_eps in H2; subst; rewrite app_nil_r; auto. }
  tauto.
Qed.

Lemma alt_insert_matches : forall l x w,
  matches (alt_insert x l) w <-> (matches x w \/ matches l w).
Proof.
  induction l; intros x w; simpl;
    try (destruct (re_cmp x _) eqn:E;
         [ apply re_cmp_eq in E; subst; tauto
         | split; [intros H; apply matches_alt_inv in H; tauto | intros [H|H]; [apply MAltL|apply MAltR]; auto]
         | split; [intros H; apply matches_alt_inv in H; tauto | intros [H|H]; [apply MAltR|apply MAltL]; auto] ]).
  (* l = Alt l1 l2 *)
  destruct (re_cmp x l1) eqn:E.
  - apply re_cmp_eq in E; subst. split; [tauto|]. intros [H|H]; auto. apply MAltL; auto.
  - split; [intros H; apply matches_alt_inv in H; tauto | intros [H|H]; [apply MAltL|apply MAltR]; auto].
  - split.
    + intros H; apply matches_alt_inv in H; destruct H as [H|H].
      * right; apply MAltL; auto.
      * apply IHl2 in H; destruct H; [left; auto|right; apply MAltR; auto].
    + intros [H|H].
      * apply MAltR; apply IHl2; auto.
      * apply matches_alt_inv in H; destruct H; [apply MAltL; auto|apply MAltR; apply IHl2; auto].
Qed.

Lemma mkAlt_matches : forall a b w, matches (mkAlt a b) w <-> (matches a w \/ matches b w).
Proof.
  induction a; intros b w; simpl;
    try (destruct (is_emp b) eqn:Eb;
         [ apply is_emp_true in Eb; subst; split; [tauto | intros [H|H]; [auto | exfalso; eapply matches_emp; eauto]]
         | apply alt_insert_matches ]).
  - (* Emp *) split; [tauto|]. intros [H|H]; auto. exfalso; eapply matches_emp; eauto.
  - (* Alt *) rewrite IHa1, IHa2. split.
    + intros [H|[H|H]]; auto; left; [apply MAltL|apply MAltR]; auto.
    + intros [H|H]; auto. apply matches_alt_inv in H; tauto.
Qed.

Lemma mkRep_matches : forall a m n w, matches (mkRep a m n) w <-> matches (Rep a m n) w.
Proof.
  intros a m n w; unfold mkRep. destruct n; [|tauto].
  destruct m; split; intros H.
  - apply matches_eps in H; subst; constructor.
  - inversion H; subst; constructor.
  - exfalso; eapply matches_emp; eauto.
  - inversion H.
Qed.

(* ---------------------------------------------------------------- derivatives *)

Lemma deriv_sound : forall r c w, matches (deriv c r) w -> matches r (c :: w).
Proof.
  induction r; intros c w H; simpl in H; try (exfalso; eapply matches_emp; eauto; fail).
  - destruct (in_cls c rs) eqn:E; [|exfalso; eapply matches_emp; eauto].
    apply matches_eps in H; subst; constructor; auto.
  - assert (Hl : forall w, matches (mkSeq (deriv c r1) r2) w -> matches (Seq r1 r2) (c :: w)).
    { intros w0 H0; apply mkSeq_matches in H0; apply matches_seq_inv in H0.
      destruct H0 as (w1 & w2 & Hw & H1 & H2); subst.
      change (c :: w1 ++ w2) with ((c :: w1) ++ w2); constructor; auto. }
    destruct (nullable r1) eqn:En; [|auto].
    apply mkAlt_matches in H; destruct H as [H|H]; [auto|].
    change (c :: w) with ([] ++ c :: w); constructor; [apply nullable_matches; auto|auto].
  - apply mkAlt_matches in H; destruct H; [apply MAltL|apply MAltR]; auto.
  - apply mkSeq_matches in H; apply matches_seq_inv in H.
    destruct H as (w1 & w2 & Hw & H1 & H2); subst.
    change (c :: w1 ++ w2) with ((c :: w1) ++ w2); constructor; auto.
  - destruct n; [exfalso; eapply matches_emp; eauto|].
    apply mkSeq_matches in H; apply matches_seq_inv in H.
    destruct H as (w1 & w2 & Hw & H1 & H2); subst. apply mkRep_matches in H2.
    change (c :: w1 ++ w2) with ((c :: w1) ++ w2); constructor; auto.
  - constructor; auto.
Qed.

Lemma deriv_complete_aux : forall r u, matches r u -> forall c w, u = c :: w -> matches (deriv c r) w.
Proof.
  induction 1; intros c0 w0 Hu; simpl; try discriminate.
  - inversion Hu; subst. rewrite H; constructor.
  - destruct w1 as [|x w1]; simpl in Hu.
    + subst. assert (Hn : nullable a = true) by (eapply matches_nil_nullable; eauto).
      rewrite Hn. apply mkAlt_matches; right; eauto.
    + inversion Hu; subst.
      assert (Hs : matches (mkSeq (deriv c0 a) b) (w1 ++ w2)).
      { apply mkSeq_matches; constructor; eauto. }
      destruct (nullable a); [apply mkAlt_matches; left|]; auto.
  - apply mkAlt_matches; left; eauto.
  - apply mkAlt_matches; right; eauto.
  - destruct w1 as [|x w1]; simpl in Hu.
    + eapply IHmatches2; eauto.
    + inversion Hu; subst. apply mkSeq_matches; constructor; eauto.
  - destruct w1 as [|x w1]; simpl in Hu.
    + subst. specialize (IHmatches2 c0 w0 eq_refl). simpl in IHmatches2.
      destruct n as [|n']; [exfalso; eapply matches_emp; eauto|].
      apply mkSeq_matches in IHmatches2; apply matches_seq_inv in IHmatches2.
      destruct IHmatches2 as (u1 & u2 & Hw & H1 & H2); subst. apply mkRep_matches in H2.
      apply mkSeq_matches; constructor; auto. apply mkRep_matches.
      change u2 with ([] ++ u2); apply MRepS; auto.
    + inversion Hu; subst. apply mkSeq_matches; constructor; eauto.
      apply mkRep_matches; auto.
  - eauto.
Qed.

Lemma deriv_correct : forall r c w, matches (deriv c r) w <-> matches r (c :: w).
Proof.
  intros; split; [apply deriv_sound|intros H; eapply deriv_complete_aux; eauto].
Qed.

(* ---------------------------------------------------------------- symbols that no class separates *)

Fixpoint agree (c d : N) (r : re) : Prop :=
  match r with
  | Cls rs => in_cls c rs = in_cls d rs
  | Seq a b => agree c d a /\ agree c d b
  | Alt a b => agree c d a /\ agree c d b
  | Star a => agree c d a
  | Rep a _ _ => agree c d a
  | Grp _ a => agree c d a
  | _ => True
  end.

Lemma agree_deriv_eq : forall r c d, agree c d r -> deriv c r = deriv d r.
Proof.
  induction r; simpl; intros c d H; auto.
  - rewrite H; auto.
  - destruct H as [H1 H2]. rewrite (IHr1 _ _ H1), (IHr2 _ _ H2); auto.
  - destruct H as [H1 H2]. rewrite (IHr1 _ _ H1), (IHr2 _ _ H2); auto.
  - rewrite (IHr _ _ H); auto.
  - destruct n; auto. rewrite (IHr _ _ H); auto.
Qed.

Lemma agree_mkSeq : forall c d a b, agree c d a -> agree c d b -> agree c d (mkSeq a b).
Proof.
  intros c d a b Ha Hb; unfold mkSeq.
  destruct (is_emp a || is_emp b); simpl; auto.
  destruct (is_eps a); auto. destruct (is_eps b); simpl; auto.
Qed.

Lemma agree_alt_insert : forall c d l x, agree c d x -> agree c d l -> agree c d (alt_insert x l).
Proof.
  induction l; intros x Hx Hl; simpl; try (destruct (re_cmp x _); simpl; auto; fail).
  destruct Hl as [H1 H2]. destruct (re_cmp x l1); simpl; auto.
Qed.

Lemma agree_mkAlt : forall c d a b, agree c d a -> agree c d b -> agree c d (mkAlt a b).
Proof.
  induction a; intros b Ha Hb; simpl; auto;
    try (destruct (is_emp b); [auto|apply agree_alt_insert; auto]; fail).
  destruct Ha as [H1 H2]. apply IHa1; auto.
Qed.

Lemma agree_mkRep : forall c d a m n, agree c d a -> agree c d (mkRep a m n).
Proof. intros; unfold mkRep; destruct n; [destruct m; simpl; auto|simpl; auto]. Qed.

Lemma agree_deriv : forall r c d e, agree c d r -> agree c d (deriv e r).
Proof.
  induction r; simpl; intros c d e H; auto.
  - destruct (in_cls e rs); simpl; auto.
  - destruct H as [H1 H2].
    destruct (nullable r1); [apply agree_mkAlt; auto|]; apply agree_mkSeq; auto.
  - destruct H as [H1 H2]. apply agree_mkAlt; auto.
  - apply agree_mkSeq; simpl; auto.
  - destruct n; simpl; auto. apply agree_mkSeq; auto. apply agree_mkRep; auto.
Qed.

Definition same_sig (rs : cls) (c d : N) : Prop := forall rg, In rg rs -> in_rng c rg = in_rng d rg.

Lemma same_sig_in_cls : forall rs0 rs c d, List.incl rs0 rs -> same_sig rs c d -> in_cls c rs0 = in_cls d rs0.
Proof.
  induction rs0 as [|[lo hi] t IH]; intros rs c d Hi Hs; simpl; auto.
  assert (H1 : in_rng c (lo, hi) = in_rng d (lo, hi)) by (apply Hs; apply Hi; left; auto).
  unfold in_rng in H1; simpl in H1. rewrite H1. f_equal. eapply IH; eauto.
  intros x Hx; apply Hi; right; auto.
Qed.

Lemma same_sig_agree : forall r rs c d, List.incl (ranges r) rs -> same_sig rs c d -> agree c d r.
Proof.
  induction r; simpl; intros rs0 c d Hi Hs; auto.
  - eapply same_sig_in_cls; eauto.
  - split; [eapply IHr1|eapply IHr2]; eauto; intros x Hx; apply Hi; apply in_or_app; auto.
  - split; [eapply IHr1|eapply IHr2]; eauto; intros x Hx; apply Hi; apply in_or_app; auto.
  - eapply IHr; eauto.
  - eapply IHr; eauto.
  - eapply IHr; eauto.
Qed.

(* the largest candidate not above c *)
Definition best (l : list N) (c : N) : N :=
  fold_right (fun x acc => if (x <=? c) && (acc <=? x) then x else acc) 0 l.

Lemma best_spec : forall l c,
  best l c <= c /\ (In (best l c) l \/ best l c = 0) /\ (forall x, In x l -> x <= c -> x <= best l c).
Proof.
  induction l as [|a l IH]; intros c; simpl.
  - repeat split; auto; try lia; intros x [].
  - destruct (IH c) as (H1 & H2 & H3). fold (best l c).
    destruct ((a <=? c) && (best l c <=? a)) eqn:E.
    + apply andb_true_iff in E; destruct E as [E1 E2].
      apply N.leb_le in E1; apply N.leb_le in E2.
      repeat split; auto. intros x [Hx|Hx] Hc; [subst; lia|]. specialize (H3 x Hx Hc); lia.
    + repeat split; auto.
      * destruct H2; auto.
      * intros x [Hx|Hx] Hc; [|auto]. subst.
        apply andb_false_iff in E; destruct E as [E|E].
        -- apply N.leb_gt in E; lia.
        -- apply N.leb_gt in E; lia.
Qed.

Lemma cands_cover : forall rs c, exists d, In d (cands rs) /\ same_sig rs c d.
Proof.
  intros rs c. destruct (best_spec (cands rs) c) as (H1 & H2 & H3).
  exists (best (cands rs) c). split.
  - destruct H2 as [H2|H2]; auto. rewrite H2; left; auto.
  - intros [lo hi] Hin. unfold in_rng; cbn [fst snd].
    assert (Hlo : In lo (cands rs)).
    { right. apply in_flat_map. exists (lo, hi); split; auto. left; auto. }
    assert (Hhi : In (hi + 1) (cands rs)).
    { right. apply in_flat_map. exists (lo, hi); split; auto. right; left; auto. }
    set (d := best (cands rs) c) in *.
    pose proof (H3 lo Hlo) as Ha; pose proof (H3 (hi + 1) Hhi) as Hb. clearbody d.
    apply eq_true_iff_eq; rewrite !andb_true_iff, !N.leb_le; lia.
Qed.

Lemma sig_eqb_same : forall rs x y, sig_eqb rs x y = true -> same_sig rs x y.
Proof.
  unfold sig_eqb, same_sig; intros rs x y H rg Hin.
  rewrite forallb_forall in H. apply eqb_prop; auto.
Qed.

Lemma sig_eqb_refl : forall rs x, sig_eqb rs x x = true.
Proof. intros; unfold sig_eqb; apply forallb_forall; intros; apply eqb_reflx. Qed.

Lemma dedup_sig_cover : forall rs l x, In x l -> exists y, In y (dedup_sig rs l) /\ sig_eqb rs x y = true.
Proof.
  induction l as [|a l IH]; intros x Hx; [destruct Hx|]. simpl.
  destruct (existsb (sig_eqb rs a) (dedup_sig rs l)) eqn:E.
  - destruct Hx as [Hx|Hx]; [subst|auto].
    apply existsb_exists in E; destruct E as [y [Hy He]]; eauto.
  - destruct Hx as [Hx|Hx].
    + subst; exists x; split; [left; auto|apply sig_eqb_refl].
    + destruct (IH x Hx) as [y [Hy He]]; exists y; split; [right; auto|auto].
Qed.

Lemma representatives_cover : forall rs c, exists d, In d (representatives rs) /\ same_sig rs c d.
Proof.
  intros rs c. destruct (cands_cover rs c) as [d [Hd Hs]].
  assert (Hd' : In d (nodup N.eq_dec (cands rs))) by (apply nodup_In; auto).
  destruct (dedup_sig_cover rs _ _ Hd') as [y [Hy He]].
  exists y; split; auto. apply sig_eqb_same in He.
  intros rg Hin. rewrite (Hs rg Hin). apply He; auto.
Qed.

(* ---------------------------------------------------------------- soundness of the closure check *)

Section Closed.
  Variable rs : cls.
  Variable reps : list N.
  Variable V : list pair.
  Hypothesis Hcover : forall c, exists d, In d reps /\ same_sig rs c d.
  Hypothesis Hclosed : closed reps V = true.

  Definition respects (a : re) : Prop := forall c d, same_sig rs c d -> agree c d a.

  Lemma respects_deriv : forall a e, respects a -> respects (deriv e a).
  Proof. intros a e H c d Hs; apply agree_deriv; auto. Qed.

  Lemma closed_sound : forall w a b,
    In (a, b) V -> respects a -> respects b -> matches a w -> matches b w.
  Proof.
    induction w as [|c w IH]; intros a b Hin Ra Rb Hm.
    - unfold closed in Hclosed. rewrite forallb_forall in Hclosed.
      specialize (Hclosed _ Hin). unfold step_ok in Hclosed; simpl in Hclosed.
      apply andb_true_iff in Hclosed; destruct Hclosed as [Hn _].
      apply nullable_correct. apply nullable_correct in Hm. rewrite Hm in Hn; simpl in Hn; auto.
    - destruct (Hcover c) as [d [Hd Hs]].
      apply deriv_correct in Hm. rewrite (agree_deriv_eq a c d (Ra c d Hs)) in Hm.
      unfold closed in Hclosed. rewrite forallb_forall in Hclosed.
      specialize (Hclosed _ Hin). unfold step_ok in Hclosed; simpl in Hclosed.
      apply andb_true_iff in Hclosed; destruct Hclosed as [_ Hst].
      rewrite forallb_forall in Hst. specialize (Hst d Hd). simpl in Hst.
      apply orb_true_iff in Hst; destruct Hst as [He|Hp].
      + apply is_emp_true in He. rewrite He in Hm. exfalso; eapply matches_emp; eauto.
      + apply pmem_In in Hp.
        apply deriv_correct. rewrite (agree_deriv_eq b c d (Rb c d Hs)).
        eapply IH; eauto; apply respects_deriv; auto.
  Qed.
End Closed.

Local Opaque explore_fuel.

Theorem incl_sound : forall r1 r2,
  RegexIncl.incl r1 r2 = true -> forall w, matches r1 w -> matches r2 w.
Proof.
  intros r1 r2 H w Hm. unfold RegexIncl.incl, incl_with in H.
  set (rs := ranges r1 ++ ranges r2) in *.
  remember (explore explore_fuel (representatives rs) [(r1, r2, [])] []) as X eqn:HX; clear HX.
  destruct X as [V| |]; try discriminate.
  apply andb_true_iff in H; destruct H as [Hstart Hcl].
  apply orb_true_iff in Hstart; destruct Hstart as [He|Hp].
  - apply is_emp_true in He; subst. exfalso; eapply matches_emp; eauto.
  - apply pmem_In in Hp.
    eapply (closed_sound rs (representatives rs) V (representatives_cover rs) Hcl); eauto.
    + intros c d Hs; eapply same_sig_agree; eauto. unfold rs; intros x Hx; apply in_or_app; auto.
    + intros c d Hs; eapply same_sig_agree; eauto. unfold rs; intros x Hx; apply in_or_app; auto.
Qed.
