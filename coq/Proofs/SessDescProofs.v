(* SessDescProofs.v — proofs about Model/SessDesc.v (C13). *)
From Coq Require Import List NArith Bool Lia String.
From Snow Require Import Lib.Wire Model.SessDesc.
Import ListNotations.
Open Scope N_scope.

(* ---------------------------------------------------------------- byte-string equality *)

Lemma beq_refl : forall a, beq a a = true.
Proof. induction a as [|x a IH]; cbn [beq]; [reflexivity|]. rewrite N.eqb_refl, IH. reflexivity. Qed.

Lemma beq_eq : forall a b, beq a b = true <-> a = b.
Proof.
  induction a as [|x a IH]; destruct b as [|y b]; cbn [beq]; split; intro H; try reflexivity; try discriminate.
  - apply andb_true_iff in H. destruct H as [H1 H2]. apply N.eqb_eq in H1. apply IH in H2. subst. reflexivity.
  - inversion H; subst. rewrite N.eqb_refl. cbn. apply IH. reflexivity.
Qed.

Lemma beq_neq : forall a b, beq a b = false <-> a <> b.
Proof.
  intros a b. split.
  - intros H E. apply beq_eq in E. congruence.
  - intro H. destruct (beq a b) eqn:E; [|reflexivity]. apply beq_eq in E. contradiction.
Qed.

(* ---------------------------------------------------------------- map lookup = last binding *)

Lemma lookup_acc_app : forall k m1 m2 acc,
  lookup_acc k (m1 ++ m2) acc = lookup_acc k m2 (lookup_acc k m1 acc).
Proof.
  intros k m1. induction m1 as [|[k' v] m1 IH]; intros m2 acc; cbn [lookup_acc app]; [reflexivity|].
  apply IH.
Qed.

Lemma lookup_acc_absent : forall k m acc,
  (forall k' v', In (k', v') m -> k' <> k) -> lookup_acc k m acc = acc.
Proof.
  intros k m. induction m as [|[k' v] m IH]; intros acc H; cbn [lookup_acc]; [reflexivity|].
  assert (Hk : beq k' k = false) by (apply beq_neq; apply (H k' v); left; reflexivity).
  rewrite Hk. apply IH. intros k2 v2 Hin. apply (H k2 v2). right. exact Hin.
Qed.

(* [last_binding k v m]: (k,v) occurs in m and no later member has key k *)
Definition last_binding (k : bytes) (v : json) (m : list (bytes * json)) : Prop :=
  exists m1 m2, m = m1 ++ (k, v) :: m2 /\ forall k' v', In (k', v') m2 -> k' <> k.

Lemma lookup_acc_spec : forall k m acc,
  (lookup_acc k m acc = acc /\ (forall k' v', In (k', v') m -> k' <> k))
  \/ (exists v, lookup_acc k m acc = Some v /\ last_binding k v m).
Proof.
  intros k m. induction m as [|[k' v] m IH]; intros acc; cbn [lookup_acc].
  - left. split; [reflexivity|]. intros ? ? [].
  - destruct (IH (if beq k' k then Some v else acc)) as [[He Hno] | [w [He Hl]]].
    + destruct (beq k' k) eqn:Ek.
      * right. exists v. split; [exact He|]. apply beq_eq in Ek. subst k'.
        exists [], m. split; [reflexivity|exact Hno].
      * left. split; [exact He|]. intros k2 v2 [Hin|Hin].
        -- inversion Hin; subst. apply beq_neq. exact Ek.
        -- apply (Hno k2 v2 Hin).
    + right. exists w. split; [exact He|]. destruct Hl as [m1 [m2 [Hm Hno]]].
      exists ((k', v) :: m1), m2. split; [rewrite Hm; reflexivity|exact Hno].
Qed.

Lemma last_binding_lookup : forall k v m, last_binding k v m -> lookup k m = Some v.
Proof.
  intros k v m [m1 [m2 [Hm Hno]]]. unfold lookup. subst m.
  rewrite lookup_acc_app. cbn [lookup_acc]. rewrite beq_refl. apply lookup_acc_absent. exact Hno.
Qed.

Lemma lookup_some_iff : forall k m v, lookup k m = Some v <-> last_binding k v m.
Proof.
  intros k m v. split; [|apply last_binding_lookup].
  intro H. unfold lookup in H. destruct (lookup_acc_spec k m None) as [[He _] | [w [He Hl]]].
  - rewrite He in H. discriminate.
  - rewrite He in H. inversion H; subst. exact Hl.
Qed.

Lemma lookup_none_iff : forall k m, lookup k m = None <-> (forall k' v', In (k', v') m -> k' <> k).
Proof.
  intros k m. split.
  - intro H. unfold lookup in H. destruct (lookup_acc_spec k m None) as [[_ Hno] | [w [He _]]]; [exact Hno|].
    rewrite He in H. discriminate.
  - intro H. unfold lookup. apply lookup_acc_absent. exact H.
Qed.

(* ---------------------------------------------------------------- type names *)

Lemma type_of_name_spec : forall n t, type_of_name n = Some t <-> (t <> TOther /\ n = type_name t).
Proof.
  intros n t. unfold type_of_name. split.
  - intro H.
    destruct (beq n (bs "offer")) eqn:E1; [apply beq_eq in E1; inversion H; subst; split; [discriminate|reflexivity]|].
    destruct (beq n (bs "pranswer")) eqn:E2; [apply beq_eq in E2; inversion H; subst; split; [discriminate|reflexivity]|].
    destruct (beq n (bs "answer")) eqn:E3; [apply beq_eq in E3; inversion H; subst; split; [discriminate|reflexivity]|].
    destruct (beq n (bs "rollback")) eqn:E4; [apply beq_eq in E4; inversion H; subst; split; [discriminate|reflexivity]|].
    discriminate.
  - intros [Ht Hn]. subst n. destruct t; try contradiction; reflexivity.
Qed.

Lemma type_of_name_none : forall n, type_of_name n = None <-> (forall t, t <> TOther -> n <> type_name t).
Proof.
  intros n. split.
  - intros H t Ht E. assert (type_of_name n = Some t) by (apply type_of_name_spec; split; assumption). congruence.
  - intro H. destruct (type_of_name n) as [t|] eqn:E; [|reflexivity].
    apply type_of_name_spec in E. destruct E as [Ht En]. exfalso. apply (H t Ht En).
Qed.

(* ---------------------------------------------------------------- round trip *)

Lemma lookup_type_serialize : forall d, lookup K_TYPE (match serialize d with JObj m => m | _ => [] end) = Some (JStr (type_name (d_type d))).
Proof. intros d. reflexivity. Qed.

Lemma lookup_sdp_serialize : forall d, lookup K_SDP (match serialize d with JObj m => m | _ => [] end) = Some (JStr (d_sdp d)).
Proof. intros d. reflexivity. Qed.

Lemma roundtrip : forall d, d_type d <> TOther -> deserialize (Some (serialize d)) = Ok d.
Proof.
  intros [t s] Ht. cbn [d_type] in Ht. unfold deserialize, serialize, unmarshal_map. cbn [d_type d_sdp].
  change (lookup K_TYPE [(K_TYPE, JStr (type_name t)); (K_SDP, JStr s)]) with (Some (JStr (type_name t))).
  change (lookup K_SDP [(K_TYPE, JStr (type_name t)); (K_SDP, JStr s)]) with (Some (JStr s)).
  cbv beta iota.
  assert (E : type_of_name (type_name t) = Some t) by (apply type_of_name_spec; split; [exact Ht|reflexivity]).
  rewrite E. reflexivity.
Qed.

(* a description of a type outside the four named ones does NOT round-trip: the condition is needed *)
Lemma roundtrip_other_fails : forall s, deserialize (Some (serialize (mkDesc TOther s))) = Err EUnknownType.
Proof. intros s. reflexivity. Qed.

(* ---------------------------------------------------------------- totality, exact acceptance *)

Lemma total : forall j, deserialize j <> Panic.
Proof.
  intros j. unfold deserialize.
  destruct (unmarshal_map j) as [m|]; [|discriminate].
  destruct (lookup K_TYPE m) as [tv|]; [|discriminate].
  destruct (lookup K_SDP m) as [sv|]; [|discriminate].
  destruct tv as [|tb|tn|name|tl|tm]; try discriminate.
  destruct (type_of_name name) as [t|]; [|discriminate].
  destruct sv; discriminate.
Qed.

Definition accepts (j : option json) (d : desc) : Prop :=
  exists m, unmarshal_map j = Some m
    /\ last_binding K_TYPE (JStr (type_name (d_type d))) m
    /\ d_type d <> TOther
    /\ last_binding K_SDP (JStr (d_sdp d)) m.

Lemma accept_iff_gen : forall f j d,
  (f = deserialize \/ f = deserialize_v0) -> (f j = Ok d <-> accepts j d).
Proof.
  intros f j d Hf. unfold accepts. split.
  - intro H. assert (H' : exists m tv sv name, unmarshal_map j = Some m /\ lookup K_TYPE m = Some tv /\ lookup K_SDP m = Some sv
                     /\ tv = JStr name /\ type_of_name name = Some (d_type d) /\ sv = JStr (d_sdp d)).
    { destruct Hf; subst f; unfold deserialize, deserialize_v0 in H;
      (destruct (unmarshal_map j) as [m|]; [|discriminate]);
      (destruct (lookup K_TYPE m) as [tv|] eqn:Et; [|discriminate]);
      (destruct (lookup K_SDP m) as [sv|] eqn:Es; [|discriminate]);
      (destruct tv as [|tb|tn|name|tl|tm]; try discriminate);
      (destruct (type_of_name name) as [t|] eqn:En; [|discriminate]);
      (destruct sv; try discriminate);
      inversion H; subst; cbn [d_type d_sdp];
      exists m; eexists; eexists; eexists; repeat split; reflexivity || eassumption. }
    destruct H' as [m [tv [sv [name [Hm [Ht [Hs [Etv [En Esv]]]]]]]]]. subst tv sv.
    apply type_of_name_spec in En. destruct En as [Hno Hname]. subst name.
    exists m. repeat split; try assumption; apply lookup_some_iff; assumption.
  - intros [m [Hm [Ht [Hno Hs]]]].
    apply lookup_some_iff in Ht. apply lookup_some_iff in Hs.
    assert (En : type_of_name (type_name (d_type d)) = Some (d_type d)) by (apply type_of_name_spec; split; [assumption|reflexivity]).
    destruct d as [t s]. cbn [d_type d_sdp] in *.
    destruct Hf; subst f; unfold deserialize, deserialize_v0; rewrite Hm, Ht, Hs, En; reflexivity.
Qed.

Lemma accept_iff : forall j d, deserialize j = Ok d <-> accepts j d.
Proof. intros. apply accept_iff_gen. left. reflexivity. Qed.

Lemma reject_iff : forall j, (exists e, deserialize j = Err e) <-> (forall d, ~ accepts j d).
Proof.
  intros j. split.
  - intros [e He] d Ha. apply accept_iff in Ha. congruence.
  - intro H. destruct (deserialize j) as [d|e|] eqn:E.
    + exfalso. apply (H d). apply accept_iff. exact E.
    + exists e. reflexivity.
    + exfalso. apply (total j E).
Qed.

(* ---------------------------------------------------------------- the pinned code *)

Definition is_str (v : json) : bool := match v with JStr _ => true | _ => false end.

(* exactly when the pinned code panics: both members present, and either "type" is not a string,
   or "type" names one of the four types and "sdp" is not a string *)
Definition v0_panic_cond (j : option json) : Prop :=
  exists m tv sv, unmarshal_map j = Some m /\ lookup K_TYPE m = Some tv /\ lookup K_SDP m = Some sv
    /\ (is_str tv = false \/ (exists name t, tv = JStr name /\ type_of_name name = Some t /\ is_str sv = false)).

Lemma v0_panics_iff : forall j, deserialize_v0 j = Panic <-> v0_panic_cond j.
Proof.
  intros j. unfold v0_panic_cond, deserialize_v0. split.
  - intro H.
    destruct (unmarshal_map j) as [m|]; [|discriminate].
    destruct (lookup K_TYPE m) as [tv|] eqn:Et; [|discriminate].
    destruct (lookup K_SDP m) as [sv|] eqn:Es; [|discriminate].
    exists m, tv, sv. repeat split; try reflexivity; try assumption.
    destruct tv as [|tb|tn|name|tl|tm]; try (left; reflexivity).
    destruct (type_of_name name) as [t|] eqn:En; [|discriminate].
    right. exists name, t. repeat split; try assumption. destruct sv; try reflexivity. discriminate.
  - intros [m [tv [sv [Hm [Ht [Hs Hc]]]]]]. rewrite Hm, Ht, Hs.
    destruct Hc as [Hc | [name [t [Etv [En Hc]]]]].
    + destruct tv as [|tb|tn|name|tl|tm]; try reflexivity. discriminate.
    + subst tv. rewrite En. destruct sv; try reflexivity. discriminate.
Qed.

Definition v0_witness : option json := Some (JObj [(bs "type", JNum (bs "1")); (bs "sdp", JStr (bs "x"))]).

Lemma v0_refuted : exists j, deserialize_v0 j = Panic.
Proof. exists v0_witness. reflexivity. Qed.

(* the repair changes nothing where the pinned code did not panic *)
Lemma fix_conservative : forall j, deserialize_v0 j <> Panic -> deserialize j = deserialize_v0 j.
Proof.
  intros j H. unfold deserialize, deserialize_v0 in *.
  destruct (unmarshal_map j) as [m|]; [|reflexivity].
  destruct (lookup K_TYPE m) as [tv|]; [|reflexivity].
  destruct (lookup K_SDP m) as [sv|]; [|reflexivity].
  destruct tv as [|tb|tn|name|tl|tm]; try (exfalso; apply H; reflexivity).
  destruct (type_of_name name) as [t|]; [|reflexivity].
  destruct sv; try (exfalso; apply H; reflexivity). reflexivity.
Qed.

(* and where it panicked the repaired code returns an error *)
Lemma fix_error_where_panic : forall j, deserialize_v0 j = Panic -> exists e, deserialize j = Err e.
Proof.
  intros j H. unfold deserialize, deserialize_v0 in *.
  destruct (unmarshal_map j) as [m|]; [|discriminate].
  destruct (lookup K_TYPE m) as [tv|]; [|discriminate].
  destruct (lookup K_SDP m) as [sv|]; [|discriminate].
  destruct tv as [|tb|tn|name|tl|tm]; try (eexists; reflexivity).
  destruct (type_of_name name) as [t|]; [|discriminate].
  destruct sv; try (eexists; reflexivity). discriminate.
Qed.

(* ---------------------------------------------------------------- text level (encoding/json as Section variables) *)

Section Text.
  Variable jprint : json -> bytes.               (* json.Marshal *)
  Variable jparse : bytes -> option json.        (* json.Unmarshal's view of a text; None = not JSON *)
  Variable utf8_ok : bytes -> Prop.              (* the string is valid UTF-8 *)
  (* encoding/json reads back what it wrote, for flat objects of valid-UTF-8 strings *)
  Hypothesis print_parse : forall k1 v1 k2 v2,
    utf8_ok k1 -> utf8_ok v1 -> utf8_ok k2 -> utf8_ok v2 ->
    jparse (jprint (JObj [(k1, JStr v1); (k2, JStr v2)])) = Some (JObj [(k1, JStr v1); (k2, JStr v2)]).
  Hypothesis ascii_ok : forall s, Forall (fun b => b < 128) s -> utf8_ok s.

  Definition serialize_text (d : desc) : bytes := jprint (serialize d).
  Definition deserialize_text (s : bytes) : outcome := deserialize (jparse s).

  Lemma type_name_ascii : forall t, Forall (fun b => b < 128) (type_name t).
  Proof. intros t. destruct t; repeat constructor. Qed.

  Lemma roundtrip_text : forall d, d_type d <> TOther -> utf8_ok (d_sdp d) ->
    deserialize_text (serialize_text d) = Ok d.
  Proof.
    intros d Ht Hu. unfold deserialize_text, serialize_text, serialize.
    rewrite print_parse.
    - apply (roundtrip d Ht).
    - apply ascii_ok. repeat constructor.
    - apply ascii_ok. apply type_name_ascii.
    - apply ascii_ok. repeat constructor.
    - exact Hu.
  Qed.

  Lemma total_text : forall s, deserialize_text s <> Panic.
  Proof. intros s. apply total. Qed.
End Text.
