(* JournalProofs.v — proofs about the distinct-IP journal model (Model/Journal.v). *)
From Coq Require Import List ZArith NArith Lia Bool Arith.
From Coq Require Import ZifyN ZifyNat ZifyBool.
From Snow Require Import Model.Journal.
Import ListNotations.
Open Scope Z_scope.

Section JournalProofs.
  Variables addr hash : Type.
  Variable mask : addr -> hash.
  Variable heqb : hash -> hash -> bool.
  Hypothesis heqb_spec : forall a b, heqb a b = true <-> a = b.

  Notation hmem := (hmem hash heqb).
  Notation sk_add := (sk_add hash heqb).
  Notation sk_merge := (sk_merge hash heqb).
  Notation sk_of := (sk_of hash heqb).
  Notation skipped := (skipped hash).
  Notation count_loop := (count_loop hash heqb).
  Notation count := (count hash heqb).
  Notation flush := (flush hash).
  Notation add := (add addr hash mask heqb).
  Notation japply := (japply addr hash mask heqb).
  Notation jrun := (jrun addr hash mask heqb).

  Lemma hmem_In : forall h l, hmem h l = true <-> In h l.
  Proof.
    induction l as [|x l IH]; cbn [Journal.hmem In]; split; intro H; try discriminate; try contradiction.
    - apply orb_true_iff in H. destruct H as [H|H]; [left; symmetry; apply heqb_spec; exact H | right; apply IH; exact H].
    - apply orb_true_iff. destruct H as [H|H]; [left; apply heqb_spec; auto | right; apply IH; exact H].
  Qed.

  Lemma NoDup_snoc_h : forall (l : list hash) a, NoDup l -> ~ In a l -> NoDup (l ++ [a]).
  Proof.
    induction l as [|x l IH]; intros a ND NI; cbn [app].
    - constructor; [intros []|constructor].
    - inversion ND; subst. constructor.
      + rewrite in_app_iff. cbn [In]. intros [H|[H|[]]]; [contradiction | subst; apply NI; left; reflexivity].
      + apply IH; [assumption | intro H; apply NI; right; exact H].
  Qed.

  Lemma sk_add_spec : forall l h, NoDup l -> NoDup (sk_add l h) /\ (forall x, In x (sk_add l h) <-> In x l \/ x = h).
  Proof.
    intros l h ND. unfold Journal.sk_add. destruct (hmem h l) eqn:E.
    - apply hmem_In in E. split; [exact ND|]. intro x. split; [auto | intros [H| ->]; assumption].
    - split.
      + apply NoDup_snoc_h; [exact ND | intro H; apply hmem_In in H; congruence].
      + intro x. rewrite in_app_iff. cbn [In]. intuition.
  Qed.

  Lemma sk_merge_spec : forall b a, NoDup a -> NoDup (sk_merge a b) /\ (forall x, In x (sk_merge a b) <-> In x a \/ In x b).
  Proof.
    unfold Journal.sk_merge. induction b as [|h b IH]; intros a ND; cbn [fold_left].
    - split; [exact ND|]. intro x. cbn [In]. intuition.
    - destruct (sk_add_spec a h ND) as [ND1 M1]. destruct (IH _ ND1) as [ND2 M2]. split; [exact ND2|].
      intro x. rewrite M2, M1. cbn [In]. intuition.
  Qed.

  Lemma sk_of_spec : forall hs, NoDup (sk_of hs) /\ (forall x, In x (sk_of hs) <-> In x hs).
  Proof.
    intro hs. unfold Journal.sk_of. destruct (sk_merge_spec hs [] (NoDup_nil _)) as [ND M]. split; [exact ND|].
    intro x. unfold Journal.sk_merge in M. rewrite M. cbn [In]. tauto.
  Qed.

  (* the reader's test, as the code writes it, is the closed-interval containment *)
  Lemma skipped_spec : forall from to c, skipped from to c = false <-> (from <= c_start c /\ c_end c <= to).
  Proof. intros. unfold Journal.skipped. lia. Qed.

  Definition inside (from to : Z) (c : chunk hash) : Prop := from <= c_start c /\ c_end c <= to.
  Definition insideb (from to : Z) (c : chunk hash) : bool := (from <=? c_start c) && (c_end c <=? to).

  Lemma count_loop_spec : forall from to j acc n,
    NoDup acc ->
    NoDup (fst (count_loop from to j acc n)) /\
    (forall x, In x (fst (count_loop from to j acc n)) <->
               In x acc \/ exists c, In c j /\ inside from to c /\ In x (c_sk c)) /\
    snd (count_loop from to j acc n) = (n + N.of_nat (length (filter (insideb from to) j)))%N.
  Proof.
    intros from to. induction j as [|c j IH]; intros acc n ND; cbn [Journal.count_loop filter].
    - cbn [fst snd length]. split; [exact ND|]. split; [|lia]. intro x. split; [auto|]. intros [H|[c [[] _]]]. exact H.
    - destruct (skipped from to c) eqn:E.
      + assert (EB : insideb from to c = false) by (unfold insideb; unfold Journal.skipped in E; lia).
        rewrite EB. destruct (IH acc n ND) as [H1 [H2 H3]]. split; [exact H1|]. split; [|exact H3].
        intro x. rewrite H2. split.
        * intros [H|[c' [Hc [Hi Hx]]]]; [left; exact H | right; exists c'; split; [right; exact Hc | auto]].
        * intros [H|[c' [[Hc|Hc] [Hi Hx]]]]; [left; exact H | | right; exists c'; auto].
          subst c'. unfold inside in Hi. apply skipped_spec in Hi. congruence.
      + assert (EB : insideb from to c = true) by (unfold insideb; unfold Journal.skipped in E; lia).
        rewrite EB. destruct (sk_merge_spec (c_sk c) acc ND) as [ND1 M1].
        destruct (IH _ (n + 1)%N ND1) as [H1 [H2 H3]]. split; [exact H1|]. split; [|rewrite H3; cbn [length]; lia].
        intro x. rewrite H2, M1. apply skipped_spec in E. split.
        * intros [[H|H]|[c' [Hc [Hi Hx]]]]; [left; exact H | right; exists c; split; [left; reflexivity | auto] |
                                             right; exists c'; split; [right; exact Hc | auto]].
        * intros [H|[c' [[Hc|Hc] [Hi Hx]]]]; [left; left; exact H | subst c'; left; right; exact Hx | right; exists c'; auto].
  Qed.

  Lemma window : forall from to j,
    exists l, NoDup l /\
      (forall x, In x l <-> exists c, In c j /\ from <= c_start c /\ c_end c <= to /\ In x (c_sk c)) /\
      fst (count from to j) = N.of_nat (length l) /\
      snd (count from to j) = N.of_nat (length (filter (insideb from to) j)).
  Proof.
    intros from to j. unfold Journal.count.
    destruct (count_loop_spec from to j [] 0%N (NoDup_nil _)) as [H1 [H2 H3]].
    exists (fst (count_loop from to j [] 0%N)). split; [exact H1|]. split; [|split; [reflexivity | rewrite H3; apply N.add_0_l]].
    intro x. rewrite H2. unfold inside. split.
    - intros [[]|[c [Hc [[Ha Hb] Hx]]]]. exists c. auto.
    - intros [c [Hc [Ha [Hb Hx]]]]. right. exists c. auto.
  Qed.

  (* the journal depends on addresses only through [mask] *)
  Lemma mask_only : forall now a b w, mask a = mask b -> add now a w = add now b w.
  Proof. intros now a b w H. unfold Journal.add. rewrite H. reflexivity. Qed.

  (* ---------- writer: the chunks partition the recorded events ---------- *)
  Definition event := (Z * addr)%type.
  Definition masks (evs : list event) : list hash := map (fun e => mask (snd e)) evs.
  Definition op_time (o : jop addr) : Z := match o with Add t _ => t | Flush t => t end.
  Definition op_events (o : jop addr) : list event := match o with Add t ip => [(t, ip)] | Flush _ => [] end.
  Fixpoint mono (t : Z) (ops : list (jop addr)) : Prop :=
    match ops with [] => True | o :: r => t <= op_time o /\ mono (op_time o) r end.

  Fixpoint tiled (a : Z) (cs : list (chunk hash)) (b : Z) : Prop :=
    match cs with [] => a = b | c :: r => c_start c = a /\ tiled (c_end c) r b end.

  Lemma tiled_snoc : forall cs a b c, tiled a cs b -> c_start c = b -> tiled a (cs ++ [c]) (c_end c).
  Proof.
    induction cs as [|x cs IH]; intros a b c H Hc; cbn [tiled app] in *.
    - subst. auto.
    - destruct H as [H1 H2]. split; [exact H1 | eapply IH; eauto].
  Qed.

  (* chunk [c] holds exactly the events of segment [seg] *)
  Definition chunk_ok (c : chunk hash) (seg : list event) : Prop :=
    c_sk c = sk_of (masks seg) /\ c_start c <= c_end c /\ Forall (fun e => c_start c <= fst e <= c_end c) seg.

  (* ghost state: events of the open sketch, events of each emitted chunk *)
  Definition Jinv (t0 : Z) (w : writer hash) (gout : list (list event)) (gcur : list event) (tmax : Z) : Prop :=
    w_cur w = sk_of (masks gcur) /\
    Forall2 chunk_ok (w_out w) gout /\
    tiled t0 (w_out w) (w_last w) /\
    Forall (fun e => w_last w <= fst e <= tmax) gcur /\
    w_last w <= tmax.

  Lemma sk_of_snoc : forall hs h, sk_of (hs ++ [h]) = sk_add (sk_of hs) h.
  Proof. intros. unfold Journal.sk_of. rewrite fold_left_app. reflexivity. Qed.

  Lemma Jinv_flush : forall t0 w gout gcur tmax now,
    Jinv t0 w gout gcur tmax -> tmax <= now -> Jinv t0 (flush now w) (gout ++ [gcur]) [] now.
  Proof.
    intros t0 w gout gcur tmax now [H1 [H2 [H3 [H4 H5]]]] Hn. unfold Jinv, Journal.flush. cbn [w_cur w_out w_last].
    split; [reflexivity|]. split; [|split; [|split; [constructor | lia]]].
    - apply Forall2_app; [exact H2|]. constructor; [|constructor]. unfold chunk_ok. cbn [c_sk c_start c_end].
      split; [exact H1|]. split; [lia|]. eapply Forall_impl; [|exact H4]. cbn beta. intros e He. lia.
    - eapply (tiled_snoc _ _ _ {| c_start := w_last w; c_end := now; c_sk := w_cur w |}); [exact H3 | reflexivity].
  Qed.

  Lemma Jinv_step : forall t0 w gout gcur tmax o,
    Jinv t0 w gout gcur tmax -> tmax <= op_time o ->
    exists gout' gcur',
      Jinv t0 (japply w o) gout' gcur' (op_time o) /\
      concat gout' ++ gcur' = (concat gout ++ gcur) ++ op_events o.
  Proof.
    intros t0 w gout gcur tmax o HI Ht. destruct o as [now ip|now]; cbn [op_time op_events Journal.japply] in *.
    - unfold Journal.add. destruct (w_last w + w_int w <? now) eqn:E.
      + pose proof (Jinv_flush _ _ _ _ _ now HI Ht) as [H1 [H2 [H3 [H4 H5]]]].
        exists (gout ++ [gcur]), [(now, ip)]. split.
        * unfold Jinv. cbn [w_cur w_out w_last]. split; [|split; [exact H2 | split; [exact H3 | split]]].
          -- rewrite H1. reflexivity.
          -- constructor; [|constructor]. cbn [fst]. cbn [Journal.flush w_last]. lia.
          -- cbn [Journal.flush w_last]. lia.
        * rewrite concat_app. cbn [concat]. rewrite app_nil_r, <- app_assoc. reflexivity.
      + destruct HI as [H1 [H2 [H3 [H4 H5]]]]. exists gout, (gcur ++ [(now, ip)]). split.
        * unfold Jinv. cbn [w_cur w_out w_last]. split; [|split; [exact H2 | split; [exact H3 | split]]].
          -- unfold masks. rewrite map_app. cbn [map snd]. fold (masks gcur). rewrite sk_of_snoc, H1. reflexivity.
          -- apply Forall_app. split.
             ++ eapply Forall_impl; [|exact H4]. cbn beta. intros e He. lia.
             ++ constructor; [|constructor]. cbn [fst]. lia.
          -- lia.
        * rewrite app_assoc. reflexivity.
    - exists (gout ++ [gcur]), []. split.
      + apply (Jinv_flush _ _ _ _ _ now HI Ht).
      + rewrite concat_app. cbn [concat]. rewrite !app_nil_r. reflexivity.
  Qed.

  Lemma Jinv_run : forall ops t0 w gout gcur tmax,
    Jinv t0 w gout gcur tmax -> mono tmax ops ->
    exists gout' gcur' tmax',
      Jinv t0 (jrun ops w) gout' gcur' tmax' /\
      concat gout' ++ gcur' = (concat gout ++ gcur) ++ flat_map op_events ops.
  Proof.
    induction ops as [|o ops IH]; intros t0 w gout gcur tmax HI HM; cbn [Journal.jrun fold_left flat_map].
    - exists gout, gcur, tmax. split; [exact HI | rewrite app_nil_r; reflexivity].
    - destruct HM as [Ht HM]. destruct (Jinv_step _ _ _ _ _ o HI Ht) as [g1 [c1 [HI1 E1]]].
      destruct (IH _ _ _ _ _ HI1 HM) as [g2 [c2 [t2 [HI2 E2]]]]. exists g2, c2, t2. split; [exact HI2|].
      rewrite E2, E1, <- app_assoc. reflexivity.
  Qed.

  (* C19_journal_partition, for every op sequence whose clock readings do not go backwards *)
  Lemma partition : forall t0 interval ops,
    mono t0 ops ->
    let w := jrun ops (new_writer t0 interval) in
    exists (segs : list (list event)) (open : list event),
      (* every recorded event is in exactly one segment or in the open sketch, in order *)
      concat segs ++ open = flat_map op_events ops /\
      (* segment i is what chunk i holds: its sketch is the set of masked addresses of the segment,
         and the segment's events happened inside the chunk's interval *)
      Forall2 chunk_ok (w_out w) segs /\
      w_cur w = sk_of (masks open) /\
      Forall (fun e => w_last w <= fst e) open /\
      (* the chunk intervals tile the time line from the creation of the writer to the last flush *)
      tiled t0 (w_out w) (w_last w).
  Proof.
    intros t0 interval ops HM w.
    assert (H0 : Jinv t0 (new_writer t0 interval) [] [] t0).
    { unfold Jinv, new_writer. cbn [w_cur w_out w_last]. repeat split; try constructor. lia. }
    destruct (Jinv_run ops _ _ _ _ _ H0 HM) as [g [c [t [[H1 [H2 [H3 [H4 H5]]]] E]]]].
    exists g, c. cbn [concat app] in E. fold w in H1, H2, H3, H4. repeat split; auto.
    eapply Forall_impl; [|exact H4]. cbn beta. intros e He. lia.
  Qed.
End JournalProofs.
