(* JournalProofs.v — proofs about the distinct-IP journal model (Model/Journal.v). *)
From Coq Require Import List ZArith NArith Lia Bool Arith.
From Coq Require Import ZifyN ZifyNat ZifyBool.
From Snow Require Import Model.Journal.
Import ListNotations.
Open Scope Z_scope.

Section JournalProofs.
  Variables addr hash : Type.
  Variable mask : addr -> hash.
  Variable heqb : hash -> hash -> bool.
  Hypothesis heqb_spec : forall a b, heqb a b = true <-> a = b.

  Notation hmem := (hmem hash heqb).
  Notation sk_add := (sk_add hash heqb).
  Notation sk_merge := (sk_merge hash heqb).
  Notation sk_of := (sk_of hash heqb).
  Notation skipped := (skipped hash).
  Notation count_loop := (count_loop hash heqb).
  Notation count := (count hash heqb).
  Notation flush := (flush hash).
  Notation add := (add addr hash mask heqb).
  Notation japply := (japply addr hash mask heqb).
  Notation jrun := (jrun addr hash mask heqb).

  Lemma hmem_In : forall h l, hmem h l = true <-> In h l.
  Proof.
    induction l as [|x l IH]; cbn [Journal.hmem In]; split; intro H; try discriminate; try contradiction.
    - apply orb_true_iff in H. destruct H as [H|H]; [left; symmetry; apply heqb_spec; exact H | right; apply IH; exact H].
    - apply orb_true_iff. destruct H as [H|H]; [left; apply heqb_spec; auto | right; apply IH; exact H].
  Qed.

  Lemma NoDup_snoc_h : forall (l : list hash) a, NoDup l -> ~ In a l -> NoDup (l ++ [a]).
  Proof.
    induction l as [|x l IH]; intros a ND NI; cbn [app].
    - constructor; [intros []|constructor].
    - inversion ND; subst. constructor.
      + rewrite in_app_iff. cbn [In]. intros [H|[H|[]]]; [contradiction | subst; apply NI; left; reflexivity].
      + apply IH; [assumption | intro H; apply NI; right; exact H].
  Qed.

  Lemma sk_add_spec : forall l h, NoDup l -> NoDup (sk_add l h) /\ (forall x, In x (sk_add l h) <-> In x l \/ x = h).
  Proof.
    intros l h ND. unfold Journal.sk_add. destruct (hmem h l) eqn:E.
    - apply hmem_In in E. split; [exact ND|]. intro x. split; [auto | intros [H| ->]; assumption].
    - split.
      + apply NoDup_snoc_h; [exact ND | intro H; apply hmem_In in H; congruence].
      + intro x. rewrite in_app_iff. cbn [In]. intuition.
  Qed.

  Lemma sk_merge_spec : forall b a, NoDup a -> NoDup (sk_merge a b) /\ (forall x, In x (sk_merge a b) <-> In x a \/ In x b).
  Proof.
    unfold Journal.sk_merge. induction b as [|h b IH]; intros a ND; cbn [fold_left].
    - split; [exact ND|]. intro x. cbn [In]. intuition.
    - destruct (sk_add_spec a h ND) as [ND1 M1]. destruct (IH _ ND1) as [ND2 M2]. split; [exact ND2|].
      intro x. rewrite M2, M1. cbn [In]. intuition.
  Qed.

  Lemma sk_of_spec : forall hs, NoDup (sk_of hs) /\ (forall x, In x (sk_of hs) <-> In x hs).
  Proof.
    intro hs. unfold Journal.sk_of. destruct (sk_merge_spec hs [] (NoDup_nil _)) as [ND M]. split; [exact ND|].
    intro x. unfold Journal.sk_merge in M. rewrite M. cbn [In]. tauto.
  Qed.

  (* the reader's test, as the code writes it, is the closed-interval containment *)
  Lemma skipped_spec : forall from to c, skipped from to c = false <-> (from <= c_start c /\ c_end c <= to).
  Proof. intros. unfold Journal.skipped. lia. Qed.

  Definition inside (from to : Z) (c : chunk hash) : Prop := from <= c_start c /\ c_end c <= to.
  Definition insideb (from to : Z) (c : chunk hash) : bool := (from <=? c_start c) && (c_end c <=? to).

  Lemma count_loop_spec : forall from to j acc n,
    NoDup acc ->
    NoDup (fst (count_loop from to j acc n)) /\
    (forall x, In x (fst (count_loop from to j acc n)) <->
               In x acc \/ exists c, In c j /\ inside from to c /\ In x (c_sk c)) /\
    snd (count_loop from to j acc n) = (n + N.of_nat (length (filter (insideb from to) j)))%N.
  Proof.
    intros from to. induction j as [|c j IH]; intros acc n ND; cbn [Journal.count_loop filter].
    - cbn [fst snd length]. split; [exact ND|]. split; [|lia]. intro x. split; [auto|]. intros [H|[c [[] _]]]. exact H.
    - destruct (skipped from to c) eqn:E.
      + assert (EB : insideb from to c = false) by (unfold insideb; unfold Journal.skipped in E; lia).
        rewrite EB. destruct (IH acc n ND) as [H1 [H2 H3]]. split; [exact H1|]. split; [|exact H3].
        intro x. rewrite H2. split.
        * intros [H|[c' [Hc [Hi Hx]]]]; [left; exact H | right; exists c'; split; [right; exact Hc | auto]].
        * intros [H|[c' [[Hc|Hc] [Hi Hx]]]]; [left; exact H | | right; exists c'; auto].
          subst c'. unfold inside in Hi. apply skipped_spec in Hi. congruence.
      + assert (EB : insideb from to c = true) by (unfold insideb; unfold Journal.skipped in E; lia).
        rewrite EB. destruct (sk_merge_spec (c_sk c) acc ND) as [ND1 M1].
        destruct (IH _ (n + 1)%N ND1) as [H1 [H2 H3]]. split; [exact H1|]. split; [|rewrite H3; cbn [length]; lia].
        intro x. rewrite H2, M1. apply skipped_spec in E. split.
        * intros [[H|H]|[c' [Hc [Hi Hx]]]]; [left; exact H | right; exists c; split; [left; reflexivity | auto] |
                                             right; exists c'; split; [right; exact Hc | auto]].
        * intros [H|[c' [[Hc|Hc] [Hi Hx]]]]; [left; left; exact H | subst c'; left; right; exact Hx | right; exists c'; auto].
  Qed.

  Lemma window : forall from to j,
    exists l, NoDup l /\
      (forall x, In x l <-> exists c, In c j /\ from <= c_start c /\ c_end c <= to /\ In x (c_sk c)) /\
      fst (count from to j) = N.of_nat (length l) /\
      snd (count from to j) = N.of_nat (length (filter (insideb from to) j)).
  Proof.
    intros from to j. unfold Journal.count.
    destruct (count_loop_spec from to j [] 0%N (NoDup_nil _)) as [H1 [H2 H3]].
    exists (fst (count_loop from to j [] 0%N)). split; [exact H1|]. split; [|split; [reflexivity | rewrite H3; apply N.add_0_l]].
    intro x. rewrite H2. unfold inside. split.
    - intros [[]|[c [Hc [[Ha Hb] Hx]]]]. exists c. auto.
    - intros [c [Hc [Ha [Hb Hx]]]]. right. exists c. auto.
  Qed.

  (* ---------- the pinned reader stops, silently, at the first line its scanner cannot take ---------- *)
  Section LongLine.
    Variable long : chunk hash -> bool.
    Notation scanned := (scanned hash long).
    Notation count_v0 := (count_v0 hash heqb long).

    Lemma scanned_all : forall j, (forall c, In c j -> long c = false) -> scanned j = j.
    Proof.
      induction j as [|c j IH]; intro H; cbn [Journal.scanned]; [reflexivity|].
      rewrite (H c (or_introl eq_refl)). f_equal. apply IH. intros c' Hc. apply H. right. exact Hc.
    Qed.

    (* what is read is the part of the journal in front of the first long line *)
    Lemma scanned_prefix : forall j,
      (scanned j = j /\ forall c, In c j -> long c = false) \/
      exists pre c post, j = pre ++ c :: post /\ long c = true /\ scanned j = pre /\ forall c', In c' pre -> long c' = false.
    Proof.
      induction j as [|c j IH]; cbn [Journal.scanned].
      - left. split; [reflexivity | intros c []].
      - destruct (long c) eqn:E.
        + right. exists [], c, j. split; [reflexivity|]. split; [exact E|]. split; [reflexivity | intros c' []].
        + destruct IH as [[H1 H2]|[pre [c0 [post [H1 [H2 [H3 H4]]]]]]].
          * left. split; [rewrite H1; reflexivity|]. intros c' [<-|Hc]; [exact E | apply H2; exact Hc].
          * right. exists (c :: pre), c0, post. split; [rewrite H1; reflexivity|]. split; [exact H2|].
            split; [rewrite H3; reflexivity|]. intros c' [<-|Hc]; [exact E | apply H4; exact Hc].
    Qed.

    Lemma count_v0_no_long : forall from to j, (forall c, In c j -> long c = false) -> count_v0 from to j = count from to j.
    Proof. intros from to j H. unfold Journal.count_v0. rewrite (scanned_all j H). reflexivity. Qed.

    Lemma count_v0_cut : forall from to pre c post,
      long c = true -> (forall c', In c' pre -> long c' = false) ->
      count_v0 from to (pre ++ c :: post) = count from to pre.
    Proof.
      intros from to pre c post Hc Hpre. unfold Journal.count_v0. f_equal.
      induction pre as [|x pre IH]; cbn [app Journal.scanned]; [rewrite Hc; reflexivity|].
      rewrite (Hpre x (or_introl eq_refl)). f_equal. apply IH. intros c' H'. apply Hpre. right. exact H'.
    Qed.
  End LongLine.

  (* the journal depends on addresses only through [mask] *)
  Lemma mask_only : forall now a b w, mask a = mask b -> add now a w = add now b w.
  Proof. intros now a b w H. unfold Journal.add. rewrite H. reflexivity. Qed.

  (* ---------- writer: the chunks partition the recorded events ---------- *)
  Definition event := (Z * addr)%type.
  Definition masks (evs : list event) : list hash := map (fun e => mask (snd e)) evs.
  Definition op_time (o : jop addr) : Z := match o with Add t _ => t | Flush t => t end.
  Definition op_events (o : jop addr) : list event := match o with Add t ip => [(t, ip)] | Flush _ => [] end.
  Fixpoint mono (t : Z) (ops : list (jop addr)) : Prop :=
    match ops with [] => True | o :: r => t <= op_time o /\ mono (op_time o) r end.

  Fixpoint tiled (a : Z) (cs : list (chunk hash)) (b : Z) : Prop :=
    match cs with [] => a = b | c :: r => c_start c = a /\ tiled (c_end c) r b end.

  Lemma tiled_snoc : forall cs a b c, tiled a cs b -> c_start c = b -> tiled a (cs ++ [c]) (c_end c).
  Proof.
    induction cs as [|x cs IH]; intros a b c H Hc; cbn [tiled app] in *.
    - subst. auto.
    - destruct H as [H1 H2]. split; [exact H1 | eapply IH; eauto].
  Qed.

  (* chunk [c] holds exactly the events of segment [seg] *)
  Definition chunk_ok (c : chunk hash) (seg : list event) : Prop :=
    c_sk c = sk_of (masks seg) /\ c_start c <= c_end c /\ Forall (fun e => c_start c <= fst e <= c_end c) seg.

  (* ghost state: events of the open sketch, events of each emitted chunk *)
  Definition Jinv (t0 : Z) (w : writer hash) (gout : list (list event)) (gcur : list event) (tmax : Z) : Prop :=
    w_cur w = sk_of (masks gcur) /\
    Forall2 chunk_ok (w_out w) gout /\
    tiled t0 (w_out w) (w_last w) /\
    Forall (fun e => w_last w <= fst e <= tmax) gcur /\
    w_last w <= tmax.

  Lemma sk_of_snoc : forall hs h, sk_of (hs ++ [h]) = sk_add (sk_of hs) h.
  Proof. intros. unfold Journal.sk_of. rewrite fold_left_app. reflexivity. Qed.

  Lemma Jinv_flush : forall t0 w gout gcur tmax now,
    Jinv t0 w gout gcur tmax -> tmax <= now -> Jinv t0 (flush now w) (gout ++ [gcur]) [] now.
  Proof.
    intros t0 w gout gcur tmax now [H1 [H2 [H3 [H4 H5]]]] Hn. unfold Jinv, Journal.flush. cbn [w_cur w_out w_last].
    split; [reflexivity|]. split; [|split; [|split; [constructor | lia]]].
    - apply Forall2_app; [exact H2|]. constructor; [|constructor]. unfold chunk_ok. cbn [c_sk c_start c_end].
      split; [exact H1|]. split; [lia|]. eapply Forall_impl; [|exact H4]. cbn beta. intros e He. lia.
    - eapply (tiled_snoc _ _ _ {| c_start := w_last w; c_end := now; c_sk := w_cur w |}); [exact H3 | reflexivity].
  Qed.

  Lemma Jinv_step : forall t0 w gout gcur tmax o,
    Jinv t0 w gout gcur tmax -> tmax <= op_time o ->
    exists gout' gcur',
      Jinv t0 (japply w o) gout' gcur' (op_time o) /\
      concat gout' ++ gcur' = (concat gout ++ gcur) ++ op_events o.
  Proof.
    intros t0 w gout gcur tmax o HI Ht. destruct o as [now ip|now]; cbn [op_time op_events Journal.japply] in *.
    - unfold Journal.add. destruct (w_last w + w_int w <? now) eqn:E.
      + pose proof (Jinv_flush _ _ _ _ _ now HI Ht) as [H1 [H2 [H3 [H4 H5]]]].
        exists (gout ++ [gcur]), [(now, ip)]. split.
        * unfold Jinv. cbn [w_cur w_out w_last]. split; [|split; [exact H2 | split; [exact H3 | split]]].
          -- rewrite H1. reflexivity.
          -- constructor; [|constructor]. cbn [fst]. cbn [Journal.flush w_last]. lia.
          -- cbn [Journal.flush w_last]. lia.
        * rewrite concat_app. cbn [concat]. rewrite app_nil_r, <- app_assoc. reflexivity.
      + destruct HI as [H1 [H2 [H3 [H4 H5]]]]. exists gout, (gcur ++ [(now, ip)]). split.
        * unfold Jinv. cbn [w_cur w_out w_last]. split; [|split; [exact H2 | split; [exact H3 | split]]].
          -- unfold masks. rewrite map_app. cbn [map snd]. fold (masks gcur). rewrite sk_of_snoc, H1. reflexivity.
          -- apply Forall_app. split.
             ++ eapply Forall_impl; [|exact H4]. cbn beta. intros e He. lia.
             ++ constructor; [|constructor]. cbn [fst]. lia.
          -- lia.
        * rewrite app_assoc. reflexivity.
    - exists (gout ++ [gcur]), []. split.
      + apply (Jinv_flush _ _ _ _ _ now HI Ht).
      + rewrite concat_app. cbn [concat]. rewrite !app_nil_r. reflexivity.
  Qed.

  Lemma Jinv_run : forall ops t0 w gout gcur tmax,
    Jinv t0 w gout gcur tmax -> mono tmax ops ->
    exists gout' gcur' tmax',
      Jinv t0 (jrun ops w) gout' gcur' tmax' /\
      concat gout' ++ gcur' = (concat gout ++ gcur) ++ flat_map op_events ops.
  Proof.
    induction ops as [|o ops IH]; intros t0 w gout gcur tmax HI HM; cbn [Journal.jrun fold_left flat_map].
    - exists gout, gcur, tmax. split; [exact HI | rewrite app_nil_r; reflexivity].
    - destruct HM as [Ht HM]. destruct (Jinv_step _ _ _ _ _ o HI Ht) as [g1 [c1 [HI1 E1]]].
      destruct (IH _ _ _ _ _ HI1 HM) as [g2 [c2 [t2 [HI2 E2]]]]. exists g2, c2, t2. split; [exact HI2|].
      rewrite E2, E1, <- app_assoc. reflexivity.
  Qed.

  (* C19_journal_partition, for every op sequence whose clock readings do not go backwards *)
  Lemma partition : forall t0 interval ops,
    mono t0 ops ->
    let w := jrun ops (new_writer t0 interval) in
    exists (segs : list (list event)) (open : list event),
      (* every recorded event is in exactly one segment or in the open sketch, in order *)
      concat segs ++ open = flat_map op_events ops /\
      (* segment i is what chunk i holds: its sketch is the set of masked addresses of the segment,
         and the segment's events happened inside the chunk's interval *)
      Forall2 chunk_ok (w_out w) segs /\
      w_cur w = sk_of (masks open) /\
      Forall (fun e => w_last w <= fst e) open /\
      (* the chunk intervals tile the time line from the creation of the writer to the last flush *)
      tiled t0 (w_out w) (w_last w).
  Proof.
    intros t0 interval ops HM w.
    assert (H0 : Jinv t0 (new_writer t0 interval) [] [] t0).
    { unfold Jinv, new_writer. cbn [w_cur w_out w_last]. repeat split; try constructor. lia. }
    destruct (Jinv_run ops _ _ _ _ _ H0 HM) as [g [c [t [[H1 [H2 [H3 [H4 H5]]]] E]]]].
    exists g, c. cbn [concat app] in E. fold w in H1, H2, H3, H4. repeat split; auto.
    eapply Forall_impl; [|exact H4]. cbn beta. intros e He. lia.
  Qed.

  (* ---------- a failing sink: every chunk that reaches the journal still spans its recordings ---------- *)
  Notation fflush := (fflush hash).
  Notation fadd := (fadd addr hash mask heqb).
  Notation fapply := (fapply addr hash mask heqb).
  Notation fjrun := (fjrun addr hash mask heqb).

  (* a parsable line is a chunk that holds exactly some recorded events, all inside its span *)
  Definition line_ok (evs : list event) (l : option (chunk hash)) : Prop :=
    match l with Some c => exists seg, chunk_ok c seg /\ incl seg evs | None => True end.
  Definition tail_ok (evs : list event) (t : tail hash) : Prop :=
    match t with TJson c => exists seg, chunk_ok c seg /\ incl seg evs | _ => True end.
  (* event e went into line l (an unparsable line may hide anything) *)
  Definition covers (l : option (chunk hash)) (e : event) : Prop :=
    match l with Some c => exists seg, chunk_ok c seg /\ In e seg | None => True end.

  Definition FJinv (w : fwriter hash) (evs gcur : list event) (tmax : Z) : Prop :=
    f_cur w = sk_of (masks gcur) /\
    Forall (line_ok evs) (f_lines w) /\ tail_ok evs (f_tail w) /\
    Forall (fun e => f_last w <= fst e <= tmax) gcur /\ f_last w <= tmax /\ incl gcur evs /\
    (forall e, In e evs -> In e gcur \/ exists l, In l (f_lines w) /\ covers l e).

  Lemma line_ok_mono : forall evs evs' l, incl evs evs' -> line_ok evs l -> line_ok evs' l.
  Proof.
    intros evs evs' [c|] Hi H; cbn in *; auto. destruct H as [seg [H1 H2]]. exists seg. split; auto.
    intros x Hx. apply Hi, H2, Hx.
  Qed.
  Lemma tail_ok_mono : forall evs evs' t, incl evs evs' -> tail_ok evs t -> tail_ok evs' t.
  Proof.
    intros evs evs' [| |c] Hi H; cbn in *; auto. destruct H as [seg [H1 H2]]. exists seg. split; auto.
    intros x Hx. apply Hi, H2, Hx.
  Qed.

  Lemma FJinv_flush : forall w evs gcur tmax now,
    FJinv w evs gcur tmax -> tmax <= now ->
    exists gcur', FJinv (fflush now w) evs gcur' now.
  Proof.
    intros w evs gcur tmax now [H1 [H2 [H3 [H4 [H5 [H6 H7]]]]]] Hn.
    set (c := {| c_start := f_last w; c_end := now; c_sk := f_cur w |}).
    assert (Hc : chunk_ok c gcur).
    { unfold chunk_ok, c. cbn [c_sk c_start c_end]. split; [exact H1|]. split; [lia|].
      eapply Forall_impl; [|exact H4]. cbn beta. intros e He. lia. }
    assert (Hcl : line_ok evs (Some c)) by (exists gcur; split; assumption).
    assert (H4' : Forall (fun e => f_last w <= fst e <= now) gcur).
    { eapply Forall_impl; [|exact H4]. cbn beta. intros e He. lia. }
    assert (Hput : forall l, line_ok evs l -> (forall e, In e gcur -> covers l e) ->
              Forall (line_ok evs) (f_lines w ++ [l]) /\
              (forall e, In e evs -> In e gcur \/ exists l', In l' (f_lines w ++ [l]) /\ covers l' e) /\
              (forall e, In e evs -> In e (@nil event) \/ exists l', In l' (f_lines w ++ [l]) /\ covers l' e)).
    { intros l Hl Hcov. split; [apply Forall_app; split; [exact H2 | constructor; [exact Hl | constructor]]|]. split.
      - intros e He. destruct (H7 e He) as [Hg|[l' [Hl' Hc']]]; [left; exact Hg|].
        right. exists l'. split; [apply in_or_app; left; exact Hl' | exact Hc'].
      - intros e He. right. destruct (H7 e He) as [Hg|[l' [Hl' Hc']]].
        + exists l. split; [apply in_or_app; right; left; reflexivity | apply Hcov; exact Hg].
        + exists l'. split; [apply in_or_app; left; exact Hl' | exact Hc']. }
    assert (HcovS : forall e, In e gcur -> covers (Some c) e) by (intros e He; exists gcur; split; assumption).
    assert (HcovN : forall e, In e gcur -> covers None e) by (intros; exact I).
    unfold Journal.fflush. fold c.
    destruct (match f_plan w with [] => WOk | r :: _ => r end) eqn:Er.
    - (* WOk *)
      exists []. unfold FJinv, put_line. cbn [f_cur f_lines f_tail f_last].
      destruct (f_tail w); [destruct (Hput (Some c) Hcl HcovS) as [A [_ B]] | destruct (Hput None I HcovN) as [A [_ B]]
                            | destruct (Hput None I HcovN) as [A [_ B]]];
        (split; [reflexivity|]; split; [exact A|]; split; [exact I|]; split; [constructor|]; split; [lia|];
         split; [intros x []|exact B]).
    - (* WSyncErr *)
      exists []. unfold FJinv, put_line. cbn [f_cur f_lines f_tail f_last].
      destruct (f_tail w); [destruct (Hput (Some c) Hcl HcovS) as [A [_ B]] | destruct (Hput None I HcovN) as [A [_ B]]
                            | destruct (Hput None I HcovN) as [A [_ B]]];
        (split; [reflexivity|]; split; [exact A|]; split; [exact I|]; split; [constructor|]; split; [lia|];
         split; [intros x []|exact B]).
    - (* WNone *)
      exists gcur. unfold FJinv. cbn [f_cur f_lines f_tail f_last]. repeat split; auto; lia.
    - (* WTorn *)
      exists gcur. unfold FJinv. cbn [f_cur f_lines f_tail f_last]. repeat split; auto; lia.
    - (* WNoNewline *)
      exists gcur. unfold FJinv. cbn [f_cur f_lines f_tail f_last].
      split; [exact H1|]. split; [exact H2|]. split; [destruct (f_tail w); [exact Hcl | exact I | exact I]|].
      split; [exact H4'|]. split; [lia|]. split; [exact H6 | exact H7].
    - (* WWhole *)
      exists gcur. unfold FJinv, put_line. cbn [f_cur f_lines f_tail f_last].
      destruct (f_tail w); [destruct (Hput (Some c) Hcl HcovS) as [A [B _]] | destruct (Hput None I HcovN) as [A [B _]]
                            | destruct (Hput None I HcovN) as [A [B _]]];
        (split; [exact H1|]; split; [exact A|]; split; [exact I|]; split; [exact H4'|]; split; [lia|];
         split; [exact H6 | exact B]).
  Qed.

  Lemma FJinv_step : forall w evs gcur tmax o,
    FJinv w evs gcur tmax -> tmax <= op_time o ->
    exists gcur', FJinv (fapply w o) (evs ++ op_events o) gcur' (op_time o).
  Proof.
    intros w evs gcur tmax o HI Ht. destruct o as [now ip|now]; cbn [op_time op_events Journal.fapply] in *.
    - assert (Hgen : forall w1 g1, FJinv w1 evs g1 now ->
                FJinv {| f_last := f_last w1; f_int := f_int w1; f_cur := sk_add (f_cur w1) (mask ip); f_lines := f_lines w1;
                         f_tail := f_tail w1; f_plan := f_plan w1 |} (evs ++ [(now, ip)]) (g1 ++ [(now, ip)]) now).
      { intros w1 g1 [H1 [H2 [H3 [H4 [H5 [H6 H7]]]]]]. unfold FJinv. cbn [f_cur f_lines f_tail f_last].
        assert (Hi : incl evs (evs ++ [(now, ip)])) by (intros x Hx; apply in_or_app; left; exact Hx).
        split; [unfold masks; rewrite map_app; cbn [map snd]; fold (masks g1); rewrite sk_of_snoc, H1; reflexivity|].
        split; [eapply Forall_impl; [|exact H2]; intros l Hl; eapply line_ok_mono; eauto|].
        split; [eapply tail_ok_mono; eauto|].
        split; [apply Forall_app; split; [exact H4 | constructor; [cbn [fst]; lia | constructor]]|].
        split; [exact H5|]. split.
        - intros x Hx. apply in_app_or in Hx. apply in_or_app. destruct Hx as [Hx|Hx]; [left; apply H6; exact Hx | right; exact Hx].
        - intros e He. apply in_app_or in He. destruct He as [He|He].
          + destruct (H7 e He) as [Hg|Hl]; [left; apply in_or_app; left; exact Hg | right; exact Hl].
          + left. apply in_or_app. right. exact He. }
      unfold Journal.fadd. destruct (f_last w + f_int w <? now) eqn:E.
      + destruct (FJinv_flush _ _ _ _ now HI Ht) as [g1 H1]. exists (g1 ++ [(now, ip)]). apply Hgen. exact H1.
      + exists (gcur ++ [(now, ip)]). apply Hgen.
        destruct HI as [H1 [H2 [H3 [H4 [H5 [H6 H7]]]]]]. unfold FJinv. repeat split; auto; try lia.
        eapply Forall_impl; [|exact H4]. cbn beta. intros e He. lia.
    - rewrite app_nil_r. apply (FJinv_flush _ _ _ _ now HI Ht).
  Qed.

  Lemma FJinv_run : forall ops w evs gcur tmax,
    FJinv w evs gcur tmax -> mono tmax ops ->
    exists gcur' tmax', FJinv (fjrun ops w) (evs ++ flat_map op_events ops) gcur' tmax'.
  Proof.
    induction ops as [|o ops IH]; intros w evs gcur tmax HI HM; cbn [Journal.fjrun fold_left flat_map].
    - exists gcur, tmax. rewrite app_nil_r. exact HI.
    - destruct HM as [Ht HM]. destruct (FJinv_step _ _ _ _ o HI Ht) as [g1 HI1].
      destruct (IH _ _ _ _ HI1 HM) as [g2 [t2 HI2]]. exists g2, t2. rewrite <- app_assoc in HI2. exact HI2.
  Qed.

  Lemma In_file_of : forall (w : fwriter hash) c, In (Some c) (file_of w) -> In (Some c) (f_lines w) \/ f_tail w = TJson c.
  Proof.
    intros w c H. unfold file_of in H. apply in_app_or in H. destruct H as [H|H]; [left; exact H|].
    destruct (f_tail w) as [| |c']; cbn in H; try (destruct H as [H|[]]; try discriminate); try contradiction.
    right. inversion H; subst. reflexivity.
  Qed.

  (* C19_journal_failed_writes: for every pattern of failing writes, every chunk that can be read back from the
     journal holds exactly some of the recorded events and its recording span contains the instants of all of
     them; the open sketch holds events no older than the last write taken for successful; and, as long as no line
     was damaged, every recorded event is in the open sketch or in a chunk of the file *)
  Lemma failed_writes : forall t0 interval plan ops,
    mono t0 ops ->
    let w := fjrun ops (fnew t0 interval plan) in
    let evs := flat_map op_events ops in
    (forall c, In (Some c) (file_of w) ->
       exists seg, c_sk c = sk_of (masks seg) /\ c_start c <= c_end c /\
                   Forall (fun e => c_start c <= fst e <= c_end c) seg /\ incl seg evs) /\
    (exists open, f_cur w = sk_of (masks open) /\ Forall (fun e => f_last w <= fst e) open /\ incl open evs /\
       (readable (f_lines w) = true ->
        forall e, In e evs -> In e open \/
          exists c seg, In (Some c) (f_lines w) /\ c_sk c = sk_of (masks seg) /\ In e seg /\
                        c_start c <= fst e <= c_end c)).
  Proof.
    intros t0 interval plan ops HM w evs.
    assert (H0 : FJinv (fnew t0 interval plan) [] [] t0).
    { unfold FJinv, fnew. cbn [f_cur f_lines f_tail f_last].
      split; [reflexivity|]. split; [constructor|]. split; [exact I|]. split; [constructor|]. split; [lia|].
      split; [intros x []|intros e0 []]. }
    destruct (FJinv_run ops _ _ _ _ H0 HM) as [g [t [H1 [H2 [H3 [H4 [H5 [H6 H7]]]]]]]].
    cbn [app] in *. fold w in H1, H2, H3, H4, H5, H7. fold evs in H2, H3, H6, H7. split.
    - intros c Hc. apply In_file_of in Hc. destruct Hc as [Hc|Hc].
      + rewrite Forall_forall in H2. destruct (H2 _ Hc) as [seg [[A [B C]] D]]. exists seg. auto.
      + rewrite Hc in H3. destruct H3 as [seg [[A [B C]] D]]. exists seg. auto.
    - exists g. split; [exact H1|]. split; [eapply Forall_impl; [|exact H4]; cbn beta; intros e He; lia|].
      split; [exact H6|]. intros Hr e He. destruct (H7 e He) as [Hg|[l [Hl Hc]]]; [left; exact Hg|]. right.
      destruct l as [c|].
      + destruct Hc as [seg [[A [B C]] D]]. exists c, seg. split; [exact Hl|]. split; [exact A|]. split; [exact D|].
        rewrite Forall_forall in C. apply C. exact D.
      + exfalso. unfold readable in Hr. rewrite forallb_forall in Hr. specialize (Hr _ Hl). discriminate.
  Qed.

  (* with a sink that never fails the failing-sink writer IS the writer of the theorems above *)
  Definition fsim (w : writer hash) (fw : fwriter hash) : Prop :=
    f_last fw = w_last w /\ f_int fw = w_int w /\ f_cur fw = w_cur w /\ f_lines fw = map Some (w_out w) /\
    f_tail fw = TEmpty /\ f_plan fw = [].

  Lemma fsim_flush : forall now w fw, fsim w fw -> fsim (flush now w) (fflush now fw).
  Proof.
    intros now w fw [A [B [C [D [E F]]]]]. unfold fsim, Journal.flush, Journal.fflush, put_line. rewrite F, E. cbn [tl].
    cbn [f_last f_int f_cur f_lines f_tail f_plan w_last w_int w_cur w_out].
    repeat split; auto. rewrite map_app, D, A, C. reflexivity.
  Qed.

  Lemma fsim_run : forall ops w fw, fsim w fw -> fsim (jrun ops w) (fjrun ops fw).
  Proof.
    induction ops as [|o ops IH]; intros w fw H; cbn [Journal.jrun Journal.fjrun fold_left]; [exact H|].
    apply IH. destruct o as [now ip|now]; cbn [Journal.japply Journal.fapply].
    - unfold Journal.add, Journal.fadd. destruct H as [A [B [C [D [E F]]]]]. rewrite A, B.
      destruct (w_last w + w_int w <? now).
      + destruct (fsim_flush now w fw (conj A (conj B (conj C (conj D (conj E F)))))) as [A' [B' [C' [D' [E' F']]]]].
        unfold fsim. cbn [f_last f_int f_cur f_lines f_tail f_plan w_last w_int w_cur w_out]. rewrite C'. repeat split; auto.
      + unfold fsim. cbn [f_last f_int f_cur f_lines f_tail f_plan w_last w_int w_cur w_out]. rewrite C. repeat split; auto.
    - apply fsim_flush. exact H.
  Qed.

  Lemma never_failing_sink : forall t0 interval ops,
    let w := jrun ops (new_writer t0 interval) in
    let fw := fjrun ops (fnew t0 interval []) in
    file_of fw = map Some (w_out w) /\ f_cur fw = w_cur w /\ f_last fw = w_last w /\
    forall from to, fcount hash heqb from to (file_of fw) = Some (count from to (w_out w)).
  Proof.
    intros t0 interval ops w fw.
    assert (H : fsim w fw) by (apply fsim_run; unfold fsim, fnew, new_writer; cbn; repeat split; reflexivity).
    destruct H as [A [B [C [D [E F]]]]]. unfold file_of. rewrite E, D, app_nil_r.
    split; [reflexivity|]. split; [exact C|]. split; [exact A|]. intros from to. unfold fcount.
    assert (R : forall l : list (chunk hash), readable (map Some l) = true /\ good_lines (map Some l) = l).
    { induction l as [|c l IH]; [split; reflexivity|]. destruct IH as [I1 I2]. cbn. rewrite I2. split; [exact I1 | reflexivity]. }
    destruct (R (w_out w)) as [R1 R2]. rewrite R1, R2. reflexivity.
  Qed.

  (* the reader gives an answer only when every line parses, and then it is the window count of the chunks *)
  Lemma fcount_spec : forall from to f r,
    fcount hash heqb from to f = Some r <-> readable f = true /\ r = count from to (good_lines f).
  Proof.
    intros from to f r. unfold fcount. destruct (readable f); split.
    - intro H. inversion H. auto.
    - intros [_ ->]. reflexivity.
    - discriminate.
    - intros [H _]. discriminate.
  Qed.
End JournalProofs.
