(* ArmorTailProofs.v — the streaming AMP armor decoder (Model/ArmorStream.v) never looks at the part of the
   source it has not asked for: if the caller's Reads come to an end (io.EOF or an error) while the producer has
   not yet met the end of the source chunks [chunks], then with ANY continuation [tl] of the source appended the
   same Reads return the same bytes and the same end, consume the same number of source bytes, and leave [tl]
   untouched.  In particular an error found early in a document is returned whatever follows it - a remainder
   that never ends included - after a consumption that the remainder does not influence. *)
From Coq Require Import List NArith Bool Arith Lia String.
From Snow Require Import Lib.Wire Model.Base64 Model.Armor Model.ArmorStream Proofs.ArmorStreamProofs.
Import ListNotations.
Open Scope N_scope.

Section Tail.
  Variable T : Type.
  Variable tinit : T.
  Variable tfeed : T -> N -> T * list tok.
  Variable tfin : T -> list tok.

  Notation fill_src := (fill_src T tfeed).
  Notation fill_cur := (fill_cur T tfeed).
  Notation p_fill := (p_fill T tfeed tfin).
  Notation pipe_read := (pipe_read T tfeed tfin).
  Notation p_close := (p_close T tfeed tfin).
  Notation refill := (refill T tfeed tfin).
  Notation dec_read0 := (dec_read0 T tfeed tfin).
  Notation dec_read := (dec_read T tfeed tfin).
  Notation dec_new := (dec_new T tinit tfeed tfin).

  (* the producer with more source to come *)
  Definition padd (p : prod T) (tl : list bytes) : prod T :=
    {| p_src := p_src p ++ tl; p_cur := p_cur p; p_fin := p_fin p; p_tk := p_tk p; p_act := p_act p;
       p_q := p_q p; p_consumed := p_consumed p |}.
  Definition dadd (d : dec T) (tl : list bytes) : dec T := {| d_c := d_c d; d_p := padd (d_p d) tl |}.

  Lemma fill_src_tail : forall src t act n tl t' a' src' cur' evs n',
    fill_src t act src n = (t', a', src', cur', evs, n') -> evs <> [] ->
    fill_src t act (src ++ tl) n = (t', a', src' ++ tl, cur', evs, n').
  Proof.
    induction src as [|ch src IH]; intros t act n tl t' a' src' cur' evs n' H Hne.
    - cbn in H. injection H as <- <- <- <- <- <-. contradiction.
    - cbn [app ArmorStream.fill_src] in *.
      destruct (fill_cur t act ch) as [[[t1 a1] cur1] ev1].
      destruct ev1 as [|e1 ev1].
      + apply IH; assumption.
      + injection H as <- <- <- <- <- <-. reflexivity.
  Qed.

  Lemma set_q_padd : forall p q tl, set_q T (padd p tl) q = padd (set_q T p q) tl.
  Proof. reflexivity. Qed.

  (* one run of the producer to its next Write: if it did not meet the end of the source, more source behind
     changes nothing *)
  Lemma p_fill_tail : forall p tl, p_fin (p_fill p) = false ->
    p_fin p = false /\ p_fill (padd p tl) = padd (p_fill p) tl.
  Proof.
    intros p tl. unfold ArmorStream.p_fill. cbn [padd p_q p_tk p_act p_cur p_src p_consumed p_fin].
    destruct (p_q p) as [|e q] eqn:Eq.
    - destruct (fill_cur (p_tk p) (p_act p) (p_cur p)) as [[[t1 a1] cur1] ev1].
      destruct ev1 as [|e1 ev1].
      + destruct (fill_src t1 a1 (p_src p) (p_consumed p)) as [[[[[t2 a2] src2] cur2] ev2] n2] eqn:E2.
        destruct ev2 as [|e2 ev2].
        * cbn [p_fin]. discriminate.
        * cbn [p_fin]. intros H. split; [exact H|].
          rewrite (fill_src_tail _ _ _ _ tl _ _ _ _ _ _ E2) by discriminate. reflexivity.
      + cbn [p_fin]. intros H. split; [exact H | reflexivity].
    - intros H. split; [exact H|]. unfold padd. cbn [p_q]. rewrite Eq. reflexivity.
  Qed.

  Lemma pipe_read_tail : forall k p tl r p', pipe_read k p = (r, p') -> p_fin p' = false ->
    p_fin p = false /\ pipe_read k (padd p tl) = (r, padd p' tl).
  Proof.
    intros k p tl r p' H Hf. unfold ArmorStream.pipe_read in *.
    assert (Hf1 : p_fin (p_fill p) = false).
    { destruct (p_q (p_fill p)) as [|[w|e] q]; injection H as <- <-; exact Hf. }
    destruct (p_fill_tail p tl Hf1) as [H0 E]. split; [exact H0|].
    rewrite E. cbn [padd p_q].
    destruct (p_q (p_fill p)) as [|[w|e] q]; injection H as <- <-; reflexivity.
  Qed.

  Lemma p_close_tail : forall e p tl, p_fin (p_close e p) = false ->
    p_fin p = false /\ p_close e (padd p tl) = padd (p_close e p) tl.
  Proof.
    intros e p tl Hf. unfold ArmorStream.p_close in *.
    assert (Hf1 : p_fin (p_fill p) = false).
    { destruct (p_q (p_fill p)) as [|[w|e'] q]; exact Hf. }
    destruct (p_fill_tail p tl Hf1) as [H0 E]. split; [exact H0|].
    rewrite E. cbn [padd p_q].
    destruct (p_q (p_fill p)) as [|[w|e'] q]; reflexivity.
  Qed.

  Lemma refill_tail : forall fuel target nbuf rerr p tl nbuf' rerr' p',
    refill fuel target nbuf rerr p = (nbuf', rerr', p') -> p_fin p' = false ->
    p_fin p = false /\ refill fuel target nbuf rerr (padd p tl) = (nbuf', rerr', padd p' tl).
  Proof.
    induction fuel as [|f IH]; intros target nbuf rerr p tl nbuf' rerr' p' H Hf; cbn [ArmorStream.refill] in *.
    - injection H as <- <- <-. split; [exact Hf | reflexivity].
    - destruct (Nat.ltb (List.length nbuf) 4).
      + destruct rerr as [e|].
        * injection H as <- <- <-. split; [exact Hf | reflexivity].
        * destruct (pipe_read (target - List.length nbuf) p) as [[b|e] p1] eqn:Er.
          -- destruct (IH _ _ _ _ tl _ _ _ H Hf) as [Hf1 E].
             destruct (pipe_read_tail _ _ tl _ _ Er Hf1) as [H0 E1].
             split; [exact H0|]. rewrite E1. exact E.
          -- injection H as <- <- <-.
             destruct (pipe_read_tail _ _ tl _ _ Er Hf) as [H0 E1].
             split; [exact H0|]. rewrite E1. reflexivity.
      + injection H as <- <- <-. split; [exact Hf | reflexivity].
  Qed.

  Lemma dec_read0_tail : forall n d tl r d', dec_read0 n d = (r, d') -> p_fin (d_p d') = false ->
    p_fin (d_p d) = false /\ dec_read0 n (dadd d tl) = (r, dadd d' tl).
  Proof.
    intros n d tl r d' H Hf. unfold ArmorStream.dec_read0 in *. cbn [dadd d_c d_p].
    destruct (c_out (d_c d)) as [|o out].
    2: { injection H as <- <-. cbn [d_p] in Hf. split; [exact Hf | reflexivity]. }
    destruct (c_err (d_c d)) as [e|].
    { injection H as <- <-. split; [exact Hf | reflexivity]. }
    destruct (refill 4 (clamp_nn n) (c_nbuf (d_c d)) (c_rerr (d_c d)) (d_p d)) as [[nbuf rerr] p1] eqn:Er.
    assert (Hf1 : p_fin p1 = false).
    { destruct (Nat.ltb (List.length nbuf) 4); [injection H as <- <-; exact Hf|].
      destruct (b64_chunk (firstn (List.length nbuf / 4 * 4) nbuf)) as [data bad].
      destruct (Nat.ltb n (List.length nbuf / 4 * 4 / 4 * 3)); injection H as <- <-; exact Hf. }
    destruct (refill_tail _ _ _ _ _ tl _ _ _ Er Hf1) as [H0 E]. split; [exact H0|].
    rewrite E.
    destruct (Nat.ltb (List.length nbuf) 4); [injection H as <- <-; reflexivity|].
    destruct (b64_chunk (firstn (List.length nbuf / 4 * 4) nbuf)) as [data bad].
    destruct (Nat.ltb n (List.length nbuf / 4 * 4 / 4 * 3)); injection H as <- <-; reflexivity.
  Qed.

  Lemma dec_read_tail : forall n d tl r d', dec_read n d = (r, d') -> p_fin (d_p d') = false ->
    p_fin (d_p d) = false /\ dec_read n (dadd d tl) = (r, dadd d' tl).
  Proof.
    intros n d tl r d' H Hf. unfold ArmorStream.dec_read in *.
    destruct (dec_read0 n d) as [r0 d0] eqn:E0.
    assert (Hf0 : p_fin (d_p d0) = false).
    { destruct (snd r0) as [[|e]|]; injection H as <- <-; cbn [d_p] in Hf; [exact Hf | | exact Hf].
      exact (proj1 (p_close_tail e (d_p d0) tl Hf)). }
    destruct (dec_read0_tail n d tl r0 d0 E0 Hf0) as [H0 E]. split; [exact H0|].
    rewrite E.
    destruct (snd r0) as [[|e]|]; injection H as <- <-; try reflexivity.
    cbn [d_p] in Hf. unfold dadd. cbn [d_c d_p].
    rewrite (proj2 (p_close_tail e (d_p d0) tl Hf)). reflexivity.
  Qed.

  Lemma read_all_tail : forall fuel sz i d acc tl b e d',
    read_all T dec_read fuel sz i d acc = (b, e, d') -> p_fin (d_p d') = false ->
    p_fin (d_p d) = false /\ read_all T dec_read fuel sz i (dadd d tl) acc = (b, e, dadd d' tl).
  Proof.
    induction fuel as [|f IH]; intros sz i d acc tl b e d' H Hf; cbn [read_all] in *.
    - injection H as <- <- <-. split; [exact Hf | reflexivity].
    - destruct (dec_read (sz i) d) as [[b1 e1] d1] eqn:E1.
      destruct e1 as [e1|].
      + injection H as <- <- <-.
        destruct (dec_read_tail _ _ tl _ _ E1 Hf) as [H0 E]. split; [exact H0|]. rewrite E. reflexivity.
      + destruct (IH _ _ _ _ tl _ _ _ H Hf) as [Hf1 E].
        destruct (dec_read_tail _ _ tl _ _ E1 Hf1) as [H0 E']. split; [exact H0|]. rewrite E'. exact E.
  Qed.

  Lemma p_init_padd : forall chunks tl, p_init T tinit (chunks ++ tl) = padd (p_init T tinit chunks) tl.
  Proof. reflexivity. Qed.

  (* NewArmorDecoder *)
  Lemma dec_new_tail : forall chunks tl,
    match dec_new chunks with
    | NewErr _ e p => p_fin p = false -> dec_new (chunks ++ tl) = NewErr T e (padd p tl)
    | NewOk _ d => p_fin (d_p d) = false -> dec_new (chunks ++ tl) = NewOk T (dadd d tl)
    end.
  Proof.
    intros chunks tl. unfold ArmorStream.dec_new. rewrite p_init_padd.
    destruct (pipe_read 1 (p_init T tinit chunks)) as [[b|e] p1] eqn:Er.
    - destruct b as [|v b].
      + intros Hf. destruct (p_close_tail EUnknownVersion p1 tl Hf) as [Hf1 Ec].
        rewrite (proj2 (pipe_read_tail _ _ tl _ _ Er Hf1)). rewrite Ec. reflexivity.
      + destruct (v =? VERSION) eqn:Ev.
        * cbn [d_p]. intros Hf. rewrite (proj2 (pipe_read_tail _ _ tl _ _ Er Hf)). rewrite Ev. reflexivity.
        * intros Hf. destruct (p_close_tail EUnknownVersion p1 tl Hf) as [Hf1 Ec].
          rewrite (proj2 (pipe_read_tail _ _ tl _ _ Er Hf1)). rewrite Ev, Ec. reflexivity.
    - destruct e as [|e]; intros Hf; rewrite (proj2 (pipe_read_tail _ _ tl _ _ Er Hf)); reflexivity.
  Qed.

  (* the caller's whole loop *)
  Theorem stream_decode_tail : forall chunks tl sz fuel,
    let r := stream_decode T tinit tfeed tfin chunks sz fuel in
    p_fin (s_prod r) = false ->
    let r' := stream_decode T tinit tfeed tfin (chunks ++ tl) sz fuel in
    s_data r' = s_data r /\ s_end r' = s_end r /\ s_prod r' = padd (s_prod r) tl.
  Proof.
    intros chunks tl sz fuel. cbv zeta. unfold stream_decode, stream_decode_with.
    pose proof (dec_new_tail chunks tl) as Hn.
    destruct (dec_new chunks) as [e p|d] eqn:En.
    - cbn [s_prod s_data s_end]. intros Hf. rewrite (Hn Hf). cbn [s_prod s_data s_end]. auto.
    - destruct (read_all T dec_read fuel sz 0 d []) as [[b e] d'] eqn:Ea.
      cbn [s_prod s_data s_end]. intros Hf.
      destruct (read_all_tail _ _ _ _ _ tl _ _ _ Ea Hf) as [Hf0 E].
      rewrite (Hn Hf0). rewrite E. cbn [s_prod s_data s_end d_p dadd]. auto.
  Qed.

  (* ... in particular the source bytes consumed and the bytes left unread *)
  Corollary stream_decode_tail_consumed : forall chunks tl sz fuel,
    p_fin (s_prod (stream_decode T tinit tfeed tfin chunks sz fuel)) = false ->
    p_consumed (s_prod (stream_decode T tinit tfeed tfin (chunks ++ tl) sz fuel)) =
      p_consumed (s_prod (stream_decode T tinit tfeed tfin chunks sz fuel)) /\
    p_src (s_prod (stream_decode T tinit tfeed tfin (chunks ++ tl) sz fuel)) =
      p_src (s_prod (stream_decode T tinit tfeed tfin chunks sz fuel)) ++ tl.
  Proof.
    intros chunks tl sz fuel Hf. destruct (stream_decode_tail chunks tl sz fuel Hf) as [_ [_ E]].
    rewrite E. split; reflexivity.
  Qed.
  Theorem stream_decode_tail_full : forall chunks tl sz fuel,
    let r := stream_decode T tinit tfeed tfin chunks sz fuel in
    p_fin (s_prod r) = false ->
    let r' := stream_decode T tinit tfeed tfin (chunks ++ tl) sz fuel in
    s_data r' = s_data r /\ s_end r' = s_end r /\
    p_consumed (s_prod r') = p_consumed (s_prod r) /\ p_src (s_prod r') = p_src (s_prod r) ++ tl.
  Proof.
    intros chunks tl sz fuel r Hf r'.
    destruct (stream_decode_tail chunks tl sz fuel Hf) as [Hd [He Hp]].
    fold r r' in Hd, He, Hp. split; [exact Hd|]. split; [exact He|]. rewrite Hp. split; reflexivity.
  Qed.
End Tail.

(* instance and non-vacuity: bad base64 in the first element ("QU*D"), met by the second Read *)
Definition tail_doc : bytes := bs "<html><pre>0QUJD QU*D QUJD</pre>".

Lemma early_error_whatever_follows : forall tl,
  let r' := armor_stream_decode ([tail_doc] ++ tl) (fun _ => 16%nat) 40 in
  s_data r' = bs "ABC" /\ s_end r' = Some (RErr EBadBase64) /\
  p_consumed (s_prod r') = N.of_nat (List.length tail_doc) /\ p_src (s_prod r') = tl /\ sp_stuck (s_prod r') = false.
Proof.
  intros tl r'.
  assert (Hf : p_fin (s_prod (armor_stream_decode [tail_doc] (fun _ => 16%nat) 40)) = false) by (vm_compute; reflexivity).
  destruct (stream_decode_tail tks tk_init tk_step tk_fin [tail_doc] tl (fun _ => 16%nat) 40 Hf) as [Hd [He Hp]].
  change (stream_decode tks tk_init tk_step tk_fin ([tail_doc] ++ tl) (fun _ => 16%nat) 40) with r' in Hd, He, Hp.
  change (stream_decode tks tk_init tk_step tk_fin [tail_doc] (fun _ => 16%nat) 40)
    with (armor_stream_decode [tail_doc] (fun _ => 16%nat) 40) in Hd, He, Hp.
  assert (E1 : s_data (armor_stream_decode [tail_doc] (fun _ => 16%nat) 40) = bs "ABC") by (vm_compute; reflexivity).
  assert (E2 : s_end (armor_stream_decode [tail_doc] (fun _ => 16%nat) 40) = Some (RErr EBadBase64)) by (vm_compute; reflexivity).
  assert (E3 : p_consumed (s_prod (armor_stream_decode [tail_doc] (fun _ => 16%nat) 40)) = N.of_nat (List.length tail_doc))
    by (vm_compute; reflexivity).
  assert (E4 : p_src (s_prod (armor_stream_decode [tail_doc] (fun _ => 16%nat) 40)) = []) by (vm_compute; reflexivity).
  split; [rewrite Hd; exact E1|]. split; [rewrite He; exact E2|].
  rewrite Hp. split; [exact E3|]. split; [cbn [padd p_src]; rewrite E4; reflexivity|].
  assert (Hr' : s_end r' <> None) by (rewrite He, E2; discriminate).
  pose proof (stream_decode_released tks tk_init tk_step tk_fin ([tail_doc] ++ tl) (fun _ => 16%nat) 40 Hr') as S2.
  change (stream_decode tks tk_init tk_step tk_fin ([tail_doc] ++ tl) (fun _ => 16%nat) 40) with r' in S2.
  rewrite Hp in S2. exact S2.
Qed.
