(* RelayHistoryProofs.v — C06 over histories: the relay-pattern decision of a broker context and the relay-URL
   decision of a proxy do not depend on what was asked before (Model/RelayCheck.v broker_run / proxy_run), and
   the reply of the gated matching machine (Proofs/BrokerGateProofs.v gstep) to a poll does not depend on the
   machine state, hence not on the history of polls, client offers, answers and timeouts that produced it. *)
From Coq Require Import List NArith ZArith Bool Arith Lia.
From Snow Require Import Lib.Wire Model.NameMatcher Model.RelayCheck Model.Broker Model.BrokerGate Proofs.BrokerProofs
  Proofs.NameMatcherProofs Proofs.BrokerGateProofs.
Import ListNotations.
Open Scope N_scope.

(* ------------------------------------------------------------------ broker context *)

Definition is_poll (e : broker_event) : bool := match e with EvPoll _ => true | EvInstall _ => false end.

Lemma broker_run_length : forall evs cfg, length (broker_run cfg evs) = length evs.
Proof. induction evs as [|[pat|c] r IH]; intros cfg; cbn; [reflexivity| |]; rewrite IH; reflexivity. Qed.

Lemma broker_run_app : forall pre post cfg,
  broker_run cfg (pre ++ post) = broker_run cfg pre ++ broker_run (broker_cfg_after cfg pre) post.
Proof. induction pre as [|[pat|c] r IH]; intros post cfg; cbn; [reflexivity| |]; rewrite IH; reflexivity. Qed.

Lemma broker_cfg_after_app : forall pre post cfg,
  broker_cfg_after cfg (pre ++ post) = broker_cfg_after (broker_cfg_after cfg pre) post.
Proof. induction pre as [|[pat|c] r IH]; intros post cfg; cbn; [reflexivity| |]; apply IH. Qed.

Lemma broker_cfg_after_polls : forall polls cfg,
  forallb is_poll polls = true -> broker_cfg_after cfg polls = cfg.
Proof.
  induction polls as [|[pat|c] r IH]; intros cfg H; cbn in *; [reflexivity| |discriminate].
  apply IH. exact H.
Qed.

(* the answer to the poll at any position of any history = the decision for that poll alone, under the
   patterns in force at that moment *)
Lemma broker_poll_answer_at : forall cfg pre pat post,
  nth_error (broker_run cfg (pre ++ EvPoll pat :: post)) (length pre)
  = Some (Some (broker_accepts_poll (broker_cfg_after cfg pre) pat)).
Proof.
  intros cfg pre pat post. rewrite broker_run_app.
  rewrite nth_error_app2 by (rewrite broker_run_length; lia).
  rewrite broker_run_length, Nat.sub_diag. reflexivity.
Qed.

(* ... and those patterns are the ones of the latest InstallBridgeListProfile, whatever polls came in between
   and whatever happened before that installation *)
Lemma broker_poll_answer_after_install : forall cfg0 before c polls pat post,
  forallb is_poll polls = true ->
  nth_error (broker_run cfg0 (before ++ EvInstall c :: polls ++ EvPoll pat :: post))
            (length before + S (length polls))
  = Some (Some (broker_accepts_poll c pat)).
Proof.
  intros cfg0 before c polls pat post Hp.
  replace (before ++ EvInstall c :: polls ++ EvPoll pat :: post)
    with ((before ++ EvInstall c :: polls) ++ EvPoll pat :: post)
    by (rewrite <- app_assoc; reflexivity).
  replace (length before + S (length polls))%nat with (length (before ++ EvInstall c :: polls))
    by (rewrite app_length; reflexivity).
  rewrite broker_poll_answer_at. rewrite broker_cfg_after_app. cbn [broker_cfg_after].
  rewrite broker_cfg_after_polls by exact Hp. reflexivity.
Qed.

(* without reconfiguration the run is the pointwise image of the single-poll decision *)
Lemma broker_run_polls : forall cfg pats,
  broker_run cfg (map EvPoll pats) = map (fun pat => Some (broker_accepts_poll cfg pat)) pats.
Proof. intros cfg pats. induction pats as [|p r IH]; cbn; [reflexivity|]. rewrite IH. reflexivity. Qed.

(* hence a poll that must be rejected on its own is rejected after any history *)
Lemma broker_rejects_after_any_history : forall cfg pre pat post,
  let cur := broker_cfg_after cfg pre in
  is_superset_of (new_matcher (effective_pattern cur pat)) (new_matcher (allowed_pattern cur)) = false ->
  nth_error (broker_run cfg (pre ++ EvPoll pat :: post)) (length pre) = Some (Some false).
Proof.
  intros cfg pre pat post cur H. rewrite broker_poll_answer_at. fold cur.
  rewrite (broker_rejects cur pat H). reflexivity.
Qed.

(* ------------------------------------------------------------------ gated matching machine *)

Lemma gstep_reply : forall cfg v s g s' r, gstep cfg v s g = Some (s', r) -> r = gate_reply cfg g.
Proof.
  intros cfg v s g s' r. destruct g as [sd n pt cl pat|l]; cbn [gstep gate_reply].
  - destruct (broker_accepts_poll cfg pat).
    + destruct (step v s (L_Poll sd n pt cl)) as [s1|]; cbn; [|discriminate]. intros H; injection H as _ <-. reflexivity.
    + intros H; injection H as _ <-. reflexivity.
  - destruct l; try discriminate;
    match goal with |- option_map _ ?X = _ -> _ =>
      destruct X as [s1|]; cbn; [|discriminate]; intros H; injection H as _ <-; reflexivity end.
Qed.

Lemma grun_replies : forall cfg v gs s s' rs,
  grun cfg v s gs = Some (s', rs) -> rs = map (gate_reply cfg) gs.
Proof.
  intros cfg v gs. induction gs as [|g r IH]; intros s s' rs H; cbn in H.
  - injection H as _ <-. reflexivity.
  - destruct (gstep cfg v s g) as [[s1 o]|] eqn:E; [|discriminate].
    destruct (grun cfg v s1 r) as [[s2 os]|] eqn:E2; [|discriminate].
    injection H as _ <-. cbn. rewrite (gstep_reply _ _ _ _ _ _ E). rewrite (IH _ _ _ E2). reflexivity.
Qed.

(* a poll whose pattern is not a superset is answered with the rejection at every point of every run *)
Lemma grun_rejects_at : forall cfg v s pre sd n pt cl pat post s' rs,
  broker_accepts_poll cfg pat = false ->
  grun cfg v s (pre ++ G_ProxyPoll sd n pt cl pat :: post) = Some (s', rs) ->
  nth_error rs (length pre) = Some (Some RejectedPattern).
Proof.
  intros cfg v s pre sd n pt cl pat post s' rs Hrej H.
  rewrite (grun_replies _ _ _ _ _ _ H). rewrite map_app.
  rewrite nth_error_app2 by (rewrite map_length; lia).
  rewrite map_length, Nat.sub_diag. cbn. rewrite Hrej. reflexivity.
Qed.

(* ------------------------------------------------------------------ proxy *)

Lemma proxy_run_map : forall cfg offers,
  proxy_run cfg offers = map (fun o : relay_offer => proxy_relay_decision cfg (fst o) (snd o)) offers.
Proof. intros cfg offers. induction offers as [|[raw pu] r IH]; cbn; [reflexivity|]. rewrite IH. reflexivity. Qed.

Lemma proxy_run_length : forall cfg offers, length (proxy_run cfg offers) = length offers.
Proof. intros. rewrite proxy_run_map. apply map_length. Qed.

Lemma proxy_decision_at : forall cfg pre raw pu post,
  nth_error (proxy_run cfg (pre ++ (raw, pu) :: post)) (length pre) = Some (proxy_relay_decision cfg raw pu).
Proof.
  intros cfg pre raw pu post. rewrite proxy_run_map, map_app.
  rewrite nth_error_app2 by (rewrite map_length; lia).
  rewrite map_length, Nat.sub_diag. reflexivity.
Qed.

(* after any history of offers: the broker-supplied URL is dialled only if its hostname passes the proxy's own
   pattern and its scheme is wss unless non-TLS relays were allowed *)
Lemma proxy_never_dials_after_any_history : forall cfg pre raw pu post,
  nth_error (proxy_run cfg (pre ++ (raw, pu) :: post)) (length pre) = Some DialBrokerURL ->
  raw <> [] /\ exists scheme host, pu = Parsed scheme host
     /\ is_member (new_matcher (relay_pattern cfg)) host = true
     /\ (allow_non_tls cfg = true \/ scheme = WSS).
Proof.
  intros cfg pre raw pu post H. rewrite proxy_decision_at in H. injection H as H.
  apply proxy_dial_broker_iff. exact H.
Qed.
