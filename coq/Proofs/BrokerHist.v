(* BrokerHist.v — C02 statements over histories (label sequences) of the matching machine:
   - no proxy poll is handed two clients' offers (no poll index occurs in two accepted client matches);
   - an answer that reaches a client was carried by an answer request of the history whose session-id lookup, at the
     moment it was made, resolved to the very poll holding that client. *)
From Coq Require Import List NArith ZArith Bool Arith Lia.
From Snow Require Import Model.Broker Proofs.BrokerProofs Proofs.BrokerSteps Proofs.BrokerThms Proofs.BrokerKeys.
Import ListNotations.
Open Scope N_scope.

Lemma run_app v : forall a b s, run v s (a ++ b) = match run v s a with Some s1 => run v s1 b | None => None end.
Proof.
  induction a as [|l a IH]; intros b s; cbn [app run]; [reflexivity|].
  destruct (step v s l); [apply IH | reflexivity].
Qed.

(* ---- each proxy poll receives at most one offer ---- *)

Lemma run_left_pool v : forall ls s s' p e, run v s ls = Some s' -> nth_error (entries s) p = Some e -> e_inheap e = false ->
  exists e', nth_error (entries s') p = Some e' /\ e_inheap e' = false.
Proof.
  induction ls as [|l ls IH]; intros s s' p e H Hp Hh; cbn [run] in H.
  - injection H as <-. exists e. split; assumption.
  - destruct (step v s l) as [s1|] eqn:Hs; [|discriminate].
    destruct (left_pool_forever v s l s1 p e Hs Hp Hh) as [e1 [Hp1 Hh1]]. eapply IH; eassumption.
Qed.

Lemma client_match_pops v s n ofp o p s' : step v s (L_Client n ofp o (Some p)) = Some s' ->
  (exists e, nth_error (entries s) p = Some e /\ e_inheap e = true) /\
  (exists e', nth_error (entries s') p = Some e' /\ e_inheap e' = false).
Proof.
  intros H. cbn [step] in H. destruct (lookup (fp_of ofp) (bridges s)); [|discriminate].
  destruct (nth_error (entries s) p) as [e|] eqn:Hp; [|discriminate].
  destruct (eligible n e && is_min n (entries s) e) eqn:Hel; [|discriminate]. injection H as <-.
  apply andb_prop in Hel. destruct Hel as [Hel _]. destruct (eligible_inheap n e Hel) as [Hh _].
  split; [exists e; split; [reflexivity | exact Hh]|]. cbn [entries].
  eexists. split; [apply nth_upd_eq; exact Hp | reflexivity].
Qed.

(* in any history, from any state: two accepted client matches never name the same poll *)
Theorem poll_gets_at_most_one_offer v s0 pre mid post n1 f1 o1 n2 f2 o2 p q s :
  run v s0 (pre ++ L_Client n1 f1 o1 (Some p) :: mid ++ L_Client n2 f2 o2 (Some q) :: post) = Some s -> p <> q.
Proof.
  intros H Heq. subst q. rewrite run_app in H. destruct (run v s0 pre) as [s1|]; [|discriminate].
  cbn [run] in H. destruct (step v s1 (L_Client n1 f1 o1 (Some p))) as [s2|] eqn:E1; [|discriminate].
  rewrite run_app in H. destruct (run v s2 mid) as [s3|] eqn:Em; [|discriminate].
  cbn [run] in H. destruct (step v s3 (L_Client n2 f2 o2 (Some p))) as [s4|] eqn:E2; [|discriminate].
  destruct (client_match_pops v s1 n1 f1 o1 p s2 E1) as [_ [e2 [Hp2 Hh2]]].
  destruct (run_left_pool v mid s2 s3 p e2 Em Hp2 Hh2) as [e3 [Hp3 Hh3]].
  destruct (client_match_pops v s3 n2 f2 o2 p s4 E2) as [[e3' [Hp3' Hh3']] _]. congruence.
Qed.

(* ---- answers: the ghost [e_posted] records exactly the answer requests that resolved to this poll ---- *)

Lemma posted_upd (es : list entry) p0 f p e' a :
  nth_error (upd p0 f es) p = Some e' -> In a (e_posted e') ->
  (forall x, e_sid (f x) = e_sid x) -> (forall x, e_posted (f x) = e_posted x) ->
  exists e, nth_error es p = Some e /\ e_sid e = e_sid e' /\ In a (e_posted e).
Proof.
  intros H Ha Hsid Hpo. destruct (nth_upd_inv f es p0 p e' H) as [[-> [x [Hx ->]]]|[Hne Hq]].
  - exists x. split; [exact Hx|]. split; [symmetry; apply Hsid | rewrite <- Hpo; exact Ha].
  - exists e'. repeat split; assumption.
Qed.

Ltac posted_same H Hp Ha :=
  injection H as <-; cbn [entries with_entries] in Hp;
  destruct (posted_upd _ _ _ _ _ _ Hp Ha) as [e0 [He0 [Hs0 Hin0]]];
  [intros; reflexivity | intros; reflexivity | exists e0; split; [exact He0 | split; [exact Hs0 | left; exact Hin0]]].

Theorem posted_step v s l s' p e' a :
  Inv v s -> step v s l = Some s' -> nth_error (entries s') p = Some e' -> In a (e_posted e') ->
  exists e, nth_error (entries s) p = Some e /\ e_sid e = e_sid e' /\
    (In a (e_posted e) \/ (l = L_Answer (e_sid e) a /\ lookup (e_sid e) (idmap s) = Some p)).
Proof.
  intros I H Hp Ha. destruct l; cbn [step] in H.
  - (* Poll: a new entry has no posted answers *)
    injection H as <-. cbn [entries] in Hp. destruct (Nat.lt_ge_cases p (length (entries s))) as [Hlt|Hge].
    + rewrite nth_error_app1 in Hp by exact Hlt. exists e'. repeat split; [exact Hp | left; exact Ha].
    + rewrite nth_error_app2 in Hp by exact Hge. destruct (p - length (entries s))%nat as [|d]; cbn in Hp.
      * injection Hp as <-. destruct Ha.
      * destruct d; discriminate.
  - destruct (nth_error (entries s) p0) as [e|]; [|discriminate].
    destruct (e_w e); try discriminate. destruct (e_wfired e); [discriminate|]. posted_same H Hp Ha.
  - destruct (nth_error (entries s) p0) as [e|]; [|discriminate].
    destruct (e_w e); try discriminate. destruct (e_wfired e); [|discriminate]. posted_same H Hp Ha.
  - destruct (nth_error (entries s) p0) as [e|]; [|discriminate].
    destruct (e_w e); try discriminate. destruct (e_inheap e); posted_same H Hp Ha.
  - destruct (lookup (fp_of ofp) (bridges s)).
    + destruct choice as [p0|].
      * destruct (nth_error (entries s) p0) as [e|]; [|discriminate].
        destruct (eligible n e && is_min n (entries s) e); [|discriminate]. posted_same H Hp Ha.
      * destruct (pool_empty n (entries s)); [|discriminate]. injection H as <-. exists e'. repeat split; [exact Hp | left; exact Ha].
    + destruct choice; [discriminate|]. injection H as <-. exists e'. repeat split; [exact Hp | left; exact Ha].
  - destruct (nth_error (entries s) p0) as [e|]; [|discriminate].
    destruct (e_cl e) as [c|]; [|discriminate]. destruct (c_pc c); try discriminate.
    destruct (match e_w e with W_Select | W_Late => true | _ => false end); [|discriminate]. posted_same H Hp Ha.
  - destruct (nth_error (entries s) p0) as [e|]; [|discriminate].
    destruct (e_w e); try discriminate. posted_same H Hp Ha.
  - destruct (nth_error (entries s) p0) as [e|]; [|discriminate].
    destruct (e_cl e) as [c|]; [|discriminate]. destruct (c_pc c); try discriminate. destruct (c_fired c); [discriminate|].
    posted_same H Hp Ha.
  - destruct (nth_error (entries s) p0) as [e|]; [|discriminate].
    destruct (e_cl e) as [c|]; [|discriminate]. destruct (c_pc c); try discriminate. destruct (c_fired c); [|discriminate].
    posted_same H Hp Ha.
  - destruct (nth_error (entries s) p0) as [e|]; [|discriminate].
    destruct (e_cl e) as [c|]; [|discriminate]. destruct (c_pc c); try discriminate. posted_same H Hp Ha.
  - (* Answer *)
    destruct (lookup s0 (idmap s)) as [p0|] eqn:Hl.
    + injection H as <-. cbn [entries] in Hp.
      destruct (nth_upd_inv _ _ _ _ _ Hp) as [[-> [x [Hx ->]]]|[Hne Hq]].
      * exists x. split; [exact Hx|]. split; [reflexivity|]. cbn in Ha. destruct Ha as [<-|Ha]; [|left; exact Ha].
        right. (* the id map binds a session id only to an entry registered under it *)
        destruct (inv_idmap v s I s0 p (lookup_in _ _ _ Hl)) as [x' [Hx' [Hsid _]]].
        rewrite Hx in Hx'. injection Hx' as <-. rewrite Hsid. split; [reflexivity | exact Hl].
      * exists e'. repeat split; [exact Hq | left; exact Ha].
    + injection H as <-. exists e'. repeat split; [exact Hp | left; exact Ha].
  - destruct v; [|discriminate]. destruct (nth_error (entries s) p0) as [e|]; [|discriminate].
    destruct (e_senders e) as [|[aid a0] rest]; [discriminate|].
    destruct (e_cl e) as [c|]; [|discriminate]. destruct (c_pc c); try discriminate. posted_same H Hp Ha.
  - destruct v; [discriminate|]. destruct (nth_error (entries s) p0) as [e|]; [|discriminate].
    destruct (e_senders e) as [|[aid a0] rest]; [discriminate|]. injection H as <-. cbn [entries] in Hp.
    destruct (posted_upd _ _ _ _ _ _ Hp Ha) as [e0 [He0 [Hs0 Hin0]]];
      [intros; destruct (e_buf e); reflexivity | intros; destruct (e_buf e); reflexivity |
       exists e0; split; [exact He0 | split; [exact Hs0 | left; exact Hin0]]].
  - destruct v; [discriminate|]. destruct (nth_error (entries s) p0) as [e|]; [|discriminate].
    destruct (e_buf e); [|discriminate]. destruct (e_cl e) as [c|]; [|discriminate]. destruct (c_pc c); try discriminate.
    posted_same H Hp Ha.
  - injection H as <-. exists e'. repeat split; [exact Hp | left; exact Ha].
Qed.

(* every recorded answer of an entry was carried by an answer request of the history that resolved to that entry *)
Definition justified (v : version) (s0 : state) (ls : list label) (s : state) : Prop :=
  forall p e a, nth_error (entries s) p = Some e -> In a (e_posted e) ->
  exists pre post s1, ls = pre ++ L_Answer (e_sid e) a :: post /\ run v s0 pre = Some s1 /\
                      lookup (e_sid e) (idmap s1) = Some p.

Lemma justified_run v s0 : forall ls2 ls1 s1 s, Inv v s1 -> run v s0 ls1 = Some s1 -> run v s1 ls2 = Some s ->
  justified v s0 ls1 s1 -> justified v s0 (ls1 ++ ls2) s.
Proof.
  induction ls2 as [|l ls2 IH]; intros ls1 s1 s I H1 H2 J; cbn [run] in H2.
  - injection H2 as <-. rewrite app_nil_r. exact J.
  - destruct (step v s1 l) as [s1'|] eqn:Hs; [|discriminate].
    replace (ls1 ++ l :: ls2) with ((ls1 ++ [l]) ++ ls2) by (rewrite <- app_assoc; reflexivity).
    apply (IH (ls1 ++ [l]) s1' s); [eapply step_preserves_inv; eassumption | | exact H2 |].
    + rewrite run_app, H1. cbn [run]. rewrite Hs. reflexivity.
    + intros p e' a Hp Ha.
      destruct (posted_step v s1 l s1' p e' a I Hs Hp Ha) as [e [He [Hsid [Hold|[Hl Hlk]]]]].
      * destruct (J p e a He Hold) as [pre [post [sx [E [Hr Hlx]]]]]. rewrite <- Hsid.
        exists pre, (post ++ [l]), sx. split; [rewrite E, <- app_assoc; reflexivity | split; assumption].
      * rewrite <- Hsid. exists ls1, [], s1. split; [rewrite Hl; reflexivity | split; assumption].
Qed.

(* C02: the answer a client is given was posted by an answer request of the history made under the session id of the
   poll that holds this client, and the lookup of that request resolved to this very poll (entry p) *)
Theorem answer_resolved_to_this_poll v br ls s p e c a :
  run v (init br) ls = Some s -> nth_error (entries s) p = Some e -> e_cl e = Some c -> client_answered c a ->
  exists pre post s1, ls = pre ++ L_Answer (e_sid e) a :: post /\ run v (init br) pre = Some s1 /\
                      lookup (e_sid e) (idmap s1) = Some p.
Proof.
  intros H Hp Hc Ha.
  assert (J : justified v (init br) ([] ++ ls) s).
  { apply (justified_run v (init br) ls [] (init br) s (inv_init v br) eq_refl H).
    intros q e0 a0 Hq. destruct q; discriminate. }
  cbn [app] in J. apply (J p e a Hp).
  assert (R : reachable v br s) by (exists ls; exact H).
  destruct (inv_entries v s (reachable_inv v br s R) p e Hp) as [_ [_ [_ [[_ [_ Hans]] _]]]].
  eapply Hans; eassumption.
Qed.
