(* BrokerSteps.v — preservation of the invariant by every label of the broker machine *)
From Coq Require Import List NArith ZArith Bool Arith Lia.
From Snow Require Import Model.Broker Proofs.BrokerProofs.
Import ListNotations.
Open Scope N_scope.

Lemma shape_inheap e : shape_ok e = true -> e_inheap e = true ->
  e_cl e = None /\ e_live e = true /\ w_unmatched_waiting (e_w e) = true.
Proof.
  unfold shape_ok. intros H Hh. destruct (e_cl e) as [c|].
  - rewrite Hh in H. discriminate.
  - split; [reflexivity|]. destruct (e_w e) as [| | | |m|[|m|]]; try discriminate;
      try (apply andb_prop in H; destruct H as [_ Hl]; split; [exact Hl | reflexivity]).
    rewrite Hh in H. discriminate.
Qed.

Lemma idmap_after_remove v s p e : Inv v s -> nth_error (entries s) p = Some e ->
  forall sd q, In (sd, q) (remove_key (e_sid e) (idmap s)) -> In (sd, q) (idmap s) /\ (q = p -> False).
Proof.
  intros I Hp sd q Hin. apply in_remove_key in Hin. destruct Hin as [Hin Hne]. split; [exact Hin|].
  intros ->. destruct (inv_idmap v s I sd p Hin) as [e0 [H0 [Hs _]]]. rewrite Hp in H0. injection H0 as <-. congruence.
Qed.

Lemma step_WTimeoutCS v s p s' : Inv v s -> step v s (L_WTimeoutCS p) = Some s' -> Inv v s'.
Proof.
  intros I H. cbn [step] in H.
  destruct (nth_error (entries s) p) as [e|] eqn:Hp; [|discriminate].
  destruct (e_w e) eqn:Ew; try discriminate.
  pose proof (inv_entries v s I p e Hp) as Hok. unpack_ok Hok.
  destruct (e_inheap e) eqn:Eh; injection H as <-.
  - destruct (shape_inheap e Hshape Eh) as [Hcl [Hlive _]].
    eapply (inv_step_upd v s _ p e (fun e => set_w (W_Done PNoMatch) (set_heap_live false false e)) I Hp);
      cbn; try reflexivity; try lia; auto.
    + ok_split; unfold_ok; cbn; rewrite ?Hcl in *.
      * reflexivity.
      * apply minfo_ok_none; cbn; discriminate.
      * intros c Hc. cbn in Hc. rewrite Hcl in Hc. discriminate.
      * exact Hans.
      * destruct v; [split; [discriminate | apply Hstuck] | discriminate].
    + intros sd q Hin. destruct (idmap_after_remove v s p e I Hp sd q Hin) as [A B].
      split; [exact A | intros Hq; destruct (B Hq)].
    + unfold live_z. cbn. rewrite Hlive. lia.
    + intros c' Hc. rewrite Hcl in Hc. discriminate.
  - apply (inv_step_simple v s p e (set_w (match v with V0 => W_Stuck | V1 => W_Late end)) I Hp); cbn; auto; [|same_client].
    ok_split; unfold_ok; cbn; rewrite ?Ew, ?Eh in *.
    + destruct (e_cl e) as [c|]; [|discriminate]. cbn in *.
      destruct (c_pc c); cbn in *; bool_crush; try discriminate; [assumption | destruct v; reflexivity].
    + apply minfo_ok_none; destruct v; cbn; discriminate.
    + eapply client_ok_w; [exact Hclient | reflexivity | reflexivity].
    + exact Hans.
    + destruct v; [split; [discriminate | apply Hstuck] | discriminate].
Qed.

(* steps that leave the entries alone *)
Lemma inv_same_entries v s s' :
  Inv v s -> entries s' = entries s -> idmap s' = idmap s -> gauge s' = gauge s -> bridges s' = bridges s ->
  br_hist s' = br_hist s ->
  (next_cid s <= next_cid s')%nat ->
  (forall x, In x (answer_log s) -> In x (answer_log s')) ->
  (forall cid n fp o r, In (cid, n, fp, o, r) (done_clients s') -> (cid < next_cid s')%nat) ->
  Inv v s'.
Proof.
  intros [Ie Ii Ig Ipo Ic Id Ih] He Hi Hg Hb Hh Hn Hl Hd. constructor.
  - intros p e Hp. rewrite He in Hp. rewrite Hb, Hh. eapply entry_ok_mono; [exact Hn | apply (Ie p e Hp)].
  - intros sd p Hin. rewrite Hi in Hin. rewrite He. apply Ii. exact Hin.
  - rewrite Hg, He. exact Ig.
  - intros p e a Hp Ha. rewrite He in Hp. destruct (Ipo p e a Hp Ha) as [aid H]. exists aid. apply Hl. exact H.
  - rewrite He. exact Ic.
  - exact Hd.
  - rewrite Hb, Hh. exact Ih.
Qed.

Lemma eligible_inheap n e : eligible n e = true -> e_inheap e = true /\ compat n (e_nat e) = true.
Proof. unfold eligible, compat. intros H. apply andb_prop in H. exact H. Qed.

Lemma step_Client v s n ofp o ch s' : Inv v s -> step v s (L_Client n ofp o ch) = Some s' -> Inv v s'.
Proof.
  intros I H. cbn [step] in H. remember (fp_of ofp) as fp eqn:Efp. clear Efp.
  assert (Fin : forall r s1,
    s1 = {| entries := entries s; idmap := idmap s; gauge := gauge s; bridges := bridges s; br_hist := br_hist s;
            next_cid := S (next_cid s); next_aid := next_aid s;
            done_clients := (next_cid s, n, fp, o, r) :: done_clients s; done_answers := done_answers s;
            answer_log := answer_log s |} -> Inv v s1).
  { intros r s1 ->. apply (inv_same_entries v s); cbn; try reflexivity; auto.
    intros cid n0 fp0 o0 r0 [Hx|Hx].
    - injection Hx as <- _ _ _ _. lia.
    - apply (inv_done_cids v s I) in Hx. lia. }
  destruct (lookup fp (bridges s)) as [u|] eqn:Hfp.
  - destruct ch as [p|].
    + destruct (nth_error (entries s) p) as [e|] eqn:Hp; [|discriminate].
      destruct (eligible n e && is_min n (entries s) e) eqn:Hel; [|discriminate].
      injection H as <-. apply andb_prop in Hel. destruct Hel as [Hel _].
      destruct (eligible_inheap n e Hel) as [Hh Hcompat].
      pose proof (inv_entries v s I p e Hp) as Hok. unpack_ok Hok.
      destruct (shape_inheap e Hshape Hh) as [Hcl [Hlive Hw]].
      set (c := {| c_id := next_cid s; c_nat := n; c_fp := fp; c_offer := o; c_pc := C_Send; c_fired := false;
                   c_url := u; c_epoch := length (br_hist s) |}).
      eapply (inv_step_upd v s _ p e (fun e => set_cl (Some c) (set_heap_live false (e_live e) e)) I Hp);
        cbn; try reflexivity; try lia; auto.
      * ok_split; unfold_ok; cbn; rewrite ?Hcl, ?Hlive in *.
        -- destruct (e_w e) as [| | | |m|[|m|]]; try discriminate; reflexivity.
        -- destruct (e_w e) as [| | | |m'|[|m'|]] eqn:Ew; try discriminate; apply minfo_ok_none; cbn; rewrite Ew; discriminate.
        -- intros c0 Hc0. cbn in Hc0. injection Hc0 as <-. unfold c. cbn. split; [exact Hcompat|]. split; [apply Nat.lt_succ_diag_r|]. split; [apply Nat.le_refl|].
           split; [exists (bridges s); split; [rewrite Nat.sub_diag; apply (inv_hist v s I) | exact Hfp] | intros _; exact Hfp].
        -- destruct Hans as [A [B C]]. split; [exact A|]. split; [exact B|].
           intros c0 a Hc0 [Hx|Hx]; injection Hc0 as <-; discriminate.
        -- exact Hstuck.
      * unfold live_z. cbn. lia.
      * intros c' Hc'. injection Hc' as <-. right. split; [exact Hcl | cbn; lia].
    + destruct (pool_empty n (entries s)); [|discriminate]. injection H as <-. eapply Fin. reflexivity.
  - destruct ch as [p|]; [discriminate|]. injection H as <-. eapply Fin. reflexivity.
Qed.

Lemma shape_client_send e c : shape_ok e = true -> e_cl e = Some c -> c_pc c = C_Send ->
  e_inheap e = false /\ e_live e = true /\ w_before_offer (e_w e) = true.
Proof.
  unfold shape_ok. intros H Hc Hpc. rewrite Hc, Hpc in H. bool_crush. repeat split; assumption.
Qed.

Lemma shape_client_wait e c : shape_ok e = true -> e_cl e = Some c ->
  (c_pc c = C_Wait \/ exists r, c_pc c = C_Cleanup r) ->
  e_inheap e = false /\ e_live e = true /\ w_after_offer (e_w e) = true.
Proof.
  unfold shape_ok. intros H Hc Hpc. rewrite Hc in H.
  destruct Hpc as [Hpc|[r Hpc]]; rewrite Hpc in H; bool_crush; repeat split; assumption.
Qed.

Lemma step_RvOffer v s p s' : Inv v s -> step v s (L_RvOffer p) = Some s' -> Inv v s'.
Proof.
  intros I H. cbn [step] in H.
  destruct (nth_error (entries s) p) as [e|] eqn:Hp; [|discriminate].
  destruct (e_cl e) as [c|] eqn:Hc; [|discriminate].
  destruct (c_pc c) eqn:Hpc; try discriminate.
  destruct (match e_w e with W_Select | W_Late => true | _ => false end) eqn:Hw; [|discriminate].
  injection H as <-.
  pose proof (inv_entries v s I p e Hp) as Hok. unpack_ok Hok.
  destruct (shape_client_send e c Hshape Hc Hpc) as [Hh [Hlive _]].
  set (m := {| f_offer := c_offer c; f_nat := c_nat c; f_fp := c_fp c |}).
  apply (inv_step_simple v s p e (fun e => set_w (W_Forward m) (set_cl (Some (set_cpc C_Wait c)) e)) I Hp); cbn; auto.
  - ok_split; unfold_ok; cbn; rewrite ?Hc, ?Hh, ?Hlive in *.
    + reflexivity.
    + split; [|split]; cbn; try discriminate.
      intros f' Hf. injection Hf as <-. exists (set_cpc C_Wait c). cbn. repeat split; reflexivity.
    + eapply client_ok_same; [exact Hclient | reflexivity | exact Hc | reflexivity | apply csame_cpc].
    + destruct Hans as [A [B C]]. split; [exact A|]. split; [exact B|].
      intros c0 a Hc0 [Hx|Hx]; injection Hc0 as <-; discriminate.
    + destruct v; [split; [discriminate | apply Hstuck] | discriminate].
  - intros c' Hc'. injection Hc' as <-. exists c. split; [exact Hc | reflexivity].
Qed.

Lemma step_RvForward v s p s' : Inv v s -> step v s (L_RvForward p) = Some s' -> Inv v s'.
Proof.
  intros I H. cbn [step] in H.
  destruct (nth_error (entries s) p) as [e|] eqn:Hp; [|discriminate].
  destruct (e_w e) as [| | | |m|r] eqn:Ew; try discriminate.
  injection H as <-.
  pose proof (inv_entries v s I p e Hp) as Hok. unpack_ok Hok.
  set (r := match lookup (f_fp m) (bridges s) with
            | Some u => PMatch {| m_offer := f_offer m; m_nat := f_nat m; m_url := u |}
            | None => PError end).
  assert (Hr : match r with PNoMatch => false | _ => true end = true)
    by (unfold r; destruct (lookup (f_fp m) (bridges s)); reflexivity).
  apply (inv_step_simple v s p e (set_w (W_Done r)) I Hp); cbn; auto; [|same_client].
  ok_split; unfold_ok; cbn; rewrite ?Ew in *.
  - destruct (e_cl e) as [c|]; [|discriminate]. cbn in Hshape.
    destruct (c_pc c); rewrite ?Hr; try exact Hshape.
  - destruct Hminfo as [Hf _]. destruct (Hf m Ew) as [c [Hc [Ho [Hn Hfp]]]].
    destruct (Hclient c Hc) as [_ [_ [Hle [_ Hcur]]]].
    split; [|split]; cbn; try discriminate.
    + intros m' Hm. unfold r in Hm. destruct (lookup (f_fp m) (bridges s)) as [u|] eqn:Hl; [|discriminate].
      injection Hm as <-. cbn. exists c. split; [exact Hc|]. split; [exact Ho|]. split; [exact Hn|]. split.
      * exists 0%nat, (bridges s). split; [exact Hle|]. split; [apply (inv_hist v s I) | rewrite <- Hfp; exact Hl].
      * destruct (Nat.eq_dec (c_epoch c) (length (br_hist s))) as [He|He]; [|right; apply Nat.le_neq; split; assumption].
        left. specialize (Hcur He). rewrite <- Hfp, Hl in Hcur. congruence.
    + intros Hm. unfold r in Hm. destruct (lookup (f_fp m) (bridges s)) as [u|] eqn:Hl; [discriminate|].
      exists c. split; [exact Hc|].
      destruct (Nat.eq_dec (c_epoch c) (length (br_hist s))) as [He|He]; [|apply Nat.le_neq; split; assumption].
      specialize (Hcur He). rewrite <- Hfp, Hl in Hcur. discriminate.
  - eapply client_ok_w; [exact Hclient | reflexivity | reflexivity].
  - exact Hans.
  - destruct v; [split; [discriminate | apply Hstuck] | discriminate].
Qed.

Lemma step_FireC v s p s' : Inv v s -> step v s (L_FireC p) = Some s' -> Inv v s'.
Proof.
  intros I H. cbn [step] in H.
  destruct (nth_error (entries s) p) as [e|] eqn:Hp; [|discriminate].
  destruct (e_cl e) as [c|] eqn:Hc; [|discriminate].
  destruct (c_pc c) eqn:Hpc; try discriminate. destruct (c_fired c); [discriminate|].
  injection H as <-.
  pose proof (inv_entries v s I p e Hp) as Hok. unpack_ok Hok.
  apply (inv_step_simple v s p e (set_cl (Some (set_cfired c))) I Hp); cbn; auto.
  - ok_split; unfold_ok; cbn; rewrite ?Hc, ?Hpc in *.
    + exact Hshape.
    + eapply minfo_ok_same; [exact Hminfo | reflexivity | exact Hc | reflexivity | apply csame_cfired].
    + eapply client_ok_same; [exact Hclient | reflexivity | exact Hc | reflexivity | apply csame_cfired].
    + destruct Hans as [A [B C]]. split; [exact A|]. split; [exact B|].
      intros c0 a Hc0 Hx. injection Hc0 as <-. cbn in Hx. eapply C; [first [reflexivity | exact Hc] | exact Hx].
    + exact Hstuck.
  - intros c' Hc'. injection Hc' as <-. exists c. split; [exact Hc | reflexivity].
Qed.

Lemma step_CTake v s p s' : Inv v s -> step v s (L_CTake p) = Some s' -> Inv v s'.
Proof.
  intros I H. cbn [step] in H.
  destruct (nth_error (entries s) p) as [e|] eqn:Hp; [|discriminate].
  destruct (e_cl e) as [c|] eqn:Hc; [|discriminate].
  destruct (c_pc c) eqn:Hpc; try discriminate. destruct (c_fired c); [|discriminate].
  injection H as <-.
  pose proof (inv_entries v s I p e Hp) as Hok. unpack_ok Hok.
  apply (inv_step_simple v s p e (set_cl (Some (set_cpc (C_Cleanup CTimedOut) c))) I Hp); cbn; auto.
  - ok_split; unfold_ok; cbn; rewrite ?Hc, ?Hpc in *.
    + exact Hshape.
    + eapply minfo_ok_same; [exact Hminfo | reflexivity | exact Hc | reflexivity | apply csame_cpc].
    + eapply client_ok_same; [exact Hclient | reflexivity | exact Hc | reflexivity | apply csame_cpc].
    + destruct Hans as [A [B C]]. split; [exact A|]. split; [exact B|].
      intros c0 a Hc0 [Hx|Hx]; injection Hc0 as <-; discriminate.
    + exact Hstuck.
  - intros c' Hc'. injection Hc' as <-. exists c. split; [exact Hc | reflexivity].
Qed.

Lemma step_CCleanup v s p s' : Inv v s -> step v s (L_CCleanup p) = Some s' -> Inv v s'.
Proof.
  intros I H. cbn [step] in H.
  destruct (nth_error (entries s) p) as [e|] eqn:Hp; [|discriminate].
  destruct (e_cl e) as [c|] eqn:Hc; [|discriminate].
  destruct (c_pc c) eqn:Hpc; try discriminate.
  injection H as <-.
  pose proof (inv_entries v s I p e Hp) as Hok. unpack_ok Hok.
  destruct (shape_client_wait e c Hshape Hc (or_intror (ex_intro _ r Hpc))) as [Hh [Hlive Hw]].
  eapply (inv_step_upd v s _ p e (fun e => set_cl (Some (set_cpc (C_Done r) c)) (set_heap_live (e_inheap e) false e)) I Hp);
    cbn; try reflexivity; try lia; auto.
  - ok_split; unfold_ok; cbn; rewrite ?Hc, ?Hpc, ?Hh in *.
    + cbn. exact Hw.
    + eapply minfo_ok_same; [exact Hminfo | reflexivity | exact Hc | reflexivity | apply csame_cpc].
    + eapply client_ok_same; [exact Hclient | reflexivity | exact Hc | reflexivity | apply csame_cpc].
    + destruct Hans as [A [B C]]. split; [exact A|]. split; [exact B|].
      intros c0 a Hc0 [Hx|Hx]; injection Hc0 as <-; cbn in Hx; [discriminate|].
      injection Hx as ->. eapply C; [first [reflexivity | exact Hc] | left; exact Hpc].
    + exact Hstuck.
  - intros sd q Hin. destruct (idmap_after_remove v s p e I Hp sd q Hin) as [A B].
    split; [exact A | intros Hq; destruct (B Hq)].
  - unfold live_z. cbn. rewrite Hlive. lia.
  - intros c' Hc'. injection Hc' as <-. left. exists c. split; [exact Hc | reflexivity].
Qed.

Lemma step_Answer v s sd a s' : Inv v s -> step v s (L_Answer sd a) = Some s' -> Inv v s'.
Proof.
  intros I H. cbn [step] in H.
  destruct (lookup sd (idmap s)) as [p|] eqn:Hl; injection H as <-.
  - apply lookup_in in Hl. destruct (inv_idmap v s I sd p Hl) as [e [Hp [Hsid Hlive]]].
    pose proof (inv_entries v s I p e Hp) as Hok. unpack_ok Hok.
    eapply (inv_step_upd v s _ p e (fun e => add_posted a (set_senders (e_senders e ++ [(next_aid s, a)]) e)) I Hp);
      cbn; try reflexivity; try lia; auto.
    + ok_split; unfold_ok; cbn.
      * exact Hshape.
      * eapply minfo_ok_w; [exact Hminfo | reflexivity | reflexivity].
      * eapply client_ok_w; [exact Hclient | reflexivity | reflexivity].
      * destruct Hans as [A [B C]]. split; [|split].
        -- intros a0 Ha0. right. apply A. exact Ha0.
        -- intros aid a0 Hin. apply in_app_or in Hin. destruct Hin as [Hin|[Hin|[]]].
           ++ right. eapply B. exact Hin.
           ++ injection Hin as _ <-. left. reflexivity.
        -- intros c a0 Hc Hx. right. eapply C; eassumption.
      * exact Hstuck.
    + unfold live_z. cbn. lia.
    + intros a0 [<-|Hin]; [|left; exact Hin]. right. exists (next_aid s). left. rewrite Hsid. reflexivity.
    + intros c' Hc'. left. exists c'. split; [exact Hc' | reflexivity].
  - apply (inv_same_entries v s); cbn; try reflexivity; auto.
    apply (inv_done_cids v s I).
Qed.

Lemma step_RvAnswer v s p s' : Inv v s -> step v s (L_RvAnswer p) = Some s' -> Inv v s'.
Proof.
  intros I H. cbn [step] in H. destruct v; [|discriminate].
  destruct (nth_error (entries s) p) as [e|] eqn:Hp; [|discriminate].
  destruct (e_senders e) as [|[aid a] rest] eqn:Hs; [discriminate|].
  destruct (e_cl e) as [c|] eqn:Hc; [|discriminate].
  destruct (c_pc c) eqn:Hpc; try discriminate.
  injection H as <-.
  pose proof (inv_entries V0 s I p e Hp) as Hok. unpack_ok Hok.
  destruct (shape_client_wait e c Hshape Hc (or_introl Hpc)) as [Hh [Hlive Hw]].
  eapply (inv_step_upd V0 s _ p e (fun e => set_senders rest (set_cl (Some (set_cpc (C_Cleanup (CAnswer a)) c)) e)) I Hp);
    cbn; try reflexivity; try lia; auto.
  - ok_split; unfold_ok; cbn; rewrite ?Hc, ?Hpc, ?Hs in *.
    + exact Hshape.
    + eapply minfo_ok_same; [exact Hminfo | reflexivity | exact Hc | reflexivity | apply csame_cpc].
    + eapply client_ok_same; [exact Hclient | reflexivity | exact Hc | reflexivity | apply csame_cpc].
    + destruct Hans as [A [B C]]. split; [exact A|]. split.
      * intros aid0 a0 Hin. eapply B. right. exact Hin.
      * intros c0 a0 Hc0 [Hx|Hx]; injection Hc0 as <-; cbn in Hx; [|discriminate].
        injection Hx as <-. eapply B. left. reflexivity.
    + exact Hstuck.
  - unfold live_z. cbn. lia.
  - intros c' Hc'. injection Hc' as <-. left. exists c. split; [exact Hc | reflexivity].
Qed.

Lemma step_AnswerPut v s p s' : Inv v s -> step v s (L_AnswerPut p) = Some s' -> Inv v s'.
Proof.
  intros I H. cbn [step] in H. destruct v; [discriminate|].
  destruct (nth_error (entries s) p) as [e|] eqn:Hp; [|discriminate].
  destruct (e_senders e) as [|[aid a] rest] eqn:Hs; [discriminate|].
  injection H as <-.
  pose proof (inv_entries V1 s I p e Hp) as Hok. unpack_ok Hok.
  set (ok := match e_buf e with None => true | Some _ => false end).
  eapply (inv_step_upd V1 s _ p e (fun e => set_senders rest (if ok then set_buf (Some a) e else e)) I Hp);
    cbn; try reflexivity; try lia; auto.
  - ok_split; unfold_ok; destruct ok; cbn; rewrite ?Hs in *; try assumption.
    + destruct Hans as [A [B C]]. split; [|split].
      * intros a0 Ha0. injection Ha0 as <-. eapply B. left. reflexivity.
      * intros aid0 a0 Hin. eapply B. right. exact Hin.
      * exact C.
    + destruct Hans as [A [B C]]. split; [exact A|]. split; [|exact C].
      intros aid0 a0 Hin. eapply B. right. exact Hin.
  - destruct ok; reflexivity.
  - intros sd q Hin. split; [exact Hin|]. intros ->.
    destruct (inv_idmap V1 s I sd p Hin) as [e0 [H0 [_ Hl]]]. rewrite Hp in H0. injection H0 as <-.
    destruct ok; exact Hl.
  - unfold live_z. destruct ok; cbn; lia.
  - intros a0 Hin. left. destruct ok; exact Hin.
  - intros c' Hc'. left. exists c'. split; [destruct ok; exact Hc' | reflexivity].
Qed.

Lemma step_CTakeAnswer v s p s' : Inv v s -> step v s (L_CTakeAnswer p) = Some s' -> Inv v s'.
Proof.
  intros I H. cbn [step] in H. destruct v; [discriminate|].
  destruct (nth_error (entries s) p) as [e|] eqn:Hp; [|discriminate].
  destruct (e_buf e) as [a|] eqn:Hb; [|discriminate].
  destruct (e_cl e) as [c|] eqn:Hc; [|discriminate].
  destruct (c_pc c) eqn:Hpc; try discriminate.
  injection H as <-.
  pose proof (inv_entries V1 s I p e Hp) as Hok. unpack_ok Hok.
  apply (inv_step_simple V1 s p e (fun e => set_buf None (set_cl (Some (set_cpc (C_Cleanup (CAnswer a)) c)) e)) I Hp); cbn; auto.
  - ok_split; unfold_ok; cbn; rewrite ?Hc, ?Hpc, ?Hb in *.
    + exact Hshape.
    + eapply minfo_ok_same; [exact Hminfo | reflexivity | exact Hc | reflexivity | apply csame_cpc].
    + eapply client_ok_same; [exact Hclient | reflexivity | exact Hc | reflexivity | apply csame_cpc].
    + destruct Hans as [A [B C]]. split; [intros a0 Ha0; discriminate|]. split; [exact B|].
      intros c0 a0 Hc0 [Hx|Hx]; injection Hc0 as <-; cbn in Hx; [|discriminate].
      injection Hx as <-. apply A. reflexivity.
    + exact Hstuck.
  - intros c' Hc'. injection Hc' as <-. exists c. split; [exact Hc | reflexivity].
Qed.

Lemma step_Poll v s sd n pt cl s' : Inv v s -> step v s (L_Poll sd n pt cl) = Some s' -> Inv v s'.
Proof.
  intros I H. cbn [step] in H. injection H as <-.
  destruct I as [Ie Ii Ig Ipo Ic Id Ih].
  assert (Hnew : forall p e, nth_error (entries s ++ [new_entry sd n pt cl]) p = Some e ->
            nth_error (entries s) p = Some e \/ (p = length (entries s) /\ e = new_entry sd n pt cl)).
  { intros p e Hp. destruct (Nat.lt_ge_cases p (length (entries s))) as [Hlt|Hge].
    - left. rewrite nth_error_app1 in Hp by exact Hlt. exact Hp.
    - right. rewrite nth_error_app2 in Hp by exact Hge.
      destruct (p - length (entries s))%nat as [|k] eqn:Ek; cbn in Hp.
      + injection Hp as <-. split; [lia | reflexivity].
      + destruct k; discriminate. }
  constructor; cbn.
  - intros p e Hp. destruct (Hnew p e Hp) as [Hold|[-> ->]]; [apply Ie with p; exact Hold|].
    ok_split; unfold_ok; cbn.
    + reflexivity.
    + apply minfo_ok_none; cbn; discriminate.
    + intros c Hc; discriminate.
    + split; [intros a Ha; discriminate|]. split; [intros aid a []|intros c a Hc; discriminate].
    + destruct v; [split; [discriminate | reflexivity] | discriminate].
  - intros sd' p [Hin|Hin].
    + injection Hin as <- <-. exists (new_entry sd n pt cl). split; [|split; reflexivity].
      rewrite nth_error_app2 by lia. rewrite Nat.sub_diag. reflexivity.
    + apply in_remove_key in Hin. destruct Hin as [Hin _].
      destruct (Ii sd' p Hin) as [e [Hp [Hs Hl]]]. exists e. split; [|split; assumption].
      rewrite nth_error_app1; [exact Hp|]. apply nth_error_Some. congruence.
  - rewrite count_live_app, Ig. cbn. lia.
  - intros p e a Hp Ha. destruct (Hnew p e Hp) as [Hold|[-> ->]]; [eapply Ipo; eassumption|]. destruct Ha.
  - intros p q e1 e2 c1 c2 H1 H2 Hc1 Hc2 Heq.
    destruct (Hnew p e1 H1) as [Ho1|[-> ->]]; [|discriminate].
    destruct (Hnew q e2 H2) as [Ho2|[-> ->]]; [|discriminate].
    eapply Ic; eassumption.
  - exact Id.
  - exact Ih.
Qed.

Lemma step_Install v s br s' : Inv v s -> step v s (L_Install br) = Some s' -> Inv v s'.
Proof.
  intros I H. cbn [step] in H. injection H as <-.
  destruct I as [Ie Ii Ig Ipo Ic Id Ih].
  constructor; cbn.
  - intros p e Hp. apply entry_ok_install with (cur := bridges s). apply (Ie p e Hp).
  - exact Ii.
  - exact Ig.
  - exact Ipo.
  - exact Ic.
  - exact Id.
  - reflexivity.
Qed.

(* ------------------------------------------------------------------ *)

Theorem step_preserves_inv v s l s' : Inv v s -> step v s l = Some s' -> Inv v s'.
Proof.
  intros I H. destruct l.
  - eapply step_Poll; eassumption.
  - eapply step_FireW; eassumption.
  - eapply step_WTake; eassumption.
  - eapply step_WTimeoutCS; eassumption.
  - eapply step_Client; eassumption.
  - eapply step_RvOffer; eassumption.
  - eapply step_RvForward; eassumption.
  - eapply step_FireC; eassumption.
  - eapply step_CTake; eassumption.
  - eapply step_CCleanup; eassumption.
  - eapply step_Answer; eassumption.
  - eapply step_RvAnswer; eassumption.
  - eapply step_AnswerPut; eassumption.
  - eapply step_CTakeAnswer; eassumption.
  - eapply step_Install; eassumption.
Qed.

Definition reachable (v : version) (br : list (fpr * url)) (s : state) : Prop :=
  exists ls, run v (init br) ls = Some s.

Lemma run_preserves_inv v : forall ls s s', Inv v s -> run v s ls = Some s' -> Inv v s'.
Proof.
  induction ls as [|l ls IH]; intros s s' I H; cbn [run] in H.
  - injection H as <-. exact I.
  - destruct (step v s l) as [s1|] eqn:Hs; [|discriminate].
    eapply IH; [eapply step_preserves_inv; eassumption | exact H].
Qed.

Theorem reachable_inv v br s : reachable v br s -> Inv v s.
Proof. intros [ls H]. eapply run_preserves_inv; [apply inv_init | exact H]. Qed.

(* without installations the bridge list never changes *)
Definition no_install (l : label) : bool := match l with L_Install _ => false | _ => true end.

Lemma step_bridges v s l s' : no_install l = true -> step v s l = Some s' ->
  bridges s' = bridges s /\ br_hist s' = br_hist s.
Proof.
  intros Hl Hs. destruct l; try discriminate; cbn [step] in Hs;
    repeat match type of Hs with
           | match ?x with _ => _ end = Some _ => destruct x; try discriminate
           end; injection Hs as <-; split; reflexivity.
Qed.

Lemma run_bridges v : forall ls s s', forallb no_install ls = true -> run v s ls = Some s' ->
  bridges s' = bridges s /\ br_hist s' = br_hist s.
Proof.
  induction ls as [|l ls IH]; intros s s' Hn H; cbn [run] in H.
  - injection H as <-. split; reflexivity.
  - cbn [forallb] in Hn. apply andb_prop in Hn. destruct Hn as [Hl Hls].
    destruct (step v s l) as [s1|] eqn:Hs; [|discriminate].
    destruct (IH _ _ Hls H) as [A B]. destruct (step_bridges v s l s1 Hl Hs) as [C D]. split; congruence.
Qed.
