(* BrokerSteps.v — preservation of the invariant by every label of the broker machine *)
From Coq Require Import List NArith ZArith Bool Arith Lia.
From Snow Require Import Model.Broker Proofs.BrokerProofs.
Import ListNotations.
Open Scope N_scope.

Lemma shape_inheap e : shape_ok e = true -> e_inheap e = true ->
  e_cl e = None /\ e_live e = true /\ w_unmatched_waiting (e_w e) = true.
Proof.
  unfold shape_ok. intros H Hh. destruct (e_cl e) as [c|].
  - rewrite Hh in H. discriminate.
  - split; [reflexivity|]. destruct (e_w e) as [| | | |m|[|m]]; try discriminate;
      try (apply andb_prop in H; destruct H as [_ Hl]; split; [exact Hl | reflexivity]).
    rewrite Hh in H. discriminate.
Qed.

Lemma idmap_after_remove v s p e : Inv v s -> nth_error (entries s) p = Some e ->
  forall sd q, In (sd, q) (remove_key (e_sid e) (idmap s)) -> In (sd, q) (idmap s) /\ (q = p -> False).
Proof.
  intros I Hp sd q Hin. apply in_remove_key in Hin. destruct Hin as [Hin Hne]. split; [exact Hin|].
  intros ->. destruct (inv_idmap v s I sd p Hin) as [e0 [H0 [Hs _]]]. rewrite Hp in H0. injection H0 as <-. congruence.
Qed.

Lemma step_WTimeoutCS v s p s' : Inv v s -> step v s (L_WTimeoutCS p) = Some s' -> Inv v s'.
Proof.
  intros I H. cbn [step] in H.
  destruct (nth_error (entries s) p) as [e|] eqn:Hp; [|discriminate].
  destruct (e_w e) eqn:Ew; try discriminate.
  pose proof (inv_entries v s I p e Hp) as Hok. unpack_ok Hok.
  destruct (e_inheap e) eqn:Eh; injection H as <-.
  - destruct (shape_inheap e Hshape Eh) as [Hcl [Hlive _]].
    eapply (inv_step_upd v s _ p e (fun e => set_w (W_Done PNoMatch) (set_heap_live false false e)) I Hp);
      cbn; try reflexivity; try lia; auto.
    + ok_split; unfold_ok; cbn; rewrite ?Hcl in *.
      * reflexivity.
      * intros m [Hm|Hm]; discriminate.
      * intros c Hc; discriminate.
      * exact Hans.
      * destruct v; [split; [discriminate | apply Hstuck] | discriminate].
    + intros sd q Hin. destruct (idmap_after_remove v s p e I Hp sd q Hin) as [A B].
      split; [exact A | intros Hq; destruct (B Hq)].
    + unfold live_z. cbn. rewrite Hlive. lia.
    + intros c' Hc. rewrite Hcl in Hc. discriminate.
  - apply (inv_step_simple v s p e (set_w (match v with V0 => W_Stuck | V1 => W_Late end)) I Hp); cbn; auto; [|same_client].
    ok_split; unfold_ok; cbn; rewrite ?Ew, ?Eh in *.
    + destruct (e_cl e) as [c|]; [|discriminate]. cbn in *.
      destruct (c_pc c); cbn in *; bool_crush; try discriminate; [assumption | destruct v; reflexivity].
    + intros m [Hm|Hm]; destruct v; discriminate.
    + exact Hclient.
    + exact Hans.
    + destruct v; [split; [discriminate | apply Hstuck] | discriminate].
Qed.
