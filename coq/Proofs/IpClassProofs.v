(* IpClassProofs.v — the address classes of Model/IpClass.v as numeric intervals (C08). *)
From Coq Require Import List NArith ZArith Bool Lia Arith.
From Coq Require Import ZifyN ZifyNat ZifyBool.
From Snow Require Import Lib.Wire Model.IpClass.
Import ListNotations.
Open Scope N_scope.

Definition wf (ip : bytes) : Prop := Forall (fun b => b < 256) ip.

(* big-endian value of a byte string *)
Definition be_num (l : bytes) : N := fold_left (fun acc b => acc * 256 + b) l 0.

Definition v4num (a b c d : N) : N := be_num [a; b; c; d].

(* the IPv4 ranges, as closed intervals of 32-bit numbers *)
Definition in_local4 (n : N) : Prop :=
  (v4num 10 0 0 0 <= n <= v4num 10 255 255 255)              (* 10.0.0.0/8      RFC 1918 *)
  \/ (v4num 172 16 0 0 <= n <= v4num 172 31 255 255)         (* 172.16.0.0/12   RFC 1918 *)
  \/ (v4num 192 168 0 0 <= n <= v4num 192 168 255 255)       (* 192.168.0.0/16  RFC 1918 *)
  \/ (v4num 100 64 0 0 <= n <= v4num 100 127 255 255)        (* 100.64.0.0/10   RFC 6598 *)
  \/ (v4num 169 254 0 0 <= n <= v4num 169 254 255 255).      (* 169.254.0.0/16  RFC 3927 *)
Definition in_loop4 (n : N) : Prop := v4num 127 0 0 0 <= n <= v4num 127 255 255 255.   (* 127.0.0.0/8 *)
Definition bad4 (n : N) : Prop := in_local4 n \/ n = 0 \/ in_loop4 n.

(* 128-bit landmarks *)
Definition MAPPED_LO : N := be_num [0;0;0;0;0;0;0;0;0;0;255;255;0;0;0;0].            (* ::ffff:0.0.0.0 *)
Definition MAPPED_HI : N := be_num [0;0;0;0;0;0;0;0;0;0;255;255;255;255;255;255].    (* ::ffff:255.255.255.255 *)
Definition ULA_LO : N := be_num [252;0;0;0;0;0;0;0;0;0;0;0;0;0;0;0].                 (* fc00:: *)
Definition ULA_HI : N := be_num [253;255;255;255;255;255;255;255;255;255;255;255;255;255;255;255]. (* fdff:…:ffff *)

Definition in_local16 (n : N) : Prop :=
  (MAPPED_LO <= n <= MAPPED_HI /\ in_local4 (n - MAPPED_LO)) \/ (ULA_LO <= n <= ULA_HI).   (* fc00::/7  RFC 4193 *)
Definition bad16 (n : N) : Prop :=
  (MAPPED_LO <= n <= MAPPED_HI /\ bad4 (n - MAPPED_LO)) \/ (ULA_LO <= n <= ULA_HI) \/ n = 0 \/ n = 1.

(* ---------------------------------------------------------------- masks, by a complete sweep of the byte values *)

Definition all_bytes : list N := map N.of_nat (seq 0 256).

Lemma in_all_bytes : forall b, b < 256 -> In b all_bytes.
Proof.
  intros b H. unfold all_bytes. apply in_map_iff. exists (N.to_nat b). split; [apply N2Nat.id|].
  apply in_seq. lia.
Qed.

Lemma sweep_lift : forall (P : N -> bool), forallb P all_bytes = true -> forall b, b < 256 -> P b = true.
Proof. intros P H b Hb. rewrite forallb_forall in H. apply H. apply in_all_bytes. exact Hb. Qed.

Lemma land240 : forall b, b < 256 -> (N.land b 240 =? 16) = ((16 <=? b) && (b <=? 31)).
Proof.
  intros b Hb. apply eqb_prop.
  apply (sweep_lift (fun b => Bool.eqb (N.land b 240 =? 16) ((16 <=? b) && (b <=? 31)))); [vm_compute; reflexivity | exact Hb].
Qed.

Lemma land192 : forall b, b < 256 -> (N.land b 192 =? 64) = ((64 <=? b) && (b <=? 127)).
Proof.
  intros b Hb. apply eqb_prop.
  apply (sweep_lift (fun b => Bool.eqb (N.land b 192 =? 64) ((64 <=? b) && (b <=? 127)))); [vm_compute; reflexivity | exact Hb].
Qed.

Lemma land254 : forall b, b < 256 -> (N.land b 254 =? 252) = ((252 <=? b) && (b <=? 253)).
Proof.
  intros b Hb. apply eqb_prop.
  apply (sweep_lift (fun b => Bool.eqb (N.land b 254 =? 252) ((252 <=? b) && (b <=? 253)))); [vm_compute; reflexivity | exact Hb].
Qed.

(* ---------------------------------------------------------------- 4-byte addresses *)

Lemma wf4 : forall a b c d, wf [a; b; c; d] -> a < 256 /\ b < 256 /\ c < 256 /\ d < 256.
Proof.
  intros a b c d H. inversion H as [|? ? Ha H1]; subst. inversion H1 as [|? ? Hb H2]; subst.
  inversion H2 as [|? ? Hc H3]; subst. inversion H3 as [|? ? Hd H4]; subst. auto.
Qed.

Lemma is_local_4 : forall a b c d, wf [a; b; c; d] ->
  (is_local [a; b; c; d] = true <-> in_local4 (v4num a b c d)).
Proof.
  intros a b c d H. apply wf4 in H. destruct H as [Ha [Hb [Hc Hd]]].
  unfold is_local, to4, len_is. cbn [List.length Nat.eqb byte_at nth].
  rewrite (land240 b Hb), (land192 b Hb).
  unfold in_local4, v4num, be_num. cbn [fold_left]. lia.
Qed.

Lemma is_loopback_4 : forall a b c d, wf [a; b; c; d] ->
  (is_loopback [a; b; c; d] = true <-> in_loop4 (v4num a b c d)).
Proof.
  intros a b c d H. apply wf4 in H. destruct H as [Ha [Hb [Hc Hd]]].
  unfold is_loopback, to4, len_is. cbn [List.length Nat.eqb byte_at nth].
  unfold in_loop4, v4num, be_num. cbn [fold_left]. lia.
Qed.

Lemma is_unspecified_4 : forall a b c d, wf [a; b; c; d] ->
  (is_unspecified [a; b; c; d] = true <-> v4num a b c d = 0).
Proof.
  intros a b c d H. apply wf4 in H. destruct H as [Ha [Hb [Hc Hd]]].
  unfold is_unspecified, ip_equal, len_is, IPv4zero, IPv6unspecified, v4InV6Prefix.
  cbn [List.length Nat.eqb app firstn skipn beq andb orb].
  unfold v4num, be_num. cbn [fold_left]. lia.
Qed.

Lemma bad_addr_4 : forall a b c d, wf [a; b; c; d] ->
  (bad_addr [a; b; c; d] = true <-> bad4 (v4num a b c d)).
Proof.
  intros a b c d H. unfold bad_addr, bad4.
  rewrite !orb_true_iff, (is_local_4 a b c d H), (is_loopback_4 a b c d H), (is_unspecified_4 a b c d H). tauto.
Qed.

(* ---------------------------------------------------------------- 16-byte addresses *)

Ltac destruct16 ip Hlen :=
  do 16 (destruct ip as [|? ip]; [discriminate Hlen|]); destruct ip as [|? ip]; [|discriminate Hlen]; clear Hlen.

Ltac wf_inv H :=
  unfold wf in H;
  repeat match type of H with
         | Forall _ (_ :: _) => let Hb := fresh "Hb" in let Hr := fresh "Hr" in
                                inversion H as [|? ? Hb Hr]; subst; clear H; rename Hr into H
         end.

(* the decisions of the code on a 16-byte slice, in terms of its bytes *)
Definition mapped16 (x : bytes) : bool :=
  is_zeros (firstn 10 x) && (byte_at x 10 =? 255) && (byte_at x 11 =? 255).

Lemma to4_16 : forall x, List.length x = 16%nat ->
  to4 x = if mapped16 x then Some (skipn 12 x) else None.
Proof.
  intros x H. unfold to4, mapped16, len_is. rewrite H. cbn [Nat.eqb andb]. reflexivity.
Qed.

(* numeric reading of the mapped test: the value lies in ::ffff:0:0/96, and then the last four bytes are
   the offset in that block *)
Lemma mapped16_num : forall x, wf x -> List.length x = 16%nat ->
  (mapped16 x = true <-> MAPPED_LO <= be_num x <= MAPPED_HI)
  /\ (mapped16 x = true -> be_num x - MAPPED_LO = be_num (skipn 12 x))
  /\ (mapped16 x = true -> byte_at x 0 = 0).
Proof.
  intros x Hwf Hlen. destruct16 x Hlen. wf_inv Hwf.
  unfold mapped16, is_zeros, MAPPED_LO, MAPPED_HI, be_num.
  cbn [firstn skipn forallb byte_at nth fold_left].
  repeat split; lia.
Qed.

Lemma ula16_num : forall x, wf x -> List.length x = 16%nat ->
  ((252 <=? byte_at x 0) && (byte_at x 0 <=? 253) = true <-> ULA_LO <= be_num x <= ULA_HI).
Proof.
  intros x Hwf Hlen. destruct16 x Hlen. wf_inv Hwf.
  unfold ULA_LO, ULA_HI, be_num. cbn [byte_at nth fold_left]. lia.
Qed.

Lemma skipn12_wf4 : forall x, wf x -> List.length x = 16%nat ->
  exists a b c d, skipn 12 x = [a; b; c; d] /\ wf [a; b; c; d].
Proof.
  intros x Hwf Hlen. destruct16 x Hlen. cbn [skipn]. do 4 eexists. split; [reflexivity|].
  wf_inv Hwf. repeat constructor; assumption.
Qed.

Lemma byte0_lt : forall x, wf x -> byte_at x 0 < 256.
Proof. intros x H. destruct x as [|b x]; cbn; [lia|]. inversion H; assumption. Qed.

Lemma is_local_16 : forall x, wf x -> List.length x = 16%nat ->
  (is_local x = true <-> in_local16 (be_num x)).
Proof.
  intros x Hwf Hlen.
  destruct (mapped16_num x Hwf Hlen) as [Hm [Hoff Hz]].
  pose proof (ula16_num x Hwf Hlen) as Hu.
  destruct (skipn12_wf4 x Hwf Hlen) as [a [b [c [d [Hs Hw4]]]]].
  unfold in_local16.
  destruct (mapped16 x) eqn:E.
  - assert (Ht : to4 x = Some [a; b; c; d]) by (rewrite (to4_16 x Hlen), E, Hs; reflexivity).
    assert (Hl : is_local x = is_local [a; b; c; d]) by (unfold is_local; rewrite Ht; reflexivity).
    rewrite Hl, (is_local_4 a b c d Hw4). unfold v4num. rewrite <- Hs, <- (Hoff eq_refl).
    assert (Hm' : MAPPED_LO <= be_num x <= MAPPED_HI) by (apply Hm; reflexivity).
    rewrite (Hz eq_refl) in Hu. cbn in Hu.
    split; [intro H; left; split; assumption|]. intros [[_ H]|H]; [exact H|].
    exfalso. destruct Hu as [_ Hu]. specialize (Hu H). discriminate.
  - unfold is_local. rewrite (to4_16 x Hlen), E. unfold len_is. rewrite Hlen. cbn [Nat.eqb andb].
    rewrite (land254 _ (byte0_lt x Hwf)). rewrite Hu.
    split; [intro H; right; exact H|]. intros [[H _]|H]; [|exact H].
    apply Hm in H. discriminate.
Qed.

Lemma beq_consts_16 : forall x, wf x -> List.length x = 16%nat ->
  (beq x IPv6loopback = true <-> be_num x = 1)
  /\ (beq x IPv6unspecified = true <-> be_num x = 0)
  /\ (beq x IPv4zero = true <-> be_num x = MAPPED_LO).
Proof.
  intros x Hwf Hlen. destruct16 x Hlen. wf_inv Hwf.
  unfold IPv6loopback, IPv6unspecified, IPv4zero, v4InV6Prefix, MAPPED_LO, be_num.
  cbn [app beq fold_left]. repeat split; lia.
Qed.

Lemma landmarks : MAPPED_LO = 281470681743360 /\ MAPPED_HI = 281474976710655.
Proof. split; reflexivity. Qed.

Lemma is_loopback_16 : forall x, wf x -> List.length x = 16%nat ->
  (is_loopback x = true <-> (MAPPED_LO <= be_num x <= MAPPED_HI /\ in_loop4 (be_num x - MAPPED_LO)) \/ be_num x = 1).
Proof.
  intros x Hwf Hlen.
  destruct (mapped16_num x Hwf Hlen) as [Hm [Hoff Hz]].
  destruct (beq_consts_16 x Hwf Hlen) as [Hl1 _].
  destruct (skipn12_wf4 x Hwf Hlen) as [a [b [c [d [Hs Hw4]]]]].
  destruct landmarks as [Elo Ehi].
  destruct (mapped16 x) eqn:E.
  - assert (Ht : to4 x = Some [a; b; c; d]) by (rewrite (to4_16 x Hlen), E, Hs; reflexivity).
    assert (Hl : is_loopback x = is_loopback [a; b; c; d]) by (unfold is_loopback; rewrite Ht; reflexivity).
    rewrite Hl, (is_loopback_4 a b c d Hw4). unfold v4num. rewrite <- Hs, <- (Hoff eq_refl).
    assert (Hm' : MAPPED_LO <= be_num x <= MAPPED_HI) by (apply Hm; reflexivity).
    split; [intro H; left; split; assumption|]. intros [[_ H]|H]; [exact H|]. lia.
  - unfold is_loopback. rewrite (to4_16 x Hlen), E. unfold ip_equal. rewrite Hlen. cbn [List.length IPv6loopback Nat.eqb].
    rewrite Hl1. split; [intro H; right; exact H|]. intros [[H _]|H]; [|exact H].
    apply Hm in H. discriminate.
Qed.

Lemma is_unspecified_16 : forall x, wf x -> List.length x = 16%nat ->
  (is_unspecified x = true <-> be_num x = MAPPED_LO \/ be_num x = 0).
Proof.
  intros x Hwf Hlen. destruct (beq_consts_16 x Hwf Hlen) as [_ [Hl2 Hl3]].
  unfold is_unspecified, ip_equal. rewrite Hlen.
  cbn [List.length IPv4zero IPv6unspecified v4InV6Prefix app Nat.eqb].
  rewrite orb_true_iff, Hl2, Hl3. tauto.
Qed.

Lemma bad_addr_16 : forall x, wf x -> List.length x = 16%nat ->
  (bad_addr x = true <-> bad16 (be_num x)).
Proof.
  intros x Hwf Hlen. unfold bad_addr, bad16, bad4.
  rewrite !orb_true_iff, (is_local_16 x Hwf Hlen), (is_loopback_16 x Hwf Hlen), (is_unspecified_16 x Hwf Hlen).
  unfold in_local16. destruct landmarks as [Elo Ehi].
  split.
  - intros [[[[Hm Hl]|Hu]|[Hz|Hz]]|[[Hm Hl]|H1]].
    + left. split; [exact Hm|]. left. exact Hl.
    + right. left. exact Hu.
    + left. split; [lia|]. right. left. lia.
    + right. right. left. exact Hz.
    + left. split; [exact Hm|]. right. right. exact Hl.
    + right. right. right. exact H1.
  - intros [[Hm [Hl|[Hz|Hl]]]|[Hu|[Hz|H1]]].
    + left. left. left. split; assumption.
    + left. right. left. lia.
    + right. left. split; assumption.
    + left. left. right. exact Hu.
    + left. right. right. exact Hz.
    + right. right. exact H1.
Qed.

(* the classes are disjoint from everything else: some addresses on both sides of every boundary *)
Example bad16_examples :
  bad_addr [0;0;0;0;0;0;0;0;0;0;255;255;10;0;0;1] = true            (* ::ffff:10.0.0.1 *)
  /\ bad_addr [0;0;0;0;0;0;0;0;0;0;255;255;172;32;0;0] = false      (* ::ffff:172.32.0.0 *)
  /\ bad_addr [0;0;0;0;0;0;0;0;0;0;0;0;10;0;0;1] = false            (* ::10.0.0.1 (not mapped) *)
  /\ bad_addr [253;255;255;255;255;255;255;255;255;255;255;255;255;255;255;255] = true
  /\ bad_addr [254;0;0;0;0;0;0;0;0;0;0;0;0;0;0;0] = false           (* fe00:: *)
  /\ bad_addr [100;128;0;0] = false /\ bad_addr [100;127;255;255] = true.
Proof. repeat split; reflexivity. Qed.
