(* BrokerBounds.v — C04, per request and under continued arrivals (repaired protocol V1):
   along EVERY run (new proxy polls, client polls, answers and bridge-list installations included) a proxy poll
   takes at most 5 steps of its own threads, a client poll at most 4, and the answer request at position k of its
   entry's queue is served by the (k+1)-th send on that entry; and in every reachable state every incomplete
   request has an enabled step of its own, or waits only for a partner whose own next step is enabled and enables it. *)
From Coq Require Import List NArith ZArith Bool Arith Lia.
From Snow Require Import Model.Broker Proofs.BrokerProofs Proofs.BrokerSteps Proofs.BrokerThms.
Import ListNotations.
Open Scope N_scope.

(* the steps of the poll's own threads (handler + waiter), of the client handler, of the answer handlers of entry p;
   a rendezvous (L_RvOffer) is a step of both partners *)
Definition w_label (l : label) : option nat :=
  match l with L_FireW p | L_WTake p | L_WTimeoutCS p | L_RvOffer p | L_RvForward p => Some p | _ => None end.
Definition c_label (l : label) : option nat :=
  match l with L_RvOffer p | L_FireC p | L_CTake p | L_CCleanup p | L_RvAnswer p | L_CTakeAnswer p => Some p | _ => None end.
Definition a_label (l : label) : option nat :=
  match l with L_AnswerPut p => Some p | _ => None end.

Definition is_some_eq (o : option nat) (p : nat) : bool := match o with Some q => Nat.eqb q p | None => false end.
Definition count_own (lab : label -> option nat) (p : nat) (ls : list label) : nat :=
  length (filter (fun l => is_some_eq (lab l) p) ls).

(* remaining own steps of the poll registered (or to be registered) as entry p / of the client it holds (or will hold) *)
Definition wk (e : entry) : nat := wm (e_w e) (e_wfired e).
Definition ck (e : entry) : nat := match e_cl e with Some c => cm c | None => 4 end.
Definition pm (s : state) (p : nat) : nat := match nth_error (entries s) p with Some e => wk e | None => 5 end.
Definition cmm (s : state) (p : nat) : nat := match nth_error (entries s) p with Some e => ck e | None => 4 end.

Lemma wk_le e : (wk e <= 5)%nat.
Proof. unfold wk, wm. destruct (e_w e); destruct (e_wfired e); lia. Qed.
Lemma ck_le e : (ck e <= 4)%nat.
Proof. unfold ck, cm. destruct (e_cl e) as [c|]; [|lia]. destruct (c_pc c); destruct (c_fired c); lia. Qed.

Lemma upd_measure (m : entry -> nat) f es p0 q e' d :
  nth_error (upd p0 f es) q = Some e' ->
  (forall x, nth_error es p0 = Some x -> (m (f x) + d <= m x)%nat) ->
  exists e, nth_error es q = Some e /\ (m e' + (if Nat.eqb p0 q then d else 0) <= m e)%nat.
Proof.
  intros H Hf. destruct (nth_upd_inv f es p0 q e' H) as [[-> [x [Hx ->]]]|[Hne Hq]].
  - exists x. split; [exact Hx|]. rewrite Nat.eqb_refl. apply Hf. exact Hx.
  - exists e'. split; [exact Hq|]. replace (Nat.eqb p0 q) with false by (symmetry; apply Nat.eqb_neq; exact Hne). lia.
Qed.

(* a step changes the measure m of an existing entry q by at most -d(q), where d is 1 exactly on the own label *)
Definition decreases (m : entry -> nat) (lab : label -> option nat) (top : nat) : Prop :=
  forall s l s', Inv V1 s -> step V1 s l = Some s' ->
  forall q e', nth_error (entries s') q = Some e' ->
    (exists e, nth_error (entries s) q = Some e /\ (m e' + (if is_some_eq (lab l) q then 1 else 0) <= m e)%nat) \/
    (nth_error (entries s) q = None /\ m e' = top /\ is_some_eq (lab l) q = false).

Ltac upd_case m H Hq d :=
  injection H as <-; cbn [entries with_entries] in Hq; left;
  eapply (upd_measure m _ _ _ _ _ d) in Hq; [destruct Hq as [e0 [He0 Hle]]; exists e0; split; [exact He0|]; cbn [w_label c_label is_some_eq]|].

Lemma is_some_eq_sym p q : is_some_eq (Some p) q = Nat.eqb p q.
Proof. reflexivity. Qed.

Lemma poll_decreases : decreases wk w_label 5.
Proof.
  intros s l s' I H q e' Hq. destruct l; cbn [step] in H.
  - (* Poll *) injection H as <-. cbn [entries] in Hq. destruct (Nat.lt_ge_cases q (length (entries s))) as [Hlt|Hge].
    + rewrite nth_error_app1 in Hq by exact Hlt. left. exists e'. split; [exact Hq | cbn; lia].
    + right. rewrite nth_error_app2 in Hq by exact Hge. destruct (q - length (entries s))%nat as [|d]; cbn in Hq.
      * injection Hq as <-. split; [apply nth_error_None; exact Hge | split; reflexivity].
      * destruct d; discriminate.
  - destruct (nth_error (entries s) p) as [e|] eqn:Hp; [|discriminate].
    destruct (e_w e) eqn:Ew; try discriminate. destruct (e_wfired e) eqn:Ef; [discriminate|].
    upd_case wk H Hq 1%nat; [exact Hle|]. intros x Hx. rewrite Hp in Hx. injection Hx as <-. unfold wk. cbn. rewrite Ew, Ef. cbn. lia.
  - destruct (nth_error (entries s) p) as [e|] eqn:Hp; [|discriminate].
    destruct (e_w e) eqn:Ew; try discriminate. destruct (e_wfired e) eqn:Ef; [|discriminate].
    upd_case wk H Hq 1%nat; [exact Hle|]. intros x Hx. rewrite Hp in Hx. injection Hx as <-. unfold wk. cbn. rewrite Ew, Ef. cbn. lia.
  - destruct (nth_error (entries s) p) as [e|] eqn:Hp; [|discriminate].
    destruct (e_w e) eqn:Ew; try discriminate.
    destruct (e_inheap e); upd_case wk H Hq 1%nat; try exact Hle;
      intros x Hx; rewrite Hp in Hx; injection Hx as <-; unfold wk; cbn; rewrite Ew; cbn; lia.
  - (* Client *)
    destruct (lookup (fp_of ofp) (bridges s)).
    + destruct choice as [p|].
      * destruct (nth_error (entries s) p) as [e|] eqn:Hp; [|discriminate].
        destruct (eligible n e && is_min n (entries s) e); [|discriminate].
        upd_case wk H Hq 0%nat; [destruct (Nat.eqb p q); lia|]. intros x Hx. unfold wk. cbn. lia.
      * destruct (pool_empty n (entries s)); [|discriminate]. injection H as <-. left. exists e'. split; [exact Hq | cbn; lia].
    + destruct choice; [discriminate|]. injection H as <-. left. exists e'. split; [exact Hq | cbn; lia].
  - (* RvOffer *)
    destruct (nth_error (entries s) p) as [e|] eqn:Hp; [|discriminate].
    destruct (e_cl e) as [c|]; [|discriminate]. destruct (c_pc c); try discriminate.
    destruct (match e_w e with W_Select | W_Late => true | _ => false end) eqn:Hw; [|discriminate].
    upd_case wk H Hq 1%nat; [exact Hle|]. intros x Hx. rewrite Hp in Hx. injection Hx as <-. unfold wk. cbn.
    destruct (e_w e); try discriminate; destruct (e_wfired e); cbn; lia.
  - destruct (nth_error (entries s) p) as [e|] eqn:Hp; [|discriminate].
    destruct (e_w e) eqn:Ew; try discriminate.
    upd_case wk H Hq 1%nat; [exact Hle|]. intros x Hx. rewrite Hp in Hx. injection Hx as <-. unfold wk. cbn. rewrite Ew. cbn. lia.
  - destruct (nth_error (entries s) p) as [e|] eqn:Hp; [|discriminate].
    destruct (e_cl e) as [c|]; [|discriminate]. destruct (c_pc c); try discriminate. destruct (c_fired c); [discriminate|].
    upd_case wk H Hq 0%nat; [destruct (Nat.eqb p q); lia|]. intros x Hx. unfold wk. cbn. lia.
  - destruct (nth_error (entries s) p) as [e|] eqn:Hp; [|discriminate].
    destruct (e_cl e) as [c|]; [|discriminate]. destruct (c_pc c); try discriminate. destruct (c_fired c); [|discriminate].
    upd_case wk H Hq 0%nat; [destruct (Nat.eqb p q); lia|]. intros x Hx. unfold wk. cbn. lia.
  - destruct (nth_error (entries s) p) as [e|] eqn:Hp; [|discriminate].
    destruct (e_cl e) as [c|]; [|discriminate]. destruct (c_pc c); try discriminate.
    upd_case wk H Hq 0%nat; [destruct (Nat.eqb p q); lia|]. intros x Hx. unfold wk. cbn. lia.
  - (* Answer *)
    destruct (lookup s0 (idmap s)) as [p|].
    + upd_case wk H Hq 0%nat; [destruct (Nat.eqb p q); lia|]. intros x Hx. unfold wk. cbn. lia.
    + injection H as <-. left. exists e'. split; [exact Hq | cbn; lia].
  - discriminate.
  - destruct (nth_error (entries s) p) as [e|] eqn:Hp; [|discriminate].
    destruct (e_senders e) as [|[aid a] rest]; [discriminate|].
    upd_case wk H Hq 0%nat; [destruct (Nat.eqb p q); lia|]. intros x Hx. unfold wk. destruct (e_buf e); cbn; lia.
  - destruct (nth_error (entries s) p) as [e|] eqn:Hp; [|discriminate].
    destruct (e_buf e); [|discriminate]. destruct (e_cl e) as [c|]; [|discriminate]. destruct (c_pc c); try discriminate.
    upd_case wk H Hq 0%nat; [destruct (Nat.eqb p q); lia|]. intros x Hx. unfold wk. cbn. lia.
  - injection H as <-. left. exists e'. split; [exact Hq | cbn; lia].
Qed.

Lemma client_decreases : decreases ck c_label 4.
Proof.
  intros s l s' I H q e' Hq. destruct l; cbn [step] in H.
  - (* Poll *) injection H as <-. cbn [entries] in Hq. destruct (Nat.lt_ge_cases q (length (entries s))) as [Hlt|Hge].
    + rewrite nth_error_app1 in Hq by exact Hlt. left. exists e'. split; [exact Hq | cbn; lia].
    + right. rewrite nth_error_app2 in Hq by exact Hge. destruct (q - length (entries s))%nat as [|d]; cbn in Hq.
      * injection Hq as <-. split; [apply nth_error_None; exact Hge | split; reflexivity].
      * destruct d; discriminate.
  - destruct (nth_error (entries s) p) as [e|] eqn:Hp; [|discriminate].
    destruct (e_w e) eqn:Ew; try discriminate. destruct (e_wfired e) eqn:Ef; [discriminate|].
    upd_case ck H Hq 0%nat; [destruct (Nat.eqb p q); lia|]. intros x Hx. unfold ck. cbn. lia.
  - destruct (nth_error (entries s) p) as [e|] eqn:Hp; [|discriminate].
    destruct (e_w e) eqn:Ew; try discriminate. destruct (e_wfired e) eqn:Ef; [|discriminate].
    upd_case ck H Hq 0%nat; [destruct (Nat.eqb p q); lia|]. intros x Hx. unfold ck. cbn. lia.
  - destruct (nth_error (entries s) p) as [e|] eqn:Hp; [|discriminate].
    destruct (e_w e) eqn:Ew; try discriminate.
    destruct (e_inheap e); upd_case ck H Hq 0%nat; try (destruct (Nat.eqb p q); lia);
      intros x Hx; unfold ck; cbn; lia.
  - (* Client: the entry it pops holds no client yet *)
    destruct (lookup (fp_of ofp) (bridges s)).
    + destruct choice as [p|].
      * destruct (nth_error (entries s) p) as [e|] eqn:Hp; [|discriminate].
        destruct (eligible n e && is_min n (entries s) e) eqn:Hel; [|discriminate].
        apply andb_prop in Hel. destruct Hel as [Hel _]. destruct (eligible_inheap n e Hel) as [Hh _].
        destruct (inv_entries V1 s I p e Hp) as [Hshape _]. destruct (shape_inheap e Hshape Hh) as [Hcl _].
        upd_case ck H Hq 0%nat; [destruct (Nat.eqb p q); lia|].
        intros x Hx. rewrite Hp in Hx. injection Hx as <-. unfold ck. cbn. rewrite Hcl. cbn. lia.
      * destruct (pool_empty n (entries s)); [|discriminate]. injection H as <-. left. exists e'. split; [exact Hq | cbn; lia].
    + destruct choice; [discriminate|]. injection H as <-. left. exists e'. split; [exact Hq | cbn; lia].
  - (* RvOffer *)
    destruct (nth_error (entries s) p) as [e|] eqn:Hp; [|discriminate].
    destruct (e_cl e) as [c|] eqn:Hc; [|discriminate]. destruct (c_pc c) eqn:Hpc; try discriminate.
    destruct (match e_w e with W_Select | W_Late => true | _ => false end) eqn:Hw; [|discriminate].
    upd_case ck H Hq 1%nat; [exact Hle|]. intros x Hx. rewrite Hp in Hx. injection Hx as <-. unfold ck. cbn. rewrite Hc.
    unfold cm. cbn. rewrite Hpc. destruct (c_fired c); lia.
  - destruct (nth_error (entries s) p) as [e|] eqn:Hp; [|discriminate].
    destruct (e_w e) eqn:Ew; try discriminate.
    upd_case ck H Hq 0%nat; [destruct (Nat.eqb p q); lia|]. intros x Hx. unfold ck. cbn. lia.
  - destruct (nth_error (entries s) p) as [e|] eqn:Hp; [|discriminate].
    destruct (e_cl e) as [c|] eqn:Hc; [|discriminate]. destruct (c_pc c) eqn:Hpc; try discriminate. destruct (c_fired c) eqn:Hf; [discriminate|].
    upd_case ck H Hq 1%nat; [exact Hle|]. intros x Hx. rewrite Hp in Hx. injection Hx as <-. unfold ck. cbn. rewrite Hc.
    unfold cm. cbn. rewrite Hpc, Hf. lia.
  - destruct (nth_error (entries s) p) as [e|] eqn:Hp; [|discriminate].
    destruct (e_cl e) as [c|] eqn:Hc; [|discriminate]. destruct (c_pc c) eqn:Hpc; try discriminate. destruct (c_fired c) eqn:Hf; [|discriminate].
    upd_case ck H Hq 1%nat; [exact Hle|]. intros x Hx. rewrite Hp in Hx. injection Hx as <-. unfold ck. cbn. rewrite Hc.
    unfold cm. cbn. rewrite Hpc, Hf. lia.
  - destruct (nth_error (entries s) p) as [e|] eqn:Hp; [|discriminate].
    destruct (e_cl e) as [c|] eqn:Hc; [|discriminate]. destruct (c_pc c) eqn:Hpc; try discriminate.
    upd_case ck H Hq 1%nat; [exact Hle|]. intros x Hx. rewrite Hp in Hx. injection Hx as <-. unfold ck. cbn. rewrite Hc.
    unfold cm. cbn. rewrite Hpc. lia.
  - (* Answer *)
    destruct (lookup s0 (idmap s)) as [p|].
    + upd_case ck H Hq 0%nat; [destruct (Nat.eqb p q); lia|]. intros x Hx. unfold ck. cbn. lia.
    + injection H as <-. left. exists e'. split; [exact Hq | cbn; lia].
  - discriminate.
  - destruct (nth_error (entries s) p) as [e|] eqn:Hp; [|discriminate].
    destruct (e_senders e) as [|[aid a] rest]; [discriminate|].
    upd_case ck H Hq 0%nat; [destruct (Nat.eqb p q); lia|]. intros x Hx. unfold ck. destruct (e_buf e); cbn; lia.
  - destruct (nth_error (entries s) p) as [e|] eqn:Hp; [|discriminate].
    destruct (e_buf e); [|discriminate]. destruct (e_cl e) as [c|] eqn:Hc; [|discriminate]. destruct (c_pc c) eqn:Hpc; try discriminate.
    upd_case ck H Hq 1%nat; [exact Hle|]. intros x Hx. rewrite Hp in Hx. injection Hx as <-. unfold ck. cbn. rewrite Hc.
    unfold cm. cbn. rewrite Hpc. destruct (c_fired c); lia.
  - injection H as <-. left. exists e'. split; [exact Hq | cbn; lia].
Qed.

(* from one step to runs, for the measure "remaining own steps of request p" (top for a poll not yet registered) *)
Definition meas (m : entry -> nat) (top : nat) (s : state) (p : nat) : nat :=
  match nth_error (entries s) p with Some e => m e | None => top end.

Lemma step_entries_grow s l s' q : step V1 s l = Some s' -> nth_error (entries s) q <> None -> nth_error (entries s') q <> None.
Proof.
  intros H Hq. assert (Hlen : (length (entries s) <= length (entries s'))%nat).
  { destruct l; cbn [step] in H;
      repeat match type of H with
             | match ?x with _ => _ end = Some _ => destruct x; try discriminate
             end; try discriminate; injection H as <-; cbn [entries with_entries]; rewrite ?upd_length, ?app_length; cbn [length]; lia. }
  apply nth_error_Some. apply nth_error_Some in Hq. lia.
Qed.

Lemma target_exists v s l s' p : step v s l = Some s' -> target l = Some p -> nth_error (entries s) p <> None.
Proof.
  intros H Ht. destruct l; cbn [target] in Ht; try discriminate; injection Ht as ->; cbn [step] in H;
    destruct (nth_error (entries s) p); try discriminate; try (destruct v; discriminate).
Qed.

Lemma run_measure m lab top : decreases m lab top ->
  (forall l p, is_some_eq (lab l) p = true -> target l = Some p) ->
  forall ls s s' p, Inv V1 s -> run V1 s ls = Some s' ->
  (count_own lab p ls + meas m top s' p <= meas m top s p)%nat.
Proof.
  intros Hdec Htar. induction ls as [|l ls IH]; intros s s' p I H; cbn [run] in H.
  - injection H as <-. cbn. lia.
  - destruct (step V1 s l) as [s1|] eqn:Hs; [|discriminate].
    specialize (IH s1 s' p (step_preserves_inv V1 s l s1 I Hs) H).
    assert (Hone : ((if is_some_eq (lab l) p then 1 else 0) + meas m top s1 p <= meas m top s p)%nat).
    { unfold meas at 1. destruct (nth_error (entries s1) p) as [e1|] eqn:H1.
      - destruct (Hdec s l s1 I Hs p e1 H1) as [[e [He Hle]]|[Hn [Ht Hl]]].
        + unfold meas. rewrite He. lia.
        + unfold meas. rewrite Hn, Hl, Ht. lia.
      - unfold meas. destruct (nth_error (entries s) p) as [e|] eqn:H0.
        + exfalso. apply (step_entries_grow s l s1 p Hs); [congruence | exact H1].
        + destruct (is_some_eq (lab l) p) eqn:El; [|lia]. exfalso.
          apply (target_exists V1 s l s1 p Hs (Htar l p El)). exact H0. }
    unfold count_own in *. cbn [filter]. destruct (is_some_eq (lab l) p); cbn [length]; lia.
Qed.

Lemma is_some_eq_true o p : is_some_eq o p = true -> o = Some p.
Proof. destruct o as [q|]; cbn; [|discriminate]. intros H. apply Nat.eqb_eq in H. congruence. Qed.

Lemma w_label_target l p : is_some_eq (w_label l) p = true -> target l = Some p.
Proof. intros H. apply is_some_eq_true in H. destruct l; cbn in *; congruence. Qed.
Lemma c_label_target l p : is_some_eq (c_label l) p = true -> target l = Some p.
Proof. intros H. apply is_some_eq_true in H. destruct l; cbn in *; congruence. Qed.

(* ------------------------------------------------------------------ *)
(* the per-request bounds                                                *)

(* a proxy poll: at most 5 steps of its own threads (timer fires, select commits, critical section, receive the
   offer, forward it) along any run, whatever else happens; [pm s p = 0] iff its handler has returned *)
Theorem poll_step_bound br : forall ls s s' p, reachable V1 br s -> run V1 s ls = Some s' ->
  (count_own w_label p ls + pm s' p <= pm s p)%nat /\ (pm s p <= 5)%nat.
Proof.
  intros ls s s' p R H. split.
  - exact (run_measure wk w_label 5 poll_decreases w_label_target ls s s' p (reachable_inv V1 br s R) H).
  - unfold pm. destruct (nth_error (entries s) p); [apply wk_le | lia].
Qed.

Theorem poll_done_iff s p e : nth_error (entries s) p = Some e -> (e_w e <> W_Stuck) ->
  (pm s p = 0%nat <-> exists r, e_w e = W_Done r).
Proof.
  intros Hp Hst. unfold pm, wk, wm. rewrite Hp. split.
  - intros H. destruct (e_w e) as [| | | |f|r].
    + destruct (e_wfired e); discriminate.
    + discriminate.
    + discriminate.
    + elim Hst. reflexivity.
    + discriminate.
    + exists r. reflexivity.
  - intros [r ->]. reflexivity.
Qed.

(* a client poll: at most 4 steps of its own handler (hand the offer over, timer fires / answer arrives, select
   commits, cleanup) *)
Theorem client_step_bound br : forall ls s s' p, reachable V1 br s -> run V1 s ls = Some s' ->
  (count_own c_label p ls + cmm s' p <= cmm s p)%nat /\ (cmm s p <= 4)%nat.
Proof.
  intros ls s s' p R H. split.
  - exact (run_measure ck c_label 4 client_decreases c_label_target ls s s' p (reachable_inv V1 br s R) H).
  - unfold cmm. destruct (nth_error (entries s) p); [apply ck_le | lia].
Qed.

Theorem client_done_iff s p e c : nth_error (entries s) p = Some e -> e_cl e = Some c ->
  (cmm s p = 0%nat <-> exists r, c_pc c = C_Done r).
Proof.
  intros Hp Hc. unfold cmm, ck, cm. rewrite Hp, Hc. split.
  - intros H. destruct (c_pc c) as [| |r|r].
    + discriminate.
    + destruct (c_fired c); discriminate.
    + discriminate.
    + exists r. reflexivity.
  - intros [r ->]. reflexivity.
Qed.

(* ------------------------------------------------------------------ *)
(* answer requests: the queue of sends in flight on entry p              *)

Definition senders_at (s : state) (p : nat) : list (nat * answer) :=
  match nth_error (entries s) p with Some e => e_senders e | None => [] end.

Lemma senders_upd s p0 f p : nth_error (entries s) p <> None ->
  match nth_error (upd p0 f (entries s)) p with Some e => e_senders e | None => [] end =
  if Nat.eqb p0 p then match nth_error (entries s) p with Some e => e_senders (f e) | None => [] end else senders_at s p.
Proof.
  intros Hp. destruct (nth_error (entries s) p) as [e|] eqn:He; [|congruence].
  destruct (Nat.eqb_spec p0 p) as [->|Hne].
  - rewrite (nth_upd_eq f _ _ _ He). reflexivity.
  - rewrite nth_upd_neq by exact Hne. unfold senders_at. rewrite He. reflexivity.
Qed.

Ltac senders_same H Hp :=
  injection H as <-; unfold senders_at at 1; cbn [entries with_entries]; rewrite (senders_upd _ _ _ _ Hp);
  exists []; rewrite app_nil_r; cbn [a_label is_some_eq skipn]; split; [|discriminate];
  match goal with |- (if Nat.eqb ?a ?b then _ else _) = _ =>
    destruct (Nat.eqb_spec a b) as [->|]; [|reflexivity] end;
  unfold senders_at.

Lemma senders_step s l s' p : step V1 s l = Some s' -> nth_error (entries s) p <> None ->
  exists extra, senders_at s' p = skipn (if is_some_eq (a_label l) p then 1 else 0) (senders_at s p) ++ extra /\
    (is_some_eq (a_label l) p = true -> senders_at s p <> []).
Proof.
  intros H Hp. destruct l; cbn [step] in H.
  - injection H as <-. exists []. rewrite app_nil_r. cbn [a_label is_some_eq skipn]. split; [|discriminate].
    unfold senders_at. cbn [entries]. rewrite nth_error_app1; [reflexivity|]. apply nth_error_Some. exact Hp.
  - destruct (nth_error (entries s) p0) as [e|] eqn:Hp0; [|discriminate].
    destruct (e_w e); try discriminate. destruct (e_wfired e); [discriminate|]. senders_same H Hp. rewrite Hp0. reflexivity.
  - destruct (nth_error (entries s) p0) as [e|] eqn:Hp0; [|discriminate].
    destruct (e_w e); try discriminate. destruct (e_wfired e); [|discriminate]. senders_same H Hp. rewrite Hp0. reflexivity.
  - destruct (nth_error (entries s) p0) as [e|] eqn:Hp0; [|discriminate].
    destruct (e_w e); try discriminate. destruct (e_inheap e); senders_same H Hp; rewrite Hp0; reflexivity.
  - destruct (lookup (fp_of ofp) (bridges s)).
    + destruct choice as [p0|].
      * destruct (nth_error (entries s) p0) as [e|] eqn:Hp0; [|discriminate].
        destruct (eligible n e && is_min n (entries s) e); [|discriminate]. senders_same H Hp. rewrite Hp0. reflexivity.
      * destruct (pool_empty n (entries s)); [|discriminate]. injection H as <-. exists []. rewrite app_nil_r. split; [reflexivity | discriminate].
    + destruct choice; [discriminate|]. injection H as <-. exists []. rewrite app_nil_r. split; [reflexivity | discriminate].
  - destruct (nth_error (entries s) p0) as [e|] eqn:Hp0; [|discriminate].
    destruct (e_cl e) as [c|]; [|discriminate]. destruct (c_pc c); try discriminate.
    destruct (match e_w e with W_Select | W_Late => true | _ => false end); [|discriminate].
    senders_same H Hp. rewrite Hp0. reflexivity.
  - destruct (nth_error (entries s) p0) as [e|] eqn:Hp0; [|discriminate].
    destruct (e_w e); try discriminate. senders_same H Hp. rewrite Hp0. reflexivity.
  - destruct (nth_error (entries s) p0) as [e|] eqn:Hp0; [|discriminate].
    destruct (e_cl e) as [c|]; [|discriminate]. destruct (c_pc c); try discriminate. destruct (c_fired c); [discriminate|].
    senders_same H Hp. rewrite Hp0. reflexivity.
  - destruct (nth_error (entries s) p0) as [e|] eqn:Hp0; [|discriminate].
    destruct (e_cl e) as [c|]; [|discriminate]. destruct (c_pc c); try discriminate. destruct (c_fired c); [|discriminate].
    senders_same H Hp. rewrite Hp0. reflexivity.
  - destruct (nth_error (entries s) p0) as [e|] eqn:Hp0; [|discriminate].
    destruct (e_cl e) as [c|]; [|discriminate]. destruct (c_pc c); try discriminate.
    senders_same H Hp. rewrite Hp0. reflexivity.
  - (* Answer: joins the queue of the entry its sid resolves to *)
    destruct (lookup s0 (idmap s)) as [p0|].
    + injection H as <-. unfold senders_at at 1. cbn [entries]. rewrite (senders_upd _ _ _ _ Hp).
      cbn [a_label is_some_eq skipn]. destruct (Nat.eqb_spec p0 p) as [->|Hne].
      * destruct (nth_error (entries s) p) as [e|] eqn:He; [|congruence].
        exists [(next_aid s, a)]. split; [|discriminate]. unfold senders_at. rewrite He. reflexivity.
      * exists []. rewrite app_nil_r. split; [reflexivity | discriminate].
    + injection H as <-. exists []. rewrite app_nil_r. split; [reflexivity | discriminate].
  - discriminate.
  - (* AnswerPut: the head of the queue is served *)
    destruct (nth_error (entries s) p0) as [e|] eqn:Hp0; [|discriminate].
    destruct (e_senders e) as [|[aid a] rest] eqn:Hs; [discriminate|].
    injection H as <-. unfold senders_at at 1. cbn [entries]. rewrite (senders_upd _ _ _ _ Hp).
    cbn [a_label is_some_eq]. destruct (Nat.eqb_spec p0 p) as [->|Hne].
    + exists []. rewrite app_nil_r. unfold senders_at. rewrite Hp0, Hs. split; [|discriminate].
      destruct (e_buf e); reflexivity.
    + exists []. rewrite app_nil_r. split; [reflexivity | discriminate].
  - destruct (nth_error (entries s) p0) as [e|] eqn:Hp0; [|discriminate].
    destruct (e_buf e); [|discriminate]. destruct (e_cl e) as [c|]; [|discriminate]. destruct (c_pc c); try discriminate.
    senders_same H Hp. rewrite Hp0. reflexivity.
  - injection H as <-. exists []. rewrite app_nil_r. split; [reflexivity | discriminate].
Qed.

Lemma skipn_app_ne {A} (l x : list A) b : (b = 1%nat -> l <> []) -> (b <= 1)%nat -> skipn b l ++ x = skipn b (l ++ x).
Proof.
  intros Hne Hb. destruct b as [|[|b]]; [reflexivity | | lia].
  destruct l as [|a l]; [elim (Hne eq_refl); reflexivity | reflexivity].
Qed.

Lemma skipn_add {A} : forall m n (l : list A), skipn n (skipn m l) = skipn (m + n) l.
Proof. induction m as [|m IH]; intros n [|a l]; cbn; try reflexivity; [destruct n; reflexivity | apply IH]. Qed.

(* along any run the queue of entry p is the old queue plus the arrivals, minus as many heads as sends were done on p *)
Theorem answer_queue : forall ls s s' p, run V1 s ls = Some s' -> nth_error (entries s) p <> None ->
  exists extra, senders_at s' p = skipn (count_own a_label p ls) (senders_at s p ++ extra).
Proof.
  induction ls as [|l ls IH]; intros s s' p H Hp; cbn [run] in H.
  - injection H as <-. exists []. rewrite app_nil_r. reflexivity.
  - destruct (step V1 s l) as [s1|] eqn:Hs; [|discriminate].
    destruct (senders_step s l s1 p Hs Hp) as [x1 [H1 Hne]].
    destruct (IH s1 s' p H (step_entries_grow s l s1 p Hs Hp)) as [x2 H2].
    exists (x1 ++ x2). rewrite H2, H1. unfold count_own. cbn [filter].
    destruct (is_some_eq (a_label l) p) eqn:El; cbn [length].
    + rewrite <- app_assoc. rewrite (skipn_app_ne _ (x1 ++ x2) 1); [|intros _; apply Hne; reflexivity | lia].
      rewrite skipn_add. reflexivity.
    + cbn [skipn]. rewrite <- app_assoc. reflexivity.
Qed.

Lemma nth_error_skipn_add {A} : forall n (l : list A) i, nth_error (skipn n l) i = nth_error l (n + i).
Proof. induction n as [|n IH]; intros [|a l] i; cbn; try reflexivity; [destruct i; reflexivity | apply IH]. Qed.

(* the answer request at position k of its entry's queue stays queued, k - n places from the head, while n <= k sends
   have been done on that entry - whatever else happens; so it is served by the (k+1)-th send on its entry *)
Theorem answer_step_bound : forall ls s s' p k x, run V1 s ls = Some s' ->
  nth_error (senders_at s p) k = Some x -> (count_own a_label p ls <= k)%nat ->
  nth_error (senders_at s' p) (k - count_own a_label p ls) = Some x.
Proof.
  intros ls s s' p k x H Hk Hle.
  assert (Hp : nth_error (entries s) p <> None).
  { unfold senders_at in Hk. destruct (nth_error (entries s) p); [discriminate | destruct k; discriminate]. }
  destruct (answer_queue ls s s' p H Hp) as [extra ->].
  rewrite nth_error_skipn_add. replace (count_own a_label p ls + (k - count_own a_label p ls))%nat with k by lia.
  rewrite nth_error_app1; [exact Hk|]. apply nth_error_Some. congruence.
Qed.

Theorem answer_served_by_send s p s' : step V1 s (L_AnswerPut p) = Some s' ->
  exists e aid a rest ok, nth_error (entries s) p = Some e /\ e_senders e = (aid, a) :: rest /\
    done_answers s' = (aid, e_sid e, a, ok) :: done_answers s /\ senders_at s' p = rest.
Proof.
  intros H. cbn [step] in H. destruct (nth_error (entries s) p) as [e|] eqn:Hp; [|discriminate].
  destruct (e_senders e) as [|[aid a] rest] eqn:Hs; [discriminate|]. injection H as <-.
  exists e, aid, a, rest, (match e_buf e with None => true | Some _ => false end).
  split; [reflexivity|]. split; [exact Hs|]. split; [reflexivity|].
  unfold senders_at. cbn [entries]. rewrite (nth_upd_eq _ _ _ _ Hp). destruct (e_buf e); reflexivity.
Qed.

(* ------------------------------------------------------------------ *)
(* no request is blocked by others                                       *)

Theorem no_request_blocked br s p e :
  reachable V1 br s -> nth_error (entries s) p = Some e ->
  (* the proxy poll: its own next step is enabled *)
  ((forall r, e_w e <> W_Done r) -> exists l, w_label l = Some p /\ step V1 s l <> None) /\
  (* the client it holds: its own next step is enabled, or it waits for the poll's waiter to leave its timeout
     critical section, which is enabled and after which the hand-over of the offer is enabled *)
  (forall c, e_cl e = Some c -> (forall r, c_pc c <> C_Done r) ->
     (exists l, c_label l = Some p /\ step V1 s l <> None) \/
     (c_pc c = C_Send /\ e_w e = W_TimedOut /\
      exists s1, step V1 s (L_WTimeoutCS p) = Some s1 /\ step V1 s1 (L_RvOffer p) <> None)) /\
  (* answer requests in flight on it: the head's send is enabled (it never blocks), the others wait only for it *)
  (e_senders e <> [] -> step V1 s (L_AnswerPut p) <> None).
Proof.
  intros R Hp. pose proof (reachable_inv V1 br s R) as I.
  destruct (inv_entries V1 s I p e Hp) as [Hs [_ [_ [_ Hst]]]]. cbn [no_stuck] in Hst. unfold shape_ok in Hs.
  split; [|split].
  - intros Hnd. destruct (e_w e) as [| | | |f|r] eqn:Ew.
    + destruct (e_wfired e) eqn:Ef.
      * exists (L_WTake p). split; [reflexivity|]. cbn [step]. rewrite Hp, Ew, Ef. discriminate.
      * exists (L_FireW p). split; [reflexivity|]. cbn [step]. rewrite Hp, Ew, Ef. discriminate.
    + exists (L_WTimeoutCS p). split; [reflexivity|]. cbn [step]. rewrite Hp, Ew. destruct (e_inheap e); discriminate.
    + destruct (e_cl e) as [c|] eqn:Hc; [|discriminate].
      destruct (c_pc c) eqn:Hpc; cbn in Hs; bool_crush; try discriminate.
      exists (L_RvOffer p). split; [reflexivity|]. cbn [step]. rewrite Hp, Hc, Hpc, Ew. discriminate.
    + congruence.
    + exists (L_RvForward p). split; [reflexivity|]. cbn [step]. rewrite Hp, Ew. discriminate.
    + elim (Hnd r). reflexivity.
  - intros c Hc Hnd. rewrite Hc in Hs. destruct (c_pc c) eqn:Hpc.
    + (* C_Send *) bool_crush. destruct (e_w e) as [| | | |f|r] eqn:Ew; try discriminate.
      * left. exists (L_RvOffer p). split; [reflexivity|]. cbn [step]. rewrite Hp, Hc, Hpc, Ew. discriminate.
      * right. split; [reflexivity|]. split; [reflexivity|].
        assert (Hh : e_inheap e = false) by assumption.
        eexists. split; [cbn [step]; rewrite Hp, Ew, Hh; reflexivity|].
        cbn [step entries with_entries]. rewrite (nth_upd_eq _ _ _ _ Hp). cbn. rewrite Hc, Hpc. discriminate.
      * left. exists (L_RvOffer p). split; [reflexivity|]. cbn [step]. rewrite Hp, Hc, Hpc, Ew. discriminate.
      * congruence.
    + left. destruct (c_fired c) eqn:Hf.
      * exists (L_CTake p). split; [reflexivity|]. cbn [step]. rewrite Hp, Hc, Hpc, Hf. discriminate.
      * exists (L_FireC p). split; [reflexivity|]. cbn [step]. rewrite Hp, Hc, Hpc, Hf. discriminate.
    + left. exists (L_CCleanup p). split; [reflexivity|]. cbn [step]. rewrite Hp, Hc, Hpc. discriminate.
    + elim (Hnd r). reflexivity.
  - intros Hne. cbn [step]. rewrite Hp. destruct (e_senders e) as [|[aid a] rest]; [elim Hne; reflexivity | discriminate].
Qed.
