(* RedialCapacityProofs.v — the queues of RedialPacketConn at their capacity (Model/Redial.v with its
   explicit qcap; Model/RedialQueue.v for the contents): a full queue drops, silently; WriteTo and
   ReadFrom report no error before Close / a dial failure however many packets are written or arrive. *)
From Coq Require Import List Arith Bool Lia.
From Snow Require Import Model.Redial Model.RedialQueue Proofs.RedialProofs.
Import ListNotations.

(* ------------------------------------------------------------------ the counters stay within the capacity *)

Lemma queues_bounded_step : forall ecap qcap s l s',
  step ecap qcap s l = Some s' -> r_sendq s <= qcap /\ r_recvq s <= qcap ->
  r_sendq s' <= qcap /\ r_recvq s' <= qcap.
Proof.
  intros ecap qcap s l s' Hs [H1 H2]. destruct s. destruct l; step_cases Hs; simpl in *; boolnorm; lia.
Qed.

Theorem redial_queues_bounded : forall ecap qcap s,
  reachable ecap qcap s -> r_sendq s <= qcap /\ r_recvq s <= qcap.
Proof.
  intros ecap qcap. apply (reachable_induction ecap qcap (fun s => r_sendq s <= qcap /\ r_recvq s <= qcap)).
  - simpl. lia.
  - intros s l s' _ H Hs. eapply queues_bounded_step; eauto.
Qed.

(* ------------------------------------------------------------------ no error before Close / dial failure *)

Lemma not_closed_before_close_or_dial_failure : forall ecap qcap s,
  reachable ecap qcap s -> g_close_called s = false -> g_dial_failed s = false -> r_closed s = false.
Proof.
  intros ecap qcap s Hr Hc Hd. destruct (r_closed s) eqn:E; [| reflexivity].
  destruct (redial_closed_only_by_close_or_dial_failure ecap qcap s Hr E); congruence.
Qed.

(* after ANY history (any number of writes, any schedule, any carrier behaviour) in which the user has not
   called Close and no dial has failed: WriteTo returns (len, nil) - also when the send queue is full,
   in which case the state does not change at all (the packet is dropped, nothing is signalled) - and
   ReadFrom returns a packet or blocks *)
Theorem redial_write_never_errors_before_close_or_dial_failure :
  forall ecap qcap tr s, run_trace ecap qcap tr rs_init = Some s ->
    g_close_called s = false -> g_dial_failed s = false ->
    user_result s LUWrite = UOk /\
    (user_result s LURead = UPacket \/ user_result s LURead = UWouldBlock) /\
    r_sendq s <= qcap /\ r_recvq s <= qcap /\
    exists s', step ecap qcap s LUWrite = Some s' /\
      r_closed s' = false /\ g_close_called s' = false /\ g_dial_failed s' = false /\
      (r_sendq s < qcap -> r_sendq s' = S (r_sendq s)) /\
      (r_sendq s = qcap -> s' = s).
Proof.
  intros ecap qcap tr s Htr Hc Hd.
  assert (Hr: reachable ecap qcap s) by (exists tr; exact Htr).
  pose proof (not_closed_before_close_or_dial_failure _ _ _ Hr Hc Hd) as Hcl.
  destruct (redial_queues_bounded _ _ _ Hr) as [B1 B2].
  split; [unfold user_result; rewrite Hcl; reflexivity |].
  split; [unfold user_result; rewrite Hcl; destruct (r_recvq s =? 0); auto |].
  split; [exact B1 |]. split; [exact B2 |].
  cbn [step]. rewrite Hcl. eexists. split; [reflexivity |]. cbn [r_closed r_sendq g_close_called g_dial_failed].
  split; [reflexivity |]. split; [exact Hc |]. split; [exact Hd |]. split.
  - intro L. apply Nat.ltb_lt in L. rewrite L. reflexivity.
  - intro E. assert (L: (r_sendq s <? qcap) = false) by (apply Nat.ltb_ge; lia). rewrite L.
    destruct s as [f1 f2 f3 f4 f5 f6 f7 f8]; cbn [r_closed r_err r_d r_cs r_sendq r_recvq g_close_called g_dial_failed] in *. congruence.
Qed.

(* the state in which the queue is full IS reached: n writes while nothing drains the queue (the first
   dial has not returned) leave min n qcap packets queued, the connection open, and the next write ok *)
Lemma writes_from : forall ecap qcap n s,
  r_closed s = false -> r_sendq s <= qcap ->
  exists s', run_trace ecap qcap (repeat LUWrite n) s = Some s' /\
    r_sendq s' = Nat.min (r_sendq s + n) qcap /\ r_closed s' = false /\
    g_close_called s' = g_close_called s /\ g_dial_failed s' = g_dial_failed s /\ r_d s' = r_d s /\ r_cs s' = r_cs s.
Proof.
  intros ecap qcap n. induction n as [| n IH]; intros s Hcl Hb.
  - exists s. split; [reflexivity |]. rewrite Nat.add_0_r. repeat split; auto. lia.
  - cbn [repeat run_trace step]. rewrite Hcl.
    match goal with |- context [run_trace _ _ _ ?s1] => set (s1' := s1) end.
    destruct (IH s1') as (s' & R & Q & C & G1 & G2 & D & CS).
    + reflexivity.
    + unfold s1'. cbn [r_sendq]. destruct (r_sendq s <? qcap) eqn:L; [apply Nat.ltb_lt in L; lia | exact Hb].
    + exists s'. split; [exact R |]. unfold s1' in *. cbn [r_closed r_err r_d r_cs r_sendq r_recvq g_close_called g_dial_failed] in *. repeat split; auto.
      rewrite Q. destruct (r_sendq s <? qcap) eqn:L; [apply Nat.ltb_lt in L | apply Nat.ltb_ge in L]; lia.
Qed.

Theorem redial_writes_fill_then_drop : forall ecap qcap n,
  exists s, run_trace ecap qcap (repeat LUWrite n) rs_init = Some s /\
    r_sendq s = Nat.min n qcap /\ g_close_called s = false /\ g_dial_failed s = false /\
    user_result s LUWrite = UOk.
Proof.
  intros ecap qcap n. destruct (writes_from ecap qcap n rs_init eq_refl (Nat.le_0_l _)) as (s & R & Q & C & G1 & G2 & _).
  exists s. split; [exact R |]. split; [exact Q |]. split; [exact G1 |]. split; [exact G2 |].
  unfold user_result. rewrite C. reflexivity.
Qed.

(* ------------------------------------------------------------------ contents *)

Section Contents.
  Variable A : Type.

  Lemma bq_push_length : forall cap (q : list A) x,
    length (bq_push A cap q x) = if length q <? cap then S (length q) else length q.
  Proof.
    intros cap q x. unfold bq_push, bq_accepts. destruct (length q <? cap); [| reflexivity].
    rewrite app_length. cbn. lia.
  Qed.

  Lemma bq_pop_length : forall (q : list A), length (snd (bq_pop A q)) = length q - 1.
  Proof. intros [| x t]; cbn; lia. Qed.

  (* first in, first out, of what was accepted: taken ++ left = initially queued ++ accepted *)
  Theorem bq_fifo : forall cap ops (q : list A),
    let '(out, acc, q') := bq_exec A cap ops q in out ++ q' = q ++ acc.
  Proof.
    intros cap ops. induction ops as [| [x |] ops IH]; intro q.
    - cbn. rewrite app_nil_r. reflexivity.
    - cbn [bq_exec]. specialize (IH (bq_push A cap q x)).
      destruct (bq_exec A cap ops (bq_push A cap q x)) as [[out acc] q']. rewrite IH.
      unfold bq_push. destruct (bq_accepts A cap q); [rewrite <- app_assoc |]; reflexivity.
    - cbn [bq_exec]. specialize (IH (snd (bq_pop A q))).
      destruct (bq_exec A cap ops (snd (bq_pop A q))) as [[out acc] q'].
      destruct q as [| y t]; cbn [bq_pop fst snd] in *; [exact IH |].
      cbn [app]. rewrite IH. reflexivity.
  Qed.

  Theorem bq_bounded : forall cap ops (q : list A),
    length q <= cap -> let '(_, _, q') := bq_exec A cap ops q in length q' <= cap.
  Proof.
    intros cap ops. induction ops as [| [x |] ops IH]; intros q Hb.
    - exact Hb.
    - cbn [bq_exec]. specialize (IH (bq_push A cap q x)).
      destruct (bq_exec A cap ops (bq_push A cap q x)) as [[out acc] q']. apply IH.
      rewrite bq_push_length. destruct (length q <? cap) eqn:L; [apply Nat.ltb_lt in L; lia | exact Hb].
    - cbn [bq_exec]. specialize (IH (snd (bq_pop A q))).
      destruct (bq_exec A cap ops (snd (bq_pop A q))) as [[out acc] q']. apply IH.
      rewrite bq_pop_length. lia.
  Qed.

  (* the contents follow the machine: along every step the lengths of the two content queues are the
     machine's counters r_sendq / r_recvq *)
  Theorem redial_contents_refine_counters : forall ecap qcap s l s' (sq rq : list A) (x : A),
    step ecap qcap s l = Some s' -> r_sendq s = length sq -> r_recvq s = length rq ->
    r_sendq s' = length (ghost_send A qcap s l sq x) /\ r_recvq s' = length (ghost_recv A qcap s l rq x).
  Proof.
    intros ecap qcap s l s' sq rq x Hs E1 E2.
    destruct s as [f1 f2 f3 f4 f5 f6 f7 f8].
    destruct l; step_cases Hs; cbn [ghost_send ghost_recv r_sendq r_recvq r_closed] in *;
      rewrite ?bq_push_length, ?bq_pop_length; subst; try (split; reflexivity);
      repeat match goal with H : (_ <? _) = _ |- _ => rewrite H end; split; reflexivity.
  Qed.
End Contents.

(* a carrier is active and its WriteTo does not return: one packet is with the carrier, qcap are queued,
   every further write is dropped and answered ok (qcap = 3, seven writes) *)
Example capacity_with_blocked_carrier :
  exists s, run_trace 1 3 ([LDTop; LDialOk; LUWrite; LWSelPkt 0] ++ repeat LUWrite 6) rs_init = Some s /\
    r_sendq s = 3 /\ g_close_called s = false /\ g_dial_failed s = false /\
    user_result s LUWrite = UOk /\ step 1 3 s LUWrite = Some s.
Proof. eexists. split; [vm_compute; reflexivity |]. repeat split. Qed.
