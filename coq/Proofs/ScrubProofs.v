(* ScrubProofs.v — the LogScrubber writer (line buffering) and the repaired scrub loop.
   Part 1 (writer) is independent of regular expressions: it holds for any per-line scrubber.
   Part 2 (scrub loop) is generic in a full pattern of the shape  L (group 1: A) R  whose
   side conditions are all decidable and are discharged by computation on the GENERATED pattern in
   Properties/C07.v. *)
From Coq Require Import List NArith Bool Arith Lia.
From Snow Require Import Lib.Wire Model.Regex Model.RegexIncl Model.Scrub Proofs.RegexProofs Proofs.MatcherProofs.
Import ListNotations.
Open Scope nat_scope.

(* ================================================================ Part 1: lines and the writer *)

Arguments split_lines : simpl never.

Definition no_nl (s : bytes) : Prop := ~ In NL s.
Definition is_line (l : bytes) : Prop := exists body, l = body ++ [NL] /\ no_nl body.

Lemma split_lines_cons : forall c s,
  split_lines (c :: s) =
  (let (ls, r) := split_lines s in
   if (c =? NL)%N then ([c] :: ls, r)
   else match ls with [] => ([], c :: r) | l :: ls' => ((c :: l) :: ls', r) end).
Proof. reflexivity. Qed.

Lemma split_lines_app : forall a b,
  split_lines (a ++ b) =
  (let (la, ra) := split_lines a in let (lb, rb) := split_lines (ra ++ b) in (la ++ lb, rb)).
Proof.
  induction a as [|c a IH]; intros b.
  - simpl. destruct (split_lines b); reflexivity.
  - rewrite <- app_comm_cons, !split_lines_cons, IH.
    destruct (split_lines a) as [la ra].
    destruct (c =? NL)%N eqn:E.
    + destruct (split_lines (ra ++ b)) as [lb rb]; reflexivity.
    + destruct la as [|l la].
      * rewrite <- app_comm_cons, split_lines_cons, E.
        destruct (split_lines (ra ++ b)) as [lb rb]; simpl. destruct lb; reflexivity.
      * destruct (split_lines (ra ++ b)) as [lb rb]; reflexivity.
Qed.

Lemma split_lines_rest : forall s, split_lines (snd (split_lines s)) = ([], snd (split_lines s)).
Proof.
  induction s as [|c s IH]; [reflexivity|].
  rewrite split_lines_cons. destruct (split_lines s) as [ls r]; simpl in *.
  destruct (c =? NL)%N eqn:E; simpl; auto.
  destruct ls; simpl; auto.
  rewrite split_lines_cons, IH, E; reflexivity.
Qed.

Lemma split_lines_concat : forall s, concat (fst (split_lines s)) ++ snd (split_lines s) = s.
Proof.
  induction s as [|c s IH]; [reflexivity|].
  rewrite split_lines_cons. destruct (split_lines s) as [ls r]; simpl in *.
  destruct (c =? NL)%N; simpl; [rewrite IH; auto|].
  destruct ls; simpl in *; rewrite <- IH; auto.
Qed.

Lemma split_lines_rest_no_nl : forall s, no_nl (snd (split_lines s)).
Proof.
  unfold no_nl. induction s as [|c s IH]; [simpl; auto|].
  rewrite split_lines_cons. destruct (split_lines s) as [ls r]; simpl in *.
  destruct (c =? NL)%N eqn:E; simpl; auto.
  destruct ls; simpl; auto. intros [H|H]; auto. subst. rewrite N.eqb_refl in E; discriminate.
Qed.

Lemma split_lines_lines : forall s l, In l (fst (split_lines s)) -> is_line l.
Proof.
  induction s as [|c s IH]; intros l Hl; [destruct Hl|].
  rewrite split_lines_cons in Hl. destruct (split_lines s) as [ls r]; simpl in *.
  destruct (c =? NL)%N eqn:E; simpl in Hl.
  - destruct Hl as [Hl|Hl]; auto. apply N.eqb_eq in E; subst.
    exists []; split; auto. intros [].
  - destruct ls as [|l0 ls]; simpl in Hl; [destruct Hl|].
    destruct Hl as [Hl|Hl]; [|apply IH; right; auto]. subst.
    destruct (IH l0 (or_introl eq_refl)) as [body [Hb Hn]]. subst.
    exists (c :: body); split; auto. intros [H|H]; [|apply Hn; auto].
    subst; rewrite N.eqb_refl in E; discriminate.
Qed.

Lemma split_lines_no_nl_tail : forall r, no_nl r -> split_lines (r ++ [NL]) = ([r ++ [NL]], []).
Proof.
  induction r as [|c r IH]; intros Hn; [reflexivity|].
  rewrite <- app_comm_cons, split_lines_cons, IH.
  - destruct (c =? NL)%N eqn:E; [|reflexivity].
    apply N.eqb_eq in E; subst. exfalso; apply Hn; left; auto.
  - intros H; apply Hn; right; auto.
Qed.

Lemma split_lines_ends_nl : forall a, snd (split_lines (a ++ [NL])) = [].
Proof.
  intros a. rewrite split_lines_app.
  pose proof (split_lines_rest_no_nl a) as Hn.
  destruct (split_lines a) as [la ra]; simpl in Hn.
  rewrite (split_lines_no_nl_tail ra Hn). reflexivity.
Qed.

Section Writer.
  Variable sc : bytes -> bytes.      (* any scrubber applied to one complete line *)

  Lemma run_writes_spec : forall ws buf,
    split_lines buf = ([], buf) ->
    run_writes (write sc) buf ws =
      (map sc (fst (split_lines (buf ++ concat ws))), snd (split_lines (buf ++ concat ws))).
  Proof.
    induction ws as [|b ws IH]; intros buf Hb; simpl.
    - rewrite app_nil_r, Hb; reflexivity.
    - unfold write at 1. rewrite app_assoc, (split_lines_app (buf ++ b)).
      pose proof (split_lines_rest (buf ++ b)) as Hr.
      destruct (split_lines (buf ++ b)) as [lb rb]; simpl in Hr.
      rewrite (IH rb Hr). destruct (split_lines (rb ++ concat ws)) as [l2 r2]; simpl.
      rewrite map_app; reflexivity.
  Qed.

  (* what the sink receives and what stays buffered depend only on the concatenation of the writes *)
  Theorem write_split_invariant : forall ws,
    run_writes (write sc) [] ws =
      (map sc (fst (split_lines (concat ws))), snd (split_lines (concat ws))).
  Proof. intros ws; apply (run_writes_spec ws []); reflexivity. Qed.

  Theorem write_split_independent : forall ws1 ws2,
    concat ws1 = concat ws2 -> run_writes (write sc) [] ws1 = run_writes (write sc) [] ws2.
  Proof. intros ws1 ws2 H; rewrite !write_split_invariant, H; reflexivity. Qed.

  (* every block handed to the sink is the scrubbed image of one complete line of the stream; the
     lines are emitted in order, none is lost, and the pending rest contains no newline *)
  Theorem write_complete_lines : forall ws outs pend,
    run_writes (write sc) [] ws = (outs, pend) ->
    exists lines, outs = map sc lines /\ Forall is_line lines /\
                  concat lines ++ pend = concat ws /\ no_nl pend.
  Proof.
    intros ws outs pend H. rewrite write_split_invariant in H. inversion H; subst.
    exists (fst (split_lines (concat ws))); repeat split.
    - apply Forall_forall; intros l Hl; eapply split_lines_lines; eauto.
    - apply split_lines_concat.
    - apply split_lines_rest_no_nl.
  Qed.
  (* scrubbing a stream line by line *)
  Definition scrub_stream (s : bytes) : bytes := concat (map sc (fst (split_lines s))).

  Theorem scrub_stream_line_local : forall a b,
    scrub_stream ((a ++ [NL]) ++ b) = scrub_stream (a ++ [NL]) ++ scrub_stream b.
  Proof.
    intros a b. unfold scrub_stream. rewrite (split_lines_app (a ++ [NL]) b).
    pose proof (split_lines_ends_nl a) as He.
    destruct (split_lines (a ++ [NL])) as [la ra]; simpl in He; subst ra. simpl.
    destruct (split_lines b) as [lb rb]; simpl. rewrite map_app, concat_app; reflexivity.
  Qed.
End Writer.

(* ================================================================ Part 2: the scrub loop *)

(* the spans (absolute positions, start inclusive, end exclusive) replaced by scrub_loop *)
Fixpoint spans (fuel : nat) (full : re) (s : bytes) (off : nat) : list (nat * nat) :=
  match fuel with
  | O => []
  | S fuel' =>
      match search full s 0 with
      | None => []
      | Some (_, _, cs) =>
          match cap_lookup 1 cs with
          | None => []
          | Some (gs, ge) =>
              match ge with
              | O => []
              | S _ => (off + gs, off + ge) :: spans fuel' full (skipn ge s) (off + ge)
              end
          end
      end
  end.

(* s starts at absolute position off *)
Fixpoint render (s : bytes) (off : nat) (sp : list (nat * nat)) : bytes :=
  match sp with
  | [] => s
  | (a, b) :: sp' => firstn (a - off) s ++ scrubbed ++ render (skipn (b - off) s) b sp'
  end.

Lemma scrub_loop_render : forall fuel full s off,
  scrub_loop fuel full s = render s off (spans fuel full s off).
Proof.
  induction fuel as [|f IH]; intros full s off; simpl; auto.
  destruct (search full s 0) as [[[st en] cs]|]; simpl; auto.
  destruct (cap_lookup 1 cs) as [[gs ge]|]; simpl; auto.
  destruct ge as [|ge']; simpl; auto.
  replace (off + gs - off) with gs by lia.
  replace (off + S ge' - off) with (S ge') by lia.
  rewrite <- (IH full _ (off + S ge')). reflexivity.
Qed.

(* spans lie inside the text [off, n), are non-empty, increasing and disjoint *)
Inductive wf_spans : nat -> nat -> list (nat * nat) -> Prop :=
| WfNil : forall off n, wf_spans off n []
| WfCons : forall off n a b sp, off <= a -> a < b -> b <= n -> wf_spans b n sp -> wf_spans off n ((a, b) :: sp).

Lemma ms_seq_inv : forall a b s p c s2 p2 c2, ms (Seq a b) s p c s2 p2 c2 ->
  exists s1 p1 c1, ms a s p c s1 p1 c1 /\ ms b s1 p1 c1 s2 p2 c2.
Proof. intros a b s p c s2 p2 c2 H; inversion H; subst; eauto 6. Qed.

Lemma ms_grp_inv : forall g a s p c s1 p1 c', ms (Grp g a) s p c s1 p1 c' ->
  exists c1, c' = (g, (p, p1)) :: c1 /\ ms a s p c s1 p1 c1.
Proof. intros g a s p c s1 p1 c' H; inversion H; subst; eauto. Qed.

Section Loop.
  Variables L A R : re.
  Let full := Seq L (Seq (Grp 1 A) R).

  Hypothesis HsfL : star_free L = true.
  Hypothesis HsfA : star_free A = true.
  Hypothesis HsfR : star_free R = true.
  Hypothesis HlenL : maxlen L <= 1.
  Hypothesis HnullA : nullable A = false.
  Hypothesis HafA : anchor_free A = true.
  Hypothesis HgR : has_grp 1 R = false.
  Hypothesis HbolL : nb L = true.
  Hypothesis HeolR : ne R = true.
  Hypothesis HdelimL : forall d, is_delim d = true -> matches L [d].
  Hypothesis HdelimR : forall d, is_delim d = true -> matches R [d].

  Lemma full_star_free : star_free full = true.
  Proof. unfold full; simpl. rewrite HsfL, HsfA, HsfR; reflexivity. Qed.

  (* what a successful attempt at position st looks like *)
  Lemma match_here_shape : forall s st en cs,
    match_here full s st = Some (en, cs) ->
    exists gs ge w, cap_lookup 1 cs = Some (gs, ge) /\ st <= gs /\ gs <= st + 1 /\
                    ge = gs + length w /\ w <> [] /\ matches A w /\
                    exists pre post, s = pre ++ w ++ post /\ st + length pre = gs.
  Proof.
    intros s st en cs H. unfold match_here in H. apply bt_sound in H.
    destruct H as (s1 & p1 & c1 & Hm & Hk). unfold kdone in Hk. inversion Hk; subst.
    unfold full in Hm.
    apply ms_seq_inv in Hm. destruct Hm as (sa & pa & ca & HL & Hm).
    apply ms_seq_inv in Hm. destruct Hm as (sb & pb & cb & HG & HR).
    apply ms_grp_inv in HG. destruct HG as (cg & Ecb & HA). subst cb.
    pose proof (ms_maxlen _ _ _ _ _ _ _ HL HsfL) as HmaxL.
    destruct (ms_suffix _ _ _ _ _ _ _ HL) as (wl & El & Pl).
    destruct (ms_matches _ _ _ _ _ _ _ HA HafA) as (w & Ew & Pw & Mw).
    exists pa, pb, w. repeat split; auto; try lia.
    - rewrite (ms_no_grp 1 _ _ _ _ _ _ _ HR HgR). simpl. reflexivity.
    - intros Hnil; subst w. apply nullable_correct in Mw. rewrite Mw in HnullA; discriminate.
    - exists wl, sb. subst. split; auto.
  Qed.

  (* an attempt right before a delimited word of A succeeds *)
  Lemma match_here_delim : forall d w post st,
    is_delim d = true -> matches A w -> (post = [] \/ exists e post', post = e :: post' /\ is_delim e = true) ->
    match_here full (d :: w ++ post) st <> None.
  Proof.
    intros d w post st Hd Hw Hpost. unfold match_here.
    destruct (matches_ms L [d] (HdelimL d Hd) (w ++ post) st []) as [c1 M1].
    destruct (matches_ms A w Hw post (st + 1) c1) as [c2 M2].
    simpl in M1.
    assert (HR : exists s3 p3 c3, ms R post (st + 1 + length w) ((1, (st + 1, st + 1 + length w)) :: c2) s3 p3 c3).
    { destruct Hpost as [Hp|(e & post' & Hp & He)]; subst.
      - destruct (ne_ms R HeolR (st + 1 + length w) ((1, (st + 1, st + 1 + length w)) :: c2)) as [c3 M3]; eauto.
      - destruct (matches_ms R [e] (HdelimR e He) post' (st + 1 + length w) ((1, (st + 1, st + 1 + length w)) :: c2)) as [c3 M3].
        simpl in M3; eauto. }
    destruct HR as (s3 & p3 & c3 & M3).
    eapply bt_complete; [|apply full_star_free|].
    - unfold full. econstructor; [exact M1|]. econstructor; [constructor; exact M2|exact M3].
    - unfold kdone; discriminate.
  Qed.

  (* at the very beginning of the searched slice no delimiter is needed *)
  Lemma match_here_bol : forall w post,
    matches A w -> (post = [] \/ exists e post', post = e :: post' /\ is_delim e = true) ->
    match_here full (w ++ post) 0 <> None.
  Proof.
    intros w post Hw Hpost. unfold match_here.
    destruct (nb_ms L HbolL (w ++ post) []) as [c1 M1].
    destruct (matches_ms A w Hw post 0 c1) as [c2 M2]. simpl in M2.
    assert (HR : exists s3 p3 c3, ms R post (length w) ((1, (0, length w)) :: c2) s3 p3 c3).
    { destruct Hpost as [Hp|(e & post' & Hp & He)]; subst.
      - destruct (ne_ms R HeolR (length w) ((1, (0, length w)) :: c2)) as [c3 M3]; eauto.
      - destruct (matches_ms R [e] (HdelimR e He) post' (length w) ((1, (0, length w)) :: c2)) as [c3 M3].
        simpl in M3; eauto. }
    destruct HR as (s3 & p3 & c3 & M3).
    eapply bt_complete; [|apply full_star_free|].
    - unfold full. econstructor; [exact M1|]. econstructor; [constructor; exact M2|exact M3].
    - unfold kdone; discriminate.
  Qed.

  Definition left_ok (pre : bytes) : Prop :=
    pre = [] \/ exists pre' d, pre = pre' ++ [d] /\ is_delim d = true.
  Definition right_ok (post : bytes) : Prop :=
    post = [] \/ exists e post', post = e :: post' /\ is_delim e = true.

  (* Main lemma: in the slice s = pre ++ w ++ post (which starts at absolute position off), with w a
     word of A of length >= 2 delimited on both sides, some replaced span overlaps the occurrence. *)
  Lemma loop_hides : forall fuel pre w post off,
    length (pre ++ w ++ post) < fuel ->
    matches A w -> 2 <= length w -> left_ok pre -> right_ok post ->
    exists a b, In (a, b) (spans fuel full (pre ++ w ++ post) off) /\
                a < off + length pre + length w /\ off + length pre < b.
  Proof.
    induction fuel as [|f IH]; intros pre w post off Hfuel Hw Hlen Hl Hr; [lia|].
    set (s := pre ++ w ++ post) in *.
    (* a match exists at k0 = |pre| - 1 (or 0) *)
    assert (Hex : exists k0, k0 <= length pre /\ length pre <= k0 + 1 /\ k0 <= length s /\
                             match_here full (skipn k0 s) (0 + k0) <> None).
    { destruct Hl as [Hp|(pre' & d & Hp & Hd)].
      - exists 0. subst pre. unfold s; simpl. repeat split; try lia. apply (match_here_bol w post); auto.
      - exists (length pre'). subst pre. unfold s. rewrite !app_length; simpl.
        repeat split; try lia.
        rewrite <- !app_assoc. rewrite skipn_app, skipn_all, Nat.sub_diag; simpl.
        apply match_here_delim; auto. }
    destruct Hex as (k0 & Hk1 & Hk2 & Hk3 & Hm).
    destruct (search_complete full k0 s 0 Hk3 Hm) as (k' & en & cs & Hs & Hk' & Hm').
    simpl in Hs, Hm'.
    destruct (match_here_shape _ _ _ _ Hm') as (gs & ge & w' & Hcap & Hg1 & Hg2 & Hge & Hne & Hmw' & _).
    assert (Hw'len : 1 <= length w') by (destruct w'; [contradiction|simpl; lia]).
    simpl. rewrite Hs, Hcap. destruct ge as [|ge']; [lia|].
    destruct (Nat.le_gt_cases (S ge') (length pre)) as [Hbefore|Hover].
    - (* the replaced span ends before the occurrence: go on in the rest of the slice *)
      assert (Hskip : skipn (S ge') s = skipn (S ge') pre ++ w ++ post).
      { unfold s. rewrite skipn_app. replace (S ge' - length pre) with 0 by lia. reflexivity. }
      rewrite Hskip.
      destruct (IH (skipn (S ge') pre) w post (off + S ge')) as (a & b & Hin & Ha & Hb); auto.
      + unfold s in Hfuel. rewrite !app_length in *. rewrite skipn_length. lia.
      + destruct Hl as [Hp|(pre' & d & Hp & Hd)].
        * subst pre; simpl in Hbefore; lia.
        * subst pre. rewrite app_length in Hbefore; simpl in Hbefore.
          destruct (Nat.eq_dec (S ge') (length pre' + 1)) as [E|E].
          -- left. rewrite skipn_all2; auto. rewrite app_length; simpl; lia.
          -- right. exists (skipn (S ge') pre'), d. split; auto.
             rewrite skipn_app. replace (S ge' - length pre') with 0 by lia. reflexivity.
      + exists a, b. split; [right; exact Hin|]. rewrite skipn_length in *. lia.
    - (* the replaced span reaches into the occurrence *)
      exists (off + gs), (off + S ge'). split; [left; reflexivity|]. lia.
  Qed.

  (* scrub1 on a whole text *)
  Theorem scrub1_hides : forall pre w post,
    matches A w -> 2 <= length w -> left_ok pre -> right_ok post ->
    exists a b, In (a, b) (spans (S (length (pre ++ w ++ post))) full (pre ++ w ++ post) 0) /\
                a < length pre + length w /\ length pre < b.
  Proof.
    intros pre w post Hw Hlen Hl Hr.
    destruct (loop_hides (S (length (pre ++ w ++ post))) pre w post 0) as (a & b & Hin & Ha & Hb); auto.
    exists a, b; auto.
  Qed.

  Theorem scrub1_render : forall t,
    scrub1 full t = render t 0 (spans (S (length t)) full t 0).
  Proof. intros t; unfold scrub1; apply scrub_loop_render. Qed.
  (* ---- the replaced spans are well formed *)
  Lemma spans_wf : forall fuel s off, wf_spans off (off + length s) (spans fuel full s off).
  Proof.
    induction fuel as [|f IH]; intros s off; cbn [spans]; [constructor|].
    destruct (search full s 0) as [[[st en] cs]|] eqn:Es; [|constructor].
    destruct (cap_lookup 1 cs) as [[gs ge]|] eqn:Ec; [|constructor].
    destruct ge as [|ge']; [constructor|].
    apply search_sound in Es. destruct Es as (k & Hk & Hst & Hm). simpl in Hst; subst st.
    destruct (match_here_shape _ _ _ _ Hm) as (gs' & ge2 & w & Hcap & Hg1 & Hg2 & Hge & Hne & Hmw & pre & post & Es & Hpre).
    rewrite Hcap in Ec. inversion Ec; subst gs' ge2.
    assert (Hlen : length (skipn k s) = length pre + length w + length post).
    { rewrite Es, !app_length; lia. }
    rewrite skipn_length in Hlen.
    assert (Hw : 1 <= length w) by (destruct w; [contradiction|simpl; lia]).
    constructor; try lia.
    replace (off + length s) with ((off + S ge') + length (skipn (S ge') s)).
    - apply IH.
    - rewrite skipn_length; lia.
  Qed.

  (* ---- the fuel of scrub_loop is never exhausted: every round drops at least one byte of the text,
     so any fuel above the length of the text gives the same result (the Go loop has no bound) *)
  Lemma scrub_loop_fuel : forall f1 f2 s,
    length s < f1 -> length s < f2 -> scrub_loop f1 full s = scrub_loop f2 full s.
  Proof.
    induction f1 as [|f1 IH]; intros f2 s H1 H2; [lia|].
    destruct f2 as [|f2]; [lia|]. cbn [scrub_loop].
    destruct (search full s 0) as [[[st en] cs]|] eqn:Es; auto.
    destruct (cap_lookup 1 cs) as [[gs ge]|] eqn:Ec; auto.
    destruct ge as [|ge']; auto.
    apply search_sound in Es. destruct Es as (k & Hk & Hst & Hm). simpl in Hst; subst st.
    destruct (match_here_shape _ _ _ _ Hm) as (gs' & ge2 & w & Hcap & Hg1 & Hg2 & Hge & Hne & Hmw & pre & post & Es & Hpre).
    rewrite Hcap in Ec. inversion Ec; subst gs' ge2.
    assert (Hlen : length (skipn k s) = length pre + length w + length post).
    { rewrite Es, !app_length; lia. }
    rewrite skipn_length in Hlen.
    rewrite (IH f2 (skipn (S ge') s)); auto; rewrite skipn_length; lia.
  Qed.

  (* ---- the final newline of a line survives *)
  Hypothesis HnlA : sym_free NL A = true.

  Lemma tail_in : forall (x : N) (X w body : bytes), X ++ w = body ++ [x] -> w <> [] -> In x w.
  Proof.
    intros x X w body H Hne. destruct (exists_last Hne) as (w' & y & Ew). subst w.
    rewrite app_assoc in H. apply app_inj_tail in H. destruct H as [_ Hy]. subst.
    apply in_or_app; right; left; auto.
  Qed.

  Lemma scrub_loop_keeps_nl : forall fuel body,
    exists body', scrub_loop fuel full (body ++ [NL]) = body' ++ [NL].
  Proof.
    induction fuel as [|f IH]; intros body; simpl; [eauto|].
    destruct (search full (body ++ [NL]) 0) as [[[st en] cs]|] eqn:Es; [|eauto].
    destruct (cap_lookup 1 cs) as [[gs ge]|] eqn:Ec; [|eauto].
    destruct ge as [|ge']; [eauto|].
    apply search_sound in Es. destruct Es as (k & Hk & Hst & Hm). simpl in Hst; subst st.
    destruct (match_here_shape _ _ _ _ Hm) as (gs' & ge2 & w & Hcap & Hg1 & Hg2 & Hge & Hne & Hmw & pre & post & Es & Hpre).
    rewrite Hcap in Ec. inversion Ec; subst gs' ge2.
    assert (Hnl : ~ In NL w) by (eapply matches_sym_free; eauto).
    assert (Hs : body ++ [NL] = (firstn k (body ++ [NL]) ++ pre) ++ w ++ post).
    { rewrite <- app_assoc, <- Es. symmetry; apply firstn_skipn. }
    assert (Hlen : length (firstn k (body ++ [NL]) ++ pre) = gs).
    { rewrite app_length, firstn_length_le; auto. }
    assert (Hle : S ge' <= length body).
    { destruct (Nat.le_gt_cases (S ge') (length body)) as [|Hgt]; auto. exfalso.
      assert (Hpost : post = []).
      { apply (f_equal (@length N)) in Hs. rewrite !app_length in Hs. simpl in Hs.
        rewrite app_length in Hlen. destruct post; auto. simpl in Hs. lia. }
      subst post. rewrite app_nil_r in Hs. apply Hnl. eapply tail_in; eauto. }
    rewrite skipn_app. replace (S ge' - length body) with 0 by lia. change (skipn 0 [NL]) with [NL].
    destruct (IH (skipn (S ge') body)) as [b' Hb']. rewrite Hb'.
    exists (firstn gs (body ++ [NL]) ++ scrubbed ++ b'). rewrite <- !app_assoc. reflexivity.
  Qed.

  Theorem scrub1_keeps_nl : forall body, exists body', scrub1 full (body ++ [NL]) = body' ++ [NL].
  Proof. intros body; unfold scrub1; apply scrub_loop_keeps_nl. Qed.
End Loop.
