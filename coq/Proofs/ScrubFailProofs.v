(* ScrubFailProofs.v — a failing sink only delays: the accepted output is that of the merged writes. *)
From Coq Require Import List NArith Bool Lia.
From Snow Require Import Lib.Wire Model.Scrub Model.ScrubFail.
Import ListNotations.

Lemma write_assoc : forall sc buf carry b, write sc (buf ++ carry) b = write sc buf (carry ++ b).
Proof. intros sc buf carry b. unfold write. rewrite <- app_assoc. reflexivity. Qed.

Lemma run_writes_f_merge : forall sc ws buf carry,
  run_writes_f sc (buf ++ carry) ws =
  (let (m, c) := merge_writes carry ws in
   let (o, p) := run_writes (write sc) buf m in (o, p ++ c)).
Proof.
  intros sc ws. induction ws as [|[b ok] r IH]; intros buf carry.
  - cbn [run_writes_f merge_writes run_writes]. reflexivity.
  - destruct ok.
    + cbn [run_writes_f merge_writes]. unfold write_f. cbn [fst snd].
      rewrite write_assoc.
      destruct (merge_writes [] r) as [m c] eqn:Em. cbn [run_writes].
      destruct (write sc buf (carry ++ b)) as [o1 buf1].
      specialize (IH buf1 []). rewrite app_nil_r in IH. rewrite IH, Em.
      destruct (run_writes (write sc) buf1 m) as [o p]. reflexivity.
    + cbn [run_writes_f merge_writes]. unfold write_f. cbn [fst snd].
      rewrite <- app_assoc. rewrite (IH buf (carry ++ b)).
      destruct (merge_writes (carry ++ b) r) as [m c].
      destruct (run_writes (write sc) buf m) as [o p]. reflexivity.
Qed.

Theorem failing_sink_delays_only : forall sc ws,
  run_writes_f sc [] ws =
  (let (m, c) := merge_writes [] ws in
   let (o, p) := run_writes (write sc) [] m in (o, p ++ c)).
Proof. intros sc ws. exact (run_writes_f_merge sc ws [] []). Qed.

Lemma merge_concat : forall ws carry m c, merge_writes carry ws = (m, c) ->
  concat m ++ c = carry ++ concat (map fst ws).
Proof.
  induction ws as [|[b ok] r IH]; intros carry m c H.
  - cbn in H. inversion H; subst. cbn. rewrite app_nil_r. reflexivity.
  - destruct ok; cbn [merge_writes] in H.
    + destruct (merge_writes [] r) as [m' c'] eqn:E. inversion H; subst.
      specialize (IH [] m' c E). cbn [concat map fst]. rewrite <- app_assoc, IH. cbn [app]. rewrite <- app_assoc. reflexivity.
    + specialize (IH (carry ++ b) m c H). rewrite IH. cbn [map fst concat]. rewrite <- app_assoc. reflexivity.
Qed.

From Snow Require Import Proofs.ScrubProofs.

(* with a sink that fails at any of the Writes: everything the sink accepted is the scrubbed form of complete lines of the
   stream, in order, and nothing is lost: accepted lines ++ what is still buffered = all bytes written *)
Theorem failing_sink_complete_lines : forall sc ws outs pend,
  run_writes_f sc [] ws = (outs, pend) ->
  exists lines, outs = map sc lines /\ Forall is_line lines /\ concat lines ++ pend = concat (map fst ws).
Proof.
  intros sc ws outs pend H. rewrite failing_sink_delays_only in H.
  destruct (merge_writes [] ws) as [m c] eqn:Em.
  destruct (run_writes (write sc) [] m) as [o p] eqn:Er. injection H as Ho' Hp'. subst outs pend.
  destruct (write_complete_lines sc m o p Er) as (lines & Ho & Hl & Hc & _).
  exists lines. split; [exact Ho|]. split; [exact Hl|].
  pose proof (merge_concat ws [] m c Em) as Hm. cbn [app] in Hm.
  rewrite app_assoc, Hc. exact Hm.
Qed.
