(* PacketPathMultiProofs.v — C01 over ANY number of carriers of one session, composed with the server's carrier
   layer [srun] (Model/CarrierLayer.v) instead of assuming the composition.

   PacketPathProofs.upstream_stream_prefix takes as a PREMISE that every packet the receiving KCP endpoint is handed
   was queued from some one carrier fed an honest, cut stream ([queued_from], one fresh carrier).  Here that premise
   is PROVED from the carrier-layer model for every schedule [ops] — any number of carriers of this and of other
   sessions, interleaved arrivals in any fragmentation, cuts and closes at any point, overlapping carriers of the
   same session: if the bytes sent on every carrier that presented ClientID [cid] are a prefix of an honest sender's
   carrier stream (token, cid, framed packets of the session's sending endpoint), then every packet that surfaces
   under [cid] is an unmodified packet of that endpoint; hence, under the ARQ hypothesis, stream = prefix.
   Downstream likewise from C05's invariants (what a carrier of [cid] was written was addressed to [cid]). *)
From Coq Require Import List NArith Bool Arith Lia.
From Snow Require Import Lib.Wire Model.Encap Proofs.EncapSweep Proofs.EncapProofs Model.CarrierLayer
  Proofs.CarrierProofs Proofs.CarrierOnceProofs Proofs.CarrierFragProofs Proofs.CarrierMultiProofs Proofs.PacketPathProofs.
Import ListNotations.
Open Scope N_scope.

Lemma is_prefix_firstn {A} (a b : list A) : is_prefix a b -> a = firstn (length a) b.
Proof. intros [c ->]. rewrite firstn_app, Nat.sub_diag, firstn_all. cbn. rewrite app_nil_r. reflexivity. Qed.

(* what carrier i of a reachable state queued, when the bytes sent on it are a prefix of an honest stream:
   exactly [queued_from] at some cut *)
Theorem carrier_queued_from : forall ops i k cid w,
  nth_error (carriers (srun ops)) i = Some k ->
  is_prefix (sent_on i ops) (carrier_stream cid w) ->
  exists cut, k_up k = queued_from cid w cut /\
              (k_state k <> K_Dead -> cut = length (sent_on i ops)).
Proof.
  intros ops i k cid w Hk Hpre.
  destruct (carrier_up_decoded ops i k Hk) as [n [Hn [Hal [Hup _]]]]. cbn zeta in Hup.
  rewrite (is_prefix_firstn _ _ Hpre) in Hup. rewrite firstn_firstn in Hup.
  exists (Nat.min n (length (sent_on i ops))). split; [exact Hup|].
  intros H. rewrite (Hal H). apply Nat.min_id.
Qed.

Definition honest_carriers (ops : list sop) (cid : bytes) (sent : list bytes) : Prop :=
  forall i k, nth_error (carriers (srun ops)) i = Some k -> k_cid k = cid -> ~ pre_open k ->
    exists ps w, wire_of ps = Some w /\ (forall p, In p ps -> In p sent) /\
                 is_prefix (sent_on i ops) (carrier_stream cid w).

(* packet integrity across all carriers of the session, proved from the carrier layer *)
Theorem session_packets_are_senders : forall ops cid sent p,
  length cid = 8%nat -> honest_carriers ops cid sent ->
  In (p, cid) (surfaced (srun ops)) -> In p sent.
Proof.
  intros ops cid sent p Hc Hh Hin.
  destruct (si_up _ (srun_inv ops) p cid Hin) as [i [k [Hk [Hcid [Hu Hnp]]]]].
  destruct (Hh i k Hk Hcid Hnp) as [ps [w [Hw [Hsub Hpre]]]].
  destruct (carrier_queued_from ops i k cid w Hk Hpre) as [cut [Hq _]]. rewrite Hq in Hu.
  apply Hsub. eapply queued_from_sub; eassumption.
Qed.

Section ArqBoundaryMulti.
  Variable packets_of : bytes -> list bytes -> Prop.
  Variable stream_of : list bytes -> bytes.
  Hypothesis arq_safe : forall written sent recv,
    packets_of written sent -> (forall p, In p recv -> In p sent) -> is_prefix (stream_of recv) written.

  Theorem upstream_stream_prefix_multi : forall written sent cid ops recv,
    length cid = 8%nat -> packets_of written sent -> honest_carriers ops cid sent ->
    (forall p, In p recv -> In (p, cid) (surfaced (srun ops))) ->
    is_prefix (stream_of recv) written.
  Proof.
    intros written sent cid ops recv Hc Hpk Hh Hrecv. apply (arq_safe written sent recv Hpk).
    intros p Hin. eapply session_packets_are_senders; eauto.
  Qed.

  (* downstream: the client reads, from any of its carriers cut anywhere under any reader behaviour, only packets
     the server's endpoint of this session wrote *)
  Theorem downstream_stream_prefix_multi : forall written sent cid ops recv,
    packets_of written sent ->
    (forall p, In (cid, p) (accepted (srun ops)) -> In p sent) ->
    (forall p, In p recv -> exists i k cut sc, nth_error (carriers (srun ops)) i = Some k /\ k_cid k = cid /\
                                            In p (read_from (k_wire k) cut sc)) ->
    is_prefix (stream_of recv) written.
  Proof.
    intros written sent cid ops recv Hpk Hacc Hrecv. apply (arq_safe written sent recv Hpk).
    intros p Hin. destruct (Hrecv p Hin) as [i [k [cut [sc [Hk [Hcid Hr]]]]]].
    apply Hacc. rewrite <- Hcid. apply (si_down _ (srun_inv ops) i k p Hk).
    eapply read_from_sub; [apply (si_wire _ (srun_inv ops) i k Hk) | exact Hr].
  Qed.
End ArqBoundaryMulti.

(* the session's packets, in order: an order-preserving merge of the carriers' decoded sequences *)
Definition entry_cid (c : bytes) (x : nat * bytes * bytes) : bool := beq c (snd (fst x)).
Definition tagged (c : bytes) (x : bytes * bytes) : bool := beq c (snd x).

Lemma tagged_offered c : forall l,
  map fst (filter (tagged c) (map tag_of l)) = pkts_of (filter (entry_cid c) l).
Proof.
  unfold pkts_of. induction l as [|[[i c'] p] l IH]; [reflexivity|].
  cbn [map filter]. unfold tagged at 1, entry_cid at 1, tag_of at 1. cbn [fst snd].
  destruct (beq c c'); cbn [map fst snd]; rewrite IH; reflexivity.
Qed.

Theorem session_packets_in_order : forall ops c,
  subseq (map fst (filter (tagged c) (surfaced (srun ops)))) (pkts_of (filter (entry_cid c) (offered ops))).
Proof.
  intros ops c. pose proof (queue_is_subsequence_of_offered ops) as H.
  apply (subseq_filter (tagged c)) in H. apply (subseq_map fst) in H.
  rewrite <- tagged_offered. exact H.
Qed.
