(* QueueOutProofs.v — the outgoing side of QueuePacketConn (Model/QueueConn.v over
   Model/ClientMap.v): per client address the send queue is first-in-first-out, a full queue
   drops, and the queue length is bounded by the capacity. *)
From Coq Require Import List NArith ZArith Bool Arith Lia Permutation.
From Snow Require Import Model.GoHeap Model.ClientMap Model.QueueConn Proofs.GoHeapProofs Proofs.ClientMapProofs.
Import ListNotations.

Definition rec_of (c : cmap) (a : N) : option crec := find (fun r => N.eqb (c_addr r) a) (byAge c).
Definition out_q (c : cmap) (a : N) : list payload := match rec_of c a with Some r => c_q r | None => [] end.

(* ---------------------------------------------------------------- lookup by address in a list *)

Notation afind a l := (find (fun r => N.eqb (c_addr r) a) l).

Lemma afind_some : forall a l r, afind a l = Some r -> In r l /\ c_addr r = a.
Proof.
  intros a l r H. apply find_some in H. destruct H as [H1 H2]. apply N.eqb_eq in H2. auto.
Qed.

Lemma afind_none : forall a l, afind a l = None -> forall r, In r l -> c_addr r <> a.
Proof.
  intros a l H r Hr E. pose proof (find_none _ _ H r Hr) as X. simpl in X.
  apply N.eqb_neq in X. auto.
Qed.

Lemma afind_none_intro : forall a l, (forall r, In r l -> c_addr r <> a) -> afind a l = None.
Proof.
  induction l as [|h t IH]; simpl; intros H; auto.
  destruct (N.eqb (c_addr h) a) eqn:E.
  - apply N.eqb_eq in E. exfalso. apply (H h); auto.
  - apply IH. intros; apply H; right; auto.
Qed.

Lemma afind_in : forall l r, NoDup (map c_addr l) -> In r l -> afind (c_addr r) l = Some r.
Proof.
  induction l as [|h t IH]; intros r Hnd Hin; [destruct Hin|].
  simpl in Hnd. inversion Hnd; subst. simpl. destruct Hin as [->|Hin].
  - rewrite N.eqb_refl. auto.
  - destruct (N.eqb (c_addr h) (c_addr r)) eqn:E.
    + apply N.eqb_eq in E. exfalso. apply H1. rewrite E. apply in_map; auto.
    + apply IH; auto.
Qed.

Lemma afind_perm : forall a l l', NoDup (map c_addr l) -> Permutation l l' -> afind a l = afind a l'.
Proof.
  intros a l l' Hnd Hp.
  assert (Hnd' : NoDup (map c_addr l')).
  { eapply Permutation_NoDup; [apply Permutation_map; exact Hp | auto]. }
  destruct (afind a l) as [r|] eqn:E.
  - apply afind_some in E. destruct E as [Hin Ha]. subst a. symmetry. apply afind_in; auto.
    eapply Permutation_in; eauto.
  - symmetry. apply afind_none_intro. intros r Hr. eapply afind_none; eauto.
    eapply Permutation_in; [apply Permutation_sym; eauto | auto].
Qed.

Lemma afind_set_nth : forall l i r r' a, NoDup (map c_addr l) -> nth_error l i = Some r ->
  c_addr r' = c_addr r ->
  afind a (set_nth i r' l) = if N.eqb (c_addr r) a then Some r' else afind a l.
Proof.
  induction l as [|h t IH]; intros [|i] r r' a Hnd Hn Ha; simpl in *; try discriminate.
  - inversion Hn; subst h. rewrite Ha. destruct (N.eqb (c_addr r) a); auto.
  - inversion Hnd; subst. destruct (N.eqb (c_addr h) a) eqn:E.
    + destruct (N.eqb (c_addr r) a) eqn:E2; auto. apply N.eqb_eq in E, E2. exfalso.
      apply H1. rewrite E, <- E2. apply in_map. eapply nth_error_In; eauto.
    + apply (IH i r r' a); auto.
Qed.

Lemma cm_inv_nodup_addr : forall c, cm_inv c -> NoDup (map c_addr (byAge c)).
Proof.
  intros c (Hh & Hidx & _ & Hlen & _).
  apply (proj2 (NoDup_nth_error (map c_addr (byAge c)))).
  intros i j Hi Hij. rewrite map_length in Hi.
  destruct (nth_error_some_of_lt _ _ _ Hi) as [r Hr].
  rewrite (map_nth_error c_addr _ _ Hr) in Hij. symmetry in Hij.
  destruct (nth_error (byAge c) j) as [r'|] eqn:Hr'.
  - rewrite (map_nth_error c_addr _ _ Hr') in Hij.
    apply (idx_ok_inj (byAge c) (byAddr c) i j (c_addr r) Hidx); unfold addr_at;
      [rewrite Hr | rewrite Hr']; simpl; congruence.
  - exfalso. apply nth_error_None in Hr'.
    assert (nth_error (map c_addr (byAge c)) j = None) by (apply nth_error_None; rewrite map_length; auto).
    congruence.
Qed.

Lemma rec_of_some : forall c a r, rec_of c a = Some r -> In r (byAge c) /\ c_addr r = a.
Proof. intros c a r H. apply afind_some; auto. Qed.

Lemma rec_of_in : forall c r, cm_inv c -> In r (byAge c) -> rec_of c (c_addr r) = Some r.
Proof. intros c r H Hin. unfold rec_of. apply afind_in; auto. apply cm_inv_nodup_addr; auto. Qed.

(* ---------------------------------------------------------------- SendQueue, seen from an address *)

Lemma send_queue_out_aux : forall a now c, cm_inv c ->
  cm_inv (fst (send_queue a now c)) /\
  (exists r, rec_of (fst (send_queue a now c)) a = Some r /\ c_qid r = snd (send_queue a now c) /\
             c_seen r = now /\ c_q r = out_q c a) /\
  (forall b, b <> a -> rec_of (fst (send_queue a now c)) b = rec_of c b) /\
  dead (fst (send_queue a now c)) = dead c.
Proof.
  intros a now c Hinv. split; [apply send_queue_inv; auto|].
  pose proof (cm_inv_nodup_addr _ Hinv) as Hnda.
  pose proof (cm_inv_R c Hinv) as HR.
  pose proof Hinv as (Hh & Hidx & Hks & Hlen & Hnd & Hb).
  unfold send_queue. destruct (amap_get a (byAddr c)) as [i|] eqn:G.
  - assert (Ha: addr_at (byAge c) i = Some a) by (apply Hidx; auto).
    unfold addr_at in Ha. destruct (nth_error (byAge c) i) as [r|] eqn:Hr; [|discriminate].
    simpl in Ha. inversion Ha as [Ha'].
    simpl. set (r' := set_seen r now). set (l1 := set_nth i r' (byAge c)).
    assert (Hi: i < length (byAge c)) by (eapply nth_error_lt; eauto).
    assert (HR1: cmR (next_qid c) (dead c) (set_byAge c l1) l1).
    { destruct HR as (_ & H2 & H3 & H4 & H5 & H6). unfold cmR, set_byAge; simpl.
      split; auto. split; [| split; [auto | split; [| auto]]].
      - intros b k. unfold l1. rewrite (addr_at_set_nth_same (byAge c) i r' r k Hr eq_refl). apply H2.
      - unfold l1. rewrite cm_set_nth_length. auto. }
    pose proof (cm_fix_sim _ _ _ _ i HR1) as HR2.
    assert (Hi1: i < length l1) by (unfold l1; rewrite cm_set_nth_length; auto).
    specialize (HR2 Hi1). destruct HR2 as (E1 & _ & _ & _ & _ & E6).
    destruct (lfix_spec crec rec_less rec_less_irrefl rec_less_trans rec_less_negtrans (byAge c) i r' Hh Hi) as [_ Hp2].
    fold l1 in Hp2.
    assert (Hnd1 : NoDup (map c_addr l1)).
    { unfold l1. rewrite (map_set_nth_same _ _ c_addr (byAge c) i r' r Hr eq_refl). auto. }
    assert (Hfind : forall b, rec_of (cm_heap_fix (set_byAge c l1) i) b =
                              if N.eqb (c_addr r) b then Some r' else rec_of c b).
    { intro b. unfold rec_of. rewrite E1.
      rewrite <- (afind_perm b l1 _ Hnd1 (Permutation_sym Hp2)).
      unfold l1. apply afind_set_nth; auto. }
    split; [|split].
    + exists r'. rewrite Hfind, Ha', N.eqb_refl. split; auto. split; auto. split; auto.
      unfold out_q. rewrite <- Ha'. rewrite (rec_of_in c r Hinv); auto.
      eapply nth_error_In; eauto.
    + intros b Hb'. rewrite Hfind. rewrite Ha'. destruct (N.eqb a b) eqn:E; auto.
      apply N.eqb_eq in E. congruence.
    + auto.
  - simpl. set (r := mkrec a now (next_qid c) []).
    set (s1 := mkcm (byAge c) (byAddr c) (S (next_qid c)) (dead c)).
    assert (HR1: cmR (S (next_qid c)) (dead c) s1 (byAge c)).
    { destruct HR as (_ & H2 & H3 & H4 & H5 & H6). unfold cmR, s1; simpl. auto 10. }
    pose proof (cm_push_sim _ _ _ _ r HR1 G) as HR2.
    destruct HR2 as (E1 & _ & _ & _ & _ & E6).
    pose proof (lpush_perm crec rec_less (byAge c) r) as Hp2.
    assert (Hfresh : forall y, In y (byAge c) -> c_addr y <> a).
    { intros y Hy Ey. apply In_nth_error in Hy. destruct Hy as [k Hk].
      assert (amap_get a (byAddr c) = Some k).
      { apply Hidx. unfold addr_at. rewrite Hk. simpl. congruence. }
      congruence. }
    assert (Hnd1 : NoDup (map c_addr (r :: byAge c))).
    { simpl. constructor; auto. intro X. apply in_map_iff in X. destruct X as (y & Hy1 & Hy2).
      apply (Hfresh y Hy2). auto. }
    assert (Hfind : forall b, rec_of (cm_heap_push r s1) b =
                              if N.eqb a b then Some r else rec_of c b).
    { intro b. unfold rec_of. rewrite E1.
      rewrite <- (afind_perm b (r :: byAge c) _ Hnd1 (Permutation_sym Hp2)).
      reflexivity. }
    split; [|split].
    + exists r. rewrite Hfind, N.eqb_refl. split; auto. split; auto. split; auto.
      unfold out_q, rec_of. rewrite afind_none_intro; auto.
    + intros b Hb'. rewrite Hfind. destruct (N.eqb a b) eqn:E; auto.
      apply N.eqb_eq in E. congruence.
    + auto.
Qed.

Theorem send_queue_out : forall a now c, cm_inv c ->
  let '(c', k) := send_queue a now c in
  cm_inv c' /\ (exists r, rec_of c' a = Some r /\ c_qid r = k /\ c_seen r = now /\ c_q r = out_q c a) /\
  (forall b, b <> a -> rec_of c' b = rec_of c b) /\ dead c' = dead c.
Proof.
  intros a now c H. pose proof (send_queue_out_aux a now c H) as H0.
  destruct (send_queue a now c) as [c' k]. simpl in H0. exact H0.
Qed.

(* SendQueue, exactly: the record of [a] afterwards is the old one with LastSeen := now (same queue,
   same contents), or a new record with a fresh queue identity and an empty queue; nothing else
   changes; no queue is closed; identities are handed out in increasing order. *)
Definition touch_rec (a : N) (now : Z) (nq : nat) (ro : option crec) : crec :=
  match ro with Some r => set_seen r now | None => mkrec a now nq [] end.

Lemma send_queue_full : forall a now c, cm_inv c ->
  cm_inv (fst (send_queue a now c)) /\
  rec_of (fst (send_queue a now c)) a = Some (touch_rec a now (next_qid c) (rec_of c a)) /\
  snd (send_queue a now c) = c_qid (touch_rec a now (next_qid c) (rec_of c a)) /\
  (forall b, b <> a -> rec_of (fst (send_queue a now c)) b = rec_of c b) /\
  dead (fst (send_queue a now c)) = dead c /\
  next_qid (fst (send_queue a now c)) = match rec_of c a with Some _ => next_qid c | None => S (next_qid c) end.
Proof.
  intros a now c Hinv. split; [apply send_queue_inv; auto|].
  pose proof (cm_inv_nodup_addr _ Hinv) as Hnda.
  pose proof (cm_inv_R c Hinv) as HR.
  pose proof Hinv as (Hh & Hidx & Hks & Hlen & Hnd & Hb).
  unfold send_queue. destruct (amap_get a (byAddr c)) as [i|] eqn:G.
  - assert (Ha: addr_at (byAge c) i = Some a) by (apply Hidx; auto).
    unfold addr_at in Ha. destruct (nth_error (byAge c) i) as [r|] eqn:Hr; [|discriminate].
    simpl in Ha. assert (Ha' : c_addr r = a) by congruence. clear Ha.
    assert (Hrec : rec_of c a = Some r).
    { rewrite <- Ha'. apply rec_of_in; auto. eapply nth_error_In; eauto. }
    rewrite Hrec.
    simpl. set (r' := set_seen r now). set (l1 := set_nth i r' (byAge c)).
    assert (Hi: i < length (byAge c)) by (eapply nth_error_lt; eauto).
    assert (HR1: cmR (next_qid c) (dead c) (set_byAge c l1) l1).
    { destruct HR as (_ & H2 & H3 & H4 & H5 & H6). unfold cmR, set_byAge; simpl.
      split; auto. split; [| split; [auto | split; [| auto]]].
      - intros b k. unfold l1. rewrite (addr_at_set_nth_same (byAge c) i r' r k Hr eq_refl). apply H2.
      - unfold l1. rewrite cm_set_nth_length. auto. }
    pose proof (cm_fix_sim _ _ _ _ i HR1) as HR2.
    assert (Hi1: i < length l1) by (unfold l1; rewrite cm_set_nth_length; auto).
    specialize (HR2 Hi1). destruct HR2 as (E1 & _ & _ & _ & E5 & E6).
    destruct (lfix_spec crec rec_less rec_less_irrefl rec_less_trans rec_less_negtrans (byAge c) i r' Hh Hi) as [_ Hp2].
    fold l1 in Hp2.
    assert (Hnd1 : NoDup (map c_addr l1)).
    { unfold l1. rewrite (map_set_nth_same _ _ c_addr (byAge c) i r' r Hr eq_refl). auto. }
    assert (Hfind : forall b, rec_of (cm_heap_fix (set_byAge c l1) i) b =
                              if N.eqb (c_addr r) b then Some r' else rec_of c b).
    { intro b. unfold rec_of. rewrite E1.
      rewrite <- (afind_perm b l1 _ Hnd1 (Permutation_sym Hp2)).
      unfold l1. apply afind_set_nth; auto. }
    split; [|split; [|split; [|split]]]; auto.
    + rewrite Hfind, Ha', N.eqb_refl. reflexivity.
    + intros b Hb'. rewrite Hfind. rewrite Ha'. destruct (N.eqb a b) eqn:E; auto.
      apply N.eqb_eq in E. congruence.
  - simpl. set (r := mkrec a now (next_qid c) []).
    set (s1 := mkcm (byAge c) (byAddr c) (S (next_qid c)) (dead c)).
    assert (HR1: cmR (S (next_qid c)) (dead c) s1 (byAge c)).
    { destruct HR as (_ & H2 & H3 & H4 & H5 & H6). unfold cmR, s1; simpl. auto 10. }
    pose proof (cm_push_sim _ _ _ _ r HR1 G) as HR2.
    destruct HR2 as (E1 & _ & _ & _ & E5 & E6).
    pose proof (lpush_perm crec rec_less (byAge c) r) as Hp2.
    assert (Hfresh : forall y, In y (byAge c) -> c_addr y <> a).
    { intros y Hy Ey. apply In_nth_error in Hy. destruct Hy as [k Hk].
      assert (amap_get a (byAddr c) = Some k).
      { apply Hidx. unfold addr_at. rewrite Hk. simpl. congruence. }
      congruence. }
    assert (Hrec : rec_of c a = None) by (unfold rec_of; apply afind_none_intro; auto).
    rewrite Hrec.
    assert (Hnd1 : NoDup (map c_addr (r :: byAge c))).
    { simpl. constructor; auto. intro X. apply in_map_iff in X. destruct X as (y & Hy1 & Hy2).
      apply (Hfresh y Hy2). auto. }
    assert (Hfind : forall b, rec_of (cm_heap_push r s1) b =
                              if N.eqb a b then Some r else rec_of c b).
    { intro b. unfold rec_of. rewrite E1.
      rewrite <- (afind_perm b (r :: byAge c) _ Hnd1 (Permutation_sym Hp2)).
      reflexivity. }
    split; [|split; [|split; [|split]]]; auto.
    + rewrite Hfind, N.eqb_refl. reflexivity.
    + intros b Hb'. rewrite Hfind. destruct (N.eqb a b) eqn:E; auto.
      apply N.eqb_eq in E. congruence.
Qed.

(* ---------------------------------------------------------------- replacing one record's queue *)

Lemma find_qid_nth : forall l i r, NoDup (map c_qid l) -> nth_error l i = Some r ->
  find_qid (c_qid r) l = Some i.
Proof.
  induction l as [|h t IH]; intros [|i] r Hnd Hn; simpl in *; try discriminate.
  - inversion Hn; subst. rewrite Nat.eqb_refl. auto.
  - inversion Hnd; subst. destruct (Nat.eqb (c_qid h) (c_qid r)) eqn:E.
    + apply Nat.eqb_eq in E. exfalso. apply H1. rewrite E. apply in_map. eapply nth_error_In; eauto.
    + rewrite (IH i r); auto.
Qed.

Lemma find_qid_some : forall l k i, find_qid k l = Some i -> exists r, nth_error l i = Some r /\ c_qid r = k.
Proof.
  induction l as [|h t IH]; intros k i H; simpl in *; try discriminate.
  destruct (Nat.eqb (c_qid h) k) eqn:E.
  - inversion H; subst. apply Nat.eqb_eq in E. exists h. auto.
  - destruct (find_qid k t) as [j|] eqn:F; simpl in H; [|discriminate].
    inversion H; subst. simpl. apply IH; auto.
Qed.

Lemma nth_set_nth_seen : forall l i x r k y, nth_error l i = Some r -> c_seen x = c_seen r ->
  nth_error (set_nth i x l) k = Some y -> exists y0, nth_error l k = Some y0 /\ c_seen y0 = c_seen y.
Proof.
  intros l i x r k y Hr Hs Hk. destruct (Nat.eq_dec k i).
  - subst. rewrite set_nth_eq in Hk by (eapply nth_error_lt; eauto). inversion Hk; subst.
    exists r. auto.
  - rewrite set_nth_neq in Hk by auto. eauto.
Qed.

Lemma cm_inv_set_q : forall c i r q, cm_inv c -> nth_error (byAge c) i = Some r ->
  cm_inv (set_byAge c (set_nth i (set_q r q) (byAge c))).
Proof.
  intros c i r q (Hh & Hidx & Hks & Hlen & Hnd & Hb) Hr.
  unfold cm_inv, set_byAge; simpl.
  split; [|split; [|split; [|split; [|split]]]]; auto.
  - intros p ch a b Hc Ha Hb'.
    destruct (nth_set_nth_seen (byAge c) i (set_q r q) r p a Hr eq_refl Ha) as (a0 & Ha0 & Sa).
    destruct (nth_set_nth_seen (byAge c) i (set_q r q) r ch b Hr eq_refl Hb') as (b0 & Hb0 & Sb).
    pose proof (Hh p ch a0 b0 Hc Ha0 Hb0) as X. unfold rec_less in *. rewrite <- Sa, <- Sb. auto.
  - intros a k. rewrite (addr_at_set_nth_same _ i (set_q r q) r k Hr eq_refl). apply Hidx.
  - rewrite cm_set_nth_length. auto.
  - rewrite (map_set_nth_same _ _ c_qid _ i (set_q r q) r Hr eq_refl). auto.
  - intros x Hx.
    assert (H : In (c_qid x) (map c_qid (set_nth i (set_q r q) (byAge c)))) by (apply in_map; auto).
    rewrite (map_set_nth_same _ _ c_qid _ i (set_q r q) r Hr eq_refl) in H.
    apply in_map_iff in H. destruct H as (y & Hy1 & Hy2). rewrite <- Hy1. auto.
Qed.

Lemma rec_of_set_q : forall c i r q b, cm_inv c -> nth_error (byAge c) i = Some r ->
  rec_of (set_byAge c (set_nth i (set_q r q) (byAge c))) b =
  if N.eqb (c_addr r) b then Some (set_q r q) else rec_of c b.
Proof.
  intros. unfold rec_of, set_byAge; simpl. apply afind_set_nth; auto. apply cm_inv_nodup_addr; auto.
Qed.

Lemma out_q_set_q : forall c i r q b, cm_inv c -> nth_error (byAge c) i = Some r ->
  out_q (set_byAge c (set_nth i (set_q r q) (byAge c))) b =
  if N.eqb (c_addr r) b then q else out_q c b.
Proof.
  intros. unfold out_q. rewrite rec_of_set_q; auto. destruct (N.eqb (c_addr r) b); auto.
Qed.

Lemma rec_of_locate : forall c a r, cm_inv c -> rec_of c a = Some r ->
  exists i, nth_error (byAge c) i = Some r /\ find_qid (c_qid r) (byAge c) = Some i /\ c_addr r = a.
Proof.
  intros c a r Hinv H. apply rec_of_some in H. destruct H as [Hin Ha].
  apply In_nth_error in Hin. destruct Hin as [i Hi]. exists i. split; auto. split; auto.
  apply find_qid_nth; auto. destruct Hinv as (_ & _ & _ & _ & Hnd & _). auto.
Qed.

(* ---------------------------------------------------------------- the channel operations keep the invariant *)

Lemma q_send_inv : forall cap k p c, cm_inv c -> cm_inv (fst (q_send cap k p c)).
Proof.
  intros cap k p c Hinv. unfold q_send.
  destruct (find_qid k (byAge c)) as [i|]; auto.
  destruct (nth_error (byAge c) i) as [r|] eqn:Hr; auto.
  destruct (length (c_q r) <? cap); auto. simpl. apply cm_inv_set_q; auto.
Qed.

Lemma q_recv_inv : forall k c, cm_inv c -> cm_inv (fst (q_recv k c)).
Proof.
  intros k c Hinv. unfold q_recv.
  destruct (find_qid k (byAge c)) as [i|].
  - destruct (nth_error (byAge c) i) as [r|] eqn:Hr; auto.
    destruct (c_q r); auto. simpl. apply cm_inv_set_q; auto.
  - destruct (dead_take k (dead c)) as [d r]. simpl. exact Hinv.
Qed.

(* a receive on any queue (live, closed, or unknown) only ever shortens queues *)
Lemma q_recv_shrinks : forall k c b, cm_inv c ->
  length (out_q (fst (q_recv k c)) b) <= length (out_q c b).
Proof.
  intros k c b Hinv. unfold q_recv.
  destruct (find_qid k (byAge c)) as [i|].
  - destruct (nth_error (byAge c) i) as [r|] eqn:Hr; auto.
    destruct (c_q r) as [|p q'] eqn:Hq; auto. simpl.
    rewrite out_q_set_q; auto. destruct (N.eqb (c_addr r) b) eqn:E; auto.
    apply N.eqb_eq in E. subst b. unfold out_q. rewrite (rec_of_in c r Hinv).
    + rewrite Hq. simpl. lia.
    + eapply nth_error_In; eauto.
  - destruct (dead_take k (dead c)) as [d r]. simpl. apply Nat.le_refl.
Qed.

Lemma q_send_out : forall cap p c a r, cm_inv c -> rec_of c a = Some r ->
  let '(c', ok) := q_send cap (c_qid r) p c in
  cm_inv c' /\ ok = (length (c_q r) <? cap) /\ dead c' = dead c /\
  out_q c' a = (if length (c_q r) <? cap then c_q r ++ [p] else c_q r) /\
  (forall b, b <> a -> out_q c' b = out_q c b).
Proof.
  intros cap p c a r Hinv Hrec.
  destruct (rec_of_locate c a r Hinv Hrec) as (i & Hi & Hf & Ha).
  unfold q_send. rewrite Hf, Hi.
  destruct (length (c_q r) <? cap) eqn:L.
  - split; [apply cm_inv_set_q; auto|]. split; auto. split; auto. split.
    + rewrite out_q_set_q; auto. rewrite Ha, N.eqb_refl. auto.
    + intros b Hb. rewrite out_q_set_q; auto. rewrite Ha.
      destruct (N.eqb a b) eqn:E; auto. apply N.eqb_eq in E. congruence.
  - split; auto. split; auto. split; auto. split; auto.
    unfold out_q. rewrite Hrec. auto.
Qed.

Lemma q_recv_out : forall c a r, cm_inv c -> rec_of c a = Some r ->
  let '(c', o) := q_recv (c_qid r) c in
  cm_inv c' /\ o = (match c_q r with [] => RcvEmpty | p :: _ => RcvPkt p end) /\ dead c' = dead c /\
  out_q c' a = tl (c_q r) /\
  (forall b, b <> a -> out_q c' b = out_q c b).
Proof.
  intros c a r Hinv Hrec.
  destruct (rec_of_locate c a r Hinv Hrec) as (i & Hi & Hf & Ha).
  unfold q_recv. rewrite Hf, Hi.
  destruct (c_q r) as [|p q'] eqn:Hq.
  - split; auto. split; auto. split; auto. split; auto.
    unfold out_q. rewrite Hrec. rewrite Hq. auto.
  - split; [apply cm_inv_set_q; auto|]. split; auto. split; auto. split.
    + rewrite out_q_set_q; auto. rewrite Ha, N.eqb_refl. auto.
    + intros b Hb. rewrite out_q_set_q; auto. rewrite Ha.
      destruct (N.eqb a b) eqn:E; auto. apply N.eqb_eq in E. congruence.
Qed.

(* ---------------------------------------------------------------- the steps of QueuePacketConn *)

Theorem qwrite_out : forall cap timeout s p a now, cm_inv (clients s) -> qclosed s = false ->
  let '(s', o) := qstep cap timeout s (QWrite p a now) in
  cm_inv (clients s') /\ recvq s' = recvq s /\ qclosed s' = false /\
  out_q (clients s') a = (if length (out_q (clients s) a) <? cap then out_q (clients s) a ++ [p] else out_q (clients s) a) /\
  (exists k, o = OWrote (length p) k (length (out_q (clients s) a) <? cap)) /\
  (forall b, b <> a -> out_q (clients s') b = out_q (clients s) b).
Proof.
  intros cap timeout s p a now Hinv Hc. unfold qstep. rewrite Hc.
  pose proof (send_queue_out a now (clients s) Hinv) as H1.
  destruct (send_queue a now (clients s)) as [c1 k].
  destruct H1 as (Hinv1 & (r & Hr & Hk & Hseen & Hq) & Hoth & Hdead). subst k.
  pose proof (q_send_out cap p c1 a r Hinv1 Hr) as H2.
  destruct (q_send cap (c_qid r) p c1) as [c2 ok].
  destruct H2 as (Hinv2 & Hok & Hdead2 & Hqa & Hoth2). simpl.
  rewrite Hq in Hqa, Hok.
  split; auto. split; auto. split; auto. split; auto. split.
  - exists (c_qid r). rewrite Hok. auto.
  - intros b Hb. rewrite Hoth2; auto. unfold out_q. rewrite Hoth; auto.
Qed.

Theorem qoutrecv_out : forall cap timeout s a now, cm_inv (clients s) ->
  let '(s', o) := qstep cap timeout s (QOutRecv a now) in
  cm_inv (clients s') /\ recvq s' = recvq s /\ qclosed s' = qclosed s /\
  (exists k, o = ORecv k (match out_q (clients s) a with [] => RcvEmpty | p :: _ => RcvPkt p end)) /\
  out_q (clients s') a = tl (out_q (clients s) a) /\
  (forall b, b <> a -> out_q (clients s') b = out_q (clients s) b).
Proof.
  intros cap timeout s a now Hinv. unfold qstep.
  pose proof (send_queue_out a now (clients s) Hinv) as H1.
  destruct (send_queue a now (clients s)) as [c1 k].
  destruct H1 as (Hinv1 & (r & Hr & Hk & Hseen & Hq) & Hoth & Hdead). subst k.
  pose proof (q_recv_out c1 a r Hinv1 Hr) as H2.
  destruct (q_recv (c_qid r) c1) as [c2 o].
  destruct H2 as (Hinv2 & Ho & Hdead2 & Hqa & Hoth2). simpl.
  rewrite Hq in Hqa, Ho.
  split; auto. split; auto. split; auto. split; [|split; auto].
  - exists (c_qid r). rewrite Ho. auto.
  - intros b Hb. rewrite Hoth2; auto. unfold out_q. rewrite Hoth; auto.
Qed.

Theorem qsweep_out : forall cap timeout s now, cm_inv (clients s) ->
  let '(s', o) := qstep cap timeout s (QSweep now) in
  cm_inv (clients s') /\ forall b, out_q (clients s') b = out_q (clients s) b \/
     (out_q (clients s') b = [] /\ exists r, rec_of (clients s) b = Some r /\ expired now timeout r = true).
Proof.
  intros cap timeout s now Hinv. simpl.
  pose proof (remove_expired_aux_spec (length (byAge (clients s))) now timeout (clients s) Hinv (Nat.le_refl _))
    as (I1 & I2 & I3 & I4 & I5 & I6 & I7).
  fold (remove_expired now timeout (clients s)) in *.
  set (c' := remove_expired now timeout (clients s)) in *.
  split; auto. intro b.
  destruct (rec_of c' b) as [r2|] eqn:E2.
  - left. pose proof (rec_of_some _ _ _ E2) as [Hin Ha]. apply I5 in Hin.
    unfold out_q. rewrite E2. subst b. rewrite (rec_of_in _ _ Hinv Hin). auto.
  - destruct (rec_of (clients s) b) as [r|] eqn:E1.
    + pose proof (rec_of_some _ _ _ E1) as [Hin Ha].
      destruct (I4 r Hin) as [Hk|[Hex _]].
      * exfalso. eapply afind_none; [exact E2 | exact Hk | exact Ha].
      * right. unfold out_q. rewrite E2. split; auto. exists r. auto.
    + left. unfold out_q. rewrite E1, E2. auto.
Qed.

(* every step keeps the client map's invariant *)
Lemma qstep_inv : forall cap timeout s o, cm_inv (clients s) ->
  cm_inv (clients (fst (qstep cap timeout s o))).
Proof.
  intros cap timeout s o Hinv. destruct o; simpl.
  - destruct (qclosed s); auto. destruct (length (recvq s) <? cap); auto.
  - destruct (qclosed s); auto. destruct (recvq s) as [|[p a] q]; auto.
  - destruct (qclosed s); auto.
    pose proof (send_queue_inv a now (clients s) Hinv) as H1.
    destruct (send_queue a now (clients s)) as [c1 k]. simpl in H1.
    pose proof (q_send_inv cap k p c1 H1) as H2.
    destruct (q_send cap k p c1) as [c2 ok]. simpl in *. auto.
  - pose proof (send_queue_inv a now (clients s) Hinv) as H1.
    destruct (send_queue a now (clients s)) as [c1 k]. simpl in H1.
    pose proof (q_recv_inv k c1 H1) as H2.
    destruct (q_recv k c1) as [c2 r]. simpl in *. auto.
  - pose proof (q_recv_inv k (clients s) Hinv) as H2.
    destruct (q_recv k (clients s)) as [c2 r]. simpl in *. auto.
  - apply remove_expired_inv; auto.
  - destruct (qclosed s); auto.
Qed.

Lemma qrun_inv : forall cap timeout ops s, cm_inv (clients s) ->
  cm_inv (clients (fst (qrun cap timeout ops s))).
Proof.
  induction ops as [|o ops IH]; intros s Hinv; simpl; auto.
  pose proof (qstep_inv cap timeout s o Hinv) as H1.
  destruct (qstep cap timeout s o) as [s1 r]. simpl in H1.
  specialize (IH s1 H1). destruct (qrun cap timeout ops s1) as [s2 rs]. simpl in *. auto.
Qed.

(* ---------------------------------------------------------------- traces *)

Fixpoint written (a : N) (ops : list qop) (outs : list qout) : list payload :=   (* accepted WriteTo(_, a) *)
  match ops, outs with
  | o :: ops', r :: outs' =>
      match o, r with
      | QWrite p b _, OWrote _ _ true =>
          if N.eqb b a then p :: written a ops' outs' else written a ops' outs'
      | _, _ => written a ops' outs'
      end
  | _, _ => []
  end.

Fixpoint received (a : N) (ops : list qop) (outs : list qout) : list payload :=  (* what OutgoingQueue(a) handed out *)
  match ops, outs with
  | o :: ops', r :: outs' =>
      match o, r with
      | QOutRecv b _, ORecv _ (RcvPkt p) =>
          if N.eqb b a then p :: received a ops' outs' else received a ops' outs'
      | _, _ => received a ops' outs'
      end
  | _, _ => []
  end.

Definition no_expiry (o : qop) : bool := match o with QSweep _ | QHeldRecv _ => false | _ => true end.

Definition w1 (a : N) (o : qop) (r : qout) : list payload :=
  match o, r with
  | QWrite p b _, OWrote _ _ true => if N.eqb b a then [p] else []
  | _, _ => []
  end.

Definition r1 (a : N) (o : qop) (r : qout) : list payload :=
  match o, r with
  | QOutRecv b _, ORecv _ (RcvPkt p) => if N.eqb b a then [p] else []
  | _, _ => []
  end.

Lemma written_cons : forall a o ops r outs,
  written a (o :: ops) (r :: outs) = w1 a o r ++ written a ops outs.
Proof.
  intros a o ops r outs. destruct o; destruct r; try reflexivity.
  simpl. destruct accepted; auto. destruct (N.eqb a0 a); auto.
Qed.

Lemma received_cons : forall a o ops r outs,
  received a (o :: ops) (r :: outs) = r1 a o r ++ received a ops outs.
Proof.
  intros a o ops r outs. destruct o; destruct r; try reflexivity.
  simpl. destruct r; auto. destruct (N.eqb a0 a); auto.
Qed.

Lemma qstep_fifo : forall cap timeout s o a, cm_inv (clients s) -> no_expiry o = true ->
  let '(s1, r) := qstep cap timeout s o in
  out_q (clients s) a ++ w1 a o r = r1 a o r ++ out_q (clients s1) a.
Proof.
  intros cap timeout s o a Hinv Hne. destruct o; try discriminate.
  - simpl. destruct (qclosed s); [|destruct (length (recvq s) <? cap)]; simpl; apply app_nil_r.
  - simpl. destruct (qclosed s); [|destruct (recvq s) as [|[p b] q]]; simpl; apply app_nil_r.
  - destruct (qclosed s) eqn:Hc.
    + unfold qstep. rewrite Hc. simpl. apply app_nil_r.
    + pose proof (qwrite_out cap timeout s p a0 now Hinv Hc) as H.
      destruct (qstep cap timeout s (QWrite p a0 now)) as [s1 r].
      destruct H as (_ & _ & _ & Hq & (k & Ho) & Hoth). subst r. simpl.
      destruct (N.eqb a0 a) eqn:E.
      * apply N.eqb_eq in E. subst a0. rewrite Hq.
        destruct (length (out_q (clients s) a) <? cap); simpl; auto. apply app_nil_r.
      * apply N.eqb_neq in E. rewrite Hoth by auto.
        destruct (length (out_q (clients s) a0) <? cap); simpl; apply app_nil_r.
  - pose proof (qoutrecv_out cap timeout s a0 now Hinv) as H.
    destruct (qstep cap timeout s (QOutRecv a0 now)) as [s1 r].
    destruct H as (_ & _ & _ & (k & Ho) & Hq & Hoth). subst r. simpl.
    destruct (N.eqb a0 a) eqn:E.
    + apply N.eqb_eq in E. subst a0. rewrite Hq.
      destruct (out_q (clients s) a); simpl; rewrite ?app_nil_r; auto.
    + apply N.eqb_neq in E. rewrite Hoth by auto.
      destruct (out_q (clients s) a0); simpl; apply app_nil_r.
  - simpl. destruct (qclosed s); simpl; apply app_nil_r.
Qed.

(* C17: per address, what OutgoingQueue hands out is a prefix of what WriteTo accepted, in
   order; what is still queued is exactly the rest. *)
Theorem outgoing_fifo_per_addr : forall cap timeout ops a s,
  cm_inv (clients s) -> forallb no_expiry ops = true ->
  let '(s', outs) := qrun cap timeout ops s in
  cm_inv (clients s') /\ out_q (clients s) a ++ written a ops outs = received a ops outs ++ out_q (clients s') a.
Proof.
  intros cap timeout ops a. induction ops as [|o ops IH]; intros s Hinv Hne.
  - simpl. split; auto. apply app_nil_r.
  - simpl in Hne. apply andb_prop in Hne. destruct Hne as [Hne1 Hne2].
    change (qrun cap timeout (o :: ops) s) with
      (let '(s1, r) := qstep cap timeout s o in
       let '(s2, rs) := qrun cap timeout ops s1 in (s2, r :: rs)).
    pose proof (qstep_inv cap timeout s o Hinv) as Hinv1.
    pose proof (qstep_fifo cap timeout s o a Hinv Hne1) as Hstep.
    destruct (qstep cap timeout s o) as [s1 r]. simpl in Hinv1.
    specialize (IH s1 Hinv1 Hne2).
    destruct (qrun cap timeout ops s1) as [s2 rs].
    destruct IH as [Hinv2 IH]. split; auto.
    rewrite written_cons, received_cons.
    rewrite app_assoc, Hstep, <- app_assoc, IH, app_assoc. auto.
Qed.

(* from the empty connection: received is a prefix of written *)
Corollary outgoing_fifo_from_empty : forall cap timeout ops a,
  forallb no_expiry ops = true ->
  let '(s', outs) := qrun cap timeout ops qc_empty in
  written a ops outs = received a ops outs ++ out_q (clients s') a.
Proof.
  intros cap timeout ops a Hne.
  pose proof (outgoing_fifo_per_addr cap timeout ops a qc_empty cm_inv_empty Hne) as H.
  destruct (qrun cap timeout ops qc_empty) as [s' outs]. destruct H as [_ H]. exact H.
Qed.

(* ---------------------------------------------------------------- the bound: memory per client *)

Lemma qstep_bound : forall cap timeout s o a, cm_inv (clients s) ->
  length (out_q (clients s) a) <= cap ->
  length (out_q (clients (fst (qstep cap timeout s o))) a) <= cap.
Proof.
  intros cap timeout s o a Hinv Hlen. destruct o.
  - simpl. destruct (qclosed s); auto. destruct (length (recvq s) <? cap); auto.
  - simpl. destruct (qclosed s); auto. destruct (recvq s) as [|[p b] q]; auto.
  - destruct (qclosed s) eqn:Hc.
    + unfold qstep. rewrite Hc. auto.
    + pose proof (qwrite_out cap timeout s p a0 now Hinv Hc) as H.
      destruct (qstep cap timeout s (QWrite p a0 now)) as [s1 r].
      destruct H as (_ & _ & _ & Hq & _ & Hoth). simpl.
      destruct (N.eqb a0 a) eqn:E.
      * apply N.eqb_eq in E. subst a0. rewrite Hq.
        destruct (length (out_q (clients s) a) <? cap) eqn:L; auto.
        apply Nat.ltb_lt in L. rewrite app_length. simpl. lia.
      * apply N.eqb_neq in E. rewrite Hoth by auto. auto.
  - pose proof (qoutrecv_out cap timeout s a0 now Hinv) as H.
    destruct (qstep cap timeout s (QOutRecv a0 now)) as [s1 r].
    destruct H as (_ & _ & _ & _ & Hq & Hoth). simpl.
    destruct (N.eqb a0 a) eqn:E.
    + apply N.eqb_eq in E. subst a0. rewrite Hq.
      destruct (out_q (clients s) a); simpl in *; lia.
    + apply N.eqb_neq in E. rewrite Hoth by auto. auto.
  - simpl. pose proof (q_recv_shrinks k (clients s) a Hinv) as H.
    destruct (q_recv k (clients s)) as [c2 r]. simpl in *. lia.
  - pose proof (qsweep_out cap timeout s now Hinv) as H.
    destruct (qstep cap timeout s (QSweep now)) as [s1 r].
    destruct H as (_ & H). simpl. destruct (H a) as [E|[E _]]; rewrite E; simpl; auto. lia.
  - simpl. destruct (qclosed s); auto.
Qed.

Theorem outgoing_bounded : forall cap timeout ops a s, cm_inv (clients s) ->
  length (out_q (clients s) a) <= cap ->
  length (out_q (clients (fst (qrun cap timeout ops s))) a) <= cap.
Proof.
  intros cap timeout ops a. induction ops as [|o ops IH]; intros s Hinv Hlen; simpl; auto.
  pose proof (qstep_inv cap timeout s o Hinv) as H1.
  pose proof (qstep_bound cap timeout s o a Hinv Hlen) as H2.
  destruct (qstep cap timeout s o) as [s1 r]. simpl in H1, H2.
  specialize (IH s1 H1 H2). destruct (qrun cap timeout ops s1) as [s2 rs]. simpl in *. auto.
Qed.
