(* GoHeapProofs.v — proofs about the executable model of Go's container/heap (Model/GoHeap.v).

   - list facts for [set_nth] / [lswap];
   - unfolding and fuel lemmas for the generic loops [up_aux] / [down_aux];
   - ListHeapProofs: heap order, permutation and length preservation for the list instance
     ([lpush], [lpop], [lremove], [lfix], [linit]);
   - Simulation: a client state related to a list by [R] stays related under up/down/fix. *)
From Coq Require Import List Arith Bool Lia Permutation.
From Snow Require Import Model.GoHeap.
Import ListNotations.

(* ------------------------------------------------------------ arithmetic *)

Definition child (p c : nat) : Prop := c = 2*p+1 \/ c = 2*p+2.

Lemma parent_child : forall j, 0 < j -> child ((j-1)/2) j.
Proof.
  intros j H. unfold child.
  pose proof (Nat.div_mod (j-1) 2).
  pose proof (Nat.mod_upper_bound (j-1) 2). lia.
Qed.

Lemma parent_zero : (0-1)/2 = 0.
Proof. reflexivity. Qed.

Lemma parent_lt : forall j, 0 < j -> (j-1)/2 < j.
Proof. intros j H. pose proof (parent_child j H). unfold child in *. lia. Qed.

Lemma parent_fix : forall j, (j-1)/2 = j -> j = 0.
Proof.
  intros j H. destruct (Nat.eq_dec j 0); auto.
  pose proof (parent_lt j). lia.
Qed.

Lemma parent_le : forall j, (j-1)/2 <= j.
Proof.
  intros j. destruct (Nat.eq_dec j 0) as [->|N]; [rewrite parent_zero; lia|].
  pose proof (parent_lt j). lia.
Qed.

Lemma half_bound : forall n, n <= 2*(n/2)+1.
Proof.
  intros n. pose proof (Nat.div_mod n 2).
  pose proof (Nat.mod_upper_bound n 2). lia.
Qed.

(* ------------------------------------------------------------ generic loops *)

Section GenericLoops.
  Variable St : Type.
  Variable less : St -> nat -> nat -> bool.
  Variable swap : St -> nat -> nat -> St.

  Lemma up_aux_S : forall f s j,
    up_aux St less swap (S f) s j =
    if ((j-1)/2 =? j) || negb (less s j ((j-1)/2)) then s
    else up_aux St less swap f (swap s ((j-1)/2) j) ((j-1)/2).
  Proof. reflexivity. Qed.

  Definition pick (s : St) (i n : nat) : nat :=
    if (2*i+1+1 <? n) && less s (2*i+1+1) (2*i+1) then 2*i+1+1 else 2*i+1.

  Lemma down_aux_S : forall f s i n,
    down_aux St less swap (S f) s i n =
    if n <=? 2*i+1 then (s, i)
    else if negb (less s (pick s i n) i) then (s, i)
         else down_aux St less swap f (swap s i (pick s i n)) (pick s i n) n.
  Proof. reflexivity. Qed.

  Lemma pick_cases : forall s i n, pick s i n = 2*i+1 \/ pick s i n = 2*i+2.
  Proof. intros. unfold pick. destruct (_ && _); lia. Qed.

  Lemma pick_lt : forall s i n, 2*i+1 < n -> pick s i n < n.
  Proof.
    intros s i n H. unfold pick.
    destruct (2*i+1+1 <? n) eqn:E; cbn [andb]; [|lia].
    apply Nat.ltb_lt in E. destruct (less s (2*i+1+1) (2*i+1)); lia.
  Qed.

  Lemma up_aux_fuel : forall f1 f2 s j, j < f1 -> j < f2 ->
    up_aux St less swap f1 s j = up_aux St less swap f2 s j.
  Proof.
    induction f1; intros f2 s j H1 H2; [lia|].
    destruct f2; [lia|].
    rewrite !up_aux_S.
    destruct ((j-1)/2 =? j) eqn:E; cbn [orb negb]; auto.
    destruct (less s j ((j-1)/2)); cbn [orb negb]; auto.
    apply Nat.eqb_neq in E.
    assert (0 < j) by (destruct j; [rewrite parent_zero in E; lia | lia]).
    pose proof (parent_lt j H).
    apply IHf1; lia.
  Qed.

  Lemma down_aux_fuel : forall f1 f2 s i n, n - i <= f1 -> n - i <= f2 ->
    down_aux St less swap f1 s i n = down_aux St less swap f2 s i n.
  Proof.
    induction f1; intros f2 s i n H1 H2.
    - destruct f2; auto. rewrite down_aux_S.
      destruct (n <=? 2*i+1) eqn:E; auto. apply Nat.leb_gt in E. lia.
    - destruct f2.
      + rewrite down_aux_S.
        destruct (n <=? 2*i+1) eqn:E; auto. apply Nat.leb_gt in E. lia.
      + rewrite !down_aux_S.
        destruct (n <=? 2*i+1) eqn:E; auto. apply Nat.leb_gt in E.
        destruct (negb _); auto.
        pose proof (pick_cases s i n).
        apply IHf1; lia.
  Qed.
End GenericLoops.

(* ------------------------------------------------------------ list facts *)

Section ListFacts.
  Variable A : Type.

  Lemma set_nth_length : forall i (x : A) l, length (set_nth i x l) = length l.
  Proof.
    intros i x l. revert i. induction l; intros [|i]; simpl; auto.
  Qed.

  Lemma nth_error_set_nth_eq : forall l i (x : A), i < length l ->
    nth_error (set_nth i x l) i = Some x.
  Proof.
    induction l; intros [|i] x H; simpl in *; try lia; auto.
    apply IHl. lia.
  Qed.

  Lemma nth_error_set_nth_neq : forall l i k (x : A), k <> i ->
    nth_error (set_nth i x l) k = nth_error l k.
  Proof.
    induction l; intros [|i] [|k] x H; simpl; auto; try lia.
  Qed.

  Lemma lswap_length : forall (l : list A) i j, length (lswap l i j) = length l.
  Proof.
    intros. unfold lswap.
    destruct (nth_error l i); auto. destruct (nth_error l j); auto.
    rewrite !set_nth_length. auto.
  Qed.

  Lemma nth_error_lswap_l : forall (l : list A) i j, i < length l -> j < length l ->
    nth_error (lswap l i j) i = nth_error l j.
  Proof.
    intros l i j Hi Hj. unfold lswap.
    destruct (nth_error l i) as [a|] eqn:Ea; [|apply nth_error_None in Ea; lia].
    destruct (nth_error l j) as [b|] eqn:Eb; [|apply nth_error_None in Eb; lia].
    destruct (Nat.eq_dec i j) as [->|N].
    - rewrite nth_error_set_nth_eq by (rewrite set_nth_length; auto). congruence.
    - rewrite nth_error_set_nth_neq by auto.
      rewrite nth_error_set_nth_eq by auto. auto.
  Qed.

  Lemma nth_error_lswap_r : forall (l : list A) i j, i < length l -> j < length l ->
    nth_error (lswap l i j) j = nth_error l i.
  Proof.
    intros l i j Hi Hj. unfold lswap.
    destruct (nth_error l i) as [a|] eqn:Ea; [|apply nth_error_None in Ea; lia].
    destruct (nth_error l j) as [b|] eqn:Eb; [|apply nth_error_None in Eb; lia].
    rewrite nth_error_set_nth_eq by (rewrite set_nth_length; auto). auto.
  Qed.

  Lemma nth_error_lswap_other : forall (l : list A) i j k, k <> i -> k <> j ->
    nth_error (lswap l i j) k = nth_error l k.
  Proof.
    intros l i j k Hi Hj. unfold lswap.
    destruct (nth_error l i) as [a|]; auto.
    destruct (nth_error l j) as [b|]; auto.
    rewrite !nth_error_set_nth_neq by auto. auto.
  Qed.

  Lemma lswap_perm : forall (l : list A) i j, Permutation (lswap l i j) l.
  Proof.
    intros l i j.
    destruct (lt_dec i (length l)) as [Hi|Hi].
    2:{ unfold lswap. assert (E : nth_error l i = None) by (apply nth_error_None; lia).
        rewrite E. apply Permutation_refl. }
    destruct (lt_dec j (length l)) as [Hj|Hj].
    2:{ unfold lswap. assert (E : nth_error l j = None) by (apply nth_error_None; lia).
        rewrite E. destruct (nth_error l i); apply Permutation_refl. }
    apply Permutation_sym. apply Permutation_nth_error. split.
    - rewrite lswap_length. auto.
    - exists (fun k => if k =? i then j else if k =? j then i else k). split.
      + intros x y.
        destruct (x =? i) eqn:E1; destruct (y =? i) eqn:E2;
        destruct (x =? j) eqn:E3; destruct (y =? j) eqn:E4;
        repeat match goal with
               | H : (_ =? _) = true |- _ => apply Nat.eqb_eq in H
               | H : (_ =? _) = false |- _ => apply Nat.eqb_neq in H
               end; lia.
      + intros k.
        destruct (k =? i) eqn:E1.
        * apply Nat.eqb_eq in E1. subst. apply nth_error_lswap_l; auto.
        * apply Nat.eqb_neq in E1. destruct (k =? j) eqn:E2.
          -- apply Nat.eqb_eq in E2. subst. apply nth_error_lswap_r; auto.
          -- apply Nat.eqb_neq in E2. apply nth_error_lswap_other; auto.
  Qed.

  Lemma nth_error_removelast : forall (l : list A) k a,
    nth_error (removelast l) k = Some a -> nth_error l k = Some a /\ S k < length l.
  Proof.
    induction l as [|h t IH]; intros k a H.
    - destruct k; discriminate.
    - destruct t as [|h' t'].
      + destruct k; discriminate.
      + change (removelast (h :: h' :: t')) with (h :: removelast (h' :: t')) in H.
        destruct k as [|k].
        * simpl in *. split; auto. lia.
        * simpl in H. apply IH in H. destruct H as [H1 H2].
          split; auto. simpl in *. lia.
  Qed.

  Lemma removelast_length : forall (l : list A), length (removelast l) = length l - 1.
  Proof.
    induction l as [|h t IH]; auto.
    destruct t as [|h' t']; auto.
    change (removelast (h :: h' :: t')) with (h :: removelast (h' :: t')).
    simpl length in *. rewrite IH. lia.
  Qed.

  Lemma removelast_snoc : forall (l : list A) x,
    nth_error l (length l - 1) = Some x -> l = removelast l ++ [x].
  Proof.
    induction l as [|h t IH]; intros x H.
    - discriminate.
    - destruct t as [|h' t'].
      + simpl in H. inversion H. reflexivity.
      + change (removelast (h :: h' :: t')) with (h :: removelast (h' :: t')).
        simpl app. f_equal. apply IH.
        replace (length (h :: h' :: t') - 1) with (S (length (h' :: t') - 1)) in H
          by (simpl; lia).
        exact H.
  Qed.
End ListFacts.

(* ------------------------------------------------------------ list heap *)

Section ListHeapProofs.
  Variable A : Type.
  Variable lessA : A -> A -> bool.
  Hypothesis less_irrefl : forall a, lessA a a = false.
  Hypothesis less_trans : forall a b c, lessA a b = true -> lessA b c = true -> lessA a c = true.
  Hypothesis less_negtrans : forall a b c, lessA a b = false -> lessA b c = false -> lessA a c = false.

  Definition heap_ok (l : list A) : Prop :=
    forall p c a b, (c = 2*p+1 \/ c = 2*p+2) ->
      nth_error l p = Some a -> nth_error l c = Some b -> lessA b a = false.

  Notation upa := (up_aux (list A) (lless lessA) lswap).
  Notation dna := (down_aux (list A) (lless lessA) lswap).
  Notation lpick := (pick (list A) (lless lessA)).

  Lemma less_asym : forall a b, lessA a b = true -> lessA b a = false.
  Proof.
    intros a b H. destruct (lessA b a) eqn:E; auto.
    pose proof (less_trans _ _ _ H E) as T.
    pose proof (less_irrefl a). congruence.
  Qed.

  Lemma lless_some : forall (l : list A) i j a b,
    nth_error l i = Some a -> nth_error l j = Some b -> lless lessA l i j = lessA a b.
  Proof. intros l i j a b Hi Hj. unfold lless. rewrite Hi, Hj. auto. Qed.

  Lemma nth_error_some_lt : forall (l : list A) k, k < length l -> exists a, nth_error l k = Some a.
  Proof.
    intros l k H. destruct (nth_error l k) eqn:E; eauto.
    apply nth_error_None in E. lia.
  Qed.

  (* ---- lengths *)

  Lemma up_aux_length : forall f l j, length (upa f l j) = length l.
  Proof.
    induction f; intros l j; auto.
    rewrite up_aux_S. destruct (_ || _); auto.
    rewrite IHf, lswap_length. auto.
  Qed.

  Lemma down_aux_length : forall f l i n, length (fst (dna f l i n)) = length l.
  Proof.
    induction f; intros l i n; auto.
    rewrite down_aux_S. destruct (n <=? 2*i+1); auto.
    destruct (negb _); auto.
    rewrite IHf, lswap_length. auto.
  Qed.

  Lemma lup_length : forall l j, length (lup lessA l j) = length l.
  Proof. intros. unfold lup, up. apply up_aux_length. Qed.

  Lemma ldown_length : forall l i n, length (fst (ldown lessA l i n)) = length l.
  Proof. intros. unfold ldown, down. apply down_aux_length. Qed.

  Lemma lfix_length : forall l i, length (lfix lessA l i) = length l.
  Proof.
    intros l i. unfold lfix, heap_fix.
    pose proof (ldown_length l i (length l)) as H. unfold ldown in H.
    destruct (down (list A) (lless lessA) lswap l i (length l)) as [l1 i1].
    simpl in H. destruct (i <? i1); auto.
    fold (lup lessA l1 i). rewrite lup_length. auto.
  Qed.

  (* ---- permutations *)

  Lemma up_aux_perm : forall f l j, Permutation (upa f l j) l.
  Proof.
    induction f; intros l j; [apply Permutation_refl|].
    rewrite up_aux_S. destruct (_ || _); [apply Permutation_refl|].
    eapply Permutation_trans; [apply IHf|apply lswap_perm].
  Qed.

  Lemma down_aux_perm : forall f l i n, Permutation (fst (dna f l i n)) l.
  Proof.
    induction f; intros l i n; [apply Permutation_refl|].
    rewrite down_aux_S. destruct (n <=? 2*i+1); [apply Permutation_refl|].
    destruct (negb _); [apply Permutation_refl|].
    eapply Permutation_trans; [apply IHf|apply lswap_perm].
  Qed.

  Lemma lup_perm : forall l j, Permutation (lup lessA l j) l.
  Proof. intros. unfold lup, up. apply up_aux_perm. Qed.

  Lemma ldown_perm : forall l i n, Permutation (fst (ldown lessA l i n)) l.
  Proof. intros. unfold ldown, down. apply down_aux_perm. Qed.

  Lemma lfix_perm : forall l i, Permutation (lfix lessA l i) l.
  Proof.
    intros l i. unfold lfix, heap_fix.
    pose proof (ldown_perm l i (length l)) as H. unfold ldown in H.
    destruct (down (list A) (lless lessA) lswap l i (length l)) as [l1 i1].
    simpl in H. destruct (i <? i1); auto.
    eapply Permutation_trans; [|exact H].
    apply (lup_perm l1 i).
  Qed.

  (* ---- fuel *)

  Lemma up_fuel_enough : forall f l j, j < f -> upa f l j = upa (S j) l j.
  Proof. intros. apply up_aux_fuel; lia. Qed.

  Lemma down_fuel_enough : forall f l i n, n - i <= f -> dna f l i n = dna (n - i) l i n.
  Proof. intros. apply down_aux_fuel; lia. Qed.

  (* ---- positions *)

  Lemma down_aux_ge : forall f l i n, i <= snd (dna f l i n).
  Proof.
    induction f; intros l i n; [simpl; lia|].
    rewrite down_aux_S. destruct (n <=? 2*i+1); [simpl; lia|].
    destruct (negb _); [simpl; lia|].
    pose proof (IHf (lswap l i (lpick l i n)) (lpick l i n) n).
    pose proof (pick_cases _ (lless lessA) l i n). lia.
  Qed.

  Lemma down_aux_nth_ge : forall f l i n k, n <= k ->
    nth_error (fst (dna f l i n)) k = nth_error l k.
  Proof.
    induction f; intros l i n k Hk; auto.
    rewrite down_aux_S. destruct (n <=? 2*i+1) eqn:E; auto.
    destruct (negb _); auto.
    apply Nat.leb_gt in E.
    pose proof (pick_lt _ (lless lessA) l i n E).
    rewrite IHf by auto.
    apply nth_error_lswap_other; lia.
  Qed.

  Lemma up_aux_nth_gt : forall f l j k, j < k ->
    nth_error (upa f l j) k = nth_error l k.
  Proof.
    induction f; intros l j k Hk; auto.
    rewrite up_aux_S. destruct (_ || _); auto.
    pose proof (parent_le j).
    rewrite IHf by lia.
    apply nth_error_lswap_other; lia.
  Qed.

  (* ---- heap-order predicates *)

  Definition ok_edge (l : list A) (p c : nat) : Prop :=
    forall a b, nth_error l p = Some a -> nth_error l c = Some b -> lessA b a = false.
  (* heap order on the prefix of length n, for edges whose parent is >= k *)
  Definition heap_pre (l : list A) (n k : nat) : Prop :=
    forall p c, child p c -> c < n -> k <= p -> ok_edge l p c.
  Definition hole (l : list A) (n k i : nat) : Prop :=
    (forall p c, child p c -> c < n -> k <= p -> c <> i -> p <> i -> ok_edge l p c) /\
    (forall p c, child p i -> child i c -> c < n -> k <= p -> ok_edge l p c).
  Definition up_ok (l : list A) (k i : nat) : Prop :=
    forall p, child p i -> k <= p -> ok_edge l p i.
  Definition dn_ok (l : list A) (n i : nat) : Prop :=
    forall c, child i c -> c < n -> ok_edge l i c.

  Lemma hole_heap : forall l n k i,
    hole l n k i -> up_ok l k i -> dn_ok l n i -> heap_pre l n k.
  Proof.
    intros l n k i [H1 H2] Hu Hd p c Hpc Hcn Hk.
    destruct (Nat.eq_dec c i) as [->|Hci]; [apply Hu; auto|].
    destruct (Nat.eq_dec p i) as [->|Hpi]; [apply Hd; auto|].
    apply H1; auto.
  Qed.

  Lemma heap_ok_pre : forall l n, heap_ok l -> heap_pre l n 0.
  Proof. intros l n H p c Hpc _ _ a b Ha Hb. exact (H p c a b Hpc Ha Hb). Qed.

  Lemma pre_heap_ok : forall l n, n = length l -> heap_pre l n 0 -> heap_ok l.
  Proof.
    intros l n Hn H p c a b Hpc Ha Hb.
    apply (H p c Hpc); auto; try lia.
    subst n. apply nth_error_Some. congruence.
  Qed.

  Lemma heap_removelast : forall l, heap_pre l (length l - 1) 0 -> heap_ok (removelast l).
  Proof.
    intros l H p c a b Hpc Ha Hb.
    apply nth_error_removelast in Ha. apply nth_error_removelast in Hb.
    destruct Ha as [Ha _]. destruct Hb as [Hb Hc].
    apply (H p c Hpc); auto; lia.
  Qed.

  Lemma hole_of_heap : forall l0 l n i, heap_ok l0 ->
    (forall m, m < n -> m <> i -> nth_error l m = nth_error l0 m) ->
    (i < length l0 \/ n <= 2*i+1) -> hole l n 0 i.
  Proof.
    intros l0 l n i H0 Hsame Hi. split.
    - intros p c Hpc Hcn _ Hci Hpi a b Ha Hb.
      rewrite Hsame in Ha by (unfold child in *; lia).
      rewrite Hsame in Hb by auto.
      exact (H0 p c a b Hpc Ha Hb).
    - intros p c Hpi Hic Hcn _ a b Ha Hb.
      destruct Hi as [Hi|Hi]; [|unfold child in *; lia].
      destruct (nth_error_some_lt l0 i Hi) as [z Hz].
      rewrite Hsame in Ha by (unfold child in *; lia).
      rewrite Hsame in Hb by (unfold child in *; lia).
      apply (less_negtrans b z a).
      + exact (H0 i c z b Hic Hz Hb).
      + exact (H0 p i a z Hpi Ha Hz).
  Qed.

  (* ---- one step of up / down, stated on the effect of the swap *)

  Lemma up_step : forall l l' n i j a b,
    child i j -> j < n ->
    nth_error l i = Some a -> nth_error l j = Some b -> lessA b a = true ->
    nth_error l' i = Some b -> nth_error l' j = Some a ->
    (forall m, m <> i -> m <> j -> nth_error l' m = nth_error l m) ->
    hole l n 0 j -> hole l' n 0 i /\ dn_ok l' n i.
  Proof.
    intros l l' n i j a b Hch Hjn Ha Hb Hlt Hi' Hj' Ho [H1 H2].
    split; [split|].
    - intros p c Hpc Hcn Hk Hci Hpi x y Hx Hy.
      destruct (Nat.eq_dec p j) as [->|Hpj].
      + rewrite Hj' in Hx. inversion Hx; subst x.
        rewrite Ho in Hy by (unfold child in *; lia).
        exact (H2 i c Hch Hpc Hcn (Nat.le_0_l _) a y Ha Hy).
      + assert (c <> j) by (unfold child in *; lia).
        rewrite Ho in Hx by auto. rewrite Ho in Hy by auto.
        exact (H1 p c Hpc Hcn Hk H Hpj x y Hx Hy).
    - intros p c Hpi Hic Hcn Hk x y Hx Hy.
      rewrite Ho in Hx by (unfold child in *; lia).
      assert (Hax : lessA a x = false).
      { apply (H1 p i Hpi); auto; unfold child in *; lia. }
      destruct (Nat.eq_dec c j) as [->|Hcj].
      + rewrite Hj' in Hy. inversion Hy; subst y. exact Hax.
      + rewrite Ho in Hy by (unfold child in *; lia).
        assert (Hya : lessA y a = false).
        { apply (H1 i c Hic Hcn); auto; unfold child in *; lia. }
        exact (less_negtrans y a x Hya Hax).
    - intros c Hic Hcn x y Hx Hy.
      rewrite Hi' in Hx. inversion Hx; subst x.
      destruct (Nat.eq_dec c j) as [->|Hcj].
      + rewrite Hj' in Hy. inversion Hy; subst y. apply less_asym; auto.
      + rewrite Ho in Hy by (unfold child in *; lia).
        assert (Hya : lessA y a = false).
        { apply (H1 i c Hic Hcn); auto; unfold child in *; lia. }
        destruct (lessA y b) eqn:E; auto.
        pose proof (less_trans _ _ _ E Hlt). congruence.
  Qed.

  Lemma down_step : forall l l' n k i j a b,
    child i j -> j < n -> k <= i ->
    nth_error l i = Some a -> nth_error l j = Some b -> lessA b a = true ->
    nth_error l' i = Some b -> nth_error l' j = Some a ->
    (forall m, m <> i -> m <> j -> nth_error l' m = nth_error l m) ->
    (forall s x, child i s -> s <> j -> s < n -> nth_error l s = Some x -> lessA x b = false) ->
    hole l n k i -> hole l' n k j /\ up_ok l' k j.
  Proof.
    intros l l' n k i j a b Hch Hjn Hki Ha Hb Hlt Hi' Hj' Ho Hsib [H1 H2].
    split; [split|].
    - intros p c Hpc Hcn Hkp Hcj Hpj x y Hx Hy.
      destruct (Nat.eq_dec c i) as [->|Hci].
      + rewrite Hi' in Hy. inversion Hy; subst y.
        rewrite Ho in Hx by (unfold child in *; lia).
        exact (H2 p j Hpc Hch Hjn Hkp x b Hx Hb).
      + destruct (Nat.eq_dec p i) as [->|Hpi].
        * rewrite Hi' in Hx. inversion Hx; subst x.
          rewrite Ho in Hy by auto.
          exact (Hsib c y Hpc Hcj Hcn Hy).
        * rewrite Ho in Hx by auto. rewrite Ho in Hy by auto.
          exact (H1 p c Hpc Hcn Hkp Hci Hpi x y Hx Hy).
    - intros p c Hpj Hjc Hcn Hkp x y Hx Hy.
      assert (p = i) by (unfold child in *; lia). subst p.
      rewrite Hi' in Hx. inversion Hx; subst x.
      rewrite Ho in Hy by (unfold child in *; lia).
      apply (H1 j c Hjc Hcn); auto; unfold child in *; lia.
    - intros p Hpj Hkp x y Hx Hy.
      assert (p = i) by (unfold child in *; lia). subst p.
      rewrite Hi' in Hx. rewrite Hj' in Hy.
      inversion Hx; inversion Hy; subst. apply less_asym; auto.
  Qed.

  Lemma pick_sibling : forall l i n j s x b,
    2*i+1 < n -> lpick l i n = j -> child i s -> s <> j -> s < n ->
    nth_error l s = Some x -> nth_error l j = Some b -> lessA x b = false.
  Proof.
    intros l i n j s x b Hn Hj Hs Hsj Hsn Hx Hb.
    unfold pick in Hj.
    destruct (2*i+1+1 <? n) eqn:E2; cbn [andb] in Hj.
    - destruct (lless lessA l (2*i+1+1) (2*i+1)) eqn:E3.
      + subst j. assert (s = 2*i+1) by (unfold child in *; lia). subst s.
        rewrite (lless_some _ _ _ _ _ Hb Hx) in E3. apply less_asym; auto.
      + subst j. assert (s = 2*i+1+1) by (unfold child in *; lia). subst s.
        rewrite (lless_some _ _ _ _ _ Hx Hb) in E3. auto.
    - apply Nat.ltb_ge in E2. subst j. unfold child in *; lia.
  Qed.

  (* ---- the loops *)

  Lemma up_aux_heap : forall f l j n,
    j < f -> j < n -> n <= length l ->
    hole l n 0 j -> dn_ok l n j -> heap_pre (upa f l j) n 0.
  Proof.
    induction f; intros l j n Hf Hjn Hn Hh Hd; [lia|].
    rewrite up_aux_S.
    destruct (Nat.eq_dec j 0) as [->|Hj0].
    - rewrite parent_zero. rewrite Nat.eqb_refl. cbn [orb].
      apply (hole_heap l n 0 0); auto.
      intros p Hp. unfold child in Hp. lia.
    - assert (Hj : 0 < j) by lia.
      pose proof (parent_child j Hj) as Hch.
      pose proof (parent_lt j Hj) as Hlt.
      set (i := (j-1)/2) in *.
      destruct (i =? j) eqn:E; [apply Nat.eqb_eq in E; lia|]. cbn [orb].
      destruct (nth_error_some_lt l i) as [a Ha]; [lia|].
      destruct (nth_error_some_lt l j) as [b Hb]; [lia|].
      rewrite (lless_some _ _ _ _ _ Hb Ha).
      destruct (lessA b a) eqn:Hba; cbn [negb].
      + destruct (up_step l (lswap l i j) n i j a b) as [Hh' Hd']; auto.
        * rewrite nth_error_lswap_l by lia. auto.
        * rewrite nth_error_lswap_r by lia. auto.
        * intros m Hmi Hmj. apply nth_error_lswap_other; auto.
        * apply IHf; auto; try lia. rewrite lswap_length. lia.
      + apply (hole_heap l n 0 j); auto.
        intros p Hp _ x y Hx Hy.
        assert (p = i) by (unfold child in *; lia). subst p.
        congruence.
  Qed.

  Lemma down_aux_hole : forall f l i n k,
    n <= length l -> n - i <= f -> k <= i -> hole l n k i ->
    hole (fst (dna f l i n)) n k (snd (dna f l i n)) /\
    dn_ok (fst (dna f l i n)) n (snd (dna f l i n)) /\
    (up_ok l k i \/ i < snd (dna f l i n) -> up_ok (fst (dna f l i n)) k (snd (dna f l i n))) /\
    (snd (dna f l i n) = i -> fst (dna f l i n) = l).
  Proof.
    assert (Stop : forall l i n k, hole l n k i -> dn_ok l n i ->
      hole (fst (l, i)) n k (snd (l, i)) /\ dn_ok (fst (l, i)) n (snd (l, i)) /\
      (up_ok l k i \/ i < snd (l, i) -> up_ok (fst (l, i)) k (snd (l, i))) /\
      (snd (l, i) = i -> fst (l, i) = l)).
    { intros l i n k Hh Hd. cbn [fst snd]. repeat split; auto.
      - apply Hh.
      - apply Hh.
      - intros [H|H]; [auto|lia]. }
    induction f; intros l i n k Hn Hf Hk Hh.
    - change (dna 0 l i n) with (l, i). apply Stop; auto.
      intros c Hc Hcn. unfold child in Hc. lia.
    - rewrite down_aux_S.
      destruct (n <=? 2*i+1) eqn:E.
      + apply Nat.leb_le in E. apply Stop; auto.
        intros c Hc Hcn. unfold child in Hc. lia.
      + apply Nat.leb_gt in E.
        pose proof (pick_lt _ (lless lessA) l i n E) as Hjn.
        pose proof (pick_cases _ (lless lessA) l i n) as Hjc.
        remember (lpick l i n) as j eqn:Ej. symmetry in Ej.
        assert (Hch : child i j) by (unfold child; lia).
        destruct (nth_error_some_lt l i) as [a Ha]; [lia|].
        destruct (nth_error_some_lt l j) as [b Hb]; [lia|].
        rewrite (lless_some _ _ _ _ _ Hb Ha).
        destruct (lessA b a) eqn:Hba; cbn [negb].
        * destruct (down_step l (lswap l i j) n k i j a b) as [Hh' Hu']; auto.
          -- rewrite nth_error_lswap_l by lia. auto.
          -- rewrite nth_error_lswap_r by lia. auto.
          -- intros m Hmi Hmj. apply nth_error_lswap_other; auto.
          -- intros s x Hs Hsj Hsn Hx.
             exact (pick_sibling l i n j s x b E Ej Hs Hsj Hsn Hx Hb).
          -- destruct (IHf (lswap l i j) j n k) as (R1 & R2 & R3 & R4); auto.
             ++ rewrite lswap_length. auto.
             ++ unfold child in Hch. lia.
             ++ unfold child in Hch. lia.
             ++ pose proof (down_aux_ge f (lswap l i j) j n) as Hge.
                repeat split; auto.
                ** apply R1.
                ** apply R1.
                ** intros Hs. unfold child in Hch. lia.
        * apply Stop; auto.
          intros c Hc Hcn x y Hx Hy.
          rewrite Ha in Hx. inversion Hx; subst x.
          destruct (Nat.eq_dec c j) as [->|Hcj]; [congruence|].
          pose proof (pick_sibling l i n j c y b E Ej Hc Hcj Hcn Hy Hb) as Hyb.
          exact (less_negtrans y b a Hyb Hba).
  Qed.

  (* ---- root is a minimum *)

  Lemma heap_ok_root_min : forall l m, heap_ok l -> nth_error l 0 = Some m ->
    forall y, In y l -> lessA y m = false.
  Proof.
    intros l m H Hm.
    assert (Hk : forall k y, nth_error l k = Some y -> lessA y m = false).
    { induction k as [k IH] using lt_wf_ind. intros y Hy.
      destruct (Nat.eq_dec k 0) as [->|Hk0].
      - rewrite Hm in Hy. inversion Hy; subst. apply less_irrefl.
      - assert (Hk : 0 < k) by lia.
        pose proof (parent_child k Hk) as Hch.
        pose proof (parent_lt k Hk) as Hlt.
        set (p := (k-1)/2) in *.
        assert (Hkl : k < length l) by (apply nth_error_Some; congruence).
        destruct (nth_error_some_lt l p) as [z Hz]; [lia|].
        apply (less_negtrans y z m).
        + exact (H p k z y Hch Hz Hy).
        + exact (IH p Hlt z Hz). }
    intros y Hy. apply In_nth_error in Hy. destruct Hy as [k Hy]. eauto.
  Qed.

  (* ---- Push *)

  Lemma lpush_eq : forall l x, lpush lessA x l = upa (S (length l)) (l ++ [x]) (length l).
  Proof.
    intros l x. unfold lpush, heap_push, lpush_method, up.
    rewrite app_length. simpl length.
    replace (length l + 1 - 1) with (length l) by lia. reflexivity.
  Qed.

  Theorem lpush_heap_ok : forall l x, heap_ok l -> heap_ok (lpush lessA x l).
  Proof.
    intros l x H. rewrite lpush_eq.
    apply (pre_heap_ok _ (length l + 1)).
    - rewrite up_aux_length, app_length. simpl. lia.
    - apply up_aux_heap; try lia.
      + rewrite app_length. simpl. lia.
      + apply (hole_of_heap l); auto.
        * intros m Hm Hml. apply nth_error_app1. lia.
        * right. lia.
      + intros c Hc Hcn. unfold child in Hc. lia.
  Qed.

  Theorem lpush_perm : forall l x, Permutation (lpush lessA x l) (x :: l).
  Proof.
    intros l x. rewrite lpush_eq.
    eapply Permutation_trans; [apply up_aux_perm|].
    apply Permutation_sym. apply Permutation_cons_append.
  Qed.

  (* ---- Pop *)

  Lemma lpop_eq : forall l,
    lpop lessA l =
    lpop_method (fst (dna (length l - 1) (lswap l 0 (length l - 1)) 0 (length l - 1))).
  Proof. reflexivity. Qed.

  Lemma pop_method_spec : forall l x, nth_error l (length l - 1) = Some x ->
    heap_pre l (length l - 1) 0 ->
    lpop_method l = (removelast l, Some x) /\ heap_ok (removelast l) /\
    Permutation l (x :: removelast l).
  Proof.
    intros l x Hx Hp. unfold lpop_method. rewrite Hx. split; [auto|]. split.
    - apply heap_removelast; auto.
    - pose proof (removelast_snoc A l x Hx) as E.
      rewrite E at 1. apply Permutation_sym. apply Permutation_cons_append.
  Qed.

  Theorem lpop_spec : forall l m, heap_ok l -> nth_error l 0 = Some m ->
    exists l', lpop lessA l = (l', Some m) /\ heap_ok l' /\ Permutation l (m :: l') /\
               (forall y, In y l -> lessA y m = false).
  Proof.
    intros l m H Hm.
    assert (Hl : 0 < length l) by (apply nth_error_Some; congruence).
    rewrite lpop_eq.
    set (n := length l - 1).
    set (l1 := lswap l 0 n).
    assert (Hl1 : length l1 = length l) by apply lswap_length.
    assert (Hh : hole l1 n 0 0).
    { apply (hole_of_heap l); auto.
      intros k Hk Hk0. apply nth_error_lswap_other; lia. }
    destruct (down_aux_hole n l1 0 n 0) as (R1 & R2 & R3 & _); auto; try lia.
    pose proof (down_aux_length n l1 0 n) as HL.
    pose proof (down_aux_nth_ge n l1 0 n n (le_n _)) as Hn.
    pose proof (down_aux_perm n l1 0 n) as HP.
    set (l2 := fst (dna n l1 0 n)) in *.
    assert (Hx : nth_error l2 (length l2 - 1) = Some m).
    { rewrite HL, Hl1. fold n. rewrite Hn. unfold l1.
      rewrite nth_error_lswap_r by lia. auto. }
    assert (Hpre : heap_pre l2 (length l2 - 1) 0).
    { rewrite HL, Hl1. fold n.
      apply (hole_heap l2 n 0 (snd (dna n l1 0 n))); auto.
      apply R3. left. intros p Hp. unfold child in Hp. lia. }
    destruct (pop_method_spec l2 m Hx Hpre) as (E1 & E2 & E3).
    exists (removelast l2). split; [auto|]. split; [auto|]. split.
    - eapply Permutation_trans; [|exact E3].
      apply Permutation_sym. eapply Permutation_trans; [exact HP|].
      apply lswap_perm.
    - apply heap_ok_root_min; auto.
  Qed.

  (* ---- Remove *)

  Theorem lremove_spec : forall l i x, heap_ok l -> nth_error l i = Some x ->
    exists l', lremove lessA l i = (l', Some x) /\ heap_ok l' /\ Permutation l (x :: l').
  Proof.
    intros l i x H Hx.
    assert (Hi : i < length l) by (apply nth_error_Some; congruence).
    unfold lremove, heap_remove.
    set (n := length l - 1).
    destruct (n =? i) eqn:E.
    - apply Nat.eqb_eq in E. exists (removelast l).
      apply pop_method_spec.
      + fold n. rewrite E. auto.
      + apply heap_ok_pre; auto.
    - apply Nat.eqb_neq in E.
      assert (Hin : i < n) by lia.
      set (l1 := lswap l i n).
      assert (Hl1 : length l1 = length l) by apply lswap_length.
      assert (Hh : hole l1 n 0 i).
      { apply (hole_of_heap l); auto.
        intros k Hk Hki. apply nth_error_lswap_other; lia. }
      unfold down.
      destruct (down_aux_hole n l1 i n 0) as (R1 & R2 & R3 & R4); auto; try lia.
      pose proof (down_aux_length n l1 i n) as HL.
      pose proof (down_aux_nth_ge n l1 i n n (le_n _)) as Hn.
      pose proof (down_aux_perm n l1 i n) as HP.
      pose proof (down_aux_ge n l1 i n) as Hge.
      destruct (dna n l1 i n) as [l2 i'] eqn:Ed.
      cbn [fst snd] in *.
      assert (Hl1n : nth_error l1 n = Some x).
      { unfold l1. rewrite nth_error_lswap_r by lia. auto. }
      set (l3 := if i <? i' then l2 else up (list A) (lless lessA) lswap l2 i).
      assert (HL3 : length l3 = length l).
      { unfold l3. destruct (i <? i'); [lia|]. unfold up. rewrite up_aux_length. lia. }
      assert (Hx3 : nth_error l3 (length l3 - 1) = Some x).
      { rewrite HL3. fold n. unfold l3. destruct (i <? i').
        - rewrite Hn. auto.
        - unfold up. rewrite up_aux_nth_gt by lia. rewrite Hn. auto. }
      assert (HP3 : Permutation l3 l).
      { assert (Permutation l2 l).
        { eapply Permutation_trans; [exact HP|]. apply lswap_perm. }
        unfold l3. destruct (i <? i'); auto.
        eapply Permutation_trans; [apply up_aux_perm|]. auto. }
      assert (Hpre : heap_pre l3 (length l3 - 1) 0).
      { rewrite HL3. fold n. unfold l3. destruct (i <? i') eqn:Elt.
        - apply Nat.ltb_lt in Elt. apply (hole_heap l2 n 0 i'); auto.
        - apply Nat.ltb_ge in Elt. assert (i' = i) by lia. subst i'.
          unfold up. apply up_aux_heap; auto; lia. }
      destruct (pop_method_spec l3 x Hx3 Hpre) as (E1 & E2 & E3).
      exists (removelast l3). split; [exact E1|]. split; [auto|].
      eapply Permutation_trans; [|exact E3]. apply Permutation_sym. auto.
  Qed.

  (* ---- Fix *)

  Theorem lfix_spec : forall l i x, heap_ok l -> i < length l ->
    heap_ok (lfix lessA (set_nth i x l) i) /\
    Permutation (lfix lessA (set_nth i x l) i) (set_nth i x l).
  Proof.
    intros l0 i x H Hi. split; [|apply lfix_perm].
    set (l := set_nth i x l0).
    assert (Hl : length l = length l0) by apply set_nth_length.
    apply (pre_heap_ok _ (length l)); [rewrite lfix_length; auto|].
    assert (Hh : hole l (length l) 0 i).
    { apply (hole_of_heap l0); auto.
      intros k Hk Hki. apply nth_error_set_nth_neq; auto. }
    unfold lfix, heap_fix, down.
    set (n := length l) in *.
    destruct (down_aux_hole n l i n 0) as (R1 & R2 & R3 & R4); auto; try lia.
    pose proof (down_aux_length n l i n) as HL.
    pose proof (down_aux_ge n l i n) as Hge.
    destruct (dna n l i n) as [l2 i'] eqn:Ed.
    cbn [fst snd] in *.
    destruct (i <? i') eqn:Elt.
    - apply Nat.ltb_lt in Elt. apply (hole_heap l2 n 0 i'); auto.
    - apply Nat.ltb_ge in Elt. assert (i' = i) by lia. subst i'.
      unfold up. apply up_aux_heap; auto; lia.
  Qed.

  (* ---- Init *)

  Lemma init_aux_spec : forall k l n, n = length l -> heap_pre l n k ->
    heap_pre (init_aux (list A) (lless lessA) lswap k l n) n 0 /\
    Permutation (init_aux (list A) (lless lessA) lswap k l n) l /\
    length (init_aux (list A) (lless lessA) lswap k l n) = length l.
  Proof.
    induction k; intros l n Hn Hp.
    - simpl. split; auto.
    - cbn [init_aux]. unfold down.
      assert (Hh : hole l n k k).
      { split.
        - intros p c Hpc Hcn Hkp _ Hpk. apply Hp; auto. lia.
        - intros p c Hpk _ _ Hkp. unfold child in Hpk. lia. }
      destruct (down_aux_hole n l k n k) as (R1 & R2 & R3 & _); auto; try lia.
      pose proof (down_aux_length n l k n) as HL.
      pose proof (down_aux_perm n l k n) as HP.
      set (l2 := fst (dna n l k n)) in *.
      destruct (IHk l2 n) as (I1 & I2 & I3); [lia| |].
      + apply (hole_heap l2 n k (snd (dna n l k n))); auto.
        apply R3. left. intros p Hpk Hkp. unfold child in Hpk. lia.
      + split; [auto|]. split; [|lia].
        eapply Permutation_trans; eauto.
  Qed.

  Theorem linit_spec : forall l, heap_ok (linit lessA l) /\ Permutation (linit lessA l) l.
  Proof.
    intros l. unfold linit, heap_init.
    destruct (init_aux_spec (length l / 2) l (length l) eq_refl) as (I1 & I2 & I3).
    - intros p c Hpc Hcn Hk. pose proof (half_bound (length l)).
      unfold child in Hpc. lia.
    - split; auto. apply (pre_heap_ok _ (length l)); auto.
  Qed.
End ListHeapProofs.

(* ------------------------------------------------------------ simulation *)

Section Simulation.
  Variable St : Type.
  Variable len : St -> nat.
  Variable less : St -> nat -> nat -> bool.
  Variable swap : St -> nat -> nat -> St.
  Variable A : Type.
  Variable lessA : A -> A -> bool.
  Variable R : St -> list A -> Prop.
  Hypothesis R_len : forall s l, R s l -> len s = length l.
  Hypothesis R_less : forall s l i j, R s l -> i < length l -> j < length l ->
    less s i j = lless lessA l i j.
  Hypothesis R_swap : forall s l i j, R s l -> i < length l -> j < length l ->
    R (swap s i j) (lswap l i j).

  Lemma sim_up_aux : forall f s l j, R s l -> j < length l ->
    R (up_aux St less swap f s j) (up_aux (list A) (lless lessA) lswap f l j).
  Proof.
    induction f; intros s l j HR Hj; [exact HR|].
    rewrite !up_aux_S.
    assert (Hi : (j-1)/2 < length l).
    { destruct (Nat.eq_dec j 0) as [->|N]; [rewrite parent_zero; auto|].
      pose proof (parent_lt j). lia. }
    rewrite (R_less s l j ((j-1)/2) HR Hj Hi).
    destruct (((j-1)/2 =? j) || negb (lless lessA l j ((j-1)/2))); auto.
    apply IHf.
    - apply R_swap; auto.
    - rewrite lswap_length. auto.
  Qed.

  Lemma sim_up : forall s l j, R s l -> j < length l ->
    R (up St less swap s j) (lup lessA l j).
  Proof. intros. unfold lup, up. apply sim_up_aux; auto. Qed.

  Lemma sim_pick : forall s l i n, R s l -> n <= length l -> 2*i+1 < n ->
    pick St less s i n = pick (list A) (lless lessA) l i n.
  Proof.
    intros s l i n HR Hn Hj. unfold pick.
    destruct (2*i+1+1 <? n) eqn:E; cbn [andb]; auto.
    apply Nat.ltb_lt in E.
    rewrite (R_less s l _ _ HR) by lia. auto.
  Qed.

  Lemma sim_down_aux : forall f s l i n, R s l -> n <= length l ->
    R (fst (down_aux St less swap f s i n))
      (fst (down_aux (list A) (lless lessA) lswap f l i n)) /\
    snd (down_aux St less swap f s i n) =
    snd (down_aux (list A) (lless lessA) lswap f l i n).
  Proof.
    induction f; intros s l i n HR Hn; [split; [exact HR|reflexivity]|].
    rewrite !down_aux_S.
    destruct (n <=? 2*i+1) eqn:E; [split; [exact HR|reflexivity]|].
    apply Nat.leb_gt in E.
    rewrite (sim_pick s l i n HR Hn E).
    pose proof (pick_cases (list A) (lless lessA) l i n) as Hp.
    set (j := pick (list A) (lless lessA) l i n) in *.
    assert (Hjn : j < n).
    { destruct Hp as [Hp|Hp]; [lia|].
      unfold j, pick in Hp |- *.
      destruct (2*i+1+1 <? n) eqn:E2; cbn [andb] in *; [apply Nat.ltb_lt in E2|]; lia. }
    rewrite (R_less s l j i HR) by lia.
    destruct (negb (lless lessA l j i)); [split; [exact HR|reflexivity]|].
    apply IHf.
    - apply R_swap; auto; lia.
    - rewrite lswap_length. auto.
  Qed.

  Lemma sim_down : forall s l i n, R s l -> n <= length l ->
    R (fst (down St less swap s i n)) (fst (ldown lessA l i n)) /\
    snd (down St less swap s i n) = snd (ldown lessA l i n).
  Proof. intros. unfold ldown, down. apply sim_down_aux; auto. Qed.

  Lemma sim_fix : forall s l i, R s l -> i < length l ->
    R (heap_fix St len less swap s i) (lfix lessA l i).
  Proof.
    intros s l i HR Hi. unfold lfix, heap_fix.
    rewrite (R_len s l HR).
    destruct (sim_down s l i (length l) HR (le_n _)) as [H1 H2].
    unfold ldown in *.
    destruct (down St less swap s i (length l)) as [s1 i1].
    destruct (down (list A) (lless lessA) lswap l i (length l)) as [l1 i2] eqn:E2.
    simpl in *. subst i2.
    destruct (i <? i1); auto.
    apply sim_up; auto.
    pose proof (ldown_length A lessA l i (length l)) as HL.
    unfold ldown in HL. rewrite E2 in HL. simpl in HL. lia.
  Qed.
End Simulation.
