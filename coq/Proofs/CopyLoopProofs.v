(* CopyLoopProofs.v — the proxy's relay step (Model/CopyLoop.v = proxy/lib/snowflake.go copyLoop + io.Copy) relays each
   direction as an in-order byte prefix, closes each conn exactly once, and is inert after it returned: for ALL read
   and write scripts of the two conns and ALL schedules of the two copiers, copyLoop's own goroutine, the shutdown
   channel and outside closes. Invariant + induction over the schedule. *)
From Coq Require Import List NArith Bool Arith Lia.
From Snow Require Import Lib.Wire Model.CopyLoop.
Import ListNotations.
Open Scope nat_scope.

Global Opaque CL_BUF.
Arguments closedb : simpl never.

Lemma closedb_S c e : closedb (S c) e = true.
Proof. unfold closedb. destruct e; reflexivity. Qed.
Lemma closedb_ext c : closedb c true = true.
Proof. reflexivity. Qed.
Lemma closedb_0 : closedb 0 false = false.
Proof. reflexivity. Qed.

(* ---------- the invariant, one clause at a time ---------- *)

(* direction d: what side (1-d) accepted against what side d handed out *)
Definition relay_ok (d : bool) (st : cl_state) : Prop :=
  let out := s_out (get_side d st) in
  let inn := s_in (get_side (negb d) st) in
  match get_dir d st with
  | AtRead => inn = out
  | AtWrite c _ => inn ++ c = out
  | Exited => exists t, out = inn ++ t
  end.

(* a copier is never parked on a closed conn *)
Definition parked_ok (d : bool) (st : cl_state) : Prop :=
  match get_dir d st with
  | AtRead => closed (get_side d st) = false
  | AtWrite _ _ => closed (get_side (negb d) st) = false
  | Exited => True
  end.

Definition closes_ok (st : cl_state) : Prop :=
  s_closes (side0 st) = (match mn st with Closing2 | Returned => 1 | _ => 0 end) /\
  s_closes (side1 st) = (match mn st with Returned => 1 | _ => 0 end).

Definition cause_ok (st : cl_state) : Prop :=
  mn st <> Waiting -> dir0 st = Exited \/ dir1 st = Exited \/ shut st = true.

Definition ret_ok (st : cl_state) : Prop :=
  match mn st with
  | Returned => at_ret st = Some (length (s_in (side0 st)), length (s_in (side1 st)))
  | _ => at_ret st = None
  end.

Definition script_ok (D : bytes) (x : cl_side) : Prop := s_out x ++ script_data (s_reads x) = D.

(* ---------- projections of updates ---------- *)

Ltac destr_state st :=
  destruct st as [[? ? ? ? ? ?] [? ? ? ? ? ?] ? ? ? ? ?].

Lemma gs_ss_eq s x st : get_side s (set_side s x st) = x.
Proof. destruct s; reflexivity. Qed.
Lemma gs_ss_neq s x st : get_side (negb s) (set_side s x st) = get_side (negb s) st.
Proof. destruct s; reflexivity. Qed.
Lemma gs_ss_neq' s x st : get_side s (set_side (negb s) x st) = get_side s st.
Proof. destruct s; reflexivity. Qed.
Lemma gd_ss d s x st : get_dir d (set_side s x st) = get_dir d st.
Proof. destruct d, s; reflexivity. Qed.
Lemma mn_ss s x st : mn (set_side s x st) = mn st.
Proof. destruct s; reflexivity. Qed.
Lemma shut_ss s x st : shut (set_side s x st) = shut st.
Proof. destruct s; reflexivity. Qed.
Lemma ar_ss s x st : at_ret (set_side s x st) = at_ret st.
Proof. destruct s; reflexivity. Qed.

Lemma gd_sd_eq d x st : get_dir d (set_dir d x st) = x.
Proof. destruct d; reflexivity. Qed.
Lemma gd_sd_neq d x st : get_dir (negb d) (set_dir d x st) = get_dir (negb d) st.
Proof. destruct d; reflexivity. Qed.
Lemma gd_sd_neq' d x st : get_dir d (set_dir (negb d) x st) = get_dir d st.
Proof. destruct d; reflexivity. Qed.
Lemma gs_sd s d x st : get_side s (set_dir d x st) = get_side s st.
Proof. destruct d, s; reflexivity. Qed.
Lemma mn_sd d x st : mn (set_dir d x st) = mn st.
Proof. destruct d; reflexivity. Qed.
Lemma shut_sd d x st : shut (set_dir d x st) = shut st.
Proof. destruct d; reflexivity. Qed.
Lemma ar_sd d x st : at_ret (set_dir d x st) = at_ret st.
Proof. destruct d; reflexivity. Qed.

Lemma gs_sm s m st : get_side s (set_mn m st) = get_side s st.
Proof. destruct s; reflexivity. Qed.
Lemma gd_sm d m st : get_dir d (set_mn m st) = get_dir d st.
Proof. destruct d; reflexivity. Qed.
Lemma gs_ssh s b st : get_side s (set_shut b st) = get_side s st.
Proof. destruct s; reflexivity. Qed.
Lemma gd_ssh d b st : get_dir d (set_shut b st) = get_dir d st.
Proof. destruct d; reflexivity. Qed.
Lemma gs_sar s r st : get_side s (set_at_ret r st) = get_side s st.
Proof. destruct s; reflexivity. Qed.
Lemma gd_sar d r st : get_dir d (set_at_ret r st) = get_dir d st.
Proof. destruct d; reflexivity. Qed.

(* finish *)
Definition woken (m : cl_mstate) : cl_mstate := match m with Waiting => Closing1 | _ => m end.

Lemma gs_fin s d st : get_side s (finish d st) = get_side s st.
Proof. unfold finish. destruct (mn (set_dir d Exited st)); rewrite ?gs_sm, gs_sd; reflexivity. Qed.
Lemma gd_fin_eq d st : get_dir d (finish d st) = Exited.
Proof. unfold finish. destruct (mn (set_dir d Exited st)); rewrite ?gd_sm, gd_sd_eq; reflexivity. Qed.
Lemma gd_fin_neq d st : get_dir (negb d) (finish d st) = get_dir (negb d) st.
Proof. unfold finish. destruct (mn (set_dir d Exited st)); rewrite ?gd_sm, gd_sd_neq; reflexivity. Qed.
Lemma gd_fin_neq' d st : get_dir d (finish (negb d) st) = get_dir d st.
Proof. unfold finish. destruct (mn (set_dir (negb d) Exited st)); rewrite ?gd_sm, gd_sd_neq'; reflexivity. Qed.
Lemma mn_fin d st : mn (finish d st) = woken (mn st).
Proof. unfold finish. rewrite mn_sd. destruct (mn st) eqn:E; cbn; rewrite ?mn_sd, ?E; reflexivity. Qed.
Lemma shut_fin d st : shut (finish d st) = shut st.
Proof. unfold finish. rewrite mn_sd. destruct (mn st); cbn; rewrite shut_sd; reflexivity. Qed.
Lemma ar_fin d st : at_ret (finish d st) = at_ret st.
Proof. unfold finish. rewrite mn_sd. destruct (mn st); cbn; rewrite ar_sd; reflexivity. Qed.

Global Hint Rewrite gs_ss_eq gs_ss_neq gs_ss_neq' gd_ss mn_ss shut_ss ar_ss gd_sd_eq gd_sd_neq gd_sd_neq' gs_sd mn_sd shut_sd
  ar_sd gs_sm gd_sm gs_ssh gd_ssh gs_sar gd_sar gs_fin gd_fin_eq gd_fin_neq gd_fin_neq' mn_fin shut_fin ar_fin
  negb_involutive : cl.

Lemma bool_cases (a b : bool) : a = b \/ a = negb b.
Proof. destruct a, b; auto. Qed.

(* ---------- the invariant ---------- *)

Definition expected_closes (s : bool) (m : cl_mstate) : nat :=
  match m with Returned => 1 | Closing2 => if s then 0 else 1 | _ => 0 end.

Definition ret_ok' (st : cl_state) : Prop :=
  at_ret st = match mn st with
              | Returned => Some (length (s_in (get_side false st)), length (s_in (get_side true st)))
              | _ => None
              end.

Record cl_inv (D : bool -> bytes) (st : cl_state) : Prop := mk_inv {
  i_relay : forall d, relay_ok d st;
  i_parked : forall d, parked_ok d st;
  i_closes : forall s, s_closes (get_side s st) = expected_closes s (mn st);
  i_cause : mn st <> Waiting -> (exists d, get_dir d st = Exited) \/ shut st = true;
  i_ret : ret_ok' st;
  i_script : forall s, script_ok (D s) (get_side s st)
}.

Lemma relay_ok_ext d st st' :
  get_dir d st' = get_dir d st -> s_out (get_side d st') = s_out (get_side d st) ->
  s_in (get_side (negb d) st') = s_in (get_side (negb d) st) -> relay_ok d st -> relay_ok d st'.
Proof. unfold relay_ok. intros -> -> ->. auto. Qed.

Lemma parked_ok_ext d st st' :
  get_dir d st' = get_dir d st -> (forall s, closed (get_side s st') = closed (get_side s st)) ->
  parked_ok d st -> parked_ok d st'.
Proof. unfold parked_ok. intros -> H. rewrite !H. auto. Qed.

Lemma woken_not_returned m : m <> Returned -> woken m <> Returned.
Proof. destruct m; cbn; congruence. Qed.
Lemma woken_not_waiting m : woken m <> Waiting.
Proof. destruct m; cbn; congruence. Qed.
Lemma expected_woken s m : expected_closes s (woken m) = expected_closes s m.
Proof. destruct m; reflexivity. Qed.

(* a copier that is parked is parked on an open conn, so once copyLoop has closed both, both copiers are gone *)
Lemma returned_exited D st : cl_inv D st -> mn st = Returned -> forall d, get_dir d st = Exited.
Proof.
  intros Hi Hm d. pose proof (i_parked D st Hi d) as Hp. unfold parked_ok, closed in Hp.
  destruct (get_dir d st); [| |reflexivity]; rewrite (i_closes D st Hi), Hm in Hp; cbn in Hp; rewrite closedb_S in Hp; discriminate.
Qed.

(* the workhorse: a step of copier d *)
Lemma inv_dir_step D d st st' :
  cl_inv D st -> mn st <> Returned ->
  get_dir (negb d) st' = get_dir (negb d) st ->
  s_in (get_side d st') = s_in (get_side d st) ->
  s_out (get_side (negb d) st') = s_out (get_side (negb d) st) ->
  s_reads (get_side (negb d) st') = s_reads (get_side (negb d) st) ->
  (forall s, s_closes (get_side s st') = s_closes (get_side s st)) ->
  (forall s, s_ext (get_side s st') = s_ext (get_side s st)) ->
  shut st' = shut st -> at_ret st' = at_ret st ->
  (mn st' = mn st /\ (get_dir d st = Exited -> get_dir d st' = Exited)) \/ (mn st' = woken (mn st) /\ get_dir d st' = Exited) ->
  relay_ok d st' -> parked_ok d st' -> script_ok (D d) (get_side d st') ->
  cl_inv D st'.
Proof.
  intros Hi Hnr Hdir Hin Hout Hrd Hcl Hext Hsh Har Hmn Hrel Hpk Hsc.
  assert (Hclosed : forall s, closed (get_side s st') = closed (get_side s st)) by (intros s; unfold closed; rewrite Hcl, Hext; reflexivity).
  constructor.
  - intros d'. destruct (bool_cases d' d) as [->| ->]; [exact Hrel|].
    apply (relay_ok_ext _ st); rewrite ?negb_involutive; auto. apply (i_relay D st Hi).
  - intros d'. destruct (bool_cases d' d) as [->| ->]; [exact Hpk|].
    apply (parked_ok_ext _ st); auto. apply (i_parked D st Hi).
  - intros s. rewrite Hcl, (i_closes D st Hi). destruct Hmn as [[-> _]|[-> _]]; rewrite ?expected_woken; reflexivity.
  - intros Hw. destruct Hmn as [[Hm Hex]|[Hm Hex]].
    + rewrite Hm in Hw. destruct (i_cause D st Hi Hw) as [[d' Hd']|Hs]; [|right; congruence].
      left. exists d'. destruct (bool_cases d' d) as [->| ->]; [auto | congruence].
    + left. exists d. exact Hex.
  - unfold ret_ok'. rewrite Har. pose proof (i_ret D st Hi) as Hr. unfold ret_ok' in Hr.
    assert (Hn : mn st' <> Returned) by (destruct Hmn as [[-> _]|[-> _]]; auto using woken_not_returned).
    destruct (mn st'); try congruence; destruct (mn st); congruence.
  - intros s. destruct (bool_cases s d) as [->| ->]; [exact Hsc|].
    pose proof (i_script D st Hi (negb d)) as H. unfold script_ok in *. rewrite Hout, Hrd. exact H.
Qed.

Lemma read_split it rest :
  let big := Nat.ltb CL_BUF (length (r_data it)) in
  (if big then firstn CL_BUF (r_data it) else r_data it)
    ++ script_data (if big then mk_ritem (skipn CL_BUF (r_data it)) (r_err it) :: rest else rest)
  = script_data (it :: rest).
Proof.
  cbn zeta. destruct (Nat.ltb CL_BUF (length (r_data it))); unfold script_data; cbn [map concat r_data].
  - rewrite app_assoc, firstn_skipn. reflexivity.
  - reflexivity.
Qed.

Lemma closed_side_read x rest c : closed (side_read x rest c) = closed x.
Proof. reflexivity. Qed.
Lemma closed_side_write x a : closed (side_write x a) = closed x.
Proof. reflexivity. Qed.

Ltac frame d :=
  first [ solve [ let s := fresh "s" in intros s; destruct (bool_cases s d) as [->| ->]; autorewrite with cl; cbn; auto ]
        | solve [ intros; autorewrite with cl; cbn; auto ] ].

Lemma do_read_inv D d st : cl_inv D st -> get_dir d st = AtRead -> cl_inv D (do_read d st).
Proof.
  intros Hi Hd.
  assert (Hnr : mn st <> Returned) by (intros Hm; rewrite (returned_exited D st Hi Hm d) in Hd; discriminate).
  pose proof (i_relay D st Hi d) as Hrel. unfold relay_ok in Hrel. rewrite Hd in Hrel.
  pose proof (i_script D st Hi d) as Hsc. unfold script_ok in Hsc.
  unfold do_read. destruct (closed (get_side d st)) eqn:Ecl.
  { (* Read on a closed conn *)
    apply (inv_dir_step D d st _ Hi Hnr); [frame d ..| | |].
    - unfold relay_ok. autorewrite with cl. exists []. rewrite app_nil_r. auto.
    - unfold parked_ok. autorewrite with cl. trivial.
    - autorewrite with cl. apply (i_script D st Hi). }
  destruct (s_reads (get_side d st)) as [|it rest] eqn:Ers; [exact Hi|].
  pose proof (read_split it rest) as Hsplit. cbn zeta in Hsplit.
  set (big := Nat.ltb CL_BUF (length (r_data it))) in *.
  set (chunk := if big then firstn CL_BUF (r_data it) else r_data it) in *.
  set (er := if big then CNone else r_err it).
  set (rest' := if big then mk_ritem (skipn CL_BUF (r_data it)) (r_err it) :: rest else rest) in *.
  assert (Hsc1 : script_ok (D d) (side_read (get_side d st) rest' chunk)).
  { unfold script_ok. cbn [side_read s_out s_reads]. rewrite <- app_assoc, Hsplit. exact Hsc. }
  assert (Hfin : (exists t, s_out (get_side d st) ++ chunk = s_in (get_side (negb d) st) ++ t) ->
                 cl_inv D (finish d (set_side d (side_read (get_side d st) rest' chunk) st))).
  { intros Ht. apply (inv_dir_step D d st _ Hi Hnr); [frame d ..| | |].
    - unfold relay_ok. autorewrite with cl. exact Ht.
    - unfold parked_ok. autorewrite with cl. trivial.
    - autorewrite with cl. exact Hsc1. }
  destruct chunk as [|b chunk'] eqn:Ech.
  - destruct er.
    + unfold to_read. autorewrite with cl. rewrite closed_side_read, Ecl.
      apply (inv_dir_step D d st _ Hi Hnr); [frame d ..| | | |].
      * left. autorewrite with cl. split; [reflexivity | congruence].
      * unfold relay_ok. autorewrite with cl. cbn [side_read s_out]. rewrite app_nil_r. exact Hrel.
      * unfold parked_ok. autorewrite with cl. rewrite closed_side_read. exact Ecl.
      * autorewrite with cl. exact Hsc1.
    + apply Hfin. exists []. rewrite !app_nil_r. auto.
    + apply Hfin. exists []. rewrite !app_nil_r. auto.
  - unfold to_write. autorewrite with cl. destruct (closed (get_side (negb d) st)) eqn:Ecl2.
    + apply Hfin. exists (b :: chunk'). rewrite Hrel. reflexivity.
    + apply (inv_dir_step D d st _ Hi Hnr); [frame d ..| | | |].
      * left. autorewrite with cl. split; [reflexivity | congruence].
      * unfold relay_ok. autorewrite with cl. cbn [side_read s_out]. rewrite Hrel. reflexivity.
      * unfold parked_ok. autorewrite with cl. exact Ecl2.
      * autorewrite with cl. exact Hsc1.
Qed.

Lemma firstn_all_of_not_lt {A} n (c : list A) : Nat.ltb n (length c) = false -> firstn n c = c.
Proof. intros H. apply Nat.ltb_ge in H. apply firstn_all2. exact H. Qed.

Lemma do_write_inv D d c er st : cl_inv D st -> get_dir d st = AtWrite c er -> cl_inv D (do_write d c er st).
Proof.
  intros Hi Hd.
  assert (Hnr : mn st <> Returned) by (intros Hm; rewrite (returned_exited D st Hi Hm d) in Hd; discriminate).
  pose proof (i_relay D st Hi d) as Hrel. unfold relay_ok in Hrel. rewrite Hd in Hrel.
  pose proof (i_script D st Hi d) as Hsc.
  unfold do_write. destruct (closed (get_side (negb d) st)) eqn:Ecl.
  { (* the destination was closed: the chunk is dropped *)
    apply (inv_dir_step D d st _ Hi Hnr); [frame d ..| | |].
    - unfold relay_ok. autorewrite with cl. exists c. auto.
    - unfold parked_ok. autorewrite with cl. trivial.
    - autorewrite with cl. exact Hsc. }
  set (w := match s_writes (get_side (negb d) st) with [] => w_ok | w :: _ => w end).
  set (n := match w_limit w with None => length c | Some l => Nat.min l (length c) end).
  assert (Hfin : cl_inv D (finish d (set_side (negb d) (side_write (get_side (negb d) st) (firstn n c)) st))).
  { apply (inv_dir_step D d st _ Hi Hnr); [frame d ..| | |].
    - unfold relay_ok. autorewrite with cl. cbn [side_write s_in]. exists (skipn n c).
      rewrite <- app_assoc, firstn_skipn. auto.
    - unfold parked_ok. autorewrite with cl. trivial.
    - autorewrite with cl. exact Hsc. }
  destruct (w_err w || Nat.ltb n (length c)) eqn:Ew; [exact Hfin|].
  apply orb_false_iff in Ew. destruct Ew as [_ Hn].
  destruct er; [|exact Hfin|exact Hfin].
  unfold to_read. autorewrite with cl. destruct (closed (get_side d st)) eqn:Ecl2; [exact Hfin|].
  apply (inv_dir_step D d st _ Hi Hnr); [frame d ..| | | |].
  - left. autorewrite with cl. split; [reflexivity | congruence].
  - unfold relay_ok. autorewrite with cl. cbn [side_write s_in]. rewrite (firstn_all_of_not_lt _ _ Hn). exact Hrel.
  - unfold parked_ok. autorewrite with cl. exact Ecl2.
  - autorewrite with cl. exact Hsc.
Qed.

(* ---------- closing a side ---------- *)

Definition wake_read (x : cl_dstate) : cl_dstate := match x with AtRead => Exited | _ => x end.
Definition wake_write (x : cl_dstate) : cl_dstate := match x with AtWrite _ _ => Exited | _ => x end.

Lemma wake_facts s st :
  (forall t, get_side t (wake s st) = get_side t st) /\ shut (wake s st) = shut st /\ at_ret (wake s st) = at_ret st /\
  get_dir s (wake s st) = wake_read (get_dir s st) /\
  get_dir (negb s) (wake s st) = wake_write (get_dir (negb s) st) /\
  (mn (wake s st) = mn st \/ mn (wake s st) = woken (mn st) /\ exists d, get_dir d (wake s st) = Exited).
Proof.
  unfold wake.
  set (st1 := match get_dir s st with AtRead => finish s st | _ => st end).
  assert (H1 : (forall t, get_side t st1 = get_side t st) /\ shut st1 = shut st /\ at_ret st1 = at_ret st /\
               get_dir s st1 = wake_read (get_dir s st) /\ get_dir (negb s) st1 = get_dir (negb s) st /\
               (mn st1 = mn st \/ mn st1 = woken (mn st) /\ get_dir s st1 = Exited)).
  { unfold st1. destruct (get_dir s st) eqn:E; cbn [wake_read]; autorewrite with cl; repeat split; auto; intros; autorewrite with cl; auto. }
  destruct H1 as (Hs & Hsh & Har & Hds & Hdn & Hm).
  destruct (get_dir (negb s) st1) eqn:E.
  - repeat split; auto. + rewrite E, <- Hdn. reflexivity. + destruct Hm as [Hm|[Hm He]]; [auto | right; split; eauto].
  - repeat split; intros; autorewrite with cl; auto.
    + rewrite <- Hdn. reflexivity.
    + destruct Hm as [Hm|[Hm He]].
      * right. split; [congruence|]. exists (negb s). autorewrite with cl. reflexivity.
      * right. split; [rewrite Hm; destruct (mn st); reflexivity|]. exists (negb s). autorewrite with cl. reflexivity.
  - repeat split; auto. + rewrite E, <- Hdn. reflexivity. + destruct Hm as [Hm|[Hm He]]; [auto | right; split; eauto].
Qed.

Lemma relay_ok_exit d st st' :
  relay_ok d st -> s_out (get_side d st') = s_out (get_side d st) ->
  s_in (get_side (negb d) st') = s_in (get_side (negb d) st) ->
  get_dir d st' = get_dir d st \/ get_dir d st' = Exited -> relay_ok d st'.
Proof.
  unfold relay_ok. intros H -> -> [-> | ->]; [exact H|].
  destruct (get_dir d st).
  - exists []. rewrite app_nil_r. auto.
  - exists chunk. auto.
  - exact H.
Qed.

Lemma wake_dir_cases s st d :
  get_dir d (wake s st) = get_dir d st \/ get_dir d (wake s st) = Exited.
Proof.
  destruct (wake_facts s st) as (_ & _ & _ & Hs & Hn & _).
  destruct (bool_cases d s) as [->| ->].
  - rewrite Hs. destruct (get_dir s st); cbn; auto.
  - rewrite Hn. destruct (get_dir (negb s) st); cbn; auto.
Qed.

(* st0 satisfies the invariant; st1 is st0 with side s closed (and copyLoop possibly moved on); then the parked
   operations are woken *)
Lemma inv_wake D s st0 st1 :
  cl_inv D st0 ->
  (forall d, get_dir d st1 = get_dir d st0) ->
  (forall t, s_in (get_side t st1) = s_in (get_side t st0)) ->
  (forall t, s_out (get_side t st1) = s_out (get_side t st0)) ->
  (forall t, s_reads (get_side t st1) = s_reads (get_side t st0)) ->
  closed (get_side s st1) = true ->
  closed (get_side (negb s) st1) = closed (get_side (negb s) st0) ->
  shut st1 = shut st0 ->
  (forall t, s_closes (get_side t st1) = expected_closes t (mn st1)) ->
  (mn st1 <> Waiting -> mn st0 <> Waiting) ->
  ret_ok' st1 ->
  cl_inv D (wake s st1).
Proof.
  intros Hi Hdir Hin Hout Hrd Hcs Hcn Hsh Hcl Hmn Hret.
  destruct (wake_facts s st1) as (Ws & Wsh & War & Wds & Wdn & Wm).
  constructor.
  - intros d. apply (relay_ok_exit d st0); rewrite ?Ws; auto. + apply (i_relay D st0 Hi).
    + rewrite <- Hdir. apply wake_dir_cases.
  - intros d. pose proof (i_parked D st0 Hi d) as Hp. unfold parked_ok in *. rewrite !Ws.
    destruct (bool_cases d s) as [->| ->].
    + rewrite Wds, Hdir. destruct (get_dir s st0); cbn; auto. congruence.
    + rewrite Wdn, Hdir, negb_involutive in *. destruct (get_dir (negb s) st0); cbn; auto. congruence.
  - intros t. rewrite Ws, Hcl. destruct Wm as [->|[-> _]]; rewrite ?expected_woken; reflexivity.
  - intros Hw. destruct Wm as [Wm|[_ He]]; [|left; exact He].
    rewrite Wm in Hw. destruct (i_cause D st0 Hi (Hmn Hw)) as [[d Hd]|Hs].
    + left. exists d. destruct (wake_dir_cases s st1 d) as [H|H]; [rewrite H, Hdir; exact Hd | exact H].
    + right. congruence.
  - unfold ret_ok' in *. rewrite War, !Ws, Hret.
    destruct Wm as [->|[-> _]]; [reflexivity|]. destruct (mn st1); reflexivity.
  - intros t. pose proof (i_script D st0 Hi t) as H. unfold script_ok in *. rewrite Ws, Hout, Hrd. exact H.
Qed.

Lemma do_ext_inv D s st : cl_inv D st -> cl_inv D (do_ext s st).
Proof.
  intros Hi. unfold do_ext. apply (inv_wake D s st _ Hi).
  - intros d. autorewrite with cl. reflexivity.
  - intros t. destruct (bool_cases t s) as [->| ->]; autorewrite with cl; reflexivity.
  - intros t. destruct (bool_cases t s) as [->| ->]; autorewrite with cl; reflexivity.
  - intros t. destruct (bool_cases t s) as [->| ->]; autorewrite with cl; reflexivity.
  - autorewrite with cl. reflexivity.
  - autorewrite with cl. reflexivity.
  - autorewrite with cl. reflexivity.
  - intros t. rewrite mn_ss, <- (i_closes D st Hi). destruct (bool_cases t s) as [->| ->]; autorewrite with cl; reflexivity.
  - rewrite mn_ss. auto.
  - pose proof (i_ret D st Hi) as H. unfold ret_ok' in *. rewrite mn_ss, ar_ss, H.
    replace (s_in (get_side false (set_side s (side_ext (get_side s st)) st))) with (s_in (get_side false st))
      by (destruct s; reflexivity).
    replace (s_in (get_side true (set_side s (side_ext (get_side s st)) st))) with (s_in (get_side true st))
      by (destruct s; reflexivity).
    reflexivity.
Qed.

Lemma do_main_inv D st : cl_inv D st -> cl_inv D (do_main st).
Proof.
  intros Hi. unfold do_main. destruct (mn st) eqn:Em; [exact Hi| | |exact Hi].
  - (* the deferred c1.Close() *)
    pose proof (i_closes D st Hi) as Hc. rewrite Em in Hc.
    pose proof (i_ret D st Hi) as Hr. unfold ret_ok' in Hr. rewrite Em in Hr.
    apply (inv_wake D false st _ Hi).
    + intros []; reflexivity.
    + intros []; reflexivity.
    + intros []; reflexivity.
    + intros []; reflexivity.
    + cbn. apply closedb_S.
    + reflexivity.
    + reflexivity.
    + pose proof (Hc false) as Hc0. pose proof (Hc true) as Hc1. cbn in Hc0, Hc1.
      intros []; cbn; [exact Hc1 | rewrite Hc0; reflexivity].
    + intros _. congruence.
    + unfold ret_ok'. cbn. exact Hr.
  - (* the deferred c2.Close() *)
    pose proof (i_closes D st Hi) as Hc. rewrite Em in Hc.
    apply (inv_wake D true st _ Hi).
    + intros []; reflexivity.
    + intros []; reflexivity.
    + intros []; reflexivity.
    + intros []; reflexivity.
    + cbn. apply closedb_S.
    + reflexivity.
    + reflexivity.
    + pose proof (Hc false) as Hc0. pose proof (Hc true) as Hc1. cbn in Hc0, Hc1.
      intros []; cbn; [rewrite Hc1; reflexivity | exact Hc0].
    + intros _. congruence.
    + reflexivity.
Qed.

Lemma do_shutdown_eq st : do_shutdown st = set_mn (woken (mn st)) (set_shut true st).
Proof. unfold do_shutdown. destruct st as [? ? ? ? m ? ?]. destruct m; reflexivity. Qed.

Lemma do_shutdown_inv D st : cl_inv D st -> cl_inv D (do_shutdown st).
Proof.
  intros Hi. rewrite do_shutdown_eq. constructor.
  - intros d. apply (relay_ok_ext d st); [destruct d; reflexivity ..|]. apply (i_relay D st Hi).
  - intros d. apply (parked_ok_ext d st); [destruct d; reflexivity | intros []; reflexivity |]. apply (i_parked D st Hi).
  - intros t. replace (get_side t (set_mn (woken (mn st)) (set_shut true st))) with (get_side t st) by (destruct t; reflexivity).
    cbn [mn set_mn]. rewrite expected_woken. apply (i_closes D st Hi).
  - intros _. right. reflexivity.
  - pose proof (i_ret D st Hi) as H. unfold ret_ok' in *. cbn. rewrite H. destruct (mn st); reflexivity.
  - intros []; apply (i_script D st Hi).
Qed.

(* ---------- every step, every schedule ---------- *)

Theorem step_inv D st x : cl_inv D st -> cl_inv D (cl_do st x).
Proof.
  intros Hi. destruct x as [d| | |s]; cbn [cl_do].
  - destruct (get_dir d st) eqn:Ed.
    + apply do_read_inv; assumption.
    + apply do_write_inv; assumption.
    + exact Hi.
  - apply do_main_inv; assumption.
  - apply do_shutdown_inv; assumption.
  - apply do_ext_inv; assumption.
Qed.

Lemma run_inv D sched : forall st, cl_inv D st -> cl_inv D (cl_run sched st).
Proof. induction sched as [|x l IH]; intros st Hi; [exact Hi|]. apply IH, step_inv, Hi. Qed.

Definition script_of (r0 r1 : list cl_ritem) (s : bool) : bytes := script_data (if s then r1 else r0).

Lemma init_inv r0 w0 r1 w1 : cl_inv (script_of r0 r1) (cl_init r0 w0 r1 w1).
Proof.
  constructor.
  - intros []; reflexivity.
  - intros []; reflexivity.
  - intros []; reflexivity.
  - intros H. exfalso. apply H. reflexivity.
  - reflexivity.
  - intros []; reflexivity.
Qed.

Lemma reach_inv r0 w0 r1 w1 sched : cl_inv (script_of r0 r1) (cl_run sched (cl_init r0 w0 r1 w1)).
Proof. apply run_inv, init_inv. Qed.

(* ---------- (a) each direction is an in-order byte relay ---------- *)

Section Reach.
  Variables (r0 r1 : list cl_ritem) (w0 w1 : list cl_witem) (sched : list cl_step).
  Let st := cl_run sched (cl_init r0 w0 r1 w1).

  Lemma prefix_firstn {A} (a t : list A) : a = firstn (length a) (a ++ t).
  Proof. rewrite firstn_app, Nat.sub_diag, firstn_all. cbn. rewrite app_nil_r. reflexivity. Qed.

  (* what side (1-d) accepted is a prefix of what side d handed out: nothing inserted, nothing reordered, nothing
     skipped in the middle *)
  Theorem relay_prefix : forall d, exists n, s_in (get_side (negb d) st) = firstn n (s_out (get_side d st)).
  Proof.
    intros d. pose proof (i_relay _ _ (reach_inv r0 w0 r1 w1 sched) d) as H. fold st in H. unfold relay_ok in H.
    destruct (get_dir d st).
    - exists (length (s_out (get_side d st))). rewrite firstn_all. exact H.
    - exists (length (s_in (get_side (negb d) st))). rewrite <- H. apply prefix_firstn.
    - destruct H as [t H]. exists (length (s_in (get_side (negb d) st))). rewrite H. apply prefix_firstn.
  Qed.

  (* a copier parked at a Read has delivered everything it read; parked at a Write, everything but the chunk it holds *)
  Theorem relay_exact_at_read : forall d, get_dir d st = AtRead -> s_in (get_side (negb d) st) = s_out (get_side d st).
  Proof.
    intros d Hd. pose proof (i_relay _ _ (reach_inv r0 w0 r1 w1 sched) d) as H. fold st in H. unfold relay_ok in H.
    rewrite Hd in H. exact H.
  Qed.

  Theorem relay_at_write : forall d c er, get_dir d st = AtWrite c er ->
    s_in (get_side (negb d) st) ++ c = s_out (get_side d st).
  Proof.
    intros d c er Hd. pose proof (i_relay _ _ (reach_inv r0 w0 r1 w1 sched) d) as H. fold st in H. unfold relay_ok in H.
    rewrite Hd in H. exact H.
  Qed.

  (* what a side has handed out, followed by what its script still holds, is the script's data *)
  Theorem consumed_prefix : forall s,
    s_out (get_side s st) ++ script_data (s_reads (get_side s st)) = script_data (if s then r1 else r0).
  Proof. intros s. exact (i_script _ _ (reach_inv r0 w0 r1 w1 sched) s). Qed.

  (* usable by C01: if all a side will ever hand out is a prefix of str, what the other side accepts is a prefix of str *)
  Theorem relay_prefix_of : forall (d : bool) (str : bytes), (exists t, str = script_data (if d then r1 else r0) ++ t) ->
    exists k, s_in (get_side (negb d) st) = firstn k str.
  Proof.
    intros d str [t HS]. destruct (relay_prefix d) as [n Hn]. pose proof (consumed_prefix d) as Hc.
    exists (Nat.min n (length (s_out (get_side d st)))).
    rewrite Hn, HS, <- Hc, <- app_assoc, <- firstn_firstn.
    rewrite (firstn_app (length (s_out (get_side d st)))), Nat.sub_diag, firstn_all. cbn [firstn]. rewrite app_nil_r.
    reflexivity.
  Qed.

  (* ---------- (b) the conns are closed once each, after a copier finished or shutdown ---------- *)

  Theorem closes_exact : forall s, s_closes (get_side s st) = expected_closes s (mn st).
  Proof. exact (i_closes _ _ (reach_inv r0 w0 r1 w1 sched)). Qed.

  Theorem closes_at_most_once : forall s, s_closes (get_side s st) <= 1.
  Proof. intros s. rewrite closes_exact. destruct s, (mn st); cbn; lia. Qed.

  Theorem closes_once_when_returned : mn st = Returned -> forall s, s_closes (get_side s st) = 1.
  Proof. intros H s. rewrite closes_exact, H. reflexivity. Qed.

  (* c1 is closed before c2 (the defers run last-in first-out) *)
  Theorem closes_in_order : s_closes (side1 st) <= s_closes (side0 st).
  Proof.
    pose proof (closes_exact false) as H0. pose proof (closes_exact true) as H1. cbn [get_side] in H0, H1.
    rewrite H0, H1. destruct (mn st); cbn; lia.
  Qed.
End Reach.

Definition is_shutdown (x : cl_step) : bool := match x with Shutdown => true | _ => false end.

Lemma shut_wake s st : shut (wake s st) = shut st.
Proof. apply wake_facts. Qed.

Lemma shut_step st x : shut (cl_do st x) = shut st || is_shutdown x.
Proof.
  destruct x as [d| | |s]; cbn [cl_do is_shutdown]; rewrite ?orb_false_r, ?orb_true_r.
  - destruct (get_dir d st); [| |reflexivity].
    + unfold do_read, to_read, to_write.
      repeat match goal with
             | |- context [if ?b then _ else _] => destruct b
             | |- context [match ?x with _ => _ end] => destruct x
             end; autorewrite with cl; reflexivity.
    + unfold do_write, to_read.
      repeat match goal with
             | |- context [if ?b then _ else _] => destruct b
             | |- context [match ?x with _ => _ end] => destruct x
             end; autorewrite with cl; reflexivity.
  - unfold do_main. destruct (mn st); rewrite ?shut_wake; reflexivity.
  - rewrite do_shutdown_eq. reflexivity.
  - unfold do_ext. rewrite shut_wake, shut_ss. reflexivity.
Qed.

Lemma shut_run sched : forall st, shut (cl_run sched st) = shut st || existsb is_shutdown sched.
Proof.
  induction sched as [|x l IH]; intros st; cbn [cl_run fold_left existsb]; [rewrite orb_false_r; reflexivity|].
  change (fold_left cl_do l (cl_do st x)) with (cl_run l (cl_do st x)). rewrite IH, shut_step, orb_assoc. reflexivity.
Qed.

(* copyLoop leaves its select only after a copier has finished or the shutdown channel was closed *)
Theorem leaves_select_for_a_reason r0 w0 r1 w1 sched :
  let st := cl_run sched (cl_init r0 w0 r1 w1) in
  mn st <> Waiting -> (exists d, get_dir d st = Exited) \/ In Shutdown sched.
Proof.
  intros st Hw. destruct (i_cause _ _ (reach_inv r0 w0 r1 w1 sched) Hw) as [H|H]; [left; exact H|right].
  fold st in H. unfold st in H. rewrite shut_run in H. cbn in H. apply existsb_exists in H.
  destruct H as [x [Hin Hx]]. destruct x; try discriminate. exact Hin.
Qed.

(* ---------- (c) after the return nothing moves ---------- *)


Lemma wake_id s st : (forall d, get_dir d st = Exited) -> wake s st = st.
Proof. intros H. unfold wake. rewrite (H s), (H (negb s)). reflexivity. Qed.

Lemma returned_step_view D st x : cl_inv D st -> mn st = Returned -> view (cl_do st x) = view st.
Proof.
  intros Hi Hm. pose proof (returned_exited D st Hi Hm) as He.
  destruct x as [d| | |s]; cbn [cl_do].
  - rewrite (He d). reflexivity.
  - unfold do_main. rewrite Hm. reflexivity.
  - rewrite do_shutdown_eq. unfold view. cbn. rewrite Hm. reflexivity.
  - unfold do_ext. rewrite wake_id by (intros d; rewrite gd_ss; apply He). destruct s; reflexivity.
Qed.

Lemma view_mn st st' : view st' = view st -> mn st' = mn st.
Proof. unfold view. intros H. injection H. auto. Qed.

Lemma returned_run_view D more : forall st, cl_inv D st -> mn st = Returned -> view (cl_run more st) = view st.
Proof.
  induction more as [|x l IH]; intros st Hi Hm; [reflexivity|].
  cbn [cl_run fold_left]. change (fold_left cl_do l (cl_do st x)) with (cl_run l (cl_do st x)).
  pose proof (returned_step_view D st x Hi Hm) as Hv.
  rewrite IH; [exact Hv | apply step_inv; exact Hi | rewrite (view_mn _ _ Hv); exact Hm].
Qed.

Lemma cl_run_app a b st : cl_run (a ++ b) st = cl_run b (cl_run a st).
Proof. apply fold_left_app. Qed.

(* once copyLoop has returned, no later step of anybody changes a byte, a script position, a Close count or a
   copier: in particular nothing is written after the closes *)
Theorem returned_inert r0 w0 r1 w1 sched more :
  let st := cl_run sched (cl_init r0 w0 r1 w1) in
  mn st = Returned -> view (cl_run (sched ++ more) (cl_init r0 w0 r1 w1)) = view st.
Proof.
  intros st Hm. rewrite cl_run_app. apply (returned_run_view (script_of r0 r1)); [apply reach_inv | exact Hm].
Qed.

Theorem returned_both_exited r0 w0 r1 w1 sched :
  let st := cl_run sched (cl_init r0 w0 r1 w1) in mn st = Returned -> forall d, get_dir d st = Exited.
Proof. intros st Hm. apply (returned_exited (script_of r0 r1)); [apply reach_inv | exact Hm]. Qed.

Theorem late_zero r0 w0 r1 w1 sched : late (cl_run sched (cl_init r0 w0 r1 w1)) = (0, 0).
Proof.
  pose proof (i_ret _ _ (reach_inv r0 w0 r1 w1 sched)) as H. unfold ret_ok' in H. unfold late. rewrite H.
  destruct (mn _); try reflexivity. cbn [get_side]. rewrite !Nat.sub_diag. reflexivity.
Qed.

(* ---------- relay (CopyLoop) under the C01 packet path ---------- *)
(* The C01 theorems of Proofs/PacketPathProofs.v take as premise that the byte stream reaching the far end of a carrier
   is a prefix [firstn k] of what the honest sender put on it. The proxy sits in between: here the premise is discharged
   from the relay model. Side 0 = the client's WebRTC conn, side 1 = the WebSocket to the server (datachannelHandler). *)
From Snow Require Import Model.Encap Proofs.EncapProofs Model.CarrierLayer Proofs.CarrierProofs Proofs.PacketPathProofs.

(* upstream: the client side hands the relay (at most) an honest carrier stream; what the relay has written to the
   server side, fed to a fresh server-side carrier, queues a prefix of the client's packets under the client's id *)
Theorem upstream_via_relay : forall cid ps w r0 w0 r1 w1 sched,
  length cid = 8%nat -> wire_of ps = Some w ->
  is_prefix (script_data r0) (carrier_stream cid w) ->
  let s := s_in (side1 (cl_run sched (cl_init r0 w0 r1 w1))) in
  exists k' j, pump (S (S (S (length s)))) (fresh s) = (k', firstn j ps) /\
               k_up k' = firstn j ps /\ (j <> 0%nat -> k_cid k' = cid).
Proof.
  intros cid ps w r0 w0 r1 w1 sched Hc Hw Hp s.
  destruct (relay_prefix_of r0 r1 w0 w1 sched false (carrier_stream cid w) Hp) as [k Hk].
  cbn [negb get_side] in Hk. fold s in Hk. rewrite Hk. exact (upstream_cut cid ps w k Hc Hw).
Qed.

(* downstream: the server side hands the relay (at most) the framed packets w; whatever the relay has written to the
   client side, the client's packet reader (any reader behaviour sc) yields a prefix of the server's packets *)
Theorem downstream_via_relay : forall ps w r0 w0 r1 w1 sched sc,
  wire_of ps = Some w ->
  is_prefix (script_data r1) w ->
  let s := s_in (side0 (cl_run sched (cl_init r0 w0 r1 w1))) in
  exists j e, read_stream s sc = (firstn j ps, e) /\ (e = EOF \/ e = UnexpectedEOF).
Proof.
  intros ps w r0 w0 r1 w1 sched sc Hw Hp s.
  destruct (relay_prefix_of r0 r1 w0 w1 sched true w Hp) as [k Hk].
  cbn [negb get_side] in Hk. fold s in Hk. rewrite Hk. exact (reader_cut ps w k sc Hw).
Qed.
